module sjh

go 1.22

require (
	github.com/klauspost/cpuid/v2 v2.2.10
	github.com/minio/simdjson-go v0.0.0
)

require github.com/klauspost/compress v1.18.0

replace github.com/minio/simdjson-go => /repo
