package main

import (
	"bufio"
	"encoding/json"
	"fmt"
	"os"
	"strings"
	"time"
)

// runReplay re-executes a replay file: either a JSON disagreement record or plain op lines.
func runReplay(path string) int {
	b, err := os.ReadFile(path)
	if err != nil {
		fmt.Fprintln(os.Stderr, err)
		return 2
	}
	var ops []string
	var rec struct {
		Ops []string `json:"ops"`
	}
	if json.Unmarshal(b, &rec) == nil && len(rec.Ops) > 0 {
		ops = rec.Ops
	} else {
		sc := bufio.NewScanner(strings.NewReader(string(b)))
		sc.Buffer(make([]byte, 1<<20), 1<<30)
		for sc.Scan() {
			if l := strings.TrimSpace(sc.Text()); l != "" && !strings.HasPrefix(l, "#") {
				ops = append(ops, l)
			}
		}
	}
	if len(ops) == 1 && strings.HasPrefix(ops[0], "bigstream ") {
		// self-describing case with its own oracle (no model side)
		out := runBigStream(ops[0])
		fmt.Printf("   %s\n     impl : %s\n     expect: ok <all documents, in order, unchanged after delivery>\n", ops[0], out)
		if strings.HasPrefix(out, "ok ") {
			return 0
		}
		return 1
	}
	if len(ops) == 1 && strings.HasPrefix(ops[0], "handle ") {
		out := runHandleChain(ops[0])
		fmt.Printf("   %s\n     impl : %s\n     expect: ok <every call returns; accepted documents read as a fresh parse>\n", ops[0], out)
		if strings.HasPrefix(out, "ok ") {
			return 0
		}
		return 1
	}
	if len(ops) == 1 && strings.HasPrefix(ops[0], "straggler ") {
		out := runStraggler(ops[0])
		fmt.Printf("   %s\n     impl : %s\n     expect: ok <nothing writes the destination after Deserialize has returned>\n", ops[0], out)
		if strings.HasPrefix(out, "ok") {
			return 0
		}
		return 1
	}
	if len(ops) == 1 && strings.HasPrefix(ops[0], "chain ") {
		out := runAliasChain(ops[0])
		fmt.Printf("   %s\n     impl : %s\n     expect: ok <every live document reads as it did when it was made>\n", ops[0], out)
		if strings.HasPrefix(out, "ok ") {
			return 0
		}
		return 1
	}
	st := newStore()
	impl := make([]string, len(ops))
	for i, op := range ops {
		impl[i] = st.execTimed(op, 20*time.Second)
	}
	model, err := runDriver(append([]string{"reset"}, ops...))
	if err != nil {
		fmt.Fprintln(os.Stderr, err)
	}
	rc := 0
	for i, op := range ops {
		m := "<none>"
		if i+1 < len(model) {
			m = model[i+1]
		}
		mark := "  "
		if m != impl[i] {
			mark = "!!"
			rc = 1
		}
		fmt.Printf("%s %s\n     impl : %s\n     model: %s\n", mark, clip([]string{op}, 1)[0], clip([]string{impl[i]}, 1)[0], clip([]string{m}, 1)[0])
	}
	return rc
}
