package main

import (
	"encoding/binary"
	"fmt"
	"strings"

	simdjson "github.com/minio/simdjson-go"
)

func init() {
	suites["serde"] = suiteSerde
	suites["blob"] = suiteBlob
}

var modes = []simdjson.CompressMode{simdjson.CompressNone, simdjson.CompressFast, simdjson.CompressDefault, simdjson.CompressBest}

// suiteSerde: parse (+ edits), serialize in one mode, deserialize with a serializer in another mode,
// possibly reused serializers and destination; the document must be the same.
func suiteSerde(rn *runner, r *rng, tier string) {
	n := 1200
	if tier == "thorough" {
		n = 30000
	}
	// ownership chains (suite_chain.go): serialized bytes the caller keeps stay as they are and deserialize to the same
	// document again, whatever the Serializers are used for in between; recycled destinations disturb nobody else
	nc := 1500
	if tier == "thorough" {
		nc = 20000
	}
	for i := 0; i < nc; i++ {
		aliasChainCase(rn, r.fork(), 4+r.intn(12), "serde")
	}
	sA, sB := simdjson.NewSerializer(), simdjson.NewSerializer()
	var dstReuse *simdjson.ParsedJson
	for i := 0; i < n; i++ {
		cr := r.fork()
		if i%12 == 5 {
			dedupCase(rn, cr)
			continue
		}
		if i%12 == 9 {
			sharedStringCase(rn, cr, "p", "q")
			continue
		}
		cfg := defaultCfg(cr)
		cfg.maxDepth = 1 + cr.intn(4)
		nd := cr.chance(1, 3) && i%150 != 7
		var text string
		repetitive, sameSer := false, false
		switch {
		case nd:
			text, _ = cr.ndjson(cfg, 1+cr.intn(5), false)
		case cr.chance(1, 40):
			// many strings: tags/values beyond the 64 KiB flush blocks and colliding hash buckets
			var b strings.Builder
			b.WriteByte('[')
			k := 9000 + cr.intn(30000)
			for j := 0; j < k; j++ {
				if j > 0 {
					b.WriteByte(',')
				}
				fmt.Fprintf(&b, "\"s%d\"", cr.intn(k*2))
			}
			b.WriteByte(']')
			text = b.String()
		case i%150 == 7:
			// large and highly compressible: a few dozen compressed bytes declare hundreds of thousands of tape entries
			// (the declared sizes are far beyond any fixed multiple of the input length)
			k := []int{60000, 100000, 250000}[cr.intn(3)]
			el := []string{"0", "1234567", "true", "\"a\"", "null", "{}"}[cr.intn(6)]
			text = "[" + strings.Repeat(el+",", k-1) + el + "]"
			repetitive = true
		case i%100 == 33:
			// more than 64 Ki tags and next to no values (the two scratch buffers of the Serializer start at 64 KiB each
			// and grow independently), written and read back by ONE Serializer
			text = cr.literals([]int{65530, 65540, 66000, 70000, 100000, 131000, 131100, 200000}[cr.intn(8)] + cr.intn(3))
			sameSer = true
		case cr.chance(1, 8):
			// tags outnumber values: varint size classes of the two blocks differ
			text = cr.literals([]int{100, 120, 125, 127, 128, 129, 200, 1000, 2000, 16384, 16500}[cr.intn(11)] + cr.intn(3))
		default:
			text = cr.doc(cfg)
		}
		c := &opsCase{r: cr, tc: &testCase{note: "serde"}, st: newStore(), nd: nd}
		ndS, cpS := "0", "0"
		if nd {
			ndS = "1"
		}
		if cr.chance(1, 2) {
			cpS = "1"
		}
		if out := c.emit(fmt.Sprintf("parse p %s %s %s", ndS, cpS, hx([]byte(text)))); !strings.HasPrefix(out, "ok") {
			continue
		}
		c.pj = c.st.pjs["p"]
		roots, err := refDecode(c.pj)
		if err != nil {
			continue
		}
		big := len(text) > 20000
		nEdits := cr.intn(4)
		if big {
			nEdits = 0
		}
		for e := 0; e < nEdits; e++ {
			c.oneEdit(roots)
		}
		m1, m2 := modes[cr.intn(4)], modes[cr.intn(4)]
		nextSerde = serdeOpts{m1: m1, m2: m2}
		reuseKind := cr.intn(5)
		if repetitive {
			if m1 == simdjson.CompressNone {
				m1 = simdjson.CompressDefault
				nextSerde.m1 = m1
			}
			if cr.chance(2, 3) {
				reuseKind = 0 // fresh Serializer and nil destination: nothing grown by earlier documents
			}
		}
		if reuseKind >= 1 {
			nextSerde.s1, nextSerde.s2 = sA, sB
		}
		if sameSer || cr.chance(1, 10) {
			nextSerde.s1, nextSerde.s2 = sA, sA // the same Serializer in both directions
		}
		if reuseKind == 2 {
			nextSerde.dst = dstReuse
		}
		if reuseKind == 3 {
			// a destination that Parse produced (copied strings: its string buffer is not empty), as when one object is
			// recycled for parsing and for deserializing
			if d, err := simdjson.Parse([]byte(`{"key one":"a string value","k2":["abc",1,2.5,"\u00e9"],"n":null}`), nil); err == nil {
				nextSerde.dst = d
			}
		}
		if reuseKind == 4 && dstReuse != nil {
			// an earlier result of Deserialize that was edited in place since (SetString appends to its string buffer)
			it := dstReuse.Iter()
			for it.Advance() != simdjson.TypeNone {
				var el simdjson.Iter
				if t, _, err := it.Root(&el); err == nil && t != simdjson.TypeNone {
					func() {
						defer func() { recover() }()
						var walk func(i *simdjson.Iter, depth int) bool
						walk = func(i *simdjson.Iter, depth int) bool {
							switch i.Type() {
							case simdjson.TypeString, simdjson.TypeInt, simdjson.TypeUint, simdjson.TypeFloat:
								return i.SetString("edited since it was deserialized") == nil
							case simdjson.TypeArray:
								if a, err := i.Array(nil); err == nil && depth < 4 {
									ai := a.Iter()
									for ai.Advance() != simdjson.TypeNone {
										if walk(&ai, depth+1) {
											return true
										}
									}
								}
							case simdjson.TypeObject:
								if o, err := i.Object(nil); err == nil && depth < 4 {
									var e simdjson.Iter
									for {
										_, t, err := o.NextElement(&e)
										if err != nil || t == simdjson.TypeNone {
											break
										}
										if walk(&e, depth+1) {
											return true
										}
									}
								}
							}
							return false
						}
						walk(&el, 0)
					}()
				}
				break
			}
			nextSerde.dst = dstReuse
		}
		out := c.emit("serde q p")
		c.expectLast(fmt.Sprintf("ok %d", len(c.pj.Tape)))
		if strings.HasPrefix(out, "ok") {
			dstReuse = c.st.pjs["q"]
			if !big && m1 == simdjson.CompressNone && len(lastBlob) < 30000 {
				// the bytes written: exactly what the encoder model (Lean: encodeSections) writes for their own sections
				c.emit("reencode " + hx(lastBlob))
			}
			if !big {
				c.emit("owalk q")
				c.expectLast(ordRoots(roots))
				c.emit("wf q")
				c.expectLast("wf " + ordRoots(roots))
				// … and the rebuilt NOP runs count down to the next live entry exactly
				c.emit("nopsexact q")
				c.expectLast("exact")
				c.emit("iter i q")
				c.emit("marshal i")
				c.emit("iter j p")
				ms := c.emit("marshal j")
				c.tc.expect[len(c.tc.ops)-3] = ms
			} else {
				// compare through the implementation only (documents too large for the list-based model dump)
				a, _ := owalk(c.pj)
				b, _ := owalk(c.st.pjs["q"])
				if a != b {
					c.emit("owalk q")
					c.expectLast("<same document as the source>")
				}
				c.tc.ops = c.tc.ops[:0]
				c.tc.impl = c.tc.impl[:0]
				c.tc.expect = nil
			}
		}
		// the runner re-executes the case; it must use the same modes
		c.tc.class = fmt.Sprintf("nd=%v/m=%d>%d/reuse=%d/edits=%d/%s", nd, m1, m2, reuseKind, nEdits, sizeClass(len(text)))
		rn.addPrepared(c.tc)
	}
	compareNoasm(rn, "serde")
	rn.rep.Rule = "parse (+0-3 edits), Serialize in mode m1, Deserialize by a serializer in mode m2 (fresh or reused serializers and destination); expectations from the reference tree; every 12th case reuses one serializer for two documents built so that a string and a longer string with the same prefix collide in the de-duplication table while the first document left the rest of the longer one behind in the buffer; distinct = (nd, modes, reuse, edits, size)"
}

// dedupCase: one Serializer used twice. The second document holds a string x and, after it, a longer string t = x+tail
// that falls into the same bucket of the de-duplication table as x; the first document left exactly `tail` behind in
// the serializer's string buffer right after where x lands. A lookup that trusts anything beyond the live part of
// the buffer takes t for already stored.
func dedupCase(rn *runner, cr *rng) {
	letters := func(n int) string {
		b := make([]byte, n)
		for i := range b {
			b[i] = byte('a' + cr.intn(26))
		}
		return string(b)
	}
	x := letters(2 + cr.intn(7))
	var t string
	bx := simdjson.VerifStringBucket([]byte(x))
	for tries := 0; tries < 2000000; tries++ {
		cand := x + letters(1+cr.intn(8))
		if simdjson.VerifStringBucket([]byte(cand)) == bx {
			t = cand
			break
		}
	}
	if t == "" {
		return
	}
	asKeys := cr.chance(1, 3)
	doc1 := fmt.Sprintf("[%q]", t)
	doc2 := fmt.Sprintf("[%q,%q,%q]", x, t, letters(3))
	if asKeys {
		doc2 = fmt.Sprintf("{%q:1,%q:2}", x, t)
	}
	c := &opsCase{r: cr, tc: &testCase{note: "serde-dedup"}, st: newStore()}
	ser := simdjson.NewSerializer()
	mode := modes[cr.intn(4)]
	if out := c.emit("parse p1 0 1 " + hx([]byte(doc1))); !strings.HasPrefix(out, "ok") {
		return
	}
	nextSerde = serdeOpts{m1: mode, m2: mode, s1: ser, s2: ser}
	c.emit("serde q1 p1")
	if out := c.emit("parse p 0 1 " + hx([]byte(doc2))); !strings.HasPrefix(out, "ok") {
		return
	}
	c.pj = c.st.pjs["p"]
	roots, err := refDecode(c.pj)
	if err != nil {
		return
	}
	nextSerde = serdeOpts{m1: mode, m2: mode, s1: ser, s2: ser}
	c.emit("serde q p")
	c.expectLast(fmt.Sprintf("ok %d", len(c.pj.Tape)))
	c.emit("owalk q")
	c.expectLast(ordRoots(roots))
	c.emit("wf q")
	c.expectLast("wf " + ordRoots(roots))
	c.tc.class = fmt.Sprintf("dedup-collision/keys=%v/m=%d", asKeys, mode)
	rn.addPrepared(c.tc)
}

// sharedStringCase: after a round trip equal strings share one stretch of the message buffer (de-duplication).
// Replacing one occurrence (same length, shorter, longer) must leave every other occurrence, keys included, alone.
func sharedStringCase(rn *runner, cr *rng, src, q string) {
	w := []string{"hello", "k", "shared value", "é中"}[cr.intn(4)]
	doc := fmt.Sprintf("{\"a\":%q,\"b\":%q,\"c\":[%q,\"other\"],%q:1}", w, w, w, w)
	c := &opsCase{r: cr, tc: &testCase{note: "serde-shared-string"}, st: newStore()}
	if out := c.emit(fmt.Sprintf("parse %s 0 %d %s", src, cr.intn(2), hx([]byte(doc)))); !strings.HasPrefix(out, "ok") {
		return
	}
	mode := modes[cr.intn(4)]
	nextSerde = serdeOpts{m1: mode, m2: mode}
	if out := c.emit("serde " + q + " " + src); !strings.HasPrefix(out, "ok") {
		rn.addPrepared(c.tc)
		return
	}
	c.pj = c.st.pjs[q]
	roots, err := refDecode(c.pj)
	if err != nil {
		return
	}
	for e := 0; e < 1+cr.intn(3); e++ {
		repl := []string{strings.ToUpper(w), w[:len(w)/2], w + " and more", "", "X"}[cr.intn(5)]
		if !c.setStrOn(roots, q, repl) {
			break
		}
		c.emit("owalk " + q)
		c.expectLast(ordRoots(roots))
	}
	c.emit("iter i " + q)
	c.emit("marshal i")
	c.emit("serde r " + q)
	c.emit("owalk r")
	c.expectLast(ordRoots(roots))
	c.tc.class = fmt.Sprintf("shared-string/m=%d/w=%d", mode, len(w))
	rn.addPrepared(c.tc)
}

// suiteBlob: corrupt and truncated serialized data; outcome and, when accepted, every walk.
func suiteBlob(rn *runner, r *rng, tier string) {
	n := 3000
	if tier == "thorough" {
		n = 80000
	}
	tagAlphabet := []byte{'"', 'l', 'u', 'd', 'e', 'n', 't', 'f', '{', '}', '[', ']', 'r', 'N', 0, 'x'}
	for i := 0; i < n; i++ {
		cr := r.fork()
		tc := &testCase{note: "blob"}
		kind := cr.intn(5)
		switch kind {
		case 0, 1: // random sections (framing intact): exercises the reconstruction loop
			nt := cr.intn(12)
			tags := make([]byte, nt)
			for j := range tags {
				tags[j] = tagAlphabet[cr.intn(len(tagAlphabet))]
			}
			nv := cr.intn(6)
			vals := make([]byte, 8*nv)
			for j := 0; j < nv; j++ {
				var v uint64
				switch cr.intn(7) {
				case 5, 6: // a forged tape word (what a float-with-flag tag copies verbatim): any tag, small payload
					v = uint64(tagAlphabet[cr.intn(len(tagAlphabet))])<<56 | uint64(cr.intn(8))
				case 0:
					v = uint64(cr.intn(16))
				case 1:
					v = ^uint64(0) - uint64(cr.intn(4))
				case 2:
					v = cr.u64()
				default:
					v = uint64(cr.intn(4))
				}
				binary.LittleEndian.PutUint64(vals[8*j:], v)
			}
			if cr.chance(1, 4) && len(vals) > 0 {
				vals = vals[:len(vals)-1-cr.intn(7)%len(vals)]
			}
			ts := cr.intn(14)
			msg := []byte("hello world")[:cr.intn(12)]
			tc.ops = append(tc.ops, fmt.Sprintf("deser d %d - %s %s %s", ts, hx(msg), hx(tags), hx(vals)))
		case 2, 3: // mutate the sections of a valid serialization
			cfg := defaultCfg(cr)
			cfg.maxDepth = 1 + cr.intn(3)
			cfg.maxMembers = 4
			pj, err := simdjson.Parse([]byte(cr.doc(cfg)), nil)
			if err != nil {
				continue
			}
			ts, msg, tags, vals := sectionsOf(pj)
			switch cr.intn(8) {
			case 6, 7:
				// retag a number as float-with-flag: its first value word is then copied verbatim onto the tape,
				// so any tape word (a NOP with skip 0, a container pointing backwards, …) can be forged
				var cand []int
				voff := make([]int, len(tags))
				vo := 0
				for k, t := range tags {
					voff[k] = vo
					switch t {
					case '"', 'e':
						vo += 16
					case 'l', 'u', 'd', '{', '[', 'r':
						vo += 8
					}
					if t == 'l' || t == 'u' || t == 'd' {
						cand = append(cand, k)
					}
				}
				if len(cand) > 0 {
					k := cand[cr.intn(len(cand))]
					tags[k] = 'e'
					forged := make([]byte, 8)
					w := uint64(tagAlphabet[cr.intn(len(tagAlphabet))])<<56 | uint64(cr.intn(int(ts)+2))
					binary.LittleEndian.PutUint64(forged, w)
					nv := append([]byte(nil), vals[:voff[k]]...)
					nv = append(nv, forged...)
					vals = append(nv, vals[voff[k]:]...)
				}
			case 0:
				if len(tags) > 0 {
					tags[cr.intn(len(tags))] = tagAlphabet[cr.intn(len(tagAlphabet))]
				}
			case 1:
				if len(vals) > 0 {
					vals[cr.intn(len(vals))] ^= 1 << uint(cr.intn(8))
				}
			case 2:
				if len(tags) > 0 {
					k := cr.intn(len(tags))
					tags = append(tags[:k], tags[k+1:]...)
				}
			case 3:
				if len(vals) >= 8 {
					k := 8 * cr.intn(len(vals)/8)
					vals = append(vals[:k], vals[k+8:]...)
				}
			case 4:
				ts = uint64(cr.intn(int(ts) + 3))
			case 5:
				if len(tags) > 0 {
					k := cr.intn(len(tags))
					tags = append(tags[:k+1], tags[k:]...)
				}
			}
			tc.ops = append(tc.ops, fmt.Sprintf("deser d %d - %s %s %s", ts, hx(msg), hx(tags), hx(vals)))
		default: // raw blob: truncation / byte mutation of an uncompressed serialization, or random bytes
			var blob []byte
			if cr.chance(1, 4) {
				blob = make([]byte, cr.intn(40))
				for j := range blob {
					blob[j] = byte(cr.intn(256))
				}
				if len(blob) > 0 && cr.chance(3, 4) {
					blob[0] = byte(1 + cr.intn(3))
				}
			} else {
				cfg := defaultCfg(cr)
				cfg.maxDepth = 2
				cfg.maxMembers = 4
				pj, err := simdjson.Parse([]byte(cr.doc(cfg)), nil)
				if err != nil {
					continue
				}
				s := simdjson.NewSerializer()
				s.CompressMode(simdjson.CompressNone)
				blob = s.Serialize(nil, *pj)
				switch cr.intn(5) {
				case 0:
					blob = blob[:cr.intn(len(blob)+1)]
				case 1:
					blob[cr.intn(len(blob))] = byte(cr.intn(256))
				case 2:
					k := cr.intn(len(blob))
					blob = append(blob[:k], blob[k+1:]...)
				default:
					// varint surgery: one size field of the intact framing replaced by an extreme value — block sizes and
					// the total by anything up to 2^64-1 and by over-long encodings (they are compared with what is left,
					// never allocated), declared section sizes by small extremes only (the property's scope)
					blob = varintSurgery(cr, blob)
				}
				// keep only blobs whose blocks are uncompressed or of unknown type: the model has no codec
			}
			if !declaredSizesSmall(blob, 1<<16) {
				continue
			}
			tc.ops = append(tc.ops, "deserraw d "+hx(blob))
		}
		tc.ops = append(tc.ops, "tape d", "wf d", "owalk d", "iter i d", "interface i", "iter j d", "marshal j",
			"iter k d", "advance k", "advinto k", "peektag k", "iter f d", "findelem f g 61",
			"iter r0 d", "advinto r0", "root r1 r0", "type r1", "iter a0 d", "adviter a0 a1", "copyiter a2 a1", "interface a2", "marshal a1")
		rn.add(tc)
		oc := outcomeOf(tc.impl[0])
		wf := "-"
		if len(tc.impl) > 2 {
			wf = outcomeOf(tc.impl[2])
		}
		cls := fmt.Sprintf("kind=%d/%s/%s", kind, oc, wf)
		rn.rep.Distribution[cls]++
		rn.seen[cls] = true
		for k, o := range tc.impl {
			if o == "panic" || o == "hang" {
				rn.disagree(disagreement{Kind: "spec", Ops: tc.ops, At: k, Impl: o, Other: "<no panic, no hang>", Note: "blob"})
			}
		}
	}
	compareNoasm(rn, "blob")
	rn.rep.Rule = "random and mutated tag/value sections behind intact framing, mutated/truncated uncompressed blobs, random bytes; each accepted result is walked, marshalled and looked up; distinct = (generator, outcome, well-formedness)"
}

// declaredSizesSmall follows the order in which Deserialize reads sizes and allocates, and reports
// whether every declared size is at most lim (the property's "small enough to allocate").
func declaredSizesSmall(b []byte, lim uint64) bool {
	p := 1
	if len(b) < 1 {
		return true
	}
	rdv := func() (uint64, bool) {
		if p >= len(b) {
			return 0, false
		}
		v, n := binary.Uvarint(b[p:])
		if n <= 0 {
			return 0, false
		}
		p += n
		return v, true
	}
	skipBlock := func() bool {
		sz, ok := rdv()
		if !ok || sz > uint64(len(b)-p) {
			return false
		}
		p += int(sz)
		return true
	}
	if _, ok := rdv(); !ok { // total
		return true
	}
	for k := 0; k < 5; k++ { // tape, strings, message, tags, values
		v, ok := rdv()
		if !ok {
			return true
		}
		if v > lim {
			return false
		}
		if k == 0 {
			continue
		}
		if !skipBlock() {
			return true
		}
	}
	return true
}

// sectionsOf extracts the sections of a CompressNone serialization of pj.
func sectionsOf(pj *simdjson.ParsedJson) (ts uint64, msg, tags, vals []byte) {
	s := simdjson.NewSerializer()
	s.CompressMode(simdjson.CompressNone)
	b := s.Serialize(nil, *pj)
	p := 1
	rdv := func() uint64 {
		v, n := binary.Uvarint(b[p:])
		p += n
		return v
	}
	blk := func(want uint64) []byte {
		sz := rdv()
		if sz == 0 {
			return nil
		}
		p++ // type
		d := b[p : p+int(sz)-1]
		p += int(sz) - 1
		return append([]byte(nil), d...)
	}
	rdv() // total
	ts = rdv()
	ss := rdv()
	blk(ss)
	ms := rdv()
	msg = blk(ms)
	tl := rdv()
	tags = blk(tl)
	vl := rdv()
	vals = blk(vl)
	return
}

// varintSurgery replaces one varint of an uncompressed serialization by an extreme value. Field order: total, tape size,
// strings size, [block size, block], message size, [block size, block], tags size, [block size, block], values size,
// [block size, block].
func varintSurgery(cr *rng, b []byte) []byte {
	type field struct {
		at, n int
		alloc bool // a declared size that Deserialize allocates
	}
	var fs []field
	p := 1
	rd := func(alloc bool) (uint64, bool) {
		if p >= len(b) {
			return 0, false
		}
		v, n := binary.Uvarint(b[p:])
		if n <= 0 {
			return 0, false
		}
		fs = append(fs, field{p, n, alloc})
		p += n
		return v, true
	}
	if _, ok := rd(false); !ok {
		return b
	}
	if _, ok := rd(true); !ok { // tape size
		return b
	}
	for k := 0; k < 4; k++ {
		if _, ok := rd(true); !ok {
			break
		}
		sz, ok := rd(false)
		if !ok || sz > uint64(len(b)-p) {
			break
		}
		p += int(sz)
	}
	if len(fs) == 0 {
		return b
	}
	f := fs[cr.intn(len(fs))]
	var enc []byte
	if f.alloc {
		v := []uint64{0, 1, 2, 127, 128, 255, 256, 65535, 65536}[cr.intn(9)]
		enc = binary.AppendUvarint(nil, v)
	} else {
		switch cr.intn(4) {
		case 0: // over-long / overflowing encodings
			enc = [][]byte{
				{0x80, 0x80, 0x80, 0x80, 0x80, 0x80, 0x80, 0x80, 0x80, 0x80, 0x01},
				{0xff, 0xff, 0xff, 0xff, 0xff, 0xff, 0xff, 0xff, 0xff, 0x02},
				{0xff, 0xff, 0xff, 0xff, 0xff, 0xff, 0xff, 0xff, 0xff, 0x7f},
				{0x80, 0x00},
			}[cr.intn(4)]
		default:
			base := []uint64{0, 1, 2, 1 << 31, 1 << 32, 1 << 56, 1<<63 - 1, 1 << 63, 1<<63 + 1, ^uint64(0) - 1, ^uint64(0), uint64(len(b)), uint64(len(b) - f.at)}[cr.intn(13)]
			enc = binary.AppendUvarint(nil, base+uint64(cr.intn(3))-1)
		}
	}
	out := append([]byte(nil), b[:f.at]...)
	out = append(out, enc...)
	return append(out, b[f.at+f.n:]...)
}

// varintFields: offsets of the varint fields of a serialized blob (total, tape size, strings size, [block size], message
// size, [block size], tags size, [block size], values size, [block size]), as far as the framing can be followed
func varintFields(b []byte) []int {
	var out []int
	p := 1
	rd := func() (uint64, bool) {
		if p >= len(b) {
			return 0, false
		}
		v, n := binary.Uvarint(b[p:])
		if n <= 0 {
			return 0, false
		}
		out = append(out, p)
		p += n
		return v, true
	}
	if _, ok := rd(); !ok {
		return out
	}
	if _, ok := rd(); !ok {
		return out
	}
	for k := 0; k < 4; k++ {
		if _, ok := rd(); !ok {
			break
		}
		sz, ok := rd()
		if !ok || sz > uint64(len(b)-p) {
			break
		}
		p += int(sz)
	}
	return out
}
