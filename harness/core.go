package main

import (
	"encoding/json"
	"fmt"
	"os"
	"sort"
	"strings"
	"time"
)

// A testCase is a sequence of ops run on a fresh store on both sides.
type testCase struct {
	ops   []string
	impl  []string // implementation replies
	class string   // distribution key (outcome / size class / generator branch)
	note  string
	// expect, when set for an op index, is the reply the *property* demands (spec oracle), compared with impl.
	expect map[int]string
}

type disagreement struct {
	Kind   string   `json:"kind"` // "model" (impl vs model) or "spec" (impl vs property oracle)
	Ops    []string `json:"ops"`
	At     int      `json:"at"`
	Impl   string   `json:"impl"`
	Other  string   `json:"other"`
	Note   string   `json:"note,omitempty"`
	Detail string   `json:"detail,omitempty"`
}

type report struct {
	Property      string         `json:"property"`
	Tier          string         `json:"tier"`
	Seed          uint64         `json:"seed"`
	Evaluations   int            `json:"evaluations"`
	Distinct      int            `json:"distinct_nontrivial"`
	Rule          string         `json:"rule"`
	Samples       []interface{}  `json:"samples"`
	Distribution  map[string]int `json:"distribution"`
	Disagreements []disagreement `json:"disagreements"`
	WallS         float64        `json:"wall_s"`
	Notes         []string       `json:"notes,omitempty"`
}

type runner struct {
	rep     *report
	pending []*testCase
	seen    map[string]bool
	batch   int
	maxDis  int
	start   time.Time

	recordLast string
}

func newRunner(prop, tier string, seed uint64) *runner {
	return &runner{rep: &report{Property: prop, Tier: tier, Seed: seed, Distribution: map[string]int{}}, seen: map[string]bool{}, batch: 400, maxDis: 20, start: time.Now()}
}

// add executes the case on the implementation and queues it for the model.
func (rn *runner) add(tc *testCase) { rn.addWith(tc, nil) }

// lastStore is the store of the case executed last by addWith (suites that carry objects over to the next case)
var lastStore *store

// addWith runs `pre` before every op (used to set per-op harness-side options).
func (rn *runner) addWith(tc *testCase, pre func()) {
	if rn.recordLast != "" {
		// a fatal runtime error (stack overflow, out of memory) kills the process: leave the case behind as replay
		os.WriteFile(rn.recordLast, []byte(strings.Join(tc.ops, "\n")+"\n"), 0o644)
	}
	st := newStore()
	lastStore = st
	tc.impl = make([]string, len(tc.ops))
	for i, op := range tc.ops {
		if pre != nil {
			pre()
		}
		tc.impl[i] = st.execTimed(op, 20*time.Second)
		if tc.impl[i] == "hang" {
			// the goroutine is leaked; stop this case here
			tc.ops = tc.ops[:i+1]
			tc.impl = tc.impl[:i+1]
			break
		}
	}
	rn.rep.Evaluations++
	if tc.class != "" {
		rn.rep.Distribution[tc.class]++
		if !rn.seen[tc.class] {
			rn.seen[tc.class] = true
		}
	}
	if len(rn.rep.Samples) < 5 && len(tc.ops) > 0 {
		rn.rep.Samples = append(rn.rep.Samples, map[string]interface{}{"ops": clip(tc.ops, 6), "impl": clip(tc.impl, 6)})
	}
	// spec expectations are checked immediately
	for i, want := range tc.expect {
		if i < len(tc.impl) && tc.impl[i] != want {
			rn.disagree(disagreement{Kind: "spec", Ops: tc.ops, At: i, Impl: tc.impl[i], Other: want, Note: tc.note})
		}
	}
	rn.pending = append(rn.pending, tc)
	if len(rn.pending) >= rn.batch {
		rn.flush()
	}
}

// addPrepared queues a case whose implementation replies were already computed by the suite.
func (rn *runner) addPrepared(tc *testCase) {
	rn.rep.Evaluations++
	if tc.class != "" {
		rn.rep.Distribution[tc.class]++
		rn.seen[tc.class] = true
	}
	if len(rn.rep.Samples) < 5 && len(tc.ops) > 0 {
		rn.rep.Samples = append(rn.rep.Samples, map[string]interface{}{"ops": clip(tc.ops, 6), "impl": clip(tc.impl, 6)})
	}
	for i, want := range tc.expect {
		if i < len(tc.impl) && tc.impl[i] != want {
			rn.disagree(disagreement{Kind: "spec", Ops: tc.ops, At: i, Impl: tc.impl[i], Other: want, Note: tc.note})
		}
	}
	rn.pending = append(rn.pending, tc)
	if len(rn.pending) >= rn.batch {
		rn.flush()
	}
}

func clip(xs []string, n int) []string {
	if len(xs) > n {
		xs = xs[:n]
	}
	out := make([]string, len(xs))
	for i, x := range xs {
		if len(x) > 300 {
			x = x[:300] + "…"
		}
		out[i] = x
	}
	return out
}

func (rn *runner) disagree(d disagreement) {
	// the cap is per kind: a flood of model disagreements must not crowd out the concrete (spec) ones
	n := 0
	for _, x := range rn.rep.Disagreements {
		if x.Kind == d.Kind {
			n++
		}
	}
	if n < rn.maxDis {
		rn.rep.Disagreements = append(rn.rep.Disagreements, d)
	}
}

// flush sends the queued cases through the model and compares reply by reply.
func (rn *runner) flush() {
	if len(rn.pending) == 0 {
		return
	}
	var lines []string
	for _, tc := range rn.pending {
		lines = append(lines, "reset")
		lines = append(lines, tc.ops...)
	}
	replies, err := runDriver(lines)
	if err != nil {
		rn.rep.Notes = append(rn.rep.Notes, err.Error())
	}
	k := 0
	for _, tc := range rn.pending {
		k++ // reset
		diverged := false
		for i := range tc.ops {
			if k >= len(replies) {
				rn.disagree(disagreement{Kind: "model", Ops: tc.ops, At: i, Impl: tc.impl[i], Other: "<driver died>", Note: tc.note})
				break
			}
			if diverged {
				// implementation and model already differ in this case: later replies are not comparable, but the
				// specification's verdict on the input still is (it does not depend on the stores)
				if strings.HasPrefix(tc.ops[i], "spec") && replies[k] != "outside" && replies[k] != tc.impl[i] {
					rn.disagree(disagreement{Kind: "spec", Ops: tc.ops, At: i, Impl: tc.impl[i], Other: replies[k], Note: tc.note})
				}
				if strings.HasPrefix(tc.ops[i], "spec ") {
					rn.parseVsSpec(tc, i, replies[k])
				}
				k++
				continue
			}
			if strings.HasPrefix(tc.ops[i], "spec") {
				// property oracle: the specification's verdict against what the implementation did
				rn.rep.Distribution["spec:"+outcomeOf(replies[k])]++
				if replies[k] != "outside" && replies[k] != tc.impl[i] {
					rn.disagree(disagreement{Kind: "spec", Ops: tc.ops, At: i, Impl: tc.impl[i], Other: replies[k], Note: tc.note})
				}
				rn.parseVsSpec(tc, i, replies[k])
				k++
				continue
			}
			if strings.HasPrefix(tc.ops[i], "sched ") && strings.HasPrefix(replies[k], tc.impl[i]) {
				k++
				continue
			}
			if replies[k] != tc.impl[i] {
				rn.disagree(disagreement{Kind: "model", Ops: tc.ops, At: i, Impl: tc.impl[i], Other: replies[k], Note: tc.note})
				diverged = true
			}
			k++
		}
	}
	rn.pending = rn.pending[:0]
}

// parseVsSpec compares the specification's verdict on an input (reply to the `spec` op at index i) with the outcome of
// the parse call of the same case on the same bytes — which may have been given a reuse argument or caller-owned
// destinations: acceptance must not depend on those.
func (rn *runner) parseVsSpec(tc *testCase, i int, verdict string) {
	if verdict == "outside" || !strings.HasPrefix(tc.ops[i], "spec ") {
		return
	}
	sw := strings.Fields(tc.ops[i])
	for j := 0; j < i; j++ {
		pw := strings.Fields(tc.ops[j])
		if len(pw) == 5 && pw[0] == "parse" && len(sw) == 3 && pw[2] == sw[1] && pw[4] == sw[2] {
			accepted := strings.HasPrefix(tc.impl[j], "ok")
			if accepted != strings.HasPrefix(verdict, "accept") {
				rn.disagree(disagreement{Kind: "spec", Ops: tc.ops, At: j, Impl: tc.impl[j], Other: outcomeOf(verdict), Note: tc.note, Detail: "outcome of the parse call against the specification's verdict on the same input"})
			} else if accepted && sw[0] == "spec" {
				// the ordered read-back of that very object must be the document the specification assigns to the text
				for q := j + 1; q < i; q++ {
					if tc.ops[q] == "owalk "+pw[1] && "accept "+tc.impl[q] != verdict {
						rn.disagree(disagreement{Kind: "spec", Ops: tc.ops, At: q, Impl: tc.impl[q], Other: strings.TrimPrefix(verdict, "accept "), Note: tc.note, Detail: "ordered read-back of the parsed object against the document the specification assigns to the input"})
						break
					}
				}
			}
			return
		}
	}
}

func (rn *runner) finish(path string) {
	rn.flush()
	rn.rep.Distinct = len(rn.seen)
	rn.rep.WallS = time.Since(rn.start).Seconds()
	keys := make([]string, 0, len(rn.rep.Distribution))
	for k := range rn.rep.Distribution {
		keys = append(keys, k)
	}
	sort.Strings(keys)
	b, _ := json.MarshalIndent(rn.rep, "", " ")
	if path == "" || path == "-" {
		os.Stdout.Write(b)
		fmt.Println()
		return
	}
	if err := os.WriteFile(path, b, 0o644); err != nil {
		fmt.Fprintln(os.Stderr, "write report:", err)
		os.Exit(3)
	}
	fmt.Printf("%s: %d cases, %d classes, %d disagreements, %.1fs\n", rn.rep.Property, rn.rep.Evaluations, rn.rep.Distinct, len(rn.rep.Disagreements), rn.rep.WallS)
}

func sizeClass(n int) string {
	switch {
	case n < 64:
		return "<64"
	case n < 512:
		return "<512"
	case n < 8192:
		return "<8K"
	case n == 8192:
		return "=8K"
	case n < 1<<16:
		return "<64K"
	default:
		return ">=64K"
	}
}

func outcomeOf(reply string) string {
	if i := strings.IndexByte(reply, ' '); i > 0 {
		return reply[:i]
	}
	return reply
}
