package main

import (
	"fmt"
	"runtime"
	"strings"
	"sync"
	"sync/atomic"
	"time"

	simdjson "github.com/minio/simdjson-go"
)

func init() {
	suites["sched"] = suiteSched
}

// C07: forced interleavings of the two stages through the verif hook points.
func suiteSched(rn *runner, r *rng, tier string) {
	n := 150
	if tier == "thorough" {
		n = 4000
	}
	slots, _, _ := simdjson.VerifRing()
	defer func() { simdjson.VerifHook = nil }()
	oldProcs := runtime.GOMAXPROCS(0)
	defer runtime.GOMAXPROCS(oldProcs)
	for i := 0; i < n; i++ {
		cr := r.fork()
		// documents needing 1..60 index buffers (1408 indexes each), valid or failing early/late
		bufs := 1 + cr.intn(6)
		if cr.chance(1, 6) {
			bufs = 16 + cr.intn(45)
		}
		var b strings.Builder
		b.WriteByte('[')
		elems := bufs * 700
		for k := 0; k < elems; k++ {
			if k > 0 {
				b.WriteByte(',')
			}
			switch cr.intn(6) {
			case 0:
				b.WriteString("\"s\"")
			case 1:
				b.WriteString("{}")
			default:
				b.WriteByte(byte('0' + cr.intn(10)))
			}
		}
		b.WriteByte(']')
		text := b.String()
		kind := "valid"
		switch cr.intn(7) {
		case 0: // stage-1 error early: control character in a string near the start
			text = "[\"\x01\"," + text[1:]
			kind = "s1-early"
		case 1: // stage-1 error late: unterminated string at the end
			text = text[:len(text)-1] + ",\"abc"
			kind = "s1-late"
		case 2: // stage-2 error before the last buffer
			p := len(text) / 3
			text = text[:p] + "]" + text[p:]
			kind = "s2-early"
		case 3: // stage-2 error after the last buffer arrived
			text = text[:len(text)-1] + "}"
			kind = "s2-late"
		}
		for len(text) <= 8192 {
			text = "[" + text + "," + strings.Repeat(" ", 4000) + "1]"
		}
		mode := cr.intn(5)
		procs := []int{1, 2, 4, 16}[cr.intn(4)]
		runtime.GOMAXPROCS(procs)

		// a reusable object gives access to the live channel through VerifChanLen
		reuse, err := simdjson.Parse([]byte("[1]"), nil)
		if err != nil {
			panic(err)
		}
		h := simdjson.VerifInternalOf(reuse)
		capN := h.ChanCap()
		var mu sync.Mutex
		var trace []byte
		var producerDone atomic.Bool
		hr := cr.fork()
		simdjson.VerifHook = func(ev int, a, bb uint64) {
			mu.Lock()
			switch ev {
			case simdjson.VerifEvSlotAcquired:
				trace = append(trace, 'a')
			case simdjson.VerifEvBeforeRecv:
				trace = append(trace, 'R')
			case simdjson.VerifEvBeforeTerm:
				producerDone.Store(true)
			case simdjson.VerifEvStage2Done:
				if a == 0 {
					trace = append(trace, 'x')
				}
			}
			var pause time.Duration
			switch mode {
			case 0: // consumer lags by a full ring: wait before each receive until the channel is full
				if ev == simdjson.VerifEvBeforeRecv {
					mu.Unlock()
					for w := 0; w < 200 && h.ChanLen() < capN && !producerDone.Load(); w++ {
						time.Sleep(5 * time.Microsecond)
					}
					return
				}
			case 1: // producer lags: wait before each acquire until the consumer has drained the channel
				if ev == simdjson.VerifEvSlotAcquired {
					mu.Unlock()
					for w := 0; w < 200 && h.ChanLen() > 0; w++ {
						time.Sleep(5 * time.Microsecond)
					}
					return
				}
			case 2: // strict alternation pressure
				pause = time.Microsecond
			case 3: // random preemption
				if hr.chance(1, 3) {
					pause = time.Duration(hr.intn(30)) * time.Microsecond
				}
			}
			mu.Unlock()
			if pause > 0 {
				time.Sleep(pause)
			} else if mode == 3 {
				runtime.Gosched()
			}
		}
		tc := &testCase{note: kind}
		nd := "0"
		tc.ops = []string{fmt.Sprintf("parse p %s 1 %s", nd, hx([]byte(text))), "tapehash p"}
		st := newStore()
		nextParse.reuse = reuse
		tc.impl = []string{st.execTimed(tc.ops[0], 60*time.Second)}
		simdjson.VerifHook = nil
		tc.impl = append(tc.impl, st.exec(tc.ops[1]))
		if tc.impl[0] == "hang" {
			rn.disagree(disagreement{Kind: "spec", Ops: tc.ops, At: 0, Impl: "hang", Other: "<both stages terminate>", Note: fmt.Sprintf("%s mode=%d procs=%d", kind, mode, procs)})
		}
		if l := h.ChanLen(); l != 0 && tc.impl[0] != "hang" {
			rn.disagree(disagreement{Kind: "spec", Ops: tc.ops, At: 0, Impl: fmt.Sprintf("%d index buffers left in the channel after return", l), Other: "0", Note: kind})
		}
		mu.Lock()
		tr := string(trace)
		mu.Unlock()
		// the observed hand-off trace must be a run of the Lean transition system that keeps every live buffer intact.
		// A consumer that failed stops receiving on its own goroutine but keeps draining: events stay well-formed.
		tc.ops = append(tc.ops, fmt.Sprintf("sched %d %s", slots, tr))
		want := "accepted"
		tc.impl = append(tc.impl, want)
		rn.addPrepared(tc)
		// compare prefix only ("accepted sent=… recvd=…")
		tc.ops[2] = tc.ops[2]
		cls := fmt.Sprintf("%s/mode=%d/procs=%d/bufs=%d", kind, mode, procs, minInt(bufs/8, 7))
		rn.rep.Distribution[cls]++
		rn.seen[cls] = true
	}
	rn.rep.Rule = "documents above 8 KiB needing 1-60 index buffers, valid or failing at stage 1/2 early/late; schedules forced at the hook points (consumer a full ring behind, producer starved, alternation, random preemption) under GOMAXPROCS 1/2/4/16; outcome compared with the sequential model, hand-off trace replayed through the Lean transition system, channel drained on return; distinct = (kind, schedule, procs, buffers)"
}
