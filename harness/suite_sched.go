package main

import (
	"fmt"
	"runtime"
	"strings"
	"sync"
	"sync/atomic"
	"time"

	simdjson "github.com/minio/simdjson-go"
)

func init() {
	suites["sched"] = suiteSched
}

// C07: forced interleavings of the two stages through the verif hook points.
func suiteSched(rn *runner, r *rng, tier string) {
	n := 150
	if tier == "thorough" {
		n = 4000
	}
	// handle chains (suite_chain.go): the two stages run concurrently again and again on one handle kept by value, after
	// runs in which stage 2 gave up early or late — whatever one run leaves in the shared state must not reach the next
	{
		nh := 150
		if tier == "thorough" {
			nh = 3000
		}
		for i := 0; i < nh; i++ {
			handleChainCase(rn, r.fork(), 3+r.intn(8), "sched")
		}
	}
	slots, _, _ := simdjson.VerifRing()
	defer func() { simdjson.VerifHook = nil }()
	oldProcs := runtime.GOMAXPROCS(0)
	defer runtime.GOMAXPROCS(oldProcs)
	hangs := 0
	for i := 0; i < n; i++ {
		cr := r.fork()
		// documents needing 1..60 index buffers (1408 indexes each), valid or failing early/late
		mode := cr.intn(7)
		if mode == 6 {
			mode = 5
		}
		bufs := 1 + cr.intn(6)
		if cr.chance(1, 6) || (mode == 5 && cr.chance(2, 3)) {
			bufs = 16 + cr.intn(45)
		}
		var b strings.Builder
		b.WriteByte('[')
		elems := bufs * 700
		for k := 0; k < elems; k++ {
			if k > 0 {
				b.WriteByte(',')
			}
			// tokens of varying width, so that successive index deltas differ
			switch cr.intn(8) {
			case 0:
				b.WriteByte('"')
				for w := cr.intn(13); w > 0; w-- {
					b.WriteByte(byte('a' + cr.intn(26)))
				}
				b.WriteByte('"')
			case 1:
				b.WriteString("{}")
			case 2:
				b.WriteString([]string{"true", "false", "null"}[cr.intn(3)])
			case 3:
				for w := 1 + cr.intn(8); w > 0; w-- {
					b.WriteByte(byte('1' + cr.intn(9)))
				}
			default:
				b.WriteByte(byte('0' + cr.intn(10)))
			}
			if cr.chance(1, 5) {
				b.WriteString(strings.Repeat(" ", 1+cr.intn(4)))
			}
		}
		b.WriteByte(']')
		text := b.String()
		kind := "valid"
		switch cr.intn(7) {
		case 0: // stage-1 error early: control character in a string near the start
			text = "[\"\x01\"," + text[1:]
			kind = "s1-early"
		case 1: // stage-1 error late: unterminated string at the end
			text = text[:len(text)-1] + ",\"abc"
			kind = "s1-late"
		case 2: // stage-2 error before the last buffer
			p := len(text) / 3
			text = text[:p] + "]" + text[p:]
			kind = "s2-early"
		case 3: // stage-2 error after the last buffer arrived
			text = text[:len(text)-1] + "}"
			kind = "s2-late"
		}
		for len(text) <= 8192 {
			text = "[" + text + "," + strings.Repeat(" ", 4000) + "1]"
		}
		procs := []int{1, 2, 4, 16}[cr.intn(4)]
		runtime.GOMAXPROCS(procs)

		// a reusable object gives access to the live channel through VerifChanLen
		reuse, err := simdjson.Parse([]byte("[1]"), nil)
		if err != nil {
			panic(err)
		}
		h := simdjson.VerifInternalOf(reuse)
		capN := h.ChanCap()
		var mu sync.Mutex
		var trace []byte
		var producerDone atomic.Bool
		hr := cr.fork()
		// what stage 1 handed over, per buffer number: stage 2 must still find exactly that when it is done with it
		type handed struct {
			sum uint64
			n   int
		}
		sent := map[uint64]handed{}
		var firstOffset, lastPrepared, recvd atomic.Uint64
		var haveFirst atomic.Bool
		var changed []string
		sumOf := func(off uint64, n int) uint64 {
			sl := h.Slot(int(off % uint64(slots)))
			x := uint64(1469598103934665603)
			for _, v := range sl[:n] {
				x = (x ^ uint64(v)) * 1099511628211
			}
			return x
		}
		verify := func(when string) {
			k := recvd.Load()
			if k == 0 || !haveFirst.Load() {
				return
			}
			off := firstOffset.Load() + k - 1
			mu.Lock()
			hd, ok := sent[off]
			mu.Unlock()
			if ok && sumOf(off, hd.n) != hd.sum {
				mu.Lock()
				changed = append(changed, fmt.Sprintf("index buffer %d (slot %d) differs %s from what stage 1 handed over", k, off%uint64(slots), when))
				mu.Unlock()
			}
		}
		simdjson.VerifHook = func(ev int, a, bb uint64) {
			switch ev {
			case simdjson.VerifEvSlotAcquired:
				if !haveFirst.Load() {
					firstOffset.Store(a)
					haveFirst.Store(true)
				}
			case simdjson.VerifEvBeforeSend:
				sm := sumOf(a, int(bb))
				mu.Lock()
				sent[a] = handed{sm, int(bb)}
				mu.Unlock()
				lastPrepared.Store(a)
			case simdjson.VerifEvBeforeRecv:
				verify("when stage 2 was done with it")
			case simdjson.VerifEvAfterRecv:
				if a != ^uint64(0) {
					recvd.Add(1)
					if mode == 5 {
						// consumer is handed a buffer and stalls before looking at it until the producer has
						// prepared the buffer a full ring further on (it then blocks on the full channel)
						want := firstOffset.Load() + recvd.Load() - 1 + uint64(slots) - 1
						for w := 0; w < 400 && lastPrepared.Load() < want && !producerDone.Load(); w++ {
							time.Sleep(5 * time.Microsecond)
						}
					}
					verify("right after stage 2 received it")
				}
			}
			mu.Lock()
			switch ev {
			case simdjson.VerifEvSlotAcquired:
				trace = append(trace, 'a')
			case simdjson.VerifEvBeforeRecv:
				trace = append(trace, 'R')
			case simdjson.VerifEvBeforeTerm:
				producerDone.Store(true)
			case simdjson.VerifEvStage2Done:
				if a == 0 {
					trace = append(trace, 'x')
				}
			}
			var pause time.Duration
			switch mode {
			case 0: // consumer lags by a full ring: wait before each receive until the channel is full
				if ev == simdjson.VerifEvBeforeRecv {
					mu.Unlock()
					for w := 0; w < 200 && h.ChanLen() < capN && !producerDone.Load(); w++ {
						time.Sleep(5 * time.Microsecond)
					}
					return
				}
			case 1: // producer lags: wait before each acquire until the consumer has drained the channel
				if ev == simdjson.VerifEvSlotAcquired {
					mu.Unlock()
					for w := 0; w < 200 && h.ChanLen() > 0; w++ {
						time.Sleep(5 * time.Microsecond)
					}
					return
				}
			case 2: // strict alternation pressure
				pause = time.Microsecond
			case 3: // random preemption
				if hr.chance(1, 3) {
					pause = time.Duration(hr.intn(30)) * time.Microsecond
				}
			}
			mu.Unlock()
			if pause > 0 {
				time.Sleep(pause)
			} else if mode == 3 {
				runtime.Gosched()
			}
		}
		tc := &testCase{note: kind}
		nd := "0"
		tc.ops = []string{fmt.Sprintf("parse p %s 1 %s", nd, hx([]byte(text))), "tapehash p"}
		st := newStore()
		nextParse.reuse = reuse
		tc.impl = []string{st.execTimed(tc.ops[0], 30*time.Second)}
		simdjson.VerifHook = nil
		tc.impl = append(tc.impl, st.exec(tc.ops[1]))
		if tc.impl[0] == "hang" {
			rn.disagree(disagreement{Kind: "spec", Ops: tc.ops, At: 0, Impl: "hang", Other: "<both stages terminate>", Note: fmt.Sprintf("%s mode=%d procs=%d", kind, mode, procs)})
			// the two stages of that call are stuck for good (their goroutines are leaked, the object's channel is
			// full): one replay is enough, and later cases would only wait for the same time-out
			hangs++
			if hangs >= 2 {
				rn.rep.Notes = append(rn.rep.Notes, "sched: stopped after two calls that did not return within 30 s")
				break
			}
			continue
		}
		if l := h.ChanLen(); l != 0 && tc.impl[0] != "hang" {
			rn.disagree(disagreement{Kind: "spec", Ops: tc.ops, At: 0, Impl: fmt.Sprintf("%d index buffers left in the channel after return", l), Other: "0", Note: kind})
		}
		mu.Lock()
		tr := string(trace)
		for _, c := range changed {
			rn.disagree(disagreement{Kind: "spec", Ops: tc.ops, At: 0, Impl: c, Other: "<a handed-over buffer is not written until stage 2 is done with it>", Note: fmt.Sprintf("%s mode=%d procs=%d", kind, mode, procs)})
			break
		}
		mu.Unlock()
		// the observed hand-off trace must be a run of the Lean transition system that keeps every live buffer intact.
		// A consumer that failed stops receiving on its own goroutine but keeps draining: events stay well-formed.
		tc.ops = append(tc.ops, fmt.Sprintf("sched %d %s", slots, tr))
		want := "accepted"
		tc.impl = append(tc.impl, want)
		rn.addPrepared(tc)
		// compare prefix only ("accepted sent=… recvd=…")
		tc.ops[2] = tc.ops[2]
		cls := fmt.Sprintf("%s/mode=%d/procs=%d/bufs=%d", kind, mode, procs, minInt(bufs/8, 7))
		rn.rep.Distribution[cls]++
		rn.seen[cls] = true
	}
	rn.rep.Rule = "documents above 8 KiB needing 1-60 index buffers, valid or failing at stage 1/2 early/late; schedules forced at the hook points (consumer a full ring behind, consumer stalled on a just-received buffer until the producer is a full ring ahead, producer starved, alternation, random preemption) under GOMAXPROCS 1/2/4/16; outcome compared with the sequential model, hand-off trace replayed through the Lean transition system, every handed-over buffer checksummed at the send and again when stage 2 receives it and when it is done with it, channel drained on return; distinct = (kind, schedule, procs, buffers)"
}
