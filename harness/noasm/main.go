// Command sjnoasm is built with `-tags noasm` (no assembly, no verif hooks): in such a build Parse is unavailable but
// Serializer.Deserialize and the whole read API are the same Go code.  It reads one hex blob per line and prints, for
// each, what Deserialize makes of it — tape, string buffer and message as lengths and FNV hashes, plus the marshalled
// text's hash — so that the harness can compare with what the assembly build makes of the same bytes (C11).
package main

import (
	"bufio"
	"encoding/hex"
	"fmt"
	"os"

	simdjson "github.com/minio/simdjson-go"
)

func fnvBytes(b []byte) uint64 {
	h := uint64(14695981039346656037)
	for _, x := range b {
		h = (h ^ uint64(x)) * 1099511628211
	}
	return h
}

func fnvWords(t []uint64) uint64 {
	h := uint64(14695981039346656037)
	for _, w := range t {
		for i := 0; i < 8; i++ {
			h = (h ^ ((w >> (8 * uint(i))) & 255)) * 1099511628211
		}
	}
	return h
}

// Describe is shared in spirit with the harness (impl.go: describeDeser): keep the two in step.
func describe(blob []byte) (out string) {
	defer func() {
		if r := recover(); r != nil {
			out = "panic"
		}
	}()
	s := simdjson.NewSerializer()
	pj, err := s.Deserialize(blob, nil)
	if err != nil {
		return "err"
	}
	var sb []byte
	if pj.Strings != nil {
		sb = pj.Strings.B
	}
	it := pj.Iter()
	ms, merr := it.MarshalJSON()
	mh := "merr"
	if merr == nil {
		mh = fmt.Sprintf("%016x", fnvBytes(ms))
	}
	return fmt.Sprintf("ok %d %016x %d %016x %d %016x %s", len(pj.Tape), fnvWords(pj.Tape), len(sb), fnvBytes(sb), len(pj.Message), fnvBytes(pj.Message), mh)
}

func main() {
	if simdjson.SupportedCPU() {
		fmt.Fprintln(os.Stderr, "sjnoasm: this binary was built WITH assembly support; build it with -tags noasm")
		os.Exit(3)
	}
	sc := bufio.NewScanner(os.Stdin)
	sc.Buffer(make([]byte, 1<<20), 1<<30)
	w := bufio.NewWriter(os.Stdout)
	defer w.Flush()
	for sc.Scan() {
		blob, err := hex.DecodeString(sc.Text())
		if err != nil {
			fmt.Fprintln(w, "bad-hex")
			continue
		}
		fmt.Fprintln(w, describe(blob))
	}
}
