package main

import (
	"flag"
	"fmt"
	"os"
	"strconv"
)

type suite func(rn *runner, r *rng, tier string)

var suites = map[string]suite{}

func main() {
	prop := flag.String("prop", "", "property id (C01…C20) or suite name")
	tier := flag.String("tier", "quick", "quick|thorough")
	seed := flag.Uint64("seed", 1, "seed")
	out := flag.String("out", "-", "report path")
	replay := flag.String("replay", "", "replay file (ops, one per line)")
	flag.StringVar(&driverPath, "driver", driverPath, "path of the compiled Lean driver")
	flag.Parse()
	if s := os.Getenv("VERIF_SEED"); s != "" && !isFlagSet("seed") {
		if v, err := strconv.ParseUint(s, 10, 64); err == nil {
			*seed = v
		}
	}
	if *replay != "" {
		os.Exit(runReplay(*replay))
	}
	s, ok := suites[*prop]
	if !ok {
		fmt.Fprintln(os.Stderr, "unknown suite", *prop)
		os.Exit(2)
	}
	rn := newRunner(*prop, *tier, *seed)
	if *out != "-" && *out != "" {
		rn.recordLast = *out + ".lastcase"
		os.Remove(rn.recordLast)
	}
	s(rn, newRng(*seed), *tier)
	rn.finish(*out)
}

func isFlagSet(name string) bool {
	set := false
	flag.Visit(func(f *flag.Flag) {
		if f.Name == name {
			set = true
		}
	})
	return set
}
