package main

import (
	"encoding/binary"
	"encoding/hex"
	"errors"
	"fmt"
	"io"
	"math"
	"sort"
	"strconv"
	"strings"
	"time"

	simdjson "github.com/minio/simdjson-go"
)

// store mirrors the driver's store of named objects.
type store struct {
	pjs   map[string]*simdjson.ParsedJson
	iters map[string]*simdjson.Iter
	objs  map[string]*simdjson.Object
	arrs  map[string]*simdjson.Array
	elems map[string]*simdjson.Elements
	// inputs kept alive / available for scribbling
	inputs map[string][]byte
	// scratch: caller-owned destination objects (Iter, Object, Array) are kept and handed to the API again
	// (`mode scratch`), per store name and per nesting depth of the ordered walk; results must not depend on
	// what a destination held before
	scratch bool
	*scratchSet
}

// scratchSet: destination objects per nesting depth of the ordered walk
type scratchSet struct {
	scIters []*simdjson.Iter
	scObjs  []*simdjson.Object
	scArrs  []*simdjson.Array
}

// suiteScratch, when non-nil, is shared by all stores of a suite: destinations then survive from one case (one
// document, one ParsedJson) to the next
var suiteScratch *scratchSet

func newStore() *store {
	return &store{pjs: map[string]*simdjson.ParsedJson{}, iters: map[string]*simdjson.Iter{}, objs: map[string]*simdjson.Object{},
		arrs: map[string]*simdjson.Array{}, elems: map[string]*simdjson.Elements{}, inputs: map[string][]byte{}, scratchSet: &scratchSet{}}
}

func hx(b []byte) string {
	if len(b) == 0 {
		return "-"
	}
	return hex.EncodeToString(b)
}
func unhx(s string) []byte {
	if s == "-" {
		return []byte{}
	}
	b, err := hex.DecodeString(s)
	if err != nil {
		panic("bad hex in op: " + s)
	}
	return b
}
func h64(w uint64) string { return fmt.Sprintf("%016x", w) }

func fnvBytes(b []byte) uint64 {
	h := uint64(14695981039346656037)
	for _, x := range b {
		h = (h ^ uint64(x)) * 1099511628211
	}
	return h
}
func fnvWords(t []uint64) uint64 {
	h := uint64(14695981039346656037)
	for _, w := range t {
		for i := 0; i < 8; i++ {
			h = (h ^ ((w >> (8 * uint(i))) & 255)) * 1099511628211
		}
	}
	return h
}

func errStr(err error) string {
	switch {
	case errors.Is(err, simdjson.ErrPathNotFound):
		return "err-path-not-found"
	case errors.Is(err, io.EOF):
		return "err-eof"
	}
	return "err"
}

func ivalStr(v interface{}) string {
	switch x := v.(type) {
	case nil:
		return "null"
	case bool:
		if x {
			return "true"
		}
		return "false"
	case int64:
		return "i" + strconv.FormatInt(x, 10)
	case uint64:
		return "u" + strconv.FormatUint(x, 10)
	case float64:
		return "f" + h64(math.Float64bits(x))
	case string:
		return "s" + hx([]byte(x))
	case []interface{}:
		parts := make([]string, len(x))
		for i, e := range x {
			parts[i] = ivalStr(e)
		}
		return "[" + strings.Join(parts, ",") + "]"
	case map[string]interface{}:
		keys := make([]string, 0, len(x))
		for k := range x {
			keys = append(keys, hx([]byte(k)))
		}
		sort.Strings(keys)
		parts := make([]string, len(keys))
		for i, k := range keys {
			parts[i] = k + ":" + ivalStr(x[string(unhx(k))])
		}
		return "{" + strings.Join(parts, ",") + "}"
	}
	return fmt.Sprintf("?%T", v)
}

func keysOf(s string) map[string]struct{} {
	if s == "." {
		return nil
	}
	m := map[string]struct{}{}
	for _, k := range strings.Split(s, ",") {
		m[string(unhx(k))] = struct{}{}
	}
	return m
}

func maskPred(mask uint64, k int) bool { return (mask>>(uint(k)%62))&1 == 1 }

func iterCB(i *simdjson.Iter) string {
	off, _, _, t, _ := simdjson.VerifIterState(i)
	return fmt.Sprintf("%d:%d", uint8(t), off)
}

// parseOpts carries what the op line does not: reuse object and option list, chosen by the harness.
type parseOpts struct {
	reuse       *simdjson.ParsedJson
	defaultOpts bool
	inplace     bool // the input is copied into one long-lived buffer: successive inputs share address (and often length)
}

// sharedInput is the caller-side buffer of `inplace` parses: a program that reads every message into the same buffer
var sharedInput = make([]byte, 0, 1<<20)

var nextParse parseOpts

// exec runs one op on the real package and renders its observable result exactly as the driver does.
func (st *store) exec(line string) (out string) {
	defer func() {
		if r := recover(); r != nil {
			if _, ok := r.(badRef); ok {
				out = "bad-ref"
				return
			}
			out = "panic"
			lastPanic = fmt.Sprint(r)
		}
	}()
	ws := strings.Fields(line)
	if len(ws) == 0 {
		return "bad-op"
	}
	if ws[0] == "bigstream" {
		return runBigStream(line)
	}
	if ws[0] == "straggler" {
		return runStraggler(line)
	}
	if ws[0] == "chain" {
		return runAliasChain(line)
	}
	if ws[0] == "handle" {
		return runHandleChain(line)
	}
	iter := func(n string) *simdjson.Iter {
		i, ok := st.iters[n]
		if !ok {
			panic(badRef{})
		}
		return i
	}
	pjOf := func(n string) *simdjson.ParsedJson {
		p, ok := st.pjs[n]
		if !ok {
			panic(badRef{})
		}
		return p
	}
	objOf := func(n string) *simdjson.Object {
		p, ok := st.objs[n]
		if !ok {
			panic(badRef{})
		}
		return p
	}
	arrOf := func(n string) *simdjson.Array {
		p, ok := st.arrs[n]
		if !ok {
			panic(badRef{})
		}
		return p
	}
	elemsOf := func(n string) *simdjson.Elements {
		p, ok := st.elems[n]
		if !ok {
			panic(badRef{})
		}
		return p
	}
	switch ws[0] {
	case "parse":
		b := unhx(ws[4])
		if nextParse.inplace && len(b) <= cap(sharedInput) {
			sharedInput = sharedInput[:len(b)]
			copy(sharedInput, b)
			b = sharedInput
		}
		st.inputs[ws[1]] = b
		var opts []simdjson.ParserOption
		if !(ws[3] == "1" && nextParse.defaultOpts) {
			// copying is the default: with defaultOpts the option list stays empty
			opts = append(opts, simdjson.WithCopyStrings(ws[3] == "1"))
		}
		var pj *simdjson.ParsedJson
		var err error
		reuse := nextParse.reuse
		nextParse = parseOpts{}
		if ws[2] == "1" {
			pj, err = simdjson.ParseND(b, reuse, opts...)
		} else {
			pj, err = simdjson.Parse(b, reuse, opts...)
		}
		if err != nil {
			return "err"
		}
		st.pjs[ws[1]] = pj
		return fmt.Sprintf("ok %d %s %d %s %d", len(pj.Tape), h64(fnvWords(pj.Tape)), len(pj.Strings.B), h64(fnvBytes(pj.Strings.B)), len(pj.Message))
	case "parsereuse":
		// parsereuse <new> <reuse> <nd> <copy> <hex>: parse with the named object as the reuse argument
		b := unhx(ws[5])
		st.inputs[ws[1]] = b
		var pj *simdjson.ParsedJson
		var err error
		if ws[3] == "1" {
			pj, err = simdjson.ParseND(b, pjOf(ws[2]), simdjson.WithCopyStrings(ws[4] == "1"))
		} else {
			pj, err = simdjson.Parse(b, pjOf(ws[2]), simdjson.WithCopyStrings(ws[4] == "1"))
		}
		if err != nil {
			return "err"
		}
		st.pjs[ws[1]] = pj
		return fmt.Sprintf("ok %d", len(pj.Tape))
	case "tape":
		pj := pjOf(ws[1])
		parts := make([]string, len(pj.Tape))
		for i, w := range pj.Tape {
			parts[i] = h64(w)
		}
		return strings.Join(parts, " ") + " | " + hx(pj.Strings.B)
	case "tapehash":
		pj := pjOf(ws[1])
		return fmt.Sprintf("%d %s %d %s", len(pj.Tape), h64(fnvWords(pj.Tape)), len(pj.Strings.B), h64(fnvBytes(pj.Strings.B)))
	case "iter":
		i := pjOf(ws[2]).Iter()
		st.iters[ws[1]] = &i
		return "ok"
	case "copyiter":
		c := *iter(ws[2])
		st.iters[ws[1]] = &c
		return "ok"
	case "advance":
		return strconv.Itoa(int(iter(ws[1]).Advance()))
	case "advinto":
		return strconv.Itoa(int(iter(ws[1]).AdvanceInto()))
	case "adviter":
		i := iter(ws[1])
		d, ok := st.iters[ws[2]]
		if !ok {
			d = &simdjson.Iter{}
		}
		typ, err := i.AdvanceIter(d)
		if err != nil {
			return "err"
		}
		if typ != simdjson.TypeNone {
			st.iters[ws[2]] = d
		}
		return strconv.Itoa(int(typ))
	case "peektag":
		return strconv.Itoa(int(iter(ws[1]).PeekNextTag()))
	case "peek":
		return strconv.Itoa(int(iter(ws[1]).PeekNext()))
	case "type":
		return strconv.Itoa(int(iter(ws[1]).Type()))
	case "iterstate":
		off, add, cur, t, lim := simdjson.VerifIterState(iter(ws[1]))
		return fmt.Sprintf("off=%d add=%d cur=%s t=%d lim=%d", off, add, h64(cur), uint8(t), lim)
	case "str":
		b, err := iter(ws[1]).StringBytes()
		if err != nil {
			return "err"
		}
		return hx(b)
	case "int":
		v, err := iter(ws[1]).Int()
		if err != nil {
			return "err"
		}
		return strconv.FormatInt(v, 10)
	case "uint":
		v, err := iter(ws[1]).Uint()
		if err != nil {
			return "err"
		}
		return strconv.FormatUint(v, 10)
	case "float":
		v, err := iter(ws[1]).Float()
		if err != nil {
			return "err"
		}
		return h64(math.Float64bits(v))
	case "floatflags":
		v, fl, err := iter(ws[1]).FloatFlags()
		if err != nil {
			return "err"
		}
		return fmt.Sprintf("%s %d", h64(math.Float64bits(v)), uint64(fl))
	case "bool":
		v, err := iter(ws[1]).Bool()
		if err != nil {
			return "err"
		}
		if v {
			return "1"
		}
		return "0"
	case "interface":
		c := *iter(ws[1])
		v, err := c.Interface()
		if err != nil {
			return errStr(err)
		}
		return ivalStr(v)
	case "marshal":
		c := *iter(ws[1])
		b, err := c.MarshalJSON()
		if err != nil {
			return "err"
		}
		return hx(b)
	case "mode":
		if ws[1] == "scratch" {
			st.scratch = true
			if suiteScratch != nil {
				st.scratchSet = suiteScratch
			}
		}
		return "ok"
	case "root":
		var rdst *simdjson.Iter
		if st.scratch && ws[1] != ws[2] {
			rdst = st.iters[ws[1]]
		}
		typ, d, err := iter(ws[2]).Root(rdst)
		if err != nil {
			return "err"
		}
		st.iters[ws[1]] = d
		return strconv.Itoa(int(typ))
	case "object":
		var odst *simdjson.Object
		if st.scratch {
			odst = st.objs[ws[1]]
		}
		o, err := iter(ws[2]).Object(odst)
		if err != nil {
			return "err"
		}
		st.objs[ws[1]] = o
		return "ok"
	case "array":
		var adst *simdjson.Array
		if st.scratch {
			adst = st.arrs[ws[1]]
		}
		a, err := iter(ws[2]).Array(adst)
		if err != nil {
			return "err"
		}
		st.arrs[ws[1]] = a
		return "ok"
	case "arrayiter":
		i := arrOf(ws[2]).Iter()
		st.iters[ws[1]] = &i
		return "ok"
	case "next":
		d := &simdjson.Iter{}
		if prev, ok := st.iters[ws[2]]; ok && st.scratch {
			d = prev
		}
		name, t, err := objOf(ws[1]).NextElementBytes(d)
		if err != nil {
			return "err"
		}
		if t == simdjson.TypeNone {
			return "none"
		}
		st.iters[ws[2]] = d
		return fmt.Sprintf("%s %d", hx(name), int(t))
	case "map":
		oc := *objOf(ws[1])
		m, err := oc.Map(nil)
		if err != nil {
			return errStr(err)
		}
		return ivalStr(m)
	case "parseobj":
		oc := *objOf(ws[2])
		// an Elements value already stored under this name is passed as destination (reuse)
		es, err := oc.Parse(st.elems[ws[1]])
		if err != nil {
			return "err"
		}
		st.elems[ws[1]] = es
		distinct := map[string]bool{}
		for _, e := range es.Elements {
			distinct[e.Name] = true
		}
		if len(es.Index) != len(distinct) {
			return "index-has-stale-keys"
		}
		parts := make([]string, len(es.Elements))
		for i, e := range es.Elements {
			parts[i] = fmt.Sprintf("%s:%d", hx([]byte(e.Name)), int(e.Type))
		}
		// Index must map every name to its last position
		for i, e := range es.Elements {
			last := i
			for j := i + 1; j < len(es.Elements); j++ {
				if es.Elements[j].Name == e.Name {
					last = j
				}
			}
			if es.Index[e.Name] != last {
				return "index-mismatch"
			}
			if l := es.Lookup(e.Name); l == nil || l != &es.Elements[last] {
				return "lookup-mismatch"
			}
		}
		return "ok " + strings.Join(parts, ",")
	case "elemiter":
		k, _ := strconv.Atoi(ws[3])
		c := elemsOf(ws[2]).Elements[k].Iter
		st.iters[ws[1]] = &c
		return "ok"
	case "elemset":
		// an edit through the element's own iterator
		k, _ := strconv.Atoi(ws[2])
		it := &elemsOf(ws[1]).Elements[k].Iter
		var err error
		switch ws[3] {
		case "bool":
			err = it.SetBool(ws[4] == "1")
		case "null":
			err = it.SetNull()
		default:
			v, _ := strconv.ParseInt(ws[4], 10, 64)
			err = it.SetInt(v)
		}
		if err != nil {
			return "err"
		}
		return "ok"
	case "emarshal":
		b, err := elemsOf(ws[1]).MarshalJSON()
		if err != nil {
			return "err"
		}
		return hx(b)
	case "findkey":
		e := objOf(ws[1]).FindKey(string(unhx(ws[2])), nil)
		if e == nil {
			return "nil"
		}
		c := e.Iter
		st.iters[ws[3]] = &c
		return strconv.Itoa(int(e.Type))
	case "foreach":
		var cbs []string
		err := objOf(ws[1]).ForEach(func(key []byte, i simdjson.Iter) {
			c := i
			st.iters[fmt.Sprintf("cb%d", len(cbs))] = &c
			cbs = append(cbs, hx(key)+":"+iterCB(&i))
		}, keysOf(ws[2]))
		if err != nil {
			return "err"
		}
		return "ok " + strings.Join(cbs, ",")
	case "delete":
		mask, _ := strconv.ParseUint(ws[2], 10, 64)
		var cbs []string
		k := 0
		err := objOf(ws[1]).DeleteElems(func(key []byte, i simdjson.Iter) bool {
			cbs = append(cbs, hx(key)+":"+iterCB(&i))
			d := maskPred(mask, k)
			k++
			return d
		}, keysOf(ws[3]))
		if err != nil {
			return "err"
		}
		return "ok " + strings.Join(cbs, ",")
	case "findpath":
		var path []string
		for _, p := range ws[3:] {
			path = append(path, string(unhx(p)))
		}
		e, err := objOf(ws[1]).FindPath(nil, path...)
		if err != nil {
			return errStr(err)
		}
		c := e.Iter
		st.iters[ws[2]] = &c
		return strconv.Itoa(int(e.Type))
	case "findelem":
		var path []string
		for _, p := range ws[3:] {
			path = append(path, string(unhx(p)))
		}
		e, err := iter(ws[1]).FindElement(nil, path...)
		if err != nil {
			return errStr(err)
		}
		c := e.Iter
		st.iters[ws[2]] = &c
		return strconv.Itoa(int(e.Type))
	case "aforeach":
		var cbs []string
		arrOf(ws[1]).ForEach(func(i simdjson.Iter) {
			c := i
			st.iters[fmt.Sprintf("cb%d", len(cbs))] = &c
			cbs = append(cbs, iterCB(&i))
		})
		return "ok " + strings.Join(cbs, ",")
	case "pjforeach":
		k := 0
		err := pjOf(ws[1]).ForEach(func(i simdjson.Iter) error {
			c := i
			st.iters[fmt.Sprintf("cb%d", k)] = &c
			k++
			return nil
		})
		if err != nil {
			return "err"
		}
		return fmt.Sprintf("ok %d", k)
	case "adelete":
		mask, _ := strconv.ParseUint(ws[2], 10, 64)
		var cbs []string
		k := 0
		arrOf(ws[1]).DeleteElems(func(i simdjson.Iter) bool {
			cbs = append(cbs, iterCB(&i))
			d := maskPred(mask, k)
			k++
			return d
		})
		return "ok " + strings.Join(cbs, ",")
	case "firsttype":
		return strconv.Itoa(int(arrOf(ws[1]).FirstType()))
	case "asfloat":
		ac := *arrOf(ws[1])
		r, err := ac.AsFloat()
		if err != nil {
			return "err"
		}
		parts := make([]string, len(r))
		for i, v := range r {
			parts[i] = h64(math.Float64bits(v))
		}
		return "ok " + strings.Join(parts, ",")
	case "asint":
		ac := *arrOf(ws[1])
		r, err := ac.AsInteger()
		if err != nil {
			return "err"
		}
		parts := make([]string, len(r))
		for i, v := range r {
			parts[i] = h64(uint64(v))
		}
		return "ok " + strings.Join(parts, ",")
	case "asuint":
		ac := *arrOf(ws[1])
		r, err := ac.AsUint64()
		if err != nil {
			return "err"
		}
		parts := make([]string, len(r))
		for i, v := range r {
			parts[i] = h64(v)
		}
		return "ok " + strings.Join(parts, ",")
	case "asstring":
		ac := *arrOf(ws[1])
		r, err := ac.AsString()
		if err != nil {
			return "err"
		}
		parts := make([]string, len(r))
		for i, v := range r {
			parts[i] = hx([]byte(v))
		}
		return "ok " + strings.Join(parts, ",")
	case "amarshal":
		ac := *arrOf(ws[1])
		b, err := ac.MarshalJSON()
		if err != nil {
			return "err"
		}
		return hx(b)
	case "ainterface":
		ac := *arrOf(ws[1])
		v, err := ac.Interface()
		if err != nil {
			return errStr(err)
		}
		return ivalStr(v)
	case "setint":
		v, _ := strconv.ParseInt(ws[2], 10, 64)
		if err := iter(ws[1]).SetInt(v); err != nil {
			return "err"
		}
		return "ok"
	case "setuint":
		v, _ := strconv.ParseUint(ws[2], 10, 64)
		if err := iter(ws[1]).SetUInt(v); err != nil {
			return "err"
		}
		return "ok"
	case "setfloat":
		b := unhx(ws[2])
		var bits uint64
		for _, x := range b {
			bits = bits<<8 | uint64(x)
		}
		if err := iter(ws[1]).SetFloat(math.Float64frombits(bits)); err != nil {
			return "err"
		}
		return "ok"
	case "setstr":
		if err := iter(ws[1]).SetStringBytes(unhx(ws[2])); err != nil {
			return "err"
		}
		return "ok"
	case "setbool":
		if err := iter(ws[1]).SetBool(ws[2] == "1"); err != nil {
			return "err"
		}
		return "ok"
	case "setnull":
		if err := iter(ws[1]).SetNull(); err != nil {
			return "err"
		}
		return "ok"
	case "clone":
		var dst *simdjson.ParsedJson
		if len(ws) > 3 {
			switch ws[3] {
			case "1":
				dst = &simdjson.ParsedJson{}
			case "2", "3":
				dst = st.pjs["cd"]
			}
		}
		st.pjs[ws[1]] = pjOf(ws[2]).Clone(dst)
		return "ok"
	case "scribble":
		// the model replaces the message by 0xFF bytes; here the caller's input buffer is overwritten,
		// which is the same thing exactly when Message aliases it (no-copy mode keeps pointing into it).
		pjOf(ws[1])
		b := st.inputs[ws[1]]
		for i := range b {
			b[i] = 0xff
		}
		return "ok"
	case "reset":
		*st = *newStore()
		return "ok"
	case "wf":
		roots, err := refDecode(pjOf(ws[1]))
		if err != nil {
			return "malformed"
		}
		for _, r := range roots {
			if r == nil {
				return "malformed"
			}
		}
		return "wf " + ordRoots(roots)
	case "nopsexact":
		// every NOP's skip count is the distance to the end of its run of NOP words (C17, deserialized tapes)
		tp := pjOf(ws[1]).Tape
		for k := 0; k < len(tp); {
			t := byte(tp[k] >> 56)
			switch t {
			case 'N':
				want := uint64(1)
				if k+1 < len(tp) && byte(tp[k+1]>>56) == 'N' {
					want = tp[k+1]&simdjson.JSONVALUEMASK + 1
				}
				if tp[k]&simdjson.JSONVALUEMASK != want {
					return fmt.Sprintf("inexact %d", k)
				}
				k++
			case 'l', 'u', 'd', '"':
				k += 2
			default:
				k++
			}
		}
		return "exact"
	case "serde":
		src := pjOf(ws[2])
		m1, m2 := nextSerde.m1, nextSerde.m2
		s1, s2 := nextSerde.s1, nextSerde.s2
		if s1 == nil {
			s1 = simdjson.NewSerializer()
		}
		if s2 == nil {
			s2 = simdjson.NewSerializer()
		}
		s1.CompressMode(m1)
		blob := s1.Serialize(nil, *src)
		lastBlob = blob
		noteBlob(blob)
		s2.CompressMode(m2) // after Serialize: s1 and s2 may be the same Serializer
		d, err := s2.Deserialize(blob, nextSerde.dst)
		nextSerde = serdeOpts{m1: simdjson.CompressDefault, m2: simdjson.CompressDefault}
		if err != nil {
			return "err"
		}
		st.pjs[ws[1]] = d
		return fmt.Sprintf("ok %d", len(d.Tape))
	case "deser":
		ts, _ := strconv.ParseUint(ws[2], 10, 64)
		blob := frameBlob(ts, unhx(ws[3]), unhx(ws[4]), unhx(ws[5]), unhx(ws[6]))
		noteBlob(blob)
		d, err := simdjson.NewSerializer().Deserialize(blob, nil)
		if err != nil {
			return "err"
		}
		st.pjs[ws[1]] = d
		return fmt.Sprintf("ok %d %s", len(d.Tape), h64(fnvWords(d.Tape)))
	case "reencode":
		// model-side check of the byte format; the implementation wrote these bytes
		return "same"
	case "deserraw":
		noteBlob(unhx(ws[2]))
		d, err := simdjson.NewSerializer().Deserialize(unhx(ws[2]), nil)
		if err != nil {
			return "err"
		}
		st.pjs[ws[1]] = d
		return fmt.Sprintf("ok %d %s", len(d.Tape), h64(fnvWords(d.Tape)))
	case "block", "kernels":
		return execKernel(ws)
	case "blockscan":
		// model-internal consistency op (block model vs scalar scanner); the implementation side reports
		// the same facts from the real kernels: indices equal by construction, error flags from stage 1
		return implBlockscan(ws[1] == "512", ws[2] == "1", unhx(ws[3]))
	case "owalk":
		var s string
		var err error
		if st.scratch {
			s, err = owalkScratch(pjOf(ws[1]), st)
		} else {
			s, err = owalk(pjOf(ws[1]))
		}
		if err != nil {
			return errStr(err)
		}
		return s
	case "spec":
		return implSpec(false, ws[1] == "1", unhx(ws[2]))
	case "speciface":
		return implSpec(true, ws[1] == "1", unhx(ws[2]))
	case "appendfloat":
		b := unhx(ws[1])
		var bits uint64
		for _, x := range b {
			bits = bits<<8 | uint64(x)
		}
		o, err := simdjson.VerifAppendFloat(nil, math.Float64frombits(bits))
		if err != nil {
			return "err"
		}
		return hx(o)
	case "parsenumber":
		b := unhx(ws[1])
		t, v := simdjson.VerifParseNumber(b)
		if t == 0 {
			return "fail"
		}
		return h64(t) + " " + h64(v)
	case "escape":
		return hx(simdjson.VerifEscapeBytes(nil, unhx(ws[1])))
	case "stage1":
		d, ok := simdjson.VerifStage1(unhx(ws[2]), ws[1] == "1")
		if !ok {
			return "fail"
		}
		pos := uint64(0)
		first := true
		var bufs []string
		for _, b := range d {
			var parts []string
			for _, x := range b {
				if first {
					pos = uint64(x) - 1 // position starts at ^0
					first = false
				} else {
					pos += uint64(x)
				}
				parts = append(parts, strconv.FormatUint(pos, 10))
			}
			bufs = append(bufs, strings.Join(parts, ","))
		}
		return "ok " + strings.Join(bufs, ";")
	}
	return "bad-op"
}

type serdeOpts struct {
	m1, m2 simdjson.CompressMode
	s1, s2 *simdjson.Serializer
	dst    *simdjson.ParsedJson
}

var nextSerde = serdeOpts{m1: simdjson.CompressDefault, m2: simdjson.CompressDefault}
var lastBlob []byte

func putUvarint(b []byte, v uint64) []byte {
	var tmp [10]byte
	n := binary.PutUvarint(tmp[:], v)
	return append(b, tmp[:n]...)
}

func putBlock(b []byte, data []byte) []byte {
	if len(data) == 0 {
		return append(b, 0)
	}
	b = putUvarint(b, uint64(len(data)+1))
	b = append(b, 0)
	return append(b, data...)
}

// frameBlob builds a serialized blob with uncompressed blocks around the given sections.
func frameBlob(ts uint64, strs, msg, tags, vals []byte) []byte {
	var body []byte
	body = putUvarint(body, ts)
	body = putUvarint(body, uint64(len(strs)))
	body = putBlock(body, strs)
	body = putUvarint(body, uint64(len(msg)))
	body = putBlock(body, msg)
	body = putUvarint(body, uint64(len(tags)))
	body = putBlock(body, tags)
	body = putUvarint(body, uint64(len(vals)))
	body = putBlock(body, vals)
	out := []byte{3}
	out = putUvarint(out, uint64(len(body)))
	return append(out, body...)
}

var lastPanic string

type badRef struct{}

// execConc is exec for concurrent use: harness-global per-op options are not touched.
func (st *store) execConc(line string) string {
	if strings.HasPrefix(line, "serde ") {
		ws := strings.Fields(line)
		out := "panic"
		func() {
			defer func() { recover() }()
			src, ok := st.pjs[ws[2]]
			if !ok {
				out = "bad-ref"
				return
			}
			s1, s2 := simdjson.NewSerializer(), simdjson.NewSerializer()
			d, err := s2.Deserialize(s1.Serialize(nil, *src), nil)
			if err != nil {
				out = "err"
				return
			}
			st.pjs[ws[1]] = d
			out = fmt.Sprintf("ok %d", len(d.Tape))
		}()
		return out
	}
	if strings.HasPrefix(line, "parse ") {
		ws := strings.Fields(line)
		out := "panic"
		func() {
			defer func() { recover() }()
			b := unhx(ws[4])
			st.inputs[ws[1]] = b
			var pj *simdjson.ParsedJson
			var err error
			if ws[2] == "1" {
				pj, err = simdjson.ParseND(b, nil, simdjson.WithCopyStrings(ws[3] == "1"))
			} else {
				pj, err = simdjson.Parse(b, nil, simdjson.WithCopyStrings(ws[3] == "1"))
			}
			if err != nil {
				out = "err"
				return
			}
			st.pjs[ws[1]] = pj
			out = fmt.Sprintf("ok %d %s %d %s %d", len(pj.Tape), h64(fnvWords(pj.Tape)), len(pj.Strings.B), h64(fnvBytes(pj.Strings.B)), len(pj.Message))
		}()
		return out
	}
	return st.exec(line)
}

// execTimed runs exec with a watchdog.
func (st *store) execTimed(line string, d time.Duration) string {
	ch := make(chan string, 1)
	go func() { ch <- st.exec(line) }()
	select {
	case o := <-ch:
		return o
	case <-time.After(d):
		return "hang"
	}
}

func u64s(xs ...uint64) string {
	parts := make([]string, len(xs))
	for i, x := range xs {
		parts[i] = strconv.FormatUint(x, 10)
	}
	return strings.Join(parts, " ")
}

// execKernel handles the stage-1 block ops (amd64 assembly through the verif hooks).
func execKernel(ws []string) string {
	switch ws[0] {
	case "block":
		buf := unhx(ws[2])
		po, _ := strconv.ParseUint(ws[3], 10, 64)
		pq, _ := strconv.ParseUint(ws[4], 10, 64)
		er, _ := strconv.ParseUint(ws[5], 10, 64)
		pp, _ := strconv.ParseUint(ws[6], 10, 64)
		st := simdjson.VerifBlock(ws[1] == "512", false, buf, &po, &pq, &er, &pp)
		return u64s(st, po, pq, er, pp)
	case "kernels":
		buf := append(unhx(ws[2]), make([]byte, 64)...)[:64]
		for i := len(unhx(ws[2])); i < 64; i++ {
			buf[i] = 0x20
		}
		po, _ := strconv.ParseUint(ws[3], 10, 64)
		pq, _ := strconv.ParseUint(ws[4], 10, 64)
		a, b, c, d, e, f, g, h := simdjson.VerifKernels(ws[1] == "512", buf, po, pq)
		return u64s(a, b, c, d, e, f, g, h)
	}
	return "bad-op"
}
