package main

import (
	"errors"
	"fmt"
	"math"
	"strconv"
	"strings"

	simdjson "github.com/minio/simdjson-go"
)

// owalkValue reads the value an iterator is positioned on through the public traversal API, keeping
// member order and duplicate keys (mirrors SJ.owalkValue).
func owalkValue(i *simdjson.Iter, b *strings.Builder) error {
	switch i.Type() {
	case simdjson.TypeObject:
		o, err := i.Object(nil)
		if err != nil {
			return err
		}
		b.WriteByte('{')
		first := true
		for {
			var d simdjson.Iter
			name, t, err := o.NextElementBytes(&d)
			if err != nil {
				return err
			}
			if t == simdjson.TypeNone {
				break
			}
			if !first {
				b.WriteByte(',')
			}
			first = false
			b.WriteString(hx(name))
			b.WriteByte(':')
			if err := owalkValue(&d, b); err != nil {
				return err
			}
		}
		b.WriteByte('}')
	case simdjson.TypeArray:
		a, err := i.Array(nil)
		if err != nil {
			return err
		}
		it := a.Iter()
		b.WriteByte('[')
		first := true
		for it.Advance() != simdjson.TypeNone {
			if !first {
				b.WriteByte(',')
			}
			first = false
			c := it
			if err := owalkValue(&c, b); err != nil {
				return err
			}
		}
		b.WriteByte(']')
	case simdjson.TypeString:
		s, err := i.StringBytes()
		if err != nil {
			return err
		}
		b.WriteString("s" + hx(s))
	case simdjson.TypeInt:
		v, err := i.Int()
		if err != nil {
			return err
		}
		b.WriteString("i" + strconv.FormatInt(v, 10))
	case simdjson.TypeUint:
		v, err := i.Uint()
		if err != nil {
			return err
		}
		b.WriteString("u" + strconv.FormatUint(v, 10))
	case simdjson.TypeFloat:
		v, fl, err := i.FloatFlags()
		if err != nil {
			return err
		}
		b.WriteString("f" + h64(math.Float64bits(v)))
		if fl != 0 {
			b.WriteString("!" + strconv.FormatUint(uint64(fl), 10))
		}
	case simdjson.TypeBool:
		v, err := i.Bool()
		if err != nil {
			return err
		}
		if v {
			b.WriteString("true")
		} else {
			b.WriteString("false")
		}
	case simdjson.TypeNull:
		b.WriteString("null")
	default:
		return errors.New("unexpected type")
	}
	return nil
}

// owalkScratchValue is owalkValue with caller-owned destinations: one Iter, Object and Array per nesting depth,
// kept in the store for the whole case and handed to the API again for every member and every document.
func owalkScratchValue(i *simdjson.Iter, b *strings.Builder, st *store, depth int) error {
	for len(st.scIters) <= depth {
		st.scIters = append(st.scIters, &simdjson.Iter{})
		st.scObjs = append(st.scObjs, nil)
		st.scArrs = append(st.scArrs, nil)
	}
	switch i.Type() {
	case simdjson.TypeObject:
		o, err := i.Object(st.scObjs[depth])
		if err != nil {
			return err
		}
		st.scObjs[depth] = o
		b.WriteByte('{')
		first := true
		for {
			d := st.scIters[depth]
			name, t, err := o.NextElementBytes(d)
			if err != nil {
				return err
			}
			if t == simdjson.TypeNone {
				break
			}
			if !first {
				b.WriteByte(',')
			}
			first = false
			b.WriteString(hx(name))
			b.WriteByte(':')
			if err := owalkScratchValue(d, b, st, depth+1); err != nil {
				return err
			}
		}
		b.WriteByte('}')
		return nil
	case simdjson.TypeArray:
		a, err := i.Array(st.scArrs[depth])
		if err != nil {
			return err
		}
		st.scArrs[depth] = a
		it := a.Iter()
		b.WriteByte('[')
		first := true
		for it.Advance() != simdjson.TypeNone {
			if !first {
				b.WriteByte(',')
			}
			first = false
			c := it
			if err := owalkScratchValue(&c, b, st, depth+1); err != nil {
				return err
			}
		}
		b.WriteByte(']')
		return nil
	default:
		return owalkValue(i, b)
	}
}

func owalkScratch(pj *simdjson.ParsedJson, st *store) (string, error) {
	var b strings.Builder
	b.WriteByte('[')
	first := true
	err := pj.ForEach(func(i simdjson.Iter) error {
		if !first {
			b.WriteByte(',')
		}
		first = false
		return owalkScratchValue(&i, &b, st, 0)
	})
	if err != nil {
		return "", err
	}
	b.WriteByte(']')
	return b.String(), nil
}

func owalk(pj *simdjson.ParsedJson) (string, error) {
	var b strings.Builder
	b.WriteByte('[')
	first := true
	err := pj.ForEach(func(i simdjson.Iter) error {
		if !first {
			b.WriteByte(',')
		}
		first = false
		return owalkValue(&i, &b)
	})
	if err != nil {
		return "", err
	}
	b.WriteByte(']')
	return b.String(), nil
}

// implSpec answers a `spec` / `speciface` op from the implementation: accept + read-back, or reject.
func implSpec(iface bool, nd bool, in []byte) string {
	buf := append([]byte(nil), in...)
	var pj *simdjson.ParsedJson
	var err error
	if nd {
		pj, err = simdjson.ParseND(buf, nil)
	} else {
		pj, err = simdjson.Parse(buf, nil)
	}
	if err != nil {
		return "reject"
	}
	if iface {
		it := pj.Iter()
		v, err := it.Interface()
		if err != nil {
			return "accept " + errStr(err)
		}
		return "accept " + ivalStr(v)
	}
	s, err := owalk(pj)
	if err != nil {
		return "accept " + fmt.Sprint("err")
	}
	return "accept " + s
}
