package main

import (
	"fmt"
	"strings"

	simdjson "github.com/minio/simdjson-go"
)

func init() {
	suites["parse"] = suiteParse
}

// dumpOps is the standard read-back of a parsed document through several APIs.
func dumpOps(pj string) []string {
	return []string{
		"iter i0 " + pj, "interface i0",
		"iter i1 " + pj, "marshal i1",
	}
}

func parseCase(r *rng, text string, nd bool, copyStr bool, note string) *testCase {
	ndS, cpS := "0", "0"
	if nd {
		ndS = "1"
	}
	if copyStr {
		cpS = "1"
	}
	tc := &testCase{note: note}
	tc.ops = append(tc.ops, fmt.Sprintf("parse p %s %s %s", ndS, cpS, hx([]byte(text))))
	tc.ops = append(tc.ops, "tape p", "owalk p")
	tc.ops = append(tc.ops, dumpOps("p")...)
	tc.ops = append(tc.ops, fmt.Sprintf("spec %s %s", ndS, hx([]byte(text))), fmt.Sprintf("speciface %s %s", ndS, hx([]byte(text))))
	return tc
}

func suiteParse(rn *runner, r *rng, tier string) {
	n := 3000
	if tier == "thorough" {
		n = 100000
	}
	// carry: a ParsedJson kept (by value, so that it survives failed calls) from an earlier successful parse of this
	// suite and handed to later cases as the reuse argument: acceptance and the exposed document must not depend on it
	var carry *simdjson.ParsedJson
	suiteScratch = &scratchSet{} // caller-owned destinations of the ordered walk survive from case to case
	defer func() { suiteScratch = nil }()
	// atoms next to the end of the input: the validators of `true`/`false`/`null` read 8 bytes at once where they can and
	// take a byte-wise path where fewer bytes remain; every single-byte misspelling, truncation and follow byte, at every
	// distance from the end that the closing tokens below give (exhaustive: ~1700 short inputs)
	for _, atom := range []string{"true", "false", "null"} {
		var forms []string
		forms = append(forms, atom, atom[:len(atom)-1], atom+"x", strings.ToUpper(atom[:1])+atom[1:])
		for k := 0; k < len(atom); k++ {
			for _, sub := range []string{"x", "y", "\x00", " ", ",", string(atom[k] - 32), string(atom[k] + 1)} {
				forms = append(forms, atom[:k]+sub+atom[k+1:])
			}
		}
		for _, f := range forms {
			for _, shape := range []string{"[%s]", "[%s ]", "[[%s]]", "{\"a\":%s}", "[1,2,%s]", "[%s]\n", "[%s,1]", "[%s  ,1]", "[%s\x00]", "[%s}"} {
				text := fmt.Sprintf(shape, f)
				tc := parseCase(r, text, false, true, "atomtail")
				rn.add(tc)
				cls := "atomtail/" + atom
				rn.rep.Distribution[cls]++
				rn.seen[cls] = true
			}
		}
	}
	for i := 0; i < n; i++ {
		cr := r.fork()
		cfg := defaultCfg(cr)
		var text, kind string
		switch cr.intn(10) {
		case 0, 1, 2, 3:
			text, kind = cr.layout(cr.doc(cfg)), "doc"
		case 4, 5, 6:
			text, kind = cr.mutate(cr.doc(cfg)), "mut"
		case 7:
			text, kind = cr.mutate(cr.mutate(cr.doc(cfg))), "mut2"
		case 8:
			if cr.chance(1, 3) {
				text, kind = cr.denseCtrl(), "densectrl"
			} else if cr.chance(1, 2) {
				text, kind = cr.longStrCtrl(), "longstrctrl"
			} else {
				text, kind = cr.raw(), "raw"
			}
		default:
			t, _ := cr.ndjson(cfg, 1+cr.intn(6), true)
			text, kind = t, "ndtext"
		}
		nd := cr.chance(1, 4)
		if cr.chance(1, 8) && kind != "ndtext" { // large enough for the concurrent path
			text = "[" + strings.Repeat(" ", 8200+cr.intn(200)) + text + "]"
			kind += "L"
		}
		tc := parseCase(cr, text, nd, cr.chance(1, 2), kind)
		if cr.chance(1, 3) {
			tc.ops = append([]string{"mode scratch"}, tc.ops...)
		}
		useCarry := carry != nil && cr.chance(1, 3)
		if useCarry {
			reuse := carry
			first := true
			rn.addWith(tc, func() {
				if first {
					nextParse.reuse = reuse
					first = false
				}
			})
			kind += "+reuse"
		} else {
			rn.add(tc)
		}
		oc := "err"
		if pi := parseIdx(tc); len(tc.impl) > pi && strings.HasPrefix(tc.impl[pi], "ok") {
			oc = "ok"
			if pj := lastStore.pjs["p"]; pj != nil && !nd && (carry == nil || cr.chance(1, 4)) { // ParseND results carry no parser state
				h := *pj
				carry = &h
			}
		}
		tc.class = fmt.Sprintf("%s/%s/nd=%v/%s", kind, oc, nd, sizeClass(len(text)))
		rn.rep.Distribution[tc.class]++
		rn.seen[tc.class] = true
	}
	rn.rep.Rule = "generated documents, mutants, raw bytes and NDJSON texts; distinct = (generator, outcome, nd, size class)"
}

// parseIdx: index of the parse op of a parse case (1 when a mode line precedes it)
func parseIdx(tc *testCase) int {
	if len(tc.ops) > 0 && strings.HasPrefix(tc.ops[0], "mode ") {
		return 1
	}
	return 0
}
