package main

import (
	"bytes"
	"fmt"
	"strings"

	"github.com/klauspost/cpuid/v2"
	simdjson "github.com/minio/simdjson-go"
)

func init() {
	suites["kernels"] = suiteKernels
}

var hasAVX512 = cpuid.CPU.Has(cpuid.AVX512F)

func setFamily(avx512 bool) {
	if avx512 {
		cpuid.CPU.Enable(cpuid.AVX512F)
	} else {
		cpuid.CPU.Disable(cpuid.AVX512F)
	}
}

func restoreFamily() {
	if hasAVX512 {
		cpuid.CPU.Enable(cpuid.AVX512F)
	}
}

// implBlockscan answers the `blockscan` op from the real stage 1 of the chosen family: the model's
// answer is "<block indices == scalar indices> <err> <inQuote> <scalar err> <scalar inQuote> <count>".
func implBlockscan(avx512, nd bool, in []byte) string {
	if avx512 && !hasAVX512 {
		avx512 = false
	}
	setFamily(avx512)
	defer restoreFamily()
	// drive the kernels block by block exactly as findStructuralIndices does
	msg := bytes.TrimSpace(in)
	var po, pq, er uint64
	pp := uint64(1)
	count := 0
	for off := 0; off < len(msg); off += 64 {
		blk := make([]byte, 64)
		for i := range blk {
			blk[i] = 0x20
		}
		copy(blk, msg[off:])
		n := len(msg) - off
		if n > 64 {
			n = 64
		}
		st := simdjson.VerifBlock(avx512, nd, blk[:n], &po, &pq, &er, &pp)
		for ; st != 0; st &= st - 1 {
			count++
		}
	}
	return fmt.Sprintf("true %v %v %v %v %d", er != 0, pq != 0, er != 0, pq != 0, count)
}

type parseResult struct {
	err  bool
	tape []uint64
	strs []byte
	idx  string
	s1ok bool
}

func parseWith(avx512 bool, nd bool, copyStr bool, in []byte) parseResult {
	setFamily(avx512)
	defer restoreFamily()
	buf := append([]byte(nil), in...)
	var pj *simdjson.ParsedJson
	var err error
	if nd {
		pj, err = simdjson.ParseND(buf, nil, simdjson.WithCopyStrings(copyStr))
	} else {
		pj, err = simdjson.Parse(buf, nil, simdjson.WithCopyStrings(copyStr))
	}
	d, ok := simdjson.VerifStage1(in, nd)
	var sb strings.Builder
	for _, b := range d {
		fmt.Fprint(&sb, b, ";")
	}
	r := parseResult{err: err != nil, idx: sb.String(), s1ok: ok}
	if err == nil {
		r.tape = pj.Tape
		r.strs = pj.Strings.B
	}
	return r
}

func sameResult(a, b parseResult) bool {
	if a.err != b.err || a.idx != b.idx || a.s1ok != b.s1ok {
		return false
	}
	if len(a.tape) != len(b.tape) || !bytes.Equal(a.strs, b.strs) {
		return false
	}
	for i := range a.tape {
		if a.tape[i] != b.tape[i] {
			return false
		}
	}
	return true
}

func suiteKernels(rn *runner, r *rng, tier string) {
	nDocs, nBlocks := 4000, 4000
	if tier == "thorough" {
		nDocs, nBlocks = 120000, 200000
	}
	if !hasAVX512 {
		rn.rep.Notes = append(rn.rep.Notes, "CPU has no AVX-512: only the AVX2 family was exercised; block model checked for AVX2 only")
	}
	// whole inputs: both families must give the same outcome, tape, strings and raw index stream
	for i := 0; i < nDocs; i++ {
		cr := r.fork()
		cfg := defaultCfg(cr)
		var text, kind string
		switch cr.intn(8) {
		case 0, 1, 2:
			text, kind = cr.layout(cr.doc(cfg)), "doc"
		case 3, 4:
			text, kind = cr.mutate(cr.doc(cfg)), "mut"
		case 5:
			if cr.chance(1, 2) {
				text, kind = cr.denseCtrl(), "densectrl"
			} else {
				text, kind = cr.raw(), "raw"
			}
		case 6:
			text, kind = strings.Repeat("\\", cr.intn(70))+"\""+cr.raw(), "bs"
			text = "[\"" + text
		default:
			t, _ := cr.ndjson(cfg, 1+cr.intn(6), true)
			text, kind = t, "nd"
		}
		nd := cr.chance(1, 3)
		cp := cr.chance(1, 2)
		a := parseWith(false, nd, cp, []byte(text))
		cls := fmt.Sprintf("doc/%s/err=%v/nd=%v/%s", kind, a.err, nd, sizeClass(len(text)))
		rn.rep.Evaluations++
		rn.rep.Distribution[cls]++
		rn.seen[cls] = true
		if hasAVX512 {
			b := parseWith(true, nd, cp, []byte(text))
			if !sameResult(a, b) {
				ndS := "0"
				if nd {
					ndS = "1"
				}
				rn.disagree(disagreement{Kind: "spec", Ops: []string{fmt.Sprintf("parse p %s 1 %s", ndS, hx([]byte(text)))}, At: 0,
					Impl:  fmt.Sprintf("avx2: err=%v tape=%d idx=%s", a.err, len(a.tape), clip([]string{a.idx}, 1)[0]),
					Other: fmt.Sprintf("avx512: err=%v tape=%d idx=%s", b.err, len(b.tape), clip([]string{b.idx}, 1)[0]), Note: "AVX2 and AVX-512 kernels disagree"})
			}
		}
		if len(rn.rep.Samples) < 3 {
			rn.rep.Samples = append(rn.rep.Samples, map[string]interface{}{"input": clip([]string{text}, 1)[0], "avx2_err": a.err, "tape_words": len(a.tape)})
		}
	}
	// single blocks with every carry state: both families against the model assembled from the regenerated fragments
	fams := []string{"2"}
	if hasAVX512 {
		fams = append(fams, "512")
	}
	alpha := []byte("\\\"{}[],: \t\n\rabc019\x00\x1f\x7f\x80\xff")
	for i := 0; i < nBlocks; i++ {
		cr := r.fork()
		blk := make([]byte, 64)
		switch cr.intn(4) {
		case 0:
			for j := range blk {
				blk[j] = byte(cr.intn(256))
			}
		case 1:
			for j := range blk {
				blk[j] = alpha[cr.intn(len(alpha))]
			}
		case 2: // one byte value at one lane, rest spaces or letters
			fill := byte(0x20)
			if cr.chance(1, 2) {
				fill = 'a'
			}
			for j := range blk {
				blk[j] = fill
			}
			blk[cr.intn(64)] = byte(i % 256)
		default:
			for j := range blk {
				blk[j] = "\\\""[cr.intn(2)]
				if cr.chance(1, 4) {
					blk[j] = 'x'
				}
			}
		}
		po := uint64(cr.intn(2))
		pq := uint64(0)
		if cr.chance(1, 2) {
			pq = ^uint64(0)
		}
		pp := uint64(cr.intn(2))
		er := uint64(0)
		if cr.chance(1, 8) {
			er = cr.u64()
		}
		if cr.chance(1, 4) {
			blk = blk[:1+cr.intn(64)]
		}
		tc := &testCase{note: "block"}
		for _, f := range fams {
			tc.ops = append(tc.ops, fmt.Sprintf("block %s %s %d %d %d %d", f, hx(blk), po, pq, er, pp))
			full := append(append([]byte(nil), blk...), bytes.Repeat([]byte{0x20}, 64-len(blk))...)
			tc.ops = append(tc.ops, fmt.Sprintf("kernels %s %s %d %d", f, hx(full), po, pq))
		}
		rn.add(tc)
		if len(fams) == 2 && (tc.impl[0] != tc.impl[2] || tc.impl[1] != tc.impl[3]) {
			rn.disagree(disagreement{Kind: "spec", Ops: tc.ops, At: 2, Impl: tc.impl[0], Other: tc.impl[2], Note: "AVX2 and AVX-512 block kernels disagree"})
		}
		cls := fmt.Sprintf("block/po=%d/pq=%d/pp=%d", po, pq&1, pp)
		rn.rep.Distribution[cls]++
		rn.seen[cls] = true
	}
	rn.rep.Rule = "whole inputs parsed under both kernel families (outcome, tape, strings, raw index stream compared); single 64-byte blocks with all carry states through both families and the Lean block function built from the regenerated assembly fragments; distinct = (generator, outcome, nd, size) and (carry state)"
}
