package main

import (
	"fmt"
	"math"
	"math/big"
	"strconv"
	"strings"
)

// ---------------------------------------------------------------- G-doc: grammar-directed valid documents

type genCfg struct {
	maxDepth   int
	maxMembers int
	wsMax      int
	ascii      bool // strings restricted to printable ASCII without escapes
}

var keyAlphabet = []string{"a", "b", "c", "d", "aa", "ab", "", "k1", "k2", "key", "x", "id", "\\n", "\\u0041", "é"}

func (r *rng) ws(max int) string {
	if max == 0 || r.chance(2, 3) {
		return ""
	}
	n := r.intn(max + 1)
	if r.chance(9, 10) {
		n = r.intn(3)
	}
	var b strings.Builder
	for i := 0; i < n; i++ {
		b.WriteByte(" \t\n\r"[r.intn(4)])
	}
	return b.String()
}

// wsNoNL is white space without LF (for NDJSON lines).
func (r *rng) wsNoNL(max int) string {
	return strings.ReplaceAll(r.ws(max), "\n", " ")
}

var boundaryInts = []string{
	"0", "-0", "1", "-1", "9", "10", "123", "-123",
	"9223372036854775806", "9223372036854775807", "9223372036854775808", "9223372036854775809",
	"-9223372036854775807", "-9223372036854775808", "-9223372036854775809",
	"18446744073709551614", "18446744073709551615", "18446744073709551616", "18446744073709551617",
	"99999999999999999999", "100000000000000000000", "10000000000000000000", "9999999999999999999",
	"-99999999999999999999", "-100000000000000000000", "123456789012345678901234567890",
	"-18446744073709551615", "-18446744073709551616",
}

func (r *rng) digits(n int, leadingNonZero bool) string {
	var b strings.Builder
	for i := 0; i < n; i++ {
		d := r.intn(10)
		if i == 0 && leadingNonZero && d == 0 {
			d = 1 + r.intn(9)
		}
		b.WriteByte(byte('0' + d))
	}
	return b.String()
}

// halfway returns a decimal string exactly halfway between two adjacent doubles (or a neighbour of it).
func (r *rng) halfway() string {
	bits := r.u64() & 0x7fefffffffffffff
	switch r.intn(6) {
	case 0:
		bits = r.u64() & 0x000fffffffffffff // subnormal
	case 1:
		bits = 0x7fefffffffffffff - uint64(r.intn(3))
	case 2:
		bits = uint64(r.intn(4))
	}
	f := math.Float64frombits(bits)
	g := math.Float64frombits(bits + 1)
	if math.IsInf(g, 0) || math.IsNaN(f) || math.IsInf(f, 0) {
		return "1.5"
	}
	a, _ := new(big.Float).SetPrec(4000).SetFloat64(f).Rat(nil)
	b, _ := new(big.Float).SetPrec(4000).SetFloat64(g).Rat(nil)
	mid := new(big.Rat).Add(a, b)
	mid.Quo(mid, big.NewRat(2, 1))
	s := mid.FloatString(1100)
	s = strings.TrimRight(s, "0")
	if strings.HasSuffix(s, ".") {
		s += "0"
	}
	switch r.intn(3) {
	case 1: // just above
		s += "0000000001"
	case 2: // just below: decrement last digit (it is non-zero after trimming)
		bs := []byte(s)
		if bs[len(bs)-1] > '0' {
			bs[len(bs)-1]--
			s = string(bs) + "9999999999"
		}
	}
	if r.chance(1, 2) {
		s = "-" + s
	}
	return s
}

// tagLookalike: a number whose 64-bit value word reads as a tape tag word (tag character in the top byte, a small
// payload) — a NOP with a plausible skip count, a container start pointing nearby, …: anything that scans value words
// as if they were tag words is misled by it
func (r *rng) tagLookalike() string {
	tags := "NNNNNNNN\"{[}]rludtfn" // NOP look-alikes most often: gaps are what readers and deleters skip over
	tag := uint64(tags[r.intn(len(tags))])
	w := tag<<56 | uint64(r.intn(12))
	if r.chance(1, 2) {
		return strconv.FormatUint(w, 10)
	}
	f := math.Float64frombits(w)
	if math.IsNaN(f) || math.IsInf(f, 0) {
		return strconv.FormatUint(w, 10)
	}
	return strconv.FormatFloat(f, 'g', -1, 64)
}

func (r *rng) number() string {
	if r.chance(1, 12) {
		return r.tagLookalike()
	}
	switch r.intn(12) {
	case 0:
		return r.pick(boundaryInts)
	case 1: // integer of 1..40 digits
		s := r.digits(1+r.intn(40), true)
		if r.chance(1, 2) {
			s = "-" + s
		}
		return s
	case 2: // small int
		return strconv.Itoa(r.intn(2000) - 1000)
	case 3: // decimal
		s := r.digits(1+r.intn(5), true) + "." + r.digits(1+r.intn(20), false)
		if r.chance(1, 3) {
			s = "-" + s
		}
		return s
	case 4: // exponent spellings
		m := r.digits(1+r.intn(4), true)
		if r.chance(1, 2) {
			m += "." + r.digits(1+r.intn(6), false)
		}
		e := []string{"e", "E", "e+", "E+", "e-", "E-"}[r.intn(6)]
		x := strconv.Itoa(r.intn(330))
		if r.chance(1, 5) {
			x = "0" + x
		}
		s := m + e + x
		if r.chance(1, 3) {
			s = "-" + s
		}
		return s
	case 5: // random double printed by Go (round trips)
		f := math.Float64frombits(r.u64())
		if math.IsNaN(f) || math.IsInf(f, 0) {
			return "0.5"
		}
		return strconv.FormatFloat(f, "eEfgG"[r.intn(5)], -1, 64)
	case 6:
		return r.halfway()
	case 7: // zero forms
		return r.pick([]string{"0.0", "-0.0", "0e0", "0E-5", "-0e10", "0.000", "0e999", "0.0e-999"})
	case 8: // near overflow / underflow
		return r.pick([]string{"1.7976931348623157e308", "1.7976931348623158e308", "1.797693134862315807e308", "4.9e-324", "2.4703282292062327e-324", "2.4703282292062328e-324", "2.4703282292062329e-324", "1e-400", "2.2250738585072014e-308", "2.2250738585072011e-308", "1e308", "9e307"})
	case 9: // 19/20/21-digit neighbours of powers of ten
		p := new(big.Int).Exp(big.NewInt(10), big.NewInt(int64(18+r.intn(4))), nil)
		p.Add(p, big.NewInt(int64(r.intn(21)-10)))
		s := p.String()
		if r.chance(1, 3) {
			s = "-" + s
		}
		return s
	case 10: // around 2^63 and 2^64
		p := new(big.Int).Lsh(big.NewInt(1), uint(63+r.intn(2)))
		p.Add(p, big.NewInt(int64(r.intn(41)-20)))
		s := p.String()
		if r.chance(1, 3) {
			s = "-" + s
		}
		if r.chance(1, 4) {
			s += ".0"
		}
		return s
	default:
		return strconv.Itoa(r.intn(100))
	}
}

var escapes = []string{`\"`, `\\`, `\/`, `\b`, `\f`, `\n`, `\r`, `\t`}

func (r *rng) uEscape() string {
	cu := r.intn(0x10000)
	switch r.intn(6) {
	case 0:
		cu = r.intn(0x80)
	case 1:
		cu = 0x80 + r.intn(0x780)
	case 2:
		cu = 0x800 + r.intn(0xD000)
	}
	hexf := "%04x"
	if r.chance(1, 2) {
		hexf = "%04X"
	}
	if cu >= 0xD800 && cu < 0xE000 {
		// well-formed pair only
		hi := 0xD800 + r.intn(0x400)
		lo := 0xDC00 + r.intn(0x400)
		return fmt.Sprintf("\\u"+hexf+"\\u"+hexf, hi, lo)
	}
	return fmt.Sprintf("\\u"+hexf, cu)
}

// strBody returns the source text of a string body (between the quotes).
func (r *rng) strBody(cfg *genCfg) string {
	n := r.intn(12)
	switch r.intn(10) {
	case 0:
		n = 0
	case 1:
		n = 20 + r.intn(120)
	}
	var b strings.Builder
	for i := 0; i < n; i++ {
		if cfg.ascii {
			b.WriteByte(byte('a' + r.intn(26)))
			continue
		}
		switch r.intn(14) {
		case 0:
			b.WriteString(r.pick(escapes))
		case 1:
			b.WriteString(r.uEscape())
		case 2: // 2-byte UTF-8
			b.WriteString(string(rune(0x80 + r.intn(0x780))))
		case 3: // 3-byte UTF-8
			c := rune(0x800 + r.intn(0xF800))
			if c >= 0xD800 && c < 0xE000 {
				c = 0x4E2D
			}
			b.WriteString(string(c))
		case 4: // 4-byte
			b.WriteString(string(rune(0x10000 + r.intn(0x100000))))
		case 5:
			punct := " !#$%&'()*+,-./:;<=>?@[]^_`{|}~\x7f"
			b.WriteByte(punct[r.intn(len(punct))])
		default:
			b.WriteByte(byte('a' + r.intn(26)))
		}
	}
	return b.String()
}

func (r *rng) value(cfg *genCfg, depth int, b *strings.Builder) {
	k := r.intn(10)
	if depth >= cfg.maxDepth && k >= 8 {
		k = r.intn(8)
	}
	switch k {
	case 0:
		b.WriteString("null")
	case 1:
		b.WriteString("true")
	case 2:
		b.WriteString("false")
	case 3, 4:
		b.WriteString(r.number())
	case 5, 6, 7:
		b.WriteByte('"')
		b.WriteString(r.strBody(cfg))
		b.WriteByte('"')
	case 8:
		r.array(cfg, depth+1, b)
	case 9:
		r.object(cfg, depth+1, b)
	}
}

func (r *rng) nMembers(cfg *genCfg) int {
	switch r.intn(8) {
	case 0:
		return 0
	case 1:
		return r.intn(cfg.maxMembers + 1)
	default:
		return r.intn(5)
	}
}

func (r *rng) array(cfg *genCfg, depth int, b *strings.Builder) {
	b.WriteByte('[')
	b.WriteString(r.ws(cfg.wsMax))
	n := r.nMembers(cfg)
	for i := 0; i < n; i++ {
		if i > 0 {
			b.WriteByte(',')
			b.WriteString(r.ws(cfg.wsMax))
		}
		r.value(cfg, depth, b)
		b.WriteString(r.ws(cfg.wsMax))
	}
	b.WriteByte(']')
}

func (r *rng) object(cfg *genCfg, depth int, b *strings.Builder) {
	b.WriteByte('{')
	b.WriteString(r.ws(cfg.wsMax))
	n := r.nMembers(cfg)
	for i := 0; i < n; i++ {
		if i > 0 {
			b.WriteByte(',')
			b.WriteString(r.ws(cfg.wsMax))
		}
		b.WriteByte('"')
		if r.chance(4, 5) {
			b.WriteString(r.pick(keyAlphabet))
		} else {
			b.WriteString(r.strBody(cfg))
		}
		b.WriteByte('"')
		b.WriteString(r.ws(cfg.wsMax))
		b.WriteByte(':')
		b.WriteString(r.ws(cfg.wsMax))
		r.value(cfg, depth, b)
		b.WriteString(r.ws(cfg.wsMax))
	}
	b.WriteByte('}')
}

// doc produces one valid JSON text whose root is an object or array.
func (r *rng) doc(cfg *genCfg) string {
	var b strings.Builder
	b.WriteString(r.ws(cfg.wsMax))
	if r.chance(1, 2) {
		r.object(cfg, 1, &b)
	} else {
		r.array(cfg, 1, &b)
	}
	b.WriteString(r.ws(cfg.wsMax))
	return b.String()
}

func defaultCfg(r *rng) *genCfg {
	return &genCfg{maxDepth: 1 + r.intn(6), maxMembers: 3 + r.intn(20), wsMax: []int{0, 2, 8, 70}[r.intn(4)]}
}

// layout pads a document so that interesting positions hit block / buffer / threshold boundaries.
func (r *rng) layout(doc string) string {
	switch r.intn(6) {
	case 0: // leading white space so that the document starts at a chosen block offset (trimmed away, so pad inside)
		return doc
	case 1: // wrap in an array preceded by k spaces inside, so every token shifts by k mod 64
		k := r.intn(130)
		return "[" + strings.Repeat(" ", k) + doc + "]"
	case 2: // total length near 8 KiB
		target := 8192 + r.intn(5) - 2
		if len(doc)+4 < target {
			return "[" + doc + "," + strings.Repeat(" ", target-len(doc)-4) + "1]"
		}
		return doc
	case 3: // length 64k±1
		k := 1 + r.intn(6)
		target := 64*k + r.intn(3) - 1
		if len(doc)+4 < target {
			return "[" + doc + "," + strings.Repeat(" ", target-len(doc)-4) + "1]"
		}
		return doc
	case 4: // many structurals before the document so it lands around entry 1408 of an index buffer
		n := 690 + r.intn(30) // "1," gives 2 indices each
		return "[" + strings.Repeat("1,", n) + doc + "]"
	default:
		return doc
	}
}

// ---------------------------------------------------------------- G-mut: token mutations

var badTokens = []string{
	"01", "-01", "00", "-00", "+1", "1.", ".5", "1e", "1e+", "1.e5", "-", "--1", "1.2.3", "1e5e5", "0x10", "1_0", "Infinity", "NaN", "-Infinity",
	"-01.5", "-01e3", "01.5", "01e3", "-012345678901234567890", "012345678901234567890", "1e400", "-1e400", "1e309", "2e308",
	"tru", "True", "TRUE", "truee", "true1", "fals", "False", "falsee", "nul", "Null", "nulll", "none", "undefined",
	"\"\\x\"", "\"\\u12\"", "\"\\u123g\"", "\"\\\"", "\"\\ud800\"", "\"abc", "\"a\nb\"", "\"a\tb\"", "\"a\x00b\"", "\"\x1f\"", "'a'",
	"true\x00", "null\x00", "false\x00", "1\x00", "\x00", "\x01", "\x7f", "\xff", "\xc2\x85", "\xc2\xa0", "\xe2\x80\xa8", "\v", "\f",
	",", ":", "[", "]", "{", "}", "[1,]", "[,1]", "[1 2]", "{\"a\"}", "{\"a\":}", "{\"a\":1,}", "{1:2}", "{\"a\" 1}", "{\"a\"::1}", "[1,,2]", "{,}", "[}", "{]",
}

// mutate applies one mutation to a valid document.
func (r *rng) mutate(doc string) string {
	if len(doc) == 0 {
		return doc
	}
	b := []byte(doc)
	pos := r.intn(len(b))
	switch r.intn(9) {
	case 0: // substitute a byte
		b[pos] = byte(r.intn(256))
		return string(b)
	case 1: // delete a byte
		return string(append(b[:pos:pos], b[pos+1:]...))
	case 2: // insert a byte
		c := byte(r.intn(256))
		if r.chance(2, 3) {
			alpha := "{}[],:\"\\0189-+.eEtfn \n\t\r\x00"
			c = alpha[r.intn(len(alpha))]
		}
		return string(b[:pos]) + string([]byte{c}) + string(b[pos:])
	case 3: // truncate
		return string(b[:pos])
	case 4: // insert a bad token at a structural position
		idxs := structuralPositions(b)
		if len(idxs) == 0 {
			return doc
		}
		p := idxs[r.intn(len(idxs))]
		return string(b[:p]) + r.pick(badTokens) + string(b[p:])
	case 5: // replace a value-ish token: find a digit run or literal and replace with bad token
		idxs := structuralPositions(b)
		if len(idxs) < 2 {
			return doc
		}
		k := r.intn(len(idxs) - 1)
		return string(b[:idxs[k]+1]) + r.pick(badTokens) + string(b[idxs[k+1]:])
	case 6: // trailing content
		return doc + r.pick([]string{"x", "1", "{}", "[]", ",", "]", "}", "\"a\"", "null", "\x00", " x"})
	case 7: // swap two bytes
		q := r.intn(len(b))
		b[pos], b[q] = b[q], b[pos]
		return string(b)
	default: // duplicate a slice
		q := pos + r.intn(len(b)-pos)
		return string(b[:q]) + string(b[pos:q]) + string(b[q:])
	}
}

// structuralPositions returns positions of , : [ ] { } outside strings (approximate scanner for valid docs).
func structuralPositions(b []byte) []int {
	var out []int
	in := false
	for i := 0; i < len(b); i++ {
		c := b[i]
		if in {
			if c == '\\' {
				i++
			} else if c == '"' {
				in = false
			}
			continue
		}
		switch c {
		case '"':
			in = true
		case ',', ':', '[', ']', '{', '}':
			out = append(out, i)
		}
	}
	return out
}

// ---------------------------------------------------------------- G-raw

func (r *rng) raw() string {
	n := r.intn(200)
	if r.chance(1, 10) {
		n = r.intn(3000)
	}
	b := make([]byte, n)
	switch r.intn(4) {
	case 0:
		for i := range b {
			b[i] = byte(r.intn(256))
		}
	case 1:
		alpha := "{}[],:\"\\0123456789-+.eEtruefalsn \n\t\r"
		for i := range b {
			b[i] = alpha[r.intn(len(alpha))]
		}
	case 2:
		c := "{}[],:\""[r.intn(7)]
		for i := range b {
			b[i] = c
		}
	default:
		alpha := "[]{},"
		for i := range b {
			b[i] = alpha[r.intn(len(alpha))]
		}
	}
	return string(b)
}

// denseCtrl: an invalid document — a raw control character inside a string — surrounded by enough structurals
// that the string lies in a stage-1 call that ends because an index buffer filled up, or in an earlier
// block than the last one.
// longStrCtrl: a raw control character (or none) somewhere inside a string that spans several 64-byte blocks, so
// that whole blocks lie inside the string without containing a quote; also with escaped quotes and backslash runs
// in the neighbourhood.
func (r *rng) longStrCtrl() string {
	n := 70 + r.intn(400)
	body := make([]byte, n)
	for i := range body {
		body[i] = byte('a' + r.intn(26))
	}
	for k := r.intn(4); k > 0; k-- { // escaped quotes / backslashes, two bytes each
		i := r.intn(n - 1)
		body[i], body[i+1] = '\\', []byte{'"', '\\', 'n', '/'}[r.intn(4)]
	}
	if r.chance(5, 6) {
		i := r.intn(n)
		if i > 0 && body[i-1] == '\\' {
			i--
		}
		if i+1 < n && body[i] == '\\' {
			body[i+1] = 'x' // keep the text otherwise well formed
			body[i] = 'y'
		}
		body[i] = byte(r.intn(0x20))
	}
	pre := strings.Repeat(" ", r.intn(70))
	switch r.intn(3) {
	case 0:
		return "[" + pre + "\"" + string(body) + "\"]"
	case 1:
		return "{\"k\":" + pre + "\"" + string(body) + "\",\"z\":1}"
	default:
		return "{" + pre + "\"" + string(body) + "\":[1,2]}"
	}
}

func (r *rng) denseCtrl() string {
	n := 40 + r.intn(200)
	if r.chance(1, 2) {
		n = 650 + r.intn(2600)
	}
	var b strings.Builder
	b.WriteByte('[')
	at := r.intn(n)
	for i := 0; i < n; i++ {
		if i > 0 {
			b.WriteByte(',')
		}
		if i == at {
			b.WriteString("\"aaaa")
			b.WriteByte(byte(r.intn(0x20)))
			b.WriteString("aaaa\"")
		} else {
			b.WriteByte(byte('0' + r.intn(10)))
		}
	}
	b.WriteByte(']')
	if r.chance(1, 3) {
		b.WriteString(strings.Repeat(" ", r.intn(70)))
		b.WriteString("\n[1]")
	}
	return b.String()
}

// literals: a document dominated by true/false/null (tags outnumber values in the serialized form)
func (r *rng) literals(n int) string {
	var b strings.Builder
	b.WriteByte('[')
	for i := 0; i < n; i++ {
		if i > 0 {
			b.WriteByte(',')
		}
		b.WriteString([]string{"true", "false", "null"}[r.intn(3)])
	}
	b.WriteByte(']')
	return b.String()
}

// ndjson builds a newline-delimited text from lines.
func (r *rng) ndjson(cfg *genCfg, nLines int, allowBad bool) (text string, lines []string) {
	var b strings.Builder
	for i := 0; i < nLines; i++ {
		var line string
		switch k := r.intn(12); {
		case k == 0:
			line = ""
		case k == 1:
			line = strings.Repeat(" ", r.intn(4)) + strings.Repeat("\t", r.intn(2))
		case k == 2 && allowBad:
			c2 := *cfg
			c2.wsMax = 0
			line = r.mutate(strings.ReplaceAll(r.doc(&c2), "\n", " "))
			line = strings.ReplaceAll(line, "\n", " ")
		default:
			c2 := *cfg
			line = strings.ReplaceAll(r.doc(&c2), "\n", " ")
		}
		lines = append(lines, line)
		b.WriteString(line)
		if i+1 < nLines || r.chance(1, 2) {
			if r.chance(1, 4) {
				b.WriteString("\r\n")
			} else {
				b.WriteString("\n")
			}
		}
	}
	return b.String(), lines
}
