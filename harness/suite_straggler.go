package main

import (
	"bytes"
	"encoding/binary"
	"fmt"
	"strconv"
	"strings"
	"time"

	"github.com/klauspost/compress/s2"
	simdjson "github.com/minio/simdjson-go"
)

// Stragglers (C15, C20): when Deserialize has RETURNED — with a result or with an error — the destination belongs to the
// caller again, who may hand it to the next call or to another goroutine.  Deserialize decompresses the string, message,
// tag and value sections in goroutines of its own; one of them still running after the return writes memory that is no
// longer Deserialize's (a data race by construction, and the next document read through that destination is
// overwritten).  The observation needs no second document: a section large enough that its decompressor runs for
// milliseconds, a fault in a LATER section so that Deserialize returns early, and then the tail of the destination's
// buffer is read twice — at once, and after the straggler would have finished.  On a library that joins its
// goroutines before returning the two reads are equal whatever the scheduling, so this cannot raise a false alarm.
//
//   kind "message": a blob made by Serialize (its strings live in the message section) cut after the message block,
//                   followed by a tags section whose block announces more bytes than are left;
//   kind "strings": a hand-made blob whose STRINGS section is an S2 block (Serialize never writes one, Deserialize
//                   reads it: blobs of format versions that did, and arbitrary bytes), cut before the message size.
//
// Self-describing op `straggler <seed> <kind> <mode> <MiB>`.
func runStraggler(op string) string {
	ws := strings.Fields(op)
	if len(ws) != 5 {
		return "bad-op"
	}
	seed, _ := strconv.ParseUint(ws[1], 10, 64)
	kind := ws[2]
	modeN, _ := strconv.Atoi(ws[3])
	mib, _ := strconv.Atoi(ws[4])
	cr := &rng{s: seed}
	size := mib << 20
	var bad []byte
	switch kind {
	case "message":
		var sb strings.Builder
		sb.WriteString(`{"a":[`)
		for i := 0; sb.Len() < size; i++ {
			fmt.Fprintf(&sb, "\"x%dy%s\",", uint32(cr.u64()), strings.Repeat("p", cr.intn(24)))
		}
		sb.WriteString(`"z"],"b":"BIG"}`)
		pj, err := simdjson.Parse([]byte(sb.String()), nil)
		if err != nil {
			return "generator: " + err.Error()
		}
		ser := simdjson.NewSerializer()
		ser.CompressMode([]simdjson.CompressMode{simdjson.CompressFast, simdjson.CompressDefault, simdjson.CompressBest}[modeN%3])
		blob := ser.Serialize(nil, *pj)
		br := bytes.NewBuffer(blob[1:])
		for k := 0; k < 5; k++ { // comp size, tape size, strings size, strings block size (0), message size
			if _, err := binary.ReadUvarint(br); err != nil {
				return "generator: header"
			}
		}
		bs, err := binary.ReadUvarint(br)
		if err != nil || int(bs) > br.Len() {
			return "generator: message block"
		}
		end := len(blob) - br.Len() + int(bs)
		_, n0 := binary.Uvarint(blob[1:]) // the declared total is replaced by 0 (it is only compared with what is left)
		bad = append(bad, blob[0], 0)
		bad = append(bad, blob[1+n0:end]...)
		bad = append(bad, 5, 0xff, 0x7f) // tags: 5 bytes announced, in a block of 16383 bytes that are not there
	case "strings":
		raw := make([]byte, size)
		for i := range raw {
			raw[i] = byte('a' + (i*7+int(cr.u64()&3))%23)
		}
		var stream bytes.Buffer // the S2 stream format, which is what decBlock's reader expects
		w := s2.NewWriter(&stream)
		w.Write(raw)
		w.Close()
		var tmp [binary.MaxVarintLen64]byte
		bad = append(bad, 3, 0) // version, comp size
		bad = append(bad, 4)    // tape size
		n := binary.PutUvarint(tmp[:], uint64(size))
		bad = append(bad, tmp[:n]...) // strings size
		n = binary.PutUvarint(tmp[:], uint64(1+stream.Len()))
		bad = append(bad, tmp[:n]...)
		bad = append(bad, 1) // blockTypeS2
		bad = append(bad, stream.Bytes()...)
		// the message size is missing: EOF
	default:
		return "bad-op"
	}
	dst := &simdjson.ParsedJson{}
	d := simdjson.NewSerializer()
	_, err := d.Deserialize(bad, dst)
	if err == nil {
		return "the damaged blob was accepted"
	}
	buf := dst.Message
	if kind == "strings" {
		if dst.Strings == nil {
			return "ok (no string buffer was made)"
		}
		buf = dst.Strings.B
	}
	buf = buf[:cap(buf)]
	if len(buf) < 1<<20 {
		return fmt.Sprintf("ok (buffer of %d bytes)", len(buf))
	}
	// the caller owns dst again: nothing may write it from now on
	tail := 1 << 16
	first := append([]byte(nil), buf[len(buf)-tail:]...)
	for k := 0; k < 40; k++ {
		time.Sleep(10 * time.Millisecond)
		if !bytes.Equal(first, buf[len(buf)-tail:]) {
			return fmt.Sprintf("Deserialize returned (%v) and %d ms later the last %d bytes of the destination's %s buffer (%d bytes) had changed: one of its goroutines was still writing", err, (k+1)*10, tail, kind, len(buf))
		}
	}
	return "ok stable"
}

func stragglerCase(rn *runner, cr *rng, kind string, mode, mib int, note string) {
	op := fmt.Sprintf("straggler %d %s %d %d", cr.u64(), kind, mode, mib)
	out := runStraggler(op)
	rn.rep.Evaluations++
	cls := "straggler/" + kind + "/" + strconv.Itoa(mode%3)
	rn.rep.Distribution[cls]++
	rn.seen[cls] = true
	if !strings.HasPrefix(out, "ok") {
		rn.disagree(disagreement{Kind: "spec", Ops: []string{op}, At: 0, Impl: out, Other: "ok <nothing writes the destination after Deserialize has returned>", Note: note})
	}
}

// stragglerCases: both kinds; quick = one of each, thorough = every mode and several sizes
func stragglerCases(rn *runner, r *rng, tier, note string) {
	if tier != "thorough" {
		stragglerCase(rn, r.fork(), "message", r.intn(3), 12, note)
		stragglerCase(rn, r.fork(), "strings", 0, 24, note)
		return
	}
	for _, mib := range []int{4, 12, 32} {
		for mode := 0; mode < 3; mode++ {
			stragglerCase(rn, r.fork(), "message", mode, mib, note)
		}
	}
	for _, mib := range []int{4, 24, 48, 96} {
		stragglerCase(rn, r.fork(), "strings", 0, mib, note)
	}
}
