package main

import (
	"bytes"
	"fmt"
	"os"
	"os/exec"
	"path/filepath"
	"strings"

	simdjson "github.com/minio/simdjson-go"
)

// C11, last sentence: "The same bytes deserialize to the same document in a build without assembly support."
// The suites collect serialized blobs (valid ones of every mode pair, and corrupt ones); at the end the same bytes go
// through bin/sjnoasm (this module's ./noasm built with -tags noasm) and the two descriptions are compared.

var noasmBlobs [][]byte

func noteBlob(b []byte) {
	if len(noasmBlobs) < 400 && len(b) < 1<<20 {
		noasmBlobs = append(noasmBlobs, append([]byte{}, b...))
	}
}

// describeDeser: keep in step with noasm/main.go:describe
func describeDeser(blob []byte) (out string) {
	defer func() {
		if r := recover(); r != nil {
			out = "panic"
		}
	}()
	s := simdjson.NewSerializer()
	pj, err := s.Deserialize(blob, nil)
	if err != nil {
		return "err"
	}
	var sb []byte
	if pj.Strings != nil {
		sb = pj.Strings.B
	}
	it := pj.Iter()
	ms, merr := it.MarshalJSON()
	mh := "merr"
	if merr == nil {
		mh = fmt.Sprintf("%016x", fnvBytes(ms))
	}
	return fmt.Sprintf("ok %d %016x %d %016x %d %016x %s", len(pj.Tape), fnvWords(pj.Tape), len(sb), fnvBytes(sb), len(pj.Message), fnvBytes(pj.Message), mh)
}

func compareNoasm(rn *runner, note string) {
	blobs := noasmBlobs
	noasmBlobs = nil
	if len(blobs) == 0 {
		return
	}
	exe := os.Getenv("SJNOASM")
	if exe == "" {
		self, _ := os.Executable()
		exe = filepath.Join(filepath.Dir(self), "sjnoasm")
	}
	if _, err := os.Stat(exe); err != nil {
		rn.rep.Notes = append(rn.rep.Notes, "noasm comparison skipped: "+exe+" not built")
		return
	}
	var in bytes.Buffer
	for _, b := range blobs {
		in.WriteString(hx(b))
		in.WriteByte('\n')
	}
	cmd := exec.Command(exe)
	cmd.Stdin = &in
	outB, err := cmd.Output()
	if err != nil {
		rn.rep.Notes = append(rn.rep.Notes, "noasm comparison failed to run: "+err.Error())
		rn.disagree(disagreement{Kind: "model", Ops: []string{"noasm"}, At: 0, Impl: err.Error(), Other: "<sjnoasm runs>", Note: note})
		return
	}
	lines := strings.Split(strings.TrimRight(string(outB), "\n"), "\n")
	okN := 0
	for k, b := range blobs {
		rn.rep.Evaluations++
		want := describeDeser(b)
		got := "<missing>"
		if k < len(lines) {
			got = lines[k]
		}
		if strings.HasPrefix(want, "ok") {
			okN++
		}
		if got != want {
			rn.disagree(disagreement{Kind: "spec", Ops: []string{"deserraw d " + hx(b)}, At: 0, Impl: "noasm build: " + got, Other: "assembly build: " + want,
				Note: note, Detail: "the same bytes deserialized by a build with -tags noasm and by the assembly build"})
		}
	}
	cls := "noasm-compare"
	rn.rep.Distribution[cls] += len(blobs)
	rn.seen[cls] = true
	rn.rep.Notes = append(rn.rep.Notes, fmt.Sprintf("noasm build vs assembly build on %d serialized blobs (%d accepted by both)", len(blobs), okN))
}
