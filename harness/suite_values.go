package main

import (
	"encoding/json"
	"fmt"
	simdjson "github.com/minio/simdjson-go"
	"math"
	"math/big"
	"strconv"
	"strings"
)

func init() {
	suites["numbers"] = suiteNumbers
	suites["strings"] = suiteStrings
	suites["nd"] = suiteND
	suites["numeric"] = suiteNumeric
	suites["float"] = suiteFloat
}

// wrap places a literal as an array element or an object value, at a random block offset.
func wrapLit(r *rng, lit string) string {
	pad := strings.Repeat(" ", r.intn(70))
	switch r.intn(4) {
	case 0:
		return "[" + pad + lit + "]"
	case 1:
		return "{\"a\":" + pad + lit + "}"
	case 2:
		return "[1," + pad + lit + " ,2]"
	default:
		return "{\"k\":[" + lit + "]," + pad + "\"v\":" + lit + "}"
	}
}

func valueCase(r *rng, text string, nd bool, note string) *testCase {
	ndS := "0"
	if nd {
		ndS = "1"
	}
	cp := "0"
	if r.chance(1, 2) {
		cp = "1"
	}
	h := hx([]byte(text))
	return &testCase{note: note, ops: []string{
		fmt.Sprintf("parse p %s %s %s", ndS, cp, h), "tape p", "owalk p", "wf p",
		"iter i0 p", "interface i0", "iter i1 p", "marshal i1",
		fmt.Sprintf("spec %s %s", ndS, h)}}
}

// C03: literals of every shape, good and bad
func suiteNumbers(rn *runner, r *rng, tier string) {
	n := 12000
	if tier == "thorough" {
		n = 600000
	}
	for i := 0; i < n; i++ {
		cr := r.fork()
		var lit, kind string
		switch cr.intn(10) {
		case 0:
			lit, kind = cr.pick(badTokens[:32]), "bad"
		case 1: // mutate a good number by one character
			lit = cr.number()
			b := []byte(lit)
			p := cr.intn(len(b))
			alpha := "0123456789+-.eE"
			b[p] = alpha[cr.intn(len(alpha))]
			lit, kind = string(b), "mutnum"
		default:
			lit, kind = cr.number(), "num"
		}
		tc := valueCase(cr, wrapLit(cr, lit), false, kind)
		// the literal alone through parseNumber, followed by each end-of-value byte or garbage
		follow := []string{",", "}", "]", " ", "\t", "\r", "\n", ":", "x", "\x00", "\"", ""}[cr.intn(12)]
		tc.ops = append(tc.ops, "parsenumber "+hx([]byte(lit+follow)))
		rn.add(tc)
		cls := fmt.Sprintf("%s/%s/len=%d", kind, outcomeOf(tc.impl[0]), minInt(len(lit)/8, 6))
		if strings.HasPrefix(tc.impl[2], "[") {
			cls += "/" + numKinds(tc.impl[2])
		}
		rn.rep.Distribution[cls]++
		rn.seen[cls] = true
	}
	rn.rep.Rule = "number literals (boundary integers, 1-40 digits, exponent spellings, exact halfway points between doubles and their neighbours, subnormals, overflow threshold, malformed forms) as array element and object value, through Parse and through parseNumber with every follow byte; oracle: Spec.numValue (exact arithmetic); distinct = (generator, outcome, length class, exposed kinds)"
}

func minInt(a, b int) int {
	if a < b {
		return a
	}
	return b
}

func numKinds(ow string) string {
	k := ""
	for _, c := range []string{"i", "u", "f"} {
		for _, t := range tokens(ow) {
			if strings.HasPrefix(t, c) && len(t) > 1 && (t[1] == '-' || (t[1] >= '0' && t[1] <= '9')) {
				if strings.Contains(t, "!") {
					k += c + "!"
				} else {
					k += c
				}
				break
			}
		}
	}
	return k
}

// C04: escapes, lengths and alignments
func suiteStrings(rn *runner, r *rng, tier string) {
	thorough := tier == "thorough"
	emit := func(cr *rng, body, kind string) {
		pad := cr.intn(64)
		var text string
		switch cr.intn(3) {
		case 0:
			text = "[" + strings.Repeat(" ", pad) + "\"" + body + "\"]"
		case 1:
			text = "{" + strings.Repeat(" ", pad) + "\"" + body + "\":1}"
		default: // last string of the input, flush against the end
			text = "{\"k\":" + strings.Repeat(" ", pad) + "\"" + body + "\"}"
		}
		tc := valueCase(cr, text, false, kind)
		rn.add(tc)
		cls := fmt.Sprintf("%s/%s/off=%d", kind, outcomeOf(tc.impl[0]), pad/16)
		rn.rep.Distribution[cls]++
		rn.seen[cls] = true
	}
	// a caller that reads every message into the same buffer and reuses the ParsedJson: same address, same length,
	// different strings near the end of the input (the region the parser pads for the string kernel)
	for k := 0; k < 12; k++ {
		cr := r.fork()
		var carry *simdjson.ParsedJson
		words := []string{"alpha", "omega", "gamma", "delta", "a\\\"b\\n", "\\u00e9\\u00e8x", "zzzzz", "     "}
		tail := strings.Repeat(" ", cr.intn(70))
		for round := 0; round < 4; round++ {
			w := words[cr.intn(len(words))]
			if len(w) != 5 && round > 0 { // keep the length: escapes change it, plain words do not
				w = words[cr.intn(4)]
			}
			if round == 0 {
				w = words[cr.intn(4)]
			}
			var text string
			switch k % 3 {
			case 0:
				text = "{\"K\":\"" + w + "\"" + tail + "}"
			case 1:
				text = "[1,2,\"" + w + "\"" + tail + "]"
			default:
				text = "{\"" + w + "\":" + tail + "1}"
			}
			tc := valueCase(cr, text, false, "inplace-reuse")
			reuse := carry
			rn.addWith(tc, func() {
				nextParse.inplace = true
				nextParse.reuse = reuse
			})
			nextParse = parseOpts{}
			if pj := lastStore.pjs["p"]; pj != nil {
				h := *pj
				carry = &h
			}
			cls := fmt.Sprintf("inplace-reuse/%s/round=%d", outcomeOf(tc.impl[0]), round)
			rn.rep.Distribution[cls]++
			rn.seen[cls] = true
		}
	}
	// two escapes at every pair of offsets within the first windows of the string kernel (its scan windows are 32 bytes
	// from the string start; what the first escape left in a register must not leak into the window of the second):
	// the expected bytes are known by construction, so this family needs no model
	{
		type esc struct{ src, dec string }
		first := []esc{{"\\\"", "\""}, {"\\\\", "\\"}, {"\\u0041", "A"}}
		second := []esc{{"\\u0041", "A"}, {"\\ud83d\\ude00", "\U0001F600"}, {"\\\"", "\""}, {"\\n", "\n"}}
		maxOff := 70
		if thorough {
			maxOff = 140
		}
		bad := 0
		for a := 0; a < maxOff && bad < 3; a++ {
			for bgap := 0; bgap < maxOff && bad < 3; bgap++ {
				for i1, e1 := range first {
					for i2, e2 := range second {
						for _, tail := range []int{0, 12, 40} {
							plainA, plainB, plainC := strings.Repeat("a", a), strings.Repeat("b", bgap), strings.Repeat("c", tail)
							body := plainA + e1.src + plainB + e2.src + plainC
							want := plainA + e1.dec + plainB + e2.dec + plainC
							text := "[\"" + body + "\"]"
							cp := (a+bgap+i1+i2)%2 == 0
							pj, err := simdjson.Parse([]byte(text), nil, simdjson.WithCopyStrings(cp))
							got, ok := "", false
							if err == nil {
								func() {
									defer func() { recover() }()
									it := pj.Iter()
									it.AdvanceInto()
									it.AdvanceInto()
									if it.AdvanceInto() == simdjson.TagString {
										if sb, e := it.StringBytes(); e == nil {
											got, ok = string(sb), true
										}
									}
								}()
							}
							rn.rep.Evaluations++
							if !ok || got != want {
								bad++
								cpS := "0"
								if cp {
									cpS = "1"
								}
								impl := "rejected or unreadable"
								if ok {
									impl = hx([]byte(got))
								}
								rn.disagree(disagreement{Kind: "spec", Ops: []string{"parse p 0 " + cpS + " " + hx([]byte(text)), "owalk p"}, At: 0, Impl: impl,
									Other: "the string " + hx([]byte(want)), Note: fmt.Sprintf("strings: escapes at offsets %d and %d of one string", a, a+len(e1.src)+bgap)})
							}
						}
					}
				}
			}
		}
		rn.rep.Distribution["two-escapes/exhaustive"]++
		rn.seen["two-escapes/exhaustive"] = true
	}
	// an escape right where stage 1 closes one index buffer and opens the next (1408 indexes into the document): the
	// odd-backslash carry crosses from the last 64-byte block of one round into the first of the next. Expected bytes by
	// construction; every alignment of the block boundary inside the string
	{
		bad := 0
		ns := []int{701, 702, 703, 704, 705}
		if thorough {
			ns = []int{690, 695, 700, 701, 702, 703, 704, 705, 706, 710, 1405, 1406, 1407, 1408}
		}
		for _, n := range ns {
			for pad := 0; pad < 64 && bad < 3; pad++ {
				for k := 0; k < 64 && bad < 3; k++ {
					esc, dec := "\\\"", "\""
					if (pad+k)%3 == 1 {
						esc, dec = "\\\\", "\\"
					}
					body := strings.Repeat("a", k) + esc + "b"
					want := strings.Repeat("a", k) + dec + "b"
					text := "[" + strings.Repeat(" ", pad) + strings.Repeat("1,", n) + "\"" + body + "\"," + strings.Repeat("1,", 60) + "1]"
					cp := (pad+k)%2 == 0
					pj, err := simdjson.Parse([]byte(text), nil, simdjson.WithCopyStrings(cp))
					got, ok := "", false
					if err == nil {
						func() {
							defer func() { recover() }()
							it := pj.Iter()
							it.AdvanceInto()
							it.AdvanceInto()
							for {
								t := it.AdvanceInto()
								if t == simdjson.TagString {
									if sb, e := it.StringBytes(); e == nil {
										got, ok = string(sb), true
									}
									return
								}
								if t == simdjson.TagEnd || t == simdjson.TagArrayEnd {
									return
								}
							}
						}()
					}
					rn.rep.Evaluations++
					if !ok || got != want {
						bad++
						cpS := "0"
						if cp {
							cpS = "1"
						}
						impl := "rejected or unreadable"
						if ok {
							impl = hx([]byte(got))
						}
						rn.disagree(disagreement{Kind: "spec", Ops: []string{"parse p 0 " + cpS + " " + hx([]byte(text)), "owalk p"}, At: 0, Impl: impl,
							Other: "the string " + hx([]byte(want)), Note: fmt.Sprintf("strings: escape %d bytes into a string that starts after %d numbers and %d blanks (index-buffer boundary)", k, n, pad)})
					}
				}
			}
		}
		rn.rep.Distribution["escape-at-index-buffer-boundary/exhaustive"]++
		rn.seen["escape-at-index-buffer-boundary/exhaustive"] = true
	}
	// boundaries of the UTF-8 length classes and of the surrogate range, both hex cases, in every run
	for _, cu := range []int{0, 1, 0x1f, 0x20, 0x22, 0x5c, 0x7e, 0x7f, 0x80, 0x81, 0xff, 0x100, 0x7fe, 0x7ff, 0x800, 0x801, 0xfff, 0x1000,
		0xd7fe, 0xd7ff, 0xe000, 0xe001, 0xfffd, 0xfffe, 0xffff} {
		for _, f := range []string{"\\u%04x", "\\u%04X"} {
			cr := r.fork()
			emit(cr, "ab"+fmt.Sprintf(f, cu)+"c", "ubound")
			emit(cr, fmt.Sprintf(f, cu), "ubound")
		}
	}
	for _, pr := range [][2]int{{0xd800, 0xdc00}, {0xd800, 0xdfff}, {0xdbff, 0xdc00}, {0xdbff, 0xdfff}, {0xd83d, 0xde00}} {
		cr := r.fork()
		emit(cr, fmt.Sprintf("\\u%04x\\u%04x", pr[0], pr[1]), "pairbound")
	}
	// every \u code unit (sampled in quick), both hex cases
	step := 37
	if thorough {
		step = 1
	}
	for cu := r.intn(step); cu < 0x10000; cu += step {
		cr := r.fork()
		f := "\\u%04x"
		if cr.chance(1, 2) {
			f = "\\u%04X"
		}
		if cu >= 0xD800 && cu < 0xDC00 {
			lo := 0xDC00 + cr.intn(0x400)
			emit(cr, fmt.Sprintf(f+f, cu, lo), "pair")
			continue
		}
		emit(cr, "ab"+fmt.Sprintf(f, cu)+"c", "u")
	}
	// surrogate pairs: rows and columns (quick), all (thorough = 1M pairs, 16 per document)
	nPairs := 6000
	if thorough {
		nPairs = 1 << 20
	}
	for k := 0; k < nPairs; k += 16 {
		cr := r.fork()
		var b strings.Builder
		for j := 0; j < 16; j++ {
			var hi, lo int
			if thorough {
				hi, lo = 0xD800+(k+j)>>10, 0xDC00+(k+j)&0x3ff
			} else if cr.chance(1, 2) {
				hi, lo = 0xD800+cr.intn(0x400), 0xDC00+(k+j)&0x3ff
			} else {
				hi, lo = 0xD800+(k+j)&0x3ff, 0xDC00+cr.intn(0x400)
			}
			fmt.Fprintf(&b, "\\u%04x\\u%04X", hi, lo)
		}
		emit(cr, b.String(), "pairs")
	}
	// every byte after a backslash, every byte in each hex digit position, every raw byte
	for c := 0; c < 256; c++ {
		cr := r.fork()
		emit(cr, "x\\"+string([]byte{byte(c)})+"y", "esc")
		for pos := 0; pos < 4; pos++ {
			h := []byte("0041")
			h[pos] = byte(c)
			emit(cr, "\\u"+string(h), "hexpos")
			h2 := []byte("dc00")
			h2[pos] = byte(c)
			emit(cr, "\\ud800\\u"+string(h2), "hexpos2")
		}
		emit(cr, "a"+string([]byte{byte(c)})+"b", "raw")
	}
	// lengths × offsets, and backslash runs straddling block boundaries
	nLen := 400
	if thorough {
		nLen = 6000
	}
	for k := 0; k < nLen; k++ {
		cr := r.fork()
		l := cr.intn(330)
		if cr.chance(1, 10) {
			l = cr.intn(4097)
		}
		var b strings.Builder
		for b.Len() < l {
			switch cr.intn(12) {
			case 0:
				b.WriteString(cr.pick(escapes))
			case 1:
				b.WriteString(cr.uEscape())
			case 2:
				b.WriteString("é")
			default:
				b.WriteByte(byte('a' + cr.intn(26)))
			}
		}
		emit(cr, b.String(), "len")
		run := 1 + cr.intn(9)
		emit(cr, strings.Repeat("a", 50+cr.intn(20))+strings.Repeat("\\", run)+"\"z", "bsrun")
		emit(cr, strings.Repeat("a", 50+cr.intn(20))+strings.Repeat("\\", run)+"n", "bsrun2")
	}
	rn.rep.Rule = "\\u code units (all in thorough, every 37th in quick), surrogate pairs (all 2^20 in thorough), every byte after a backslash and in every hex-digit position, every raw byte, lengths 0-4096 at offsets 0-63, backslash runs 1-9 across block boundaries; as key, value and last string; copy and no-copy; oracle: Spec.stringBody; distinct = (generator, outcome, offset class)"
}

// C08: NDJSON line sequences
func suiteND(rn *runner, r *rng, tier string) {
	n := 2500
	if tier == "thorough" {
		n = 60000
	}
	// a ParsedJson kept by value from an earlier successful call of this suite, handed to later calls as the reuse
	// argument (it survives failed calls): what ParseND accepts and exposes must not depend on it
	var carry *simdjson.ParsedJson
	// only Parse hands the internal parser state back to the caller (ParseND's result has none), so the object comes
	// from a plain Parse
	if pj0, err := simdjson.Parse([]byte(`{"seed":[1,2,3]}`), nil); err == nil {
		h := *pj0
		carry = &h
	}
	// trailing blanks after the line on which stage 1 closes an index buffer: the whole 64-byte blocks that remain are
	// white space, the last structurals sit in the final partial block. Valid NDJSON for every count of short lines in
	// front (so that the 1408th index falls on a closing bracket for some of them) and every length of the blank run;
	// the oracle is the number of roots, known by construction
	{
		bad := 0
		kLo, kHi, bStep := 455, 480, 7
		if tier == "thorough" {
			kLo, kHi, bStep = 440, 500, 1
		}
		for k := kLo; k <= kHi && bad < 3; k++ {
			for bl := 50; bl <= 200 && bad < 3; bl += bStep {
				for _, blank := range []string{" ", "\t", "\r"} {
					for _, tail := range []string{"\n{}", "\n[1]\n{}", ""} {
						text := "{\"p\":1}\n" + strings.Repeat("{}\n", k) + "{}" + strings.Repeat(blank, bl) + tail
						want := k + 2 + strings.Count(tail, "\n")
						pj, err := simdjson.ParseND([]byte(text), nil)
						got := -1
						if err == nil {
							got = 0
							it := pj.Iter()
							for it.Advance() == simdjson.TypeRoot {
								got++
							}
						}
						rn.rep.Evaluations++
						if got != want {
							bad++
							impl := fmt.Sprintf("%d roots", got)
							if err != nil {
								impl = "rejected: " + err.Error()
							}
							rn.disagree(disagreement{Kind: "spec", Ops: []string{"parse p 1 1 " + hx([]byte(text)), "owalk p"}, At: 0, Impl: impl,
								Other: fmt.Sprintf("%d roots", want), Note: fmt.Sprintf("nd: %d short lines, then %d blanks (%q) before the end of the line", k+1, bl, blank)})
						}
					}
				}
			}
		}
		rn.rep.Distribution["trailing-blanks-at-buffer-boundary/sweep"]++
		rn.seen["trailing-blanks-at-buffer-boundary/sweep"] = true
	}
	// long lines: a line of every length class from 100 bytes to 300 KiB as the first, a middle or the last line among
	// short ones (valid: the number of roots is known by construction), and one document broken over two lines after
	// that many bytes (not NDJSON: must be rejected) — where the line feeds sit in the input must not matter
	{
		bad := 0
		lens := []int{100, 1000, 4090, 8100, 8192, 8300, 10000, 16500, 40000, 70000, 140000, 300000}
		if tier == "thorough" {
			for l := 7000; l <= 9400; l += 64 {
				lens = append(lens, l+r.intn(64))
			}
			for k := 0; k < 40; k++ {
				lens = append(lens, 100+r.intn(400000))
			}
		}
		for _, L := range lens {
			for shape := 0; shape < 4 && bad < 3; shape++ {
				cr := r.fork()
				var long string
				switch shape % 2 {
				case 0:
					long = "{\"pad\":\"" + strings.Repeat("x", L) + "\",\"n\":[1,2]}"
				default:
					long = "[" + strings.Repeat("1,", L/2) + "2]"
				}
				before, after := cr.intn(3), 1+cr.intn(3)
				if shape >= 2 {
					before = 0
				}
				text := strings.Repeat("{\"s\":1}\n", before) + long + strings.Repeat("\n[true]", after)
				want := before + 1 + after
				if cr.chance(1, 3) {
					text += "\n"
				}
				for variant := 0; variant < 2; variant++ {
					wantS := fmt.Sprintf("%d roots", want)
					if variant == 1 { // the long document is broken over two lines near its end
						cut := strings.LastIndex(text[:len(strings.Repeat("{\"s\":1}\n", before))+len(long)], ",")
						text = text[:cut+1] + "\n" + text[cut+1:]
						wantS = "rejected"
					}
					pj, err := simdjson.ParseND([]byte(text), nil)
					impl := "rejected"
					if err == nil {
						got := 0
						it := pj.Iter()
						for it.Advance() == simdjson.TypeRoot {
							got++
						}
						impl = fmt.Sprintf("%d roots", got)
					}
					rn.rep.Evaluations++
					if impl != wantS {
						bad++
						if err != nil {
							impl += ": " + err.Error()
						}
						rn.disagree(disagreement{Kind: "spec", Ops: []string{"parse p 1 1 " + hx([]byte(text)), "owalk p"}, At: 0, Impl: impl,
							Other: wantS, Note: fmt.Sprintf("nd: a line of about %d bytes after %d short lines and before %d (variant %d: 1 = broken over two lines)", L, before, after, variant)})
					}
				}
			}
		}
		rn.rep.Distribution["long-lines/sweep"]++
		rn.seen["long-lines/sweep"] = true
	}
	for i := 0; i < n; i++ {
		cr := r.fork()
		cfg := defaultCfg(cr)
		cfg.maxDepth = 1 + cr.intn(3)
		cfg.maxMembers = 4
		nl := 1 + cr.intn(8)
		if cr.chance(1, 20) {
			nl = 200 + cr.intn(1500) // root boundaries across index buffers
			cfg.maxDepth, cfg.maxMembers = 1, 2
		}
		text, lines := cr.ndjson(cfg, nl, cr.chance(1, 3))
		if cr.chance(1, 12) {
			// a run of blank lines (every LF is a structural): index buffers fill up with newline entries and the
			// message ends shortly after a buffer closes
			run := 1380 + cr.intn(330)
			sep := strings.Repeat("\n", run)
			if cr.chance(1, 2) {
				k := cr.intn(run)
				sep = sep[:k] + " " + sep[k:]
			}
			text = "[]" + sep + strings.TrimLeft(text, " \t\r\n")
			lines = append([]string{"[]"}, lines...)
			nl = len(lines) + run
		}
		tc := valueCase(cr, text, true, "nd")
		if nl > 50 {
			// keep replies small for long inputs: compare hashes and the oracle verdict only
			tc.ops = []string{tc.ops[0], "tapehash p", tc.ops[len(tc.ops)-1]}
		}
		if carry != nil && cr.chance(1, 2) {
			reuse := carry
			first := true
			rn.addWith(tc, func() {
				if first {
					nextParse.reuse = reuse
					first = false
				}
			})
		} else {
			rn.add(tc)
		}
		blank := 0
		for _, l := range lines {
			if strings.TrimSpace(l) == "" {
				blank++
			}
		}
		cls := fmt.Sprintf("lines=%d/blank=%d/%s/crlf=%v/final=%v", minInt(nl, 9), minInt(blank, 3), outcomeOf(tc.impl[0]), strings.Contains(text, "\r\n"), strings.HasSuffix(text, "\n"))
		rn.rep.Distribution[cls]++
		rn.seen[cls] = true
	}
	rn.rep.Rule = "sequences of valid, invalid, blank and white-space-only lines, LF/CRLF, with and without final newline, 1-1700 lines; ParseND against the per-line RFC oracle (Spec.ndText); distinct = (line count, blank lines, outcome, CRLF, final newline)"
}

// C12 (numeric clause): Int/Uint/Float and the bulk accessors against exact arithmetic
func suiteNumeric(rn *runner, r *rng, tier string) {
	n := 6000
	if tier == "thorough" {
		n = 300000
	}
	two63 := new(big.Float).SetMantExp(big.NewFloat(1), 63)
	two64 := new(big.Float).SetMantExp(big.NewFloat(1), 64)
	for i := 0; i < n; i++ {
		cr := r.fork()
		if cr.chance(1, 12) {
			// a float entry stored by SetFloat: any bit pattern, incl. NaN and the infinities (model vs implementation)
			bits := cr.u64()
			switch cr.intn(6) {
			case 0:
				bits = math.Float64bits(math.NaN())
			case 1:
				bits = math.Float64bits(math.Inf(1 - 2*cr.intn(2)))
			case 2:
				bits = 0x7ff0000000000001 + uint64(cr.intn(1000)) // signalling NaNs
			}
			tc := &testCase{note: "numeric-stored", ops: []string{"parse p 0 1 " + hx([]byte("[1.5]")), "iter i p", "advinto i", "advinto i", "advinto i",
				"setfloat i " + h64(bits), "int i", "uint i", "float i", "iter a0 p", "advinto a0", "advinto a0", "array a a0", "asint a", "asuint a", "asfloat a"}}
			rn.add(tc)
			cls := fmt.Sprintf("stored/int=%v/uint=%v", tc.impl[6] != "err", tc.impl[7] != "err")
			rn.rep.Distribution[cls]++
			rn.seen[cls] = true
			continue
		}
		lit := cr.number()
		if cr.chance(1, 3) { // floats around the integer boundaries
			base := []float64{9223372036854775807, 9223372036854775808, 18446744073709551615, 18446744073709551616, -9223372036854775808, 4503599627370496, 0.5, -0.5, 1e19, 1.5e19}[cr.intn(10)]
			bits := math.Float64bits(base) + uint64(cr.intn(5)) - 2
			lit = strconv.FormatFloat(math.Float64frombits(bits), 'f', 1, 64)
		}
		text := "[" + lit + "]"
		h := hx([]byte(text))
		tc := &testCase{note: "numeric", ops: []string{"parse p 0 1 " + h, "iter i p", "advinto i", "advinto i", "advinto i", "int i", "uint i", "float i", "floatflags i",
			"iter a0 p", "advinto a0", "advinto a0", "array a a0", "asint a", "asuint a", "asfloat a", "spec 0 " + h}}
		rn.add(tc)
		if !strings.HasPrefix(tc.impl[0], "ok") {
			continue
		}
		// exact expectations from the tape words
		kind, val := exposedNumber(tc.impl[8], tc.impl[5], tc.impl[6], lit)
		_ = kind
		if val != nil {
			// Int
			wantInt := "err"
			t := new(big.Float).Copy(val)
			ti, _ := t.Int(nil) // truncation toward zero
			if val.Cmp(two63) < 0 && val.Cmp(new(big.Float).Neg(two63)) >= 0 {
				wantInt = ti.String()
			}
			if tc.impl[5] != wantInt {
				rn.disagree(disagreement{Kind: "spec", Ops: tc.ops, At: 5, Impl: tc.impl[5], Other: wantInt, Note: "Int() of " + lit})
			}
			wantUint := "err"
			if val.Cmp(two64) < 0 && val.Sign() >= 0 {
				wantUint = ti.String()
			}
			if val.Sign() < 0 && ti.Sign() == 0 {
				wantUint = "err-or-0"
			}
			if tc.impl[6] != wantUint && !(wantUint == "err-or-0" && (tc.impl[6] == "err" || tc.impl[6] == "0")) {
				rn.disagree(disagreement{Kind: "spec", Ops: tc.ops, At: 6, Impl: tc.impl[6], Other: wantUint, Note: "Uint() of " + lit})
			}
			// Float(): the float64 nearest to the exact value (ties to even); for integer entries the exact value is the literal
			if kind == "int" || kind == "uint" {
				f, _ := val.Float64()
				wf := h64(math.Float64bits(f))
				if tc.impl[7] != wf {
					rn.disagree(disagreement{Kind: "spec", Ops: tc.ops, At: 7, Impl: tc.impl[7], Other: wf, Note: "Float() of " + lit})
				}
				if !strings.HasPrefix(tc.impl[8], wf) {
					rn.disagree(disagreement{Kind: "spec", Ops: tc.ops, At: 8, Impl: tc.impl[8], Other: wf + " <flags>", Note: "FloatFlags() of " + lit})
				}
				if tc.impl[15] != "ok "+wf {
					rn.disagree(disagreement{Kind: "spec", Ops: tc.ops, At: 15, Impl: tc.impl[15], Other: "ok " + wf, Note: "AsFloat of " + lit})
				}
			}
			// bulk accessors agree with the per-element ones
			wi := "err"
			if wantInt != "err" {
				v, _ := strconv.ParseInt(wantInt, 10, 64)
				wi = "ok " + h64(uint64(v))
			}
			if tc.impl[13] != wi {
				rn.disagree(disagreement{Kind: "spec", Ops: tc.ops, At: 13, Impl: tc.impl[13], Other: wi, Note: "AsInteger of " + lit})
			}
			wu := "err"
			if wantUint != "err" && wantUint != "err-or-0" {
				v, _ := strconv.ParseUint(wantUint, 10, 64)
				wu = "ok " + h64(v)
			}
			if tc.impl[14] != wu && wantUint != "err-or-0" {
				rn.disagree(disagreement{Kind: "spec", Ops: tc.ops, At: 14, Impl: tc.impl[14], Other: wu, Note: "AsUint64 of " + lit})
			}
		}
		cls := fmt.Sprintf("%s/int=%v/uint=%v", kind, tc.impl[5] != "err", tc.impl[6] != "err")
		rn.rep.Distribution[cls]++
		rn.seen[cls] = true
	}
	rn.rep.Rule = "number literals incl. floats within 2 ulp of 2^63, 2^64, -2^63, 2^52, ±0.5; Int/Uint/Float/FloatFlags and AsInteger/AsUint64/AsFloat against exact big-number truncation and range tests; distinct = (exposed type, int ok, uint ok)"
}

// exposedNumber reconstructs the exact value the tape holds from FloatFlags()/Int()/Uint() replies.
func exposedNumber(ff, in, ui, lit string) (string, *big.Float) {
	// FloatFlags gives the float64 view; for ints it is lossy, so prefer the literal when it is an integer literal in range
	if !strings.ContainsAny(lit, ".eE") {
		z, ok := new(big.Int).SetString(lit, 10)
		if ok {
			if z.IsInt64() {
				return "int", new(big.Float).SetPrec(200).SetInt(z)
			}
			if z.IsUint64() {
				return "uint", new(big.Float).SetPrec(200).SetInt(z)
			}
		}
	}
	parts := strings.Fields(ff)
	if len(parts) < 1 || len(parts[0]) != 16 {
		return "?", nil
	}
	bits, err := strconv.ParseUint(parts[0], 16, 64)
	if err != nil {
		return "?", nil
	}
	f := math.Float64frombits(bits)
	if math.IsNaN(f) || math.IsInf(f, 0) {
		return "float", nil
	}
	return "float", new(big.Float).SetPrec(1200).SetFloat64(f)
}

// C18: float formatting against encoding/json
func suiteFloat(rn *runner, r *rng, tier string) {
	n := 20000
	if tier == "thorough" {
		n = 1500000
	}
	gen := func(cr *rng, i int) (uint64, string) {
		switch cr.intn(8) {
		case 0:
			return cr.u64(), "random"
		case 1: // every binade
			e := uint64(i % 2047)
			return e<<52 | []uint64{0, 0xfffffffffffff, cr.u64() & 0xfffffffffffff}[cr.intn(3)], "binade"
		case 2: // powers of ten and neighbours
			p := i%632 - 323
			f, _ := strconv.ParseFloat("1e"+strconv.Itoa(p), 64)
			return math.Float64bits(f) + uint64(cr.intn(3)) - 1, "pow10"
		case 3: // integers scaled by powers of ten
			f := float64(cr.u64()>>uint(1+cr.intn(62))) * math.Pow(10, float64(cr.intn(60)-30))
			return math.Float64bits(f), "intpow"
		case 4: // subnormals by leading bit
			return uint64(1)<<uint(cr.intn(52)) | (cr.u64() & (uint64(1)<<uint(cr.intn(52)) - 1)), "subnormal"
		case 5: // format switches
			base := []float64{1e-6, 1e21, 1e-7, 1e20, 9.999999e-7, 1e22}[cr.intn(6)]
			return math.Float64bits(base) + uint64(cr.intn(7)) - 3, "switch"
		case 6:
			return []uint64{0, 1 << 63, 1, 0x7fefffffffffffff, 0x0010000000000000, 0x000fffffffffffff, 0x3ff0000000000000}[cr.intn(7)], "special"
		default:
			return math.Float64bits(float64(int64(cr.u64()>>uint(cr.intn(64)))) / float64(int64(1)<<uint(cr.intn(20)))), "fraction"
		}
	}
	for i := 0; i < n; i++ {
		cr := r.fork()
		bits, kind := gen(cr, i)
		if cr.chance(1, 2) {
			bits |= 1 << 63
		}
		f := math.Float64frombits(bits)
		tc := &testCase{note: kind, ops: []string{"appendfloat " + h64(bits)}}
		if !math.IsNaN(f) && !math.IsInf(f, 0) {
			want, err := json.Marshal(f)
			if err == nil {
				tc.expect = map[int]string{0: hx(want)}
			}
			if f == 0 && bits>>63 == 1 {
				tc.expect = map[int]string{0: hx([]byte("-0"))}
			}
		} else {
			tc.expect = map[int]string{0: "err"}
		}
		rn.add(tc)
		// shortest round trip, checked independently of encoding/json
		if o := tc.impl[0]; o != "err" && o != "panic" {
			txt := string(unhx(o))
			back, err := strconv.ParseFloat(txt, 64)
			if err != nil || math.Float64bits(back) != bits {
				rn.disagree(disagreement{Kind: "spec", Ops: tc.ops, At: 0, Impl: txt, Other: "<parses back to the identical float64>", Note: kind})
			}
			cls := fmt.Sprintf("%s/exp=%v/len=%d", kind, strings.Contains(txt, "e"), minInt(len(txt)/4, 6))
			rn.rep.Distribution[cls]++
			rn.seen[cls] = true
		}
	}
	rn.rep.Rule = "bit patterns: uniform random, every binade (min/max/random mantissa), powers of ten 1e-323..1e308 with neighbours, integers times powers of ten, subnormals by leading bit, the 1e-6/1e21 switches ±3 ulp, specials; appendFloat against the Lean model (exact shortest-digits contract), encoding/json byte for byte, and strconv round trip; distinct = (generator, exponent form, length class)"
}
