package main

import (
	"bufio"
	"bytes"
	"fmt"
	"os"
	"os/exec"
	"path/filepath"
	"strings"
)

// the compiled Lean model that belongs to this copy of the machinery: <root>/bin/sjh → <root>/lean/.lake/build/bin/sjdriver
// (a snapshot or an isolated copy of /verif must not talk to the driver of another copy, which may be rebuilt meanwhile)
var driverPath = func() string {
	if p := os.Getenv("SJDRIVER"); p != "" {
		return p
	}
	if self, err := os.Executable(); err == nil {
		p := filepath.Join(filepath.Dir(filepath.Dir(self)), "lean", ".lake", "build", "bin", "sjdriver")
		if _, err := os.Stat(p); err == nil {
			return p
		}
	}
	return "/verif/lean/.lake/build/bin/sjdriver"
}()

// runDriver pipes all lines to the compiled Lean model and returns one reply per line.
func runDriver(lines []string) ([]string, error) {
	cmd := exec.Command(driverPath)
	var in bytes.Buffer
	for _, l := range lines {
		in.WriteString(l)
		in.WriteByte('\n')
	}
	cmd.Stdin = &in
	var out bytes.Buffer
	cmd.Stdout = &out
	cmd.Stderr = os.Stderr
	if err := cmd.Run(); err != nil {
		// still try to use what was produced
		res := splitLines(out.String())
		return res, fmt.Errorf("driver: %v (produced %d of %d replies)", err, len(res), len(lines))
	}
	res := splitLines(out.String())
	if len(res) != len(lines) {
		return res, fmt.Errorf("driver produced %d replies for %d requests", len(res), len(lines))
	}
	return res, nil
}

func splitLines(s string) []string {
	var out []string
	sc := bufio.NewScanner(strings.NewReader(s))
	sc.Buffer(make([]byte, 1<<20), 1<<30)
	for sc.Scan() {
		out = append(out, sc.Text())
	}
	return out
}
