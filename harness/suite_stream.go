package main

import (
	"errors"
	"fmt"
	"io"
	"strings"
	"time"

	simdjson "github.com/minio/simdjson-go"
)

func init() {
	suites["stream"] = suiteStream
}

// scriptReader returns the stream in the given fragment sizes and then an error (io.EOF or injected).
type scriptReader struct {
	data  []byte
	sizes []int
	k     int
	errAt int // byte offset at which readErr is returned instead of more data (-1: never)
	rerr  error
	errWithData bool // the Read that reaches errAt returns its bytes TOGETHER with the error (io.Reader allows n > 0, err != nil)
	pos   int
	delay time.Duration
	log   []int // sizes of the results actually returned
}

var errInjected = errors.New("injected reader failure")

func (s *scriptReader) Read(p []byte) (int, error) {
	if s.errAt >= 0 && s.pos >= s.errAt {
		return 0, s.rerr
	}
	if s.pos >= len(s.data) {
		return 0, io.EOF
	}
	n := len(p)
	if s.k < len(s.sizes) {
		if s.sizes[s.k] < n {
			n = s.sizes[s.k]
		}
		s.k++
	}
	if n > len(s.data)-s.pos {
		n = len(s.data) - s.pos
	}
	if s.errAt >= 0 && s.pos+n > s.errAt {
		n = s.errAt - s.pos
	}
	if n == 0 {
		n = 1
		if s.pos+n > len(s.data) {
			return 0, io.EOF
		}
	}
	copy(p, s.data[s.pos:s.pos+n])
	s.pos += n
	if s.errWithData && s.errAt >= 0 && s.pos >= s.errAt {
		s.log = append(s.log, n)
		return n, s.rerr
	}
	s.log = append(s.log, n)
	if s.delay > 0 {
		time.Sleep(s.delay)
	}
	return n, nil
}

// C09: ParseNDStream under arbitrary fragmentation, reuse and reader failure
func suiteStream(rn *runner, r *rng, tier string) {
	n := 400
	if tier == "thorough" {
		n = 8000
	}
	// streams beyond the 10 MiB chunk buffer: a line longer than the buffer in short reads; several chunks held to the end
	bigStreamCase(rn, r.fork(), "longline", 1, 0, 4096, "stream")
	bigStreamCase(rn, r.fork(), "longline", 1, 0, 509, "stream")
	bigStreamCase(rn, r.fork(), "holdall", 4, 2, 0, "stream")
	if tier == "thorough" {
		for k := 0; k < 6; k++ {
			bigStreamCase(rn, r.fork(), "longline", 1, 0, []int{7, 64, 1000, 4095, 65536, 1 << 20}[k], "stream")
			bigStreamCase(rn, r.fork(), "holdall", 3+k, 1+k%4, []int{0, 1 << 20, 3 << 20}[k%3], "stream")
		}
	}
	for i := 0; i < n; i++ {
		cr := r.fork()
		cfg := defaultCfg(cr)
		cfg.maxDepth, cfg.maxMembers = 1+cr.intn(3), 4
		nl := 1 + cr.intn(30)
		if cr.chance(1, 30) {
			nl = 3000 + cr.intn(3000)
		}
		text, lines := cr.ndjson(cfg, nl, false)
		huge := i == 0 || (tier == "thorough" && i%400 == 0)
		if huge {
			// more than the 10 MiB read buffer, lines of about 4 KiB, delivered in one or a few huge reads: the chunk
			// boundary falls inside a line whose tail is much longer than the 1 KiB head room of the pooled buffer
			var hb strings.Builder
			lines = lines[:0]
			for k := 0; hb.Len() < 11<<20; k++ {
				l := fmt.Sprintf("{\"id\":%d,\"pad\":\"%s\"}", k, strings.Repeat("x", 3000+cr.intn(2000)))
				lines = append(lines, l)
				hb.WriteString(l)
				hb.WriteByte('\n')
			}
			text = hb.String()
		}
		// expected documents: each non-blank line parsed alone
		var want []string
		okLines := true
		for _, l := range lines {
			if strings.TrimSpace(l) == "" {
				continue
			}
			pj, err := simdjson.Parse([]byte(l), nil)
			if err != nil {
				okLines = false
				break
			}
			s, _ := owalk(pj)
			want = append(want, strings.TrimSuffix(strings.TrimPrefix(s, "["), "]"))
		}
		if !okLines {
			continue
		}
		// fragmentation
		var sizes []int
		mode := cr.intn(6)
		if huge {
			mode = 5
		}
		for tot := 0; tot < len(text)+10; {
			var k int
			switch mode {
			case 0:
				k = 1
			case 1:
				k = 1 + cr.intn(3)
			case 2:
				k = 1 + cr.intn(200)
			case 3: // line aligned
				j := strings.IndexByte(text[minInt(tot, len(text)):], '\n')
				if j < 0 {
					k = len(text) - tot + 1
				} else {
					k = j + 1
				}
			case 4: // line straddling
				j := strings.IndexByte(text[minInt(tot, len(text)):], '\n')
				if j < 1 {
					k = 1 + cr.intn(5)
				} else {
					k = j + 1 + cr.intn(3)
				}
			default:
				k = 1 << 30
			}
			if k <= 0 {
				k = 1
			}
			sizes = append(sizes, k)
			tot += k
		}
		errAt := -1
		if cr.chance(1, 4) && !huge {
			errAt = cr.intn(len(text) + 1)
		}
		useReuse := cr.chance(1, 2)
		rd := &scriptReader{data: []byte(text), sizes: sizes, errAt: errAt, rerr: errInjected}
		if errAt > 0 && cr.chance(1, 2) {
			rd.errWithData = true
		}
		if cr.chance(1, 10) {
			rd.delay = time.Duration(cr.intn(200)) * time.Microsecond
		}
		res := make(chan simdjson.Stream, 4)
		var reuse chan *simdjson.ParsedJson
		if useReuse {
			reuse = make(chan *simdjson.ParsedJson, 8)
		}
		// the chunks cut from the reader, as seen at the hook
		var chunkLens []int
		var chunkCat []byte
		simdjson.VerifChunkHook = func(b []byte) {
			if len(b) == 0 {
				return // nothing was read before the end: no chunk (it would be dropped as blank anyway)
			}
			chunkLens = append(chunkLens, len(b))
			if !huge {
				chunkCat = append(chunkCat, b...)
			}
		}
		simdjson.ParseNDStream(rd, res, reuse)
		var got []string
		var finalErr error
		afterErr := 0
		closed := false
		timeout := time.After(60 * time.Second)
	loop:
		for {
			select {
			case s, ok := <-res:
				if !ok {
					closed = true
					break loop
				}
				if finalErr != nil {
					afterErr++
				}
				if s.Error != nil {
					if finalErr == nil {
						finalErr = s.Error
					}
					continue
				}
				// overwrite nothing here; read the value, then recycle it
				ow, err := owalk(s.Value)
				if err != nil {
					got = append(got, "walk-error")
				} else if inner := strings.TrimSuffix(strings.TrimPrefix(ow, "["), "]"); inner != "" {
					got = append(got, splitTop(inner)...)
				}
				if useReuse {
					select {
					case reuse <- s.Value:
					default:
					}
				}
			case <-timeout:
				break loop
			}
		}
		simdjson.VerifChunkHook = nil
		if closed && !huge && !rd.errWithData {
			// (a Read that returns bytes together with its error: whether bufio hands those bytes on depends on its buffer
			// state; the chunker model has the error arrive with no bytes, so only the oracles below apply)
			// chunker model (Lean: Stream.run, for which the partition theorem is proved) on the reads that happened
			fin := "eof"
			if errAt >= 0 {
				fin = "fail"
			}
			if !strings.HasPrefix(text, string(chunkCat)) {
				rn.disagree(disagreement{Kind: "spec", Ops: []string{"stream-chunks " + hx([]byte(text))}, At: 0, Impl: "chunks do not concatenate to a prefix of the stream", Other: "<prefix>", Note: "stream"})
			}
			tc := &testCase{note: "chunks"}
			tc.ops = []string{fmt.Sprintf("chunks %s %s %s", fin, joinInts(rd.log), hx([]byte(text)))}
			tc.impl = []string{fmt.Sprintf("chunks %s %s", fin, joinInts(chunkLens))}
			rn.addPrepared(tc)
		}
		rn.rep.Evaluations++
		op := fmt.Sprintf("stream frag=%d err@=%d data+err=%v reuse=%v %s", mode, errAt, rd.errWithData, useReuse, hx([]byte(text)))
		fail := func(impl, other string) {
			rn.disagree(disagreement{Kind: "spec", Ops: []string{op}, At: 0, Impl: impl, Other: other, Note: "stream"})
		}
		switch {
		case !closed:
			fail("result channel not closed within 60 s", "<closed after the final error>")
		case afterErr > 0:
			fail(fmt.Sprintf("%d values delivered after the error", afterErr), "<error is the last delivery>")
		case errAt < 0:
			if !errors.Is(finalErr, io.EOF) {
				fail(fmt.Sprint("final error: ", finalErr), "io.EOF")
			} else if strings.Join(got, "|") != strings.Join(want, "|") {
				fail(clip([]string{strings.Join(got, "|")}, 1)[0], clip([]string{strings.Join(want, "|")}, 1)[0])
			}
		default:
			if !errors.Is(finalErr, errInjected) {
				fail(fmt.Sprint("final error: ", finalErr), "the reader's error")
			} else if len(got) > len(want) || strings.Join(got, "|") != strings.Join(want[:len(got)], "|") {
				fail(clip([]string{strings.Join(got, "|")}, 1)[0], "<a prefix of> "+clip([]string{strings.Join(want, "|")}, 1)[0])
			}
		}
		blank := 0
		for _, l := range lines {
			if strings.TrimSpace(l) == "" {
				blank++
			}
		}
		cls := fmt.Sprintf("frag=%d/err=%v/reuse=%v/lines=%d/blank=%d", mode, errAt >= 0, useReuse, minInt(nl/4, 8), minInt(blank, 3))
		rn.rep.Distribution[cls]++
		rn.seen[cls] = true
		if len(rn.rep.Samples) < 3 {
			rn.rep.Samples = append(rn.rep.Samples, map[string]interface{}{"op": clip([]string{op}, 1)[0], "delivered_docs": len(got), "final_error": fmt.Sprint(finalErr)})
		}
	}
	rn.rep.Rule = "well-formed NDJSON streams (1-6000 lines, blank lines anywhere, LF/CRLF) through scripted readers: 1-byte, tiny, random, line-aligned, line-straddling and single-read fragmentations; optional injected reader error at a random offset; with and without reuse channel; deliveries compared with per-line Parse; the chunks cut from the reader (hook) compared with the Lean chunker model run on the reads that actually happened; distinct = (fragmentation, error, reuse, line count, blank lines)"
}

func joinInts(v []int) string {
	if len(v) == 0 {
		return "-"
	}
	var b strings.Builder
	for i, x := range v {
		if i > 0 {
			b.WriteByte(',')
		}
		fmt.Fprint(&b, x)
	}
	return b.String()
}

// splitTop splits "a,b,c" at top-level commas of an ordered rendering.
func splitTop(s string) []string {
	var out []string
	depth, start := 0, 0
	for i := 0; i < len(s); i++ {
		switch s[i] {
		case '[', '{':
			depth++
		case ']', '}':
			depth--
		case ',':
			if depth == 0 {
				out = append(out, s[start:i])
				start = i + 1
			}
		}
	}
	return append(out, s[start:])
}
