package main

import (
	"bytes"
	"encoding/json"
	"fmt"
	"math"
	"math/big"
	"sort"
	"strconv"
	"strings"
	"time"

	simdjson "github.com/minio/simdjson-go"
)

func init() {
	suites["ops"] = suiteOps
}

// navOps emits the ops that position iterator `name` on the tape entry at offset target
// (AdvanceInto steps counted on the real implementation).
func navOps(pj *simdjson.ParsedJson, name, pjName string, target int) ([]string, bool) {
	it := pj.Iter()
	ops := []string{"iter " + name + " " + pjName}
	for k := 0; k < len(pj.Tape)+2; k++ {
		tag := it.AdvanceInto()
		ops = append(ops, "advinto "+name)
		off, _, _, _, _ := simdjson.VerifIterState(&it)
		if tag == simdjson.TagEnd {
			return nil, false
		}
		if off == target+1 {
			return ops, true
		}
		if off > target+1 {
			return nil, false
		}
	}
	return nil, false
}

func typeOfKind(k byte) int {
	switch k {
	case 'n':
		return int(simdjson.TypeNull)
	case 't', 'f':
		return int(simdjson.TypeBool)
	case 'l':
		return int(simdjson.TypeInt)
	case 'u':
		return int(simdjson.TypeUint)
	case 'd':
		return int(simdjson.TypeFloat)
	case '"':
		return int(simdjson.TypeString)
	case '{':
		return int(simdjson.TypeObject)
	case '[':
		return int(simdjson.TypeArray)
	}
	return 0
}

// ifaceStr renders a reference node the way Interface() would be rendered by ivalStr.
func (n *node) ifaceStr() string {
	switch n.kind {
	case '{':
		m := map[string]string{}
		for i, c := range n.children {
			m[hx(n.keys[i])] = c.ifaceStr()
		}
		keys := make([]string, 0, len(m))
		for k := range m {
			keys = append(keys, k)
		}
		sort.Strings(keys)
		parts := make([]string, len(keys))
		for i, k := range keys {
			parts[i] = k + ":" + m[k]
		}
		return "{" + strings.Join(parts, ",") + "}"
	case '[':
		parts := make([]string, len(n.children))
		for i, c := range n.children {
			parts[i] = c.ifaceStr()
		}
		return "[" + strings.Join(parts, ",") + "]"
	case 'd':
		if i := strings.IndexByte(n.render, '!'); i >= 0 {
			return n.render[:i]
		}
	}
	return n.render
}

type opsCase struct {
	r  *rng
	tc *testCase
	st *store // private store used to learn impl state while generating
	pj *simdjson.ParsedJson
	nd bool

	pjName string
}

func (c *opsCase) name() string {
	if c.pjName == "" {
		return "p"
	}
	return c.pjName
}

func (c *opsCase) emit(op string) string {
	out := c.st.execTimed(op, 30*time.Second)
	c.tc.ops = append(c.tc.ops, op)
	c.tc.impl = append(c.tc.impl, out)
	return out
}

func (c *opsCase) expectLast(want string) {
	if c.tc.expect == nil {
		c.tc.expect = map[int]string{}
	}
	c.tc.expect[len(c.tc.ops)-1] = want
}

var setStrPool = []string{"", "x", "hello", "\"quoted\"\n", "é中", "\x00\x1f", strings.Repeat("long", 40),
	// replacements that make the string buffer grow past 1 KiB, 2 KiB, 8 KiB (append reallocates; every holder of the
	// ParsedJson must see the new buffer)
	strings.Repeat("A", 1500), strings.Repeat("B", 3100), strings.Repeat("C", 9000)}

// oneEdit applies one random in-place edit on document "p".
func (c *opsCase) oneEdit(roots []*node) { c.oneEditOn(roots, "p") }

// setStrOn replaces one two-entry scalar of the named document by the string val (SetString appends to the string
// buffer); reports whether there was such a value.
func (c *opsCase) setStrOn(roots []*node, pjName string, val string) bool {
	c.pjName = pjName
	defer func() { c.pjName = "" }()
	var all, cand []*node
	for _, rt := range roots {
		if rt != nil {
			all = rt.all(all)
		}
	}
	for _, n := range all {
		if n.kind == 'l' || n.kind == 'u' || n.kind == 'd' || n.kind == '"' {
			cand = append(cand, n)
		}
	}
	if len(cand) == 0 {
		return false
	}
	n := cand[c.r.intn(len(cand))]
	nav, ok := navOps(c.pj, "t", c.name(), n.off)
	if !ok {
		return false
	}
	for _, op := range nav {
		c.emit(op)
	}
	c.emit("setstr t " + hx([]byte(val)))
	c.expectLast("ok")
	n.kind, n.render, n.children, n.keys = '"', "s"+hx([]byte(val)), nil, nil
	c.emit("str t")
	return true
}

// oneEditOn applies one random in-place edit on the named document (c.pj must be that document).
func (c *opsCase) oneEditOn(roots []*node, pjName string) {
	c.pjName = pjName
	defer func() { c.pjName = "" }()
	r := c.r
	var all []*node
	for _, rt := range roots {
		if rt != nil {
			all = rt.all(all)
		}
	}
	if len(all) == 0 {
		return
	}
	if r.chance(1, 12) {
		c.gateEdit()
		return
	}
	n := all[r.intn(len(all))]
	nav, ok := navOps(c.pj, "t", c.name(), n.off)
	if !ok {
		return
	}
	for _, op := range nav {
		c.emit(op)
	}
	if r.chance(1, 3) {
		// address the same value through an iterator restricted to it (as FindKey, NextElement, AdvanceIter and
		// Elements hand out): replay the walk up to the entry before it, then AdvanceIter
		if c.restrictedNav(n.off) {
			c.emit("copyiter t tr")
		}
	}
	scalarNum := n.kind == 'l' || n.kind == 'u' || n.kind == 'd' || n.kind == '"'
	switch k := r.intn(10); {
	case k == 0:
		v := int64(r.u64())
		if r.chance(1, 2) {
			v = int64(r.intn(2000) - 1000)
		}
		out := c.emit(fmt.Sprintf("setint t %d", v))
		want := "err"
		if scalarNum {
			want = "ok"
			n.kind, n.render, n.children, n.keys = 'l', "i"+strconv.FormatInt(v, 10), nil, nil
		}
		c.expectLast(want)
		_ = out
		c.emit("int t")
	case k == 1:
		v := r.u64()
		c.emit(fmt.Sprintf("setuint t %d", v))
		want := "err"
		if scalarNum {
			want = "ok"
			n.kind, n.render, n.children, n.keys = 'u', "u"+strconv.FormatUint(v, 10), nil, nil
		}
		c.expectLast(want)
		c.emit("uint t")
	case k == 2:
		bits := r.u64()
		if r.chance(1, 2) {
			bits = math.Float64bits(float64(r.intn(1000)) / 8)
		}
		if f := math.Float64frombits(bits); math.IsNaN(f) || math.IsInf(f, 0) {
			bits = 0x3ff0000000000000
		}
		c.emit("setfloat t " + h64(bits))
		want := "err"
		if scalarNum {
			want = "ok"
			n.kind, n.render, n.children, n.keys = 'd', "f"+h64(bits), nil, nil
		}
		c.expectLast(want)
		c.emit("float t")
	case k == 3:
		s := r.pick(setStrPool)
		c.emit("setstr t " + hx([]byte(s)))
		want := "err"
		if scalarNum {
			want = "ok"
			n.kind, n.render, n.children, n.keys = '"', "s"+hx([]byte(s)), nil, nil
		}
		c.expectLast(want)
		c.emit("str t")
	case k == 4:
		v := r.chance(1, 2)
		vs := "0"
		if v {
			vs = "1"
		}
		c.emit("setbool t " + vs)
		want := "err"
		if n.kind == 't' || n.kind == 'f' || n.kind == 'n' {
			want = "ok"
			if v {
				n.kind, n.render = 't', "true"
			} else {
				n.kind, n.render = 'f', "false"
			}
		}
		c.expectLast(want)
		c.emit("bool t")
	case k == 5:
		c.emit("setnull t")
		c.expectLast("ok") // every value kind is allowed
		n.kind, n.render, n.children, n.keys = 'n', "null", nil, nil
	case k <= 7 && n.kind == '{':
		c.emit("object o t")
		mask := r.u64() & (1<<62 - 1)
		switch r.intn(4) {
		case 0:
			mask = 0
		case 1:
			mask = 1<<62 - 1
		}
		keys := "."
		var filter map[string]bool
		if r.chance(1, 3) && len(n.keys) > 0 {
			filter = map[string]bool{}
			var ks []string
			for i := 0; i < 1+r.intn(3); i++ {
				k := n.keys[r.intn(len(n.keys))]
				if r.chance(1, 5) {
					k = []byte("absent")
				}
				if !filter[string(k)] {
					filter[string(k)] = true
					ks = append(ks, hx(k))
				}
			}
			keys = strings.Join(ks, ",")
		}
		c.emit(fmt.Sprintf("delete o %d %s", mask, keys))
		// expected effect on the abstract document
		var nk [][]byte
		var nc []*node
		visited := 0
		var cbs []string
		for i, ch := range n.children {
			// every member whose key is in the filter is selected, duplicates of a key included
			sel := filter == nil || filter[string(n.keys[i])]
			del := false
			if sel {
				cbs = append(cbs, fmt.Sprintf("%s:%d:%d", hx(n.keys[i]), cbTag(ch), ch.off+1))
				del = maskPred(mask, visited)
				visited++
			}
			if !del {
				nk = append(nk, n.keys[i])
				nc = append(nc, ch)
			}
		}
		c.expectLast("ok " + strings.Join(cbs, ","))
		n.keys, n.children = nk, nc
	case k <= 7 && n.kind == '[':
		c.emit("array a t")
		mask := r.u64() & (1<<62 - 1)
		switch r.intn(4) {
		case 0:
			mask = 0
		case 1:
			mask = 1<<62 - 1
		}
		c.emit(fmt.Sprintf("adelete a %d", mask))
		var nc []*node
		var cbs []string
		for i, ch := range n.children {
			cbs = append(cbs, fmt.Sprintf("%d:%d", cbTag(ch), ch.off+1))
			if !maskPred(mask, i) {
				nc = append(nc, ch)
			}
		}
		c.expectLast("ok " + strings.Join(cbs, ","))
		n.children = nc
	default:
		// type query only
		c.emit("type t")
		c.expectLast(strconv.Itoa(typeOfKind(n.kind)))
	}
}

// restrictedNav leaves in "tr" an iterator restricted to the value at tape offset target (via AdvanceIter
// from an iterator positioned just before it). Only possible when the previous AdvanceInto step ends exactly
// at target; reports whether it did.
func (c *opsCase) restrictedNav(target int) bool {
	it := c.pj.Iter()
	c.emit("iter tq " + c.name())
	for k := 0; k < len(c.pj.Tape)+2; k++ {
		off, add, _, _, _ := simdjson.VerifIterState(&it)
		if off+add == target {
			out := c.emit("adviter tq tr")
			return out != "err" && out != "0" && out != "panic"
		}
		if off+add > target {
			return false
		}
		if it.AdvanceInto() == simdjson.TagEnd {
			return false
		}
		c.emit("advinto tq")
	}
	return false
}

// gateEdit addresses a tape entry that is not a value (a root or an end tag) with a random Set* call:
// the documentation promises an error and no change.
func (c *opsCase) gateEdit() {
	r := c.r
	var offs []int
	for i, w := range c.pj.Tape {
		switch byte(w >> 56) {
		case 'r', '}', ']':
			offs = append(offs, i)
		}
	}
	if len(offs) == 0 {
		return
	}
	target := offs[r.intn(len(offs))]
	nav, ok := navOps(c.pj, "t", c.name(), target)
	if !ok {
		return
	}
	op := r.pick([]string{"setnull t", "setint t 5", "setuint t 5", "setfloat t 3ff0000000000000", "setstr t 78", "setbool t 1"})
	if op == "setnull t" && byte(c.pj.Tape[target]>>56) == 'r' {
		// known finding D10: SetNull accepts root entries. Exercised by the corpus case only, because it
		// destroys the root structure and everything read afterwards.
		return
	}
	for _, op := range nav {
		c.emit(op)
	}
	before := c.st.exec("tape " + c.name())
	c.emit(op)
	c.expectLast("err")
	c.emit("tape " + c.name())
	c.expectLast(before)
}

func cbTag(n *node) int { return int(n.kind) }

// readBattery reads the document back through every API family, with expectations from the tree.
func (c *opsCase) readBattery(roots []*node) {
	r := c.r
	c.emit("tape p")
	c.emit("owalk p")
	c.expectLast(ordRoots(roots))
	// the edited tape still obeys the documented format (dense check: a gap contains nothing but NOP entries) …
	c.emit("wf p")
	c.expectLast("wf " + ordRoots(roots))
	// … and the serializer, which walks the tape linearly, reflects the same document
	if r.chance(1, 2) {
		if out := c.emit("serde sd p"); strings.HasPrefix(out, "ok") {
			c.emit("owalk sd")
			c.expectLast(ordRoots(roots))
			c.emit("nopsexact sd")
			c.expectLast("exact")
		} else {
			c.expectLast("<Serialize/Deserialize of the edited tape succeeds>")
		}
	}
	c.emit("iter i0 p")
	c.emit("interface i0")
	{
		parts := make([]string, 0, len(roots))
		for _, rt := range roots {
			if rt != nil {
				parts = append(parts, rt.ifaceStr())
			}
		}
		c.expectLast("[" + strings.Join(parts, ",") + "]")
	}
	if out := c.emit("pjforeach p"); strings.HasPrefix(out, "ok") {
		for k, rt := range roots {
			if k >= 2 || rt == nil {
				break
			}
			c.emit(fmt.Sprintf("copyiter cbm cb%d", k))
			c.checkValueText(c.emit("marshal cbm"), rt)
		}
	}
	c.emit("iter i1 p")
	ms := c.emit("marshal i1")
	if ms != "err" && ms != "panic" && ms != "hang" {
		// valid JSON, same document, fixed point (checked through the implementation itself and the spec)
		text := unhx(ms)
		if !allContainers(roots) {
			// a root replaced by a scalar: the text is valid JSON but not something Parse accepts
			for _, line := range bytes.Split(text, []byte("\n")) {
				if !json.Valid(line) {
					c.expectLast("<valid JSON>")
				}
			}
			goto containers
		}
		c.emit("parse q 1 1 " + ms)
		ow := c.emit("owalk q")
		if !docNumEq(ordRoots(roots), ow) {
			c.expectLast("<document equal to " + ordRoots(roots) + ">")
		}
		c.emit("iter i2 q")
		c.emit("marshal i2")
		if !bytes.Contains(text, []byte("-0")) || !hasNegZeroFloat(roots) {
			c.expectLast(ms)
		}
		c.emit("spec 1 " + ms)
	} else {
		c.expectLast("<marshal succeeds>")
	}
containers:
	var all []*node
	for _, rt := range roots {
		if rt != nil {
			all = rt.all(all)
		}
	}
	var conts []*node
	for _, n := range all {
		if n.kind == '{' || n.kind == '[' {
			conts = append(conts, n)
		}
	}
	for k := 0; k < 3 && len(conts) > 0; k++ {
		n := conts[r.intn(len(conts))]
		nav, ok := navOps(c.pj, "t", "p", n.off)
		if !ok {
			continue
		}
		for _, op := range nav {
			c.emit(op)
		}
		c.emit("copyiter m t")
		c.emit("marshal m")
		c.emit("copyiter m2 t")
		c.emit("interface m2")
		c.expectLast(n.ifaceStr())
		if n.kind == '{' {
			c.emit("object o t")
			// findkey: first member with the key
			key := []byte("absent")
			if len(n.keys) > 0 && r.chance(4, 5) {
				key = n.keys[r.intn(len(n.keys))]
			}
			c.emit("findkey o " + hx(key) + " fk")
			want := "nil"
			for i, kk := range n.keys {
				if bytes.Equal(kk, key) {
					want = strconv.Itoa(typeOfKind(n.children[i].kind))
					break
				}
			}
			c.expectLast(want)
			if want != "nil" {
				c.emit("copyiter fk2 fk")
				c.emit("interface fk2")
				c.emit("marshal fk")
			}
			// foreach without and with filter
			c.emit("foreach o .")
			{
				var cbs []string
				for i, ch := range n.children {
					cbs = append(cbs, fmt.Sprintf("%s:%d:%d", hx(n.keys[i]), cbTag(ch), ch.off+1))
				}
				c.expectLast("ok " + strings.Join(cbs, ","))
				c.marshalCallbacks(n)
			}
			if len(n.keys) > 0 && uniqueKeys(n.keys) {
				filter := map[string]bool{}
				var ks []string
				for i := 0; i < 1+r.intn(3); i++ {
					k := n.keys[r.intn(len(n.keys))]
					if !filter[string(k)] {
						filter[string(k)] = true
						ks = append(ks, hx(k))
					}
				}
				c.emit("foreach o " + strings.Join(ks, ","))
				var cbs []string
				for i, ch := range n.children {
					if filter[string(n.keys[i])] {
						cbs = append(cbs, fmt.Sprintf("%s:%d:%d", hx(n.keys[i]), cbTag(ch), ch.off+1))
					}
				}
				c.expectLast("ok " + strings.Join(cbs, ","))
			}
			// findpath
			{
				path, want := randomPath(r, n)
				c.emit("findpath o fp " + strings.Join(path, " "))
				c.expectLast(want)
			}
			c.emit("map o")
			c.expectLast(n.ifaceStr())
			if r.chance(1, 2) {
				// fill the destination from another object first: nothing of it may survive
				if other := firstOtherObject(roots, n); other != nil {
					if nav2, ok := navOps(c.pj, "t2", c.name(), other.off); ok {
						for _, op := range nav2 {
							c.emit(op)
						}
						c.emit("object o2 t2")
						c.emit("parseobj es o2")
					}
				}
			}
			c.emit("parseobj es o")
			{
				parts := make([]string, len(n.children))
				for i, ch := range n.children {
					parts[i] = fmt.Sprintf("%s:%d", hx(n.keys[i]), typeOfKind(ch.kind))
				}
				c.expectLast("ok " + strings.Join(parts, ","))
			}
			if em := c.emit("emarshal es"); em == "err" || em == "panic" {
				c.expectLast("<Elements.MarshalJSON succeeds>")
			} else if uniqueKeys(n.keys) || true {
				c.emit("parse em 0 1 " + em)
				var nb strings.Builder
				nb.WriteByte('[')
				n.ord(&nb)
				nb.WriteByte(']')
				if ow := c.emit("owalk em"); !docNumEq(nb.String(), ow) {
					c.expectLast("<document equal to " + nb.String() + ">")
				}
			}
			// NextElementBytes one by one
			for i := 0; i <= len(n.children) && i < 4; i++ {
				c.emit("next o ne")
			}
		} else {
			c.emit("array a t")
			c.emit("aforeach a")
			{
				var cbs []string
				for _, ch := range n.children {
					cbs = append(cbs, fmt.Sprintf("%d:%d", cbTag(ch), ch.off+1))
				}
				c.expectLast("ok " + strings.Join(cbs, ","))
			}
			c.marshalCallbacks(n)
			c.emit("firsttype a")
			if len(n.children) > 0 {
				c.expectLast(strconv.Itoa(typeOfKind(n.children[0].kind)))
			} else {
				c.expectLast("0")
			}
			c.emit("ainterface a")
			c.expectLast(n.ifaceStr())
			if am := c.emit("amarshal a"); am == "err" || am == "panic" {
				c.expectLast("<Array.MarshalJSON succeeds>")
			} else {
				c.emit("parse am 0 1 " + am)
				var nb strings.Builder
				nb.WriteByte('[')
				n.ord(&nb)
				nb.WriteByte(']')
				if ow := c.emit("owalk am"); !docNumEq(nb.String(), ow) {
					c.expectLast("<document equal to " + nb.String() + ">")
				}
			}
			c.emit("asstring a")
			c.emit("asfloat a")
			c.emit("asint a")
			c.emit("asuint a")
		}
	}
	// findelem from the root iterator
	if len(roots) > 0 && roots[0] != nil && roots[0].kind == '{' {
		path, want := randomPath(r, roots[0])
		c.emit("iter fe p")
		c.emit("findelem fe fe2 " + strings.Join(path, " "))
		c.expectLast(want)
	}
}

func firstOtherObject(roots []*node, not *node) *node {
	for _, rt := range roots {
		if rt == nil {
			continue
		}
		for _, n := range rt.all(nil) {
			if n.kind == '{' && n != not && len(n.keys) > 0 {
				return n
			}
		}
	}
	return nil
}

func allContainers(roots []*node) bool {
	for _, r := range roots {
		if r == nil || (r.kind != '{' && r.kind != '[') {
			return false
		}
	}
	return true
}

// marshalCallbacks marshals iterators handed to the last ForEach's callbacks: each must render its own value.
func (c *opsCase) marshalCallbacks(n *node) {
	for k, ch := range n.children {
		if k >= 3 && k != len(n.children)-1 {
			continue
		}
		c.emit(fmt.Sprintf("copyiter cbm cb%d", k))
		ms := c.emit("marshal cbm")
		c.checkValueText(ms, ch)
		// Interface() of an iterator positioned by the enclosing walk (not by Root/FindKey): the value itself — in
		// particular a container that is the last member of its parent
		c.emit(fmt.Sprintf("copyiter cbi cb%d", k))
		c.emit("interface cbi")
		c.expectLast(ch.ifaceStr())
	}
}

// checkValueText: ms (hex reply of a marshal op just emitted) must be valid JSON denoting node ch.
func (c *opsCase) checkValueText(ms string, ch *node) {
	if ms == "err" || ms == "panic" || ms == "hang" {
		c.expectLast("<marshal of an inner iterator succeeds>")
		return
	}
	txt := unhx(ms)
	if !json.Valid(txt) {
		c.expectLast("<valid JSON>")
		return
	}
	wrapped := append(append([]byte{'['}, txt...), ']')
	pj, err := simdjson.Parse(wrapped, nil)
	if err != nil {
		c.expectLast("<valid JSON accepted by Parse when wrapped in an array>")
		return
	}
	ow, _ := owalk(pj)
	var nb strings.Builder
	nb.WriteString("[[")
	ch.ord(&nb)
	nb.WriteString("]]")
	if !docNumEq(nb.String(), ow) {
		c.expectLast("<text denoting " + nb.String() + ">")
	}
}

func uniqueKeys(ks [][]byte) bool {
	m := map[string]bool{}
	for _, k := range ks {
		if m[string(k)] {
			return false
		}
		m[string(k)] = true
	}
	return true
}

// randomPath picks a key path below object n and computes what FindPath must return.
func randomPath(r *rng, n *node) (path []string, want string) {
	cur := n
	depth := 1 + r.intn(3)
	for d := 0; d < depth; d++ {
		if cur.kind != '{' {
			// path runs through a non-object: some error other than ErrPathNotFound
			path = append(path, hx([]byte("x")))
			return path, "err"
		}
		var key []byte
		if len(cur.keys) == 0 || r.chance(1, 6) {
			key = []byte("absent")
		} else {
			key = cur.keys[r.intn(len(cur.keys))]
		}
		path = append(path, hx(key))
		var next *node
		for i, k := range cur.keys {
			if bytes.Equal(k, key) {
				next = cur.children[i]
				break
			}
		}
		if next == nil {
			return path, "err-path-not-found"
		}
		cur = next
	}
	return path, strconv.Itoa(typeOfKind(cur.kind))
}

func hasNegZeroFloat(roots []*node) bool {
	for _, rt := range roots {
		if rt == nil {
			continue
		}
		for _, n := range rt.all(nil) {
			if n.kind == 'd' && strings.HasPrefix(n.render, "f8000000000000000") {
				return true
			}
		}
	}
	return false
}

// tokens splits an ordered rendering at its delimiters.
func tokens(s string) []string {
	var out []string
	cur := 0
	for i := 0; i < len(s); i++ {
		switch s[i] {
		case '[', ']', '{', '}', ',', ':':
			if i > cur {
				out = append(out, s[cur:i])
			}
			out = append(out, s[i:i+1])
			cur = i + 1
		}
	}
	if cur < len(s) {
		out = append(out, s[cur:])
	}
	return out
}

// tokFloat converts a number token to float64 the way Iter.Float does.
func tokFloat(tok string) (float64, bool) {
	switch tok[0] {
	case 'i':
		v, err := strconv.ParseInt(tok[1:], 10, 64)
		return float64(v), err == nil
	case 'u':
		v, err := strconv.ParseUint(tok[1:], 10, 64)
		return float64(v), err == nil
	case 'f':
		h := tok[1:]
		if k := strings.IndexByte(h, '!'); k >= 0 {
			h = h[:k]
		}
		bits, err := strconv.ParseUint(h, 16, 64)
		return math.Float64frombits(bits), err == nil
	}
	return 0, false
}

// docNumEq: same structure, order, keys, strings, booleans, nulls; integers exactly equal; a float equal
// to the re-read number after conversion to float64 (the sense in which JSON text "denotes" a float64).
func docNumEq(orig, re string) bool {
	a, b := tokens(orig), tokens(re)
	if len(a) != len(b) {
		return false
	}
	for i := range a {
		if a[i] == b[i] {
			continue
		}
		isKey := i+1 < len(a) && a[i+1] == ":"
		if !isKey && (a[i][0] == 'i' || a[i][0] == 'u') && (b[i][0] == 'i' || b[i][0] == 'u') && a[i][1:] == b[i][1:] {
			continue // same integer, int64 vs uint64 representation
		}
		if !isKey && a[i][0] == 'f' {
			x, ok1 := tokFloat(a[i])
			y, ok2 := tokFloat(b[i])
			if ok1 && ok2 && x == y {
				continue
			}
		}
		return false
	}
	return true
}

// numCanon rewrites every number in an ordered rendering to a type-independent exact form.
func numCanon(s string) string {
	var b strings.Builder
	i := 0
	for i < len(s) {
		c := s[i]
		if (c == 'i' || c == 'u' || c == 'f') && (i == 0 || s[i-1] == '[' || s[i-1] == ',' || s[i-1] == ':') {
			j := i + 1
			for j < len(s) && s[j] != ',' && s[j] != ']' && s[j] != '}' {
				j++
			}
			tok := s[i:j]
			b.WriteString(exactNum(tok))
			i = j
			continue
		}
		if c == 's' && (i == 0 || s[i-1] == '[' || s[i-1] == ',' || s[i-1] == ':') {
			j := i + 1
			for j < len(s) && s[j] != ',' && s[j] != ']' && s[j] != '}' {
				j++
			}
			b.WriteString(s[i:j])
			i = j
			continue
		}
		b.WriteByte(c)
		i++
	}
	return b.String()
}

func exactNum(tok string) string {
	switch tok[0] {
	case 'i', 'u':
		return "#" + tok[1:]
	case 'f':
		h := tok[1:]
		if k := strings.IndexByte(h, '!'); k >= 0 {
			h = h[:k]
		}
		bits, _ := strconv.ParseUint(h, 16, 64)
		f := math.Float64frombits(bits)
		if f == 0 {
			return "#0"
		}
		if f == math.Trunc(f) && math.Abs(f) < 1e300 {
			bf := new(big.Float).SetFloat64(f)
			return "#" + bf.Text('f', 0)
		}
		return "#f" + h
	}
	return tok
}

// corpusOps: minimised past findings, run first on every invocation.
func corpusOps(rn *runner) {
	// D8: a float -0 marshals as "-0", which re-parses as the integer 0 and marshals as "0"
	tc := &testCase{note: "negzero-fixed-point", ops: []string{
		"parse p 0 1 " + hx([]byte("[-0.0]")), "iter i p", "marshal i",
		"parse q 0 1 " + hx([]byte("[-0]")), "iter j q", "marshal j"}}
	tc.expect = map[int]string{2: hx([]byte("[-0]")), 5: hx([]byte("[-0]"))}
	rn.add(tc)
	// D10: SetNull on a root entry succeeds although the documentation does not list roots
	tc2 := &testCase{note: "setnull-on-root", ops: []string{
		"parse p 1 1 " + hx([]byte("{\"a\":1}\n[2]")), "iter t p", "advinto t", "setnull t"}}
	tc2.expect = map[int]string{3: "err"}
	rn.add(tc2)
	// D14 (fixed): DeleteElems with a key filter stopped after len(filter) matches; with a duplicate key the later
	// member survived although "all elements in onlyKeys will be deleted"
	if want, err := simdjson.Parse([]byte(`{"b":3}`), nil); err == nil {
		ws, _ := owalk(want)
		tc3 := &testCase{note: "delete-filter-duplicate-key", ops: []string{
			"parse p 0 1 " + hx([]byte(`{"a":1,"a":2,"b":3}`)), "iter t p", "advinto t", "advinto t", "object o t",
			fmt.Sprintf("delete o %d %s", uint64(1<<62-1), hx([]byte("a"))), "owalk p"}}
		tc3.expect = map[int]string{6: ws}
		rn.add(tc3)
	}
}

func suiteOps(rn *runner, r *rng, tier string) {
	n := 1500
	if tier == "thorough" {
		n = 40000
	}
	corpusOps(rn)
	for i := 0; i < n; i++ {
		cr := r.fork()
		if i%25 == 7 {
			// edits on a deserialized document, whose equal strings share storage
			sharedStringCase(rn, cr, "p0", "p")
			continue
		}
		if i%25 == 11 {
			elementsEditCase(rn, cr)
			continue
		}
		cfg := defaultCfg(cr)
		cfg.maxDepth = 1 + cr.intn(4)
		cfg.maxMembers = 2 + cr.intn(8)
		nd := cr.chance(1, 4)
		var text string
		lookalikes := i%8 == 3
		if lookalikes {
			// a flat container of numbers half of which read as tape tag words (NOP with a small skip, container start …)
			// when taken for one: what deletions and gap skipping do right next to such a value word
			nd = false
			k := 3 + cr.intn(6)
			var parts []string
			for j := 0; j < k; j++ {
				v := strconv.Itoa(cr.intn(100))
				if cr.chance(1, 2) {
					v = cr.tagLookalike()
				}
				if i%16 == 3 {
					parts = append(parts, v)
				} else {
					parts = append(parts, fmt.Sprintf("%q:%s", string(rune('a'+j)), v))
				}
			}
			if i%16 == 3 {
				text = "[" + strings.Join(parts, ",") + "]"
			} else {
				text = "{" + strings.Join(parts, ",") + "}"
			}
		} else if nd {
			text, _ = cr.ndjson(cfg, 1+cr.intn(4), false)
		} else {
			text = cr.doc(cfg)
		}
		c := &opsCase{r: cr, tc: &testCase{note: "ops"}, st: newStore(), nd: nd}
		if cr.chance(1, 3) { // destinations (Iter, Object, Array) handed to the API again under the same store name
			c.emit("mode scratch")
		}
		ndS, cpS := "0", "0"
		if nd {
			ndS = "1"
		}
		if cr.chance(1, 2) {
			cpS = "1"
		}
		if out := c.emit(fmt.Sprintf("parse p %s %s %s", ndS, cpS, hx([]byte(text)))); !strings.HasPrefix(out, "ok") {
			continue
		}
		c.pj = c.st.pjs["p"]
		roots, err := refDecode(c.pj)
		if err != nil {
			c.emit("tape p")
			c.tc.expect = map[int]string{len(c.tc.ops) - 1: "<well-formed tape: " + err.Error() + ">"}
			rn.addPrepared(c.tc)
			continue
		}
		nEdits := cr.intn(6)
		if lookalikes {
			nEdits = 3 + cr.intn(4)
		}
		kinds := map[string]bool{}
		for e := 0; e < nEdits; e++ {
			before := len(c.tc.ops)
			c.oneEdit(roots)
			for _, op := range c.tc.ops[before:] {
				w := strings.Fields(op)[0]
				if strings.HasPrefix(w, "set") || strings.HasSuffix(w, "delete") {
					kinds[w] = true
				}
			}
			if cr.chance(1, 3) {
				c.emit("owalk p")
				c.expectLast(ordRoots(roots))
			}
		}
		c.readBattery(roots)
		// the generating store already ran the ops; re-run from scratch through the runner for a clean comparison
		ks := make([]string, 0, len(kinds))
		for k := range kinds {
			ks = append(ks, k)
		}
		sort.Strings(ks)
		c.tc.class = fmt.Sprintf("nd=%v/edits=%s/%s", nd, strings.Join(ks, "+"), sizeClass(len(text)))
		rn.addPrepared(c.tc)
	}
	rn.rep.Rule = "parse, 0-5 random in-place edits (Set*, DeleteElems on objects/arrays, SetNull on containers) at random value positions, then read back through every API family with expectations from an independent reference tree; distinct = (nd, set of edit kinds, size class)"
}

// elementsEditCase: Object.Parse, then edits through the elements' own iterators (also ones that change the type:
// null ↔ bool, anything → null, number → int), then Elements.MarshalJSON and the document read again. The Elements
// hold iterators, not values: what they marshal is the tape as it is now (C10), and the edit is visible to every
// other reader (C13). The model keeps the element's recorded Type as it was, as the code does.
func elementsEditCase(rn *runner, cr *rng) {
	vals := []string{"null", "true", "false", "12", "-7", "1.5", "\"s\"", "[1,null]", "{\"x\":null}"}
	k := 2 + cr.intn(6)
	var parts []string
	kinds := make([]string, k)
	for j := 0; j < k; j++ {
		v := vals[cr.intn(len(vals))]
		kinds[j] = v
		parts = append(parts, fmt.Sprintf("%q:%s", string(rune('a'+j)), v))
	}
	text := "{" + strings.Join(parts, ",") + "}"
	c := &opsCase{r: cr, tc: &testCase{note: "ops", class: "ops/elements-edit"}, st: newStore()}
	cp := "0"
	if cr.chance(1, 2) {
		cp = "1"
	}
	if out := c.emit(fmt.Sprintf("parse p 0 %s %s", cp, hx([]byte(text)))); !strings.HasPrefix(out, "ok") {
		return
	}
	c.pj = c.st.pjs["p"]
	nav, ok := navOps(c.pj, "t", "p", 1)
	if !ok {
		return
	}
	for _, op := range nav {
		c.emit(op)
	}
	c.emit("object o t")
	if out := c.emit("parseobj es o"); !strings.HasPrefix(out, "ok") {
		return
	}
	for e := 0; e < 1+cr.intn(4); e++ {
		j := cr.intn(k)
		switch cr.intn(3) {
		case 0:
			c.emit(fmt.Sprintf("elemset es %d bool %d", j, cr.intn(2)))
		case 1:
			c.emit(fmt.Sprintf("elemset es %d null 0", j))
		default:
			c.emit(fmt.Sprintf("elemset es %d int %d", j, cr.intn(1000)-500))
		}
		if cr.chance(1, 2) {
			c.emit("emarshal es")
		}
	}
	em := c.emit("emarshal es")
	c.emit("owalk p")
	if em != "err" && em != "panic" {
		// what the Elements marshal must be a document again (compared with the model's text and walk)
		c.emit("parse em 0 1 " + em)
		c.emit("owalk em")
	}
	rn.addPrepared(c.tc)
}
