package main

import (
	"errors"
	"fmt"
	"io"
	"os"
	"runtime"
	"strconv"
	"strings"
	"sync/atomic"
	"time"

	simdjson "github.com/minio/simdjson-go"
)

// Streams larger than the 10 MiB chunk buffer of ParseNDStream.  The oracle needs no model: the generator knows the
// lines.  Two shapes that small streams cannot produce:
//   - longline: one line longer than the chunk buffer, delivered in short reads, so that the remainder of the line
//     (read after the chunk's first Read) is itself longer than the bufio buffer;
//   - holdall: several chunks with GOMAXPROCS lowered (the number of chunk parsers in flight is (GOMAXPROCS+1)/2),
//     the consumer keeps every delivered value until the stream has ended, the reader's bytes are overwritten, and
//     only then are the values read: a value must not change after delivery (C16) and the sequence must be the
//     stream's documents in order (C09).
//
// holdall is only used with reads of at least 1 MiB: ParseNDStream cuts a chunk per Read (plus the rest of the line) and
// every delivered value keeps its 10 MiB chunk buffer as Message until the consumer hands it back through `reuse`, so a
// consumer that holds everything needs 10 MiB per Read — with 4 KiB reads of an 80 MiB stream that is 200 GB (the first
// version of the thorough tier did that and was killed by the kernel; DESIGN §12).
//
// The op line is self-describing (`bigstream <seed> <kind> <chunks> <procs> <readsize>`), so a replay regenerates it.

func bigStreamOp(seed uint64, kind string, chunks, procs, readSize int) string {
	return fmt.Sprintf("bigstream %d %s %d %d %d", seed, kind, chunks, procs, readSize)
}

// runBigStream executes the op and returns "ok <docs>" or a description of what went wrong.
func runBigStream(op string) string {
	ws := strings.Fields(op)
	if len(ws) != 6 {
		return "bad-op"
	}
	seed, _ := strconv.ParseUint(ws[1], 10, 64)
	kind := ws[2]
	chunks, _ := strconv.Atoi(ws[3])
	procs, _ := strconv.Atoi(ws[4])
	readSize, _ := strconv.Atoi(ws[5])
	cr := &rng{s: seed}
	const chunk = 10 << 20
	var hb strings.Builder
	var ids []int
	var pads []int
	addLine := func(k, pad int) {
		fmt.Fprintf(&hb, "{\"id\":%d,\"pad\":\"", k)
		hb.WriteString(strings.Repeat("x", pad))
		hb.WriteString("\"}\n")
		ids = append(ids, k)
		pads = append(pads, pad)
	}
	switch kind {
	case "longline":
		addLine(0, 10+cr.intn(100))
		addLine(1, chunk+cr.intn(3*4096))
		addLine(2, 10+cr.intn(100))
		addLine(3, chunk/2+cr.intn(4096))
		addLine(4, 10+cr.intn(100))
	default:
		for k := 0; hb.Len() < chunks*chunk+(1<<20); k++ {
			addLine(k, 2000+cr.intn(3000))
		}
	}
	data := []byte(hb.String())
	var sizes []int
	if readSize > 0 {
		for tot := 0; tot < len(data)+readSize; tot += readSize {
			sizes = append(sizes, readSize)
		}
	}
	if procs > 0 {
		old := runtime.GOMAXPROCS(procs)
		defer runtime.GOMAXPROCS(old)
	}
	// A hang is the absence of progress, not a duration: the machine may be loaded (a thorough run of every property
	// in parallel made this op 20 times slower than alone).  Progress = a Read of the reader or a delivery.
	var progress atomic.Int64
	rd := &countingReader{r: &scriptReader{data: data, sizes: sizes, errAt: -1}, n: &progress}
	res := make(chan simdjson.Stream, 2)
	simdjson.ParseNDStream(rd, res, nil)
	var held []*simdjson.ParsedJson
	var finalErr error
	const stall = 180 * time.Second
	tick := time.NewTicker(5 * time.Second)
	defer tick.Stop()
	last, lastAt := int64(-1), time.Now()
	closed := false
loop:
	for {
		select {
		case s, ok := <-res:
			if !ok {
				closed = true
				break loop
			}
			if s.Error != nil {
				if finalErr == nil {
					finalErr = s.Error
				}
				continue
			}
			if finalErr != nil {
				return "value delivered after the error"
			}
			held = append(held, s.Value)
			progress.Add(1)
		case <-tick.C:
			if p := progress.Load(); p != last {
				last, lastAt = p, time.Now()
			} else if time.Since(lastAt) > stall {
				break loop
			}
		}
	}
	if !closed {
		return fmt.Sprintf("no Read and no delivery for %v and the result channel is not closed (%d values delivered)", stall, len(held))
	}
	if !errors.Is(finalErr, io.EOF) {
		return fmt.Sprint("final error: ", finalErr)
	}
	// the reader's bytes are no longer needed by anybody
	for k := range data {
		data[k] = 0xFF
	}
	n := 0
	for vi, v := range held {
		it := v.Iter()
		for {
			typ := it.Advance()
			if typ == simdjson.TypeNone {
				break
			}
			if typ != simdjson.TypeRoot {
				return fmt.Sprintf("value %d: top-level entry of type %v", vi, typ)
			}
			var root simdjson.Iter
			if _, _, err := it.Root(&root); err != nil {
				return fmt.Sprintf("value %d: Root: %v", vi, err)
			}
			var obj simdjson.Object
			if _, err := root.Object(&obj); err != nil {
				return fmt.Sprintf("value %d: document %d is not an object: %v", vi, n, err)
			}
			var el simdjson.Iter
			name, t, err := obj.NextElement(&el)
			if err != nil || name != "id" || t != simdjson.TypeInt {
				return fmt.Sprintf("value %d: document %d: first member %q %v %v", vi, n, name, t, err)
			}
			id, _ := el.Int()
			name, t, err = obj.NextElement(&el)
			if err != nil || name != "pad" || t != simdjson.TypeString {
				return fmt.Sprintf("value %d: document %d: second member %q %v %v", vi, n, name, t, err)
			}
			pad, _ := el.StringBytes()
			if n >= len(ids) {
				return fmt.Sprintf("value %d: more documents than lines (%d)", vi, len(ids))
			}
			if int(id) != ids[n] || len(pad) != pads[n] || strings.Trim(string(pad), "x") != "" {
				return fmt.Sprintf("value %d (of %d): document %d: expected id %d with %d pad bytes, the value now holds id %d with %d pad bytes", vi, len(held), n, ids[n], pads[n], id, len(pad))
			}
			n++
		}
	}
	if n != len(ids) {
		return fmt.Sprintf("%d documents delivered, the stream has %d", n, len(ids))
	}
	return fmt.Sprintf("ok %d", n)
}

type countingReader struct {
	r io.Reader
	n *atomic.Int64
}

func (c *countingReader) Read(p []byte) (int, error) {
	c.n.Add(1)
	return c.r.Read(p)
}

func bigStreamCase(rn *runner, cr *rng, kind string, chunks, procs, readSize int, note string) {
	op := bigStreamOp(cr.u64(), kind, chunks, procs, readSize)
	if os.Getenv("SJH_TRACE") != "" {
		var ms runtime.MemStats
		runtime.ReadMemStats(&ms)
		fmt.Fprintf(os.Stderr, "trace: %s (heap in use %d MiB, sys %d MiB)\n", op, ms.HeapInuse>>20, ms.Sys>>20)
	}
	out := runBigStream(op)
	rn.rep.Evaluations++
	cls := fmt.Sprintf("bigstream/%s/chunks=%d/procs=%d/read=%d", kind, chunks, procs, readSize)
	rn.rep.Distribution[cls]++
	rn.seen[cls] = true
	if !strings.HasPrefix(out, "ok ") {
		rn.disagree(disagreement{Kind: "spec", Ops: []string{op}, At: 0, Impl: out, Other: "ok <all documents, in order, unchanged after delivery>", Note: note})
	}
}
