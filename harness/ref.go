package main

import (
	"fmt"
	"math"
	"strconv"
	"strings"

	simdjson "github.com/minio/simdjson-go"
)

// Reference decoder of the documented tape format (independent of the library's walkers) and the
// abstract document operations (replace a value, delete members) the properties are stated against.

type node struct {
	kind     byte // 'n','t','f','l','u','d','"','{','[','r'
	off      int  // tape offset of the value's first word
	render   string
	keys     [][]byte
	children []*node
}

type refErr struct{ msg string }

func (e refErr) Error() string { return e.msg }

func refString(pj *simdjson.ParsedJson, payload, length uint64) ([]byte, error) {
	if payload&simdjson.STRINGBUFBIT != 0 {
		o := payload & simdjson.STRINGBUFMASK
		if o+length > uint64(len(pj.Strings.B)) || o+length < o {
			return nil, refErr{"string out of buffer"}
		}
		return pj.Strings.B[o : o+length], nil
	}
	if payload+length > uint64(len(pj.Message)) || payload+length < payload {
		return nil, refErr{"string out of message"}
	}
	return pj.Message[payload : payload+length], nil
}

// skipNops returns the first live position at or after i (at most end). Every word passed must be a NOP whose
// skip count is at least 1 and stays inside the gap, so that a walk may enter the gap anywhere (Lean: skipNopsD,
// proved equivalent to Layout.Gap in Proofs/DecodeSound.lean).
func skipNops(t []uint64, i, end int) (int, error) {
	if i > end {
		return 0, refErr{"nop skip overshoots"}
	}
	reach := i
	for i < end && byte(t[i]>>56) == 'N' {
		s := t[i] & simdjson.JSONVALUEMASK
		if s == 0 {
			return 0, refErr{"nop with zero skip"}
		}
		if s > uint64(end) {
			return 0, refErr{"nop skip overshoots"}
		}
		if i+int(s) > reach {
			reach = i + int(s)
		}
		i++
	}
	if reach > i {
		return 0, refErr{"nop skip overshoots"}
	}
	return i, nil
}

// refValue decodes the value at t[i]; returns the node and the position after it.
func refValue(pj *simdjson.ParsedJson, i, end int) (*node, int, error) {
	t := pj.Tape
	if i >= end {
		return nil, 0, refErr{"value expected"}
	}
	w := t[i]
	tag := byte(w >> 56)
	pl := w & simdjson.JSONVALUEMASK
	n := &node{kind: tag, off: i}
	switch tag {
	case 'n':
		n.render = "null"
		return n, i + 1, nil
	case 't':
		n.render = "true"
		return n, i + 1, nil
	case 'f':
		n.render = "false"
		return n, i + 1, nil
	case 'l':
		if i+1 >= end {
			return nil, 0, refErr{"number without value word"}
		}
		n.render = "i" + strconv.FormatInt(int64(t[i+1]), 10)
		return n, i + 2, nil
	case 'u':
		if i+1 >= end {
			return nil, 0, refErr{"number without value word"}
		}
		n.render = "u" + strconv.FormatUint(t[i+1], 10)
		return n, i + 2, nil
	case 'd':
		if i+1 >= end {
			return nil, 0, refErr{"number without value word"}
		}
		n.render = "f" + h64(t[i+1])
		if pl != 0 {
			n.render += "!" + strconv.FormatUint(pl, 10)
		}
		return n, i + 2, nil
	case '"':
		if i+1 >= end {
			return nil, 0, refErr{"string without length word"}
		}
		s, err := refString(pj, pl, t[i+1])
		if err != nil {
			return nil, 0, err
		}
		n.render = "s" + hx(s)
		return n, i + 2, nil
	case '{', '[':
		e := int(pl)
		if e <= i+1 || e > end {
			return nil, 0, refErr{"container end out of range"}
		}
		closeTag := byte('}')
		if tag == '[' {
			closeTag = ']'
		}
		if byte(t[e-1]>>56) != closeTag || int(t[e-1]&simdjson.JSONVALUEMASK) != i {
			return nil, 0, refErr{"container close does not point back"}
		}
		p := i + 1
		for {
			var err error
			p, err = skipNops(t, p, e-1)
			if err != nil {
				return nil, 0, err
			}
			if p == e-1 {
				break
			}
			if tag == '{' {
				if byte(t[p]>>56) != '"' || p+1 >= e-1 {
					return nil, 0, refErr{"object key expected"}
				}
				k, err := refString(pj, t[p]&simdjson.JSONVALUEMASK, t[p+1])
				if err != nil {
					return nil, 0, err
				}
				n.keys = append(n.keys, append([]byte(nil), k...))
				p += 2
				p, err = skipNops(t, p, e-1)
				if err != nil {
					return nil, 0, err
				}
			}
			c, np, err := refValue(pj, p, e-1)
			if err != nil {
				return nil, 0, err
			}
			n.children = append(n.children, c)
			p = np
		}
		return n, e, nil
	}
	return nil, 0, refErr{fmt.Sprintf("unexpected tag %q at %d", tag, i)}
}

// refDecode decodes the whole tape: a list of roots.
func refDecode(pj *simdjson.ParsedJson) ([]*node, error) {
	t := pj.Tape
	var roots []*node
	i := 0
	for {
		var err error
		i, err = skipNops(t, i, len(t))
		if err != nil {
			return nil, err
		}
		if i == len(t) {
			break
		}
		if byte(t[i]>>56) != 'r' {
			return nil, refErr{"root expected"}
		}
		e := int(t[i] & simdjson.JSONVALUEMASK)
		if e <= i+1 || e > len(t) || byte(t[e-1]>>56) != 'r' || int(t[e-1]&simdjson.JSONVALUEMASK) != i {
			return nil, refErr{"root pair malformed"}
		}
		p, err := skipNops(t, i+1, e-1)
		if err != nil {
			return nil, err
		}
		if p < e-1 {
			v, np, err := refValue(pj, p, e-1)
			if err != nil {
				return nil, err
			}
			np, err = skipNops(t, np, e-1)
			if err != nil {
				return nil, err
			}
			if np != e-1 {
				return nil, refErr{"more than one value in root"}
			}
			roots = append(roots, v)
		} else {
			roots = append(roots, nil) // emptied root
		}
		i = e
	}
	return roots, nil
}

func (n *node) ord(b *strings.Builder) {
	switch n.kind {
	case '{':
		b.WriteByte('{')
		for i, c := range n.children {
			if i > 0 {
				b.WriteByte(',')
			}
			b.WriteString(hx(n.keys[i]))
			b.WriteByte(':')
			c.ord(b)
		}
		b.WriteByte('}')
	case '[':
		b.WriteByte('[')
		for i, c := range n.children {
			if i > 0 {
				b.WriteByte(',')
			}
			c.ord(b)
		}
		b.WriteByte(']')
	default:
		b.WriteString(n.render)
	}
}

func ordRoots(roots []*node) string {
	var b strings.Builder
	b.WriteByte('[')
	for i, r := range roots {
		if i > 0 {
			b.WriteByte(',')
		}
		if r != nil {
			r.ord(&b)
		}
	}
	b.WriteByte(']')
	return b.String()
}

// all returns every node (pre-order) below and including n.
func (n *node) all(out []*node) []*node {
	out = append(out, n)
	for _, c := range n.children {
		out = c.all(out)
	}
	return out
}

func floatRender(bits uint64) string { return "f" + h64(bits) }

var _ = math.Float64bits
