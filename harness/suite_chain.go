package main

import (
	"fmt"
	"strconv"
	"strings"
	"time"

	simdjson "github.com/minio/simdjson-go"
)

// Ownership chains (C16, C15): a pool of live documents and a random sequence of the calls that take a destination to
// recycle — Parse(b, reuse), Deserialize(blob, dst), Clone(dst) — and of in-place edits. A call may do what it likes with
// the destination it was given (that object is dropped from the pool); every OTHER live document must still read
// exactly as it did. The oracle needs no model: each document's text is taken when it is created.
//
// The op line is self-describing (`chain <seed> <steps>`), so a replay regenerates it.

type chainDoc struct {
	pj   *simdjson.ParsedJson
	want string
	how  string // what made it, with the step number
	id   string // "#<step>"
	keep []byte // input of a no-copy parse: must stay alive and unchanged
}

func chainText(pj *simdjson.ParsedJson) (out string) {
	defer func() {
		if r := recover(); r != nil {
			out = fmt.Sprint("panic: ", r)
		}
	}()
	var sb strings.Builder
	err := pj.ForEach(func(i simdjson.Iter) error {
		b, err := i.MarshalJSON()
		if err != nil {
			return err
		}
		sb.Write(b)
		sb.WriteByte('\n')
		return nil
	})
	if err != nil {
		return "error: " + err.Error()
	}
	return sb.String()
}

func runAliasChain(op string) string {
	ws := strings.Fields(op)
	if len(ws) != 3 && !(len(ws) == 4 && ws[3] == "big") {
		return "bad-op"
	}
	big := len(ws) == 4 // documents with more than 1 MiB of copied strings among the steps (size-dependent sharing)
	seed, _ := strconv.ParseUint(ws[1], 10, 64)
	steps, _ := strconv.Atoi(ws[2])
	cr := &rng{s: seed}
	var pool []*chainDoc
	var log []string
	// serialized forms the caller keeps: Deserialize reads its input, it does not own it — the bytes must stay as they
	// are whatever the Serializer is used for afterwards, and must deserialize to the same document again
	type keptBlob struct {
		orig, copy []byte
		want, how  string
	}
	var blobs []keptBlob
	shared := simdjson.NewSerializer()
	sharedD := simdjson.NewSerializer()
	newDoc := func() string {
		if big && cr.chance(1, 2) {
			return chainBigDoc(cr)
		}
		cfg := defaultCfg(cr)
		cfg.maxDepth, cfg.maxMembers = 1+cr.intn(3), 2+cr.intn(6)
		return cr.doc(cfg)
	}
	takeDst := func() (*simdjson.ParsedJson, string) {
		if len(pool) == 0 || cr.chance(1, 3) {
			return nil, "nil"
		}
		k := cr.intn(len(pool))
		d := pool[k]
		pool = append(pool[:k], pool[k+1:]...)
		return d.pj, d.id
	}
	check := func(after string) string {
		for _, b := range blobs {
			if string(b.orig) != string(b.copy) {
				return fmt.Sprintf("after %s the serialized bytes handed to %s were modified; history: %s", after, b.how, strings.Join(log, "; "))
			}
		}
		for _, d := range pool {
			if got := chainText(d.pj); got != d.want {
				return fmt.Sprintf("after %s the document made by %s reads %q, it read %q when it was made; history: %s", after, d.how, clipS(got), clipS(d.want), strings.Join(log, "; "))
			}
		}
		return ""
	}
	for s := 0; s < steps; s++ {
		kind := cr.intn(5)
		if len(pool) == 0 {
			kind = 0
		}
		forceBig, forceNilDst := false, false
		if big {
			switch {
			case s == 0: // a document with more than 1 MiB of copied strings …
				kind, forceBig = 0, true
			case s == 1: // … and a clone of it into a fresh (or too small) destination …
				kind, forceNilDst = 3, true
			default: // … then mostly edits on either side and parses that recycle one of them
				kind = []int{4, 4, 4, 0, 0, 3, 2, 4}[cr.intn(8)]
			}
		}
		var desc string
		switch kind {
		case 0, 1: // Parse
			text := newDoc()
			dst, dn := takeDst()
			var opts []simdjson.ParserOption
			nocopy := cr.chance(1, 3)
			if forceBig {
				text = chainBigDoc(cr)
				nocopy = false
			}
			if nocopy {
				opts = append(opts, simdjson.WithCopyStrings(false))
			}
			in := []byte(text)
			pj, err := simdjson.Parse(in, dst, opts...)
			desc = fmt.Sprintf("%d:Parse(reuse=%s,nocopy=%v)", s, dn, nocopy)
			if err != nil {
				log = append(log, desc+"=err")
				continue
			}
			d := &chainDoc{pj: pj, how: desc, id: "#" + strconv.Itoa(s)}
			if nocopy {
				d.keep = in
			} else {
				for k := range in {
					in[k] = 0xFF // the caller is free to recycle its input
				}
			}
			d.want = chainText(pj)
			pool = append(pool, d)
		case 2: // Serialize + Deserialize
			src := pool[cr.intn(len(pool))]
			ser := shared
			if cr.chance(1, 2) {
				ser = simdjson.NewSerializer()
			}
			ser.CompressMode([]simdjson.CompressMode{simdjson.CompressNone, simdjson.CompressFast, simdjson.CompressDefault, simdjson.CompressBest}[cr.intn(4)])
			blob := ser.Serialize(nil, *src.pj)
			dst, dn := takeDst()
			// the reading side: the same Serializer, a long-lived one of its own (an application that only reads: nothing
			// ever resets its scratch buffers by serializing), or a fresh one
			dser := ser
			switch cr.intn(3) {
			case 0:
				dser = sharedD
			case 1:
				dser = simdjson.NewSerializer()
			}
			pj, err := dser.Deserialize(blob, dst)
			desc = fmt.Sprintf("%d:Deserialize(of %s, dst=%s)", s, src.id, dn)
			if err != nil {
				return fmt.Sprintf("%s failed: %v; history: %s", desc, err, strings.Join(log, "; "))
			}
			d := &chainDoc{pj: pj, how: desc, id: "#" + strconv.Itoa(s)}
			d.want = chainText(pj)
			if cr.chance(1, 2) {
				blobs = append(blobs, keptBlob{orig: blob, copy: append([]byte(nil), blob...), want: d.want, how: desc})
			} else {
				for k := range blob {
					blob[k] = 0xEE // the caller recycles its buffer
				}
			}
			if dst != src.pj && d.want != src.want {
				return fmt.Sprintf("%s reads %q, its source reads %q; history: %s", desc, clipS(d.want), clipS(src.want), strings.Join(log, "; "))
			}
			pool = append(pool, d)
		case 3: // Clone
			src := pool[cr.intn(len(pool))]
			var dst *simdjson.ParsedJson
			dn := "nil"
			if forceNilDst {
				src = pool[0]
			} else {
				dst, dn = takeDst()
			}
			if dst == src.pj {
				pool = append(pool, src) // cloning into itself is not a use of the API: put it back
				continue
			}
			pj := src.pj.Clone(dst)
			desc = fmt.Sprintf("%d:Clone(of %s, dst=%s)", s, src.id, dn)
			d := &chainDoc{pj: pj, how: desc, id: "#" + strconv.Itoa(s)}
			d.want = chainText(pj)
			if d.want != src.want {
				return fmt.Sprintf("%s reads %q, its source reads %q; history: %s", desc, clipS(d.want), clipS(src.want), strings.Join(log, "; "))
			}
			pool = append(pool, d)
		default: // edit in place: the first string or number of the document becomes another string
			d := pool[cr.intn(len(pool))]
			if d.keep != nil {
				continue // a no-copy document's strings live in the caller's input
			}
			desc = fmt.Sprintf("%d:SetString(in %s)", s, d.id)
			edited := false
			func() {
				defer func() { recover() }()
				it := d.pj.Iter()
				for !edited {
					t := it.AdvanceInto()
					if t == simdjson.TagEnd {
						break
					}
					if t == simdjson.TagString || t == simdjson.TagInteger || t == simdjson.TagUint || t == simdjson.TagFloat {
						edited = it.SetString("edited in step "+strconv.Itoa(s)+" "+strings.Repeat("x", cr.intn(40))) == nil
					}
				}
			}()
			if !edited {
				continue
			}
			d.want = chainText(d.pj)
		}
		log = append(log, desc)
		if bad := check(desc); bad != "" {
			return bad
		}
	}
	for _, b := range blobs {
		pj, err := simdjson.NewSerializer().Deserialize(b.orig, nil)
		if err != nil {
			return fmt.Sprintf("the serialized bytes handed to %s no longer deserialize: %v; history: %s", b.how, err, strings.Join(log, "; "))
		}
		if got := chainText(pj); got != b.want {
			return fmt.Sprintf("the serialized bytes handed to %s now deserialize to %q, they gave %q; history: %s", b.how, clipS(got), clipS(b.want), strings.Join(log, "; "))
		}
	}
	return "ok " + strconv.Itoa(len(log))
}

// chainBigDoc is a document whose unescaped strings take more than 1 MiB (so does its string buffer when strings are
// copied, and also when they are not: every string of it holds an escape).
func chainBigDoc(cr *rng) string {
	n := (1 << 20) + cr.intn(400000)
	return "{\"a\":\"first\\n\",\"fill\":\"" + strings.Repeat("\\n"+string(rune('a'+cr.intn(26))), n/2+16) + "\",\"b\":\"tail\\t\",\"c\":[1,\"x\"]}"
}

func clipS(s string) string {
	if len(s) > 160 {
		return s[:160] + "…"
	}
	return s
}

func aliasChainCaseBig(rn *runner, cr *rng, steps int, note string) {
	op := fmt.Sprintf("chain %d %d big", cr.u64(), steps)
	out := runAliasChain(op)
	rn.rep.Evaluations++
	rn.rep.Distribution["chain/big"]++
	rn.seen["chain/big"] = true
	if !strings.HasPrefix(out, "ok ") {
		rn.disagree(disagreement{Kind: "spec", Ops: []string{op}, At: 0, Impl: out, Other: "ok <every live document reads as it did when it was made>", Note: note})
	}
}

func aliasChainCase(rn *runner, cr *rng, steps int, note string) {
	op := fmt.Sprintf("chain %d %d", cr.u64(), steps)
	out := runAliasChain(op)
	rn.rep.Evaluations++
	cls := "chain/" + strconv.Itoa(steps/4)
	rn.rep.Distribution[cls]++
	rn.seen[cls] = true
	if !strings.HasPrefix(out, "ok ") {
		rn.disagree(disagreement{Kind: "spec", Ops: []string{op}, At: 0, Impl: out, Other: "ok <every live document reads as it did when it was made>", Note: note})
	}
}

// Handle chains (C05, C15): one ParsedJson handle kept BY VALUE (`h := *pj; Parse(b, &h)`: the private parser state
// survives a failed call, which the usual `pj, err = Parse(b, pj)` loop loses) fed a sequence of accepted and rejected
// documents — among them rejected ones that pass stage 1, need several index buffers although they stay on the
// synchronous path (≤ 8 KiB, > 1408 structurals) and fail early in stage 2, or end while containers are still open.
// Every call must return (no panic, no hang), and every accepted document must read as a fresh parse of it reads.
// Self-describing op `handle <seed> <steps>`.
func runHandleChain(op string) string {
	ws := strings.Fields(op)
	if len(ws) != 3 {
		return "bad-op"
	}
	seed, _ := strconv.ParseUint(ws[1], 10, 64)
	steps, _ := strconv.Atoi(ws[2])
	cr := &rng{s: seed}
	var h simdjson.ParsedJson
	have := false
	var log []string
	for s := 0; s < steps; s++ {
		var text, kind string
		n := 1450 + cr.intn(900)
		switch cr.intn(9) {
		case 8: // above the asynchronous threshold and ending while containers are open: the terminator reaches stage 2 in
			// every state of the machine (after a closer inside an object, after a closer inside an array, after a value,
			// after a comma, after a key, after a colon)
			body := strings.Repeat("{\"k\":[1,2,3]},", 700+cr.intn(300))
			tails := []string{"{\"n\":1,\"rows\":[" + body + "1]", "[" + body + "{\"a\":{\"b\":[1]}", "[" + body + "[1,2]", "[" + body + "1",
				"[" + body + "1,", "{\"rows\":[" + body + "1],\"k\"", "{\"rows\":[" + body + "1],\"k\":", "{\"rows\":[" + body + "1],\"k\":{\"x\":[]}"}
			text, kind = tails[cr.intn(len(tails))], "async-open-at-end"
		case 0: // dense, rejected early in stage 2, several index buffers, synchronous path
			text, kind = "[}"+strings.Repeat(",1", n)+"]", "dense-bad-early"
		case 1: // dense, rejected late
			text, kind = "["+strings.Repeat("1,", n)+"}]", "dense-bad-late"
		case 2: // ends while containers are open (the index stream runs out)
			text, kind = strings.Repeat("[", 1+cr.intn(6))+"1"+strings.Repeat("]", cr.intn(3)), "open-at-end"
			if cr.chance(1, 2) {
				text = "{\"a\":{\"b\":1}"
			}
		case 3: // dense and accepted
			text, kind = "["+strings.Repeat("1,", n)+"1]", "dense-ok"
		case 4: // above the asynchronous threshold, rejected in stage 2 only (late, or early with stage 1 still running)
			text, kind = "["+strings.Repeat("{\"k\":[1,2,3]},", 700+cr.intn(300))+"}]", "async-bad"
			if cr.chance(1, 2) {
				text, kind = "[{\"k\" 1},"+strings.Repeat("{\"k\":[1,2,3]},", 700+cr.intn(300))+"1]", "async-bad-early"
			}
		case 5: // above the asynchronous threshold, accepted (the two stages run concurrently again on the same handle)
			text, kind = "["+strings.Repeat("{\"k\":[1,2,3]},", 700+cr.intn(300))+"1]", "async-ok"
		default:
			cfg := defaultCfg(cr)
			cfg.maxDepth, cfg.maxMembers = 1+cr.intn(3), 2+cr.intn(6)
			text, kind = cr.doc(cfg), "doc"
		}
		var reuse *simdjson.ParsedJson
		if have {
			reuse = &h
		}
		type res struct {
			pj  *simdjson.ParsedJson
			err error
			pan interface{}
		}
		ch := make(chan res, 1)
		in := []byte(text)
		go func() {
			defer func() {
				if r := recover(); r != nil {
					ch <- res{pan: r}
				}
			}()
			pj, err := simdjson.Parse(in, reuse)
			ch <- res{pj: pj, err: err}
		}()
		var r res
		select {
		case r = <-ch:
		case <-time.After(30 * time.Second):
			return fmt.Sprintf("step %d (%s, %d bytes): Parse did not return within 30 s; history: %s", s, kind, len(text), strings.Join(log, " "))
		}
		if r.pan != nil {
			return fmt.Sprintf("step %d (%s, %d bytes): Parse panicked: %v; history: %s", s, kind, len(text), r.pan, strings.Join(log, " "))
		}
		fresh, ferr := simdjson.Parse([]byte(text), nil)
		if (r.err == nil) != (ferr == nil) {
			return fmt.Sprintf("step %d (%s, %d bytes): with the reused handle err=%v, with a fresh one err=%v; history: %s", s, kind, len(text), r.err, ferr, strings.Join(log, " "))
		}
		if r.err == nil {
			if got, want := chainText(r.pj), chainText(fresh); got != want {
				return fmt.Sprintf("step %d (%s): the reused handle reads %q, a fresh parse reads %q; history: %s", s, kind, clipS(got), clipS(want), strings.Join(log, " "))
			}
			h = *r.pj
			have = true
			log = append(log, kind+":ok")
		} else {
			log = append(log, kind+":err")
			// the handle keeps whatever the failed call left in it
		}
	}
	return "ok " + strconv.Itoa(len(log))
}

// after three failing chains of a run the rest are skipped: a library that hangs costs 30 s per chain
var handleChainFailures int

func handleChainCase(rn *runner, cr *rng, steps int, note string) {
	if handleChainFailures >= 3 {
		cr.u64()
		return
	}
	op := fmt.Sprintf("handle %d %d", cr.u64(), steps)
	out := runHandleChain(op)
	rn.rep.Evaluations++
	rn.rep.Distribution["handle-chain"]++
	rn.seen["handle-chain"] = true
	if !strings.HasPrefix(out, "ok ") {
		handleChainFailures++
		rn.disagree(disagreement{Kind: "spec", Ops: []string{op}, At: 0, Impl: out, Other: "ok <every call returns; accepted documents read as a fresh parse>", Note: note})
	}
}
