package main

import (
	"fmt"
	"runtime"
	"strings"
	"sync"
	"syscall"
	"time"

	simdjson "github.com/minio/simdjson-go"
)

func init() {
	suites["crash"] = suiteCrash
	suites["reuse"] = suiteReuse
	suites["alias"] = suiteAlias
	suites["conc"] = suiteConc
}

// guarded returns a copy of b that ends flush against a PROT_NONE page: reading past the input faults.
func guarded(b []byte) ([]byte, func()) {
	ps := syscall.Getpagesize()
	n := (len(b) + ps - 1) / ps * ps
	if n == 0 {
		n = ps
	}
	m, err := syscall.Mmap(-1, 0, n+ps, syscall.PROT_READ|syscall.PROT_WRITE, syscall.MAP_ANON|syscall.MAP_PRIVATE)
	if err != nil {
		return append([]byte(nil), b...), func() {}
	}
	if err := syscall.Mprotect(m[n:], syscall.PROT_NONE); err != nil {
		syscall.Munmap(m)
		return append([]byte(nil), b...), func() {}
	}
	dst := m[n-len(b) : n]
	copy(dst, b)
	return dst, func() { syscall.Munmap(m) }
}

// walkAll exercises every traversal, lookup and marshalling API on a result; returns "panic"/"hang" info.
func walkAll(pj *simdjson.ParsedJson) (out string) {
	defer func() {
		if r := recover(); r != nil {
			out = fmt.Sprint("panic: ", r)
		}
	}()
	if _, err := owalk(pj); err != nil {
		return "owalk error: " + err.Error()
	}
	it := pj.Iter()
	if _, err := it.Interface(); err != nil {
		return "interface error: " + err.Error()
	}
	it = pj.Iter()
	if _, err := it.MarshalJSON(); err != nil {
		return "marshal error: " + err.Error()
	}
	it = pj.Iter()
	for it.AdvanceInto() != simdjson.TagEnd {
		it.PeekNext()
		it.PeekNextTag()
	}
	it = pj.Iter()
	for it.Advance() != simdjson.TypeNone {
	}
	it = pj.Iter()
	it.FindElement(nil, "a", "b")
	err := pj.ForEach(func(i simdjson.Iter) error {
		switch i.Type() {
		case simdjson.TypeObject:
			o, err := i.Object(nil)
			if err != nil {
				return err
			}
			o.FindKey("a", nil)
			o.FindPath(nil, "a", "b")
			o.ForEach(func(k []byte, v simdjson.Iter) {}, nil)
			oc := *o
			if _, err := oc.Parse(nil); err != nil {
				return err
			}
		case simdjson.TypeArray:
			a, err := i.Array(nil)
			if err != nil {
				return err
			}
			a.ForEach(func(v simdjson.Iter) {})
			a.FirstType()
			ac := *a
			ac.AsFloat()
			ac = *a
			ac.AsString()
			ac = *a
			ac.AsStringCvt()
			if _, err := a.MarshalJSON(); err != nil {
				return err
			}
		}
		return nil
	})
	if err != nil {
		return "foreach error: " + err.Error()
	}
	s := simdjson.NewSerializer()
	b := s.Serialize(nil, *pj)
	if _, err := s.Deserialize(b, nil); err != nil {
		return "serialize round trip error: " + err.Error()
	}
	return "ok"
}

// C05: robustness — outcome class only, with guard pages, watchdog and goroutine accounting
func suiteCrash(rn *runner, r *rng, tier string) {
	n := 2500
	if tier == "thorough" {
		n = 120000
	}
	// handle chains (suite_chain.go): one handle kept by value across rejected and accepted documents
	nh := 150
	if tier == "thorough" {
		nh = 4000
	}
	for i := 0; i < nh; i++ {
		handleChainCase(rn, r.fork(), 3+r.intn(8), "crash")
	}
	var reuse *simdjson.ParsedJson
	baseG := runtime.NumGoroutine()
	var slowest time.Duration
	slowestKind := ""
	defer func() {
		rn.rep.Notes = append(rn.rep.Notes, fmt.Sprintf("slowest case: %.1fs (%s)", slowest.Seconds(), slowestKind))
	}()
	for i := 0; i < n; i++ {
		cr := r.fork()
		cfg := defaultCfg(cr)
		var text, kind string
		switch cr.intn(12) {
		case 0:
			text, kind = cr.raw(), "raw"
		case 1, 2:
			text, kind = cr.mutate(cr.layout(cr.doc(cfg))), "mut"
		case 3:
			d := cr.doc(cfg)
			text, kind = d[:cr.intn(len(d)+1)], "trunc"
		case 4: // adversarial nesting
			depth := 1 + cr.intn(3000)
			if cr.chance(1, 10) {
				// the walk of such a document costs time quadratic in the depth (tens of seconds at 40 000): the quick tier
				// stays at a depth where a slow machine is still far from the watchdog, the thorough tier goes to 50 000 on
				// a few dozen cases
				depth = 8000 + cr.intn(10000)
				if tier == "thorough" && cr.chance(1, 30) {
					depth = 20000 + cr.intn(30000)
				}
			}
			open, close := "[", "]"
			if cr.chance(1, 2) {
				open, close = "{\"a\":", "}"
			}
			text = strings.Repeat(open, depth) + "1" + strings.Repeat(close, depth)
			if cr.chance(1, 3) {
				text = text[:len(text)-cr.intn(depth+1)]
			}
			kind = "deep"
		case 5: // dense structurals sized around buffer boundaries
			sizes := []int{63, 64, 65, 127, 128, 129, 511, 512, 513, 1407, 1408, 1409, 2815, 2816, 2817, 8191, 8192, 8193, 16384, 22528, 22529, 45056, 100000}
			sz := sizes[cr.intn(len(sizes))] + cr.intn(3) - 1
			c := "[]{},:\""[cr.intn(7)]
			text, kind = strings.Repeat(string(c), sz), "dense"
			if cr.chance(1, 2) {
				text = "[" + strings.Repeat("[],", sz/3) + "[]]"
				kind = "dense-valid"
			}
		case 6: // valid documents at the sync/async threshold
			text, kind = cr.layout(cr.doc(cfg)), "layout"
		case 7: // long strings / unterminated strings at the end
			text, kind = "[\""+strings.Repeat("a", cr.intn(9000))+strings.Repeat("\\", cr.intn(3)), "openstr"
		case 8:
			t, _ := cr.ndjson(cfg, 1+cr.intn(40), true)
			text, kind = t, "nd"
		default:
			text, kind = cr.doc(cfg), "doc"
		}
		nd := cr.chance(1, 3)
		caseStart := time.Now()
		in, free := guarded([]byte(text))
		type res struct {
			pj  *simdjson.ParsedJson
			err error
			pan string
		}
		ch := make(chan res, 1)
		useReuse := cr.chance(1, 2)
		go func() {
			var rs res
			defer func() {
				if p := recover(); p != nil {
					rs.pan = fmt.Sprint(p)
				}
				ch <- rs
			}()
			var ru *simdjson.ParsedJson
			if useReuse {
				ru = reuse
			}
			opt := simdjson.WithCopyStrings(cr.chance(1, 2))
			if nd {
				rs.pj, rs.err = simdjson.ParseND(in, ru, opt)
			} else {
				rs.pj, rs.err = simdjson.Parse(in, ru, opt)
			}
		}()
		outcome := ""
		var rs res
		select {
		case rs = <-ch:
		case <-time.After(120 * time.Second):
			outcome = "hang"
		}
		ndS := "0"
		if nd {
			ndS = "1"
		}
		op := fmt.Sprintf("parse p %s 1 %s", ndS, hx([]byte(text)))
		switch {
		case outcome == "hang":
			rn.disagree(disagreement{Kind: "spec", Ops: []string{op}, At: 0, Impl: "hang", Other: "<returns>", Note: kind})
		case rs.pan != "":
			outcome = "panic"
			rn.disagree(disagreement{Kind: "spec", Ops: []string{op}, At: 0, Impl: "panic: " + rs.pan, Other: "<error or result>", Note: kind})
		case rs.err != nil:
			outcome = "err"
			if useReuse {
				reuse = nil // the object passed as reuse is in an unspecified state after a failure; a fresh one is used next
			}
		default:
			outcome = "ok"
			wch := make(chan string, 1)
			go func() { wch <- walkAll(rs.pj) }()
			select {
			case w := <-wch:
				if w != "ok" {
					rn.disagree(disagreement{Kind: "spec", Ops: []string{op, "owalk p"}, At: 1, Impl: w, Other: "<every traversal terminates without panic or error>", Note: kind})
				}
			case <-time.After(600 * time.Second):
				rn.disagree(disagreement{Kind: "spec", Ops: []string{op, "owalk p"}, At: 1, Impl: "hang", Other: "<terminates>", Note: kind})
			}
			reuse = rs.pj
		}
		free()
		if d := time.Since(caseStart); d > slowest {
			slowest, slowestKind = d, fmt.Sprintf("%s len=%d outcome=%s", kind, len(text), outcome)
		}
		rn.rep.Evaluations++
		cls := fmt.Sprintf("%s/%s/nd=%v/%s", kind, outcome, nd, sizeClass(len(text)))
		rn.rep.Distribution[cls]++
		rn.seen[cls] = true
		if len(rn.rep.Samples) < 4 {
			rn.rep.Samples = append(rn.rep.Samples, map[string]interface{}{"kind": kind, "len": len(text), "outcome": outcome})
		}
		if outcome == "hang" {
			break
		}
	}
	time.Sleep(200 * time.Millisecond)
	if g := runtime.NumGoroutine(); g > baseG+4 {
		rn.disagree(disagreement{Kind: "spec", Ops: []string{"goroutines"}, At: 0, Impl: fmt.Sprint(g), Other: fmt.Sprint("<= ", baseG+4), Note: "goroutines left behind by Parse/ParseND"})
	}
	rn.rep.Rule = "random bytes, mutants, truncations, nesting to 50 000, dense structurals sized around 64/512/1408/8 KiB boundaries, unterminated strings, NDJSON; inputs flush against a PROT_NONE page; 120 s watchdog on the parse, 600 s on the walks (the slowest case takes seconds; the time is recorded in the notes); every result walked through every API and serialized; goroutine count checked; distinct = (generator, outcome, nd, size class)"
}

// C15: histories on one reused object; every call must behave like a call without reuse (the model has no reuse)
func suiteReuse(rn *runner, r *rng, tier string) {
	stragglerCases(rn, r, tier, "reuse")
	{
		nh := 150
		if tier == "thorough" {
			nh = 4000
		}
		for i := 0; i < nh; i++ {
			handleChainCase(rn, r.fork(), 3+r.intn(8), "reuse")
		}
	}
	n := 500
	if tier == "thorough" {
		n = 12000
	}
	for i := 0; i < n; i++ {
		cr := r.fork()
		calls := 3 + cr.intn(8)
		tc := &testCase{note: "reuse"}
		var texts []string
		var hist []string
		if cr.chance(1, 2) { // caller-owned destination objects survive from one document to the next
			tc.ops = append(tc.ops, "mode scratch")
			hist = append(hist, "S")
		}
		for k := 0; k < calls; k++ {
			cfg := defaultCfg(cr)
			var text string
			switch cr.intn(8) {
			case 0:
				text = cr.mutate(cr.doc(cfg)) // may fail at stage 1 or stage 2
				hist = append(hist, "m")
			case 1:
				d := cr.doc(cfg)
				text = d[:cr.intn(len(d)+1)]
				hist = append(hist, "t")
			case 2: // above the concurrent-path threshold
				text = "[" + strings.Repeat(" ", 8200+cr.intn(300)) + cr.doc(cfg) + "]"
				hist = append(hist, "L")
			case 3: // large and failing late (stage 2) / early (stage 1)
				text = "[" + strings.Repeat("1,", 5000) + cr.pick([]string{"01]", "\"\x01\"]", "1}", "1"})
				hist = append(hist, "F")
			case 4: // below 8 KiB but several index buffers; stage 2 fails in the first, the last, or not at all
				k1 := 800 + cr.intn(2400)
				text = "[" + cr.pick([]string{"x,", "1,", "1,", "{}}", ""}) + strings.Repeat("1,", k1) + cr.pick([]string{"1]", "01]", "1}", "1]"})
				hist = append(hist, "D")
			default:
				text = cr.doc(cfg)
				hist = append(hist, "d")
			}
			nd := "0"
			if cr.chance(1, 3) {
				nd = "1"
			}
			cp := "0"
			if cr.chance(1, 2) {
				cp = "1"
			}
			texts = append(texts, text)
			pn := fmt.Sprintf("p%d", k)
			tc.ops = append(tc.ops, fmt.Sprintf("parse %s %s %s %s", pn, nd, cp, hx([]byte(text))), "tapehash "+pn)
			if cr.chance(2, 3) {
				tc.ops = append(tc.ops, "owalk "+pn)
			}
			if cr.chance(1, 4) { // intervening in-place edit
				e := fmt.Sprintf("e%d", k)
				tc.ops = append(tc.ops, "iter "+e+" "+pn, "advinto "+e, "advinto "+e, "advinto "+e, "setnull "+e)
			}
		}
		// run on the implementation with reuse of whatever the previous successful call returned
		st := newStore()
		tc.impl = make([]string, len(tc.ops))
		defaults := make([]bool, len(tc.ops))
		dr := cr.fork()
		for k := range defaults {
			defaults[k] = dr.chance(1, 2)
		}
		var prev *simdjson.ParsedJson
		// by value: the caller keeps a copy of the ParsedJson struct and passes its address; unlike the returned
		// pointer it still refers to the internal parser state after a failed call, so failures are part of the history
		byval := dr.chance(1, 2)
		// the caller reads every message into one buffer: successive inputs share their address (each result is read
		// right after its parse, before the buffer is written again)
		inplace := dr.chance(1, 3)
		for k, op := range tc.ops {
			if strings.HasPrefix(op, "parse ") {
				nextParse.reuse = prev
				nextParse.defaultOpts = defaults[k]
				nextParse.inplace = inplace
			}
			tc.impl[k] = st.execTimed(op, 30*time.Second)
			if strings.HasPrefix(op, "parse ") && strings.HasPrefix(tc.impl[k], "ok") {
				pj := st.pjs[strings.Fields(op)[1]]
				if byval {
					if prev == nil || dr.chance(1, 3) {
						h := *pj
						prev = &h
					}
				} else {
					prev = pj
				}
			}
		}
		// property oracle: the same calls on fresh objects (no reuse argument, fresh destinations) — C15 demands the
		// same outcome and the same document for every history
		fresh := newStore()
		tc.expect = map[int]string{}
		for k, op := range tc.ops {
			if op == "mode scratch" {
				tc.expect[k] = "ok"
				continue
			}
			if strings.HasPrefix(op, "parse ") {
				nextParse.reuse = nil
				nextParse.defaultOpts = defaults[k]
			}
			tc.expect[k] = fresh.execTimed(op, 30*time.Second)
		}
		rn.addPrepared(tc)
		cls := "hist=" + strings.Join(hist, "")
		if len(cls) > 12 {
			cls = cls[:12]
		}
		rn.rep.Distribution[cls]++
		rn.seen[cls] = true
	}
	rn.rep.Rule = "3-10 Parse/ParseND calls on one reused ParsedJson (valid, failing at stage 1 or 2, below/above 8 KiB, copy/no-copy, with intervening edits); each reply must equal the reply of the same call on fresh objects (property oracle) and the model's, which has no reuse state; in half of the cases caller-owned destination objects are reused as well; distinct = history shape"
}

// C16: copied strings decouple results from the input; Clone is independent
func suiteAlias(rn *runner, r *rng, tier string) {
	// values delivered by ParseNDStream: several chunks, every value held until the stream has ended and the reader's
	// bytes have been overwritten, then read
	bigStreamCase(rn, r.fork(), "holdall", 4, 2, 0, "alias")
	bigStreamCase(rn, r.fork(), "holdall", 3, 1, 1<<20, "alias")
	if tier == "thorough" {
		for k := 0; k < 6; k++ {
			bigStreamCase(rn, r.fork(), "holdall", 3+k, 1+k%4, []int{0, 1 << 20, 3 << 20}[k%3], "alias")
		}
	}
	// ownership chains: Parse / Deserialize / Clone with recycled destinations and in-place edits; every document that
	// was not handed in as a destination must still read as it did
	nc := 2000
	if tier == "thorough" {
		nc = 20000
	}
	for i := 0; i < nc; i++ {
		aliasChainCase(rn, r.fork(), 4+r.intn(12), "alias")
	}
	// … and with documents holding more than 1 MiB of copied strings (what a copy shares may depend on its size)
	nb := 16
	if tier == "thorough" {
		nb = 300
	}
	for i := 0; i < nb; i++ {
		aliasChainCaseBig(rn, r.fork(), 4+r.intn(6), "alias")
	}
	n := 800
	if tier == "thorough" {
		n = 20000
	}
	for i := 0; i < n; i++ {
		cr := r.fork()
		cfg := defaultCfg(cr)
		nd := cr.chance(1, 3)
		var text string
		if nd {
			text, _ = cr.ndjson(cfg, 1+cr.intn(4), false)
		} else {
			text = cr.doc(cfg)
		}
		ndS := "0"
		if nd {
			ndS = "1"
		}
		h := hx([]byte(text))
		c := &opsCase{r: cr, tc: &testCase{note: "alias"}, st: newStore(), nd: nd}
		if cr.chance(1, 3) {
			c.emit("mode scratch")
		}
		// copy mode: scribbling over the input changes nothing — also when the object is a reused one that last
		// parsed without copying, and when copying is requested by default (no option) rather than explicitly
		useReuse := cr.chance(1, 2)
		if useReuse {
			c.emit("parse r0 0 0 " + hx([]byte("{\"reused\":\"no-copy\"}")))
		}
		nextParse.defaultOpts = cr.chance(1, 2)
		if useReuse {
			nextParse.reuse = c.st.pjs["r0"]
		}
		if out := c.emit(fmt.Sprintf("parse p %s 1 %s", ndS, h)); !strings.HasPrefix(out, "ok") {
			continue
		}

		c.pj = c.st.pjs["p"]
		before := c.emit("owalk p")
		c.emit("iter m0 p")
		mb := c.emit("marshal m0")
		c.emit("scribble p")
		c.emit("owalk p")
		c.expectLast(before)
		c.emit("iter m1 p")
		c.emit("marshal m1")
		c.expectLast(mb)
		c.emit("serde s p")
		c.emit("owalk s")
		c.expectLast(before)
		// no-copy mode exposes the identical document while the input is intact
		c.emit(fmt.Sprintf("parse n %s 0 %s", ndS, h))
		c.emit("owalk n")
		c.expectLast(before)
		// clone independence: edit the original, the clone keeps the old document and vice versa
		// destination: nil, an empty object, a used object with a large or a small string buffer
		cloneKind := cr.intn(4)
		switch cloneKind {
		case 2:
			c.emit("parse cd 0 1 " + hx([]byte("[\""+strings.Repeat("destination buffer ", 40)+"\"]")))
		case 3:
			c.emit("parse cd 0 1 " + hx([]byte("[\"d\"]")))
		}
		c.emit(fmt.Sprintf("clone c n %d", cloneKind))
		c.pj = c.st.pjs["n"]
		roots, err := refDecode(c.pj)
		if err == nil {
			for e := 0; e < 1+cr.intn(3); e++ {
				c.oneEditOn(roots, "n")
			}
			c.emit("owalk n")
			c.expectLast(ordRoots(roots))
			c.emit("owalk c")
			c.expectLast(before)
			// now edit the clone
			c.pj = c.st.pjs["c"]
			if croots, err := refDecode(c.pj); err == nil {
				c.oneEditOn(croots, "c")
				c.emit("owalk c")
				c.expectLast(ordRoots(croots))
				c.emit("owalk n")
				c.expectLast(ordRoots(roots))
				// both sides grow their string buffers in turn: neither may write into the other's
				if c.setStrOn(croots, "c", "written to the clone") {
					c.pj = c.st.pjs["n"]
					if c.setStrOn(roots, "n", "WRITTEN TO THE ORIGINAL, LONGER") {
						c.pj = c.st.pjs["c"]
						c.setStrOn(croots, "c", "clone again")
					}
					c.emit("owalk c")
					c.expectLast(ordRoots(croots))
					c.emit("owalk n")
					c.expectLast(ordRoots(roots))
					c.emit("iter mc c")
					c.emit("marshal mc")
					c.emit("iter mn n")
					c.emit("marshal mn")
				}
			}
		}
		if err == nil && cr.chance(1, 2) {
			// the clone handed to another Parse as its reuse argument: the original must not notice
			nextParse.reuse = c.st.pjs["c"]
			c.emit("parse z 0 1 " + hx([]byte("{\"other\":[\"document\",1,2.5,{\"k\":null}]}")))
			c.emit("owalk n")
			c.expectLast(ordRoots(roots))
		}
		c.tc.class = fmt.Sprintf("nd=%v/reuse=%v/clone=%d/%s", nd, useReuse, cloneKind, sizeClass(len(text)))
		rn.addPrepared(c.tc)
	}
	rn.rep.Rule = "parse with copying, overwrite the whole input with 0xFF, re-read through every API; parse without copying, compare documents; Clone into nil / an empty object / a used object with a larger or smaller string buffer, edit original and clone alternately incl. SetString on both sides in turn; distinct = (nd, reuse, clone destination, size class)"
}

// streamValues runs ParseNDStream over text and returns the delivered values (not yet read).
func streamValues(text string) []*simdjson.ParsedJson {
	res := make(chan simdjson.Stream, 4)
	simdjson.ParseNDStream(strings.NewReader(text), res, nil)
	var out []*simdjson.ParsedJson
	for s := range res {
		if s.Error == nil && s.Value != nil {
			out = append(out, s.Value)
		}
	}
	return out
}

var streamCount = map[string]int{}
var streamCountMu sync.Mutex

// streamValues0 reports how many values a stream of this text delivers (cached, sequential semantics).
func streamValues0(text string) []struct{} {
	streamCountMu.Lock()
	n, ok := streamCount[text]
	streamCountMu.Unlock()
	if !ok {
		n = len(streamValues(text))
		streamCountMu.Lock()
		streamCount[text] = n
		streamCountMu.Unlock()
	}
	return make([]struct{}, n)
}

// streamOnce: the ordered rendering of everything a stream delivers, read immediately (sequential reference).
func streamOnce(text string) string {
	var sb strings.Builder
	vals := streamValues(text)
	streamCountMu.Lock()
	streamCount[text] = len(vals)
	streamCountMu.Unlock()
	for _, v := range vals {
		s, err := owalk(v)
		if err != nil {
			s = "walk-error:" + err.Error()
		}
		sb.WriteString(s)
	}
	return sb.String()
}

// C20: independent objects from concurrent goroutines; results must equal the sequential ones
func suiteConc(rn *runner, r *rng, tier string) {
	stragglerCases(rn, r, tier, "conc")
	rounds, perG := 6, 40
	if tier == "thorough" {
		rounds, perG = 40, 150
	}
	for round := 0; round < rounds; round++ {
		// a caller somewhere in the process hit a fault and recovered: Serialize of a tape with an unknown tag panics (as
		// documented by its `panic(fmt.Errorf("unknown tag"…))`), Deserialize of a block that decodes to more bytes than
		// announced returns an error. Whatever those paths do with the pooled compressors must not reach anybody else.
		if round%2 == 1 {
			if pj, err := simdjson.Parse([]byte(`{"k":[1,2.5,"s",null,true],"m":{"a":"b"}}`), nil); err == nil {
				for _, mode := range []simdjson.CompressMode{simdjson.CompressFast, simdjson.CompressDefault, simdjson.CompressBest, simdjson.CompressNone} {
					bad := pj.Clone(nil)
					if len(bad.Tape) > 4 {
						bad.Tape[3+r.intn(len(bad.Tape)-4)] = uint64(0x01)<<56 | 7
					}
					func() {
						defer func() { recover() }()
						sp := simdjson.NewSerializer()
						sp.CompressMode(mode)
						sp.Serialize(nil, *bad)
					}()
					// and a stream whose message block is announced one byte short
					sg := simdjson.NewSerializer()
					sg.CompressMode(mode)
					blob := sg.Serialize(nil, *pj)
					func() {
						defer func() { recover() }()
						mut := append([]byte(nil), blob...)
						if fs := varintFields(mut); len(fs) > 4 && mut[fs[4]] > 1 && mut[fs[4]] < 0x80 {
							mut[fs[4]]-- // the declared message size
							simdjson.NewSerializer().Deserialize(mut, nil)
						}
					}()
				}
			}
		}
		nG := []int{4, 8, 16, 32, 64}[r.intn(5)]
		type job struct {
			ops  []string
			seq  []string
			par  []string
			same [][2]int // pairs of op indexes whose replies must be equal (the same object read before and after)
		}
		jobs := make([]*job, nG)
		for g := range jobs {
			cr := r.fork()
			j := &job{}
			for k := 0; k < perG; k++ {
				cfg := defaultCfg(cr)
				text := cr.doc(cfg)
				if cr.chance(1, 6) {
					text = "[" + strings.Repeat(" ", 8200) + text + "]"
				}
				nd := "0"
				if cr.chance(1, 4) {
					nd = "1"
				}
				j.ops = append(j.ops, fmt.Sprintf("parse p %s %d %s", nd, cr.intn(2), hx([]byte(text))), "owalk p", "iter i p", "marshal i", "clone c p",
					"iter e c", "advinto e", "advinto e", "advinto e", "setnull e", "owalk c", "owalk p", "serde s p", "owalk s")
				// a clone handed to another Parse as its reuse argument: an independent object, the original must not notice
				if cr.chance(1, 3) {
					other := cr.doc(cfg)
					j.ops = append(j.ops, "clone k p", fmt.Sprintf("parsereuse q k 0 %d %s", cr.intn(2), hx([]byte(other))), "owalk p", "owalk q")
					j.same = append(j.same, [2]int{len(j.ops) - 2, len(j.ops) - 7})
				}
			}
			jobs[g] = j
		}
		// streams: every goroutine runs ParseNDStream on its own small documents and keeps each result while
		// the next stream (its own and everybody else's) is parsed
		streamDocs := make([][]string, nG)
		for g := range streamDocs {
			cr := r.fork()
			for k := 0; k < 6; k++ {
				cfg := defaultCfg(cr)
				cfg.maxDepth, cfg.maxMembers = 2, 4
				t, _ := cr.ndjson(cfg, 2+cr.intn(3), false)
				streamDocs[g] = append(streamDocs[g], t)
			}
		}
		streamWant := make([][]string, nG)
		for g := range streamDocs {
			for _, t := range streamDocs[g] {
				streamWant[g] = append(streamWant[g], streamOnce(t))
			}
		}
		var swg sync.WaitGroup
		streamGot := make([][]string, nG)
		for g := range streamDocs {
			swg.Add(1)
			go func(g int) {
				defer swg.Done()
				var held []*simdjson.ParsedJson
				for _, t := range streamDocs[g] {
					held = append(held, streamValues(t)...)
				}
				// read everything only now, after all streams of this goroutine have been parsed
				var outs []string
				idx := 0
				for _, t := range streamDocs[g] {
					n := len(streamValues0(t))
					var sb strings.Builder
					for k := 0; k < n && idx < len(held); k++ {
						s, err := owalk(held[idx])
						if err != nil {
							s = "walk-error:" + err.Error()
						}
						sb.WriteString(s)
						idx++
					}
					outs = append(outs, sb.String())
				}
				streamGot[g] = outs
			}(g)
		}
		swg.Wait()
		for g := range streamDocs {
			rn.rep.Evaluations++
			for k := range streamWant[g] {
				if k >= len(streamGot[g]) || streamGot[g][k] != streamWant[g][k] {
					got := "<missing>"
					if k < len(streamGot[g]) {
						got = streamGot[g][k]
					}
					rn.disagree(disagreement{Kind: "spec", Ops: []string{"stream " + hx([]byte(streamDocs[g][k]))}, At: 0, Impl: clip([]string{got}, 1)[0],
						Other: clip([]string{streamWant[g][k]}, 1)[0], Note: fmt.Sprintf("ParseNDStream result held by goroutine %d changed or differs from the sequential result (N=%d)", g, nG)})
					break
				}
			}
		}
		// sequential reference
		for _, j := range jobs {
			st := newStore()
			for _, op := range j.ops {
				nextSerde = serdeOpts{m1: simdjson.CompressDefault, m2: simdjson.CompressDefault}
				j.seq = append(j.seq, st.exec(op))
			}
			for _, pr := range j.same {
				if j.seq[pr[0]] != j.seq[pr[1]] {
					rn.disagree(disagreement{Kind: "spec", Ops: j.ops[:pr[0]+1], At: pr[0], Impl: clip([]string{j.seq[pr[0]]}, 1)[0], Other: clip([]string{j.seq[pr[1]]}, 1)[0],
						Note: "an object changed when its clone was used as the reuse argument of another Parse"})
					break
				}
			}
		}
		// concurrent run (serde options are process-global in the harness: default modes only)
		var wg sync.WaitGroup
		for _, j := range jobs {
			wg.Add(1)
			go func(j *job) {
				defer wg.Done()
				st := newStore()
				for _, op := range j.ops {
					j.par = append(j.par, st.execConc(op))
				}
			}(j)
		}
		wg.Wait()
		for _, j := range jobs {
			rn.rep.Evaluations++
			for k := range j.ops {
				if j.seq[k] != j.par[k] {
					rn.disagree(disagreement{Kind: "spec", Ops: j.ops[:k+1], At: k, Impl: j.par[k], Other: j.seq[k], Note: fmt.Sprintf("goroutine result differs from sequential result (N=%d)", nG)})
					break
				}
			}
		}
		cls := fmt.Sprintf("N=%d", nG)
		rn.rep.Distribution[cls]++
		rn.seen[cls] = true
		rn.seen[fmt.Sprintf("round=%d", round)] = true
		if len(rn.rep.Samples) < 2 {
			rn.rep.Samples = append(rn.rep.Samples, map[string]interface{}{"goroutines": nG, "ops_per_goroutine": len(jobs[0].ops), "first_ops": clip(jobs[0].ops, 4)})
		}
	}
	rn.rep.Rule = "N in {4..64} goroutines each running parse/read/marshal/clone+edit/serialize round trips on their own objects (documents on both sides of 8 KiB); results compared with a sequential run of the same ops; the thorough tier runs this binary built with -race; distinct = (N, round)"
}
