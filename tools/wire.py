#!/usr/bin/env python3
"""wire.py <ProofFile.lean> <theorem> <Cnn> <new theorem name> <opens> <docfile>
Copies the statement of a proved theorem into Properties/Cnn.lean under a new name, proved by applying the original."""
import sys,re
pf,thm,prop,new,opens,docfile=sys.argv[1:7]
src=open(pf).read()
m=re.search(r'^theorem '+re.escape(thm)+r'\b',src,re.M)
i=m.start()
# end of statement: first ':=' at depth 0 after the colon
j=i;depth=0;k=None
while j<len(src):
    c=src[j]
    if c in '([{⟨': depth+=1
    elif c in ')]}⟩': depth-=1
    elif src.startswith(':=',j) and depth==0:
        k=j;break
    j+=1
stmt=src[i+len('theorem '+thm):k].rstrip()
# binder names
hdr=stmt
names=[]
d=0;cur='';binders=[]
pos=0
# collect top-level (...) / {...} binder groups before the top-level ':' 
t=0;depth=0;start=None
while t<len(hdr):
    c=hdr[t]
    if c in '({' :
        if depth==0: start=t
        depth+=1
    elif c in ')}':
        depth-=1
        if depth==0: binders.append(hdr[start:t+1])
    elif c==':' and depth==0:
        break
    t+=1
args=[]
for b in binders:
    if b[0]=='{': continue
    inner=b[1:-1]
    ns=inner.split(':')[0].split()
    args+=ns
ns=re.search(r'^namespace (\S+)',src,re.M).group(1)
import os
target=os.environ.get('WIRE_TARGET','')   # 'Source' → SJ/Properties/CnnSource.lean (for theorems whose proofs import Properties/Cnn)
p=f'/verif/lean/SJ/Properties/{prop}{target}.lean'
if target and not os.path.exists(p):
    open(p,'w').write(f'''import SJ.Properties.{prop}
set_option linter.unusedVariables false
/-
{prop} — source level. The theorems of Properties/{prop}.lean composed with the source ties of DESIGN §6.3: each statement
below is about the MEANING OF THE REGENERATED GO SOURCE (`GoSem.runFun goFuns <tree> fuel ⟨store, tape⟩`), with no
function of the hand model in its conclusion. Proofs: SJ/Proofs/SourceLevelA.lean, SourceLevelB.lean.
-/
namespace SJ.Properties.{prop}

end SJ.Properties.{prop}
''')
s=open(p).read()
mod='SJ.Proofs.'+pf.split('/')[-1][:-5]
if 'import '+mod+'\n' not in s:
    lines=s.split('\n')
    idx=max(n for n,l in enumerate(lines) if l.startswith('import '))
    lines.insert(idx+1,'import '+mod)
    s='\n'.join(lines)
if 'theorem '+new+' ' in s or 'theorem '+new+'\n' in s:
    print('already wired');sys.exit(0)
if docfile=='-':
    # the doc comment in front of the theorem in the proof file
    pre=src[:i].rstrip()
    if pre.endswith('-/'):
        a=pre.rfind('/--')
        doc=pre[a+3:-2].strip()
        # drop an `open … in` line between comment and theorem if any
    else:
        # maybe `open X in` line precedes; look further back
        lines=pre.split('\n')
        while lines and lines[-1].startswith('open '): lines.pop()
        pre='\n'.join(lines).rstrip()
        a=pre.rfind('/--'); doc=pre[a+3:-2].strip() if pre.endswith('-/') else 'Source-level corollary.'
else:
    doc=open(docfile).read().strip()
end=f"\nend SJ.Properties.{prop}"
k=s.rfind(end)
add=f"\nopen {opens} in\n/-- {doc} -/\ntheorem {new}{stmt} :=\n  {ns}.{thm} {' '.join(args)}\n"
s=s[:k]+add+s[k:]
open(p,'w').write(s)
print('wired',new,'args:',' '.join(args))
