package main

// Pool discipline facts (C20): for every `<pool>.Get()` site, the sequence of things done to the object obtained, in
// source order along the control-flow branch of the Get — method calls on it, re-slicings, calls it is passed to,
// `append`, `return`, and the `Put`.  The Lean side (`SJ.Shared.disciplinedCalls`) decides whether a sequence obeys
// "reset before any use, nothing after Put"; a theorem requires it of every extracted sequence.

import (
	"fmt"
	"go/ast"
	"go/token"
	"path/filepath"
	"sort"
	"strings"
)

type poolEv struct {
	pos   token.Pos
	v     string // variable
	tok   string
	path  []string // enclosing branches: "<pos of if/switch>:<branch index>"
	isGet bool
	pool  string
}

func isPoolVar(p *pkgInfo, fd *ast.FuncDecl, name string) bool {
	if vs, ok := p.vars[name]; ok {
		if len(vs.Values) == 1 {
			if cl, ok := vs.Values[0].(*ast.CompositeLit); ok && src(cl.Type) == "sync.Pool" {
				return true
			}
		}
		if vs.Type != nil && src(vs.Type) == "sync.Pool" {
			return true
		}
	}
	// function-local pools: `x := sync.Pool{...}` or `var put *sync.Pool`
	found := false
	ast.Inspect(fd, func(n ast.Node) bool {
		switch s := n.(type) {
		case *ast.AssignStmt:
			if s.Tok == token.DEFINE && len(s.Lhs) == 1 && len(s.Rhs) == 1 {
				if id, ok := s.Lhs[0].(*ast.Ident); ok && id.Name == name {
					if cl, ok := s.Rhs[0].(*ast.CompositeLit); ok && src(cl.Type) == "sync.Pool" {
						found = true
					}
				}
			}
		case *ast.ValueSpec:
			for _, nm := range s.Names {
				if nm.Name == name && s.Type != nil && strings.Contains(src(s.Type), "sync.Pool") {
					found = true
				}
			}
		}
		return true
	})
	return found
}

// poolGet matches `<pool>.Get()` possibly wrapped in a type assertion and a re-slice; returns pool name and the
// extra tokens produced by the wrapping.
func poolGet(p *pkgInfo, fd *ast.FuncDecl, e ast.Expr) (string, []string, bool) {
	var extra []string
	for {
		switch x := e.(type) {
		case *ast.ParenExpr:
			e = x.X
			continue
		case *ast.TypeAssertExpr:
			e = x.X
			continue
		case *ast.SliceExpr:
			extra = append(extra, sliceTok(x, ""))
			e = x.X
			continue
		}
		break
	}
	call, ok := e.(*ast.CallExpr)
	if !ok {
		return "", nil, false
	}
	sel, ok := call.Fun.(*ast.SelectorExpr)
	if !ok || sel.Sel.Name != "Get" || len(call.Args) != 0 {
		return "", nil, false
	}
	id, ok := sel.X.(*ast.Ident)
	if !ok || !isPoolVar(p, fd, id.Name) {
		return "", nil, false
	}
	return id.Name, extra, true
}

// sliceTok: `x[:0]` is a re-slice to nothing; any other bound exposes old content (`slice[:n]`)
func sliceTok(x *ast.SliceExpr, _ string) string {
	if x.Low == nil && x.High != nil && !x.Slice3 {
		if lit, ok := x.High.(*ast.BasicLit); ok && lit.Value == "0" {
			return "slice[:0]"
		}
	}
	return "slice[:n]"
}

func genPools(p *pkgInfo, out string) {
	type seq struct {
		key  string
		toks []string
	}
	var seqs []seq
	var foreign []string
	var fnNames []string
	for n := range p.funcs {
		fnNames = append(fnNames, n)
	}
	sort.Strings(fnNames)
	for _, fn := range fnNames {
		fd := p.funcs[fn]
		if fd.Body == nil {
			continue
		}
		var evs []poolEv
		readCount := map[string]string{}
		var walk func(n ast.Node, path []string)
		addUse := func(pos token.Pos, v, tok string, path []string) {
			evs = append(evs, poolEv{pos: pos, v: v, tok: tok, path: append([]string{}, path...)})
		}
		walkList := func(list []ast.Stmt, path []string) {
			for _, s := range list {
				walk(s, path)
			}
		}
		// uses of identifiers inside an expression (as call arguments, receivers, …)
		var exprUses func(e ast.Expr, path []string)
		exprUses = func(e ast.Expr, path []string) {
			ast.Inspect(e, func(n ast.Node) bool {
				switch x := n.(type) {
				case *ast.FuncLit:
					walkList(x.Body.List, path)
					return false
				case *ast.CallExpr:
					if sel, ok := x.Fun.(*ast.SelectorExpr); ok {
						if id, ok := sel.X.(*ast.Ident); ok {
							if sel.Sel.Name == "Put" && isPoolVar(p, fd, id.Name) && len(x.Args) == 1 {
								if a, ok := x.Args[0].(*ast.Ident); ok {
									addUse(x.Pos(), a.Name, "Put", path)
								} else {
									foreign = append(foreign, fmt.Sprintf("%s:%s.Put(%s)", fn, id.Name, src(x.Args[0])))
								}
								return false
							}
							// method call on a variable
							addUse(x.Pos(), id.Name, sel.Sel.Name, path)
						}
					}
					name := ""
					switch f := x.Fun.(type) {
					case *ast.Ident:
						name = f.Name
					case *ast.SelectorExpr:
						name = f.Sel.Name
					}
					for _, a := range x.Args {
						if id, ok := a.(*ast.Ident); ok {
							switch name {
							case "append":
								addUse(x.Pos(), id.Name, "append", path)
							case "Read":
								addUse(x.Pos(), id.Name, "Read", path)
							default:
								addUse(x.Pos(), id.Name, "arg:"+name, path)
							}
						}
						if pool, extra, ok := poolGet(p, fd, a); ok {
							// an object taken from a pool and handed straight to a call
							v := fmt.Sprintf("<arg@%d>", fset.Position(a.Pos()).Line)
							evs = append(evs, poolEv{pos: a.Pos(), v: v, tok: "Get", path: append([]string{}, path...), isGet: true, pool: pool})
							for _, t := range extra {
								addUse(a.Pos(), v, t, path)
							}
							addUse(a.Pos(), v, "arg:"+name, path)
						}
					}
				}
				return true
			})
		}
		walk = func(n ast.Node, path []string) {
			switch s := n.(type) {
			case nil:
			case *ast.BlockStmt:
				walkList(s.List, path)
			case *ast.IfStmt:
				if s.Init != nil {
					walk(s.Init, path)
				}
				exprUses(s.Cond, path)
				key := fmt.Sprint(s.Pos())
				walkList(s.Body.List, append(append([]string{}, path...), key+":0"))
				if s.Else != nil {
					walk(s.Else, append(append([]string{}, path...), key+":1"))
				}
			case *ast.SwitchStmt:
				if s.Tag != nil {
					exprUses(s.Tag, path)
				}
				key := fmt.Sprint(s.Pos())
				for i, c := range s.Body.List {
					walkList(c.(*ast.CaseClause).Body, append(append([]string{}, path...), fmt.Sprintf("%s:%d", key, i)))
				}
			case *ast.SelectStmt:
				key := fmt.Sprint(s.Pos())
				for i, c := range s.Body.List {
					cc := c.(*ast.CommClause)
					np := append(append([]string{}, path...), fmt.Sprintf("%s:%d", key, i))
					if cc.Comm != nil {
						walk(cc.Comm, np)
					}
					walkList(cc.Body, np)
				}
			case *ast.ForStmt:
				if s.Init != nil {
					walk(s.Init, path)
				}
				if s.Cond != nil {
					exprUses(s.Cond, path)
				}
				walkList(s.Body.List, path)
			case *ast.RangeStmt:
				exprUses(s.X, path)
				walkList(s.Body.List, path)
			case *ast.AssignStmt:
				// x := pool.Get()…   |   x = x[:e]   |   other
				if len(s.Lhs) == 1 && len(s.Rhs) == 1 {
					if id, ok := s.Lhs[0].(*ast.Ident); ok {
						if pool, extra, ok := poolGet(p, fd, s.Rhs[0]); ok {
							evs = append(evs, poolEv{pos: s.Pos(), v: id.Name, tok: "Get", path: append([]string{}, path...), isGet: true, pool: pool})
							for _, t := range extra {
								addUse(s.Pos(), id.Name, t, path)
							}
							return
						}
						if sl, ok := s.Rhs[0].(*ast.SliceExpr); ok {
							if b, ok := sl.X.(*ast.Ident); ok && b.Name == id.Name {
								tok := sliceTok(sl, id.Name)
								if cnt, read := readCount[id.Name]; read && tok == "slice[:n]" {
									// after a filling read only the count it returned is an admissible bound
									if h, ok := sl.High.(*ast.Ident); !ok || h.Name != cnt || sl.Low != nil {
										tok = "slice[:e]"
									}
								}
								addUse(s.Pos(), id.Name, tok, path)
								return
							}
						}
					}
				}
				// n, err := r.Read(x): remember the variable holding the count
				if len(s.Rhs) == 1 && len(s.Lhs) >= 1 {
					if call, ok := s.Rhs[0].(*ast.CallExpr); ok && len(call.Args) == 1 {
						if sel, ok := call.Fun.(*ast.SelectorExpr); ok && sel.Sel.Name == "Read" {
							if a, ok := call.Args[0].(*ast.Ident); ok {
								if c, ok := s.Lhs[0].(*ast.Ident); ok {
									readCount[a.Name] = c.Name
								}
							}
						}
					}
				}
				for _, r := range s.Rhs {
					exprUses(r, path)
				}
				for _, l := range s.Lhs {
					if _, ok := l.(*ast.Ident); !ok {
						exprUses(l, path)
					}
				}
			case *ast.ExprStmt:
				exprUses(s.X, path)
			case *ast.GoStmt:
				exprUses(s.Call, path)
			case *ast.DeferStmt:
				exprUses(s.Call, path)
			case *ast.ReturnStmt:
				for _, r := range s.Results {
					if id, ok := r.(*ast.Ident); ok {
						addUse(s.Pos(), id.Name, "return", path)
					} else {
						exprUses(r, path)
					}
				}
			case *ast.DeclStmt, *ast.BranchStmt, *ast.IncDecStmt, *ast.EmptyStmt:
			case *ast.SendStmt:
				exprUses(s.Chan, path)
				exprUses(s.Value, path)
			case *ast.LabeledStmt:
				walk(s.Stmt, path)
			default:
				die("pools: %s: unsupported statement %T in a function using pools", fn, n)
			}
		}
		// only functions that touch a pool
		touches := false
		ast.Inspect(fd.Body, func(n ast.Node) bool {
			if sel, ok := n.(*ast.SelectorExpr); ok && (sel.Sel.Name == "Get" || sel.Sel.Name == "Put") {
				if id, ok := sel.X.(*ast.Ident); ok && isPoolVar(p, fd, id.Name) {
					touches = true
				}
			}
			return true
		})
		if !touches {
			continue
		}
		walkList(fd.Body.List, nil)
		sort.SliceStable(evs, func(i, j int) bool { return evs[i].pos < evs[j].pos })
		compatible := func(g, u []string) bool {
			// u must not sit in a sibling branch of any branch enclosing g
			for _, gb := range g {
				gk := gb[:strings.LastIndex(gb, ":")]
				for _, ub := range u {
					if ub[:strings.LastIndex(ub, ":")] == gk && ub != gb {
						return false
					}
				}
			}
			return true
		}
		for gi, g := range evs {
			if !g.isGet {
				continue
			}
			toks := []string{"Get"}
			for _, u := range evs[gi+1:] {
				if u.v != g.v || !compatible(g.path, u.path) {
					continue
				}
				if u.isGet {
					break // the variable is re-assigned from a pool: a new life cycle
				}
				toks = append(toks, u.tok)
			}
			seqs = append(seqs, seq{fmt.Sprintf("%s:%s", fn, g.pool), toks})
		}
	}
	var b strings.Builder
	b.WriteString(header)
	b.WriteString("namespace SJ.Generated\n\n/-- per `<pool>.Get()` site: what is done to the object obtained, in source order along the branch of the Get -/\n")
	b.WriteString("def poolDiscipline : List (String × List String) := [\n")
	for i, s := range seqs {
		sep := ","
		if i == len(seqs)-1 {
			sep = ""
		}
		fmt.Fprintf(&b, "  (%q, %s)%s\n", s.key, leanStrList(s.toks), sep)
	}
	b.WriteString("]\n\n/-- `Put` calls whose argument is not a variable obtained from the pool in the same function -/\n")
	sort.Strings(foreign)
	fmt.Fprintf(&b, "def poolForeignPuts : List String := %s\n\n", leanStrList(foreign))
	genSerializerEntry(p, &b)
	b.WriteString("end SJ.Generated\n")
	writeIfChanged(filepath.Join(out, "GoPools.lean"), b.String())
}

// genSerializerEntry: what `Serializer.Serialize` does to the receiver's fields before its tape loop (C15: a reused
// Serializer).  `serializerEntry` is the statement text; `serializerEntryResets` classifies, per field of the struct,
// how the entry code treats it: "zeroed" (every element set to 0), "emptied" (re-sliced to length 0), "assigned"
// (overwritten as a whole), "resized" (re-sliced to a fixed length: old content stays and must be written before it is
// read), "arg:<callee>" (handed to a function).  Fields not mentioned are not touched before the loop.
func genSerializerEntry(p *pkgInfo, b *strings.Builder) {
	fd, ok := p.funcs["Serializer.Serialize"]
	if !ok {
		die("pools: Serializer.Serialize not found")
	}
	recv := fd.Recv.List[0].Names[0].Name
	var texts []string
	treat := map[string][]string{}
	add := func(f, how string) {
		for _, h := range treat[f] {
			if h == how {
				return
			}
		}
		treat[f] = append(treat[f], how)
	}
	fieldOf := func(e ast.Expr) (string, bool) {
		if sl, ok := e.(*ast.SliceExpr); ok {
			e = sl.X
		}
		if ix, ok := e.(*ast.IndexExpr); ok {
			e = ix.X
		}
		if sel, ok := e.(*ast.SelectorExpr); ok {
			if id, ok := sel.X.(*ast.Ident); ok && id.Name == recv {
				return sel.Sel.Name, true
			}
		}
		return "", false
	}
	done := false
	for _, st := range fd.Body.List {
		if f, ok := st.(*ast.ForStmt); ok && f.Cond != nil && strings.HasPrefix(nows(src(f.Cond)), "off<len(") {
			done = true
			break
		}
		texts = append(texts, stmtText(st))
		ast.Inspect(st, func(n ast.Node) bool {
			switch x := n.(type) {
			case *ast.RangeStmt:
				// for i := range s.f[:] { s.f[i] = 0 }
				if f, ok := fieldOf(x.X); ok && len(x.Body.List) == 1 {
					if as, ok := x.Body.List[0].(*ast.AssignStmt); ok && len(as.Lhs) == 1 && len(as.Rhs) == 1 {
						if g, ok := fieldOf(as.Lhs[0]); ok && g == f && src(as.Rhs[0]) == "0" {
							add(f, "zeroed")
							return false
						}
					}
				}
			case *ast.AssignStmt:
				for k, l := range x.Lhs {
					sel, ok := l.(*ast.SelectorExpr)
					if !ok {
						continue
					}
					id, ok := sel.X.(*ast.Ident)
					if !ok || id.Name != recv || k >= len(x.Rhs) {
						continue
					}
					f := sel.Sel.Name
					if sl, ok := x.Rhs[k].(*ast.SliceExpr); ok {
						if g, ok := fieldOf(sl.X); ok && g == f && sl.Low == nil && sl.High != nil {
							if src(sl.High) == "0" {
								add(f, "emptied")
							} else {
								add(f, "resized")
							}
							continue
						}
					}
					if c, ok := x.Rhs[k].(*ast.CallExpr); ok && src(c.Fun) == "make" {
						add(f, "resized")
						continue
					}
					add(f, "assigned")
				}
			case *ast.CallExpr:
				name := nows(src(x.Fun))
				for _, a := range x.Args {
					if f, ok := fieldOf(a); ok {
						if _, isSlice := a.(*ast.SliceExpr); !isSlice || true {
							if name != "len" && name != "cap" && name != "make" {
								add(f, "arg:"+name)
							}
						}
					}
				}
			}
			return true
		})
	}
	if !done {
		die("pools: Serializer.Serialize: tape loop `for off < len(...)` not found")
	}
	var fields []string
	for f := range treat {
		fields = append(fields, f)
	}
	sort.Strings(fields)
	fmt.Fprintf(b, "/-- `Serializer.Serialize` up to its tape loop -/\ndef serializerEntry : List String := %s\n\n", leanStrList(texts))
	b.WriteString("/-- how the entry code treats each field of the reused Serializer -/\ndef serializerEntryResets : List (String × List String) := [\n")
	for i, f := range fields {
		sep := ","
		if i == len(fields)-1 {
			sep = ""
		}
		fmt.Fprintf(b, "  (%q, %s)%s\n", f, leanStrList(treat[f]), sep)
	}
	b.WriteString("]\n\n")
}
