package main

// Pool discipline facts (C20): for every `<pool>.Get()` site, the sequence of things done to the object obtained, in
// source order along the control-flow branch of the Get — method calls on it, re-slicings, calls it is passed to,
// `append`, `return`, and the `Put`.  The Lean side (`SJ.Shared.disciplinedCalls`) decides whether a sequence obeys
// "reset before any use, nothing after Put"; a theorem requires it of every extracted sequence.

import (
	"fmt"
	"go/ast"
	"go/token"
	"path/filepath"
	"sort"
	"strings"
)

type poolEv struct {
	pos   token.Pos
	v     string // variable
	tok   string
	path  []string // enclosing branches: "<pos of if/switch>:<branch index>"
	isGet bool
	pool  string
}

func isPoolVar(p *pkgInfo, fd *ast.FuncDecl, name string) bool {
	if vs, ok := p.vars[name]; ok {
		if len(vs.Values) == 1 {
			if cl, ok := vs.Values[0].(*ast.CompositeLit); ok && src(cl.Type) == "sync.Pool" {
				return true
			}
		}
		if vs.Type != nil && src(vs.Type) == "sync.Pool" {
			return true
		}
	}
	// function-local pools: `x := sync.Pool{...}` or `var put *sync.Pool`
	found := false
	ast.Inspect(fd, func(n ast.Node) bool {
		switch s := n.(type) {
		case *ast.AssignStmt:
			if s.Tok == token.DEFINE && len(s.Lhs) == 1 && len(s.Rhs) == 1 {
				if id, ok := s.Lhs[0].(*ast.Ident); ok && id.Name == name {
					if cl, ok := s.Rhs[0].(*ast.CompositeLit); ok && src(cl.Type) == "sync.Pool" {
						found = true
					}
				}
			}
		case *ast.ValueSpec:
			for _, nm := range s.Names {
				if nm.Name == name && s.Type != nil && strings.Contains(src(s.Type), "sync.Pool") {
					found = true
				}
			}
		}
		return true
	})
	return found
}

// poolGet matches `<pool>.Get()` possibly wrapped in a type assertion and a re-slice; returns pool name and the
// extra tokens produced by the wrapping.
func poolGet(p *pkgInfo, fd *ast.FuncDecl, e ast.Expr) (string, []string, bool) {
	var extra []string
	for {
		switch x := e.(type) {
		case *ast.ParenExpr:
			e = x.X
			continue
		case *ast.TypeAssertExpr:
			e = x.X
			continue
		case *ast.SliceExpr:
			extra = append(extra, sliceTok(x, ""))
			e = x.X
			continue
		}
		break
	}
	call, ok := e.(*ast.CallExpr)
	if !ok {
		return "", nil, false
	}
	sel, ok := call.Fun.(*ast.SelectorExpr)
	if !ok || sel.Sel.Name != "Get" || len(call.Args) != 0 {
		return "", nil, false
	}
	id, ok := sel.X.(*ast.Ident)
	if !ok || !isPoolVar(p, fd, id.Name) {
		return "", nil, false
	}
	return id.Name, extra, true
}

// sliceTok: `x[:0]` is a re-slice to nothing; any other bound exposes old content (`slice[:n]`)
func sliceTok(x *ast.SliceExpr, _ string) string {
	if x.Low == nil && x.High != nil && !x.Slice3 {
		if lit, ok := x.High.(*ast.BasicLit); ok && lit.Value == "0" {
			return "slice[:0]"
		}
	}
	return "slice[:n]"
}

func genPools(p *pkgInfo, out string) {
	type seq struct {
		key  string
		toks []string
	}
	var seqs []seq
	var foreign []string
	var fnNames []string
	for n := range p.funcs {
		fnNames = append(fnNames, n)
	}
	sort.Strings(fnNames)
	for _, fn := range fnNames {
		fd := p.funcs[fn]
		if fd.Body == nil {
			continue
		}
		var evs []poolEv
		readCount := map[string]string{}
		var walk func(n ast.Node, path []string)
		addUse := func(pos token.Pos, v, tok string, path []string) {
			evs = append(evs, poolEv{pos: pos, v: v, tok: tok, path: append([]string{}, path...)})
		}
		walkList := func(list []ast.Stmt, path []string) {
			for _, s := range list {
				walk(s, path)
			}
		}
		// uses of identifiers inside an expression (as call arguments, receivers, …)
		var exprUses func(e ast.Expr, path []string)
		exprUses = func(e ast.Expr, path []string) {
			ast.Inspect(e, func(n ast.Node) bool {
				switch x := n.(type) {
				case *ast.FuncLit:
					walkList(x.Body.List, path)
					return false
				case *ast.CallExpr:
					if sel, ok := x.Fun.(*ast.SelectorExpr); ok {
						if id, ok := sel.X.(*ast.Ident); ok {
							if sel.Sel.Name == "Put" && isPoolVar(p, fd, id.Name) && len(x.Args) == 1 {
								if a, ok := x.Args[0].(*ast.Ident); ok {
									addUse(x.Pos(), a.Name, "Put", path)
								} else {
									foreign = append(foreign, fmt.Sprintf("%s:%s.Put(%s)", fn, id.Name, src(x.Args[0])))
								}
								return false
							}
							// method call on a variable
							addUse(x.Pos(), id.Name, sel.Sel.Name, path)
						}
					}
					name := ""
					switch f := x.Fun.(type) {
					case *ast.Ident:
						name = f.Name
					case *ast.SelectorExpr:
						name = f.Sel.Name
					}
					for _, a := range x.Args {
						if id, ok := a.(*ast.Ident); ok {
							switch name {
							case "append":
								addUse(x.Pos(), id.Name, "append", path)
							case "Read":
								addUse(x.Pos(), id.Name, "Read", path)
							default:
								addUse(x.Pos(), id.Name, "arg:"+name, path)
							}
						}
						if pool, extra, ok := poolGet(p, fd, a); ok {
							// an object taken from a pool and handed straight to a call
							v := fmt.Sprintf("<arg@%d>", fset.Position(a.Pos()).Line)
							evs = append(evs, poolEv{pos: a.Pos(), v: v, tok: "Get", path: append([]string{}, path...), isGet: true, pool: pool})
							for _, t := range extra {
								addUse(a.Pos(), v, t, path)
							}
							addUse(a.Pos(), v, "arg:"+name, path)
						}
					}
				}
				return true
			})
		}
		walk = func(n ast.Node, path []string) {
			switch s := n.(type) {
			case nil:
			case *ast.BlockStmt:
				walkList(s.List, path)
			case *ast.IfStmt:
				if s.Init != nil {
					walk(s.Init, path)
				}
				exprUses(s.Cond, path)
				key := fmt.Sprint(s.Pos())
				walkList(s.Body.List, append(append([]string{}, path...), key+":0"))
				if s.Else != nil {
					walk(s.Else, append(append([]string{}, path...), key+":1"))
				}
			case *ast.SwitchStmt:
				if s.Tag != nil {
					exprUses(s.Tag, path)
				}
				key := fmt.Sprint(s.Pos())
				for i, c := range s.Body.List {
					walkList(c.(*ast.CaseClause).Body, append(append([]string{}, path...), fmt.Sprintf("%s:%d", key, i)))
				}
			case *ast.SelectStmt:
				key := fmt.Sprint(s.Pos())
				for i, c := range s.Body.List {
					cc := c.(*ast.CommClause)
					np := append(append([]string{}, path...), fmt.Sprintf("%s:%d", key, i))
					if cc.Comm != nil {
						walk(cc.Comm, np)
					}
					walkList(cc.Body, np)
				}
			case *ast.ForStmt:
				if s.Init != nil {
					walk(s.Init, path)
				}
				if s.Cond != nil {
					exprUses(s.Cond, path)
				}
				walkList(s.Body.List, path)
			case *ast.RangeStmt:
				exprUses(s.X, path)
				walkList(s.Body.List, path)
			case *ast.AssignStmt:
				// x := pool.Get()…   |   x = x[:e]   |   other
				if len(s.Lhs) == 1 && len(s.Rhs) == 1 {
					if id, ok := s.Lhs[0].(*ast.Ident); ok {
						if pool, extra, ok := poolGet(p, fd, s.Rhs[0]); ok {
							evs = append(evs, poolEv{pos: s.Pos(), v: id.Name, tok: "Get", path: append([]string{}, path...), isGet: true, pool: pool})
							for _, t := range extra {
								addUse(s.Pos(), id.Name, t, path)
							}
							return
						}
						if sl, ok := s.Rhs[0].(*ast.SliceExpr); ok {
							if b, ok := sl.X.(*ast.Ident); ok && b.Name == id.Name {
								tok := sliceTok(sl, id.Name)
								if cnt, read := readCount[id.Name]; read && tok == "slice[:n]" {
									// after a filling read only the count it returned is an admissible bound
									if h, ok := sl.High.(*ast.Ident); !ok || h.Name != cnt || sl.Low != nil {
										tok = "slice[:e]"
									}
								}
								addUse(s.Pos(), id.Name, tok, path)
								return
							}
						}
					}
				}
				// n, err := r.Read(x): remember the variable holding the count
				if len(s.Rhs) == 1 && len(s.Lhs) >= 1 {
					if call, ok := s.Rhs[0].(*ast.CallExpr); ok && len(call.Args) == 1 {
						if sel, ok := call.Fun.(*ast.SelectorExpr); ok && sel.Sel.Name == "Read" {
							if a, ok := call.Args[0].(*ast.Ident); ok {
								if c, ok := s.Lhs[0].(*ast.Ident); ok {
									readCount[a.Name] = c.Name
								}
							}
						}
					}
				}
				for _, r := range s.Rhs {
					exprUses(r, path)
				}
				for _, l := range s.Lhs {
					if _, ok := l.(*ast.Ident); !ok {
						exprUses(l, path)
					}
				}
			case *ast.ExprStmt:
				exprUses(s.X, path)
			case *ast.GoStmt:
				exprUses(s.Call, path)
			case *ast.DeferStmt:
				exprUses(s.Call, path)
			case *ast.ReturnStmt:
				for _, r := range s.Results {
					if id, ok := r.(*ast.Ident); ok {
						addUse(s.Pos(), id.Name, "return", path)
					} else {
						exprUses(r, path)
					}
				}
			case *ast.DeclStmt, *ast.BranchStmt, *ast.IncDecStmt, *ast.EmptyStmt:
			case *ast.SendStmt:
				exprUses(s.Chan, path)
				exprUses(s.Value, path)
			case *ast.LabeledStmt:
				walk(s.Stmt, path)
			default:
				die("pools: %s: unsupported statement %T in a function using pools", fn, n)
			}
		}
		// only functions that touch a pool
		touches := false
		ast.Inspect(fd.Body, func(n ast.Node) bool {
			if sel, ok := n.(*ast.SelectorExpr); ok && (sel.Sel.Name == "Get" || sel.Sel.Name == "Put") {
				if id, ok := sel.X.(*ast.Ident); ok && isPoolVar(p, fd, id.Name) {
					touches = true
				}
			}
			return true
		})
		if !touches {
			continue
		}
		walkList(fd.Body.List, nil)
		sort.SliceStable(evs, func(i, j int) bool { return evs[i].pos < evs[j].pos })
		compatible := func(g, u []string) bool {
			// u must not sit in a sibling branch of any branch enclosing g
			for _, gb := range g {
				gk := gb[:strings.LastIndex(gb, ":")]
				for _, ub := range u {
					if ub[:strings.LastIndex(ub, ":")] == gk && ub != gb {
						return false
					}
				}
			}
			return true
		}
		for gi, g := range evs {
			if !g.isGet {
				continue
			}
			toks := []string{"Get"}
			for _, u := range evs[gi+1:] {
				if u.v != g.v || !compatible(g.path, u.path) {
					continue
				}
				if u.isGet {
					break // the variable is re-assigned from a pool: a new life cycle
				}
				toks = append(toks, u.tok)
			}
			seqs = append(seqs, seq{fmt.Sprintf("%s:%s", fn, g.pool), toks})
		}
	}
	var b strings.Builder
	b.WriteString(header)
	b.WriteString("namespace SJ.Generated\n\n/-- per `<pool>.Get()` site: what is done to the object obtained, in source order along the branch of the Get -/\n")
	b.WriteString("def poolDiscipline : List (String × List String) := [\n")
	for i, s := range seqs {
		sep := ","
		if i == len(seqs)-1 {
			sep = ""
		}
		fmt.Fprintf(&b, "  (%q, %s)%s\n", s.key, leanStrList(s.toks), sep)
	}
	b.WriteString("]\n\n/-- `Put` calls whose argument is not a variable obtained from the pool in the same function -/\n")
	sort.Strings(foreign)
	fmt.Fprintf(&b, "def poolForeignPuts : List String := %s\n\nend SJ.Generated\n", leanStrList(foreign))
	writeIfChanged(filepath.Join(out, "GoPools.lean"), b.String())
}
