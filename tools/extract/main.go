// Command extract regenerates /verif/lean/SJ/Generated/*.lean from the Go and
// Plan-9 assembly sources of the package under verification.
//
// It is deliberately small and refuses (exit 2) anything it does not
// understand: a refusal is reported by ./check as a broken tie.
package main

import (
	"bufio"
	"bytes"
	"fmt"
	"go/ast"
	"go/parser"
	"go/printer"
	"go/token"
	"math/big"
	"os"
	"os/exec"
	"path/filepath"
	"regexp"
	"sort"
	"strconv"
	"strings"
)

var fset = token.NewFileSet()

type pkgInfo struct {
	files  map[string]*ast.File
	consts map[string]*big.Int // package-level and function-local integer constants
	cexprs map[string]ast.Expr
	ciota  map[string]int
	funcs  map[string]*ast.FuncDecl
	vars   map[string]*ast.ValueSpec
}

func die(format string, a ...interface{}) {
	fmt.Fprintf(os.Stderr, "extract: "+format+"\n", a...)
	os.Exit(2)
}

func load(dir string) *pkgInfo {
	p := &pkgInfo{files: map[string]*ast.File{}, consts: map[string]*big.Int{}, cexprs: map[string]ast.Expr{},
		ciota: map[string]int{}, funcs: map[string]*ast.FuncDecl{}, vars: map[string]*ast.ValueSpec{}}
	ents, err := os.ReadDir(dir)
	if err != nil {
		die("%v", err)
	}
	for _, e := range ents {
		n := e.Name()
		if !strings.HasSuffix(n, ".go") || strings.HasSuffix(n, "_test.go") {
			continue
		}
		if n == "simdjson_other.go" || strings.HasPrefix(n, "verif_") {
			continue
		}
		f, err := parser.ParseFile(fset, filepath.Join(dir, n), nil, parser.ParseComments)
		if err != nil {
			die("%v", err)
		}
		p.files[n] = f
	}
	for _, f := range p.files {
		ast.Inspect(f, func(n ast.Node) bool {
			switch d := n.(type) {
			case *ast.FuncDecl:
				name := d.Name.Name
				if d.Recv != nil && len(d.Recv.List) == 1 {
					name = recvName(d.Recv.List[0].Type) + "." + name
				}
				p.funcs[name] = d
			case *ast.GenDecl:
				if d.Tok == token.CONST {
					var lastVals []ast.Expr
					for i, s := range d.Specs {
						vs := s.(*ast.ValueSpec)
						vals := vs.Values
						if len(vals) == 0 {
							vals = lastVals
						} else {
							lastVals = vals
						}
						for j, nm := range vs.Names {
							if j < len(vals) {
								p.cexprs[nm.Name] = vals[j]
								p.ciota[nm.Name] = i
							}
						}
					}
				}
				if d.Tok == token.VAR {
					for _, s := range d.Specs {
						vs := s.(*ast.ValueSpec)
						for _, nm := range vs.Names {
							if _, ok := p.vars[nm.Name]; !ok {
								p.vars[nm.Name] = vs
							}
						}
					}
				}
			}
			return true
		})
	}
	return p
}

func recvName(e ast.Expr) string {
	switch t := e.(type) {
	case *ast.StarExpr:
		return recvName(t.X)
	case *ast.Ident:
		return t.Name
	}
	return "?"
}

func (p *pkgInfo) constVal(name string) *big.Int {
	if v, ok := p.consts[name]; ok {
		return v
	}
	e, ok := p.cexprs[name]
	if !ok {
		die("unknown constant %s", name)
	}
	v := p.eval(e, p.ciota[name])
	p.consts[name] = v
	return v
}

var mathConsts = map[string]string{
	"MaxInt64": "9223372036854775807", "MinInt64": "-9223372036854775808",
	"MaxUint64": "18446744073709551615", "MaxUint32": "4294967295",
}

func (p *pkgInfo) eval(e ast.Expr, iota int) *big.Int {
	switch x := e.(type) {
	case *ast.BasicLit:
		switch x.Kind {
		case token.INT:
			v, ok := new(big.Int).SetString(strings.ReplaceAll(x.Value, "_", ""), 0)
			if !ok {
				die("bad int literal %s", x.Value)
			}
			return v
		case token.CHAR:
			r, _, _, err := strconv.UnquoteChar(x.Value[1:len(x.Value)-1], '\'')
			if err != nil {
				die("bad char literal %s", x.Value)
			}
			return big.NewInt(int64(r))
		}
	case *ast.Ident:
		if x.Name == "iota" {
			return big.NewInt(int64(iota))
		}
		if x.Name == "true" {
			return big.NewInt(1)
		}
		if x.Name == "false" {
			return big.NewInt(0)
		}
		return p.constVal(x.Name)
	case *ast.ParenExpr:
		return p.eval(x.X, iota)
	case *ast.SelectorExpr:
		if id, ok := x.X.(*ast.Ident); ok && id.Name == "math" {
			if s, ok := mathConsts[x.Sel.Name]; ok {
				v, _ := new(big.Int).SetString(s, 10)
				return v
			}
		}
	case *ast.CallExpr: // conversion T(x)
		if len(x.Args) == 1 {
			v := p.eval(x.Args[0], iota)
			if id, ok := x.Fun.(*ast.Ident); ok {
				switch id.Name {
				case "uint8", "byte", "Tag", "Type":
					return new(big.Int).And(v, big.NewInt(0xff))
				case "uint32":
					return new(big.Int).And(v, big.NewInt(0xffffffff))
				case "uint64", "FloatFlag", "FloatFlags":
					m := new(big.Int).Lsh(big.NewInt(1), 64)
					return new(big.Int).Mod(v, m)
				case "int", "int64", "CompressMode":
					return v
				}
			}
		}
	case *ast.UnaryExpr:
		v := p.eval(x.X, iota)
		switch x.Op {
		case token.SUB:
			return new(big.Int).Neg(v)
		case token.XOR:
			return new(big.Int).Not(v)
		}
	case *ast.BinaryExpr:
		a, b := p.eval(x.X, iota), p.eval(x.Y, iota)
		switch x.Op {
		case token.ADD:
			return new(big.Int).Add(a, b)
		case token.SUB:
			return new(big.Int).Sub(a, b)
		case token.MUL:
			return new(big.Int).Mul(a, b)
		case token.QUO:
			return new(big.Int).Quo(a, b)
		case token.SHL:
			return new(big.Int).Lsh(a, uint(b.Uint64()))
		case token.SHR:
			return new(big.Int).Rsh(a, uint(b.Uint64()))
		case token.OR:
			return new(big.Int).Or(a, b)
		case token.AND:
			return new(big.Int).And(a, b)
		case token.XOR:
			return new(big.Int).Xor(a, b)
		}
	}
	die("cannot evaluate constant expression %s", src(e))
	return nil
}

func src(n ast.Node) string {
	var b bytes.Buffer
	printer.Fprint(&b, fset, n)
	return b.String()
}

// ---------------------------------------------------------------- tables

func (p *pkgInfo) table(name string, n int) []*big.Int {
	vs, ok := p.vars[name]
	if !ok || len(vs.Values) != 1 {
		die("table %s not found", name)
	}
	cl, ok := vs.Values[0].(*ast.CompositeLit)
	if !ok {
		die("table %s is not a composite literal", name)
	}
	at, ok := cl.Type.(*ast.ArrayType)
	if !ok || at.Len == nil {
		die("table %s is not an array", name)
	}
	if l := p.eval(at.Len, 0); l.Int64() != int64(n) {
		die("table %s has length %v, want %d", name, l, n)
	}
	out := make([]*big.Int, n)
	for i := range out {
		out[i] = big.NewInt(0)
	}
	idx := 0
	for _, el := range cl.Elts {
		var v ast.Expr = el
		if kv, ok := el.(*ast.KeyValueExpr); ok {
			idx = int(p.eval(kv.Key, 0).Int64())
			v = kv.Value
		}
		if idx < 0 || idx >= n {
			die("table %s index %d out of range", name, idx)
		}
		out[idx] = p.eval(v, 0)
		idx++
	}
	return out
}

// applyInitLoops applies `for i := range T[:K] { T[i] = true }` loops found in init().
func (p *pkgInfo) applyInitLoops(name string, t []*big.Int) {
	for _, f := range p.files {
		for _, d := range f.Decls {
			fd, ok := d.(*ast.FuncDecl)
			if !ok || fd.Name.Name != "init" || fd.Recv != nil {
				continue
			}
			for _, st := range fd.Body.List {
				rs, ok := st.(*ast.RangeStmt)
				if !ok {
					if strings.Contains(src(st), name) {
						die("init(): unsupported statement touching %s: %s", name, src(st))
					}
					continue
				}
				se, ok := rs.X.(*ast.SliceExpr)
				if !ok || src(se.X) != name {
					if strings.Contains(src(st), name) {
						die("init(): unsupported loop touching %s", name)
					}
					continue
				}
				lo, hi := 0, len(t)
				if se.Low != nil {
					lo = int(p.eval(se.Low, 0).Int64())
				}
				if se.High != nil {
					hi = int(p.eval(se.High, 0).Int64())
				}
				if len(rs.Body.List) != 1 {
					die("init(): unsupported loop body for %s", name)
				}
				as, ok := rs.Body.List[0].(*ast.AssignStmt)
				if !ok || len(as.Lhs) != 1 || src(as.Lhs[0]) != name+"["+src(rs.Key)+"]" {
					die("init(): unsupported loop body for %s: %s", name, src(rs.Body))
				}
				v := p.eval(as.Rhs[0], 0)
				for i := lo; i < hi; i++ {
					t[i] = v
				}
			}
		}
	}
}

// ---------------------------------------------------------------- local consts & special expressions

func (p *pkgInfo) localConsts(fn string, names ...string) {
	fd, ok := p.funcs[fn]
	if !ok {
		die("function %s not found", fn)
	}
	found := map[string]bool{}
	ast.Inspect(fd.Body, func(n ast.Node) bool {
		gd, ok := n.(*ast.GenDecl)
		if !ok || gd.Tok != token.CONST {
			return true
		}
		for i, s := range gd.Specs {
			vs := s.(*ast.ValueSpec)
			for j, nm := range vs.Names {
				for _, want := range names {
					if nm.Name == want && j < len(vs.Values) {
						p.consts[fn+"."+want] = p.eval(vs.Values[j], i)
						found[want] = true
					}
				}
			}
		}
		return true
	})
	for _, w := range names {
		if !found[w] {
			die("local constant %s not found in %s", w, fn)
		}
	}
}

// chanCap finds make(chan indexChan, <expr>) in fn.
func (p *pkgInfo) chanCap(fn string) *big.Int {
	var out *big.Int
	ast.Inspect(p.funcs[fn].Body, func(n ast.Node) bool {
		ce, ok := n.(*ast.CallExpr)
		if !ok {
			return true
		}
		if id, ok := ce.Fun.(*ast.Ident); ok && id.Name == "make" && len(ce.Args) == 2 {
			if ct, ok := ce.Args[0].(*ast.ChanType); ok && src(ct.Value) == "indexChan" {
				out = p.eval(ce.Args[1], 0)
			}
		}
		return true
	})
	if out == nil {
		die("make(chan indexChan, …) not found in %s", fn)
	}
	return out
}

// syncThreshold finds `len(pj.Message) > <expr>` in fn.
func (p *pkgInfo) cmpConst(fn, lhs string, op token.Token) *big.Int {
	var out *big.Int
	ast.Inspect(p.funcs[fn].Body, func(n ast.Node) bool {
		be, ok := n.(*ast.BinaryExpr)
		if ok && be.Op == op && src(be.X) == lhs {
			out = p.eval(be.Y, 0)
		}
		return true
	})
	if out == nil {
		die("comparison %s %s … not found in %s", lhs, op, fn)
	}
	return out
}

// floatThresholds finds the float literals compared against `abs` in appendFloat.
func (p *pkgInfo) floatThresholds() (lo, hi string) {
	ast.Inspect(p.funcs["appendFloat"].Body, func(n ast.Node) bool {
		be, ok := n.(*ast.BinaryExpr)
		if !ok || src(be.X) != "abs" {
			return true
		}
		bl, ok := be.Y.(*ast.BasicLit)
		if !ok {
			return true
		}
		switch be.Op {
		case token.GEQ:
			lo = bl.Value
		case token.LSS:
			hi = bl.Value
		}
		return true
	})
	if lo == "" || hi == "" {
		die("appendFloat thresholds not found")
	}
	return
}

// switchCases returns, for each switch statement in fn whose tag expression prints as one of tagExprs,
// the list of case clauses (each a list of evaluated constants; default = nil entry marked by -1).
func (p *pkgInfo) switchCases(fn string, tagExprs ...string) [][][]int64 {
	fd, ok := p.funcs[fn]
	if !ok {
		die("function %s not found", fn)
	}
	var out [][][]int64
	ast.Inspect(fd.Body, func(n ast.Node) bool {
		ss, ok := n.(*ast.SwitchStmt)
		if !ok || ss.Tag == nil {
			return true
		}
		match := false
		for _, t := range tagExprs {
			if src(ss.Tag) == t {
				match = true
			}
		}
		if !match {
			return true
		}
		var cases [][]int64
		for _, c := range ss.Body.List {
			cc := c.(*ast.CaseClause)
			if cc.List == nil {
				cases = append(cases, []int64{-1})
				continue
			}
			var vals []int64
			for _, e := range cc.List {
				vals = append(vals, p.eval(e, 0).Int64())
			}
			cases = append(cases, vals)
		}
		out = append(out, cases)
		return true
	})
	return out
}

// ---------------------------------------------------------------- asm DATA

var dataRe = regexp.MustCompile(`^DATA\s+(\w+)<>\+0x([0-9a-fA-F]+)\(SB\)/(\d+),\s*\$0x([0-9a-fA-F]+)`)
var globlRe = regexp.MustCompile(`^GLOBL\s+(\w+)<>\(SB\),\s*\d+,\s*\$(\d+)`)

func asmData(path string) map[string][]byte {
	f, err := os.Open(path)
	if err != nil {
		die("%v", err)
	}
	defer f.Close()
	syms := map[string]map[int]byte{}
	sizes := map[string]int{}
	sc := bufio.NewScanner(f)
	for sc.Scan() {
		line := strings.TrimSpace(sc.Text())
		if m := dataRe.FindStringSubmatch(line); m != nil {
			off, _ := strconv.ParseInt(m[2], 16, 64)
			w, _ := strconv.Atoi(m[3])
			v, _ := new(big.Int).SetString(m[4], 16)
			if syms[m[1]] == nil {
				syms[m[1]] = map[int]byte{}
			}
			bs := v.Bytes() // big endian
			for i := 0; i < w; i++ {
				var b byte
				if i < len(bs) {
					b = bs[len(bs)-1-i]
				}
				syms[m[1]][int(off)+i] = b
			}
		} else if strings.HasPrefix(line, "DATA") {
			die("%s: unparsed DATA line: %s", path, line)
		}
		if m := globlRe.FindStringSubmatch(line); m != nil {
			sizes[m[1]], _ = strconv.Atoi(m[2])
		}
	}
	out := map[string][]byte{}
	for name, m := range syms {
		n, ok := sizes[name]
		if !ok {
			die("%s: no GLOBL for %s", path, name)
		}
		b := make([]byte, n)
		for off, v := range m {
			if off >= n {
				die("%s: DATA beyond GLOBL size for %s", path, name)
			}
			b[off] = v
		}
		out[name] = b
	}
	return out
}

// ---------------------------------------------------------------- scalar asm fragments

// asmBody returns the instruction lines of TEXT ·name (up to the next TEXT / #define / EOF), with
// macro bodies (`#define NAME \` continuation lines) available through asmMacro.
func asmLines(path string) []string {
	b, err := os.ReadFile(path)
	if err != nil {
		die("%v", err)
	}
	return strings.Split(string(b), "\n")
}

func stripComment(s string) string {
	if i := strings.Index(s, "//"); i >= 0 {
		s = s[:i]
	}
	s = strings.TrimSuffix(strings.TrimSpace(s), "\\")
	return strings.Join(strings.Fields(s), " ")
}

func asmText(path, name string) []string {
	lines := asmLines(path)
	var out []string
	in := false
	for _, l := range lines {
		t := strings.TrimSpace(l)
		if strings.HasPrefix(t, "TEXT ") {
			in = strings.HasPrefix(t, "TEXT ·"+name+"(SB)")
			continue
		}
		if !in {
			continue
		}
		if strings.HasPrefix(t, "#define") {
			in = false
			continue
		}
		if s := stripComment(t); s != "" {
			out = append(out, s)
		}
	}
	if len(out) == 0 {
		die("%s: TEXT %s not found", path, name)
	}
	return out
}

func asmMacro(path, name string) []string {
	lines := asmLines(path)
	var out []string
	in := false
	for _, l := range lines {
		t := strings.TrimSpace(l)
		if strings.HasPrefix(t, "#define "+name) {
			in = true
			continue
		}
		if !in {
			continue
		}
		if s := stripComment(t); s != "" {
			out = append(out, s)
		}
		if !strings.HasSuffix(strings.TrimSpace(strings.SplitN(l, "//", 2)[0]), "\\") {
			break
		}
	}
	if len(out) == 0 {
		die("%s: macro %s not found", path, name)
	}
	return out
}

// scalarTranslator turns straight-line 64-bit integer instructions into a Lean let-chain over BitVec 64.
// Registers are SSA-renamed. Memory operands (R) are named cells given by mem[R].
type scalarTranslator struct {
	ver   map[string]int
	lines []string
	mem   map[string]string // register holding an address -> cell name
	carry string
}

func (t *scalarTranslator) cur(r string) string {
	if strings.HasPrefix(r, "$") {
		v, ok := new(big.Int).SetString(strings.TrimPrefix(r, "$"), 0)
		if !ok {
			die("bad immediate %s", r)
		}
		if v.Sign() < 0 {
			v.Add(v, new(big.Int).Lsh(big.NewInt(1), 64))
		}
		return fmt.Sprintf("(0x%x#64)", v)
	}
	if strings.HasPrefix(r, "(") && strings.HasSuffix(r, ")") && !strings.Contains(r, "*") {
		cell, ok := t.mem[strings.Trim(r, "()")]
		if !ok {
			die("memory operand %s has no cell", r)
		}
		return t.cur(cell)
	}
	n, ok := t.ver[r]
	if !ok {
		die("read of undefined register %s", r)
	}
	return fmt.Sprintf("%s_%d", strings.ToLower(r), n)
}

func (t *scalarTranslator) def(r, rhs, comment string) {
	if strings.HasPrefix(r, "(") {
		cell, ok := t.mem[strings.Trim(r, "()")]
		if !ok {
			die("memory operand %s has no cell", r)
		}
		r = cell
	}
	t.ver[r]++
	t.lines = append(t.lines, fmt.Sprintf("  let %s_%d : BitVec 64 := %s  -- %s", strings.ToLower(r), t.ver[r], rhs, comment))
}

func splitOps(s string) []string {
	var out []string
	for _, f := range strings.Split(s, ",") {
		out = append(out, strings.TrimSpace(f))
	}
	return out
}

var leaRe = regexp.MustCompile(`^\((\w+)\)\((\w+)\*1\)$`)

func (t *scalarTranslator) run(instrs []string, skip func(string) bool) {
	for i := 0; i < len(instrs); i++ {
		ins := instrs[i]
		if skip != nil && skip(ins) {
			continue
		}
		// WORD $0x8b4c; BYTE $0x0a  == mov r9, qword [rdx]
		if strings.HasPrefix(ins, "WORD $0x8b4c; BYTE $0x0a") {
			t.def("R9", t.cur("(DX)"), ins)
			continue
		}
		sp := strings.SplitN(ins, " ", 2)
		if len(sp) != 2 {
			if ins == "RET" {
				continue
			}
			die("unsupported instruction %q", ins)
		}
		op, ops := sp[0], splitOps(sp[1])
		switch op {
		case "MOVQ", "KMOVQ":
			t.def(ops[1], t.cur(ops[0]), ins)
		case "ANDQ", "KANDQ2":
			t.def(ops[1], fmt.Sprintf("%s &&& %s", t.cur(ops[1]), t.cur(ops[0])), ins)
		case "ORQ":
			t.def(ops[1], fmt.Sprintf("%s ||| %s", t.cur(ops[1]), t.cur(ops[0])), ins)
		case "XORQ":
			t.def(ops[1], fmt.Sprintf("%s ^^^ %s", t.cur(ops[1]), t.cur(ops[0])), ins)
		case "XORL":
			if ops[0] != ops[1] {
				die("XORL only supported as zeroing idiom: %q", ins)
			}
			t.def(ops[1], "0#64", ins)
		case "NOTQ":
			t.def(ops[0], fmt.Sprintf("~~~ %s", t.cur(ops[0])), ins)
		case "ANDNQ": // ANDNQ a, b, dst : dst = ~b & a
			t.def(ops[2], fmt.Sprintf("(~~~ %s) &&& %s", t.cur(ops[1]), t.cur(ops[0])), ins)
		case "ADDQ":
			a, b := t.cur(ops[1]), t.cur(ops[0])
			// carry flag of an unsigned 64-bit addition: the sum wrapped around iff it is below an operand
			t.carry = fmt.Sprintf("(BitVec.ult (%s + %s) %s)", a, b, a)
			t.def(ops[1], fmt.Sprintf("%s + %s", a, b), ins)
		case "SETCS":
			if t.carry == "" {
				die("SETCS without preceding ADDQ")
			}
			// only the low byte is written; the translator requires the register to have been zeroed
			t.def(ops[0], fmt.Sprintf("(if %s then 1#64 else 0#64)", t.carry), ins+" (register zeroed by XORL before the ADDQ)")
		case "LEAQ":
			m := leaRe.FindStringSubmatch(ops[0])
			if m == nil {
				die("unsupported LEAQ form %q", ins)
			}
			t.def(ops[1], fmt.Sprintf("%s + %s", t.cur(m[1]), t.cur(m[2])), ins)
		case "SHRQ":
			t.def(ops[1], fmt.Sprintf("%s >>> %s", t.cur(ops[1]), immNat(ops[0])), ins)
		case "SHLQ":
			t.def(ops[1], fmt.Sprintf("%s <<< %s", t.cur(ops[1]), immNat(ops[0])), ins)
		case "SARQ":
			t.def(ops[1], fmt.Sprintf("BitVec.sshiftRight %s %s", t.cur(ops[1]), immNat(ops[0])), ins)
		default:
			die("unsupported instruction %q", ins)
		}
	}
}

func immNat(s string) string {
	v, err := strconv.ParseInt(strings.TrimPrefix(s, "$"), 0, 64)
	if err != nil {
		die("bad shift immediate %s", s)
	}
	return strconv.FormatInt(v, 10)
}

func newTr(inputs map[string]string, mem map[string]string) *scalarTranslator {
	t := &scalarTranslator{ver: map[string]int{}, mem: mem}
	// inputs: register/cell name -> Lean parameter name
	names := make([]string, 0, len(inputs))
	for r := range inputs {
		names = append(names, r)
	}
	sort.Strings(names)
	for _, r := range names {
		t.ver[r] = 0
		t.lines = append(t.lines, fmt.Sprintf("  let %s_0 : BitVec 64 := %s", strings.ToLower(r), inputs[r]))
	}
	return t
}

// ---------------------------------------------------------------- output helpers

func leanNatList(vals []*big.Int, perLine int) string {
	var b strings.Builder
	b.WriteString("#[")
	for i, v := range vals {
		if i > 0 {
			b.WriteString(", ")
		}
		if i%perLine == 0 {
			b.WriteString("\n  ")
		}
		b.WriteString(v.String())
	}
	b.WriteString("]")
	return b.String()
}

func bytesToBig(bs []byte) []*big.Int {
	out := make([]*big.Int, len(bs))
	for i, b := range bs {
		out[i] = big.NewInt(int64(b))
	}
	return out
}

func writeIfChanged(path, content string) {
	old, err := os.ReadFile(path)
	if err == nil && string(old) == content {
		return
	}
	if err := os.MkdirAll(filepath.Dir(path), 0o755); err != nil {
		die("%v", err)
	}
	if err := os.WriteFile(path, []byte(content), 0o644); err != nil {
		die("%v", err)
	}
}

const header = "-- GENERATED by /verif/tools/extract from the working tree of /repo. Do not edit.\n"

func main() {
	if len(os.Args) == 4 && os.Args[3] == "stage2table" {
		// the control skeleton of unifiedMachine only (run as a child process by the main invocation, so that a
		// refusal of this translator affects only the properties that depend on its output)
		genStage2Table(load(os.Args[1]), os.Args[2])
		return
	}
	if len(os.Args) == 4 && os.Args[3] == "gosrc" {
		// Go → GoSem printer for the selected functions (child process, same reason)
		genGoSrc(load(os.Args[1]), os.Args[2])
		return
	}
	if len(os.Args) == 4 && os.Args[3] == "joins" {
		genJoins(load(os.Args[1]), os.Args[2])
		return
	}
	if len(os.Args) == 4 && os.Args[3] == "clonesrc" {
		// Go → SJ.Own printer for Clone (child process, same reason)
		genCloneSrc(load(os.Args[1]), os.Args[2])
		return
	}
	if len(os.Args) != 3 {
		die("usage: extract <repo dir> <out dir>")
	}
	repo, out := os.Args[1], os.Args[2]
	p := load(repo)

	genConsts(p, out)
	genTables(p, out)
	genAsmTables(repo, out)
	genAsmScalar(repo, out)
	genFacts(p, repo, out)
	genPools(p, out)
	cmd := exec.Command(os.Args[0], repo, out, "stage2table")
	if msg, err := cmd.CombinedOutput(); err != nil {
		// leave a file that says why; every theorem about the table then fails to check, and nothing else does
		reason := strings.TrimSpace(string(msg))
		writeIfChanged(filepath.Join(out, "Stage2Table.lean"), header+"namespace SJ.Generated\n\n/-- the translator of `unifiedMachine` refused the source -/\ndef stage2TableRefused : String := "+strconv.Quote(reason)+"\n\nend SJ.Generated\n")
		fmt.Fprintln(os.Stderr, "stage2table: translator refused the source: "+reason)
	}
	cmd = exec.Command(os.Args[0], repo, out, "joins")
	if msg, err := cmd.CombinedOutput(); err != nil {
		reason := strings.TrimSpace(string(msg))
		writeIfChanged(filepath.Join(out, "GoJoins.lean"), header+"namespace SJ.Generated\n\n/-- the join-discipline printer refused the source of Deserialize -/\ndef goJoinsRefused : String := "+strconv.Quote(reason)+"\n\nend SJ.Generated\n")
		fmt.Fprintln(os.Stderr, "joins: translator refused the source: "+reason)
	}
	cmd = exec.Command(os.Args[0], repo, out, "clonesrc")
	if msg, err := cmd.CombinedOutput(); err != nil {
		reason := strings.TrimSpace(string(msg))
		writeIfChanged(filepath.Join(out, "CloneSrc.lean"), header+"namespace SJ.Generated\n\n/-- the Go → SJ.Own printer refused the source of Clone -/\ndef cloneSrcRefused : String := "+strconv.Quote(reason)+"\n\nend SJ.Generated\n")
		fmt.Fprintln(os.Stderr, "clonesrc: translator refused the source: "+reason)
	}
	cmd = exec.Command(os.Args[0], repo, out, "gosrc")
	if msg, err := cmd.CombinedOutput(); err != nil {
		reason := strings.TrimSpace(string(msg))
		writeIfChanged(filepath.Join(out, "GoSrc.lean"), header+"namespace SJ.Generated\n\n/-- the Go → GoSem printer refused the source -/\ndef goSrcRefused : String := "+strconv.Quote(reason)+"\n\nend SJ.Generated\n")
		fmt.Fprintln(os.Stderr, "gosrc: translator refused the source: "+reason)
	}
}

func genConsts(p *pkgInfo, out string) {
	p.localConsts("parseNumber", "maxIntLen")
	p.localConsts("ParseNDStream", "tmpSize")
	p.localConsts("isValidTrueAtom", "tv")
	p.localConsts("isValidFalseAtom", "fv", "mask5")
	p.localConsts("isValidNullAtom", "nv")
	p.localConsts("Serializer.Serialize", "tagBufSize", "valBufSize")
	p.localConsts("internalParsedJson.unifiedMachine", "addOneForRoot")
	var b strings.Builder
	b.WriteString(header)
	b.WriteString("namespace SJ.Generated\n\n")
	emit := func(lean string, v *big.Int) {
		fmt.Fprintf(&b, "def %s : Nat := %s\n", lean, v.String())
	}
	for _, n := range []string{"JSONVALUEMASK", "JSONTAGOFFSET", "JSONTAGMASK", "STRINGBUFBIT", "STRINGBUFMASK", "maxdepth",
		"indexSlots", "indexSize", "indexSizeWithSafetyBuffer",
		"TagString", "TagInteger", "TagUint", "TagFloat", "TagNull", "TagBoolTrue", "TagBoolFalse",
		"TagObjectStart", "TagObjectEnd", "TagArrayStart", "TagArrayEnd", "TagRoot", "TagNop", "TagEnd",
		"TypeNone", "TypeNull", "TypeString", "TypeInt", "TypeUint", "TypeFloat", "TypeBool", "TypeObject", "TypeArray", "TypeRoot",
		"retAddressShift", "retAddressStartConst", "retAddressObjectConst", "retAddressArrayConst",
		"isPartOfNumberFlag", "isFloatOnlyFlag", "isMinusFlag", "isEOVFlag", "isDigitFlag", "isMustHaveDigitNext",
		"FloatOverflowedInteger",
		"stringBits", "stringSize", "stringmask", "serializedVersion",
		"blockTypeUncompressed", "blockTypeS2", "blockTypeZstd", "tagFloatWithFlag",
		"CompressNone", "CompressFast", "CompressDefault", "CompressBest"} {
		emit("c"+n, p.constVal(n))
	}
	emit("cmaxIntLen", p.consts["parseNumber.maxIntLen"])
	emit("ctmpSize", p.consts["ParseNDStream.tmpSize"])
	emit("catomTrue", p.consts["isValidTrueAtom.tv"])
	emit("catomFalse", p.consts["isValidFalseAtom.fv"])
	emit("catomFalseMask", p.consts["isValidFalseAtom.mask5"])
	emit("catomNull", p.consts["isValidNullAtom.nv"])
	emit("ctagBufSize", p.consts["Serializer.Serialize.tagBufSize"])
	emit("cvalBufSize", p.consts["Serializer.Serialize.valBufSize"])
	emit("caddOneForRoot", p.consts["internalParsedJson.unifiedMachine.addOneForRoot"])
	emit("cchanCap", p.chanCap("internalParsedJson.parseMessage"))
	emit("csyncThreshold", p.cmpConst("internalParsedJson.parseMessage", "len(pj.Message)", token.GTR))
	b.WriteString("\n-- typed views used by the model\n")
	for _, n := range []string{"TagString", "TagInteger", "TagUint", "TagFloat", "TagNull", "TagBoolTrue", "TagBoolFalse",
		"TagObjectStart", "TagObjectEnd", "TagArrayStart", "TagArrayEnd", "TagRoot", "TagNop", "TagEnd", "tagFloatWithFlag",
		"TypeNone", "TypeNull", "TypeString", "TypeInt", "TypeUint", "TypeFloat", "TypeBool", "TypeObject", "TypeArray", "TypeRoot"} {
		fmt.Fprintf(&b, "def %s : UInt8 := %s\n", lowerFirst(n), p.constVal(n).String())
	}
	for _, n := range []string{"JSONVALUEMASK", "JSONTAGMASK", "STRINGBUFBIT", "STRINGBUFMASK", "FloatOverflowedInteger"} {
		fmt.Fprintf(&b, "def w%s : UInt64 := %s\n", n, p.constVal(n).String())
	}
	lo, hi := p.floatThresholds()
	fmt.Fprintf(&b, "def cfloatFmtLo : String := %q\n", lo)
	fmt.Fprintf(&b, "def cfloatFmtHi : String := %q\n", hi)
	b.WriteString("\nend SJ.Generated\n")
	writeIfChanged(filepath.Join(out, "Consts.lean"), b.String())
}

func genTables(p *pkgInfo, out string) {
	var b strings.Builder
	b.WriteString(header)
	b.WriteString("namespace SJ.Generated\n\n")
	tab := func(lean, goName string, n int, initLoops bool) {
		t := p.table(goName, n)
		if initLoops {
			p.applyInitLoops(goName, t)
		}
		fmt.Fprintf(&b, "def %s : Array Nat := %s\n\n", lean, leanNatList(t, 32))
	}
	tab("tIsNumberRune", "isNumberRune", 256, false)
	tab("tStructuralOrWhitespaceNegated", "structuralOrWhitespaceNegated", 256, false)
	tab("tJsonMarkup", "jsonMarkupTable", 256, false)
	tab("tShouldEscape", "shouldEscape", 256, true)
	tab("tTagToType", "TagToType", 256, false)
	tab("tTagOpenToClose", "tagOpenToClose", 256, false)
	tab("tValToHex", "valToHex", 16, false)
	b.WriteString("end SJ.Generated\n")
	writeIfChanged(filepath.Join(out, "GoTables.lean"), b.String())
}

func genAsmTables(repo, out string) {
	var b strings.Builder
	b.WriteString(header)
	b.WriteString("namespace SJ.Generated\n\n")
	emit := func(lean, file, sym string) {
		d := asmData(filepath.Join(repo, file))
		bs, ok := d[sym]
		if !ok {
			die("%s: symbol %s not found", file, sym)
		}
		fmt.Fprintf(&b, "/-- %s: %s (%d bytes) -/\ndef %s : Array Nat := %s\n\n", file, sym, len(bs), lean, leanNatList(bytesToBig(bs), 32))
	}
	emit("aParseString", "parse_string_amd64.s", "LCDATA1")
	emit("aWhitespaceStructurals", "find_whitespace_and_structurals_amd64.s", "LCDATA1")
	emit("aQuoteMask", "find_quote_mask_and_bits_amd64.s", "LCDATA1")
	emit("aOddBackslash", "find_odd_backslash_sequences_amd64.s", "LCDATA1")
	emit("aMaskTable", "find_structural_bits_amd64.s", "MASKTABLE")
	emit("aWhitespacePad", "find_structural_bits_amd64.s", "WHITESPACE")
	emit("aMaskTable512", "find_structural_bits_avx512_amd64.s", "MASKTABLE")
	// immediates broadcast by MOVQ $imm in the newline / avx512 odd-backslash kernels
	imm := func(lean, file, text, reg string) {
		for _, ins := range asmText(filepath.Join(repo, file), text) {
			sp := strings.SplitN(ins, " ", 2)
			if len(sp) == 2 && sp[0] == "MOVQ" {
				ops := splitOps(sp[1])
				if ops[1] == reg && strings.HasPrefix(ops[0], "$") {
					v, ok := new(big.Int).SetString(strings.TrimPrefix(ops[0], "$"), 0)
					if ok {
						fmt.Fprintf(&b, "/-- %s: %s, MOVQ %s, %s -/\ndef %s : Nat := %s\n\n", file, text, ops[0], reg, lean, v.String())
						return
					}
				}
			}
		}
		die("%s: immediate for %s in %s not found", file, reg, text)
	}
	// compare immediates of the hand-assembled string kernels (UTF-8 length thresholds, surrogate range,
	// minimum escape distances), decoded from the instruction bytes of each line
	for _, fn := range []struct{ lean, text string }{{"aParseStringCmpValidate", "_parse_string_validate_only"}, {"aParseStringCmpCopy", "_parse_string"}} {
		imms := cmpImmediates(filepath.Join(repo, "parse_string_amd64.s"), fn.text)
		var vals []*big.Int
		for _, v := range imms {
			vals = append(vals, big.NewInt(v))
		}
		fmt.Fprintf(&b, "/-- parse_string_amd64.s: TEXT %s, immediates of every `cmp reg, imm` in program order -/\ndef %s : List Nat := %s\n\n", fn.text, fn.lean, strings.Replace(strings.Replace(leanNatList(vals, 32), "#[", "[", 1), "\n  ", " ", -1))
	}
	imm("aNewlineByte", "find_newline_delimiters_amd64.s", "__find_newline_delimiters", "BX")
	imm("aNewlineByte512", "find_newline_delimiters_amd64.s", "__init_newline_delimiters_avx512", "BX")
	imm("aBackslashByte512", "find_odd_backslash_sequences_amd64.s", "__init_odd_backslash_sequences_avx512", "AX")
	b.WriteString("end SJ.Generated\n")
	writeIfChanged(filepath.Join(out, "AsmTables.lean"), b.String())
}

func genAsmScalar(repo, out string) {
	var b strings.Builder
	b.WriteString(header)
	b.WriteString("set_option linter.unusedVariables false\nnamespace SJ.Generated\n\n")

	// finalize_structurals, AVX2 form: inputs DI=structurals SI=whitespace DX=quote_mask CX=quote_bits, (R8)=prev
	fin := func(lean, text string, kregs bool) {
		ins := asmText(filepath.Join(repo, "finalize_structurals_amd64.s"), text)
		inputs := map[string]string{"DX": "quoteMask", "PREV": "prev"}
		if kregs {
			inputs["K_WHITESPACE"] = "whitespace"
			inputs["K_QUOTEBITS"] = "quoteBits"
			inputs["K_STRUCTURALS"] = "structurals"
		} else {
			inputs["DI"] = "structurals"
			inputs["SI"] = "whitespace"
			inputs["CX"] = "quoteBits"
		}
		t := newTr(inputs, map[string]string{"R8": "PREV"})
		t.run(ins, nil)
		fmt.Fprintf(&b, "/-- finalize_structurals_amd64.s: TEXT %s, one line per instruction. Returns (structurals, prev_iter_ends_pseudo_pred'). -/\n", text)
		fmt.Fprintf(&b, "def %s (structurals whitespace quoteMask quoteBits prev : BitVec 64) : BitVec 64 × BitVec 64 :=\n", lean)
		b.WriteString(strings.Join(t.lines, "\n"))
		fmt.Fprintf(&b, "\n  (%s, %s)\n\n", t.cur("AX"), t.cur("PREV"))
	}
	fin("finalizeAvx2", "__finalize_structurals", false)
	fin("finalizeAvx512", "__finalize_structurals_avx512", true)

	// FIND_ODD_BACKSLASH_SEQUENCES macro: inputs AX = backslash bits, (DX) = prev_iter_ends_odd_backslash
	{
		ins := asmMacro(filepath.Join(repo, "find_odd_backslash_sequences_amd64.s"), "FIND_ODD_BACKSLASH_SEQUENCES")
		t := newTr(map[string]string{"AX": "bsBits", "PREVODD": "prevOdd"}, map[string]string{"DX": "PREVODD"})
		t.run(ins, nil)
		b.WriteString("/-- find_odd_backslash_sequences_amd64.s: macro FIND_ODD_BACKSLASH_SEQUENCES (shared by both kernel families).\n    Returns (odd_ends, prev_iter_ends_odd_backslash'). -/\n")
		b.WriteString("def oddBackslash (bsBits prevOdd : BitVec 64) : BitVec 64 × BitVec 64 :=\n")
		b.WriteString(strings.Join(t.lines, "\n"))
		fmt.Fprintf(&b, "\n  (%s, %s)\n\n", t.cur("AX"), t.cur("PREVODD"))
		// which TEXT blocks expand the macro
		var users []string
		cur := ""
		for _, l := range asmLines(filepath.Join(repo, "find_odd_backslash_sequences_amd64.s")) {
			tl := strings.TrimSpace(l)
			if strings.HasPrefix(tl, "TEXT ·") {
				cur = strings.TrimPrefix(strings.SplitN(tl, "(", 2)[0], "TEXT ·")
			}
			if tl == "FIND_ODD_BACKSLASH_SEQUENCES" {
				users = append(users, cur)
			}
		}
		fmt.Fprintf(&b, "def oddBackslashUsers : List String := %s\n\n", leanStrList(users))
	}

	// scalar tail of __find_quote_mask_and_bits: the instructions between vector ops.
	// AVX2: SI = quote compare mask (64 bit after SHLQ/ORQ), DX = odd_ends; clmul result enters via VMOVQ X2, AX.
	{
		path := filepath.Join(repo, "find_quote_mask_and_bits_amd64.s")
		quoteAvx2(&b, path)
		quoteAvx512(&b, path)
	}
	b.WriteString("end SJ.Generated\n")
	writeIfChanged(filepath.Join(out, "AsmScalar.lean"), b.String())
}

// quoteAvx512 handles the K-register form; K_ERRORMASK is an input (accumulated across blocks).
func quoteAvx512(b *strings.Builder, path string) {
	ins := asmText(path, "__find_quote_mask_and_bits_avx512")
	t := newTr(map[string]string{"DX": "oddEnds", "QUOTECMP": "quoteCmp", "CTRLCMP": "ctrlCmp", "PREVQ": "prevInQuote", "K_ERRORMASK": "errMask"},
		map[string]string{"CX": "PREVQ"})
	for _, s := range ins {
		op := strings.SplitN(s, " ", 2)[0]
		var ops []string
		if sp := strings.SplitN(s, " ", 2); len(sp) == 2 {
			ops = splitOps(sp[1])
		}
		switch op {
		case "VPCMPEQB":
			t.def(ops[2], t.cur("QUOTECMP"), s+"  (lane contract: bit i = byte i == 0x22)")
		case "VPCMPGTB":
			t.def(ops[2], t.cur("CTRLCMP"), s+"  (lane contract: bit i = (byte i xor 0x80) <s 0xa0)")
		case "KNOTQ":
			t.def(ops[1], "~~~ "+t.cur(ops[0]), s)
		case "KANDQ":
			t.def(ops[2], fmt.Sprintf("%s &&& %s", t.cur(ops[1]), t.cur(ops[0])), s)
		case "KORQ":
			t.def(ops[2], fmt.Sprintf("%s ||| %s", t.cur(ops[1]), t.cur(ops[0])), s)
		case "VMOVQ":
			if strings.HasPrefix(ops[0], "X") {
				t.def(ops[1], t.cur("CLMUL"), s)
			} else {
				t.def("CLMULIN", t.cur(ops[0]), s)
			}
		case "VPCMPEQD", "VPXORD":
			// all-ones constant / xor with 0x80: part of the lane contracts
		case "VPCLMULQDQ":
			t.def("CLMUL", "clmulAllOnes "+t.cur("CLMULIN"), s)
		default:
			t.run([]string{s}, nil)
		}
	}
	fmt.Fprintf(b, "/-- find_quote_mask_and_bits_amd64.s: TEXT __find_quote_mask_and_bits_avx512 (K-register form).\n    Returns (quote_mask, quote_bits, error_mask', prev_iter_inside_quote'). -/\n")
	fmt.Fprintf(b, "def quoteTailAvx512 (clmulAllOnes : BitVec 64 → BitVec 64) (quoteCmp ctrlCmp oddEnds prevInQuote errMask : BitVec 64) : BitVec 64 × BitVec 64 × BitVec 64 × BitVec 64 :=\n")
	b.WriteString(strings.Join(t.lines, "\n"))
	fmt.Fprintf(b, "\n  (%s, %s, %s, %s)\n\n", t.cur("AX"), t.cur("K_QUOTEBITS"), t.cur("K_ERRORMASK"), t.cur("PREVQ"))
}

// quoteAvx2 handles the GPR form. VPMOVMSKB of the low/high 32 lanes is modelled as the low/high half of the
// 64-bit lane-contract mask, so SHLQ $32 / ORQ are translated like every other instruction.
func quoteAvx2(b *strings.Builder, path string) {
	ins := asmText(path, "__find_quote_mask_and_bits")
	t := newTr(map[string]string{"DX": "oddEnds", "QUOTECMP": "quoteCmp", "CTRLCMP": "ctrlCmp", "PREVQ": "prevInQuote", "ERR": "errMask"},
		map[string]string{"CX": "PREVQ", "R9": "ERR", "R8": "QBOUT"})
	kind := ""
	seen := map[string]int{}
	for _, s := range ins {
		op := strings.SplitN(s, " ", 2)[0]
		var ops []string
		if sp := strings.SplitN(s, " ", 2); len(sp) == 2 {
			ops = splitOps(sp[1])
		}
		switch op {
		case "VPCMPEQB":
			kind = "QUOTECMP"
		case "VPCMPGTB":
			kind = "CTRLCMP"
		case "VPMOVMSKB":
			if kind == "" {
				die("VPMOVMSKB without compare: %q", s)
			}
			if seen[kind] == 0 {
				t.def(ops[1], fmt.Sprintf("%s &&& (0xffffffff#64)", t.cur(kind)), s+"  (lane contract, low 32 lanes)")
			} else if seen[kind] == 1 {
				t.def(ops[1], fmt.Sprintf("%s >>> 32", t.cur(kind)), s+"  (lane contract, high 32 lanes)")
			} else {
				die("third VPMOVMSKB of one kind: %q", s)
			}
			seen[kind]++
		case "VMOVQ":
			if strings.HasPrefix(ops[0], "X") {
				t.def(ops[1], t.cur("CLMUL"), s)
			} else {
				t.def("CLMULIN", t.cur(ops[0]), s)
			}
		case "VPCLMULQDQ":
			t.def("CLMUL", "clmulAllOnes "+t.cur("CLMULIN"), s)
		case "VMOVDQA", "VPCMPEQD", "VPXOR":
			// loads, all-ones constant, xor with 0x80: part of the lane contracts
		case "LEAQ":
			if !strings.Contains(s, "LCDATA") {
				t.run([]string{s}, nil)
			}
		default:
			t.run([]string{s}, nil)
		}
	}
	fmt.Fprintf(b, "/-- find_quote_mask_and_bits_amd64.s: TEXT __find_quote_mask_and_bits (GPR form); vector compares enter as\n    `quoteCmp` (bit i = byte i == 0x22) and `ctrlCmp` (bit i = (byte i xor 0x80) <s 0xa0), the carry-less multiply by\n    all-ones as the parameter `clmulAllOnes`. Returns (quote_mask, quote_bits, error_mask', prev_iter_inside_quote'). -/\n")
	fmt.Fprintf(b, "def quoteTailAvx2 (clmulAllOnes : BitVec 64 → BitVec 64) (quoteCmp ctrlCmp oddEnds prevInQuote errMask : BitVec 64) : BitVec 64 × BitVec 64 × BitVec 64 × BitVec 64 :=\n")
	b.WriteString(strings.Join(t.lines, "\n"))
	fmt.Fprintf(b, "\n  (%s, %s, %s, %s)\n\n", t.cur("AX"), t.cur("QBOUT"), t.cur("ERR"), t.cur("PREVQ"))
}

func lowerFirst(s string) string { return strings.ToLower(s[:1]) + s[1:] }

var dirRe = regexp.MustCompile(`(WORD|LONG|BYTE|QUAD)\s+\$0x([0-9a-fA-F]+)`)

// lineBytes returns the machine-code bytes a line of WORD/LONG/BYTE directives assembles to.
func lineBytes(line string) []byte {
	var out []byte
	for _, m := range dirRe.FindAllStringSubmatch(line, -1) {
		v, _ := strconv.ParseUint(m[2], 16, 64)
		n := map[string]int{"BYTE": 1, "WORD": 2, "LONG": 4, "QUAD": 8}[m[1]]
		for i := 0; i < n; i++ {
			out = append(out, byte(v>>(8*uint(i))))
		}
	}
	return out
}

// cmpImmediates decodes `cmp r32/r64, imm8/imm32` (opcodes 83 /7, 81 /7, 3D) from every instruction line of a TEXT.
func cmpImmediates(path, name string) []int64 {
	var out []int64
	in := false
	for _, l := range asmLines(path) {
		t := strings.TrimSpace(l)
		if strings.HasPrefix(t, "TEXT ") {
			in = strings.HasPrefix(t, "TEXT ·"+name+"(SB)")
			continue
		}
		if !in {
			continue
		}
		code := strings.SplitN(t, "//", 2)[0]
		b := lineBytes(code)
		if len(b) == 0 {
			continue
		}
		i := 0
		if b[0]&0xf0 == 0x40 { // REX prefix
			i = 1
		}
		if i >= len(b) {
			continue
		}
		le32 := func(k int) int64 {
			return int64(int32(uint32(b[k]) | uint32(b[k+1])<<8 | uint32(b[k+2])<<16 | uint32(b[k+3])<<24))
		}
		switch {
		case b[i] == 0x83 && i+2 < len(b) && b[i+1]&0xf8 == 0xf8: // cmp r/m, imm8 (mod=11, /7)
			out = append(out, int64(int8(b[i+2])))
		case b[i] == 0x81 && i+5 < len(b) && b[i+1]&0xf8 == 0xf8: // cmp r/m, imm32
			out = append(out, le32(i+2))
		case b[i] == 0x3d && i+4 < len(b): // cmp eax, imm32
			out = append(out, le32(i+1))
		case b[i] == 0x80 && i+2 < len(b) && (b[i+1]&0x38 == 0x38): // cmp byte [..], imm8 (last byte is the immediate)
			out = append(out, int64(b[len(b)-1]))
		}
	}
	if len(out) == 0 {
		die("%s: no compare immediates found in %s", path, name)
	}
	return out
}

func leanStrList(xs []string) string {
	var q []string
	for _, x := range xs {
		q = append(q, strconv.Quote(x))
	}
	return "[" + strings.Join(q, ", ") + "]"
}

func leanCases(cs [][][]int64) string {
	var sws []string
	for _, sw := range cs {
		var cls []string
		for _, c := range sw {
			var vs []string
			for _, v := range c {
				if v < 0 {
					vs = append(vs, "256") // default marker
				} else {
					vs = append(vs, strconv.FormatInt(v, 10))
				}
			}
			cls = append(cls, "["+strings.Join(vs, ", ")+"]")
		}
		sws = append(sws, "["+strings.Join(cls, ", ")+"]")
	}
	return "[" + strings.Join(sws, ",\n   ") + "]"
}

func genFacts(p *pkgInfo, repo, out string) {
	var b strings.Builder
	b.WriteString(header)
	b.WriteString("namespace SJ.Generated\n\n")

	// switch-case structure on tags of the functions whose gates the model mirrors
	b.WriteString("/-- For each function: every `switch` on a tag expression, as a list of case clauses (256 = default). -/\n")
	for _, f := range []struct{ lean, fn string }{
		{"swSetFloat", "Iter.SetFloat"}, {"swSetInt", "Iter.SetInt"}, {"swSetUInt", "Iter.SetUInt"},
		{"swSetStringBytes", "Iter.SetStringBytes"}, {"swSetBool", "Iter.SetBool"}, {"swSetNull", "Iter.SetNull"},
		{"swCalcNext", "Iter.calcNext"}, {"swFloat", "Iter.Float"}, {"swInt", "Iter.Int"}, {"swUint", "Iter.Uint"},
		{"swStringCvt", "Iter.StringCvt"}, {"swBool", "Iter.Bool"},
		{"swSerialize", "Serializer.Serialize"}, {"swDeserialize", "Serializer.Deserialize"},
		{"swMarshal", "Iter.MarshalJSONBuffer"}, {"swFindElement", "Iter.FindElement"},
		{"swNextElementBytes", "Object.NextElementBytes"},
	} {
		cs := p.switchCases(f.fn, "i.t", "tag", "ntype", "cp.t", "Tag(v >> 56)")
		fmt.Fprintf(&b, "def %s : List (List (List Nat)) :=\n  %s\n\n", f.lean, leanCases(cs))
	}

	// package-level variables with their types / initialisers
	var names []string
	for n := range p.vars {
		names = append(names, n)
	}
	sort.Strings(names)
	b.WriteString("/-- Package-level variables: (name, type-or-initialiser head). -/\ndef packageVars : List (String × String) := [\n")
	first := true
	for _, n := range names {
		vs := p.vars[n]
		// only package level: check that the spec is in a file-level decl
		if !isPackageLevel(p, vs) {
			continue
		}
		desc := ""
		if vs.Type != nil {
			desc = src(vs.Type)
		} else if len(vs.Values) > 0 {
			desc = head(src(vs.Values[0]))
		}
		if !first {
			b.WriteString(",\n")
		}
		first = false
		fmt.Fprintf(&b, "  (%q, %q)", n, desc)
	}
	b.WriteString("]\n\n")

	// go statements and sync.Pool Get/Put sites with enclosing function
	var gos, pools, assigns, ringRefs []string
	var fnames []string
	for n := range p.funcs {
		fnames = append(fnames, n)
	}
	sort.Strings(fnames)
	for _, fn := range fnames {
		fd := p.funcs[fn]
		if fd.Body == nil {
			continue
		}
		ast.Inspect(fd.Body, func(n ast.Node) bool {
			switch x := n.(type) {
			case *ast.GoStmt:
				gos = append(gos, fn)
			case *ast.SelectorExpr:
				// every mention of the index-buffer ring and of the channel between the stages
				if x.Sel.Name == "buffers" || x.Sel.Name == "buffersOffset" || x.Sel.Name == "indexChans" {
					ringRefs = append(ringRefs, fn+":"+x.Sel.Name)
				}
			case *ast.CallExpr:
				if se, ok := x.Fun.(*ast.SelectorExpr); ok && (se.Sel.Name == "Get" || se.Sel.Name == "Put") {
					pools = append(pools, fn+":"+src(se.X)+"."+se.Sel.Name)
				}
			}
			return true
		})
	}
	for _, fn := range []string{"internalParsedJson.initialize", "internalParsedJson.parseMessage", "newInternalParsedJson"} {
		fd := p.funcs[fn]
		if fd == nil {
			die("function %s not found", fn)
		}
		ast.Inspect(fd.Body, func(n ast.Node) bool {
			if as, ok := n.(*ast.AssignStmt); ok {
				for _, l := range as.Lhs {
					ls := src(l)
					if strings.HasPrefix(ls, "pj.") {
						assigns = append(assigns, fn+":"+ls)
					}
				}
			}
			return true
		})
	}
	// uses of the per-call parser state: for every field of internalParsedJson, the functions that mention it other than
	// as the whole left-hand side of an assignment (reads, appends, index expressions, address-of)
	{
		fieldSet := map[string]bool{}
		for _, f := range p.files {
			ast.Inspect(f, func(n ast.Node) bool {
				ts, ok := n.(*ast.TypeSpec)
				if !ok || ts.Name.Name != "internalParsedJson" {
					return true
				}
				if st, ok := ts.Type.(*ast.StructType); ok {
					for _, fl := range st.Fields.List {
						for _, nm := range fl.Names {
							fieldSet[nm.Name] = true
						}
					}
				}
				return false
			})
		}
		var fnNames []string
		for n := range p.funcs {
			fnNames = append(fnNames, n)
		}
		sort.Strings(fnNames)
		var reads []string
		for _, fn := range fnNames {
			fd := p.funcs[fn]
			if fd.Body == nil {
				continue
			}
			lhs := map[ast.Expr]bool{}
			ast.Inspect(fd.Body, func(n ast.Node) bool {
				if as, ok := n.(*ast.AssignStmt); ok && as.Tok == token.ASSIGN {
					for _, l := range as.Lhs {
						lhs[l] = true
					}
				}
				return true
			})
			seen := map[string]bool{}
			ast.Inspect(fd.Body, func(n ast.Node) bool {
				se, ok := n.(*ast.SelectorExpr)
				if !ok || !fieldSet[se.Sel.Name] || lhs[se] {
					return true
				}
				if id, ok := se.X.(*ast.Ident); !ok || id.Name != "pj" {
					return true
				}
				key := fn + ":" + se.Sel.Name
				if !seen[key] {
					seen[key] = true
					reads = append(reads, key)
				}
				return true
			})
		}
		fmt.Fprintf(&b, "/-- (function, field) pairs: the function mentions `pj.<field>` of the per-call parser state other than as the\n    left-hand side of a plain assignment -/\ndef parserFieldUses : List String := %s\n\n", leanStrList(reads))
		var usedFields []string
		seenF := map[string]bool{}
		for _, r := range reads {
			f := r[strings.LastIndex(r, ":")+1:]
			if !seenF[f] {
				seenF[f] = true
				usedFields = append(usedFields, f)
			}
		}
		sort.Strings(usedFields)
		fmt.Fprintf(&b, "/-- the fields that are used (read) somewhere -/\ndef parserFieldsUsed : List String := %s\n\n", leanStrList(usedFields))
		// normalised source of the entry points that set up and tear down a parse (one statement per entry)
		for _, fn := range []struct{ lean, name string }{{"srcInitialize", "internalParsedJson.initialize"}, {"srcParseMessage", "internalParsedJson.parseMessage"}, {"srcNewInternal", "newInternalParsedJson"}} {
			fd := p.funcs[fn.name]
			if fd == nil {
				die("function %s not found", fn.name)
			}
			var lines []string
			for _, st := range fd.Body.List {
				if es, ok := st.(*ast.ExprStmt); ok {
					if c, ok := es.X.(*ast.CallExpr); ok {
						if id, ok := c.Fun.(*ast.Ident); ok && id.Name == "verifEvent" {
							continue
						}
					}
				}
				txt := src(st)
				// drop hook lines and comments, squeeze white space
				var keep []string
				for _, l := range strings.Split(txt, "\n") {
					t := strings.TrimSpace(l)
					if t == "" || strings.HasPrefix(t, "//") || strings.HasPrefix(t, "verifEvent(") {
						continue
					}
					if i := strings.Index(t, " //"); i >= 0 {
						t = strings.TrimSpace(t[:i])
					}
					keep = append(keep, t)
				}
				lines = append(lines, strings.Join(keep, " "))
			}
			fmt.Fprintf(&b, "def %s : List String := %s\n\n", fn.lean, leanStrList(lines))
		}
	}
	fmt.Fprintf(&b, "def goStatements : List String := %s\n\n", leanStrList(gos))
	fmt.Fprintf(&b, "def poolSites : List String := %s\n\n", leanStrList(pools))
	fmt.Fprintf(&b, "def ringRefs : List String := %s\n\n", leanStrList(ringRefs))
	fmt.Fprintf(&b, "def parseAssignments : List String := %s\n\n", leanStrList(assigns))

	// struct fields
	for _, st := range []string{"internalParsedJson", "Serializer", "ParsedJson", "Iter"} {
		var fields []string
		for _, f := range p.files {
			ast.Inspect(f, func(n ast.Node) bool {
				ts, ok := n.(*ast.TypeSpec)
				if !ok || ts.Name.Name != st {
					return true
				}
				if s, ok := ts.Type.(*ast.StructType); ok {
					for _, fl := range s.Fields.List {
						if len(fl.Names) == 0 {
							fields = append(fields, src(fl.Type))
						}
						for _, nm := range fl.Names {
							fields = append(fields, nm.Name)
						}
					}
				}
				return false
			})
		}
		fmt.Fprintf(&b, "def fields%s : List String := %s\n\n", st, leanStrList(fields))
	}

	// exported API surface (functions and methods on exported types)
	var api []string
	for _, fn := range fnames {
		parts := strings.Split(fn, ".")
		exp := true
		for _, s := range parts {
			if s == "" || !ast.IsExported(s) {
				exp = false
			}
		}
		if exp {
			api = append(api, fn)
		}
	}
	fmt.Fprintf(&b, "def exportedAPI : List String := %s\n\n", leanStrList(api))

	// build tags of the assembly and amd64 files
	var tags []string
	ents, _ := os.ReadDir(repo)
	for _, e := range ents {
		n := e.Name()
		if !(strings.HasSuffix(n, ".s") || strings.HasSuffix(n, ".go")) || strings.HasSuffix(n, "_test.go") || strings.HasPrefix(n, "verif_") {
			continue
		}
		bs, _ := os.ReadFile(filepath.Join(repo, n))
		for _, l := range strings.SplitN(string(bs), "\n", 6) {
			if strings.HasPrefix(l, "//go:build") || strings.HasPrefix(l, "//+build") || strings.HasPrefix(l, "// +build") {
				tags = append(tags, n+": "+strings.TrimSpace(l))
			}
		}
	}
	fmt.Fprintf(&b, "def buildTags : List String := %s\n\n", leanStrList(tags))
	b.WriteString("end SJ.Generated\n")
	writeIfChanged(filepath.Join(out, "GoFacts.lean"), b.String())
}

func isPackageLevel(p *pkgInfo, vs *ast.ValueSpec) bool {
	for _, f := range p.files {
		for _, d := range f.Decls {
			if gd, ok := d.(*ast.GenDecl); ok {
				for _, s := range gd.Specs {
					if s == vs {
						return true
					}
				}
			}
		}
	}
	return false
}

func head(s string) string {
	if i := strings.IndexAny(s, "{\n"); i >= 0 {
		s = s[:i]
	}
	if len(s) > 60 {
		s = s[:60]
	}
	return strings.TrimSpace(s)
}

// ---------------------------------------------------------------- stage-2 goto machine (unifiedMachine)
//
// The body of unifiedMachine is compiled into a small control-flow graph and then *executed* for every
// (updateChar call site, byte) pair, assuming `done == false` and that every guard call succeeds. Whatever is
// not one of the statement shapes listed here makes the extractor refuse.

const (
	s2Label   = iota // named join point; next = first node of the labelled statement
	s2Act            // records an action, continues with next
	s2Branch         // cond(b) ? next : alt
	s2Switch         // tbl[b]
	s2Site           // updateChar call site
	s2Fail           // return false, done
	s2Ret            // successor decided by the popped return code (after the scopeEnd action)
	s2Succeed        // the succeed: block (only entered with done == true)
)

type s2node struct {
	kind      int
	act       string
	cond      func(b int) bool
	tbl       [256]*s2node
	tblLine   [256]int
	next, alt *s2node
	line      int
	pos       token.Pos
	site      int
	label     string
	defined   bool
}

type s2ret struct {
	name   string // constant name, "" for default
	val    int64
	target string // label
	line   int
}

type s2c struct {
	p          *pkgInfo
	labels     map[string]*s2node
	labelOrder []string
	sites      []*s2node
	rets       []s2ret
	retMask    int64
	scopeEnd   []string
	reopen     []string
	succeed    []string
	nScopeEnd  int
}

func s2line(n ast.Node) int { return fset.Position(n.Pos()).Line }

func nows(s string) string { return strings.Join(strings.Fields(s), "") }

func (c *s2c) label(name string) *s2node {
	if n, ok := c.labels[name]; ok {
		return n
	}
	n := &s2node{kind: s2Label, label: name}
	c.labels[name] = n
	return n
}

func s2die(n ast.Node, format string, a ...interface{}) {
	die("unifiedMachine line %d: %s: %s", s2line(n), fmt.Sprintf(format, a...), src(n))
}

// isGoto reports whether body is exactly `{ goto <label> }` and returns the label.
func isGoto(body *ast.BlockStmt) (string, bool) {
	if body == nil || len(body.List) != 1 {
		return "", false
	}
	bs, ok := body.List[0].(*ast.BranchStmt)
	if !ok || bs.Tok != token.GOTO || bs.Label == nil {
		return "", false
	}
	return bs.Label.Name, true
}

var s2pushRe = regexp.MustCompile(`^append\(pj\.containingScopeOffset,\(pj\.get_current_loc\(\)<<retAddressShift\)\|(retAddress\w+Const)\)$`)

const (
	s2srcTop   = "offset=pj.containingScopeOffset[len(pj.containingScopeOffset)-1]"
	s2srcPop   = "pj.containingScopeOffset=pj.containingScopeOffset[:len(pj.containingScopeOffset)-1]"
	s2srcUpd   = "done,idx=updateChar(pj,idx)"
	s2srcAt    = "offset>>retAddressShift"
	s2srcRetSw = "offset&((1<<retAddressShift)-1)"
)

// guard calls: `if !<call> { goto fail }`, assumed to succeed
var s2guards = map[string]string{
	"parseString(&pj.ParsedJson,idx,peekSize(pj),pj.copyStrings)": "parseString",
	"isValidTrueAtom(buf[idx:])":                                  "true",
	"isValidFalseAtom(buf[idx:])":                                 "false",
	"isValidNullAtom(buf[idx:])":                                  "null",
	"addNumber(buf[idx:],&pj.ParsedJson)":                         "number",
}

// declarations at the head of the function that carry no action
var s2decls = map[string]bool{
	"buf:=pj.Message": true, "constaddOneForRoot=1": true, "idx:=^uint64(0)": true, "offset:=uint64(0)": true,
}

func s2char(e ast.Expr) (string, bool) {
	bl, ok := e.(*ast.BasicLit)
	if !ok || bl.Kind != token.CHAR {
		return "", false
	}
	r, _, _, err := strconv.UnquoteChar(bl.Value[1:len(bl.Value)-1], '\'')
	if err != nil || r < 0x20 || r > 0x7e {
		return "", false
	}
	return string(r), true
}

// byteCond turns a condition over buf[idx] and constants into a predicate on the byte.
func (c *s2c) byteCond(e ast.Expr) func(b int) bool {
	switch x := e.(type) {
	case *ast.ParenExpr:
		return c.byteCond(x.X)
	case *ast.BinaryExpr:
		switch x.Op {
		case token.LAND:
			l, r := c.byteCond(x.X), c.byteCond(x.Y)
			return func(b int) bool { return l(b) && r(b) }
		case token.LOR:
			l, r := c.byteCond(x.X), c.byteCond(x.Y)
			return func(b int) bool { return l(b) || r(b) }
		case token.EQL, token.NEQ, token.LSS, token.LEQ, token.GTR, token.GEQ:
			if nows(src(x.X)) != "buf[idx]" {
				s2die(e, "comparison whose left side is not buf[idx]")
			}
			if _, ok := x.Y.(*ast.BasicLit); !ok {
				s2die(e, "comparison of buf[idx] against a non-literal")
			}
			k := int(c.p.eval(x.Y, 0).Int64())
			if k < 0 || k > 255 {
				s2die(e, "comparison constant out of byte range")
			}
			op := x.Op
			return func(b int) bool {
				switch op {
				case token.EQL:
					return b == k
				case token.NEQ:
					return b != k
				case token.LSS:
					return b < k
				case token.LEQ:
					return b <= k
				case token.GTR:
					return b > k
				}
				return b >= k
			}
		}
	}
	s2die(e, "unsupported condition")
	return nil
}

func (c *s2c) act(name string, n ast.Node, next *s2node) *s2node {
	return &s2node{kind: s2Act, act: name, next: next, line: s2line(n)}
}

// block compiles list[i:] with continuation next; brk is the target of an unlabelled break.
func (c *s2c) block(list []ast.Stmt, i int, next, brk *s2node) *s2node {
	if i >= len(list) {
		return next
	}
	st := list[i]
	lbl := ""
	if ls, ok := st.(*ast.LabeledStmt); ok {
		lbl = ls.Label.Name
		st = ls.Stmt
		if _, ok := st.(*ast.LabeledStmt); ok {
			s2die(st, "doubly labelled statement")
		}
	}
	var n *s2node
	if as, ok := st.(*ast.AssignStmt); ok && nows(src(as)) == s2srcTop {
		k, f := c.popSequence(lbl, list, i)
		n = f(func() *s2node { return c.block(list, i+k, next, brk) })
	} else {
		n = c.stmt(st, func() *s2node { return c.block(list, i+1, next, brk) }, brk)
	}
	if lbl == "" {
		return n
	}
	l := c.label(lbl)
	if l.defined {
		s2die(st, "label %s defined twice", lbl)
	}
	l.defined, l.next, l.line, l.pos = true, n, s2line(list[i]), list[i].Pos()
	c.labelOrder = append(c.labelOrder, lbl)
	return l
}

// callStmt matches `<fun>(<args…>)` as an expression statement and returns the white-space-free arguments.
func callStmt(st ast.Stmt, fun string, nargs int) ([]ast.Expr, bool) {
	es, ok := st.(*ast.ExprStmt)
	if !ok {
		return nil, false
	}
	ce, ok := es.X.(*ast.CallExpr)
	if !ok || nows(src(ce.Fun)) != fun || len(ce.Args) != nargs {
		return nil, false
	}
	return ce.Args, true
}

// popSequence recognises the three statement sequences that start by reading the top of containingScopeOffset:
// the scopeEnd block, the root re-open sequence of startContinue and the succeed block. It returns the number of
// statements consumed and a constructor taking the (lazily compiled) rest of the block.
func (c *s2c) popSequence(lbl string, list []ast.Stmt, i int) (int, func(rest func() *s2node) *s2node) {
	at := func(k int) ast.Stmt {
		if i+k >= len(list) {
			s2die(list[i], "statement sequence after the read of the scope stack ends early")
		}
		return list[i+k]
	}
	isSrc := func(k int, want string) bool { return nows(src(at(k))) == want }
	if !isSrc(1, s2srcPop) {
		s2die(at(1), "expected the pop of containingScopeOffset")
	}
	// write_tape(offset>>retAddressShift, X)
	writeAt := func(k int) (string, bool) {
		args, ok := callStmt(at(k), "pj.write_tape", 2)
		if !ok || nows(src(args[0])) != s2srcAt {
			return "", false
		}
		if ch, ok := s2char(args[1]); ok {
			return "write@:" + ch, true
		}
		if nows(src(args[1])) == "buf[idx]" {
			return "write@:buf[idx]", true
		}
		return "", false
	}
	// annotate_previousloc(offset>>retAddressShift, pj.get_current_loc()[+addOneForRoot])
	annot := func(k int) (string, bool) {
		args, ok := callStmt(at(k), "pj.annotate_previousloc", 2)
		if !ok || nows(src(args[0])) != s2srcAt {
			return "", false
		}
		switch nows(src(args[1])) {
		case "pj.get_current_loc()":
			return "annotate:loc", true
		case "pj.get_current_loc()+addOneForRoot":
			return "annotate:loc+addOneForRoot", true
		}
		return "", false
	}
	push := func(k int) (string, bool) {
		as, ok := at(k).(*ast.AssignStmt)
		if !ok || as.Tok != token.ASSIGN || len(as.Lhs) != 1 || len(as.Rhs) != 1 || nows(src(as.Lhs[0])) != "pj.containingScopeOffset" {
			return "", false
		}
		m := s2pushRe.FindStringSubmatch(nows(src(as.Rhs[0])))
		if m == nil {
			return "", false
		}
		return "push:" + m[1], true
	}
	write0 := func(k int) (string, bool) {
		args, ok := callStmt(at(k), "pj.write_tape", 2)
		if !ok || nows(src(args[0])) != "0" {
			return "", false
		}
		ch, ok := s2char(args[1])
		return "write:" + ch, ok
	}
	first := list[i]

	// --- scopeEnd: pop; write_tape(at, buf[idx]); annotate(at, loc); switch offset & mask
	if w, ok := writeAt(2); ok && w == "write@:buf[idx]" {
		a, ok := annot(3)
		if !ok || a != "annotate:loc" {
			s2die(at(3), "scopeEnd: expected annotate_previousloc(offset>>retAddressShift, pj.get_current_loc())")
		}
		sw, ok := at(4).(*ast.SwitchStmt)
		if !ok || sw.Init != nil || sw.Tag == nil || nows(src(sw.Tag)) != s2srcRetSw {
			s2die(at(4), "scopeEnd: expected the switch on the return code")
		}
		if lbl != "scopeEnd" || c.nScopeEnd != 0 {
			s2die(first, "scope-end sequence outside the (single) scopeEnd: block")
		}
		c.nScopeEnd++
		c.retMask = c.p.eval(sw.Tag.(*ast.BinaryExpr).Y, 0).Int64()
		seenDefault := false
		for _, cl := range sw.Body.List {
			cc := cl.(*ast.CaseClause)
			target, ok := isGoto(&ast.BlockStmt{List: cc.Body})
			if !ok {
				s2die(cc, "scopeEnd: case body is not a single goto")
			}
			c.label(target)
			if cc.List == nil {
				seenDefault = true
				c.rets = append(c.rets, s2ret{name: "", val: -1, target: target, line: s2line(cc)})
				continue
			}
			for _, e := range cc.List {
				id, ok := e.(*ast.Ident)
				if !ok {
					s2die(cc, "scopeEnd: case value is not a named constant")
				}
				c.rets = append(c.rets, s2ret{name: id.Name, val: c.p.eval(e, 0).Int64(), target: target, line: s2line(cc)})
			}
		}
		if !seenDefault {
			s2die(sw, "scopeEnd: return-code switch without default")
		}
		c.scopeEnd = []string{"pop", w, a, "dispatch"}
		return 5, func(rest func() *s2node) *s2node {
			// every clause leaves by goto, so the statements after the switch are not reachable from here;
			// they are still compiled (they carry labels)
			rest()
			return c.act("scopeEnd", first, &s2node{kind: s2Ret, line: s2line(sw)})
		}
	}

	// --- succeed: pop; if len(stack) != 0 { return false, done }; annotate(+1); write_tape(at,'r'); isvalid = true; return true, done
	if ifs, ok := at(2).(*ast.IfStmt); ok {
		if lbl != "succeed" || ifs.Init != nil || ifs.Else != nil || nows(src(ifs.Cond)) != "len(pj.containingScopeOffset)!=0" ||
			len(ifs.Body.List) != 1 || nows(src(ifs.Body.List[0])) != "returnfalse,done" {
			s2die(ifs, "succeed: expected `if len(pj.containingScopeOffset) != 0 { return false, done }`")
		}
		a, ok1 := annot(3)
		w, ok2 := writeAt(4)
		if !ok1 || !ok2 || a != "annotate:loc+addOneForRoot" || w != "write@:r" || !isSrc(5, "pj.isvalid=true") || !isSrc(6, "returntrue,done") {
			s2die(first, "succeed: block has an unexpected shape")
		}
		c.succeed = []string{"pop", "requireEmpty", a, w, "isvalid", "return:true"}
		return 7, func(rest func() *s2node) *s2node {
			rest()
			return &s2node{kind: s2Succeed, line: s2line(first)}
		}
	}

	// --- root re-open: pop; annotate(+1); write_tape(at,'r'); push start; write_tape(0,'r')
	a, ok1 := annot(2)
	w, ok2 := writeAt(3)
	pu, ok3 := push(4)
	w0, ok4 := write0(5)
	if ok1 && ok2 && ok3 && ok4 && a == "annotate:loc+addOneForRoot" && w == "write@:r" && pu == "push:retAddressStartConst" && w0 == "write:r" {
		if c.reopen != nil {
			s2die(first, "second root re-open sequence")
		}
		c.reopen = []string{"pop", a, w, pu, w0}
		return 6, func(rest func() *s2node) *s2node { return c.act("reopenRoot", first, rest()) }
	}
	s2die(first, "read of the scope stack that starts none of: scopeEnd, succeed, root re-open")
	return 0, nil
}

func (c *s2c) stmt(st ast.Stmt, rest func() *s2node, brk *s2node) *s2node {
	switch x := st.(type) {
	case *ast.DeclStmt, *ast.EmptyStmt:
		if _, ok := st.(*ast.EmptyStmt); ok || s2decls[nows(src(st))] {
			return rest()
		}
	case *ast.AssignStmt:
		if x.Tok == token.DEFINE && s2decls[nows(src(st))] {
			return rest()
		}
		if x.Tok == token.ASSIGN && len(x.Lhs) == 1 && len(x.Rhs) == 1 && nows(src(x.Lhs[0])) == "pj.containingScopeOffset" {
			if m := s2pushRe.FindStringSubmatch(nows(src(x.Rhs[0]))); m != nil {
				c.p.constVal(m[1])
				return c.act("push:"+m[1], st, rest())
			}
		}
	case *ast.ExprStmt:
		if args, ok := callStmt(st, "pj.write_tape", 2); ok && nows(src(args[0])) == "0" {
			if ch, ok := s2char(args[1]); ok {
				return c.act("write:"+ch, st, rest())
			}
		}
	case *ast.BranchStmt:
		switch {
		case x.Tok == token.GOTO && x.Label != nil:
			rest() // statements after a goto are compiled for their labels only
			return c.label(x.Label.Name)
		case x.Tok == token.BREAK && x.Label == nil && brk != nil:
			rest()
			return brk
		}
	case *ast.ReturnStmt:
		if nows(src(st)) == "returnfalse,done" {
			rest()
			return &s2node{kind: s2Fail, line: s2line(st)}
		}
	case *ast.BlockStmt:
		after := rest()
		return c.block(x.List, 0, after, brk)
	case *ast.IfStmt:
		if x.Init != nil {
			// if done, idx = updateChar(pj, idx); done { goto succeed } [else { … }]
			target, ok := isGoto(x.Body)
			if nows(src(x.Init)) != s2srcUpd || nows(src(x.Cond)) != "done" || !ok || target != "succeed" {
				break
			}
			c.label("succeed")
			after := rest()
			n := &s2node{kind: s2Site, line: s2line(st), pos: st.Pos(), next: after}
			if x.Else != nil {
				n.next = c.stmt(x.Else, func() *s2node { return after }, brk)
			}
			c.sites = append(c.sites, n)
			return n
		}
		if ue, ok := x.Cond.(*ast.UnaryExpr); ok && ue.Op == token.NOT {
			// guard: if !call(…) { goto fail }
			name, known := s2guards[nows(src(ue.X))]
			target, ok := isGoto(x.Body)
			if !known || !ok || target != "fail" || x.Else != nil {
				break
			}
			c.label("fail")
			return c.act(name, st, rest())
		}
		after := rest()
		n := &s2node{kind: s2Branch, cond: c.byteCond(x.Cond), line: s2line(st), alt: after}
		n.next = c.block(x.Body.List, 0, after, brk)
		if x.Else != nil {
			n.alt = c.stmt(x.Else, func() *s2node { return after }, brk)
		}
		return n
	case *ast.ForStmt:
		if x.Init != nil || x.Post != nil || x.Cond == nil {
			break
		}
		after := rest()
		n := &s2node{kind: s2Branch, cond: c.byteCond(x.Cond), line: s2line(st), alt: after}
		n.next = c.block(x.Body.List, 0, n, after)
		return n
	case *ast.SwitchStmt:
		if x.Init != nil || x.Tag == nil || nows(src(x.Tag)) != "buf[idx]" {
			break
		}
		after := rest()
		n := &s2node{kind: s2Switch, line: s2line(st)}
		var def *s2node
		defLine := 0
		for _, cl := range x.Body.List {
			cc := cl.(*ast.CaseClause)
			for _, s := range cc.Body {
				if bs, ok := s.(*ast.BranchStmt); ok && bs.Tok == token.FALLTHROUGH {
					s2die(cc, "fallthrough")
				}
			}
			body := c.block(cc.Body, 0, after, after)
			if cc.List == nil {
				if def != nil {
					s2die(cc, "second default clause")
				}
				def, defLine = body, s2line(cc)
				continue
			}
			for _, e := range cc.List {
				if _, ok := e.(*ast.BasicLit); !ok {
					s2die(cc, "case value is not a literal")
				}
				k := c.p.eval(e, 0).Int64()
				if k < 0 || k > 255 || n.tbl[k] != nil {
					s2die(cc, "case value out of range or repeated")
				}
				n.tbl[k], n.tblLine[k] = body, s2line(cc)
			}
		}
		if def == nil {
			def, defLine = after, s2line(st)
		}
		for k := range n.tbl {
			if n.tbl[k] == nil {
				n.tbl[k], n.tblLine[k] = def, defLine
			}
		}
		return n
	}
	s2die(st, "statement shape not understood")
	return nil
}

type s2result struct {
	fail bool
	acts []string
	succ int // site number, -1 = by return code
	line int // source line of the last decision that depended on the byte
}

// run executes from n with buf[idx] = b (b < 0: the byte must not be looked at) up to the next call site.
func (c *s2c) run(n *s2node, b int, what string) s2result {
	var r s2result
	look := func(n *s2node) {
		if b < 0 {
			die("unifiedMachine line %d: %s looks at buf[idx]", n.line, what)
		}
	}
	for steps := 0; steps < 100000; steps++ {
		if n == nil {
			die("unifiedMachine: %s runs off the end of the function", what)
		}
		switch n.kind {
		case s2Label:
			if !n.defined {
				die("unifiedMachine: goto undefined label %s", n.label)
			}
			n = n.next
		case s2Act:
			r.acts = append(r.acts, n.act)
			n = n.next
		case s2Branch:
			look(n)
			r.line = n.line
			if n.cond(b) {
				n = n.next
			} else {
				n = n.alt
			}
		case s2Switch:
			look(n)
			r.line = n.tblLine[b]
			n = n.tbl[b]
		case s2Site:
			r.succ = n.site
			return r
		case s2Fail:
			return s2result{fail: true, line: r.line}
		case s2Ret:
			if len(r.acts) == 0 || r.acts[len(r.acts)-1] != "scopeEnd" {
				die("unifiedMachine: return-code dispatch not preceded by scopeEnd")
			}
			r.succ = -1
			return r
		case s2Succeed:
			die("unifiedMachine line %d: %s reaches succeed: with done == false", n.line, what)
		default:
			die("unifiedMachine: bad node")
		}
	}
	die("unifiedMachine: %s does not reach a call site (loop without updateChar)", what)
	return r
}

func (c *s2c) siteOfLabel(name string) (int, bool) {
	n := c.labels[name]
	for i := 0; n != nil && n.kind == s2Label && i < 100; i++ {
		n = n.next
	}
	if n != nil && n.kind == s2Site {
		return n.site, true
	}
	return 0, false
}

func leanNats(xs []int) string {
	var q []string
	for _, x := range xs {
		q = append(q, strconv.Itoa(x))
	}
	return "[" + strings.Join(q, ", ") + "]"
}

func byteNames(xs []int) string {
	var q []string
	for _, x := range xs {
		switch {
		case x == '\n':
			q = append(q, `'\n'`)
		case x >= 0x21 && x <= 0x7e:
			q = append(q, "'"+string(rune(x))+"'")
		default:
			q = append(q, fmt.Sprintf("0x%02x", x))
		}
	}
	if len(q) > 4 && xs[len(xs)-1]-xs[0] == len(xs)-1 {
		return fmt.Sprintf("%s … %s", q[0], q[len(q)-1])
	}
	return strings.Join(q, " ")
}

func genStage2Table(p *pkgInfo, out string) {
	const fn = "internalParsedJson.unifiedMachine"
	fd, ok := p.funcs[fn]
	if !ok || fd.Body == nil {
		die("function %s not found", fn)
	}
	file := filepath.Base(fset.Position(fd.Pos()).Filename)
	c := &s2c{p: p, labels: map[string]*s2node{}}
	entry := c.block(fd.Body.List, 0, nil, nil)
	for name, l := range c.labels {
		if !l.defined {
			die("unifiedMachine: label %s used but not defined", name)
		}
	}
	if c.nScopeEnd != 1 || c.succeed == nil || c.reopen == nil {
		die("unifiedMachine: scopeEnd / succeed / root re-open block not found")
	}
	if l, ok := c.labels["fail"]; !ok || l.next == nil || l.next.kind != s2Fail {
		die("unifiedMachine: fail: is not `return false, done`")
	}
	if l, ok := c.labels["succeed"]; !ok || l.next == nil || l.next.kind != s2Succeed {
		die("unifiedMachine: succeed: block not recognised")
	}
	// number the call sites and the labels in source order
	sort.Slice(c.sites, func(i, j int) bool { return c.sites[i].pos < c.sites[j].pos })
	for i, s := range c.sites {
		s.site = i
	}
	sort.Slice(c.labelOrder, func(i, j int) bool { return c.labels[c.labelOrder[i]].pos < c.labels[c.labelOrder[j]].pos })
	// every updateChar call of the function must be one of the recognised sites
	calls := 0
	ast.Inspect(fd.Body, func(n ast.Node) bool {
		if ce, ok := n.(*ast.CallExpr); ok && src(ce.Fun) == "updateChar" {
			calls++
		}
		return true
	})
	if calls != len(c.sites) {
		die("unifiedMachine: %d calls of updateChar, %d recognised call sites", calls, len(c.sites))
	}

	var b strings.Builder
	b.WriteString(header)
	fmt.Fprintf(&b, "-- Control skeleton of `unifiedMachine` (%s), obtained by executing the statements that follow each\n", file)
	b.WriteString("-- call site of `updateChar` for every value of buf[idx], with `done == false` and every guard call succeeding.\n")
	b.WriteString("namespace SJ.Generated\n\n")

	// START prologue
	pro := c.run(entry, -1, "the START prologue")
	if pro.fail || pro.succ != 0 {
		die("unifiedMachine: the START prologue does not reach the first call site")
	}
	fmt.Fprintf(&b, "/-- actions between function entry and the first call site -/\ndef stage2Prologue : List String := %s\n\n", leanStrList(pro.acts))

	// enclosing label of each site
	var siteLines []int
	var siteLabels []string
	for _, s := range c.sites {
		siteLines = append(siteLines, s.line)
		lab := ""
		for _, name := range c.labelOrder {
			if c.labels[name].pos <= s.pos {
				lab = name
			}
		}
		siteLabels = append(siteLabels, lab)
	}
	fmt.Fprintf(&b, "/-- source line of each call site of `updateChar`, in source order -/\ndef stage2SiteLines : List Nat := %s\n\n", leanNats(siteLines))
	fmt.Fprintf(&b, "/-- the label whose block contains the call site (\"\" = before the first label) -/\ndef stage2SiteLabels : List String := %s\n\n", leanStrList(siteLabels))

	var ls []string
	for _, name := range c.labelOrder {
		if s, ok := c.siteOfLabel(name); ok {
			ls = append(ls, fmt.Sprintf("(%q, %d)", name, s))
		}
	}
	fmt.Fprintf(&b, "/-- labels whose block starts with a call site -/\ndef stage2LabelSite : List (String × Nat) := [%s]\n\n", strings.Join(ls, ", "))

	// the table
	b.WriteString("/-- per call site: (bytes, actions, next call site); `none` = decided by the popped return code\n    (`stage2RetDispatch`); every byte not listed leads to `goto fail` -/\n")
	b.WriteString("def stage2Sites : List (List (List Nat × List String × Option Nat)) := [\n")
	for si, s := range c.sites {
		type group struct {
			key   string
			bytes []int
			r     s2result
		}
		var groups []*group
		idx := map[string]*group{}
		for bv := 0; bv < 256; bv++ {
			r := c.run(s.next, bv, fmt.Sprintf("call site %d (line %d), byte %d,", si, s.line, bv))
			if r.fail {
				continue
			}
			key := fmt.Sprintf("%d|%s|%d", r.line, strings.Join(r.acts, ","), r.succ)
			g, ok := idx[key]
			if !ok {
				g = &group{key: key, r: r}
				idx[key] = g
				groups = append(groups, g)
			}
			g.bytes = append(g.bytes, bv)
		}
		fmt.Fprintf(&b, "  -- site %d: line %d, in %s\n  [", si, s.line, map[bool]string{true: "the START state", false: siteLabels[si] + ":"}[siteLabels[si] == ""])
		for gi, g := range groups {
			succ := "none"
			if g.r.succ >= 0 {
				succ = fmt.Sprintf("some %d", g.r.succ)
			}
			sep := ","
			if gi == len(groups)-1 {
				sep = " "
			}
			if gi > 0 {
				b.WriteString("\n   ")
			}
			fmt.Fprintf(&b, "(%s, %s, %s)%s  -- line %d: %s", leanNats(g.bytes), leanStrList(g.r.acts), succ, sep, g.r.line, byteNames(g.bytes))
		}
		if len(groups) == 0 {
			b.WriteString(" -- every byte fails")
		}
		b.WriteString("\n  ]")
		if si != len(c.sites)-1 {
			b.WriteString(",")
		}
		b.WriteString("\n")
	}
	b.WriteString("]\n\n")

	// scopeEnd: return-code dispatch
	fmt.Fprintf(&b, "/-- shape of the `scopeEnd:` block (one action `scopeEnd` in the table) -/\ndef stage2ScopeEnd : List String := %s\n\n", leanStrList(c.scopeEnd))
	fmt.Fprintf(&b, "/-- `offset & %d` selects the return code -/\ndef stage2RetMask : Nat := %d\n\n", c.retMask, c.retMask)
	var rd []string
	var rc, rn []string
	def := ""
	for _, r := range c.rets {
		s, ok := c.siteOfLabel(r.target)
		if !ok {
			die("unifiedMachine line %d: scopeEnd dispatches to %s, which does not start with a call site", r.line, r.target)
		}
		if r.name == "" {
			def = fmt.Sprintf("/-- default clause of the dispatch: line %d, goto %s -/\ndef stage2RetDefault : Nat := %d\n\n", r.line, r.target, s)
			continue
		}
		rd = append(rd, fmt.Sprintf("(%d, %d)", r.val, s))
		rn = append(rn, fmt.Sprintf("(%q, %q)", r.name, r.target))
		rc = append(rc, fmt.Sprintf("line %d: %s -> %s", r.line, r.name, r.target))
	}
	fmt.Fprintf(&b, "/-- (return code, call site) of the `switch offset & ((1 << retAddressShift) - 1)` in `scopeEnd:`\n    %s -/\ndef stage2RetDispatch : List (Nat × Nat) := [%s]\n\n", strings.Join(rc, "; "), strings.Join(rd, ", "))
	fmt.Fprintf(&b, "/-- the same clauses by name: (constant, label) -/\ndef stage2RetDispatchNames : List (String × String) := [%s]\n\n", strings.Join(rn, ", "))
	b.WriteString(def)
	fmt.Fprintf(&b, "/-- shape of the root re-open sequence in `startContinue:` (one action `reopenRoot` in the table) -/\ndef stage2ReopenRoot : List String := %s\n\n", leanStrList(c.reopen))
	fmt.Fprintf(&b, "/-- shape of the `succeed:` block -/\ndef stage2Succeed : List String := %s\n\n", leanStrList(c.succeed))
	b.WriteString("end SJ.Generated\n")
	writeIfChanged(filepath.Join(out, "Stage2Table.lean"), b.String())
}
