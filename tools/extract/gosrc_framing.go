package main

// --- framing: begin
//
// Go → GoSem for the FRAMING side of `Serializer.Deserialize` (the body up to the join `wg.Wait()` in front of the tape
// reconstruction) and for `Serializer.decBlock`.  A printer like gosrc.go, with its own small walker because these two
// functions use a vocabulary nothing else does; anything outside the forms below aborts the extraction.
//
//   * `*bytes.Buffer`: its two fields, the variables `br.buf` (bytes) and `br.off` (int).  `bytes.NewBuffer(x)` sets them
//     to `x`, 0; `br.Len()` is printed as the library's own body `len(br.buf) - br.off`; `br.ReadByte()`,
//     `binary.ReadUvarint(br)`, `br.Next(n)` are library calls by contract (`extCall` "ReadByte", "ReadUvarint",
//     "BufNext" in Lang.lean) with the position threaded through.
//   * the four destination buffers are the variables "Strings.B", "Message", "s.tagsBuf", "s.valuesBuf"; on entry
//     each holds its backing array up to the capacity (`cap(x)` = `.capB`; `x = x[:n]` = a checked slice of it).  Whether
//     `dst`, `dst.Strings`, `dst.Message` are nil are boolean inputs "dst==nil", "dst.Strings==nil", "dst.Message==nil".
//   * `dst.Tape`: the backing array is `St.tape`, the length `dst.lim` (`.capTape`, `.tapeMake`, `.setLenCap`).
//   * `decBlock` writes through its slice parameter `dst` (`copy(dst, compressed)`): aliasing of byte slices is not
//     modelled, so the final content of `dst` is handed back as a second result and the call site assigns it to the
//     argument: `err, X = s.decBlock(br, X, …)`.
//   * goroutines: `go func() {…}()` in `decBlock` (pinned by its text) is `.spawn "dstErr" [typ, compressed, want]`: the
//     decompressor is known by contract only and is not run; the request is recorded in the variables of the `*error`
//     argument (`&stringsErr` ↦ "stringsErr.started/.typ/.compressed/.want", declared by `var stringsErr error`).  The
//     goroutine writes only `dst` and `*dstErr`, which the caller reads after the join, so applying the contract to the
//     recorded request at the join is a sequentialisation of it (that the join is there is property C20's business).
//     `wg.Add`, `defer wg.Wait()`, `var wg sync.WaitGroup` are left out.
//   * errors are booleans (`err != nil`), as everywhere in GoSem.

import (
	"fmt"
	"go/ast"
	"go/token"
	"path/filepath"
	"strconv"
	"strings"
)

var framingFuncs = []string{"Serializer.decBlock"}

type frTr struct {
	p      *pkgInfo
	g      *gsTr
	vars   map[string]gty // locals by name
	isDec  bool           // translating decBlock (returns carry `dst` as a second result)
	errVar map[string]bool
}

func q(s string) string { return strconv.Quote(s) }

// buffers by source text → variable
var frBufs = map[string]string{"dst.Strings.B": "Strings.B", "dst.Message": "Message", "s.tagsBuf": "s.tagsBuf", "s.valuesBuf": "s.valuesBuf"}

func (t *frTr) bufVar(e ast.Expr) (string, bool) {
	x := nows(src(e))
	if v, ok := frBufs[x]; ok && !t.isDec {
		return v, true
	}
	if id, ok := e.(*ast.Ident); ok && t.vars[id.Name] == tyBytes {
		return id.Name, true
	}
	return "", false
}

func cmt(e ast.Node) string { return strings.ReplaceAll(strings.Join(strings.Fields(src(e)), " "), "-/", "- /") }

func (t *frTr) expr(e ast.Expr, want gty) (string, gty) {
	switch x := e.(type) {
	case *ast.ParenExpr:
		return t.expr(x.X, want)
	case *ast.BasicLit:
		if x.Kind != token.INT {
			gsDie(e, "literal")
		}
		switch want {
		case tyU64:
			return "(.u64 " + x.Value + ")", tyU64
		case tyU8:
			return "(.u8 " + x.Value + ")", tyU8
		}
		return "(.int " + x.Value + ")", tyInt
	case *ast.Ident:
		if ty, ok := t.vars[x.Name]; ok {
			return "(.v " + q(x.Name) + ")", ty
		}
		if s, ty, ok := t.g.constExpr(x); ok {
			if ty == tyUntyped {
				switch want {
				case tyU8:
					return fmt.Sprintf("(.u8 %s /- %s -/)", s, x.Name), tyU8
				case tyU64:
					return fmt.Sprintf("(.u64 %s /- %s -/)", s, x.Name), tyU64
				}
				return fmt.Sprintf("(.int %s /- %s -/)", s, x.Name), tyInt
			}
			return s, ty
		}
		gsDie(e, "identifier")
	case *ast.SelectorExpr:
		if v, ok := t.bufVar(e); ok {
			return "(.v " + q(v) + ")", tyBytes
		}
		gsDie(e, "selector")
	case *ast.SliceExpr:
		if x.Low != nil || x.High == nil || x.Slice3 {
			gsDie(e, "slice shape")
		}
		a, aty := t.expr(x.X, tyBytes)
		h, hty := t.expr(x.High, tyInt)
		if aty != tyBytes {
			gsDie(e, "slice operand")
		}
		if hty == tyU64 {
			// a uint64 bound is compared unsigned with the capacity: beyond 2^63 it fails like a negative int does
			h, hty = "(.conv .int "+h+")", tyInt
		}
		if hty != tyInt {
			gsDie(e, "slice bound")
		}
		return fmt.Sprintf("(.sliceB %s (.int 0) %s)", a, h), tyBytes
	case *ast.CallExpr:
		fn := nows(src(x.Fun))
		switch {
		case (fn == "int" || fn == "uint64") && len(x.Args) == 1:
			a, aty := t.expr(x.Args[0], tyUnk)
			if aty != tyInt && aty != tyU64 {
				gsDie(e, "conversion operand")
			}
			if fn == "int" {
				return "(.conv .int " + a + ")", tyInt
			}
			return "(.conv .u64 " + a + ")", tyU64
		case fn == "len" && len(x.Args) == 1:
			a, aty := t.expr(x.Args[0], tyBytes)
			if aty != tyBytes {
				gsDie(e, "len operand")
			}
			return "(.lenB " + a + ")", tyInt
		case fn == "cap" && len(x.Args) == 1:
			if nows(src(x.Args[0])) == "dst.Tape" && !t.isDec {
				return "(.capTape \"dst\")", tyInt
			}
			if v, ok := t.bufVar(x.Args[0]); ok && !t.isDec {
				return "(.capB (.v " + q(v) + "))", tyInt
			}
			gsDie(e, "cap operand")
		case fn == "br.Len" && len(x.Args) == 0:
			// bytes.Buffer.Len: `return len(b.buf) - b.off`
			return "(.bin .sub (.lenB (.v \"br.buf\")) (.v \"br.off\") /- br.Len() -/)", tyInt
		case fn == "errors.New" || fn == "fmt.Errorf":
			return "(.bool true /- " + cmt(e) + " -/)", tyErr
		case fn == "make" && len(x.Args) == 2 && nows(src(x.Args[0])) == "[]byte":
			n, nty := t.expr(x.Args[1], tyInt)
			if nty == tyU64 {
				n, nty = "(.conv .int "+n+")", tyInt
			}
			if nty != tyInt {
				gsDie(e, "make length")
			}
			return "(.zerosBn " + n + ")", tyBytes
		}
		gsDie(e, "call")
	case *ast.BinaryExpr:
		if x.Op == token.LAND || x.Op == token.LOR {
			a, aty := t.expr(x.X, tyBool)
			b, bty := t.expr(x.Y, tyBool)
			if aty != tyBool || bty != tyBool {
				gsDie(e, "boolean operands")
			}
			if x.Op == token.LAND {
				return fmt.Sprintf("(.land %s %s)", a, b), tyBool
			}
			return fmt.Sprintf("(.lor %s %s)", a, b), tyBool
		}
		if n, ok := x.Y.(*ast.Ident); ok && n.Name == "nil" && (x.Op == token.EQL || x.Op == token.NEQ) {
			l := nows(src(x.X))
			var v string
			if id, ok := x.X.(*ast.Ident); ok && t.vars[id.Name] == tyErr {
				if t.errVar[id.Name] {
					gsDie(e, "the error of a goroutine is read before the join")
				}
				v = "(.v " + q(id.Name) + ")" // an error is the boolean `err != nil`
				if x.Op == token.EQL {
					v = "(.not " + v + ")"
				}
				return v, tyBool
			}
			if (l == "dst" || l == "dst.Strings" || l == "dst.Message") && !t.isDec {
				v = "(.v " + q(l+"==nil") + ")"
				if x.Op == token.NEQ {
					v = "(.not " + v + ")"
				}
				return v, tyBool
			}
			gsDie(e, "nil comparison")
		}
		name, ok := map[token.Token]string{token.EQL: "eq", token.NEQ: "ne", token.LSS: "lt", token.LEQ: "le", token.GTR: "gt", token.GEQ: "ge", token.SUB: "sub", token.ADD: "add"}[x.Op]
		if !ok {
			gsDie(e, "operator")
		}
		a, aty := t.expr(x.X, tyUnk)
		if _, lit := x.X.(*ast.BasicLit); lit {
			gsDie(e, "literal on the left")
		}
		b, bty := t.expr(x.Y, aty)
		if aty != bty || (aty != tyInt && aty != tyU64 && aty != tyU8) {
			gsDie(e, "operand types")
		}
		rty := tyBool
		if x.Op == token.SUB || x.Op == token.ADD {
			rty = aty
		}
		return fmt.Sprintf("(.bin .%s %s %s)", name, a, b), rty
	}
	gsDie(e, "expression")
	return "", tyUnk
}

func (t *frTr) block(list []ast.Stmt, ind string) string {
	saved := map[string]gty{}
	for k, v := range t.vars {
		saved[k] = v
	}
	defer func() { t.vars = saved }()
	var parts []string
	for _, s := range list {
		parts = append(parts, t.stmt(s, ind+"  ")...)
	}
	if len(parts) == 0 {
		return "[]"
	}
	return "[\n" + ind + "  " + strings.Join(parts, ",\n"+ind+"  ") + "]"
}

func (t *frTr) define(lhs ast.Expr, ty gty, tok token.Token) string {
	id, ok := lhs.(*ast.Ident)
	if !ok {
		gsDie(lhs, "target")
	}
	if id.Name == "_" {
		return "_"
	}
	if old, ok := t.vars[id.Name]; ok && old != ty {
		gsDie(lhs, "a name is reused with another type")
	}
	if _, ok := t.vars[id.Name]; !ok && tok != token.DEFINE {
		gsDie(lhs, "assignment to an unknown variable")
	}
	t.vars[id.Name] = ty
	return id.Name
}

const frGoS2 = "gofunc(){deferwg.Done()buf:=bytes.NewBuffer(compressed)dec:=s2Readers.Get().(*s2.Reader)dec.Reset(buf)_,err:=io.ReadFull(dec,dst)dec.Reset(nil)s2Readers.Put(dec)*dstErr=err}()"
const frGoZstd = "gofunc(){deferwg.Done()want:=len(dst)dst,err=zDec.DecodeAll(compressed,dst[:0])iferr==nil&&want!=len(dst){err=errors.New(\"zstd decompressed size mismatch\")}*dstErr=err}()"

// a library call with results: the statement(s) for `lhs… := call`
func (t *frTr) libCall(lhs []ast.Expr, call *ast.CallExpr, tok token.Token, s ast.Stmt) ([]string, bool) {
	fn := nows(src(call.Fun))
	switch {
	case fn == "binary.ReadUvarint" && len(call.Args) == 1 && nows(src(call.Args[0])) == "br" && len(lhs) == 2:
		a, b := t.define(lhs[0], tyU64, tok), t.define(lhs[1], tyErr, tok)
		return []string{fmt.Sprintf(".extAssign [%s, %s, \"br.off\"] \"ReadUvarint\" [(.v \"br.off\"), (.v \"br.buf\")]", q(a), q(b))}, true
	case fn == "br.ReadByte" && len(call.Args) == 0 && len(lhs) == 2:
		a, b := t.define(lhs[0], tyU8, tok), t.define(lhs[1], tyErr, tok)
		return []string{fmt.Sprintf(".extAssign [%s, %s, \"br.off\"] \"ReadByte\" [(.v \"br.off\"), (.v \"br.buf\")]", q(a), q(b))}, true
	case fn == "br.Next" && len(call.Args) == 1 && len(lhs) == 1:
		n, nty := t.expr(call.Args[0], tyInt)
		if nty != tyInt {
			gsDie(s, "Next operand")
		}
		a := t.define(lhs[0], tyBytes, tok)
		return []string{fmt.Sprintf(".extAssign [%s, \"br.off\"] \"BufNext\" [(.v \"br.off\"), (.v \"br.buf\"), %s]", q(a), n)}, true
	case fn == "bytes.NewBuffer" && len(call.Args) == 1 && len(lhs) == 1 && nows(src(lhs[0])) == "br":
		a, aty := t.expr(call.Args[0], tyBytes)
		if aty != tyBytes {
			gsDie(s, "NewBuffer operand")
		}
		return []string{".assign \"br.buf\" " + a, ".assign \"br.off\" (.int 0)"}, true
	case fn == "s.decBlock" && len(call.Args) == 4 && len(lhs) == 1 && !t.isDec:
		if nows(src(call.Args[0])) != "br" {
			gsDie(s, "decBlock buffer")
		}
		buf, ok := t.bufVar(call.Args[1])
		if !ok {
			gsDie(s, "decBlock destination")
		}
		u, ok := call.Args[3].(*ast.UnaryExpr)
		if !ok || u.Op != token.AND {
			gsDie(s, "decBlock error pointer")
		}
		ev, ok := u.X.(*ast.Ident)
		if !ok || !t.errVar[ev.Name] {
			gsDie(s, "decBlock error pointer")
		}
		a := t.define(lhs[0], tyErr, tok)
		return []string{fmt.Sprintf(".callAssign [%s, %s] \"s\" \"Serializer.decBlock\" [\"br\", %s] [(.v %s)]", q(a), q(buf), q(ev.Name), q(buf))}, true
	}
	return nil, false
}

func (t *frTr) ret(x *ast.ReturnStmt) string {
	if t.isDec {
		if len(x.Results) != 1 {
			gsDie(x, "return arity")
		}
		e, ty := t.retErr(x.Results[0])
		if ty != tyErr {
			gsDie(x, "return type")
		}
		return fmt.Sprintf(".ret [%s, (.v \"dst\")]", e)
	}
	if len(x.Results) != 2 || nows(src(x.Results[0])) != "dst" {
		gsDie(x, "return shape")
	}
	e, ty := t.retErr(x.Results[1])
	if ty != tyErr {
		gsDie(x, "return type")
	}
	return fmt.Sprintf(".ret [(.bool true /- dst -/), %s]", e)
}

func (t *frTr) retErr(e ast.Expr) (string, gty) {
	if id, ok := e.(*ast.Ident); ok && id.Name == "nil" {
		return "(.bool false /- nil -/)", tyErr
	}
	return t.expr(e, tyErr)
}

func (t *frTr) stmt(s ast.Stmt, ind string) []string {
	switch x := s.(type) {
	case *ast.AssignStmt:
		if len(x.Rhs) == 1 {
			if call, ok := x.Rhs[0].(*ast.CallExpr); ok {
				if out, ok := t.libCall(x.Lhs, call, x.Tok, s); ok {
					return out
				}
			}
		}
		if len(x.Lhs) != 1 || len(x.Rhs) != 1 || (x.Tok != token.ASSIGN && x.Tok != token.DEFINE) {
			gsDie(s, "assignment shape")
		}
		l := nows(src(x.Lhs[0]))
		r := nows(src(x.Rhs[0]))
		if !t.isDec {
			switch {
			case l == "dst" && r == "&ParsedJson{}":
				// a fresh document: no tape, no buffers
				return []string{".assign \"dst==nil\" (.bool false)", ".tapeMake \"dst\" (.int 0)", ".assign \"dst.Strings==nil\" (.bool true)",
					".assign \"Strings.B\" .nilB", ".assign \"dst.Message==nil\" (.bool true)", ".assign \"Message\" .nilB"}
			case l == "dst.Tape" && strings.HasPrefix(r, "make([]uint64,"):
				n, nty := t.expr(x.Rhs[0].(*ast.CallExpr).Args[1], tyInt)
				if nty != tyU64 && nty != tyInt {
					gsDie(s, "make length")
				}
				return []string{".tapeMake \"dst\" " + n}
			case l == "dst.Tape":
				sl, ok := x.Rhs[0].(*ast.SliceExpr)
				if !ok || nows(src(sl.X)) != "dst.Tape" || sl.Low != nil || sl.High == nil || sl.Slice3 {
					gsDie(s, "tape assignment")
				}
				n, nty := t.expr(sl.High, tyInt)
				if nty != tyU64 && nty != tyInt {
					gsDie(s, "slice bound")
				}
				return []string{".setLenCap \"dst\" " + n}
			case l == "dst.Strings":
				cl, ok := x.Rhs[0].(*ast.UnaryExpr)
				if !ok || !strings.HasPrefix(r, "&TStrings{B:make([]byte,") {
					gsDie(s, "strings assignment")
				}
				kv := cl.X.(*ast.CompositeLit).Elts[0].(*ast.KeyValueExpr)
				b, bty := t.expr(kv.Value, tyBytes)
				if bty != tyBytes {
					gsDie(s, "strings assignment")
				}
				return []string{".assign \"Strings.B\" " + b, ".assign \"dst.Strings==nil\" (.bool false)"}
			}
			if v, ok := frBufs[l]; ok {
				b, bty := t.expr(x.Rhs[0], tyBytes)
				if bty != tyBytes {
					gsDie(s, "buffer assignment")
				}
				out := []string{fmt.Sprintf(".assign %s %s", q(v), b)}
				if l == "dst.Message" && strings.HasPrefix(r, "make(") {
					out = append(out, ".assign \"dst.Message==nil\" (.bool false)")
				}
				return out
			}
		}
		e, ty := t.expr(x.Rhs[0], tyUnk)
		n := t.define(x.Lhs[0], ty, x.Tok)
		return []string{fmt.Sprintf(".assign %s %s", q(n), e)}
	case *ast.IncDecStmt:
		id, ok := x.X.(*ast.Ident)
		if !ok || t.vars[id.Name] != tyU64 || x.Tok != token.DEC {
			gsDie(s, "inc/dec shape")
		}
		return []string{fmt.Sprintf(".assign %s (.bin .sub (.v %s) (.u64 1))", q(id.Name), q(id.Name))}
	case *ast.IfStmt:
		saved := map[string]gty{}
		for k, v := range t.vars {
			saved[k] = v
		}
		defer func() { t.vars = saved }()
		var out []string
		if x.Init != nil {
			out = append(out, t.stmt(x.Init, ind)...)
		}
		c, cty := t.expr(x.Cond, tyBool)
		if cty != tyBool {
			gsDie(s, "condition type")
		}
		th := t.block(x.Body.List, ind)
		el := "[]"
		switch e := x.Else.(type) {
		case nil:
		case *ast.BlockStmt:
			el = t.block(e.List, ind)
		case *ast.IfStmt:
			el = "[\n" + ind + "  " + strings.Join(t.stmt(e, ind+"  "), ",\n"+ind+"  ") + "]"
		default:
			gsDie(s, "else shape")
		}
		return append(out, fmt.Sprintf(".ite %s %s %s", c, th, el))
	case *ast.ReturnStmt:
		return []string{t.ret(x)}
	case *ast.DeclStmt:
		gd, ok := x.Decl.(*ast.GenDecl)
		if !ok || gd.Tok != token.VAR || len(gd.Specs) != 1 {
			gsDie(s, "declaration")
		}
		vs := gd.Specs[0].(*ast.ValueSpec)
		switch nows(src(vs.Type)) {
		case "sync.WaitGroup":
			return []string{".ite (.bool true) [] [] /- not translated: " + strings.ReplaceAll(stmtText(s), "-/", "- /") + " -/"}
		case "error":
			// the error a goroutine will report: the record of what the goroutine was given (see `.spawn`)
			var out []string
			for _, nm := range vs.Names {
				t.errVar[nm.Name] = true
				t.vars[nm.Name] = tyErr
				out = append(out, fmt.Sprintf(".assign %s (.bool false)", q(nm.Name+".started")), fmt.Sprintf(".assign %s (.u8 0)", q(nm.Name+".typ")),
					fmt.Sprintf(".assign %s .nilB", q(nm.Name+".compressed")), fmt.Sprintf(".assign %s (.int 0)", q(nm.Name+".want")))
			}
			return out
		}
		gsDie(s, "declaration type")
	case *ast.DeferStmt:
		if c := nows(src(x.Call)); c == "sWG.Wait()" || c == "wg.Wait()" {
			return []string{".ite (.bool true) [] [] /- not translated (join): " + cmt(s) + " -/"}
		}
		gsDie(s, "defer")
	case *ast.ExprStmt:
		c := nows(src(x.X))
		if c == "wg.Add(1)" {
			return []string{".ite (.bool true) [] [] /- not translated: " + cmt(s) + " -/"}
		}
		if strings.HasPrefix(c, "fmt.Println(") {
			// prints to the standard output; its arguments (conversions and `br.Len()`) have no effect
			return []string{".ite (.bool true) [] [] /- output only: " + cmt(s) + " -/"}
		}
		if call, ok := x.X.(*ast.CallExpr); ok && nows(src(call.Fun)) == "copy" && len(call.Args) == 2 {
			d, ok := t.bufVar(call.Args[0])
			b, bty := t.expr(call.Args[1], tyBytes)
			if !ok || bty != tyBytes {
				gsDie(s, "copy operands")
			}
			return []string{fmt.Sprintf(".assign %s (.copyB (.v %s) %s)", q(d), q(d), b)}
		}
		gsDie(s, "expression statement")
	case *ast.GoStmt:
		if c := nows(src(s)); t.isDec && (c == nows(frGoS2) || c == nows(frGoZstd)) {
			return []string{".spawn \"dstErr\" [(\"typ\", (.v \"typ\")), (\"compressed\", (.v \"compressed\")), (\"want\", (.lenB (.v \"dst\")))]" +
				" /- go func() { … *dstErr = err }(): decompression of `compressed` into `dst` by the codec `typ` -/"}
		}
		gsDie(s, "goroutine of an unexpected shape")
	case *ast.SwitchStmt:
		if x.Init != nil || x.Tag == nil {
			gsDie(s, "switch shape")
		}
		tag, tty := t.expr(x.Tag, tyUnk)
		var cases []string
		dflt := "[]"
		for _, cc := range x.Body.List {
			cl := cc.(*ast.CaseClause)
			body := t.block(cl.Body, ind+"  ")
			if cl.List == nil {
				dflt = body
				continue
			}
			var labels []string
			for _, l := range cl.List {
				ls, lty := t.expr(l, tty)
				if lty != tty {
					gsDie(l, "case label type")
				}
				labels = append(labels, ls)
			}
			cases = append(cases, fmt.Sprintf("([%s], %s)", strings.Join(labels, ", "), body))
		}
		return []string{fmt.Sprintf(".switch %s [\n%s    %s]\n%s    %s", tag, ind, strings.Join(cases, ",\n"+ind+"    "), ind, dflt)}
	}
	gsDie(s, "statement")
	return nil
}

// genFraming appends the two definitions to the generated file
func genFraming(p *pkgInfo, b *strings.Builder) {
	newTr := func(isDec bool) *frTr {
		g := &gsTr{p: p, fn: "Serializer.Deserialize", iters: map[string]bool{}, locals: map[string]gty{}, kinds: map[string]string{},
			lconst: map[string]lconstV{}, poison: map[string]bool{}, swLabels: map[string]bool{}, loopLabels: map[string]bool{}, aliasParams: map[string]bool{}, readonly: map[string]bool{}}
		return &frTr{p: p, g: g, vars: map[string]gty{}, isDec: isDec, errVar: map[string]bool{}}
	}
	// decBlock
	fd, ok := p.funcs["Serializer.decBlock"]
	if !ok {
		die("gosrc: function Serializer.decBlock not found")
	}
	if got := nows(src(fd.Type)); got != "func(br*bytes.Buffer,dst[]byte,wg*sync.WaitGroup,dstErr*error)error" {
		die("gosrc: Serializer.decBlock has an unexpected signature: %s", got)
	}
	ast.Inspect(fd.Body, func(n ast.Node) bool {
		if id, ok := n.(*ast.Ident); ok && id.Name == fd.Recv.List[0].Names[0].Name {
			die("gosrc: Serializer.decBlock mentions its receiver")
		}
		return true
	})
	t := newTr(true)
	t.vars["dst"] = tyBytes
	pos := fset.Position(fd.Pos())
	fmt.Fprintf(b, "/-- `Serializer.decBlock` — %s:%d.  Second result: the final content of the slice parameter `dst`.  The receiver is not mentioned. -/\n"+
		"def %s : FunDef := { recv := \"s\", params := [\"dst\"], fields := [], ptrParams := [(\"br\", [\"buf\", \"off\"]), (\"dstErr\", [\"started\", \"typ\", \"compressed\", \"want\"])], body := %s }\n\n",
		filepath.Base(pos.Filename), pos.Line, leanDefName("Serializer.decBlock"), t.block(fd.Body.List, ""))
	// the header of Deserialize: from the start of the body to the join in front of the reconstruction
	fd, ok = p.funcs["Serializer.Deserialize"]
	if !ok {
		die("gosrc: function Serializer.Deserialize not found")
	}
	if got := nows(src(fd.Type)); got != "func(src[]byte,dst*ParsedJson)(*ParsedJson,error)" {
		die("gosrc: Serializer.Deserialize has an unexpected signature: %s", got)
	}
	var list []ast.Stmt
	found := false
	for _, st := range fd.Body.List {
		if stmtText(st) == "wg.Wait()" {
			found = true
			break
		}
		list = append(list, st)
	}
	if !found {
		die("gosrc: Serializer.Deserialize: no statement `wg.Wait()`")
	}
	t = newTr(false)
	t.vars["src"] = tyBytes
	pos = fset.Position(list[0].Pos())
	fmt.Fprintf(b, "/-- `Serializer.Deserialize`, from the start of its body to before the join `wg.Wait()` — %s:%d.  Not translated: the\n    wait groups (`var … sync.WaitGroup`, `defer ….Wait()`). -/\n"+
		"def goDeserialize_header : FunDef := { recv := \"\", params := [], body := %s }\n\n", filepath.Base(pos.Filename), pos.Line, t.block(list, ""))
}

// --- framing: end
