package main

// Join discipline of Serializer.Deserialize (C15/C20): the goroutines that decBlock starts write the destination, so
// every return of Deserialize must be preceded by a join of every WaitGroup that may have a goroutine on it.
// This file prints two event lists; what they have to satisfy is defined and proved in lean/SJ/Model/Joins.lean.
//
//   deserializeJoinEvents : the body of Deserialize in source order, as
//       .start X      a call s.decBlock(…, &X, …) (may start a goroutine counted on X)
//       .deferWait X  defer X.Wait()
//       .wait X       X.Wait()
//       .ret          a return statement
//     A call that is immediately followed by `if err != nil { … return … }` prints that return BEFORE its .start:
//     decBlock returning an error has not started a goroutine (that is what decBlockPaths is for).
//   decBlockPaths : one event list per path through decBlock's single switch (.go, .retErr, .retNil).
//
// Refused (a broken tie): a go statement in Deserialize itself, a decBlock call inside a loop or in any other position,
// any other defer, a second switch at the top level of decBlock.

import (
	"fmt"
	"go/ast"
	"go/token"
	"path/filepath"
	"strconv"
	"strings"
)

func jnDie(n ast.Node, format string, a ...interface{}) {
	die("joins: %s: %s (%s)", fset.Position(n.Pos()), fmt.Sprintf(format, a...), head(src(n)))
}

// s.decBlock(…, &X, …) → X
func decBlockWG(e ast.Expr) (string, bool) {
	c, ok := e.(*ast.CallExpr)
	if !ok {
		return "", false
	}
	se, ok := c.Fun.(*ast.SelectorExpr)
	if !ok || se.Sel.Name != "decBlock" {
		return "", false
	}
	wg := ""
	for _, a := range c.Args {
		if u, ok := a.(*ast.UnaryExpr); ok && u.Op == token.AND {
			if id, ok := u.X.(*ast.Ident); ok && strings.HasSuffix(strings.ToLower(id.Name), "wg") {
				wg = id.Name
			}
		}
	}
	if wg == "" {
		jnDie(e, "decBlock call without a &WaitGroup argument")
	}
	return wg, true
}

func containsDecBlock(n ast.Node) bool {
	found := false
	ast.Inspect(n, func(x ast.Node) bool {
		if c, ok := x.(*ast.CallExpr); ok {
			if se, ok := c.Fun.(*ast.SelectorExpr); ok && se.Sel.Name == "decBlock" {
				found = true
			}
		}
		return true
	})
	return found
}

func waitCall(e ast.Expr) (string, bool) {
	c, ok := e.(*ast.CallExpr)
	if !ok || len(c.Args) != 0 {
		return "", false
	}
	se, ok := c.Fun.(*ast.SelectorExpr)
	if !ok || se.Sel.Name != "Wait" {
		return "", false
	}
	id, ok := se.X.(*ast.Ident)
	if !ok {
		return "", false
	}
	return id.Name, true
}

func isOwnErrReturn(s ast.Stmt) bool {
	is, ok := s.(*ast.IfStmt)
	if !ok || is.Init != nil || is.Else != nil || nows(src(is.Cond)) != "err!=nil" || len(is.Body.List) == 0 {
		return false
	}
	_, ok = is.Body.List[len(is.Body.List)-1].(*ast.ReturnStmt)
	return ok && !containsDecBlock(is.Body)
}

type joinTr struct {
	evs    []string
	inLoop int
}

func (t *joinTr) walk(list []ast.Stmt) {
	for i := 0; i < len(list); i++ {
		st := list[i]
		switch x := st.(type) {
		case *ast.AssignStmt:
			if len(x.Rhs) == 1 {
				if wg, ok := decBlockWG(x.Rhs[0]); ok {
					if t.inLoop > 0 {
						jnDie(st, "decBlock call inside a loop")
					}
					if i+1 < len(list) && isOwnErrReturn(list[i+1]) {
						t.evs = append(t.evs, ".ret")
						i++
					}
					t.evs = append(t.evs, ".start "+strconv.Quote(wg))
					continue
				}
			}
			if containsDecBlock(st) {
				jnDie(st, "decBlock call in an unexpected position")
			}
		case *ast.DeferStmt:
			if wg, ok := waitCall(x.Call); ok {
				if t.inLoop > 0 {
					jnDie(st, "defer inside a loop")
				}
				t.evs = append(t.evs, ".deferWait "+strconv.Quote(wg))
				continue
			}
			jnDie(st, "defer other than X.Wait()")
		case *ast.ExprStmt:
			if wg, ok := waitCall(x.X); ok {
				t.evs = append(t.evs, ".wait "+strconv.Quote(wg))
				continue
			}
			if containsDecBlock(st) {
				jnDie(st, "decBlock call in an unexpected position")
			}
		case *ast.GoStmt:
			jnDie(st, "go statement in Deserialize")
		case *ast.ReturnStmt:
			if containsDecBlock(st) {
				jnDie(st, "decBlock call in an unexpected position")
			}
			t.evs = append(t.evs, ".ret")
		case *ast.IfStmt:
			if x.Init != nil && containsDecBlock(x.Init) || containsDecBlock(x.Cond) {
				jnDie(st, "decBlock call in an unexpected position")
			}
			t.walk(x.Body.List)
			switch e := x.Else.(type) {
			case *ast.BlockStmt:
				t.walk(e.List)
			case *ast.IfStmt:
				t.walk([]ast.Stmt{e})
			}
		case *ast.BlockStmt:
			t.walk(x.List)
		case *ast.ForStmt:
			t.inLoop++
			t.walk(x.Body.List)
			t.inLoop--
		case *ast.RangeStmt:
			t.inLoop++
			t.walk(x.Body.List)
			t.inLoop--
		case *ast.SwitchStmt:
			for _, c := range x.Body.List {
				t.walk(c.(*ast.CaseClause).Body)
			}
		case *ast.LabeledStmt:
			t.walk([]ast.Stmt{x.Stmt})
		default:
			if containsDecBlock(st) {
				jnDie(st, "decBlock call in an unexpected position")
			}
			ast.Inspect(st, func(n ast.Node) bool {
				if _, ok := n.(*ast.GoStmt); ok {
					jnDie(st, "go statement in Deserialize")
				}
				return true
			})
		}
	}
}

func decEvents(list []ast.Stmt) []string {
	var evs []string
	for _, st := range list {
		ast.Inspect(st, func(n ast.Node) bool {
			switch x := n.(type) {
			case *ast.GoStmt:
				evs = append(evs, ".go")
				return false
			case *ast.FuncLit:
				return false
			case *ast.ReturnStmt:
				if len(x.Results) == 1 && isNil(x.Results[0]) {
					evs = append(evs, ".retNil")
				} else {
					evs = append(evs, ".retErr")
				}
			}
			return true
		})
	}
	return evs
}

func genJoins(p *pkgInfo, out string) {
	fd, ok := p.funcs["Serializer.Deserialize"]
	if !ok || fd.Body == nil {
		die("joins: Serializer.Deserialize not found")
	}
	t := &joinTr{}
	t.walk(fd.Body.List)
	db, ok := p.funcs["Serializer.decBlock"]
	if !ok || db.Body == nil {
		die("joins: Serializer.decBlock not found")
	}
	sw := -1
	for i, st := range db.Body.List {
		if _, ok := st.(*ast.SwitchStmt); ok {
			if sw >= 0 {
				jnDie(st, "second switch at the top level of decBlock")
			}
			sw = i
		}
	}
	var paths [][]string
	if sw < 0 {
		paths = append(paths, decEvents(db.Body.List))
	} else {
		pre, post := decEvents(db.Body.List[:sw]), decEvents(db.Body.List[sw+1:])
		hasDefault := false
		for _, c := range db.Body.List[sw].(*ast.SwitchStmt).Body.List {
			cc := c.(*ast.CaseClause)
			if cc.List == nil {
				hasDefault = true
			}
			pth := append(append(append([]string{}, pre...), decEvents(cc.Body)...), post...)
			paths = append(paths, pth)
		}
		if !hasDefault {
			paths = append(paths, append(append([]string{}, pre...), post...))
		}
	}
	var b strings.Builder
	b.WriteString(header)
	b.WriteString("import SJ.Model.Joins\nnamespace SJ.Generated\nopen SJ.Joins\n\n")
	b.WriteString("/-- joins, starts and returns of `Serializer.Deserialize` in source order -/\ndef deserializeJoinEvents : List Ev := [" + strings.Join(t.evs, ", ") + "]\n\n")
	var ps []string
	for _, pth := range paths {
		ps = append(ps, "["+strings.Join(pth, ", ")+"]")
	}
	b.WriteString("/-- the paths through `Serializer.decBlock` -/\ndef decBlockPaths : List (List DEv) := [\n  " + strings.Join(ps, ",\n  ") + "]\n\nend SJ.Generated\n")
	writeIfChanged(filepath.Join(out, "GoJoins.lean"), b.String())
}
