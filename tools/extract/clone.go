package main

// Go → SJ.Own printer for `(*ParsedJson).Clone`: the buffers a clone owns.
//
// GoSem stores are value-semantic, so aliasing between two handles cannot be said in it.  `SJ.Own` (lean/SJ/Own/Lang.lean)
// is a second, tiny deep embedding whose values are slice HEADERS over a heap of backing arrays and TStrings cells; the
// printer below maps each statement of Clone to one constructor and refuses everything else (a refusal is a broken
// tie).  It has no semantics: `make`, re-slicing, `copy`, the composite literals and the three conditions get their
// meaning in Lean, where `C16_clone_independent` is proved about the printed program.
//
//   path  ::= pj.Message | pj.Tape | pj.Strings.B | dst.Message | dst.Tape | dst.Strings.B
//   expr  ::= make([]T, len(path)) | path[:len(path)] | path
//   cond  ::= dst == nil | dst.Strings == nil | cap(path) < len(path)
//   stmt  ::= path = expr | copy(path, path) | dst = &ParsedJson{Message: expr, Tape: expr, Strings: &TStrings{expr}, internal: nil}
//           | dst.Strings = &TStrings{expr} | dst.internal = nil | if cond {…} else {…}
//   body  ::= stmt* ; return dst

import (
	"fmt"
	"go/ast"
	"go/token"
	"path/filepath"
	"strings"
)

type cloneTr struct{ recv, dst string }

func clDie(n ast.Node, format string, a ...interface{}) {
	die("clonesrc: %s: %s (%s)", fset.Position(n.Pos()), fmt.Sprintf(format, a...), src(n))
}

func (t *cloneTr) who(e ast.Expr) (string, bool) {
	id, ok := e.(*ast.Ident)
	if !ok {
		return "", false
	}
	switch id.Name {
	case t.recv:
		return ".pj", true
	case t.dst:
		return ".dst", true
	}
	return "", false
}

func (t *cloneTr) path(e ast.Expr) (string, bool) {
	se, ok := e.(*ast.SelectorExpr)
	if !ok {
		return "", false
	}
	if w, ok := t.who(se.X); ok {
		switch se.Sel.Name {
		case "Message":
			return "(.msg " + w + ")", true
		case "Tape":
			return "(.tape " + w + ")", true
		}
		return "", false
	}
	if in, ok := se.X.(*ast.SelectorExpr); ok && se.Sel.Name == "B" && in.Sel.Name == "Strings" {
		if w, ok := t.who(in.X); ok {
			return "(.strB " + w + ")", true
		}
	}
	return "", false
}

func (t *cloneTr) lenOf(e ast.Expr) (string, bool) {
	c, ok := e.(*ast.CallExpr)
	if !ok || len(c.Args) != 1 {
		return "", false
	}
	if id, ok := c.Fun.(*ast.Ident); !ok || id.Name != "len" {
		return "", false
	}
	return t.path(c.Args[0])
}

func (t *cloneTr) expr(e ast.Expr) string {
	switch x := e.(type) {
	case *ast.CallExpr:
		if id, ok := x.Fun.(*ast.Ident); ok && id.Name == "make" && len(x.Args) == 2 {
			if _, isArr := x.Args[0].(*ast.ArrayType); isArr {
				if q, ok := t.lenOf(x.Args[1]); ok {
					return "(.mk " + q + ")"
				}
			}
		}
	case *ast.SliceExpr:
		if x.Low == nil && x.High != nil && x.Max == nil && !x.Slice3 {
			p, ok1 := t.path(x.X)
			q, ok2 := t.lenOf(x.High)
			if ok1 && ok2 {
				return "(.resl " + p + " " + q + ")"
			}
		}
	default:
		if p, ok := t.path(e); ok {
			return "(.path " + p + ")"
		}
	}
	clDie(e, "expression outside the subset")
	return ""
}

func isNil(e ast.Expr) bool {
	id, ok := e.(*ast.Ident)
	return ok && id.Name == "nil"
}

// &TStrings{e} / &TStrings{B: e}
func (t *cloneTr) newStrings(e ast.Expr) (string, bool) {
	u, ok := e.(*ast.UnaryExpr)
	if !ok || u.Op != token.AND {
		return "", false
	}
	cl, ok := u.X.(*ast.CompositeLit)
	if !ok || len(cl.Elts) != 1 {
		return "", false
	}
	if id, ok := cl.Type.(*ast.Ident); !ok || id.Name != "TStrings" {
		return "", false
	}
	el := cl.Elts[0]
	if kv, ok := el.(*ast.KeyValueExpr); ok {
		if k, ok := kv.Key.(*ast.Ident); !ok || k.Name != "B" {
			return "", false
		}
		el = kv.Value
	}
	return t.expr(el), true
}

func (t *cloneTr) cond(e ast.Expr) string {
	b, ok := e.(*ast.BinaryExpr)
	if !ok {
		clDie(e, "condition outside the subset")
	}
	switch b.Op {
	case token.EQL:
		if isNil(b.Y) {
			if w, ok := t.who(b.X); ok && w == ".dst" {
				return ".dstNil"
			}
			if se, ok := b.X.(*ast.SelectorExpr); ok && se.Sel.Name == "Strings" {
				if w, ok := t.who(se.X); ok && w == ".dst" {
					return ".dstStrsNil"
				}
			}
		}
	case token.LSS:
		if c, ok := b.X.(*ast.CallExpr); ok && len(c.Args) == 1 {
			if id, ok := c.Fun.(*ast.Ident); ok && id.Name == "cap" {
				p, ok1 := t.path(c.Args[0])
				q, ok2 := t.lenOf(b.Y)
				if ok1 && ok2 {
					return "(.capLt " + p + " " + q + ")"
				}
			}
		}
	}
	clDie(e, "condition outside the subset")
	return ""
}

func (t *cloneTr) stmts(list []ast.Stmt, ind string) string {
	var out []string
	for _, s := range list {
		out = append(out, t.stmt(s, ind+"  "))
	}
	if len(out) == 0 {
		return "[]"
	}
	return "[\n" + ind + "  " + strings.Join(out, ",\n"+ind+"  ") + "]"
}

func (t *cloneTr) stmt(s ast.Stmt, ind string) string {
	switch x := s.(type) {
	case *ast.IfStmt:
		if x.Init != nil {
			clDie(s, "if with an init statement")
		}
		els := "[]"
		switch e := x.Else.(type) {
		case nil:
		case *ast.BlockStmt:
			els = t.stmts(e.List, ind)
		case *ast.IfStmt:
			els = "[" + t.stmt(e, ind+"  ") + "]"
		default:
			clDie(s, "else form")
		}
		return ".ite " + t.cond(x.Cond) + " " + t.stmts(x.Body.List, ind) + " " + els
	case *ast.AssignStmt:
		if x.Tok != token.ASSIGN || len(x.Lhs) != 1 || len(x.Rhs) != 1 {
			clDie(s, "assignment form")
		}
		lhs, rhs := x.Lhs[0], x.Rhs[0]
		if w, ok := t.who(lhs); ok && w == ".dst" {
			// dst = &ParsedJson{Message: e, Tape: e, Strings: &TStrings{e}, internal: nil}
			u, ok := rhs.(*ast.UnaryExpr)
			if !ok || u.Op != token.AND {
				clDie(s, "dst may only be assigned a fresh &ParsedJson{…}")
			}
			cl, ok := u.X.(*ast.CompositeLit)
			if !ok {
				clDie(s, "dst may only be assigned a fresh &ParsedJson{…}")
			}
			if id, ok := cl.Type.(*ast.Ident); !ok || id.Name != "ParsedJson" {
				clDie(s, "dst may only be assigned a fresh &ParsedJson{…}")
			}
			f := map[string]string{}
			// evaluation order = order of the elements in the literal; the Lean constructor evaluates Message, Tape,
			// Strings in that order, so the literal must list them so
			var order []string
			for _, el := range cl.Elts {
				kv, ok := el.(*ast.KeyValueExpr)
				if !ok {
					clDie(el, "unkeyed field")
				}
				k := kv.Key.(*ast.Ident).Name
				switch k {
				case "Message", "Tape":
					f[k] = t.expr(kv.Value)
				case "Strings":
					v, ok := t.newStrings(kv.Value)
					if !ok {
						clDie(kv.Value, "Strings must be a fresh &TStrings{…}")
					}
					f[k] = v
				case "internal":
					if !isNil(kv.Value) {
						clDie(kv.Value, "internal must be nil")
					}
					continue
				default:
					clDie(el, "unknown field")
				}
				order = append(order, k)
			}
			if strings.Join(order, ",") != "Message,Tape,Strings" {
				clDie(s, "fields must be Message, Tape, Strings in this order (got %v)", order)
			}
			return ".newDst " + f["Message"] + " " + f["Tape"] + " " + f["Strings"]
		}
		if se, ok := lhs.(*ast.SelectorExpr); ok {
			if w, ok := t.who(se.X); ok && w == ".dst" {
				switch se.Sel.Name {
				case "internal":
					if !isNil(rhs) {
						clDie(s, "dst.internal may only be set to nil")
					}
					return ".clearInternal"
				case "Strings":
					v, ok := t.newStrings(rhs)
					if !ok {
						clDie(s, "dst.Strings may only be assigned a fresh &TStrings{…}")
					}
					return ".newStrs " + v
				}
			}
		}
		p, ok := t.path(lhs)
		if !ok {
			clDie(s, "left-hand side outside the subset")
		}
		return ".assign " + p + " " + t.expr(rhs)
	case *ast.ExprStmt:
		if c, ok := x.X.(*ast.CallExpr); ok && len(c.Args) == 2 {
			if id, ok := c.Fun.(*ast.Ident); ok && id.Name == "copy" {
				p, ok1 := t.path(c.Args[0])
				q, ok2 := t.path(c.Args[1])
				if ok1 && ok2 {
					return ".copy " + p + " " + q
				}
			}
		}
	}
	clDie(s, "statement outside the subset")
	return ""
}

func genCloneSrc(p *pkgInfo, out string) {
	fd, ok := p.funcs["ParsedJson.Clone"]
	if !ok || fd.Body == nil || fd.Recv == nil || len(fd.Recv.List) != 1 || len(fd.Recv.List[0].Names) != 1 {
		die("clonesrc: ParsedJson.Clone not found")
	}
	if _, isPtr := fd.Recv.List[0].Type.(*ast.StarExpr); !isPtr {
		die("clonesrc: Clone must have a pointer receiver")
	}
	ps := fd.Type.Params.List
	if len(ps) != 1 || len(ps[0].Names) != 1 || src(ps[0].Type) != "*ParsedJson" {
		die("clonesrc: Clone must take one *ParsedJson")
	}
	if fd.Type.Results == nil || len(fd.Type.Results.List) != 1 || src(fd.Type.Results.List[0].Type) != "*ParsedJson" || len(fd.Type.Results.List[0].Names) != 0 {
		die("clonesrc: Clone must return one unnamed *ParsedJson")
	}
	t := &cloneTr{recv: fd.Recv.List[0].Names[0].Name, dst: ps[0].Names[0].Name}
	n := len(fd.Body.List)
	if n == 0 {
		die("clonesrc: empty body")
	}
	// the only return is the last statement and returns dst (a return anywhere else is refused by stmt)
	ret, isRet := fd.Body.List[n-1].(*ast.ReturnStmt)
	if !isRet || len(ret.Results) != 1 {
		die("clonesrc: the body must end with `return dst`")
	}
	if w, ok := t.who(ret.Results[0]); !ok || w != ".dst" {
		die("clonesrc: the body must end with `return dst`")
	}
	var b strings.Builder
	b.WriteString(header)
	b.WriteString("import SJ.Own.Lang\nnamespace SJ.Generated\nopen SJ.Own\n\n")
	b.WriteString("/-- `(*ParsedJson).Clone` as printed from parsed_json.go -/\ndef cloneProg : List Stmt := ")
	b.WriteString(t.stmts(fd.Body.List[:n-1], ""))
	b.WriteString("\n\nend SJ.Generated\n")
	writeIfChanged(filepath.Join(out, "CloneSrc.lean"), b.String())
}
