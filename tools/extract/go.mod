module extract

go 1.22
