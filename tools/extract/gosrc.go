package main

// Go → GoSem printer.  For each selected function of the package the go/ast body is printed as a value of the
// Lean type `SJ.GoSem.FunDef` (lean/SJ/GoSem/Lang.lean), one constructor per syntax node.  No meaning is assigned
// here: the interpreter in Lang.lean does that.  Anything outside the subset aborts (exit 2 of the child
// process), which ./check reports as a broken tie for the properties that depend on the file.
//
// The only judgement made on this side is the *static type* of an expression (int / uint64 / Tag-like byte /
// bool), needed to print an untyped constant with the type Go would give it; it is derived from the declared
// types of the struct fields, of the parameters and of the package constants.

import (
	"math"
	"fmt"
	"go/ast"
	"go/parser"
	"go/token"
	"math/big"
	"path/filepath"
	"sort"
	"strconv"
	"strings"
)

type gty int

const (
	tyUnk gty = iota
	tyUntyped
	tyInt
	tyU64
	tyU8
	tyBool
	tyErr
	tyBytes
	tyPtr
	tyF64 // a float64, carried as its bit pattern (a uint64 value on the Lean side)
	tyU32  // a uint32, carried as a uint64 below 2^32; only loaded, compared and used as a constant
	tyKeys // map[string]struct{} used as a set of keys
	tyFunc // a function-valued parameter (callback)
	tyI64s // []int64
	tyU64s // []uint64
	tyF64s // []float64 (as bit patterns)
	tyU32s // [N]uint32 (elements carried as uint64 below 2^32)
	tyStrs // ...string: a list of byte strings (carried like a key set, in order)
	tyIface  // interface{} as Interface() builds them (Val.iface)
	tyIfaces // []interface{} (Val.iface (.arr …))
	tyIMap   // map[string]interface{} (Val.iface (.obj …))
)

// functions translated, in dependency order (callees first is not required)
var goSrcFuncs = []string{
	"Iter.moveToEnd", "Iter.calcNext", "Iter.Type", "Iter.Advance", "Iter.AdvanceInto", "Iter.AdvanceIter", "Iter.AdvanceIter#self",
	"Iter.PeekNext", "Iter.PeekNextTag",
	"Iter.SetFloat", "Iter.SetInt", "Iter.SetUInt", "Iter.SetBool", "Iter.SetNull", "Iter.SetStringBytes",
	"ParsedJson.stringByteAt", "Iter.StringBytes", "Iter.Bool", "Object.NextElementBytes",
	"Iter.Float", "Iter.FloatFlags", "Iter.Int", "Iter.Uint",
	"Array.ForEach", "Array.DeleteElems", "Array.FirstType", "Object.ForEach", "Object.DeleteElems",
	"isValidTrueAtom", "isValidFalseAtom", "isValidNullAtom", "parseNumber",
	"Iter.MarshalJSONBuffer", "escapeBytes", "Array.MarshalJSONBuffer", "ParsedJson.ForEach",
	"Array.AsFloat", "Array.AsInteger", "Array.AsUint64",
	"ParsedJson.get_current_loc", "ParsedJson.write_tape", "ParsedJson.writeTapeTagVal", "ParsedJson.writeTapeTagValFlags",
	"ParsedJson.write_tape_s64", "ParsedJson.write_tape_double", "ParsedJson.annotate_previousloc", "parseString", "addNumber",
	"min", "max", "fmtF", "appendFloatF", "appendFloat", "Serializer.indexString", "Object.FindKey", "Object.FindPath", "Iter.Object", "Iter.Array", "Iter.Root", "Iter.Root#self", "Iter.FindElement", "Array.AsString", "Array.AsStringCvt", "Object.Parse", "Elements.MarshalJSONBuffer", "Iter.SetString", "Iter.MarshalJSON", "Array.MarshalJSON", "Elements.MarshalJSON", "Type.String", "Tag.String", "FloatFlags.Contains", "ParsedJson.stringAt", "Iter.String", "floatToString", "Iter.StringCvt", "Object.NextElement",
	"Object.Map", "Array.Interface", "Iter.Interface",
}

// functions in which constant expressions are folded (as the compiler does) before printing; the functions translated
// earlier print them operator by operator, and their proofs match those trees
var goSrcFoldConsts = map[string]bool{"appendFloatF": true, "fmtF": true, "appendFloat": true, "min": true, "max": true}

type goBlock struct {
	skipNested []string     // expression statements left out wherever they occur inside the block
	until string            // the block ends before the first statement (after its start) that begins with this text
	kinds map[string]string // struct-typed free names → kind

	fn, lean, from string
	skip         []string
	tapes        map[string]string
	frees        map[string]gty
	locals       map[string]gty
	rtys         []gty
}

var goSrcBlocks = []goBlock{
	{fn: "Serializer.Deserialize", lean: "goDeserialize_rebuild", from: "var off int", skip: []string{"sWG", "stringsErr"},
		tapes: map[string]string{"dst.Tape": "dst"}, frees: map[string]gty{"s.tagsBuf": tyBytes, "s.valuesBuf": tyBytes},
		locals: map[string]gty{"dst": tyPtr}, rtys: []gty{tyPtr, tyErr}},
	{fn: "Serializer.Serialize", lean: "goSerialize_loop", from: "s.valuesBuf = s.valuesBuf[:0]", until: "wg.Add(3)", skipNested: []string{"wg.Wait()"},
		tapes: map[string]string{"pj.Tape": "pj"}, frees: map[string]gty{"tagWr.out": tyBytes, "valWr.out": tyBytes},
		kinds: map[string]string{"s": "Serializer", "pj": "ParsedJson"}, locals: map[string]gty{}, rtys: []gty{}},
	{fn: "Serializer.Serialize", lean: "goSerialize_assemble", from: "dst = append(dst, serializedVersion)", skip: []string{"if false {"},
		tapes: map[string]string{"pj.Tape": "pj"}, frees: map[string]gty{"s.sMsg": tyBytes, "s.tagsCompBuf": tyBytes, "s.valuesCompBuf": tyBytes, "s.stringBuf": tyBytes},
		locals: map[string]gty{"dst": tyBytes, "tmp": tyBytes, "rawTags": tyInt, "rawValues": tyInt}, rtys: []gty{tyBytes}},
}

// struct kinds whose values are flattened into variables `<name>.<field>`; every kind has a tape slice whose length
// is the variable `<name>.lim` (`x.tape.Tape` for the cursor types, `x.Tape` for a ParsedJson).
type structKind struct {
	fields []string        // scalar fields, in the order of the Lean `fields` list (without lim)
	ftypes map[string]gty
	noTape bool            // a plain struct: no tape slice, no `lim`
}

var structKinds = map[string]structKind{
	"Iter":       {fields: []string{"off", "addNext", "cur", "t"}, ftypes: map[string]gty{"off": tyInt, "addNext": tyInt, "cur": tyU64, "t": tyU8}},
	"Object":     {fields: []string{"off"}, ftypes: map[string]gty{"off": tyInt}},
	"Array":      {fields: []string{"off"}, ftypes: map[string]gty{"off": tyInt}},
	"ParsedJson": {fields: []string{}, ftypes: map[string]gty{}},
	"Serializer": {fields: []string{"stringsTable", "stringBuf", "stringWr.out", "tagsBuf", "valuesBuf", "memHash.answers"}, ftypes: map[string]gty{"memHash.answers": tyU64s, "stringsTable": tyU32s, "stringBuf": tyBytes, "stringWr.out": tyBytes, "tagsBuf": tyBytes, "valuesBuf": tyBytes}, noTape: true},
	"Elements": {fields: []string{"Elements.Name", "Elements.Type", "Elements.Iter", "Index.k", "Index.v"}, ftypes: map[string]gty{"Elements.Name": tyStrs, "Elements.Type": tyBytes, "Elements.Iter": tyI64s, "Index.k": tyStrs, "Index.v": tyI64s}, noTape: true},
	"Element": {fields: []string{"Name", "Type", "Iter.off", "Iter.addNext", "Iter.cur", "Iter.t", "Iter.lim"}, ftypes: map[string]gty{"Name": tyBytes, "Type": tyU8}, noTape: true},
	"decimalSlice": {fields: []string{"d", "nd", "dp", "neg"}, ftypes: map[string]gty{"d": tyBytes, "nd": tyInt, "dp": tyInt, "neg": tyBool}, noTape: true},
}

func kindFields(k string) string {
	fs := append([]string{}, structKinds[k].fields...)
	if !structKinds[k].noTape {
		fs = append(fs, "lim")
	}
	return leanStrList(fs)
}

// valKind: a struct passed by value (treated like a pointer parameter that the callee must not assign to)
func valKind(e ast.Expr) (string, bool) {
	id, ok := e.(*ast.Ident)
	if !ok {
		return "", false
	}
	k, ok := structKinds[id.Name]
	return id.Name, ok && k.noTape
}

// valKindAny: any plain (tape-less) struct kind named by the type expression
func valKindAny(e ast.Expr) (string, bool) {
	id, ok := e.(*ast.Ident)
	if !ok {
		return "", false
	}
	k, ok := structKinds[id.Name]
	return id.Name, ok && k.noTape
}

// pointer-to-struct type expression → kind
func ptrKind(e ast.Expr) (string, bool) {
	st, ok := e.(*ast.StarExpr)
	if !ok {
		return "", false
	}
	id, ok := st.X.(*ast.Ident)
	if !ok {
		return "", false
	}
	_, ok = structKinds[id.Name]
	return id.Name, ok
}

type lconstV struct {
	val string
	ty  gty
}

type gsTr struct {
	pre      []string         // statements hoisted out of the expression being translated (calls with a result)
	lazy     int              // > 0 while translating the right operand of && / ||: nothing may be hoisted from there
	readonly map[string]bool    // struct parameters passed by value
	aliasParams map[string]bool // `i!=dst`: pointer comparisons of the body, passed by callers as hidden boolean parameters
	ntemp    int
	curSwLabel string         // label of the switch statement about to be translated
	swLabels map[string]bool  // labels of switch statements
	loopLabels map[string]bool
	shadowed []string         // names the current block has redefined over an enclosing scope's variable
	lconst map[string]lconstV // constants declared in the function
	poison map[string]bool   // outer variables whose slot an inner scope has reused (shadowing): not to be read again
	outer  map[string]gty    // variables of the enclosing scopes (at the entry of the innermost block)
	kinds  map[string]string // struct-typed names (receiver, pointer parameters, locals) → kind
	named  []string          // named results, in order
	nameTy map[string]gty
	p      *pkgInfo
	fn     string
	recv   string            // receiver name
	iters  map[string]bool   // identifiers that are *Iter (receiver and parameters)
	locals map[string]gty    // local variables and non-Iter parameters
	fields map[string]gty    // Iter field types
	tapes  map[string]string // other tape slices by source text (`dst.Tape`) → base name
	frees  map[string]gty    // free variables of a translated block by source text (`s.tagsBuf`)
	rtys   []gty             // result types when translating a block of a function whose results are not all scalars
	ptrParam map[string]bool // pointer-to-struct parameters of the function being translated (may be nil at entry)
	ptrAlias map[string]string // pointer-valued locals that are nil or the address of a struct variable: name → that variable
	ptrNil   []string        // per pointer argument of the call being translated: the expression "this argument is nil"
	skipStmts []string       // expression statements left out wherever they occur (waits on goroutines)
	arr8   map[string]bool   // locals declared as [8]byte
	nilTarget string         // while translating `x, err := f(nil)`: x
	mapParam map[string]bool // parameters of type map[string]interface{} (may be nil at entry: hidden flag `<name>==nil`)
}

func gsDie(n ast.Node, format string, a ...interface{}) {
	die("gosrc: %s: %s (%s)", fset.Position(n.Pos()), fmt.Sprintf(format, a...), src(n))
}

func tyOfTypeExpr(e ast.Expr) gty {
	switch t := e.(type) {
	case *ast.Ident:
		switch t.Name {
		case "int", "int64":
			return tyInt
		case "uint64":
			return tyU64
		case "Tag", "Type", "byte", "uint8":
			return tyU8
		case "bool":
			return tyBool
		case "error":
			return tyErr
		case "string":
			return tyBytes // a string is its bytes
		case "float64":
			return tyF64
		case "FloatFlags", "FloatFlag":
			return tyU64
		case "uint32":
			return tyU32
		}
	case *ast.InterfaceType:
		if t.Methods == nil || len(t.Methods.List) == 0 {
			return tyIface
		}
	case *ast.ArrayType:
		if t.Len == nil {
			if _, ok := t.Elt.(*ast.InterfaceType); ok && tyOfTypeExpr(t.Elt) == tyIface {
				return tyIfaces
			}
			if id, ok := t.Elt.(*ast.Ident); ok {
				switch id.Name {
				case "byte":
					return tyBytes
				case "int64":
					return tyI64s
				case "uint64":
					return tyU64s
				case "float64":
					return tyF64s
				case "string":
					return tyStrs
				}
			}
		}
	case *ast.MapType:
		if k, ok := t.Key.(*ast.Ident); ok && k.Name == "string" && nows(src(t.Value)) == "struct{}" {
			return tyKeys
		}
		if k, ok := t.Key.(*ast.Ident); ok && k.Name == "string" && tyOfTypeExpr(t.Value) == tyIface {
			return tyIMap
		}
	case *ast.StarExpr:
		if id, ok := t.X.(*ast.Ident); ok && (id.Name == "Element" || id.Name == "Elements" || id.Name == "Iter" || id.Name == "Object" || id.Name == "Array") {
			return tyPtr
		}
	case *ast.Ellipsis:
		if id, ok := t.Elt.(*ast.Ident); ok && id.Name == "string" {
			return tyStrs
		}
	case *ast.FuncType:
		return tyFunc
	}
	return tyUnk
}

func (t *gsTr) iterFieldTypes() {
	t.fields = map[string]gty{}
	for _, f := range t.p.files {
		ast.Inspect(f, func(n ast.Node) bool {
			ts, ok := n.(*ast.TypeSpec)
			if !ok || ts.Name.Name != "Iter" {
				return true
			}
			st, ok := ts.Type.(*ast.StructType)
			if !ok {
				return true
			}
			for _, fl := range st.Fields.List {
				for _, nm := range fl.Names {
					t.fields[nm.Name] = tyOfTypeExpr(fl.Type)
				}
			}
			return false
		})
	}
	for _, f := range []string{"off", "addNext", "cur", "t"} {
		if t.fields[f] == tyUnk {
			die("gosrc: Iter.%s has no supported type", f)
		}
	}
}

// constant identifiers: typed package constants
func (t *gsTr) constExpr(id *ast.Ident) (string, gty, bool) {
	if _, ok := t.p.cexprs[id.Name]; !ok {
		return "", tyUnk, false
	}
	v := t.p.constVal(id.Name)
	// the declared type of the constant: look at the spec (Tag(...), Type = iota, uint64 masks)
	ty := t.constType(id.Name)
	switch ty {
	case tyU8:
		return fmt.Sprintf("(.u8 %s /- %s -/)", v.String(), id.Name), tyU8, true
	case tyU64:
		return fmt.Sprintf("(.u64 %s /- %s -/)", v.String(), id.Name), tyU64, true
	case tyInt:
		return fmt.Sprintf("(.int %s /- %s -/)", leanInt(v.String()), id.Name), tyInt, true
	}
	return fmt.Sprintf("%s", v.String()), tyUntyped, true
}

func leanInt(s string) string {
	if strings.HasPrefix(s, "-") {
		return "(" + s + ")"
	}
	return s
}

func (t *gsTr) constType(name string) gty {
	for _, f := range t.p.files {
		for _, d := range f.Decls {
			gd, ok := d.(*ast.GenDecl)
			if !ok || gd.Tok != token.CONST {
				continue
			}
			var lastTy gty
			for _, s := range gd.Specs {
				vs := s.(*ast.ValueSpec)
				ty := tyUnk
				if vs.Type != nil {
					ty = tyOfTypeExpr(vs.Type)
				} else if len(vs.Values) > 0 {
					if c, ok := vs.Values[0].(*ast.CallExpr); ok && len(c.Args) == 1 {
						ty = tyOfTypeExpr(c.Fun)
					}
				} else {
					ty = lastTy
				}
				if len(vs.Values) > 0 || vs.Type != nil {
					lastTy = ty
				}
				for _, nm := range vs.Names {
					if nm.Name == name {
						if ty == tyUnk {
							return tyUntyped
						}
						return ty
					}
				}
			}
		}
	}
	return tyUnk
}

// isTape reports whether e is `<iter>.tape.Tape` and returns the iterator's name.
// global reports whether e is the string buffer or the message of the (one) document the function works on.
func (t *gsTr) global(e ast.Expr) (string, bool) {
	x := nows(src(e))
	for name, k := range t.kinds {
		pre := name + ".tape."
		if k == "ParsedJson" {
			pre = name + "."
		}
		if x == pre+"Strings.B" {
			return "Strings.B", true
		}
		if x == pre+"Message" {
			return "Message", true
		}
	}
	return "", false
}

func (t *gsTr) isTape(e ast.Expr) (string, bool) {
	if base, ok := t.tapes[nows(src(e))]; ok {
		return base, true
	}
	if s1, ok := e.(*ast.SelectorExpr); ok && s1.Sel.Name == "Tape" {
		if id, ok := s1.X.(*ast.Ident); ok && t.kinds[id.Name] == "ParsedJson" {
			return id.Name, true
		}
	}
	s1, ok := e.(*ast.SelectorExpr)
	if !ok || s1.Sel.Name != "Tape" {
		return "", false
	}
	s2, ok := s1.X.(*ast.SelectorExpr)
	if !ok || s2.Sel.Name != "tape" {
		return "", false
	}
	id, ok := s2.X.(*ast.Ident)
	if !ok || (!t.iters[id.Name] && t.kinds[id.Name] == "") {
		return "", false
	}
	return id.Name, true
}

// expr prints e; want is the type an untyped constant should take (tyUnk: none known).
func (t *gsTr) expr(e ast.Expr, want gty) (string, gty) {
	if be, ok := e.(*ast.BinaryExpr); ok && goSrcFoldConsts[t.fn] {
		if v, ty, ok := t.constFold(be); ok {
			// a constant expression: folded as the Go compiler does (exact integer arithmetic)
			if ty == tyUntyped {
				return t.untyped(e, v.String(), want)
			}
			return t.untyped(e, v.String(), ty)
		}
	}
	switch x := e.(type) {
	case *ast.ParenExpr:
		return t.expr(x.X, want)
	case *ast.BasicLit:
		if x.Kind == token.CHAR {
			r, err := strconv.Unquote(x.Value)
			if err != nil || len([]rune(r)) != 1 {
				gsDie(e, "character literal")
			}
			return t.untyped(e, strconv.Itoa(int([]rune(r)[0])), want)
		}
		if x.Kind == token.STRING && (want == tyBytes || want == tyUnk) {
			// a string is its bytes
			str, err := strconv.Unquote(x.Value)
			if err != nil {
				gsDie(e, "string literal")
			}
			var bs []string
			for _, c := range []byte(str) {
				bs = append(bs, strconv.Itoa(int(c)))
			}
			return fmt.Sprintf("(.litB [%s] /- %s -/)", strings.Join(bs, ", "), strings.ReplaceAll(x.Value, "-/", "- /")), tyBytes
		}
		if x.Kind != token.INT {
			gsDie(e, "literal kind")
		}
		v, ok := new(big.Int).SetString(x.Value, 0)
		if !ok {
			gsDie(e, "literal")
		}
		return t.untyped(e, v.String(), want)
	case *ast.Ident:
		switch x.Name {
		case "true":
			return "(.bool true)", tyBool
		case "false":
			return "(.bool false)", tyBool
		case "nil":
			if want == tyPtr {
				return "(.bool false /- nil -/)", tyPtr
			}
			if want == tyBytes {
				return ".nilB", tyBytes
			}
			if want == tyI64s {
				return ".nilI", tyI64s
			}
			if want == tyU64s || want == tyF64s {
				return ".nilU", want
			}
			if want == tyStrs {
				return ".nilK", tyStrs
			}
			if want == tyIface {
				return ".nilV", tyIface
			}
			if want == tyIfaces {
				return ".nilA", tyIfaces
			}
			if want == tyIMap {
				return ".nilM", tyIMap
			}
			return "(.bool false /- nil -/)", tyErr
		}
		if want == tyErr && x.Name == "ErrPathNotFound" {
			if _, isLocal := t.locals[x.Name]; !isLocal {
				return "(.bool true /- ErrPathNotFound -/)", tyErr // a package-level error value: non-nil
			}
		}
		if x.Name == t.recv && t.recv != "" && want == tyPtr {
			return fmt.Sprintf("(.bool true /- %s -/)", x.Name), tyPtr // the receiver itself: not nil
		}
		if t.kinds[x.Name] != "" && x.Name != t.recv && want == tyPtr {
			// the pointer itself, as a result: nil or not
			t.aliasParams[x.Name+"==nil"] = true
			return fmt.Sprintf("(.not (.v %s)) /- %s -/", strconv.Quote(x.Name+"==nil"), x.Name), tyPtr
		}
		if ty, ok := t.locals[x.Name]; ok {
			if t.poison[x.Name] {
				gsDie(e, "variable read after an inner scope shadowed it (one store slot per name)")
			}
			if ty == tyPtr {
				if _, isAlias := t.ptrAlias[x.Name]; isAlias {
					return fmt.Sprintf("(.v %s)", strconv.Quote(x.Name)), tyPtr // holds "non-nil"
				}
				return fmt.Sprintf("(.bool true /- %s -/)", x.Name), tyPtr
			}
			return fmt.Sprintf("(.v %s)", strconv.Quote(x.Name)), ty
		}
		if c, ok := t.lconst[x.Name]; ok {
			if c.ty == tyUntyped {
				return t.untyped(e, c.val, want)
			}
			return t.untyped(e, c.val, c.ty) // a typed constant is printed with its own type
		}
		if s, ty, ok := t.constExpr(x); ok {
			if ty == tyUntyped {
				return t.untyped(e, s, want)
			}
			return s, ty
		}
		gsDie(e, "identifier")
	case *ast.SelectorExpr:
		if pk, ok := x.X.(*ast.Ident); ok && pk.Name == "math" {
			if v, ok := mathConsts[x.Sel.Name]; ok {
				return t.untyped(e, v, want)
			}
		}
		if ty, ok := t.frees[nows(src(e))]; ok {
			return fmt.Sprintf("(.v %s)", strconv.Quote(nows(src(e)))), ty
		}
		if g, ok := t.global(e); ok {
			return fmt.Sprintf("(.v %s)", strconv.Quote(g)), tyBytes
		}
		if id, ok := x.X.(*ast.Ident); ok && t.kinds[id.Name] != "" && !t.iters[id.Name] {
			ty, ok := structKinds[t.kinds[id.Name]].ftypes[x.Sel.Name]
			if !ok {
				gsDie(e, "field")
			}
			return fmt.Sprintf("(.v %s)", strconv.Quote(id.Name+"."+x.Sel.Name)), ty
		}
		if id, ok := x.X.(*ast.Ident); ok && t.iters[id.Name] {
			ty, ok := t.fields[x.Sel.Name]
			if !ok || ty == tyUnk {
				gsDie(e, "field")
			}
			return fmt.Sprintf("(.v %s)", strconv.Quote(id.Name+"."+x.Sel.Name)), ty
		}
		gsDie(e, "selector")
	case *ast.CompositeLit:
		// [N]byte{}: a zeroed array
		if at, ok := x.Type.(*ast.ArrayType); ok && at.Len != nil && len(x.Elts) == 0 {
			if el, ok := at.Elt.(*ast.Ident); ok && (el.Name == "byte" || el.Name == "uint8") {
				return fmt.Sprintf("(.zerosB %s)", t.p.eval(at.Len, 0).String()), tyBytes
			}
		}
		// []byte{a, b, …}: the bytes listed
		if at, ok := x.Type.(*ast.ArrayType); ok && at.Len == nil {
			if el, ok := at.Elt.(*ast.Ident); ok && (el.Name == "byte" || el.Name == "uint8") && len(x.Elts) > 0 {
				out := ".nilB"
				for _, el := range x.Elts {
					b, bty := t.expr(el, tyU8)
					if bty != tyU8 {
						gsDie(e, "byte literal element")
					}
					out = fmt.Sprintf("(.pushB %s %s)", out, b)
				}
				return out, tyBytes
			}
		}
		gsDie(e, "composite literal")
	case *ast.SliceExpr:
		if id, ok := x.X.(*ast.Ident); ok && t.locals[id.Name] == tyStrs {
			if x.Low == nil || x.High != nil || x.Slice3 {
				gsDie(e, "string list slice shape")
			}
			lo, lty := t.expr(x.Low, tyInt)
			if lty != tyInt {
				gsDie(e, "string list slice bound")
			}
			return fmt.Sprintf("(.dropK (.v %s) %s)", strconv.Quote(id.Name), lo), tyStrs
		}
		b, bty := t.expr(x.X, tyUnk)
		if bty != tyBytes || x.Slice3 {
			gsDie(e, "slice expression")
		}
		// a missing bound is printed as what Go defines it to be: 0 and len(operand)
		lo, hi := "(.int 0)", "(.lenB "+b+")"
		bound := func(be ast.Expr) string {
			l, lty := t.expr(be, tyInt)
			switch lty {
			case tyInt:
				return l
			case tyU64:
				// Go accepts any integer type as a bound; a uint64 ≥ 2^63 fails the bounds check either way
				return "(.conv .int " + l + ")"
			}
			gsDie(e, "slice bound type")
			return ""
		}
		if x.Low != nil {
			lo = bound(x.Low)
		}
		if x.High != nil {
			hi = bound(x.High)
		}
		return fmt.Sprintf("(.sliceB %s %s %s)", b, lo, hi), tyBytes
	case *ast.IndexExpr:
		if id, ok := x.X.(*ast.Ident); ok && t.locals[id.Name] == tyStrs {
			idx, ity := t.expr(x.Index, tyInt)
			if ity != tyInt {
				gsDie(e, "string list index type")
			}
			return fmt.Sprintf("(.idxK (.v %s) %s)", strconv.Quote(id.Name), idx), tyBytes
		}
		if base, ok := t.isTape(x.X); ok {
			idx, ity := t.expr(x.Index, tyInt)
			if ity != tyInt && ity != tyU64 {
				gsDie(e, "tape index type")
			}
			return fmt.Sprintf("(.tapeAt %s %s)", strconv.Quote(base), idx), tyU64
		}
		if _, isTbl := x.X.(*ast.Ident); !isTbl || t.locals[x.X.(*ast.Ident).Name] == tyBytes {
			if a, aty := t.exprMaybe(x.X); aty == tyBytes {
				idx, ity := t.expr(x.Index, tyInt)
				if ity != tyInt && ity != tyU64 {
					gsDie(e, "byte index type")
				}
				return fmt.Sprintf("(.idxB %s %s)", a, idx), tyU8
			}
		}
		if sx, ok := x.X.(*ast.SelectorExpr); ok {
			if id, ok := sx.X.(*ast.Ident); ok && t.kinds[id.Name] != "" && structKinds[t.kinds[id.Name]].ftypes[sx.Sel.Name] == tyU32s {
				idx, ity := t.expr(x.Index, tyInt)
				if ity != tyInt && ity != tyU64 {
					gsDie(e, "array index type")
				}
				return fmt.Sprintf("(.idxU (.v %s) %s)", strconv.Quote(id.Name+"."+sx.Sel.Name), idx), tyU32
			}
		}
		if id, ok := x.X.(*ast.Ident); ok && (id.Name == "shouldEscape" || id.Name == "valToHex") {
			idx, ity := t.expr(x.Index, tyU8)
			if ity != tyU8 {
				gsDie(e, "table index type")
			}
			rty := tyU8
			if id.Name == "shouldEscape" {
				rty = tyBool
			}
			return fmt.Sprintf("(.tbl %s %s)", strconv.Quote(id.Name), idx), rty
		}
		if id, ok := x.X.(*ast.Ident); ok && (id.Name == "TagToType" || id.Name == "tagOpenToClose" || id.Name == "isNumberRune" || id.Name == "structuralOrWhitespaceNegated") {
			idx, ity := t.expr(x.Index, tyU8)
			if ity != tyU8 {
				gsDie(e, "table index type")
			}
			return fmt.Sprintf("(.tbl %s %s)", strconv.Quote(id.Name), idx), tyU8
		}
		gsDie(e, "index expression")
	case *ast.CallExpr:
		if id, ok := x.Fun.(*ast.Ident); ok && len(x.Args) == 1 {
			if id.Name == "len" {
				if sx, ok := x.Args[0].(*ast.SelectorExpr); ok && sx.Sel.Name == "Elements" {
					if eid, ok := sx.X.(*ast.Ident); ok && t.kinds[eid.Name] == "Elements" {
						return fmt.Sprintf("(.lenK (.v %s))", strconv.Quote(eid.Name+".Elements.Name")), tyInt
					}
				}
				if base, ok := t.isTape(x.Args[0]); ok {
					return fmt.Sprintf("(.lenTape %s)", strconv.Quote(base)), tyInt
				}
				if id2, ok := x.Args[0].(*ast.Ident); ok && (t.locals[id2.Name] == tyKeys || t.locals[id2.Name] == tyStrs) {
					return fmt.Sprintf("(.lenK (.v %s))", strconv.Quote(id2.Name)), tyInt
				}
				if a, aty := t.expr(x.Args[0], tyUnk); aty == tyBytes {
					return fmt.Sprintf("(.lenB %s)", a), tyInt
				}
				gsDie(e, "len of")
			}
			if id.Name == "string" {
				a, aty := t.expr(x.Args[0], tyBytes)
				if aty != tyBytes {
					gsDie(e, "string conversion operand")
				}
				return a, tyBytes
			}
			if id.Name == "uint32" {
				a, aty := t.expr(x.Args[0], tyInt)
				switch aty {
				case tyInt:
					a = "(.conv .u64 " + a + ")"
				case tyU64, tyU32:
				default:
					gsDie(e, "uint32 conversion operand")
				}
				return fmt.Sprintf("(.bin .and %s (.u64 4294967295))", a), tyU32 // truncation to 32 bits; carried as a uint64
			}
			if ty := tyOfTypeExpr(id); ty == tyInt || ty == tyU64 || ty == tyU8 || ty == tyF64 {
				wantA := ty
				if ty == tyF64 {
					wantA = tyUnk
				}
				if _, aty0 := t.exprTry(x.Args[0]); aty0 == tyF64 {
					wantA = tyF64
				}
				a, aty := t.expr(x.Args[0], wantA)
				switch {
				case ty == tyF64 && aty == tyInt:
					return fmt.Sprintf("(.i2f %s)", a), tyF64
				case ty == tyF64 && aty == tyU64:
					return fmt.Sprintf("(.u2f %s)", a), tyF64
				case ty == tyInt && aty == tyF64 && id.Name == "int64":
					return fmt.Sprintf("(.f2i %s)", a), tyInt
				case ty == tyU64 && aty == tyF64 && id.Name == "uint64":
					return fmt.Sprintf("(.f2u %s)", a), tyU64
				case ty == tyF64 || aty == tyF64:
					gsDie(e, "float conversion")
				}
				if aty == tyU32 {
					aty = tyU64 // carried as a uint64 below 2^32
				}
				if aty != tyInt && aty != tyU64 && aty != tyU8 {
					gsDie(e, "conversion operand")
				}
				return fmt.Sprintf("(.conv %s %s)", tyName(ty), a), ty
			}
		}
		if f := nows(src(x.Fun)); (f == "math.Float64bits" || f == "math.Float64frombits") && len(x.Args) == 1 {
			from, to := tyF64, tyU64
			if f == "math.Float64frombits" {
				from, to = tyU64, tyF64
			}
			a, aty := t.expr(x.Args[0], from)
			if aty != from {
				gsDie(e, "float bits operand")
			}
			return a, to // same value on the Lean side: a float64 is carried as its bits
		}
		if id, ok := x.Fun.(*ast.Ident); ok && id.Name == "append" && len(x.Args) == 2 && x.Ellipsis.IsValid() {
			// append(make([]T, 0, n), y...) is a copy of y
			if mk, ok := x.Args[0].(*ast.CallExpr); ok && len(mk.Args) == 3 && nows(src(mk.Fun)) == "make" && nows(src(mk.Args[1])) == "0" {
				return t.expr(x.Args[1], tyBytes)
			}
		}
		if id, ok := x.Fun.(*ast.Ident); ok && id.Name == "make" && (len(x.Args) == 2 || len(x.Args) == 3) && tyOfTypeExpr(x.Args[0]) == tyBytes {
			n, nty := t.expr(x.Args[1], tyInt)
			if nty == tyU64 {
				n, nty = "(.conv .int "+n+")", tyInt
			}
			if nty != tyInt {
				gsDie(e, "make length type")
			}
			return fmt.Sprintf("(.zerosBn %s)", n), tyBytes // the capacity argument does not influence the content
		}
		if id, ok := x.Fun.(*ast.Ident); ok && id.Name == "cap" && len(x.Args) == 1 {
			if a, ok := x.Args[0].(*ast.Ident); ok && t.locals[a.Name] == tyBytes {
				// the capacity of a slice is not part of its value here: an input of the function
				return fmt.Sprintf("(.v %s)", strconv.Quote("cap("+a.Name+")")), tyInt
			}
		}
		if id, ok := x.Fun.(*ast.Ident); ok && id.Name == "make" && len(x.Args) == 3 && nows(src(x.Args[1])) == "0" {
			// make([]T, 0, n): an empty slice; the capacity is evaluated (it may not be negative) and otherwise irrelevant
			switch tyOfTypeExpr(x.Args[0]) {
			case tyI64s:
				return ".nilI", tyI64s
			case tyU64s:
				return ".nilU", tyU64s
			case tyF64s:
				return ".nilU", tyF64s
			case tyStrs:
				return ".nilK", tyStrs
			case tyIfaces:
				return ".nilA", tyIfaces
			}
		}
		if id, ok := x.Fun.(*ast.Ident); ok && id.Name == "make" && len(x.Args) == 1 && tyOfTypeExpr(x.Args[0]) == tyIMap {
			return ".nilM", tyIMap // make(map[string]interface{}): an empty map
		}
		if id, ok := x.Fun.(*ast.Ident); ok && id.Name == "append" && len(x.Args) == 2 && !x.Ellipsis.IsValid() {
			if a, aty := t.exprTry(x.Args[0]); aty == tyIfaces {
				b, bty := t.expr(x.Args[1], tyIface)
				if bty != tyIface {
					gsDie(e, "appended element type")
				}
				return fmt.Sprintf("(.pushA %s %s)", a, b), tyIfaces
			}
		}
		if id, ok := x.Fun.(*ast.Ident); ok && id.Name == "append" && len(x.Args) == 2 && !x.Ellipsis.IsValid() {
			if a, aty := t.exprTry(x.Args[0]); aty == tyStrs {
				b, bty := t.expr(x.Args[1], tyBytes)
				if bty != tyBytes {
					gsDie(e, "appended element type")
				}
				return fmt.Sprintf("(.pushK %s %s)", a, b), tyStrs
			}
			if a, aty := t.exprTry(x.Args[0]); aty == tyI64s || aty == tyU64s || aty == tyF64s {
				elTy := map[gty]gty{tyI64s: tyInt, tyU64s: tyU64, tyF64s: tyF64}[aty]
				b, bty := t.expr(x.Args[1], elTy)
				if bty != elTy {
					gsDie(e, "appended element type")
				}
				if aty == tyI64s {
					return fmt.Sprintf("(.pushI %s %s)", a, b), aty
				}
				return fmt.Sprintf("(.pushU %s %s)", a, b), aty
			}
		}
		if id, ok := x.Fun.(*ast.Ident); ok && id.Name == "append" && len(x.Args) >= 2 && !x.Ellipsis.IsValid() {
			a, aty := t.expr(x.Args[0], tyBytes)
			if aty != tyBytes {
				gsDie(e, "append operands")
			}
			for _, el := range x.Args[1:] {
				b, bty := t.expr(el, tyU8)
				if bty != tyU8 {
					gsDie(e, "appended element type")
				}
				a = fmt.Sprintf("(.pushB %s %s)", a, b)
			}
			return a, tyBytes
		}
		if id, ok := x.Fun.(*ast.Ident); ok && id.Name == "append" && len(x.Args) == 2 && x.Ellipsis.IsValid() {
			a, aty := t.expr(x.Args[0], tyBytes)
			b, bty := t.expr(x.Args[1], tyBytes)
			if aty != tyBytes || bty != tyBytes {
				gsDie(e, "append operands")
			}
			return fmt.Sprintf("(.appendB %s %s)", a, b), tyBytes
		}
		switch f := nows(src(x.Fun)); {
		case (f == "math.IsNaN" && len(x.Args) == 1) || (f == "math.IsInf" && len(x.Args) == 2 && nows(src(x.Args[1])) == "0") || (f == "math.Abs" && len(x.Args) == 1):
			a, aty := t.expr(x.Args[0], tyF64)
			if aty != tyF64 {
				gsDie(e, "float operand")
			}
			switch f {
			case "math.IsNaN":
				return fmt.Sprintf("(.fIsNaN %s)", a), tyBool
			case "math.IsInf":
				return fmt.Sprintf("(.fIsInf %s)", a), tyBool
			}
			return fmt.Sprintf("(.fabs %s)", a), tyF64
		case f == "binary.LittleEndian.Uint32" && len(x.Args) == 1:
			a, aty := t.expr(x.Args[0], tyUnk)
			if aty != tyBytes {
				gsDie(e, "Uint32 operand")
			}
			return fmt.Sprintf("(.le32 %s)", a), tyU32
		case f == "bytes.Equal" && len(x.Args) == 2:
			a, aty := t.expr(x.Args[0], tyBytes)
			b, bty := t.expr(x.Args[1], tyBytes)
			if aty != tyBytes || bty != tyBytes {
				gsDie(e, "bytes.Equal operands")
			}
			return fmt.Sprintf("(.eqB %s %s)", a, b), tyBool
		case f == "[]byte" && len(x.Args) == 1:
			if lit, ok := x.Args[0].(*ast.BasicLit); ok && lit.Kind == token.STRING {
				str, err := strconv.Unquote(lit.Value)
				if err != nil {
					gsDie(e, "string literal")
				}
				var bs []string
				for _, c := range []byte(str) {
					bs = append(bs, strconv.Itoa(int(c)))
				}
				return fmt.Sprintf("(.litB [%s] /- %s -/)", strings.Join(bs, ", "), strings.ReplaceAll(lit.Value, "-/", "- /")), tyBytes
			}
			if _, isLit := x.Args[0].(*ast.BasicLit); !isLit {
				// []byte(s) for a string s: a string is its bytes (the copy is not observable: byte slices have no identity here)
				a, aty := t.expr(x.Args[0], tyBytes)
				if aty != tyBytes {
					gsDie(e, "[]byte conversion operand")
				}
				return a, tyBytes
			}
		case f == "unsafeBytesToString" && len(x.Args) == 1:
			// a string sharing the bytes of the slice: a string is its bytes
			a, aty := t.expr(x.Args[0], tyBytes)
			if aty != tyBytes {
				gsDie(e, "unsafeBytesToString operand")
			}
			return a, tyBytes
		case f == "isNotStructuralOrWhitespace" && len(x.Args) == 1:
			fd := t.p.funcs["isNotStructuralOrWhitespace"]
			if fd == nil || nows(src(fd.Body)) != "{returnstructuralOrWhitespaceNegated[c]}" {
				gsDie(e, "isNotStructuralOrWhitespace has an unexpected body")
			}
			a, aty := t.expr(x.Args[0], tyU8)
			if aty != tyU8 {
				gsDie(e, "argument type")
			}
			return fmt.Sprintf("(.tbl \"structuralOrWhitespaceNegated\" %s)", a), tyU8
		case f == "errors.Is" && len(x.Args) == 2 && nows(src(x.Args[1])) == "strconv.ErrRange":
			if id, ok := x.Args[0].(*ast.Ident); ok && t.locals[id.Name] == tyErr {
				return fmt.Sprintf("(.v %s)", strconv.Quote(id.Name+".range")), tyBool
			}
		}
		if nows(src(x.Fun)) == "binary.LittleEndian.Uint64" && len(x.Args) == 1 {
			a, aty := t.expr(x.Args[0], tyUnk)
			if aty != tyBytes {
				gsDie(e, "Uint64 operand")
			}
			return fmt.Sprintf("(.le64 %s)", a), tyU64
		}
		if sel, ok := x.Fun.(*ast.SelectorExpr); ok && sel.Sel.Name == "Type" && len(x.Args) == 0 {
			if inner, ok := sel.X.(*ast.SelectorExpr); ok && inner.Sel.Name == "t" {
				// <iterator>.t.Type(): the same method of Tag, on a field
				if id, isId := inner.X.(*ast.Ident); isId && t.iters[id.Name] {
					fd := t.p.funcs["Tag.Type"]
					if fd == nil || nows(src(fd.Body)) != "{returnTagToType[t]}" {
						gsDie(e, "Tag.Type has an unexpected body")
					}
					a, aty := t.expr(inner, tyU8)
					if aty != tyU8 {
						gsDie(e, "Tag.Type operand")
					}
					return fmt.Sprintf("(.tbl \"TagToType\" %s)", a), tyU8
				}
			}
			if inner, ok := sel.X.(*ast.CallExpr); ok {
				// <call returning a Tag>.Type(): func (t Tag) Type() Type { return TagToType[t] }, pinned by the shape check
				fd := t.p.funcs["Tag.Type"]
				if fd == nil || nows(src(fd.Body)) != "{returnTagToType[t]}" {
					gsDie(e, "Tag.Type has an unexpected body")
				}
				a, aty := t.expr(inner, tyU8)
				if aty != tyU8 {
					gsDie(e, "Tag.Type operand")
				}
				return fmt.Sprintf("(.tbl \"TagToType\" %s)", a), tyU8
			}
		}
		if f := nows(src(x.Fun)); (f == "strconv.FormatInt" || f == "strconv.FormatUint") && len(x.Args) == 2 && nows(src(x.Args[1])) == "10" {
			// the decimal text as a fresh string: AppendInt/AppendUint onto nothing
			wantA, name := tyInt, "AppendInt"
			if f == "strconv.FormatUint" {
				wantA, name = tyU64, "AppendUint"
			}
			v, vty := t.expr(x.Args[0], wantA)
			if vty != wantA {
				gsDie(e, "integer formatting operand")
			}
			if t.lazy > 0 {
				gsDie(e, "call under the right operand of && or ||")
			}
			t.ntemp++
			tmp := fmt.Sprintf("#c%d", t.ntemp)
			t.pre = append(t.pre, fmt.Sprintf(".extAssign [%s] %s [.nilB, %s]", strconv.Quote(tmp), strconv.Quote(name), v))
			return fmt.Sprintf("(.v %s)", strconv.Quote(tmp)), tyBytes
		}
		if nows(src(x.Fun)) == "binary.PutUvarint" && len(x.Args) == 2 {
			// n := binary.PutUvarint(tmp[:], v): by contract the encoding is written to the front of tmp; an encoding longer
			// than tmp is an index out of range (the library writes byte by byte)
			sl, ok := x.Args[0].(*ast.SliceExpr)
			if !ok || sl.Low != nil || sl.High != nil {
				gsDie(e, "PutUvarint buffer")
			}
			bid, ok := sl.X.(*ast.Ident)
			if !ok || t.locals[bid.Name] != tyBytes {
				gsDie(e, "PutUvarint buffer")
			}
			if t.lazy > 0 {
				gsDie(e, "call under the right operand of && or ||")
			}
			v, vty := t.expr(x.Args[1], tyU64)
			if vty != tyU64 {
				gsDie(e, "PutUvarint operand")
			}
			t.ntemp++
			tmp := fmt.Sprintf("#c%d", t.ntemp)
			t.pre = append(t.pre, fmt.Sprintf(".extAssign [%s, %s, %s] \"PutUvarint\" [(.v %s), %s]", strconv.Quote(bid.Name), strconv.Quote(tmp), strconv.Quote(tmp+".ok"), strconv.Quote(bid.Name), v),
				fmt.Sprintf(".ite (.not (.v %s)) [.panicS /- index out of range inside binary.PutUvarint -/] []", strconv.Quote(tmp+".ok")))
			return fmt.Sprintf("(.v %s)", strconv.Quote(tmp)), tyInt
		}
		if fid, isId := x.Fun.(*ast.Ident); isId && fid.Name == "memHash" && len(x.Args) == 1 {
			// runtime.memhash, seeded per process: known only to return some uint64 (an oracle: the next of `memHash.answers`)
			if t.lazy > 0 {
				gsDie(e, "call under the right operand of && or ||")
			}
			if _, aty := t.expr(x.Args[0], tyBytes); aty != tyBytes {
				gsDie(e, "memHash operand")
			}
			t.ntemp++
			tmp := fmt.Sprintf("#c%d", t.ntemp)
			// (the answers travel with the receiver: a callee's frame holds only its receiver's fields and its parameters)
			if t.recv == "" || structKinds[t.kinds[t.recv]].ftypes["memHash.answers"] != tyU64s {
				gsDie(e, "memHash outside a method of Serializer")
			}
			t.pre = append(t.pre, fmt.Sprintf(".oracle %s %s", strconv.Quote(tmp), strconv.Quote(t.recv+".memHash")))
			return fmt.Sprintf("(.v %s)", strconv.Quote(tmp)), tyU64
		}
		if fid, isId := x.Fun.(*ast.Ident); isId && t.locals[fid.Name] == tyUnk {
			isFn := false
			for _, f := range goSrcFuncs {
				if f == fid.Name {
					isFn = true
				}
			}
			if isFn {
				if recv, callee, ptrs, args, rtys, ok := t.methodCall(x); ok && len(rtys) == 1 {
					if t.lazy > 0 {
						gsDie(e, "call under the right operand of && or ||")
					}
					t.ntemp++
					tmp := fmt.Sprintf("#c%d", t.ntemp)
					t.pre = append(t.pre, fmt.Sprintf(".callAssign [%s] %s %s %s [%s]", strconv.Quote(tmp), strconv.Quote(recv), strconv.Quote(callee), leanStrList(ptrs), strings.Join(args, ", ")))
					return fmt.Sprintf("(.v %s)", strconv.Quote(tmp)), rtys[0]
				}
			}
		}
		if _, isSel := x.Fun.(*ast.SelectorExpr); isSel {
			if pk, ok := x.Fun.(*ast.SelectorExpr).X.(*ast.Ident); !ok || (pk.Name != "errors" && pk.Name != "fmt" && pk.Name != "math" && pk.Name != "binary" && pk.Name != "strconv" && pk.Name != "bytes") {
				if recv, callee, ptrs, args, rtys, ok := t.methodCall(x); ok && len(rtys) == 1 {
					if t.lazy > 0 {
						gsDie(e, "call under the right operand of && or ||")
					}
					t.ntemp++
					tmp := fmt.Sprintf("#c%d", t.ntemp)
					t.pre = append(t.pre, fmt.Sprintf(".callAssign [%s] %s %s %s [%s]", strconv.Quote(tmp), strconv.Quote(recv), strconv.Quote(callee), leanStrList(ptrs), strings.Join(args, ", ")))
					return fmt.Sprintf("(.v %s)", strconv.Quote(tmp)), rtys[0]
				}
			}
		}
		if sel, ok := x.Fun.(*ast.SelectorExpr); ok {
			if pk, ok := sel.X.(*ast.Ident); ok && ((pk.Name == "errors" && sel.Sel.Name == "New") || (pk.Name == "fmt" && sel.Sel.Name == "Errorf")) {
				return "(.bool true /- " + strings.ReplaceAll(src(e), "-/", "- /") + " -/)", tyErr
			}
		}
		gsDie(e, "call")
	case *ast.UnaryExpr:
		if x.Op == token.NOT {
			a, ty := t.expr(x.X, tyBool)
			if ty != tyBool {
				gsDie(e, "! operand")
			}
			return fmt.Sprintf("(.not %s)", a), tyBool
		}
		if x.Op == token.SUB {
			if lit, ok := x.X.(*ast.BasicLit); ok && lit.Kind == token.INT {
				return t.untyped(e, "-"+lit.Value, want)
			}
		}
		gsDie(e, "unary operator")
	case *ast.BinaryExpr:
		return t.binary(x, want)
	}
	gsDie(e, "expression")
	return "", tyUnk
}

// exprBytes translates e when it is a byte-string valued variable or `string(<such a variable>)`
func (t *gsTr) exprBytes(e ast.Expr) (string, gty) {
	if c, ok := e.(*ast.CallExpr); ok && len(c.Args) == 1 {
		if id, ok := c.Fun.(*ast.Ident); ok && id.Name == "string" {
			return t.exprBytes(c.Args[0])
		}
	}
	return t.exprMaybe(e)
}

// constFold evaluates a constant expression built from literals, package constants, constants of the function and
// conversions of such to an integer type; ok=false when e is not of that form. ty is tyUntyped or the converted type.
func (t *gsTr) constFold(e ast.Expr) (*big.Int, gty, bool) {
	switch x := e.(type) {
	case *ast.ParenExpr:
		return t.constFold(x.X)
	case *ast.BasicLit:
		if x.Kind == token.INT {
			v, ok := new(big.Int).SetString(x.Value, 0)
			return v, tyUntyped, ok
		}
		if x.Kind == token.CHAR {
			r, err := strconv.Unquote(x.Value)
			if err == nil && len([]rune(r)) == 1 {
				return big.NewInt(int64([]rune(r)[0])), tyUntyped, true
			}
		}
	case *ast.Ident:
		if _, isLocal := t.locals[x.Name]; isLocal {
			return nil, tyUnk, false
		}
		if c, ok := t.lconst[x.Name]; ok {
			v, ok := new(big.Int).SetString(c.val, 10)
			return v, c.ty, ok
		}
		if _, ok := t.p.cexprs[x.Name]; ok {
			ty := t.constType(x.Name)
			if ty == tyUnk {
				ty = tyUntyped
			}
			return t.p.constVal(x.Name), ty, true
		}
	case *ast.UnaryExpr:
		if x.Op == token.SUB {
			if v, ty, ok := t.constFold(x.X); ok {
				return new(big.Int).Neg(v), ty, true
			}
		}
	case *ast.CallExpr:
		if id, ok := x.Fun.(*ast.Ident); ok && len(x.Args) == 1 {
			if ty := tyOfTypeExpr(id); ty == tyInt || ty == tyU64 || ty == tyU8 || ty == tyU32 {
				if v, _, ok := t.constFold(x.Args[0]); ok {
					return v, ty, true
				}
			}
		}
	case *ast.BinaryExpr:
		a, at, ok1 := t.constFold(x.X)
		b, bt, ok2 := t.constFold(x.Y)
		if !ok1 || !ok2 {
			return nil, tyUnk, false
		}
		ty := at
		if ty == tyUntyped {
			ty = bt
		}
		if x.Op == token.SHL || x.Op == token.SHR {
			ty = at
		}
		r := new(big.Int)
		switch x.Op {
		case token.ADD:
			r.Add(a, b)
		case token.SUB:
			r.Sub(a, b)
		case token.MUL:
			r.Mul(a, b)
		case token.SHL:
			r.Lsh(a, uint(b.Int64()))
		case token.SHR:
			r.Rsh(a, uint(b.Int64()))
		case token.AND:
			r.And(a, b)
		case token.OR:
			r.Or(a, b)
		default:
			return nil, tyUnk, false
		}
		return r, ty, true
	}
	return nil, tyUnk, false
}

// exprTry translates a plain variable and reports its type; anything else reports tyUnk without aborting
func (t *gsTr) exprTry(e ast.Expr) (string, gty) {
	if id, ok := e.(*ast.Ident); ok {
		if ty, ok := t.locals[id.Name]; ok {
			return fmt.Sprintf("(.v %s)", strconv.Quote(id.Name)), ty
		}
	}
	return "", tyUnk
}

// constInt: the value of an untyped integer constant expression
func (t *gsTr) constInt(e ast.Expr) string {
	switch x := e.(type) {
	case *ast.ParenExpr:
		return t.constInt(x.X)
	case *ast.BasicLit:
		v, ok := new(big.Int).SetString(x.Value, 0)
		if !ok {
			gsDie(e, "literal")
		}
		return v.String()
	case *ast.UnaryExpr:
		if x.Op == token.SUB {
			return "-" + t.constInt(x.X)
		}
	case *ast.SelectorExpr:
		if pk, ok := x.X.(*ast.Ident); ok && pk.Name == "math" {
			if v, ok := mathConsts[x.Sel.Name]; ok {
				return v
			}
		}
	case *ast.Ident:
		if _, ok := t.p.cexprs[x.Name]; ok {
			return t.p.constVal(x.Name).String()
		}
	}
	gsDie(e, "constant")
	return ""
}

// exprMaybe translates e if it is a byte-slice valued variable or global; otherwise reports tyUnk without aborting
func (t *gsTr) exprMaybe(e ast.Expr) (string, gty) {
	switch x := e.(type) {
	case *ast.Ident:
		if t.locals[x.Name] == tyBytes {
			return fmt.Sprintf("(.v %s)", strconv.Quote(x.Name)), tyBytes
		}
	case *ast.SelectorExpr:
		if g, ok := t.global(e); ok {
			return fmt.Sprintf("(.v %s)", strconv.Quote(g)), tyBytes
		}
		if ty, ok := t.frees[nows(src(e))]; ok && ty == tyBytes {
			return fmt.Sprintf("(.v %s)", strconv.Quote(nows(src(e)))), tyBytes
		}
		if id, ok := x.X.(*ast.Ident); ok && t.kinds[id.Name] != "" {
			if structKinds[t.kinds[id.Name]].ftypes[x.Sel.Name] == tyBytes {
				return fmt.Sprintf("(.v %s)", strconv.Quote(id.Name+"."+x.Sel.Name)), tyBytes
			}
		}
	}
	return "", tyUnk
}

// takePre returns (and clears) the statements hoisted while translating an expression, as a prefix for the statement
func (t *gsTr) takePre(ind string) string {
	if len(t.pre) == 0 {
		return ""
	}
	p := strings.Join(t.pre, ",\n"+ind) + ",\n" + ind
	t.pre = nil
	return p
}

func tyName(t gty) string {
	switch t {
	case tyInt:
		return ".int"
	case tyU64:
		return ".u64"
	case tyU8:
		return ".u8"
	case tyBool:
		return ".bool"
	}
	return "?"
}

func (t *gsTr) untyped(e ast.Expr, v string, want gty) (string, gty) {
	switch want {
	case tyInt:
		return fmt.Sprintf("(.int %s)", leanInt(v)), tyInt
	case tyU64:
		if strings.HasPrefix(v, "-") {
			gsDie(e, "negative constant in uint64 context")
		}
		return fmt.Sprintf("(.u64 %s)", v), tyU64
	case tyU8:
		return fmt.Sprintf("(.u8 %s)", v), tyU8
	case tyU32:
		return fmt.Sprintf("(.u64 %s)", v), tyU32
	case tyF64:
		if v == "0" {
			return "(.u64 0 /- 0.0 -/)", tyF64
		}
		gsDie(e, "non-zero constant in float64 context")
	}
	gsDie(e, "untyped constant without a typed context")
	return "", tyUnk
}

func isUntypedConst(t *gsTr, e ast.Expr) bool {
	switch x := e.(type) {
	case *ast.SelectorExpr:
		if pk, ok := x.X.(*ast.Ident); ok && pk.Name == "math" {
			_, ok := mathConsts[x.Sel.Name]
			return ok
		}
	case *ast.ParenExpr:
		return isUntypedConst(t, x.X)
	case *ast.BasicLit:
		return true
	case *ast.UnaryExpr:
		return x.Op == token.SUB && isUntypedConst(t, x.X)
	case *ast.Ident:
		if _, isLocal := t.locals[x.Name]; isLocal {
			return false
		}
		if c, ok := t.lconst[x.Name]; ok {
			return c.ty == tyUntyped
		}
		if _, ok := t.p.cexprs[x.Name]; ok {
			return t.constType(x.Name) == tyUntyped
		}
	}
	return false
}

var binNames = map[token.Token]string{
	token.ADD: ".add", token.SUB: ".sub", token.AND: ".and", token.OR: ".or", token.SHR: ".shr", token.SHL: ".shl", token.XOR: ".xor",
	token.QUO: ".div", token.MUL: ".mul", token.EQL: ".eq", token.NEQ: ".ne", token.LSS: ".lt", token.LEQ: ".le", token.GTR: ".gt", token.GEQ: ".ge",
}

func (t *gsTr) binary(x *ast.BinaryExpr, want gty) (string, gty) {
	switch x.Op {
	case token.LAND, token.LOR:
		a, at := t.expr(x.X, tyBool)
		t.lazy++
		b, bt := t.expr(x.Y, tyBool)
		t.lazy--
		if at != tyBool || bt != tyBool {
			gsDie(x, "logical operand")
		}
		if x.Op == token.LAND {
			return fmt.Sprintf("(.land %s %s)", a, b), tyBool
		}
		return fmt.Sprintf("(.lor %s %s)", a, b), tyBool
	case token.SHR, token.SHL:
		a, at := t.expr(x.X, want)
		b, bt := t.expr(x.Y, tyInt)
		if at == tyU8 && x.Op == token.SHR && bt == tyInt {
			return fmt.Sprintf("(.bin .shr %s %s)", a, b), tyU8
		}
		if at != tyU64 || bt != tyInt {
			gsDie(x, "shift operands")
		}
		return fmt.Sprintf("(.bin %s %s %s)", binNames[x.Op], a, b), tyU64
	}
	name, ok := binNames[x.Op]
	if !ok {
		gsDie(x, "binary operator")
	}
	isCmp := x.Op == token.EQL || x.Op == token.NEQ || x.Op == token.LSS || x.Op == token.LEQ || x.Op == token.GTR || x.Op == token.GEQ
	// pointer comparison of two iterator pointers: a named boolean input of the function
	if isCmp {
		if a, ok := x.X.(*ast.Ident); ok && t.iters[a.Name] {
			if b, ok := x.Y.(*ast.Ident); ok && b.Name == a.Name && (x.Op == token.EQL || x.Op == token.NEQ) {
				return fmt.Sprintf("(.bool %v /- %s -/)", x.Op == token.EQL, nows(src(x))), tyBool // one object under two names
			}
			if b, ok := x.Y.(*ast.Ident); ok && t.iters[b.Name] && (x.Op == token.EQL || x.Op == token.NEQ) {
				t.aliasParams[a.Name+x.Op.String()+b.Name] = true
				return fmt.Sprintf("(.v %s)", strconv.Quote(a.Name+x.Op.String()+b.Name)), tyBool
			}
		}
	}
	if isCmp && (x.Op == token.EQL || x.Op == token.NEQ) {
		if id, ok := x.X.(*ast.Ident); ok && id.Name == t.recv && t.recv != "" {
			if n, ok := x.Y.(*ast.Ident); ok && n.Name == "nil" {
				return fmt.Sprintf("(.bool %v /- %s: a receiver that is being executed on is not nil -/)", x.Op == token.NEQ, nows(src(x))), tyBool
			}
		}
		if id, ok := x.X.(*ast.Ident); ok && t.locals[id.Name] == tyIMap && t.mapParam[id.Name] {
			if n, ok := x.Y.(*ast.Ident); ok && n.Name == "nil" {
				// whether the caller passed a nil map: a named boolean input of the function (`dst = make(…)` clears it)
				t.aliasParams[id.Name+"==nil"] = true
				v := fmt.Sprintf("(.v %s)", strconv.Quote(id.Name+"==nil"))
				if x.Op == token.NEQ {
					v = "(.not " + v + ")"
				}
				return v, tyBool
			}
		}
		if id, ok := x.X.(*ast.Ident); ok && t.kinds[id.Name] != "" && id.Name != t.recv && !t.readonly[id.Name] {
			if n, ok := x.Y.(*ast.Ident); ok && n.Name == "nil" {
				// whether the caller passed nil: a named boolean input of the function (`dst = &Element{}` clears it)
				t.aliasParams[id.Name+"==nil"] = true
				v := fmt.Sprintf("(.v %s)", strconv.Quote(id.Name+"==nil"))
				if x.Op == token.NEQ {
					v = "(.not " + v + ")"
				}
				return v, tyBool
			}
		}
	}
	if isCmp {
		if id, ok := x.X.(*ast.Ident); ok && t.locals[id.Name] == tyFunc {
			if n, ok := x.Y.(*ast.Ident); ok && n.Name == "nil" && (x.Op == token.EQL || x.Op == token.NEQ) {
				v := fmt.Sprintf("(.v %s)", strconv.Quote(id.Name+"==nil"))
				if x.Op == token.NEQ {
					v = "(.not " + v + ")"
				}
				return v, tyBool
			}
		}
		if x.Op == token.EQL || x.Op == token.NEQ {
			if a, at := t.exprBytes(x.X); at == tyBytes {
				if b, bt := t.exprBytes(x.Y); bt == tyBytes {
					r := fmt.Sprintf("(.eqB %s %s)", a, b)
					if x.Op == token.NEQ {
						r = "(.not " + r + ")"
					}
					return r, tyBool
				}
			}
		}
	}
	if isCmp {
		// a float64 variable against a float literal: the literal is converted to float64 exactly as the compiler does
		if lit, ok := x.Y.(*ast.BasicLit); ok && (lit.Kind == token.FLOAT || lit.Kind == token.INT) {
			if a, at := t.exprTry(x.X); at == tyF64 && (lit.Kind == token.FLOAT || x.Op == token.EQL || x.Op == token.NEQ || x.Op == token.LEQ) {
				f, err := strconv.ParseFloat(lit.Value, 64)
				if err != nil {
					gsDie(x, "float literal")
				}
				return fmt.Sprintf("(.fcmpF %s %s %d /- %s -/)", name, a, math.Float64bits(f), lit.Value), tyBool
			}
		}
	}
	if isCmp && isUntypedConst(t, x.Y) && !isUntypedConst(t, x.X) {
		if a, at := t.exprTry(x.X); at == tyF64 {
			k := t.constInt(x.Y)
			return fmt.Sprintf("(.fcmpK %s %s %s)", name, a, leanInt(k)), tyBool
		}
	}
	var a, b string
	var at, bt gty
	opWant := want
	if isCmp {
		opWant = tyUnk
	}
	switch {
	case isUntypedConst(t, x.X) && !isUntypedConst(t, x.Y):
		b, bt = t.expr(x.Y, opWant)
		a, at = t.expr(x.X, bt)
	case isUntypedConst(t, x.X) && isUntypedConst(t, x.Y):
		a, at = t.expr(x.X, opWant)
		b, bt = t.expr(x.Y, opWant)
	default:
		a, at = t.expr(x.X, opWant)
		b, bt = t.expr(x.Y, at)
	}
	if at != bt {
		gsDie(x, "operand types differ (%d, %d)", at, bt)
	}
	if isCmp {
		if at == tyErr {
			// err != nil / err == nil
			return fmt.Sprintf("(.bin %s %s %s)", name, a, b), tyBool
		}
		return fmt.Sprintf("(.bin %s %s %s)", name, a, b), tyBool
	}
	if at == tyU8 && (x.Op == token.AND || x.Op == token.OR) {
		return fmt.Sprintf("(.bin %s %s %s)", name, a, b), at // bit flags in a byte
	}
	if at != tyInt && at != tyU64 {
		gsDie(x, "arithmetic operand type")
	}
	return fmt.Sprintf("(.bin %s %s %s)", name, a, b), at
}

func funcResultTypes(fd *ast.FuncDecl) []gty {
	var rtys []gty
	if fd.Type.Results != nil {
		for _, f := range fd.Type.Results.List {
			n := len(f.Names)
			if n == 0 {
				n = 1
			}
			for k := 0; k < n; k++ {
				rtys = append(rtys, tyOfTypeExpr(f.Type))
			}
		}
	}
	return rtys
}

// methodCall recognises `x.M(args)` and `x.tape.M(args)` where M is a translated method.
func (t *gsTr) methodCall(call *ast.CallExpr) (recv, callee string, ptrs, args []string, rtys []gty, ok bool) {
	if id, isId := call.Fun.(*ast.Ident); isId {
		// a translated plain function
		known := false
		for _, f := range goSrcFuncs {
			if f == id.Name {
				known = true
			}
		}
		if !known || t.locals[id.Name] != tyUnk {
			return
		}
		return t.callArgs(call, "", id.Name)
	}
	sel, isSel := call.Fun.(*ast.SelectorExpr)
	if !isSel {
		return
	}
	switch x := sel.X.(type) {
	case *ast.Ident:
		name := x.Name
		if a, ok := t.ptrAlias[name]; ok {
			name = a // nil or the address of that struct variable; a call through nil is outside the subset's guarantees
		}
		k := t.kinds[name]
		if k == "" {
			return
		}
		recv, callee = name, k+"."+sel.Sel.Name
	case *ast.SelectorExpr:
		id, isId := x.X.(*ast.Ident)
		if isId && x.Sel.Name == "Iter" && t.kinds[id.Name] == "Element" {
			// e.Iter.M(…) for an Element e: the struct variable `e.Iter`
			recv, callee = id.Name+".Iter", "Iter."+sel.Sel.Name
			return t.callArgs(call, recv, callee)
		}
		if !isId || x.Sel.Name != "tape" || t.kinds[id.Name] == "" || t.kinds[id.Name] == "ParsedJson" {
			return
		}
		recv, callee = id.Name, "ParsedJson."+sel.Sel.Name
	default:
		return
	}
	return t.callArgs(call, recv, callee)
}

func (t *gsTr) callArgs(call *ast.CallExpr, recv, callee string) (string, string, []string, []string, []gty, bool) {
	var ptrs, args []string
	known := false
	for _, f := range goSrcFuncs {
		if f == callee {
			known = true
		}
	}
	cfd, have := t.p.funcs[callee]
	if !known || !have {
		gsDie(call, "callee %s is not translated", callee)
	}
	if recv != "" && cfd.Recv != nil {
		// a pointer argument that IS the receiver: the specialised variant (see selfVariant)
		rty := nows(src(cfd.Recv.List[0].Type))
		var rest []ast.Expr
		aliasedArg := false
		ai := 0
		for _, f := range cfd.Type.Params.List {
			for range f.Names {
				if ai < len(call.Args) {
					a := call.Args[ai]
					if u, isAddr := a.(*ast.UnaryExpr); isAddr && u.Op == token.AND {
						a = u.X
					}
					if id, isId := a.(*ast.Ident); isId && id.Name == recv && nows(src(f.Type)) == rty {
						aliasedArg = true
					} else {
						rest = append(rest, call.Args[ai])
					}
				}
				ai++
			}
		}
		if aliasedArg {
			vfd, has := t.p.funcs[callee+"#self"]
			if !has {
				gsDie(call, "pointer argument aliases the receiver and %s#self is not translated", callee)
			}
			cp := *call
			cp.Args = rest
			call, callee, cfd = &cp, callee+"#self", vfd
		}
	}
	k := 0
	t.ptrNil = nil
	for _, f := range cfd.Type.Params.List {
		for range f.Names {
			if k >= len(call.Args) {
				gsDie(call, "call arity")
			}
			a := call.Args[k]
			k++
			if kind, isVal := valKind(f.Type); isVal {
				id, isId := a.(*ast.Ident)
				if !isId || t.kinds[id.Name] != kind {
					gsDie(a, "struct argument must be a %s variable", kind)
				}
				ptrs = append(ptrs, id.Name)
				t.ptrNil = append(t.ptrNil, "(.bool false)")
				continue
			}
			if kind, isPtr := ptrKind(f.Type); isPtr {
				if u, isAddr := a.(*ast.UnaryExpr); isAddr && u.Op == token.AND {
					a = u.X // &x: the struct variable x itself
				}
				if sx, isSel := a.(*ast.SelectorExpr); isSel && kind == "Iter" && sx.Sel.Name == "Iter" {
					// &e.Iter for an Element e: the struct variable `e.Iter`
					if eid, ok := sx.X.(*ast.Ident); ok && t.kinds[eid.Name] == "Element" {
						ptrs = append(ptrs, eid.Name+".Iter")
						t.ptrNil = append(t.ptrNil, "(.bool false)")
						continue
					}
				}
				if nid, isNil := a.(*ast.Ident); isNil && nid.Name == "nil" && t.locals["nil"] == tyUnk && (kind == "Object" || kind == "Array") && t.nilTarget != "" {
					// a nil destination: the callee allocates (`dst = &Object{}`); here the fresh struct is a variable of the
					// caller, zeroed before the call and named after the variable that receives the pointer
					n := t.nilTarget + "#new"
					t.kinds[n] = kind
					t.pre = append(t.pre, fmt.Sprintf(".assign %s (.int 0)", strconv.Quote(n+".off")), fmt.Sprintf(".assign %s (.int 0)", strconv.Quote(n+".lim")))
					ptrs = append(ptrs, n)
					t.ptrNil = append(t.ptrNil, "(.bool true)")
					continue
				}
				id, isId := a.(*ast.Ident)
				if !isId || t.kinds[id.Name] != kind {
					gsDie(a, "pointer argument must be a %s variable", kind)
				}
				ptrs = append(ptrs, id.Name)
				if _, isAddr := call.Args[k-1].(*ast.UnaryExpr); !isAddr && t.ptrParam[id.Name] {
					// the caller's own pointer parameter, handed on: nil iff it was
					t.ptrNil = append(t.ptrNil, "@"+id.Name)
				} else {
					t.ptrNil = append(t.ptrNil, "(.bool false)")
				}
				continue
			}
			pty := tyOfTypeExpr(f.Type)
			e, ty := t.expr(a, pty)
			if ty != pty {
				gsDie(a, "argument type")
			}
			args = append(args, e)
		}
	}
	if k != len(call.Args) {
		gsDie(call, "call arity")
	}
	// hidden parameters: the callee compares its receiver with a pointer parameter
	for _, hp := range goSrcAliasParams[callee] {
		if pn := strings.TrimSuffix(hp, "==nil"); pn != hp {
			// whether the pointer argument bound to <param> is nil
			pi, val := 0, ""
			ai := 0
			for _, f := range cfd.Type.Params.List {
				for _, nm := range f.Names {
					if nm.Name == pn && tyOfTypeExpr(f.Type) == tyIMap && ai < len(call.Args) {
						// a map argument: nil iff it is written `nil` (any other map expression is outside the subset)
						if id, isId := call.Args[ai].(*ast.Ident); isId && id.Name == "nil" {
							val = "(.bool true) /- " + hp + " -/"
						} else {
							gsDie(call, "map argument must be nil")
						}
					}
					ai++
				}
			}
			for _, f := range cfd.Type.Params.List {
				for _, nm := range f.Names {
					_, isPtr := ptrKind(f.Type)
					_, isVal := valKind(f.Type)
					if isPtr || isVal {
						if nm.Name == pn && pi < len(t.ptrNil) {
							val = t.ptrNil[pi]
							if own := strings.TrimPrefix(val, "@"); own != val {
								t.aliasParams[own+"==nil"] = true
								val = fmt.Sprintf("(.v %s)", strconv.Quote(own+"==nil"))
							}
							val += " /- " + hp + " -/"
						}
						pi++
					}
				}
			}
			if val == "" {
				gsDie(call, "hidden parameter %s", hp)
			}
			args = append(args, val)
			continue
		}
		// hp = "<recv><op><param>", e.g. "i!=dst": find the argument bound to <param>
		if cfd.Recv == nil {
			gsDie(call, "hidden parameter of a plain function")
		}
		cr := cfd.Recv.List[0].Names[0].Name
		op := "!="
		if strings.Contains(hp, "==") {
			op = "=="
		}
		pn := strings.TrimPrefix(hp, cr+op)
		pi := 0
		val := ""
		for _, f := range cfd.Type.Params.List {
			for _, nm := range f.Names {
				if _, isPtr := ptrKind(f.Type); isPtr {
					if nm.Name == pn && pi < len(ptrs) {
						differ := ptrs[pi] != recv
						if op == "==" {
							differ = !differ
						}
						val = fmt.Sprintf("(.bool %v /- %s -/)", differ, hp)
					}
					pi++
				}
			}
		}
		if val == "" {
			gsDie(call, "hidden parameter %s", hp)
		}
		args = append(args, val)
	}
	return recv, callee, ptrs, args, funcResultTypes(cfd), true
}

// ptrResultParam: result k of fd is, at every return statement, `nil` or one and the same pointer parameter; the
// position of that parameter among the pointer/struct parameters, or -1
func ptrResultParam(fd *ast.FuncDecl, k int) int {
	if fd == nil {
		return -1
	}
	name := ""
	okAll := true
	ast.Inspect(fd.Body, func(n ast.Node) bool {
		if _, isLit := n.(*ast.FuncLit); isLit {
			return false
		}
		if r, ok := n.(*ast.ReturnStmt); ok {
			if k >= len(r.Results) {
				okAll = false
				return true
			}
			id, isId := r.Results[k].(*ast.Ident)
			if !isId {
				okAll = false
				return true
			}
			if id.Name == "nil" {
				return true
			}
			if name != "" && name != id.Name {
				okAll = false
			}
			name = id.Name
		}
		return true
	})
	if !okAll || name == "" {
		return -1
	}
	pos := 0
	for _, f := range fd.Type.Params.List {
		for _, nm := range f.Names {
			_, isPtr := ptrKind(f.Type)
			_, isVal := valKind(f.Type)
			if isPtr || isVal {
				if nm.Name == name {
					return pos
				}
				pos++
			}
		}
	}
	return -1
}

// goSrcAliasParams: per translated function, the pointer comparisons its body makes (filled while translating it;
// callees are translated before their callers: goSrcFuncs is in dependency order for these)
var goSrcAliasParams = map[string][]string{}

// callback recognises a call of a function-valued parameter; the values it is handed are logged field by field.
func (t *gsTr) callback(call *ast.CallExpr, target string) (string, bool) {
	id, ok := call.Fun.(*ast.Ident)
	if !ok || t.locals[id.Name] != tyFunc {
		return "", false
	}
	var logs []string
	for _, a := range call.Args {
		if aid, ok := a.(*ast.Ident); ok && t.kinds[aid.Name] != "" {
			for _, f := range append(append([]string{}, structKinds[t.kinds[aid.Name]].fields...), "lim") {
				logs = append(logs, fmt.Sprintf("(.v %s)", strconv.Quote(aid.Name+"."+f)))
			}
			continue
		}
		e, ty := t.expr(a, tyUnk)
		if ty != tyInt && ty != tyU64 && ty != tyU8 && ty != tyBool && ty != tyBytes {
			gsDie(a, "callback argument type")
		}
		logs = append(logs, e)
	}
	return fmt.Sprintf(".cb %s %s [%s]", strconv.Quote(target), strconv.Quote(id.Name), strings.Join(logs, ", ")), true
}

// newIter recognises `x := a.Iter()` (Array/Object receiver: the view and the offset) and `x := o.tape.Iter()`
// (ParsedJson.Iter: the view, offset 0); the other fields are zero.
func (t *gsTr) newIter(lhs *ast.Ident, rhs ast.Expr, ind string) (string, bool) {
	// i := Iter{tape: *pj}
	if cl, ok := rhs.(*ast.CompositeLit); ok && nows(src(cl.Type)) == "Iter" && len(cl.Elts) == 1 {
		if kv, ok := cl.Elts[0].(*ast.KeyValueExpr); ok && nows(src(kv.Key)) == "tape" {
			if st, ok := kv.Value.(*ast.StarExpr); ok {
				if id, ok := st.X.(*ast.Ident); ok && t.kinds[id.Name] == "ParsedJson" {
					n := lhs.Name
					t.kinds[n] = "Iter"
					t.iters[n] = true
					return strings.Join([]string{
						fmt.Sprintf(".assign %s (.int 0)", strconv.Quote(n+".off")),
						fmt.Sprintf(".assign %s (.int 0)", strconv.Quote(n+".addNext")),
						fmt.Sprintf(".assign %s (.u64 0)", strconv.Quote(n+".cur")),
						fmt.Sprintf(".assign %s (.u8 0)", strconv.Quote(n+".t")),
						fmt.Sprintf(".assign %s (.lenTape %s)", strconv.Quote(n+".lim"), strconv.Quote(id.Name))}, ",\n"+ind), true
				}
			}
		}
	}
	call, ok := rhs.(*ast.CallExpr)
	if !ok || len(call.Args) != 0 {
		return "", false
	}
	sel, ok := call.Fun.(*ast.SelectorExpr)
	if !ok || sel.Sel.Name != "Iter" {
		return "", false
	}
	src0, off := "", ""
	switch x := sel.X.(type) {
	case *ast.Ident:
		if k := t.kinds[x.Name]; k == "Array" {
			// func (a *Array) Iter() Iter { return Iter{tape: a.tape, off: a.off} }: pinned by the shape check below
			fd := t.p.funcs["Array.Iter"]
			if fd == nil || nows(src(fd.Body)) != "{i:=Iter{tape:a.tape,off:a.off,}returni}" {
				gsDie(rhs, "Array.Iter has an unexpected body")
			}
			src0, off = x.Name, fmt.Sprintf("(.v %s)", strconv.Quote(x.Name+".off"))
		}
	case *ast.SelectorExpr:
		if id, ok := x.X.(*ast.Ident); ok && x.Sel.Name == "tape" && t.kinds[id.Name] != "" {
			fd := t.p.funcs["ParsedJson.Iter"]
			if fd == nil || nows(src(fd.Body)) != "{returnIter{tape:*pj}}" {
				gsDie(rhs, "ParsedJson.Iter has an unexpected body")
			}
			src0, off = id.Name, "(.int 0)"
		}
	}
	if src0 == "" {
		return "", false
	}
	n := lhs.Name
	t.kinds[n] = "Iter"
	t.iters[n] = true
	parts := []string{
		fmt.Sprintf(".assign %s %s", strconv.Quote(n+".off"), off),
		fmt.Sprintf(".assign %s (.int 0)", strconv.Quote(n+".addNext")),
		fmt.Sprintf(".assign %s (.u64 0)", strconv.Quote(n+".cur")),
		fmt.Sprintf(".assign %s (.u8 0)", strconv.Quote(n+".t")),
		fmt.Sprintf(".assign %s (.lenTape %s)", strconv.Quote(n+".lim"), strconv.Quote(src0)),
	}
	return strings.Join(parts, ",\n"+ind), true
}

// lvalue2 is lvalue for plain identifiers, without aborting
func (t *gsTr) lvalue2(e ast.Expr) (string, gty) {
	if id, ok := e.(*ast.Ident); ok {
		if ty, ok := t.locals[id.Name]; ok {
			return id.Name, ty
		}
	}
	return "", tyUnk
}

// lvalue name of an assignable expression (local or iterator field)
func (t *gsTr) lvalue(e ast.Expr) (string, gty) {
	switch x := e.(type) {
	case *ast.Ident:
		if ty, ok := t.locals[x.Name]; ok {
			return x.Name, ty
		}
	case *ast.SelectorExpr:
		if ty, ok := t.frees[nows(src(e))]; ok {
			return nows(src(e)), ty
		}
		if g, ok := t.global(e); ok {
			return g, tyBytes
		}
		if id, ok := x.X.(*ast.Ident); ok && t.kinds[id.Name] != "" && !t.iters[id.Name] {
			if t.readonly[id.Name] {
				gsDie(e, "assignment to a field of a struct passed by value")
			}
			if ty, ok := structKinds[t.kinds[id.Name]].ftypes[x.Sel.Name]; ok {
				return id.Name + "." + x.Sel.Name, ty
			}
		}
		if id, ok := x.X.(*ast.Ident); ok && t.iters[id.Name] {
			if ty, ok := t.fields[x.Sel.Name]; ok && ty != tyUnk {
				return id.Name + "." + x.Sel.Name, ty
			}
		}
	}
	gsDie(e, "assignment target")
	return "", tyUnk
}

func (t *gsTr) block(list []ast.Stmt, ind string) string {
	// lexical scoping: what a block defines with := is gone at its end (sibling blocks may reuse a name with another
	// type); shadowing a variable of an enclosing scope is outside the subset (the store has one slot per name)
	saved := map[string]gty{}
	for k, v := range t.locals {
		saved[k] = v
	}
	prevOuter := t.outer
	prevShadowed := t.shadowed
	prevPre := t.pre // hoisted statements of the enclosing statement's own expressions stay with it
	t.pre = nil
	t.outer = saved
	t.shadowed = nil
	defer func() {
		t.pre = prevPre
		t.locals = map[string]gty{}
		for k, v := range saved {
			t.locals[k] = v
		}
		for _, n := range t.shadowed {
			t.poison[n] = true // the outer variable's slot was overwritten: reading it again would be wrong
		}
		t.outer = prevOuter
		t.shadowed = prevShadowed
	}()
	var parts []string
	for _, s := range list {
		parts = append(parts, t.stmt(s, ind+"  "))
	}
	if len(parts) == 0 {
		return "[]"
	}
	return "[\n" + ind + "  " + strings.Join(parts, ",\n"+ind+"  ") + "]"
}

func (t *gsTr) stmt(s ast.Stmt, ind string) string {
	out := t.stmt0(s, ind)
	return t.takePre(ind) + out
}

func (t *gsTr) stmt0(s ast.Stmt, ind string) string {
	switch x := s.(type) {
	case *ast.LabeledStmt:
		switch in := x.Stmt.(type) {
		case *ast.ForStmt:
			t.loopLabels[x.Label.Name] = true
			return t.stmt0(in, ind)
		case *ast.SwitchStmt:
			t.swLabels[x.Label.Name] = true
			t.curSwLabel = x.Label.Name
			return t.stmt0(in, ind)
		}
		gsDie(s, "labelled statement")
	case *ast.AssignStmt:
		if x.Tok == token.DEFINE && len(x.Lhs) == 1 && len(x.Rhs) == 1 {
			if id, ok := x.Lhs[0].(*ast.Ident); ok {
				if out, ok := t.newIter(id, x.Rhs[0], ind); ok {
					return out
				}
			}
		}
		// _ = parseStringSimd(buf, &pj.Strings.B): the copying kernel by contract
		if x.Tok == token.ASSIGN && len(x.Lhs) == 1 && len(x.Rhs) == 1 {
			if call, ok := x.Rhs[0].(*ast.CallExpr); ok && nows(src(call.Fun)) == "parseStringSimd" && len(call.Args) == 2 {
				if bl, ok := x.Lhs[0].(*ast.Ident); ok && bl.Name == "_" {
					buf, bty := t.expr(call.Args[0], tyBytes)
					u, ok := call.Args[1].(*ast.UnaryExpr)
					if !ok || u.Op != token.AND || bty != tyBytes {
						gsDie(s, "kernel argument")
					}
					n, nty := t.lvalue(u.X)
					if nty != tyBytes {
						gsDie(s, "kernel argument")
					}
					return fmt.Sprintf(".extAssign [\"_\", %s] \"parseStringCopy\" [%s, (.v %s)]", strconv.Quote(n), buf, strconv.Quote(n))
				}
			}
		}
		// dst = escapeBytes(dst, sb) | strconv.AppendInt(dst, v, 10) | strconv.AppendUint(dst, v, 10); dst, err = appendFloat(dst, v)
		if x.Tok == token.ASSIGN && len(x.Rhs) == 1 {
			if call, ok := x.Rhs[0].(*ast.CallExpr); ok {
				f := nows(src(call.Fun))
				name := map[string]string{"escapeBytes": "escapeBytes", "strconv.AppendInt": "AppendInt", "strconv.AppendUint": "AppendUint", "appendFloat": "appendFloat"}[f]
				if f == "appendFloat" && t.fn == "appendFloat" {
					name = ""
				}
				if f == "strconv.AppendFloat" {
					if len(call.Args) != 5 || nows(src(call.Args[2])) != "'e'" || nows(src(call.Args[3])) != "-1" || nows(src(call.Args[4])) != "64" {
						gsDie(s, "strconv.AppendFloat format")
					}
					d, dty := t.expr(call.Args[0], tyBytes)
					v, vty := t.expr(call.Args[1], tyF64)
					tgt, _ := t.lvalue(x.Lhs[0])
					if dty != tyBytes || vty != tyF64 || len(x.Lhs) != 1 {
						gsDie(s, "strconv.AppendFloat operands")
					}
					return fmt.Sprintf(".extAssign [%s] \"AppendFloatE\" [%s, %s]", strconv.Quote(tgt), d, v)
				}
				nargs := 2
				if name == "AppendInt" || name == "AppendUint" {
					if len(call.Args) != 3 || nows(src(call.Args[2])) != "10" {
						gsDie(s, "base of the integer formatting")
					}
				} else if name != "" && len(call.Args) != 2 {
					gsDie(s, "library call arity")
				}
				if name != "" {
					var args []string
					for _, a := range call.Args[:nargs] {
						e, ty := t.expr(a, tyUnk)
						if ty != tyBytes && ty != tyInt && ty != tyU64 && ty != tyF64 {
							gsDie(a, "library call argument")
						}
						args = append(args, e)
					}
					var targets []string
					for _, l := range x.Lhs {
						n, _ := t.lvalue(l)
						targets = append(targets, n)
					}
					if name == "appendFloat" {
						if len(targets) != 2 {
							gsDie(s, "appendFloat results")
						}
						targets = append(targets, targets[1]+".range")
					} else if len(targets) != 1 {
						gsDie(s, "library call results")
					}
					return fmt.Sprintf(".extAssign %s %s [%s]", leanStrList(targets), strconv.Quote(name), strings.Join(args, ", "))
				}
			}
		}
		// v, err := strconv.ParseInt(s, 10, 64) | ParseUint(s, 10, 64) | ParseFloat(s, 64): modelled library functions
		if x.Tok == token.DEFINE && len(x.Lhs) == 2 && len(x.Rhs) == 1 {
			if call, ok := x.Rhs[0].(*ast.CallExpr); ok {
				f := nows(src(call.Fun))
				var rest string
				for k, a := range call.Args {
					if k > 0 {
						rest += nows(src(a)) + ","
					}
				}
				lib := map[string]struct {
					name string
					ty   gty
				}{"strconv.ParseInt|10,64,": {"ParseInt", tyInt}, "strconv.ParseUint|10,64,": {"ParseUint", tyU64}, "strconv.ParseFloat|64,": {"ParseFloat", tyF64}}
				if l, ok := lib[f+"|"+rest]; ok && len(call.Args) >= 1 {
					a, aty := t.expr(call.Args[0], tyBytes)
					v, ok1 := x.Lhs[0].(*ast.Ident)
					er, ok2 := x.Lhs[1].(*ast.Ident)
					if aty != tyBytes || !ok1 || !ok2 {
						gsDie(s, "library call shape")
					}
					for _, id := range []*ast.Ident{v, er} {
						if _, shadow := t.outer[id.Name]; shadow {
							t.shadowed = append(t.shadowed, id.Name)
						}
					}
					t.locals[v.Name] = l.ty
					t.locals[er.Name] = tyErr
					delete(t.poison, v.Name)
					delete(t.poison, er.Name)
					return fmt.Sprintf(".extAssign [%s, %s, %s] %s [%s]", strconv.Quote(v.Name), strconv.Quote(er.Name), strconv.Quote(er.Name+".range"), strconv.Quote(l.name), a)
				}
			}
		}
		// dst.Index[name] = len(dst.Elements)
		if x.Tok == token.ASSIGN && len(x.Lhs) == 1 && len(x.Rhs) == 1 {
			if ix, ok := x.Lhs[0].(*ast.IndexExpr); ok {
				if sx, ok := ix.X.(*ast.SelectorExpr); ok && sx.Sel.Name == "Index" {
					if id, ok := sx.X.(*ast.Ident); ok && t.kinds[id.Name] == "Elements" && !t.readonly[id.Name] {
						k, kty := t.expr(ix.Index, tyBytes)
						v, vty := t.expr(x.Rhs[0], tyInt)
						if kty != tyBytes || vty != tyInt {
							gsDie(s, "map store types")
						}
						return fmt.Sprintf(".mapSet %s %s %s", strconv.Quote(id.Name+".Index"), k, v)
					}
				}
			}
		}
		// dst.Elements = append(dst.Elements, Element{Name: n, Type: t, Iter: it})
		if x.Tok == token.ASSIGN && len(x.Lhs) == 1 && len(x.Rhs) == 1 {
			if sx, ok := x.Lhs[0].(*ast.SelectorExpr); ok && sx.Sel.Name == "Elements" {
				if id, ok := sx.X.(*ast.Ident); ok && t.kinds[id.Name] == "Elements" && !t.readonly[id.Name] {
					ap, ok := x.Rhs[0].(*ast.CallExpr)
					if !ok || nows(src(ap.Fun)) != "append" || len(ap.Args) != 2 || nows(src(ap.Args[0])) != nows(src(x.Lhs[0])) {
						gsDie(s, "assignment to the Elements slice")
					}
					cl, ok := ap.Args[1].(*ast.CompositeLit)
					if !ok || nows(src(cl.Type)) != "Element" || len(cl.Elts) != 3 {
						gsDie(s, "appended element")
					}
					parts := map[string]ast.Expr{}
					for _, el := range cl.Elts {
						kv, ok := el.(*ast.KeyValueExpr)
						if !ok {
							gsDie(s, "appended element")
						}
						parts[nows(src(kv.Key))] = kv.Value
					}
					nm, nty := t.expr(parts["Name"], tyBytes)
					ty, tty := t.expr(parts["Type"], tyU8)
					itid, ok := parts["Iter"].(*ast.Ident)
					if nty != tyBytes || tty != tyU8 || !ok || !t.iters[itid.Name] {
						gsDie(s, "appended element fields")
					}
					n := id.Name
					it := itid.Name
					iters := fmt.Sprintf("(.v %s)", strconv.Quote(n+".Elements.Iter"))
					for _, f := range []string{"off", "addNext", "cur", "t", "lim"} {
						e := fmt.Sprintf("(.v %s)", strconv.Quote(it+"."+f))
						if f == "cur" || f == "t" {
							e = "(.conv .int " + e + ")"
						}
						iters = fmt.Sprintf("(.pushI %s %s)", iters, e)
					}
					return strings.Join([]string{
						fmt.Sprintf(".assign %s (.pushK (.v %s) %s)", strconv.Quote(n+".Elements.Name"), strconv.Quote(n+".Elements.Name"), nm),
						fmt.Sprintf(".assign %s (.pushB (.v %s) %s)", strconv.Quote(n+".Elements.Type"), strconv.Quote(n+".Elements.Type"), ty),
						fmt.Sprintf(".assign %s %s", strconv.Quote(n+".Elements.Iter"), iters)}, ",\n"+ind)
				}
			}
		}
		// dst = &Object{} | &Array{}
		if x.Tok == token.ASSIGN && len(x.Lhs) == 1 && len(x.Rhs) == 1 && (nows(src(x.Rhs[0])) == "&Object{}" || nows(src(x.Rhs[0])) == "&Array{}") {
			if id, ok := x.Lhs[0].(*ast.Ident); ok && "&"+t.kinds[id.Name]+"{}" == nows(src(x.Rhs[0])) {
				n := id.Name
				t.aliasParams[n+"==nil"] = true
				return strings.Join([]string{
					fmt.Sprintf(".assign %s (.bool false)", strconv.Quote(n+"==nil")),
					fmt.Sprintf(".assign %s (.int 0)", strconv.Quote(n+".off")),
					fmt.Sprintf(".assign %s (.int 0)", strconv.Quote(n+".lim"))}, ",\n"+ind)
			}
		}
		// c := *i: a copy of the struct
		if x.Tok == token.DEFINE && len(x.Lhs) == 1 && len(x.Rhs) == 1 {
			if st, ok := x.Rhs[0].(*ast.StarExpr); ok {
				if sid, ok := st.X.(*ast.Ident); ok && t.kinds[sid.Name] == "Iter" {
					if c, ok := x.Lhs[0].(*ast.Ident); ok && t.kinds[c.Name] == "" && t.locals[c.Name] == tyUnk {
						t.kinds[c.Name] = "Iter"
						t.iters[c.Name] = true
						return fmt.Sprintf(".copyStruct %s %s", strconv.Quote(c.Name), strconv.Quote(sid.Name))
					}
				}
			}
		}
		// dst = &c for a local struct c that is not used again: dst's fields are c's from here on
		if x.Tok == token.ASSIGN && len(x.Lhs) == 1 && len(x.Rhs) == 1 {
			if u, ok := x.Rhs[0].(*ast.UnaryExpr); ok && u.Op == token.AND {
				if c, ok := u.X.(*ast.Ident); ok {
					if d, ok := x.Lhs[0].(*ast.Ident); ok && t.kinds[d.Name] != "" && t.kinds[d.Name] == t.kinds[c.Name] && d.Name != t.recv && c.Name != t.recv {
						t.aliasParams[d.Name+"==nil"] = true
						delete(t.kinds, c.Name)
						delete(t.iters, c.Name) // any later mention of c is refused
						return fmt.Sprintf(".copyStruct %s %s,\n%s.assign %s (.bool false)", strconv.Quote(d.Name), strconv.Quote(c.Name), ind, strconv.Quote(d.Name+"==nil"))
					}
				}
			}
		}
		// dst.tape.Strings = i.tape.Strings | dst.tape.Message = i.tape.Message: the buffers of one document are shared
		// variables here (`Strings.B`, `Message`); handing the reference on changes nothing
		if x.Tok == token.ASSIGN && len(x.Lhs) == 1 && len(x.Rhs) == 1 {
			l, r := nows(src(x.Lhs[0])), nows(src(x.Rhs[0]))
			for _, f := range []string{".tape.Strings", ".tape.Message"} {
				if strings.HasSuffix(l, f) && strings.HasSuffix(r, f) {
					ln, rn := strings.TrimSuffix(l, f), strings.TrimSuffix(r, f)
					if t.kinds[ln] != "" && t.kinds[rn] != "" {
						return ".ite (.bool true) [] [] /- " + stmtText(s) + " (shared buffers) -/"
					}
				}
			}
		}
		// dst.tape.Tape = i.tape.Tape[:e] for two different views
		if x.Tok == token.ASSIGN && len(x.Lhs) == 1 && len(x.Rhs) == 1 {
			if base, ok := t.isTape(x.Lhs[0]); ok {
				if sl, ok := x.Rhs[0].(*ast.SliceExpr); ok && sl.Low == nil && sl.High != nil && !sl.Slice3 {
					if b2, ok := t.isTape(sl.X); ok && b2 != base {
						e, ty := t.expr(sl.High, tyInt)
						if ty == tyU64 {
							e, ty = "(.conv .int "+e+")", tyInt
						}
						if ty != tyInt {
							gsDie(s, "slice bound type")
						}
						return fmt.Sprintf(".setLenFrom %s %s %s", strconv.Quote(base), strconv.Quote(b2), e)
					}
				}
			}
		}
		// dst = &Element{}
		if x.Tok == token.ASSIGN && len(x.Lhs) == 1 && len(x.Rhs) == 1 && nows(src(x.Rhs[0])) == "&Element{}" {
			if id, ok := x.Lhs[0].(*ast.Ident); ok && t.kinds[id.Name] == "Element" {
				n := id.Name
				t.aliasParams[n+"==nil"] = true
				return strings.Join([]string{
					fmt.Sprintf(".assign %s (.bool false)", strconv.Quote(n+"==nil")),
					fmt.Sprintf(".assign %s .nilB", strconv.Quote(n+".Name")),
					fmt.Sprintf(".assign %s (.u8 0)", strconv.Quote(n+".Type")),
					fmt.Sprintf(".assign %s (.int 0)", strconv.Quote(n+".Iter.off")),
					fmt.Sprintf(".assign %s (.int 0)", strconv.Quote(n+".Iter.addNext")),
					fmt.Sprintf(".assign %s (.u64 0)", strconv.Quote(n+".Iter.cur")),
					fmt.Sprintf(".assign %s (.u8 0)", strconv.Quote(n+".Iter.t")),
					fmt.Sprintf(".assign %s (.int 0)", strconv.Quote(n+".Iter.lim"))}, ",\n"+ind)
			}
		}
		// _, ok := m[string(k)]
		if x.Tok == token.DEFINE && len(x.Lhs) == 2 && len(x.Rhs) == 1 {
			if ix, ok := x.Rhs[0].(*ast.IndexExpr); ok {
				if m, ok := ix.X.(*ast.Ident); ok && t.locals[m.Name] == tyKeys {
					blank, ok1 := x.Lhs[0].(*ast.Ident)
					okv, ok2 := x.Lhs[1].(*ast.Ident)
					if !ok1 || !ok2 || blank.Name != "_" {
						gsDie(s, "map lookup shape")
					}
					k, kty := t.exprBytes(ix.Index)
					if kty != tyBytes {
						gsDie(s, "map key")
					}
					if _, shadow := t.outer[okv.Name]; shadow {
						t.shadowed = append(t.shadowed, okv.Name)
					}
					delete(t.poison, okv.Name)
					t.locals[okv.Name] = tyBool
					return fmt.Sprintf(".assign %s (.inK (.v %s) %s)", strconv.Quote(okv.Name), strconv.Quote(m.Name), k)
				}
			}
		}
		if len(x.Rhs) == 1 && len(x.Lhs) == 1 && x.Tok == token.ASSIGN {
			if call, isCall := x.Rhs[0].(*ast.CallExpr); isCall {
				if name, _ := t.lvalue2(x.Lhs[0]); name != "" {
					if cbs, ok := t.callback(call, name); ok {
						return cbs
					}
				}
			}
		}
		if len(x.Rhs) == 1 {
			if call, isCall := x.Rhs[0].(*ast.CallExpr); isCall && (x.Tok == token.ASSIGN || x.Tok == token.DEFINE) {
				// dst[name], err = tmp.Interface(): the operands of the index expression are evaluated first, then the call,
				// then the map entry and err are assigned (in that order, also when err != nil)
				if ix, isIx := x.Lhs[0].(*ast.IndexExpr); isIx && x.Tok == token.ASSIGN && len(x.Lhs) == 2 {
					if m, isId := ix.X.(*ast.Ident); isId && t.locals[m.Name] == tyIMap {
						recv, callee, ptrs, args, rtys, ok := t.methodCall(call)
						if !ok || len(rtys) != 2 || rtys[0] != tyIface {
							gsDie(s, "map element assignment from a call")
						}
						k, kty := t.exprBytes(ix.Index)
						if kty != tyBytes {
							gsDie(s, "map key")
						}
						ename, ety := t.lvalue(x.Lhs[1])
						if ety != rtys[1] {
							gsDie(s, "assignment types differ")
						}
						t.ntemp++
						tmp := fmt.Sprintf("#c%d", t.ntemp)
						return fmt.Sprintf(".callAssign [%s, %s] %s %s %s [%s],\n%s.mapSetV %s %s (.v %s)", strconv.Quote(tmp), strconv.Quote(ename), strconv.Quote(recv), strconv.Quote(callee), leanStrList(ptrs), strings.Join(args, ", "),
							ind, strconv.Quote(m.Name), k, strconv.Quote(tmp))
					}
				}
				t.nilTarget = ""
				if id, isId := x.Lhs[0].(*ast.Ident); isId && x.Tok == token.DEFINE && id.Name != "_" {
					t.nilTarget = id.Name
				}
				if recv, callee, ptrs, args, rtys, ok := t.methodCall(call); ok {
					t.nilTarget = ""
					if len(rtys) != len(x.Lhs) {
						gsDie(s, "result arity")
					}
					var targets []string
					for k, l := range x.Lhs {
						if id, isId := l.(*ast.Ident); isId && id.Name == "_" {
							targets = append(targets, "_")
							continue
						}
						if id, isId := l.(*ast.Ident); isId && x.Tok == token.DEFINE {
							if _, shadow := t.outer[id.Name]; shadow {
								t.shadowed = append(t.shadowed, id.Name)
							}
							delete(t.poison, id.Name)
							if old, had := t.locals[id.Name]; had && old != rtys[k] {
								gsDie(s, "variable redefined with another type")
							}
							if rtys[k] == tyPtr {
								// the callee returns nil or one of its pointer parameters (checked on its source): the new
								// name is nil or the address of the struct variable passed there; the variable holds "non-nil"
								pos := ptrResultParam(t.p.funcs[callee], k)
								if pos < 0 || pos >= len(ptrs) {
									gsDie(s, "pointer result of %s is not nil-or-a-parameter", callee)
								}
								if t.ptrAlias == nil {
									t.ptrAlias = map[string]string{}
								}
								t.ptrAlias[id.Name] = ptrs[pos]
							}
							t.locals[id.Name] = rtys[k]
							targets = append(targets, id.Name)
							continue
						}
						name, ty := t.lvalue(l)
						if ty != rtys[k] {
							gsDie(s, "assignment types differ")
						}
						targets = append(targets, name)
					}
					return fmt.Sprintf(".callAssign %s %s %s %s [%s]", leanStrList(targets), strconv.Quote(recv), strconv.Quote(callee), leanStrList(ptrs), strings.Join(args, ", "))
				}
			}
		}
		if len(x.Lhs) != 1 || len(x.Rhs) != 1 {
			gsDie(s, "multiple assignment")
		}
		// x.tape = y.tape : the header of the same document; only the visible length is per copy
		if x.Tok == token.ASSIGN {
			if ls, ok := x.Lhs[0].(*ast.SelectorExpr); ok && ls.Sel.Name == "tape" {
				if rs, ok := x.Rhs[0].(*ast.SelectorExpr); ok && rs.Sel.Name == "tape" {
					li, ok1 := ls.X.(*ast.Ident)
					ri, ok2 := rs.X.(*ast.Ident)
					if ok1 && ok2 && t.kinds[li.Name] != "" && t.kinds[ri.Name] != "" {
						return fmt.Sprintf(".assign %s (.lenTape %s)", strconv.Quote(li.Name+".lim"), strconv.Quote(ri.Name))
					}
				}
			}
		}
		switch x.Tok {
		case token.DEFINE:
			id, ok := x.Lhs[0].(*ast.Ident)
			if !ok {
				gsDie(s, "define target")
			}
			dw := tyUnk
			if isUntypedConst(t, x.Rhs[0]) {
				dw = tyInt // the default type of an untyped integer constant
			}
			r, ty := t.expr(x.Rhs[0], dw)
			if ty != tyInt && ty != tyU64 && ty != tyU8 && ty != tyBool && ty != tyBytes && ty != tyF64 && ty != tyU32 && ty != tyI64s && ty != tyU64s && ty != tyF64s && ty != tyStrs && ty != tyIface && ty != tyIfaces && ty != tyIMap {
				gsDie(s, "type of defined variable")
			}
			if _, shadow := t.outer[id.Name]; shadow {
				t.shadowed = append(t.shadowed, id.Name)
			}
			delete(t.poison, id.Name)
			if old, ok := t.locals[id.Name]; ok && old != ty {
				if _, shadow := t.outer[id.Name]; !shadow {
					gsDie(s, "variable redefined with another type")
				}
			}
			t.locals[id.Name] = ty
			return fmt.Sprintf(".assign %s %s", strconv.Quote(id.Name), r)
		case token.ASSIGN:
			// *dst = *i
			if l, ok := x.Lhs[0].(*ast.StarExpr); ok {
				if r, ok := x.Rhs[0].(*ast.StarExpr); ok {
					li, ok1 := l.X.(*ast.Ident)
					ri, ok2 := r.X.(*ast.Ident)
					if ok1 && ok2 && t.iters[li.Name] && t.iters[ri.Name] {
						return fmt.Sprintf(".copyStruct %s %s", strconv.Quote(li.Name), strconv.Quote(ri.Name))
					}
				}
				gsDie(s, "pointer assignment")
			}
			// x.Tape = append(x.Tape, e1, e2, …)
			if base, ok := t.isTape(x.Lhs[0]); ok {
				if ap, ok := x.Rhs[0].(*ast.CallExpr); ok && nows(src(ap.Fun)) == "append" && len(ap.Args) >= 2 && !ap.Ellipsis.IsValid() {
					if b2, ok := t.isTape(ap.Args[0]); ok && b2 == base {
						var es []string
						for _, a := range ap.Args[1:] {
							e, ty := t.expr(a, tyU64)
							if ty != tyU64 {
								gsDie(a, "tape word type")
							}
							es = append(es, e)
						}
						return fmt.Sprintf(".tapeAppend %s [%s]", strconv.Quote(base), strings.Join(es, ", "))
					}
				}
			}
			// x.tape.Tape = x.tape.Tape[:e]
			if base, ok := t.isTape(x.Lhs[0]); ok {
				sl, ok := x.Rhs[0].(*ast.SliceExpr)
				if !ok || sl.Low != nil || sl.High == nil || sl.Slice3 {
					gsDie(s, "tape re-slice shape")
				}
				if b2, ok := t.isTape(sl.X); !ok || b2 != base {
					gsDie(s, "tape re-slice of another tape")
				}
				e, ty := t.expr(sl.High, tyInt)
				if ty == tyU64 {
					e, ty = "(.conv .int "+e+")", tyInt
				}
				if ty != tyInt {
					gsDie(s, "slice bound type")
				}
				return fmt.Sprintf(".setLen %s %s", strconv.Quote(base), e)
			}
			// s.f[idx] = e for an array / byte slice field of a plain struct
			if ix, ok := x.Lhs[0].(*ast.IndexExpr); ok {
				if sx, ok := ix.X.(*ast.SelectorExpr); ok {
					if id, ok := sx.X.(*ast.Ident); ok && t.kinds[id.Name] != "" && structKinds[t.kinds[id.Name]].noTape && !t.readonly[id.Name] {
						fty := structKinds[t.kinds[id.Name]].ftypes[sx.Sel.Name]
						name := id.Name + "." + sx.Sel.Name
						if fty == tyU32s {
							idx, ity := t.expr(ix.Index, tyInt)
							e, ety := t.expr(x.Rhs[0], tyU32)
							if (ity != tyInt && ity != tyU64) || ety != tyU32 {
								gsDie(s, "array store types")
							}
							return fmt.Sprintf(".setU %s %s %s", strconv.Quote(name), idx, e)
						}
						if fty == tyBytes {
							idx, ity := t.expr(ix.Index, tyInt)
							e, ety := t.expr(x.Rhs[0], tyU8)
							if ity != tyInt || ety != tyU8 {
								gsDie(s, "byte store types")
							}
							return fmt.Sprintf(".setB %s %s %s", strconv.Quote(name), idx, e)
						}
					}
				}
			}
			// b[idx] = e for a byte slice variable
			if ix, ok := x.Lhs[0].(*ast.IndexExpr); ok {
				if bid, ok := ix.X.(*ast.Ident); ok && t.locals[bid.Name] == tyBytes {
					idx, ity := t.expr(ix.Index, tyInt)
					e, ety := t.expr(x.Rhs[0], tyU8)
					if ity != tyInt || ety != tyU8 {
						gsDie(s, "byte store types")
					}
					return fmt.Sprintf(".setB %s %s %s", strconv.Quote(bid.Name), idx, e)
				}
			}
			// x.tape.Tape[idx] = e
			if ix, ok := x.Lhs[0].(*ast.IndexExpr); ok {
				if base, ok := t.isTape(ix.X); ok {
					idx, ity := t.expr(ix.Index, tyInt)
					e, ety := t.expr(x.Rhs[0], tyU64)
					if (ity != tyInt && ity != tyU64) || ety != tyU64 {
						gsDie(s, "tape store types")
					}
					return fmt.Sprintf(".tapeSet %s %s %s", strconv.Quote(base), idx, e)
				}
				gsDie(s, "indexed store")
			}
			name, ty := t.lvalue(x.Lhs[0])
			r, rty := t.expr(x.Rhs[0], ty)
			if rty != ty {
				gsDie(s, "assignment types differ")
			}
			if ty == tyIMap && t.mapParam[name] && t.aliasParams[name+"==nil"] {
				return fmt.Sprintf(".assign %s (.bool false),\n%s.assign %s %s", strconv.Quote(name+"==nil"), ind, strconv.Quote(name), r)
			}
			return fmt.Sprintf(".assign %s %s", strconv.Quote(name), r)
		case token.ADD_ASSIGN, token.SUB_ASSIGN, token.OR_ASSIGN, token.AND_ASSIGN:
			if ix, ok := x.Lhs[0].(*ast.IndexExpr); ok && x.Tok == token.OR_ASSIGN {
				if base, ok := t.isTape(ix.X); ok {
					idx, ity := t.expr(ix.Index, tyInt)
					e, ety := t.expr(x.Rhs[0], tyU64)
					if (ity != tyInt && ity != tyU64) || ety != tyU64 {
						gsDie(s, "tape store types")
					}
					return fmt.Sprintf(".tapeSet %s %s (.bin .or (.tapeAt %s %s) %s)", strconv.Quote(base), idx, strconv.Quote(base), idx, e)
				}
			}
			name, ty := t.lvalue(x.Lhs[0])
			r, rty := t.expr(x.Rhs[0], ty)
			bitop := x.Tok == token.OR_ASSIGN || x.Tok == token.AND_ASSIGN
			if rty != ty || (ty != tyInt && ty != tyU64 && !(bitop && ty == tyU8)) || (bitop && ty == tyInt) {
				gsDie(s, "compound assignment types")
			}
			op := map[token.Token]string{token.ADD_ASSIGN: ".add", token.SUB_ASSIGN: ".sub", token.OR_ASSIGN: ".or", token.AND_ASSIGN: ".and"}[x.Tok]
			return fmt.Sprintf(".assign %s (.bin %s (.v %s) %s)", strconv.Quote(name), op, strconv.Quote(name), r)
		}
		gsDie(s, "assignment operator")
	case *ast.IncDecStmt:
		name, ty := t.lvalue(x.X)
		one, _ := t.untyped(x.X, "1", ty)
		op := ".add"
		if x.Tok == token.DEC {
			op = ".sub"
		}
		return fmt.Sprintf(".assign %s (.bin %s (.v %s) %s)", strconv.Quote(name), op, strconv.Quote(name), one)
	case *ast.IfStmt:
		pre := ""
		if x.Init != nil {
			// the init statement runs first; what it defines is scoped to the `if` (the enclosing block's scope ends it)
			pre = t.stmt(x.Init, ind) + ",\n" + ind
		}
		// if dst == nil { dst = &Elements{fresh} } else { empty dst.Elements; delete every key of dst.Index }: pinned by its text
		if be, ok := x.Cond.(*ast.BinaryExpr); ok && be.Op == token.EQL && x.Init == nil {
			if id, ok := be.X.(*ast.Ident); ok && t.kinds[id.Name] == "Elements" && nows(src(be.Y)) == "nil" {
				n := id.Name
				wantThen := "{" + n + "=&Elements{Elements:make([]Element,0,5),Index:make(map[string]int,5),}}"
				wantElse := "{" + n + ".Elements=" + n + ".Elements[:0]fork:=range" + n + ".Index{delete(" + n + ".Index,k)}}"
				if x.Else == nil || nows(src(x.Body)) != wantThen || nows(src(x.Else)) != wantElse {
					gsDie(s, "the nil test of an *Elements destination has an unexpected shape")
				}
				t.aliasParams[n+"==nil"] = true
				reset := strings.Join([]string{
					fmt.Sprintf(".assign %s .nilK", strconv.Quote(n+".Elements.Name")),
					fmt.Sprintf(".assign %s .nilB", strconv.Quote(n+".Elements.Type")),
					fmt.Sprintf(".assign %s .nilI", strconv.Quote(n+".Elements.Iter")),
					fmt.Sprintf(".assign %s .nilK", strconv.Quote(n+".Index.k")),
					fmt.Sprintf(".assign %s .nilI", strconv.Quote(n+".Index.v"))}, ",\n"+ind+"  ")
				return fmt.Sprintf(".ite (.v %s) [\n%s  .assign %s (.bool false),\n%s  %s] [\n%s  %s]", strconv.Quote(n+"==nil"), ind, strconv.Quote(n+"==nil"), ind, reset, ind, reset)
			}
		}
		// if <receiver> == nil {A} else {B}: a receiver that is being executed on is not nil; A is dead (and, in a
		// #self variant, may assign to the renamed parameter, which the subset has no form for)
		if be, ok := x.Cond.(*ast.BinaryExpr); ok && be.Op == token.EQL && x.Init == nil && t.recv != "" {
			if id, ok := be.X.(*ast.Ident); ok && id.Name == t.recv {
				if n, ok := be.Y.(*ast.Ident); ok && n.Name == "nil" {
					el := "[]"
					if eb, ok := x.Else.(*ast.BlockStmt); ok {
						el = t.block(eb.List, ind)
					} else if x.Else != nil {
						gsDie(s, "else shape")
					}
					return fmt.Sprintf(".ite (.bool false /- %s -/) [] %s", nows(src(x.Cond)), el)
				}
			}
		}
		// if !parseStringSimdValidateOnly(buf, &maxStringSize, &size, &needCopy) {B}: the kernel by contract
		if ne, ok := x.Cond.(*ast.UnaryExpr); ok && ne.Op == token.NOT && x.Else == nil {
			if call, ok := ne.X.(*ast.CallExpr); ok && nows(src(call.Fun)) == "parseStringSimdValidateOnly" && len(call.Args) == 4 {
				buf, bty := t.expr(call.Args[0], tyBytes)
				var outs []string
				for _, a := range call.Args[1:] {
					u, ok := a.(*ast.UnaryExpr)
					if !ok || u.Op != token.AND {
						gsDie(a, "kernel argument")
					}
					n, _ := t.lvalue(u.X)
					outs = append(outs, n)
				}
				if bty != tyBytes {
					gsDie(s, "kernel argument")
				}
				// maxStringSize is passed by pointer but only read
				return pre + fmt.Sprintf(".extAssign [\"#ok\", %s, %s] \"parseStringValidate\" [%s, (.v %s), (.v %s)],\n%s.ite (.not (.v \"#ok\")) %s []",
					strconv.Quote(outs[1]), strconv.Quote(outs[2]), buf, strconv.Quote(outs[0]), strconv.Quote(outs[2]), ind, t.block(x.Body.List, ind))
			}
		}
		// callbacks in the condition: `if fn(args) {B}` and `if fn == nil || fn(args) {B}`
		if call, ok := x.Cond.(*ast.CallExpr); ok && x.Else == nil {
			if cbs, ok := t.callback(call, "#"+src(call.Fun)); ok {
				return pre + cbs + ",\n" + ind + fmt.Sprintf(".ite (.v %s) %s []", strconv.Quote("#"+src(call.Fun)), t.block(x.Body.List, ind))
			}
		}
		if be, ok := x.Cond.(*ast.BinaryExpr); ok && be.Op == token.LOR && x.Else == nil {
			if call, ok := be.Y.(*ast.CallExpr); ok {
				if cbs, ok := t.callback(call, "#"+src(call.Fun)); ok {
					a, aty := t.expr(be.X, tyBool)
					if aty != tyBool {
						gsDie(s, "condition type")
					}
					body := t.block(x.Body.List, ind+"  ")
					// `if a || fn(..) {B}` is `if a {B} else { r := fn(..); if r {B} }` (the call happens only when `a` is false)
					return pre + fmt.Sprintf(".ite %s %s [\n%s  %s,\n%s  .ite (.v %s) %s []]", a, body, ind, cbs, ind, strconv.Quote("#"+src(call.Fun)), body)
				}
			}
		}
		c, ty := t.expr(x.Cond, tyBool)
		if ty != tyBool {
			gsDie(s, "condition type")
		}
		th := t.block(x.Body.List, ind)
		el := "[]"
		switch e := x.Else.(type) {
		case nil:
		case *ast.BlockStmt:
			el = t.block(e.List, ind)
		case *ast.IfStmt:
			el = "[\n" + ind + "  " + t.stmt(e, ind+"  ") + "]"
		default:
			gsDie(s, "else shape")
		}
		return pre + fmt.Sprintf(".ite %s %s %s", c, th, el)
	case *ast.SwitchStmt:
		if x.Init != nil || x.Tag == nil {
			gsDie(s, "switch shape")
		}
		tag, tty := t.expr(x.Tag, tyUnk)
		swLabel := t.curSwLabel
		t.curSwLabel = ""
		var cases []string
		dflt := "[]"
		for _, cc := range x.Body.List {
			cl := cc.(*ast.CaseClause)
			for _, b := range cl.Body {
				if br, ok := b.(*ast.BranchStmt); ok && br.Tok == token.FALLTHROUGH {
					gsDie(b, "fallthrough")
				}
				// a `break` inside a switch leaves the switch, not the loop: not in the subset
				ast.Inspect(b, func(n ast.Node) bool {
					if _, ok := n.(*ast.ForStmt); ok {
						return false
					}
					if br, ok := n.(*ast.BranchStmt); ok && br.Tok == token.BREAK && br.Label == nil {
						gsDie(br, "unlabelled break inside switch")
					}
					return true
				})
			}
			body := t.block(cl.Body, ind+"  ")
			if cl.List == nil {
				dflt = body
				continue
			}
			var labels []string
			for _, l := range cl.List {
				ls, lty := t.expr(l, tty)
				if lty != tty {
					gsDie(l, "case label type")
				}
				labels = append(labels, ls)
			}
			cases = append(cases, fmt.Sprintf("([%s], %s)", strings.Join(labels, ", "), body))
		}
		if swLabel != "" {
			return fmt.Sprintf(".switchL %s %s [\n%s    %s]\n%s    %s", strconv.Quote(swLabel), tag, ind, strings.Join(cases, ",\n"+ind+"    "), ind, dflt)
		}
		return fmt.Sprintf(".switch %s [\n%s    %s]\n%s    %s", tag, ind, strings.Join(cases, ",\n"+ind+"    "), ind, dflt)
	case *ast.DeclStmt:
		gd, ok := x.Decl.(*ast.GenDecl)
		if ok && gd.Tok == token.CONST {
			var lastVal ast.Expr
			for k, sp := range gd.Specs {
				vs := sp.(*ast.ValueSpec)
				if len(vs.Names) != 1 || len(vs.Values) > 1 {
					gsDie(s, "constant declaration shape")
				}
				if len(vs.Values) == 1 {
					lastVal = vs.Values[0]
				}
				if lastVal == nil {
					gsDie(s, "constant without a value")
				}
				val := lastVal
				_ = k
				ty := tyUntyped
				if vs.Type != nil {
					ty = tyOfTypeExpr(vs.Type)
				} else if c, ok := val.(*ast.CallExpr); ok && len(c.Args) == 1 {
					if cty := tyOfTypeExpr(c.Fun); cty != tyUnk {
						ty, val = cty, c.Args[0]
					}
				}
				if ty == tyUnk {
					gsDie(s, "constant type")
				}
				t.lconst[vs.Names[0].Name] = lconstV{val: t.p.eval(val, k).String(), ty: ty}
			}
			return ".ite (.bool true) [] [] /- " + strings.ReplaceAll(stmtText(s), "-/", "- /") + " -/"
		}
		if !ok || gd.Tok != token.VAR || len(gd.Specs) != 1 {
			gsDie(s, "declaration")
		}
		vs := gd.Specs[0].(*ast.ValueSpec)
		if len(vs.Names) != 1 || len(vs.Values) != 0 || vs.Type == nil {
			gsDie(s, "declaration shape")
		}
		if id, ok := vs.Type.(*ast.Ident); ok && structKinds[id.Name].noTape {
			n := vs.Names[0].Name
			t.kinds[n] = id.Name
			var parts []string
			for _, f := range structKinds[id.Name].fields {
				zero := map[gty]string{tyInt: "(.int 0)", tyBool: "(.bool false)", tyBytes: ".nilB"}[structKinds[id.Name].ftypes[f]]
				parts = append(parts, fmt.Sprintf(".assign %s %s", strconv.Quote(n+"."+f), zero))
			}
			return strings.Join(parts, ",\n"+ind)
		}
		if id, ok := vs.Type.(*ast.Ident); ok && (id.Name == "Object" || id.Name == "Array") {
			n := vs.Names[0].Name
			t.kinds[n] = id.Name
			return strings.Join([]string{
				fmt.Sprintf(".assign %s (.int 0)", strconv.Quote(n+".off")),
				fmt.Sprintf(".assign %s (.int 0)", strconv.Quote(n+".lim"))}, ",\n"+ind)
		}
		if id, ok := vs.Type.(*ast.Ident); ok && id.Name == "Iter" {
			// a zero Iter: no tape
			n := vs.Names[0].Name
			t.kinds[n] = "Iter"
			t.iters[n] = true
			return strings.Join([]string{
				fmt.Sprintf(".assign %s (.int 0)", strconv.Quote(n+".off")),
				fmt.Sprintf(".assign %s (.int 0)", strconv.Quote(n+".addNext")),
				fmt.Sprintf(".assign %s (.u64 0)", strconv.Quote(n+".cur")),
				fmt.Sprintf(".assign %s (.u8 0)", strconv.Quote(n+".t")),
				fmt.Sprintf(".assign %s (.int 0)", strconv.Quote(n+".lim"))}, ",\n"+ind)
		}
		ty := tyOfTypeExpr(vs.Type)
		zero := map[gty]string{tyInt: "(.int 0)", tyU64: "(.u64 0)", tyU8: "(.u8 0)", tyBool: "(.bool false)", tyBytes: ".nilB", tyErr: "(.bool false /- nil -/)", tyIface: ".nilV", tyIfaces: ".nilA"}[ty]
		if at, ok := vs.Type.(*ast.ArrayType); ok && at.Len != nil {
			if el, ok := at.Elt.(*ast.Ident); ok && (el.Name == "uint8" || el.Name == "byte") {
				ty, zero = tyBytes, fmt.Sprintf("(.zerosB %s)", t.p.eval(at.Len, 0).String()) // a byte array used through slices of it
				if t.p.eval(at.Len, 0).String() == "8" {
					if t.arr8 == nil {
						t.arr8 = map[string]bool{}
					}
					t.arr8[vs.Names[0].Name] = true
				}
			}
		}
		if zero == "" {
			gsDie(s, "declared type")
		}
		t.locals[vs.Names[0].Name] = ty
		return fmt.Sprintf(".assign %s %s", strconv.Quote(vs.Names[0].Name), zero)
	case *ast.RangeStmt:
		// for _, v := range <bytes>
		if x.Tok != token.DEFINE || x.Value == nil {
			gsDie(s, "range shape")
		}
		k, ok := x.Key.(*ast.Ident)
		if !ok {
			gsDie(s, "range key")
		}
		v, ok := x.Value.(*ast.Ident)
		if !ok {
			gsDie(s, "range value")
		}
		// for i, elem := range e.Elements: `elem` is a copy of the i-th element (its fields read out of the flattened slice)
		if sx, isSel := x.X.(*ast.SelectorExpr); isSel && sx.Sel.Name == "Elements" {
			if eid, isId := sx.X.(*ast.Ident); isId && t.kinds[eid.Name] == "Elements" {
				if k.Name == "_" {
					gsDie(s, "range over elements without an index")
				}
				n := eid.Name
				t.locals[k.Name] = tyInt
				t.kinds[v.Name] = "Element"
				t.iters[v.Name+".Iter"] = true
				t.kinds[v.Name+".Iter"] = "Iter"
				base := fmt.Sprintf("(.bin .mul (.v %s) (.int 5))", strconv.Quote(k.Name))
				at := func(j int) string {
					return fmt.Sprintf("(.idxI (.v %s) (.bin .add %s (.int %d)))", strconv.Quote(n+".Elements.Iter"), base, j)
				}
				pre := []string{
					fmt.Sprintf(".assign %s (.idxK (.v %s) (.v %s))", strconv.Quote(v.Name+".Name"), strconv.Quote(n+".Elements.Name"), strconv.Quote(k.Name)),
					fmt.Sprintf(".assign %s (.idxB (.v %s) (.v %s))", strconv.Quote(v.Name+".Type"), strconv.Quote(n+".Elements.Type"), strconv.Quote(k.Name)),
					fmt.Sprintf(".assign %s %s", strconv.Quote(v.Name+".Iter.off"), at(0)),
					fmt.Sprintf(".assign %s %s", strconv.Quote(v.Name+".Iter.addNext"), at(1)),
					fmt.Sprintf(".assign %s (.conv .u64 %s)", strconv.Quote(v.Name+".Iter.cur"), at(2)),
					fmt.Sprintf(".assign %s (.conv .u8 %s)", strconv.Quote(v.Name+".Iter.t"), at(3)),
					fmt.Sprintf(".assign %s %s", strconv.Quote(v.Name+".Iter.lim"), at(4)),
				}
				body := t.block(x.Body.List, ind)
				body = "[\n" + ind + "  " + strings.Join(pre, ",\n"+ind+"  ") + ",\n" + ind + "  " + strings.TrimPrefix(strings.TrimPrefix(body, "[\n"), ind+"  ")
				if body == "[\n"+ind+"  "+strings.Join(pre, ",\n"+ind+"  ")+",\n"+ind+"  []" {
					gsDie(s, "empty range body")
				}
				return fmt.Sprintf(".forc [.assign %s (.int 0)] (.bin .lt (.v %s) (.lenK (.v %s))) [.assign %s (.bin .add (.v %s) (.int 1))] %s",
					strconv.Quote(k.Name), strconv.Quote(k.Name), strconv.Quote(n+".Elements.Name"), strconv.Quote(k.Name), strconv.Quote(k.Name), body)
			}
		}
		e, ety := t.expr(x.X, tyUnk)
		if ety != tyBytes {
			gsDie(s, "range operand")
		}
		t.locals[v.Name] = tyU8
		if k.Name != "_" {
			t.locals[k.Name] = tyInt
			return fmt.Sprintf(".rangeIB %s %s %s %s", strconv.Quote(k.Name), strconv.Quote(v.Name), e, t.block(x.Body.List, ind))
		}
		return fmt.Sprintf(".rangeB %s %s %s", strconv.Quote(v.Name), e, t.block(x.Body.List, ind))
	case *ast.ForStmt:
		if x.Init != nil || x.Post != nil {
			if x.Post == nil || x.Cond == nil {
				gsDie(s, "for clause shape")
			}
			ini := ""
			if x.Init != nil {
				ini = t.stmt(x.Init, ind+"  ")
			}
			c, ty := t.expr(x.Cond, tyBool)
			if ty != tyBool {
				gsDie(s, "loop condition type")
			}
			post := t.stmt(x.Post, ind+"  ")
			// `continue` would have to run the post statement: the interpreter does, nothing to check here
			return fmt.Sprintf(".forc [%s] %s [%s] %s", ini, c, post, t.block(x.Body.List, ind))
		}
		body := t.block(x.Body.List, ind)
		if x.Cond == nil {
			return fmt.Sprintf(".loop %s", body)
		}
		savedPre := t.pre
		t.pre = nil
		c, ty := t.expr(x.Cond, tyBool)
		if ty != tyBool {
			gsDie(s, "loop condition type")
		}
		if len(t.pre) > 0 {
			// the condition makes calls: `for c { body }` is `for { if !c { break }; body }`, the calls made on every round
			hoisted := strings.Join(t.pre, ",\n"+ind+"  ")
			t.pre = savedPre
			rest := strings.TrimPrefix(strings.TrimPrefix(body, "[\n"), ind+"  ")
			if body == "[]" {
				rest = "]"
				return fmt.Sprintf(".loop [\n%s  %s,\n%s  .ite %s [] [\n%s    .brk]]", ind, hoisted, ind, c, ind)
			}
			return fmt.Sprintf(".loop [\n%s  %s,\n%s  .ite %s [] [\n%s    .brk],\n%s  %s", ind, hoisted, ind, c, ind, ind, rest)
		}
		t.pre = savedPre
		return fmt.Sprintf(".while %s %s", c, body)
	case *ast.BranchStmt:
		if x.Label != nil {
			switch {
			case x.Tok == token.BREAK && t.swLabels[x.Label.Name]:
				return fmt.Sprintf(".brkL %s", strconv.Quote(x.Label.Name))
			case x.Tok == token.BREAK && t.loopLabels[x.Label.Name] && len(t.loopLabels) == 1:
				return ".brk /- " + x.Label.Name + " -/" // the only loop of the function: `break` reaches it through any switch
			}
			gsDie(s, "labelled branch")
		}
		switch x.Tok {
		case token.BREAK:
			return ".brk"
		case token.CONTINUE:
			return ".cont"
		}
		gsDie(s, "branch")
	case *ast.ReturnStmt:
		var es []string
		fd := t.p.funcs[t.fn]
		if len(x.Results) == 0 && len(t.named) > 0 {
			for _, n := range t.named {
				es = append(es, fmt.Sprintf("(.v %s)", strconv.Quote(n)))
			}
			return fmt.Sprintf(".ret [%s]", strings.Join(es, ", "))
		}
		if len(x.Results) == 1 {
			if call, isCall := x.Results[0].(*ast.CallExpr); isCall {
				if recv, callee, ptrs, args, rtys, ok := t.methodCall(call); ok {
					mine := funcResultTypes(fd)
					if len(mine) != len(rtys) {
						gsDie(s, "returned call arity")
					}
					boxed := false
					for k := range mine {
						if mine[k] == tyIface && rtys[k] != tyIface && rtys[k] != tyIfaces && rtys[k] != tyIMap {
							boxed = true
						}
					}
					if boxed {
						// return f() where a result of f becomes an interface{}: the results are taken, converted, returned
						var tgts, vals []string
						for k := range mine {
							t.ntemp++
							tmp := fmt.Sprintf("#r%d", t.ntemp)
							tgts = append(tgts, tmp)
							v := fmt.Sprintf("(.v %s)", strconv.Quote(tmp))
							if mine[k] == tyIface && rtys[k] != tyIface && rtys[k] != tyIfaces && rtys[k] != tyIMap {
								v = boxExpr(s, v, rtys[k])
							} else if mine[k] != rtys[k] {
								gsDie(s, "returned call types")
							}
							vals = append(vals, v)
						}
						return fmt.Sprintf(".callAssign %s %s %s %s [%s],\n%s.ret [%s]", leanStrList(tgts), strconv.Quote(recv), strconv.Quote(callee), leanStrList(ptrs), strings.Join(args, ", "), ind, strings.Join(vals, ", "))
					}
					for k := range mine {
						if mine[k] != rtys[k] && !(mine[k] == tyIface && (rtys[k] == tyIfaces || rtys[k] == tyIMap)) {
							gsDie(s, "returned call types")
						}
					}
					return fmt.Sprintf(".retCall %s %s %s [%s]", strconv.Quote(recv), strconv.Quote(callee), leanStrList(ptrs), strings.Join(args, ", "))
				}
			}
		}
		var rtys []gty
		if t.rtys != nil {
			rtys = t.rtys
		} else if fd.Type.Results != nil {
			for _, f := range fd.Type.Results.List {
				n := len(f.Names)
				if n == 0 {
					n = 1
				}
				for k := 0; k < n; k++ {
					rtys = append(rtys, tyOfTypeExpr(f.Type))
				}
			}
		}
		if len(x.Results) != len(rtys) {
			gsDie(s, "return arity (named results are not in the subset)")
		}
		for k, r := range x.Results {
			e, ty := t.expr(r, rtys[k])
			if rtys[k] == tyIface && (ty == tyIfaces || ty == tyIMap) {
				ty = tyIface // a slice / map as an interface{}: the same value here
			} else if rtys[k] == tyIface && ty != tyIface {
				e, ty = boxExpr(s, e, ty), tyIface
			}
			if ty != rtys[k] {
				gsDie(r, "return type")
			}
			es = append(es, e)
		}
		return fmt.Sprintf(".ret [%s]", strings.Join(es, ", "))
	case *ast.ExprStmt:
		call, ok := x.X.(*ast.CallExpr)
		if !ok {
			gsDie(s, "expression statement")
		}
		if cbs, ok := t.callback(call, "_"); ok {
			return cbs
		}
		for _, k := range t.skipStmts {
			if nows(src(x.X)) == nows(k) {
				return ".ite (.bool true) [] [] /- not translated (modelled by contract): " + k + " -/"
			}
		}
		if id, ok := call.Fun.(*ast.Ident); ok && id.Name == "panic" && len(call.Args) == 1 {
			return ".panicS /- " + strings.ReplaceAll(stmtText(s), "-/", "- /") + " -/"
		}
		// w.Write(b) for an io.Writer known by contract only to receive the bytes in order: the variable `w.out`
		if sel, ok := call.Fun.(*ast.SelectorExpr); ok && sel.Sel.Name == "Write" && len(call.Args) == 1 {
			w := nows(src(sel.X)) + ".out"
			wty := t.frees[w]
			if sx, ok := sel.X.(*ast.SelectorExpr); ok {
				if id, ok := sx.X.(*ast.Ident); ok && t.kinds[id.Name] != "" {
					wty = structKinds[t.kinds[id.Name]].ftypes[sx.Sel.Name+".out"]
				}
			}
			if wty == tyBytes {
				a, aty := t.expr(call.Args[0], tyBytes)
				if aty != tyBytes {
					gsDie(s, "Write operand")
				}
				return fmt.Sprintf(".assign %s (.appendB (.v %s) %s)", strconv.Quote(w), strconv.Quote(w), a)
			}
		}
		// binary.LittleEndian.PutUint64(tmp[:], v) for a local [8]byte
		if nows(src(call.Fun)) == "binary.LittleEndian.PutUint64" && len(call.Args) == 2 {
			if sl, ok := call.Args[0].(*ast.SliceExpr); ok && sl.Low == nil && sl.High == nil {
				if bid, ok := sl.X.(*ast.Ident); ok && t.locals[bid.Name] == tyBytes && t.arr8[bid.Name] {
					v, vty := t.expr(call.Args[1], tyU64)
					if vty != tyU64 {
						gsDie(s, "PutUint64 operand")
					}
					return fmt.Sprintf(".assign %s (.leBytes %s)", strconv.Quote(bid.Name), v)
				}
			}
		}
		if id, ok := call.Fun.(*ast.Ident); ok && id.Name == "ryuFtoaShortest" && len(call.Args) == 3 {
			u, ok := call.Args[0].(*ast.UnaryExpr)
			if !ok || u.Op != token.AND {
				gsDie(s, "ryuFtoaShortest argument")
			}
			did, ok := u.X.(*ast.Ident)
			if !ok || t.kinds[did.Name] != "decimalSlice" {
				gsDie(s, "ryuFtoaShortest argument")
			}
			m, mty := t.expr(call.Args[1], tyU64)
			e2, ety := t.expr(call.Args[2], tyInt)
			if mty != tyU64 || ety != tyInt {
				gsDie(s, "ryuFtoaShortest operands")
			}
			return fmt.Sprintf(".extAssign [%s, %s, %s] \"ryuFtoaShortest\" [%s, %s]", strconv.Quote(did.Name+".d"), strconv.Quote(did.Name+".nd"), strconv.Quote(did.Name+".dp"), m, e2)
		}
		if id, ok := call.Fun.(*ast.Ident); ok && id.Name == "copy" && len(call.Args) == 2 {
			d := call.Args[0]
			if sl, ok := d.(*ast.SliceExpr); ok && sl.Low == nil && sl.High == nil {
				d = sl.X // copy(x[:], y)
			}
			name, ty := t.lvalue(d)
			src2, sty := t.expr(call.Args[1], tyBytes)
			if ty != tyBytes || sty != tyBytes {
				gsDie(s, "copy operands")
			}
			return fmt.Sprintf(".assign %s (.copyB (.v %s) %s)", strconv.Quote(name), strconv.Quote(name), src2)
		}
		sel, ok := call.Fun.(*ast.SelectorExpr)
		if !ok {
			gsDie(s, "call shape")
		}
		id, ok := sel.X.(*ast.Ident)
		if !ok || !t.iters[id.Name] || len(call.Args) > 0 && func() bool { _, isId := call.Args[0].(*ast.Ident); return isId && t.kinds[call.Args[0].(*ast.Ident).Name] != "" }() {
			if recv, callee, ptrs, args, _, ok := t.methodCall(call); ok {
				return fmt.Sprintf(".callAssign [] %s %s %s [%s]", strconv.Quote(recv), strconv.Quote(callee), leanStrList(ptrs), strings.Join(args, ", "))
			}
			gsDie(s, "call receiver")
		}
		callee := "Iter." + sel.Sel.Name
		cfd, ok := t.p.funcs[callee]
		if !ok {
			gsDie(s, "unknown method")
		}
		known := false
		for _, f := range goSrcFuncs {
			if f == callee {
				known = true
			}
		}
		if !known {
			gsDie(s, "callee is not translated")
		}
		var ptys []gty
		for _, f := range cfd.Type.Params.List {
			for range f.Names {
				ptys = append(ptys, tyOfTypeExpr(f.Type))
			}
		}
		if len(ptys) != len(call.Args) {
			gsDie(s, "call arity")
		}
		var args []string
		for k, a := range call.Args {
			e, ty := t.expr(a, ptys[k])
			if ty != ptys[k] {
				gsDie(a, "argument type")
			}
			args = append(args, e)
		}
		return fmt.Sprintf(".call %s %s [%s]", strconv.Quote(id.Name), strconv.Quote(callee), strings.Join(args, ", "))
	}
	gsDie(s, "statement")
	return ""
}

// stmtText: the statement's source on one line, comment lines dropped
// boxExpr: a scalar converted to interface{} (its dynamic type is the static type of the expression)
func boxExpr(n ast.Node, e string, ty gty) string {
	k := map[gty]string{tyU64: ".uint", tyInt: ".int", tyF64: ".float", tyBytes: ".str", tyBool: ".bool"}[ty]
	if k == "" {
		gsDie(n, "conversion to interface{}")
	}
	return fmt.Sprintf("(.box %s %s)", k, e)
}

func stmtText(st ast.Stmt) string {
	var keep []string
	for _, l := range strings.Split(src(st), "\n") {
		if t := strings.TrimSpace(l); t != "" && !strings.HasPrefix(t, "//") {
			keep = append(keep, t)
		}
	}
	return strings.Join(strings.Fields(strings.Join(keep, " ")), " ")
}

func leanDefName(fn string) string {
	return "go" + strings.ReplaceAll(strings.ReplaceAll(fn, ".", "_"), "#", "_")
}

// selfVariant is the function fd specialised to calls whose pointer arguments of the receiver's type ARE the receiver
// (`tmp.AdvanceIter(&tmp)`): those parameters are dropped and their names renamed to the receiver's, which is what
// aliasing means — one object under two names. (The general translation keeps receiver and parameter apart.)
func selfVariant(fd *ast.FuncDecl) *ast.FuncDecl {
	f, err := parser.ParseFile(fset, "", "package p\n"+src(fd), 0)
	if err != nil || len(f.Decls) != 1 {
		die("gosrc: cannot re-parse %s", fd.Name.Name)
	}
	nfd := f.Decls[0].(*ast.FuncDecl)
	if nfd.Recv == nil || len(nfd.Recv.List) != 1 || len(nfd.Recv.List[0].Names) != 1 {
		die("gosrc: %s: receiver", fd.Name.Name)
	}
	recv := nfd.Recv.List[0].Names[0].Name
	rty := nows(src(nfd.Recv.List[0].Type))
	aliased := map[string]bool{}
	var keep []*ast.Field
	for _, fld := range nfd.Type.Params.List {
		if nows(src(fld.Type)) == rty {
			for _, nm := range fld.Names {
				aliased[nm.Name] = true
			}
			continue
		}
		keep = append(keep, fld)
	}
	if len(aliased) == 0 {
		die("gosrc: %s has no parameter of its receiver's type", fd.Name.Name)
	}
	nfd.Type.Params.List = keep
	ast.Inspect(nfd.Body, func(n ast.Node) bool {
		if id, ok := n.(*ast.Ident); ok && aliased[id.Name] {
			id.Name = recv
		}
		return true
	})
	return nfd
}

func genGoSrc(p *pkgInfo, out string) {
	var b strings.Builder
	b.WriteString(header)
	b.WriteString("import SJ.GoSem.Lang\nset_option maxRecDepth 4096\nnamespace SJ.Generated\nopen SJ.GoSem\n\n")
	names := append([]string{}, goSrcFuncs...)
	for _, fn := range names {
		if base := strings.TrimSuffix(fn, "#self"); base != fn {
			bfd, ok := p.funcs[base]
			if !ok {
				die("gosrc: function %s not found", base)
			}
			p.funcs[fn] = selfVariant(bfd)
		}
		fd, ok := p.funcs[fn]
		if !ok {
			die("gosrc: function %s not found", fn)
		}
		t := &gsTr{p: p, fn: fn, iters: map[string]bool{}, locals: map[string]gty{}, kinds: map[string]string{},
			lconst: map[string]lconstV{}, poison: map[string]bool{}, swLabels: map[string]bool{}, loopLabels: map[string]bool{}, aliasParams: map[string]bool{}, readonly: map[string]bool{}}
		t.iterFieldTypes()
		t.frees = map[string]gty{}
		rkind := "Iter"
		scalarRecv := ""
		if fd.Recv == nil {
			rkind = "" // a plain function
		} else {
			if len(fd.Recv.List) != 1 || len(fd.Recv.List[0].Names) != 1 {
				die("gosrc: %s: receiver", fn)
			}
			var isPtr bool
			rkind, isPtr = ptrKind(fd.Recv.List[0].Type)
			byValue := false
			if sty := tyOfTypeExpr(fd.Recv.List[0].Type); !isPtr && (sty == tyU8 || sty == tyU64 || sty == tyInt) {
				// a method of a named scalar type (Tag, Type, FloatFlags): a plain function whose first parameter is the receiver
				rkind = ""
				scalarRecv = fd.Recv.List[0].Names[0].Name
				t.locals[scalarRecv] = sty
			} else if !isPtr {
				// a plain struct received by value: the callee works on a copy of the fields (which is what copying them in
				// means; that they are copied back is harmless as long as the callee does not assign to them: enforced)
				if k, ok := valKindAny(fd.Recv.List[0].Type); ok {
					rkind, byValue = k, true
				} else {
					die("gosrc: %s: receiver must be a pointer to Iter, Object, Array or ParsedJson, or a plain struct by value", fn)
				}
			}
			if scalarRecv == "" {
				t.recv = fd.Recv.List[0].Names[0].Name
				t.kinds[t.recv] = rkind
			}
			if byValue {
				t.readonly[t.recv] = true
			}
			if rkind == "Iter" {
				t.iters[t.recv] = true
			}
		}
		var params []string
		var ptrParams []string
		if scalarRecv != "" {
			params = append(params, scalarRecv)
		}
		for _, f := range fd.Type.Params.List {
			for _, nm := range f.Names {
				if k, ok := valKind(f.Type); ok {
					// a struct passed by value: its fields are part of the environment; the callee must not assign to them
					t.kinds[nm.Name] = k
					t.readonly[nm.Name] = true
					ptrParams = append(ptrParams, fmt.Sprintf("(%s, %s)", strconv.Quote(nm.Name), kindFields(k)))
					continue
				}
				if k, ok := ptrKind(f.Type); ok {
					t.kinds[nm.Name] = k
					if t.ptrParam == nil {
						t.ptrParam = map[string]bool{}
					}
					t.ptrParam[nm.Name] = true
					if k == "Iter" {
						t.iters[nm.Name] = true
					}
					// a pointer parameter's fields are part of the environment (aliased with the caller's)
					ptrParams = append(ptrParams, fmt.Sprintf("(%s, %s)", strconv.Quote(nm.Name), kindFields(k)))
					continue
				}
				ty := tyOfTypeExpr(f.Type)
				if ty == tyFunc {
					// a callback: no value; its answers and its log are the variables `<name>.results`, `<name>.log`
					t.locals[nm.Name] = tyFunc
					continue
				}
				if ty != tyInt && ty != tyU64 && ty != tyU8 && ty != tyBool && ty != tyBytes && ty != tyF64 && ty != tyKeys && ty != tyStrs && ty != tyIMap {
					die("gosrc: %s: parameter %s has an unsupported type", fn, nm.Name)
				}
				if ty == tyIMap {
					if t.mapParam == nil {
						t.mapParam = map[string]bool{}
					}
					t.mapParam[nm.Name] = true
				}
				t.locals[nm.Name] = ty
				params = append(params, nm.Name)
			}
		}
		// named results are variables initialised to their zero value
		var inits []string
		if fd.Type.Results != nil {
			for _, f := range fd.Type.Results.List {
				for _, nm := range f.Names {
					ty := tyOfTypeExpr(f.Type)
					zero := map[gty]string{tyInt: "(.int 0)", tyU64: "(.u64 0)", tyU8: "(.u8 0)", tyBool: "(.bool false)", tyErr: "(.bool false /- nil -/)", tyBytes: ".nilB"}[ty]
					if zero == "" {
						die("gosrc: %s: named result %s has an unsupported type", fn, nm.Name)
					}
					t.named = append(t.named, nm.Name)
					t.locals[nm.Name] = ty
					inits = append(inits, fmt.Sprintf(".assign %s %s", strconv.Quote(nm.Name), zero))
				}
			}
		}
		body := t.block(fd.Body.List, "")
		if len(inits) > 0 {
			body = "[\n  " + strings.Join(inits, ",\n  ") + ",\n  " + strings.TrimPrefix(strings.TrimPrefix(body, "[\n"), "  ")
		}
		var hidden []string
		for hp := range t.aliasParams {
			hidden = append(hidden, hp)
		}
		sort.Strings(hidden)
		goSrcAliasParams[fn] = hidden
		params = append(params, hidden...)
		extra := ""
		if rkind == "" {
			extra += ", fields := []"
		} else if rkind != "Iter" {
			extra += ", fields := " + kindFields(rkind)
		}
		if len(ptrParams) > 0 {
			extra += ", ptrParams := [" + strings.Join(ptrParams, ", ") + "]"
		}
		pos := fset.Position(fd.Pos())
		// (the optional fields go in front of the body: Lean wants every field of a structure instance at or right of the
		// column of the first one, and the body ends at column 2)
		fmt.Fprintf(&b, "/-- `%s` — %s:%d -/\ndef %s : FunDef := { recv := %s, params := %s%s, body := %s }\n\n",
			fn, filepath.Base(pos.Filename), pos.Line, leanDefName(fn), strconv.Quote(t.recv), leanStrList(params), extra, body)
	}
	// blocks of larger functions: the statements from the first one starting with `from` to the end of the function,
	// without those that mention one of `skip` (waits on goroutines that belong to the part modelled by contract)
	for _, bs := range goSrcBlocks {
		fd, ok := p.funcs[bs.fn]
		if !ok {
			die("gosrc: function %s not found", bs.fn)
		}
		t := &gsTr{p: p, fn: bs.fn, iters: map[string]bool{}, locals: map[string]gty{}, tapes: bs.tapes, frees: bs.frees, rtys: bs.rtys,
			kinds: map[string]string{}, lconst: map[string]lconstV{}, poison: map[string]bool{}, swLabels: map[string]bool{}, loopLabels: map[string]bool{}, aliasParams: map[string]bool{}, readonly: map[string]bool{}}
		t.iterFieldTypes()
		for n, ty := range bs.locals {
			t.locals[n] = ty
		}
		for n, k := range bs.kinds {
			t.kinds[n] = k
		}
		t.skipStmts = bs.skipNested
		var list []ast.Stmt
		var skipped []string
		started := false
		for _, st := range fd.Body.List {
			txt := stmtText(st)
			if !started {
				if !strings.HasPrefix(txt, bs.from) {
					// constants declared in front of the block are known inside it
					if ds, ok := st.(*ast.DeclStmt); ok {
						if gd, ok := ds.Decl.(*ast.GenDecl); ok && gd.Tok == token.CONST {
							t.stmt0(st, "")
						}
					}
					continue
				}
				started = true
			}
			if bs.until != "" && strings.HasPrefix(txt, bs.until) {
				break
			}
			skip := false
			for _, k := range bs.skip {
				if strings.Contains(txt, k) {
					skip = true
				}
			}
			if skip {
				skipped = append(skipped, txt)
				continue
			}
			list = append(list, st)
		}
		if !started {
			var heads []string
			for _, st := range fd.Body.List {
				txt := strings.Join(strings.Fields(src(st)), " ")
				if len(txt) > 30 {
					txt = txt[:30]
				}
				heads = append(heads, txt)
			}
			die("gosrc: %s: no statement starts with %q (statements: %s)", bs.fn, bs.from, strings.Join(heads, " | "))
		}
		pos := fset.Position(list[0].Pos())
		to := "the end"
		if bs.until != "" {
			to = "before `" + bs.until + "`"
		}
		skipped = append(skipped, bs.skipNested...)
		fmt.Fprintf(&b, "/-- `%s`, from `%s` to %s — %s:%d. Not translated (goroutine joins, modelled by contract): %s -/\ndef %s : FunDef := { recv := \"\", params := [], body := %s }\n\n",
			bs.fn, bs.from, to, filepath.Base(pos.Filename), pos.Line, strings.ReplaceAll(strings.Join(skipped, " | "), "-/", "- /"), bs.lean, t.block(list, ""))
	}
	// --- framing: begin
	genFraming(p, &b)
	names = append(names, framingFuncs...)
	// --- framing: end
	sort.Strings(names)
	b.WriteString("/-- the translated functions by name -/\ndef goFuns (n : String) : Option FunDef :=\n")
	for _, fn := range names {
		fmt.Fprintf(&b, "  if n == %s then some %s else\n", strconv.Quote(fn), leanDefName(fn))
	}
	b.WriteString("  none\n\nend SJ.Generated\n")
	writeIfChanged(filepath.Join(out, "GoSrc.lean"), b.String())
}
