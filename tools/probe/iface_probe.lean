import SJ.Proofs.LexIface
open SJ SJ.ParseDefs SJ.Generated

def readyB (nd : Bool) (msg : Bytes) (p : Nat) : Bool :=
  (σ nd msg p).inQuote == false && (σ nd msg p).bsOdd == false &&
  ((σ nd msg p).prevPred || decide (msg.size ≤ p) || isWsByte (msg.getD p 0) || isStructByte (msg.getD p 0))

def allP (n : Nat) (f : Nat → Bool) : Bool := (List.range n).all f
def anyP (n : Nat) (f : Nat → Bool) : Bool := (List.range n).any f

def checkScan (nd : Bool) (msg : Bytes) : List String := Id.run do
  let n := msg.size
  let mut bad : List String := []
  if !readyB nd msg 0 then bad := "ready0" :: bad
  for p in [0:n] do
    let b := byteAt msg p
    if readyB nd msg p then
      if isWsByte b && !(nd && b == 10) then
        if !(emit nd msg p == false && readyB nd msg (p+1) && (σ nd msg (p+1)).err == (σ nd msg p).err) then bad := s!"ws@{p}" :: bad
      if nd && b == 10 then
        if !(emit nd msg p == true && readyB nd msg (p+1) && (σ nd msg (p+1)).err == (σ nd msg p).err) then bad := s!"nl@{p}" :: bad
      if isStructByte b then
        if !(emit nd msg p == true && readyB nd msg (p+1) && (σ nd msg (p+1)).err == (σ nd msg p).err) then bad := s!"struct@{p}" :: bad
      if !isWsByte b then
        if !(emit nd msg p) then bad := s!"tokStart@{p}" :: bad
      if b == 34 then
        match closeQ (msg.toList.drop (p+1)) with
        | some d =>
          let okk := decide (p + 2 + d ≤ n) && allP (d+1) (fun t => emit nd msg (p+1+t) == false) &&
            readyB nd msg (p+2+d) && (σ nd msg (p+2+d)).prevPred &&
            ((σ nd msg (p+2+d)).err == ((σ nd msg p).err || anyP d (fun j => byteAt msg (p+1+j) < 0x20)))
          if !okk then bad := s!"strClosed@{p}" :: bad
        | none => if !(σ nd msg n).inQuote then bad := s!"strOpen@{p}" :: bad
      -- tokRun: for every q
      for q in [p+1:n+1] do
        if allP (q - p) (fun t => plainByte (byteAt msg (p+t))) && (q == n || isWsByte (byteAt msg q) || isStructByte (byteAt msg q)) then
          let okk := allP (q-p-1) (fun t => emit nd msg (p+1+t) == false) && readyB nd msg q && (σ nd msg q).err == (σ nd msg p).err
          if !okk then bad := s!"tokRun@{p},{q}" :: bad
    -- idx_at
    if emit nd msg p then
      if (indices nd msg)[cnt nd msg p]? != some p then bad := s!"idx_at@{p}" :: bad
  if cnt nd msg n != (indices nd msg).length then bad := "cnt_size" :: bad
  -- stage1_iff
  let rhs := n != 0 && (indices nd msg) != [] && (σ nd msg n).err == false && (σ nd msg n).inQuote == false &&
     (byteAt msg ((indices nd msg).getLastD 0) == 125 || byteAt msg ((indices nd msg).getLastD 0) == 93)
  match stage1 nd msg with
  | some idx => if !(rhs && idx.toList == indices nd msg) then bad := "stage1_iff(some)" :: bad
  | none => if rhs then bad := "stage1_iff(none)" :: bad
  return bad

def checkPeek (msg : Bytes) (f : Nat → Bool) : Bool :=
  let idx := (List.range msg.size).filter f
  let L := pairsOf (rounds msg idx.toArray)
  L.map Prod.fst == idx &&
  allP (L.length - 1) (fun k =>
    let a := L.getD k (0,0); let b := L.getD (k+1) (0,0)
    a.2 == b.1 - a.1 || (a.2 == 0 && (isMarkup (msg.getD a.1 0) || !isMarkup (msg.getD b.1 0))))

def alphabet : Array UInt8 := #[34, 34, 92, 91, 93, 123, 125, 44, 58, 32, 10, 49, 97, 1, 117, 48, 0xC3]

def lcg (s : Nat) : Nat := (s * 6364136223846793005 + 1442695040888963407) % 2^64

def main : IO Unit := do
  let mut s := 12345
  let mut nbad := 0
  for it in [0:3000] do
    s := lcg s
    let len := (s >>> 33) % 14
    let mut msg : Bytes := #[]
    for _ in [0:len] do
      s := lcg s
      msg := msg.push (alphabet[(s >>> 33) % alphabet.size]!)
    for nd in [false, true] do
      let bad := checkScan nd msg
      if bad != [] then
        nbad := nbad + 1
        if nbad < 10 then IO.println s!"{msg} nd={nd}: {bad}"
  IO.println s!"scan bad: {nbad}"
  -- peek: long messages
  let mut pbad := 0
  for it in [0:30] do
    s := lcg s
    let n := 3000 + (s >>> 33) % 5000
    let mut msg : Bytes := #[]
    for _ in [0:n] do
      s := lcg s
      msg := msg.push (if (s >>> 40) % 3 == 0 then 44 else if (s >>> 40) % 3 == 1 then 34 else 49)
    let seed := s
    let f := fun (i : Nat) => (lcg (seed + i) >>> 37) % 4 != 0
    if !checkPeek msg f then pbad := pbad + 1
  IO.println s!"peek bad: {pbad}"
