import SJ.Proofs.ParseDefs
import SJ.Proofs.DecodeSound
import Driver.Main
open SJ SJ.ParseDefs SJ.Layout

def runAll (nd : Bool) (s : String) : Option (Bool × Nat) :=
  let msg : Bytes := s.toUTF8.data
  match stage1 nd msg with
  | none => none
  | some idx =>
    match runMG {} msg M.init {} (pairsOf (rounds msg idx)) with
    | none => none
    | some (m, g) =>
      match m.finish with
      | none => none
      | some mf =>
        let pj := pjOf mf msg
        let ds := (g.roots.map erase).map DecodeSound.toOVal
        match decodeTapeD pj with
        | none => none
        | some ds' => some (Driver.ovalStr (OVal.arr ds) == Driver.ovalStr (OVal.arr ds'), ds.length)

#eval runAll false "{\"a\":[1,2.5,\"x\\n\",{\"b\":null,\"c\":[true,false,[]]},{}],\"a\":-3}"
#eval runAll true "{\"a\":1}\n\n[1,[2],\"k\"]\n{}"
#eval runAll false "[18446744073709551615, 1e400]"
#eval runAll false "[18446744073709551615, 1e300, 123456789012345678901234567890, -0.0, \"\\ud83d\\ude00\"]"
#eval runAll true "[]\n[[[[{\"k\":{\"k\":[]}}]]]]\n"
