import SJ.Proofs.LexIface
open SJ SJ.ParseDefs SJ.Generated

def alphabet : Array UInt8 := #[34, 92, 92, 117, 117, 68, 56, 48, 48, 67, 70, 110, 113, 1, 0xC3, 0xA9, 97, 100, 57, 66, 69, 0xED, 0xA0, 0x80]
def lcg (s : Nat) : Nat := (s * 6364136223846793005 + 1442695040888963407) % 2^64

def checkStr (s : List UInt8) : Option String :=
  let a : Bytes := s.toArray
  match Spec.stringBody (s.length + 1) s [] false with
  | .acc dec rest =>
    match closeQ s with
    | none => some "acc: closeQ none"
    | some d =>
      if rest != s.drop (d+1) then some "acc: rest" else
      if (List.range d).any (fun j => s.getD j 0 < 0x20) then some "acc: ctrl" else
      if decodeString a 0 (d+1) != some (dec.toArray, d) then some "acc: dec lim=d+1" else
      if decodeString a 0 (d+100) != some (dec.toArray, d) then some "acc: dec lim big" else
      -- with prefix and suffix
      let a2 : Bytes := (#[91, 34] : Bytes) ++ a ++ #[44, 34, 34, 34, 34, 34,34,34,34,34,34,34,34,34,34]
      if (a2.toList.drop 2) == s ++ [44, 34, 34, 34, 34, 34,34,34,34,34,34,34,34,34,34] then none else some "x"
  | .rej =>
    match closeQ s with
    | none => none
    | some d =>
      if (List.range d).any (fun j => s.getD j 0 < 0x20) then none
      else if decodeString a 0 (d+1) == none && decodeString a 0 (d+1000) == none && decodeString a 0 1 == none then none
      else some s!"rej: decodeString accepts, d={d}"
  | .out => none

def main : IO Unit := do
  let mut s := 777
  let mut nbad := 0
  let mut nacc := 0
  let mut nrej := 0
  let mut nout := 0
  for _ in [0:400000] do
    s := lcg s
    let len := (s >>> 33) % 22
    let mut msg : List UInt8 := []
    for _ in [0:len] do
      s := lcg s
      msg := (alphabet[(s >>> 33) % alphabet.size]!) :: msg
    match Spec.stringBody (msg.length + 1) msg [] false with
    | .acc _ _ => nacc := nacc + 1
    | .rej => nrej := nrej + 1
    | .out => nout := nout + 1
    match checkStr msg with
    | some e => nbad := nbad + 1; if nbad < 10 then IO.println s!"{msg}: {e}"
    | none => pure ()
  IO.println s!"bad {nbad} acc {nacc} rej {nrej} out {nout}"
