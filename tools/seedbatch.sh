#!/bin/bash
# seedbatch.sh <id>... : collect each seeding agent's deliverables and test it (isolated) against the check of its own property, one after the other
cd /verif
for id in "$@"; do
  bash tools/seedcollect.sh $id >/dev/null 2>&1 || { echo "$id: collect failed"; continue; }
  p=${id%%-*}
  python3 tools/seedtest.py seeded/$id --checks $p > /tmp/seedtest_$id.log 2>&1
  python3 -c "
import json;r=json.load(open('/verif/seeded/$id/result.json'));print('$id',r.get('caught_by'),r.get('demo_fails_with_patch'),r.get('demo_passes_without_patch'))"
done
