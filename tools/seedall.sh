#!/bin/bash
# seedall.sh [jobs] : re-run every seeded change against the check of its own property (isolated mode), in parallel
J=${1:-4}
cd /verif
ls seeded | xargs -P $J -I{} sh -c 'p=$(python3 -c "import json;print(json.load(open(\"seeded/{}/meta.json\"))[\"property\"])"); python3 tools/seedtest.py seeded/{} --checks $p > /tmp/seedall_{}.log 2>&1; echo {} done'
python3 - <<'PY'
import json,glob,os
missed=[]
for d in sorted(glob.glob('/verif/seeded/*')):
    r=json.load(open(d+'/result.json'))
    ok=all([r.get("applies"), r.get("builds"), not r.get("baseline_missing"), r.get("demo_fails_with_patch"), r.get("demo_passes_without_patch")])
    if not r.get('caught_by') or not ok: missed.append((os.path.basename(d), r.get('caught_by'), ok))
print("not caught / not confirmed:", missed)
PY
