#!/usr/bin/env python3
import json,binascii,sys
r=json.load(open(sys.argv[1]))
n=int(sys.argv[2]) if len(sys.argv)>2 else 8
print(r['evaluations'], r['distinct_nontrivial'], len(r['disagreements'] or []), r.get('notes'))
for d in (r['disagreements'] or [])[:n]:
    op=d['ops'][0].split()
    try: txt=binascii.unhexlify(op[4])[:200] if op[4]!='-' else b''
    except Exception: txt=''
    print(d['kind'], d['at'], d.get('note'), op[:4], txt)
    for o in d['ops'][max(0,d['at']-6):d['at']+1]: print('     ', o[:150])
    print('  impl:', d['impl'][:400]); print('  othr:', d['other'][:400])
