#!/usr/bin/env python3
"""Print the markdown table of seeded changes for DESIGN.md §11 from seeded/*/meta.json and result.json."""
import json, os, glob, textwrap
rows = []
for d in sorted(glob.glob(os.path.join(os.path.dirname(os.path.abspath(__file__)), "..", "seeded", "*"))):
    if not os.path.isdir(d): continue
    try:
        m = json.load(open(os.path.join(d, "meta.json")))
    except Exception:
        continue
    r = {}
    if os.path.exists(os.path.join(d, "result.json")):
        r = json.load(open(os.path.join(d, "result.json")))
    summ = " ".join(str(m.get("summary", "")).split())
    if len(summ) > 230: summ = summ[:227] + "…"
    caught = ", ".join(r.get("caught_by", [])) or "—"
    ok = all([r.get("applies"), r.get("builds"), not r.get("baseline_missing"), r.get("demo_fails_with_patch"), r.get("demo_passes_without_patch")])
    how = m.get("caught_how", "")
    if not how:
        for c, v in (r.get("checks") or {}).items():
            f = v.get("first") or {}
            if f:
                how = f"{f.get('suite','')}/{f.get('kind','')}: {' '.join(str(f.get('note','')).split())[:80]}"
                if f.get("impl"): how += " — impl `" + " ".join(str(f.get("impl")).split())[:60].replace("|", "/") + "`"
                break
    rows.append(f"| {os.path.basename(d)} | {m.get('property','?')} | {summ} | {'yes' if ok else 'NO'} | {caught} | {how} |")
print("| Seed | Property | Change | confirmed (applies, builds, 30 baseline tests pass, demo fails with / passes without) | Caught by (quick tier) | How |")
print("|---|---|---|---|---|---|")
print("\n".join(rows))
