#!/usr/bin/env python3
"""manifest_sync.py: rewrite the per-check texts of MANIFEST.json (level_claimed.text, level_note, technique) from
tools/properties.py, so that the manifest, the evidence files and the checks describe the same thing."""
import json, os, sys
ROOT = os.path.dirname(os.path.dirname(os.path.abspath(__file__)))
sys.path.insert(0, os.path.join(ROOT, "tools"))
from properties import PROPS
p = os.path.join(ROOT, "MANIFEST.json")
m = json.load(open(p))
for c in m["checks"]:
    cfg = PROPS[c["property_id"]]
    c["level_claimed"]["category"] = cfg["level"]
    c["level_claimed"]["text"] = cfg["explanation"]
    c["level_note"] = "; ".join(cfg["assumptions"]) or "no additional assumptions"
    pid = c["property_id"]
    lean = os.path.join(ROOT, "lean", "SJ", "Properties")
    ties = "_follows_source" in open(os.path.join(lean, pid + ".lean")).read() or "_follow_source" in open(os.path.join(lean, pid + ".lean")).read()
    srcl = os.path.exists(os.path.join(lean, pid + "Source.lean"))
    tech = "Lean 4 theorems (kernel-checked, axioms audited per theorem) over a model of the code"
    if ties:
        tech += "; source ties: the model's functions proved equal to the meaning, under the interpreter GoSem, of syntax trees regenerated from the Go source on every run"
    if srcl:
        tech += "; source-level theorems: the property stated about that meaning with no model function in the conclusion (Properties/" + pid + "Source.lean)"
    if pid == "C16":
        tech += "; Clone: its body regenerated on every run as a program of the ownership language SJ.Own (tools/extract/clone.go, a printer that refuses anything outside the subset) and the independence theorems proved about that program"
    tech += "; constants, tables, switch case lists and scalar assembly fragments regenerated from the source; differential correspondence of model and implementation (suites: " + ", ".join(cfg["suites"]) + ") with spec oracles, which also searches for a failing input when a tie or proof breaks"
    c["technique"] = tech
json.dump(m, open(p, "w"), indent=1, ensure_ascii=False)
print("MANIFEST.json synced for", len(m["checks"]), "checks")
