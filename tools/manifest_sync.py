#!/usr/bin/env python3
"""manifest_sync.py: rewrite the per-check texts of MANIFEST.json (level_claimed.text, level_note, technique) from
tools/properties.py, so that the manifest, the evidence files and the checks describe the same thing."""
import json, os, sys
ROOT = os.path.dirname(os.path.dirname(os.path.abspath(__file__)))
sys.path.insert(0, os.path.join(ROOT, "tools"))
from properties import PROPS
p = os.path.join(ROOT, "MANIFEST.json")
m = json.load(open(p))
for c in m["checks"]:
    cfg = PROPS[c["property_id"]]
    c["level_claimed"]["category"] = cfg["level"]
    c["level_claimed"]["text"] = cfg["explanation"]
    c["level_note"] = "; ".join(cfg["assumptions"]) or "no additional assumptions"
    c["technique"] = ("Lean 4 theorems over a model regenerated from / tied to the source + differential correspondence (suites: "
                      + ", ".join(cfg["suites"]) + ")")
json.dump(m, open(p, "w"), indent=1, ensure_ascii=False)
print("MANIFEST.json synced for", len(m["checks"]), "checks")
