#!/usr/bin/env python3
"""seedtest.py <seed dir> [--checks C01,C02 | --all] : confirm a seeded change and run the checks against it.
   1. in a scratch worktree: patch applies, builds, the 30 baseline tests still pass, the demo fails with and passes without the patch;
   2. apply to /repo, run the quick checks, undo; record which checks report a VIOLATION."""
import json, os, re, subprocess, sys, shutil, time
ENV = dict(os.environ, GOFLAGS="-mod=mod", GOPROXY="off", GOSUMDB="off", GOTOOLCHAIN="local")
BASE = set(json.load(open("/root/.vp/BASELINE.json"))["stable_pass"])

def sh(cmd, cwd=None, timeout=3600):
    p = subprocess.run(cmd, cwd=cwd, env=ENV, shell=isinstance(cmd, str), stdout=subprocess.PIPE, stderr=subprocess.STDOUT, text=True, errors="replace", timeout=timeout)
    return p.returncode, p.stdout

def baseline(wt):
    rc, out = sh("go test -json -vet=off -count=1 -timeout 25m ./...", cwd=wt)
    passed = set()
    for l in out.split("\n"):
        try: e = json.loads(l)
        except Exception: continue
        if e.get("Action") == "pass" and e.get("Test"):
            passed.add(e["Package"] + "::" + e["Test"])
    return BASE - passed

def main():
    d = os.path.abspath(sys.argv[1])
    checks = None
    if "--checks" in sys.argv:
        checks = sys.argv[sys.argv.index("--checks") + 1].split(",")
    meta = json.load(open(os.path.join(d, "meta.json")))
    prop = meta.get("property", "?")
    res = {"seed": os.path.basename(d), "property": prop}
    wt = "/tmp/wt/verify_" + os.path.basename(d)
    sh(f"git -C /repo worktree remove --force {wt}")
    rc, out = sh(f"git -C /repo worktree add -q --detach {wt} HEAD")
    demo = [f for f in os.listdir(d) if f.endswith("_test.go")]
    try:
        rc, out = sh(f"git apply {d}/patch.diff", cwd=wt)
        res["applies"] = rc == 0
        if rc != 0:
            res["apply_error"] = out[-300:]
        rc, out = sh("go build ./... && go vet . && go build -tags verif ./...", cwd=wt)
        res["builds"] = rc == 0
        missing = baseline(wt)
        res["baseline_missing"] = sorted(missing)
        tags = ""
        for f in demo:
            if "go:build verif" in open(os.path.join(d, f)).read():
                tags = "-tags verif"
            shutil.copy(os.path.join(d, f), wt)
        names = "|".join(sorted(set(re.findall(r"func (Test\w+)\(", "".join(open(os.path.join(d, f)).read() for f in demo)))))
        rc1, o1 = sh(f"go test {tags} -vet=off -count=1 -run '^({names})$' .", cwd=wt, timeout=1800)
        res["demo_fails_with_patch"] = rc1 != 0
        sh(f"git apply -R {d}/patch.diff", cwd=wt)
        rc2, o2 = sh(f"go test {tags} -vet=off -count=1 -run '^({names})$' .", cwd=wt, timeout=1800)
        res["demo_passes_without_patch"] = rc2 == 0
        if rc2 != 0:
            res["demo_clean_output"] = o2[-500:]
    finally:
        sh(f"git -C /repo worktree remove --force {wt}")
    # run checks against the patched tree: either /repo itself (--inplace: apply, run, undo) or, isolated, a copy of
    # /verif whose checks are pointed at a patched scratch worktree (VERIF_REPO), leaving /repo and /verif untouched
    if checks is None:
        checks = [prop]
    caught = {}
    inplace = "--inplace" in sys.argv
    if inplace:
        rc, out = sh(f"git -C /repo status --porcelain")
        if out.strip():
            print("refusing: /repo is not clean"); return 2
        rc, out = sh(f"git -C /repo apply {d}/patch.diff")
        if rc != 0:
            print("apply to /repo failed", out); return 2
        vroot, env_repo = "/verif", "/repo"
    else:
        vroot = "/tmp/verif_seed/" + os.path.basename(d)
        env_repo = "/tmp/wt/patched_" + os.path.basename(d)
        sh(f"git -C /repo worktree remove --force {env_repo}")
        sh(f"git -C /repo worktree add -q --detach {env_repo} HEAD")
        rc, out = sh(f"git apply {d}/patch.diff", cwd=env_repo)
        if rc != 0:
            print("apply failed", out); return 2
        os.makedirs(vroot, exist_ok=True)
        sh(f"rsync -a --delete --exclude .git --exclude replays --exclude seeded --exclude tmp /verif/ {vroot}/")
        sh(f"sed -i 's#=> /repo#=> {env_repo}#' {vroot}/harness/go.mod")
    try:
        for c in checks:
            t0 = time.time()
            evp = f"{vroot}/evidence/{c}.json"
            saved = open(evp).read() if os.path.exists(evp) else None
            p = subprocess.run(f"./check {c} --tier quick", cwd=vroot, env=dict(ENV, VERIF_REPO=env_repo), shell=True,
                               stdout=subprocess.PIPE, stderr=subprocess.STDOUT, text=True, timeout=3600)
            rc, out = p.returncode, p.stdout
            if saved is not None:
                open(evp, "w").write(saved)     # evidence must describe runs on the unchanged tree only
            vio = [l for l in out.split("\n") if l.startswith("VIOLATION")]
            caught[c] = {"rc": rc, "violations": [v.replace(vroot, "/verif") for v in vio[:3]], "s": round(time.time() - t0)}
            try:
                m = re.search(r"replay=(\S+)", vio[0]) if vio else None
                if m:
                    rp = json.load(open(m.group(1)))
                    caught[c]["first"] = {k: (str(rp.get(k))[:300]) for k in ("kind", "suite", "note", "impl", "other", "broken", "detail") if rp.get(k) is not None}
            except Exception as e:
                caught[c]["first"] = {"error": str(e)}
    finally:
        if inplace:
            sh("git -C /repo checkout -- .")
            sh("git -C /repo clean -fdq -e verif_* ")
        else:
            sh(f"git -C /repo worktree remove --force {env_repo}")
            shutil.rmtree(vroot, ignore_errors=True)
    res["mode"] = "inplace" if inplace else "isolated"
    res["checks"] = caught
    res["caught_by"] = [c for c, v in caught.items() if v["rc"] == 1]
    print(json.dumps(res, indent=1))
    json.dump(res, open(os.path.join(d, "result.json"), "w"), indent=1)
    return 0

if __name__ == "__main__":
    sys.exit(main())
