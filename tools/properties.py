"""Per-property configuration of ./check: which correspondence suites decide the property, which failing ops
of a shared suite are attributed to it, and what goes into the evidence."""

COMMON_TB = [
    "Lean 4.33.0 kernel (leanchecker re-checks the compiled proofs in the thorough tier)",
    "axioms allowed in property theorems: propext, Classical.choice, Quot.sound; bv_decide reflection axioms are listed per theorem when present",
    "tools/extract: go/ast constant and table extractor, Plan-9 DATA extractor, straight-line scalar instruction translator",
    "harness/: Go differential driver, generators, reference tape decoder (ref.go), canonicalisers",
    "modelled, not verified: vector instructions (lane contract: bit i of a compare mask is the predicate on byte i), "
    "VPCLMULQDQ by all-ones = prefix xor, _parse_string windowing, strconv.ParseFloat (correct rounding), ryuFtoaShortest "
    "(shortest digits), S2/zstd codecs, runtime.memhash, the Go scheduler and memory model",
]


def P(level, suites, explanation, assumptions, ops_filter=None, extra_tb=None):
    return {"level": level, "suites": suites, "explanation": explanation, "assumptions": assumptions,
            "ops_filter": ops_filter, "trusted_base": COMMON_TB + (extra_tb or [])}


PROPS = {
    "C01": P("proof", ["parse", "numbers"],
             "Table theorems for every validator of the parser (follow set, number runes, hex digits, escapes, stage-1 byte classes) re-checked against "
             "the regenerated tables; executable model of trim/stage 1/index buffers/stage 2 compared with Parse/ParseND on generated, mutated and raw inputs; "
             "the RFC 8259 grammar (Spec.Json, scannerless, exact float finiteness) is the oracle for accept/reject.",
             ["inputs with ill-formed surrogate escapes, non-UTF-8 strings or Unicode white space at the edges are outside the claim (Spec returns `outside`)"]),
    "C02": P("proof", ["parse", "strings", "numeric"],
             "Tape, string buffer and every read API (Interface, ordered walk through Object/Array/Iter, MarshalJSON) compared word for word with the model; "
             "ordered read-back compared with the value Spec.Json denotes (order, duplicates, unescaped strings, number types).",
             ["same exclusions as C01"]),
    "C03": P("proof", ["numbers"],
             "parseNumber model (ParseInt/ParseUint exact, ParseFloat by contract) vs implementation on literals with every follow byte; oracle Spec.numValue in exact arithmetic.",
             ["strconv.ParseFloat is trusted only through the per-case comparison with F64.roundDecimal"]),
    "C04": P("proof", ["strings"],
             "digittoval / escape_map regenerated from the assembly DATA and proved to be the RFC tables; scalar decoder model vs implementation over enumerated escapes, lengths and alignments.",
             ["the 32-byte windowing of the assembly is tied by correspondence only"]),
    "C05": P("proof", ["crash", "blob"],
             "Arithmetic of the sync/async split and the ring proved from regenerated constants; every model loop is structurally or well-foundedly recursive; "
             "robustness run with guard pages, watchdog and goroutine accounting.",
             ["running time and Go stack depth are observed, not proved"]),
    "C06": P("proof", ["kernels"],
             "Scalar fragments of both kernel families regenerated instruction by instruction and proved equal / equal to their specification; whole-block function "
             "assembled from them compared with both real families block by block; whole inputs parsed under both families.",
             ["lane contracts of the vector instructions; CPU without AVX-512 exercises one family only"]),
    "C07": P("proof", ["sched"],
             "Transition system of the ring hand-off; no-overwrite, FIFO refinement and bounds proved for every schedule and every slots/cap with cap+2 ≤ slots; "
             "repository constants regenerated; forced schedules through the hook points, traces replayed through the Lean checker.",
             ["Go channel semantics (FIFO, capacity) as modelled by the send/recv steps"]),
    "C08": P("proof", ["nd"],
             "ParseND model vs implementation; oracle: every non-blank line accepted by the RFC grammar (Spec.ndText).",
             ["same exclusions as C01"]),
    "C09": P("proof", ["stream"],
             "Scripted readers with arbitrary fragmentation, injected errors and reuse; deliveries compared with per-line Parse.",
             ["bufio.Reader, goroutine scheduling"]),
    "C10": P("proof", ["ops", "float"],
             "escapeBytes tables proved; MarshalJSON model (root and inner iterators, Array, Elements) vs implementation; oracle: output is valid JSON, re-parses to the same document "
             "(integers exactly, floats as float64), and is a fixed point.",
             ["a float −0 cannot be a fixed point (known finding)"],
             ops_filter=r"^(marshal|amarshal|emarshal|parse q|parse am|parse em|owalk q|owalk am|owalk em|spec|escape|appendfloat|pjforeach|copyiter cbm)"),
    "C11": P("proof", ["serde"],
             "Serialize/Deserialize model (hash and codecs as parameters) vs implementation over all mode pairs, reused serializers and destinations, edited tapes, >64 KiB streams.",
             ["S2/zstd by contract dec(enc x) = x"]),
    "C12": P("proof", ["numeric", "ops"],
             "Lookup, filtered iteration and bulk accessor models vs implementation; oracles from an independent reference tree and exact big-number arithmetic.",
             ["NaN/Inf floats cannot be parsed and are not exercised through Int/Uint"],
             ops_filter=r"^(findkey|foreach|findpath|findelem|map|parseobj|next|aforeach|firsttype|ainterface|asstring|asfloat|asint|asuint|int|uint|float|interface)"),
    "C13": P("proof", ["ops"],
             "Set* models read their type gates from the extracted switch statements; gates proved to be the documented ones; histories of edits vs model vs reference tree.",
             [], ops_filter=r"^(set|tape|owalk p|type|int |uint |float |str |bool )"),
    "C14": P("proof", ["ops"],
             "DeleteElems/SetNull models vs implementation; after every history all walkers are compared with the reference tree minus the deleted members.",
             [], ops_filter=r"^(delete|adelete|owalk p|setnull|foreach|findkey|aforeach|interface|marshal|amarshal|map|next|wf)"),
    "C15": P("proof", ["reuse", "serde"],
             "The model has no reuse state at all; histories on reused ParsedJson / Serializer / destination must match it call by call; the reset assignments of the entry points are pinned by theorem.",
             []),
    "C16": P("proof", ["alias"],
             "Value-semantics model: scribbling over the input (copy mode) and editing clones; every API re-read.",
             ["Go slice aliasing itself is only observable, not expressible in the model"]),
    "C17": P("proof", ["parse", "serde"],
             "Executable format checker/decoder (decodeTape) run on every tape produced by Parse, ParseND and Deserialize; an independent Go decoder agrees.",
             []),
    "C18": P("proof", ["float"],
             "appendFloat model with an exact shortest-digits contract vs implementation vs encoding/json vs strconv round trip.",
             ["ryuFtoaShortest meets its contract (checked per case, not proved)"]),
    "C19": P("proof", ["blob"],
             "Deserialize reconstruction model with checked tape accesses vs implementation on corrupt sections, mutated and truncated blobs; every accepted result walked.",
             ["declared sizes ≤ 64 KiB in generated blobs (the property's allocatability premise)"]),
    "C20": P("proof", ["conc"],
             "Package-level state, goroutine and pool sites extracted and pinned by theorem; N goroutines on independent objects compared with sequential results (thorough: under -race).",
             ["data-race freedom under the Go memory model is observed with -race, not proved"]),
}
