#!/bin/bash
# seedcollect.sh <id> : copy a seeding agent's deliverables from /tmp/wt/<id> into /verif/seeded/<id>
set -e
id=$1; wt=/tmp/wt/$id; d=/verif/seeded/$id
mkdir -p $d
git -C $wt diff > $d/patch.diff
cp $wt/seed_demo_test.go $d/seed_demo_test.go
cp $wt/SEED_META.json $d/meta.json
wc -l $d/patch.diff
