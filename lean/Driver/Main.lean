import SJ.Model.Marshal
import SJ.Model.Stage2
import SJ.Model.Walk
import SJ.Model.WF
import SJ.Model.WFDense
import SJ.Model.NopExact
import SJ.Model.Stream
import SJ.Model.Serialize
import SJ.Model.SerializeEnc
import SJ.Model.Stage1Bits
import SJ.Model.Pipeline
import SJ.Spec.Json
import Std.Data.HashMap
/-
Line-protocol driver over the executable model (core Lean only).
One request per line on stdin, one reply per line on stdout.
-/
open SJ Std

namespace Driver

def hexDigit (c : Char) : Option UInt8 :=
  if '0' ≤ c ∧ c ≤ '9' then some (c.toNat - 48).toUInt8
  else if 'a' ≤ c ∧ c ≤ 'f' then some (c.toNat - 87).toUInt8
  else if 'A' ≤ c ∧ c ≤ 'F' then some (c.toNat - 55).toUInt8
  else none

/-- "-" is the empty byte string. -/
def unhex (s : String) : Option Bytes := Id.run do
  if s == "-" then return some #[]
  let cs := s.toList
  if cs.length % 2 != 0 then return none
  let mut out : Bytes := Array.mkEmpty (cs.length / 2)
  let mut rest := cs
  while true do
    match rest with
    | a :: b :: r =>
      match hexDigit a, hexDigit b with
      | some x, some y => out := out.push (x * 16 + y); rest := r
      | _, _ => return none
    | _ => break
  return some out

def hexChars : Array Char := "0123456789abcdef".toList.toArray
def hex (b : Bytes) : String :=
  if b.size == 0 then "-" else
  String.ofList (b.foldr (fun (x : UInt8) acc => hexChars[(x >>> 4).toNat]! :: hexChars[(x &&& 15).toNat]! :: acc) [])

def hex64 (w : UInt64) : String :=
  String.ofList ((List.range 16).map (fun i => hexChars[((w >>> (UInt64.ofNat (60 - 4*i))) &&& 15).toNat]!))

def fnvBytes (b : Bytes) : UInt64 :=
  b.foldl (fun h x => (h ^^^ x.toUInt64) * 1099511628211) 14695981039346656037
def fnvWords (t : Array UInt64) : UInt64 :=
  t.foldl (fun h w => Id.run do
    let mut h := h
    for i in [0:8] do
      h := (h ^^^ ((w >>> (UInt64.ofNat (8*i))) &&& 255)) * 1099511628211
    return h) 14695981039346656037

def resStr {α} (r : Res α) (f : α → String) : String :=
  match r with
  | .ok a => f a
  | .error .pathNotFound => "err-path-not-found"
  | .error .eof => "err-eof"
  | .error .generic => "err"
  | .panic => "panic"
  | .diverge => "hang"

partial def ivalStr : IVal → String
  | .null => "null"
  | .bool b => if b then "true" else "false"
  | .int i => s!"i{i}"
  | .uint n => s!"u{n}"
  | .float b => s!"f{hex64 b}"
  | .str s => s!"s{hex s}"
  | .arr l => "[" ++ ",".intercalate (l.map ivalStr) ++ "]"
  | .obj l =>
    let l' := l.toArray.qsort (fun a b => hex a.1 < hex b.1)
    "{" ++ ",".intercalate (l'.toList.map (fun p => s!"{hex p.1}:{ivalStr p.2}")) ++ "}"

partial def ovalStr : OVal → String
  | .null => "null"
  | .bool b => if b then "true" else "false"
  | .int i => s!"i{i}"
  | .uint n => s!"u{n}"
  | .float b f => if f == 0 then s!"f{hex64 b}" else s!"f{hex64 b}!{f}"
  | .str s => s!"s{hex s}"
  | .arr l => "[" ++ ",".intercalate (l.map ovalStr) ++ "]"
  | .obj l => "{" ++ ",".intercalate (l.map (fun p => s!"{hex p.1}:{ovalStr p.2}")) ++ "}"

def specNumStr : Spec.Num → String
  | .int z => s!"i{z}"
  | .uint n => s!"u{n}"
  | .float b fl => if fl then s!"f{hex64 b}!1" else s!"f{hex64 b}"

/-- ordered rendering of a specification value (same syntax as `ovalStr`) -/
partial def specOrdStr : Spec.JVal → String
  | .null => "null"
  | .bool b => if b then "true" else "false"
  | .num n => specNumStr n
  | .str s => s!"s{hex s.toArray}"
  | .arr l => "[" ++ ",".intercalate (l.map specOrdStr) ++ "]"
  | .obj l => "{" ++ ",".intercalate (l.map (fun p => s!"{hex p.1.toArray}:{specOrdStr p.2}")) ++ "}"

/-- `Interface()`-style rendering of a specification value: maps (last wins, sorted), no float flags -/
partial def specIfaceStr : Spec.JVal → String
  | .null => "null"
  | .bool b => if b then "true" else "false"
  | .num (.int z) => s!"i{z}"
  | .num (.uint n) => s!"u{n}"
  | .num (.float b _) => s!"f{hex64 b}"
  | .str s => s!"s{hex s.toArray}"
  | .arr l => "[" ++ ",".intercalate (l.map specIfaceStr) ++ "]"
  | .obj l =>
    let dedup := l.foldl (fun (acc : List (List UInt8 × Spec.JVal)) p => (acc.filter (fun q => q.1 != p.1)) ++ [p]) []
    let l' := dedup.toArray.qsort (fun a b => hex a.1.toArray < hex b.1.toArray)
    "{" ++ ",".intercalate (l'.toList.map (fun p => s!"{hex p.1.toArray}:{specIfaceStr p.2}")) ++ "}"

def jsonTrim (b : Bytes) : Bytes :=
  let l := (b.toList.dropWhile Spec.isWs).reverse.dropWhile Spec.isWs
  l.reverse.toArray

def specVerdict (nd : Bool) (b : Bytes) : Spec.Verdict :=
  if trimSpace b != jsonTrim b then .outside
  else if nd then Spec.ndText b.toList
  else match Spec.containerText b.toList with
    | .accept v => .accept (.arr [v])
    | r => r

structure Store where
  pjs   : HashMap String PJ := {}
  iters : HashMap String (String × Iter) := {}
  views : HashMap String (String × View) := {}
  elems : HashMap String (String × Array View.Elem) := {}

def iterStr (i : Iter) : String := s!"off={i.off} add={i.addNext} cur={hex64 i.cur} t={i.t} lim={i.lim}"

def keysOf (s : String) : Option (List Bytes) :=
  if s == "." then some [] else (s.splitOn ",").mapM unhex

def maskPred (mask : Nat) (k : Nat) : Bool := (mask >>> (k % 62)) % 2 == 1

def step (st : Store) (line : String) : Store × String :=
  let ws := (line.trimAscii.toString.splitOn " ").filter (· ≠ "")
  let withIter (name : String) (f : String → PJ → Iter → Store × String) : Store × String :=
    match st.iters[name]? with
    | none => (st, "bad-ref")
    | some (pn, it) => match st.pjs[pn]? with
      | none => (st, "bad-ref")
      | some pj => f pn pj it
  let withView (name : String) (f : String → PJ → View → Store × String) : Store × String :=
    match st.views[name]? with
    | none => (st, "bad-ref")
    | some (pn, v) => match st.pjs[pn]? with
      | none => (st, "bad-ref")
      | some pj => f pn pj v
  match ws with
  | ["parse", name, nd, copy, h] =>
    match unhex h with
    | none => (st, "bad-op")
    | some b =>
      match parseAny { copyStrings := copy == "1" } (nd == "1") b with
      | .ok pj => ({ st with pjs := st.pjs.insert name pj },
          s!"ok {pj.tape.size} {hex64 (fnvWords pj.tape)} {pj.strings.size} {hex64 (fnvBytes pj.strings)} {pj.msg.size}")
      | r => (st, resStr r (fun _ => ""))
  | ["tape", name] =>
    match st.pjs[name]? with
    | none => (st, "bad-ref")
    | some pj => (st, " ".intercalate (pj.tape.toList.map hex64) ++ " | " ++ hex pj.strings)
  | ["tapehash", name] =>
    match st.pjs[name]? with
    | none => (st, "bad-ref")
    | some pj => (st, s!"{pj.tape.size} {hex64 (fnvWords pj.tape)} {pj.strings.size} {hex64 (fnvBytes pj.strings)}")
  | ["iter", it, pn] =>
    match st.pjs[pn]? with
    | none => (st, "bad-ref")
    | some pj => ({ st with iters := st.iters.insert it (pn, Iter.ofPJ pj) }, "ok")
  | ["copyiter", dst, src] =>
    match st.iters[src]? with
    | none => (st, "bad-ref")
    | some v => ({ st with iters := st.iters.insert dst v }, "ok")
  | ["advance", it] => withIter it fun pn pj i =>
    match i.advance pj with
    | .ok (i', ty) => ({ st with iters := st.iters.insert it (pn, i') }, s!"{ty}")
    | r => (st, resStr r (fun _ => ""))
  | ["advinto", it] => withIter it fun pn pj i =>
    match i.advanceInto pj with
    | .ok (i', tg) => ({ st with iters := st.iters.insert it (pn, i') }, s!"{tg}")
    | r => (st, resStr r (fun _ => ""))
  | ["adviter", it, dst] => withIter it fun pn pj i =>
    let d0 := match st.iters[dst]? with | some (_, d) => d | none => default
    if it == dst then
      match i.advanceIter pj i with
      | .ok (i2, d, ty) =>
        ({ st with iters := st.iters.insert it (pn, if ty == Generated.typeNone then i2 else d) }, s!"{ty}")
      | r => (st, resStr r (fun _ => ""))
    else
    match i.advanceIter pj d0 with
    | .ok (i2, d, ty) =>
      let its := st.iters.insert it (pn, i2)
      let its := if ty == Generated.typeNone then its else its.insert dst (pn, d)
      ({ st with iters := its }, s!"{ty}")
    | r => (st, resStr r (fun _ => ""))
  | ["peektag", it] => withIter it fun _ pj i => (st, resStr (i.peekNextTag pj) toString)
  | ["peek", it] => withIter it fun _ pj i => (st, resStr (i.peekNext pj) toString)
  | ["type", it] => withIter it fun _ _ i => (st, toString i.type)
  | ["iterstate", it] => withIter it fun _ _ i => (st, iterStr i)
  | ["str", it] => withIter it fun _ pj i => (st, resStr (i.stringBytes pj) hex)
  | ["int", it] => withIter it fun _ pj i => (st, resStr (i.int pj) toString)
  | ["uint", it] => withIter it fun _ pj i => (st, resStr (i.uint pj) toString)
  | ["float", it] => withIter it fun _ pj i => (st, resStr (i.float pj) hex64)
  | ["floatflags", it] => withIter it fun _ pj i => (st, resStr (i.floatFlags pj) (fun p => s!"{hex64 p.1} {p.2}"))
  | ["bool", it] => withIter it fun _ _ i => (st, resStr i.bool (fun b => if b then "1" else "0"))
  | ["interface", it] => withIter it fun _ pj i => (st, resStr (i.interface pj (fuelOf pj)) ivalStr)
  | ["marshal", it] => withIter it fun _ pj i => (st, resStr (i.marshal pj) hex)
  | ["root", dst, it] => withIter it fun pn pj i =>
    match i.root pj with
    | .ok (ty, d) => ({ st with iters := st.iters.insert dst (pn, d) }, s!"{ty}")
    | r => (st, resStr r (fun _ => ""))
  | ["object", o, it] => withIter it fun pn _ i =>
    match i.object with
    | .ok v => ({ st with views := st.views.insert o (pn, v) }, "ok")
    | r => (st, resStr r (fun _ => ""))
  | ["array", a, it] => withIter it fun pn _ i =>
    match i.array with
    | .ok v => ({ st with views := st.views.insert a (pn, v) }, "ok")
    | r => (st, resStr r (fun _ => ""))
  | ["arrayiter", it, a] => withView a fun pn _ v =>
    ({ st with iters := st.iters.insert it (pn, v.iter) }, "ok")
  | ["next", o, dst] => withView o fun pn pj v =>
    match v.nextElementBytes pj (fuelOf pj) with
    | .ok (v', none) => ({ st with views := st.views.insert o (pn, v') }, "none")
    | .ok (v', some (name, d, ty)) =>
      if ty == Generated.typeNone then ({ st with views := st.views.insert o (pn, v') }, "none") else
      ({ st with views := st.views.insert o (pn, v'), iters := st.iters.insert dst (pn, d) }, s!"{hex name} {ty}")
    | r => (st, resStr r (fun _ => ""))
  | ["map", o] => withView o fun _ pj v =>
    (st, resStr (View.objMap pj v [] (fuelOf pj)) (fun m => ivalStr (.obj m)))
  | ["parseobj", es, o] => withView o fun pn pj v =>
    match v.parse pj #[] (fuelOf pj) with
    | .ok arr => ({ st with elems := st.elems.insert es (pn, arr) },
        "ok " ++ ",".intercalate (arr.toList.map (fun e => s!"{hex e.name}:{e.type}")))
    | r => (st, resStr r (fun _ => ""))
  | ["elemiter", dst, es, k] =>
    match st.elems[es]?, k.toNat? with
    | some (pn, arr), some k =>
      match arr[k]? with
      | some e => ({ st with iters := st.iters.insert dst (pn, e.iter) }, "ok")
      | none => (st, "bad-ref")
    | _, _ => (st, "bad-ref")
  | ["elemset", es, k, kind, v] =>
    -- an edit through the element's own iterator (`es.Elements[k].Iter.SetBool(…)`): tape and that iterator change,
    -- the element's recorded Type does not
    match st.elems[es]?, k.toNat? with
    | some (pn, arr), some k =>
      match arr[k]?, st.pjs[pn]? with
      | some e, some pj =>
        let r : Res (PJ × Iter) :=
          if kind == "bool" then e.iter.setBool pj (v == "1")
          else if kind == "null" then e.iter.setNull pj
          else match v.toInt? with
            | some z => e.iter.setInt pj z
            | none => .error .generic
        match r with
        | .ok (pj', i') =>
          ({ st with pjs := st.pjs.insert pn pj', elems := st.elems.insert es (pn, arr.set! k { e with iter := i' }) }, "ok")
        | r => (st, resStr r (fun _ => ""))
      | _, _ => (st, "bad-ref")
    | _, _ => (st, "bad-ref")
  | ["emarshal", es] =>
    match st.elems[es]? with
    | none => (st, "bad-ref")
    | some (pn, arr) => match st.pjs[pn]? with
      | none => (st, "bad-ref")
      | some pj => (st, resStr (View.elemsMarshal pj arr) hex)
  | ["findkey", o, key, dst] => withView o fun pn pj v =>
    match unhex key with
    | none => (st, "bad-op")
    | some k =>
      match View.findKey pj k v.iter (fuelOf pj) with
      | .ok none => (st, "nil")
      | .ok (some (ty, d)) => ({ st with iters := st.iters.insert dst (pn, d) }, s!"{ty}")
      | r => (st, resStr r (fun _ => ""))
  | ["foreach", o, keys] => withView o fun pn pj v =>
    match keysOf keys with
    | none => (st, "bad-op")
    | some ks =>
      match View.forEach pj ks v.iter 0 #[] (fuelOf pj) with
      | .ok cbs =>
        let its := (List.range cbs.size).foldl (fun m k => m.insert s!"cb{k}" (pn, cbs[k]!.2)) st.iters
        ({ st with iters := its }, "ok " ++ ",".intercalate (cbs.toList.map (fun p => s!"{hex p.1}:{p.2.t}:{p.2.off}")))
      | r => (st, resStr r (fun _ => ""))
  | ["delete", o, mask, keys] => withView o fun pn pj v =>
    match keysOf keys, mask.toNat? with
    | some ks, some mk =>
      match View.deleteElems pj (fun k _ => maskPred mk k) ks v.iter 0 #[] (fuelOf pj) with
      | .ok (pj', cbs) => ({ st with pjs := st.pjs.insert pn pj' },
          "ok " ++ ",".intercalate (cbs.toList.map (fun p => s!"{hex p.1}:{p.2.t}:{p.2.off}")))
      | r => (st, resStr r (fun _ => ""))
    | _, _ => (st, "bad-op")
  | "findpath" :: o :: dst :: path => withView o fun pn pj v =>
    match path.mapM unhex with
    | none => (st, "bad-op")
    | some p =>
      match View.findPathTop pj v p with
      | .ok (ty, d) => ({ st with iters := st.iters.insert dst (pn, d) }, s!"{ty}")
      | r => (st, resStr r (fun _ => ""))
  | "findelem" :: it :: dst :: path => withIter it fun pn pj i =>
    match path.mapM unhex with
    | none => (st, "bad-op")
    | some p =>
      match Iter.findElement pj p i (fuelOf pj) with
      | .ok (ty, d) => ({ st with iters := st.iters.insert dst (pn, d) }, s!"{ty}")
      | r => (st, resStr r (fun _ => ""))
  | ["aforeach", a] => withView a fun pn pj v =>
    match View.arrForEach pj v.iter #[] (fuelOf pj) with
    | .ok cbs =>
      let its := (List.range cbs.size).foldl (fun m k => m.insert s!"cb{k}" (pn, cbs[k]!)) st.iters
      ({ st with iters := its }, "ok " ++ ",".intercalate (cbs.toList.map (fun i => s!"{i.t}:{i.off}")))
    | r => (st, resStr r (fun _ => ""))
  | ["pjforeach", pn] =>
    match st.pjs[pn]? with
    | none => (st, "bad-ref")
    | some pj =>
      match pjForEach pj (Iter.ofPJ pj) #[] (fuelOf pj) with
      | .ok cbs =>
        let its := (List.range cbs.size).foldl (fun m k => m.insert s!"cb{k}" (pn, cbs[k]!)) st.iters
        ({ st with iters := its }, s!"ok {cbs.size}")
      | r => (st, resStr r (fun _ => ""))
  | ["adelete", a, mask] => withView a fun pn pj v =>
    match mask.toNat? with
    | none => (st, "bad-op")
    | some mk =>
      match View.arrDeleteElems pj (maskPred mk) v.iter 0 #[] (fuelOf pj) with
      | .ok (pj', cbs) => ({ st with pjs := st.pjs.insert pn pj' },
          "ok " ++ ",".intercalate (cbs.toList.map (fun i => s!"{i.t}:{i.off}")))
      | r => (st, resStr r (fun _ => ""))
  | ["firsttype", a] => withView a fun _ pj v => (st, resStr (View.firstType pj v) toString)
  | ["asfloat", a] => withView a fun _ pj v =>
    (st, resStr (View.asNum pj .asFloat v #[] (fuelOf pj)) (fun r => "ok " ++ ",".intercalate (r.toList.map hex64)))
  | ["asint", a] => withView a fun _ pj v =>
    (st, resStr (View.asNum pj .asInteger v #[] (fuelOf pj)) (fun r => "ok " ++ ",".intercalate (r.toList.map hex64)))
  | ["asuint", a] => withView a fun _ pj v =>
    (st, resStr (View.asNum pj .asUint64 v #[] (fuelOf pj)) (fun r => "ok " ++ ",".intercalate (r.toList.map hex64)))
  | ["asstring", a] => withView a fun _ pj v =>
    (st, resStr (View.asString pj v.iter #[] (fuelOf pj)) (fun r => "ok " ++ ",".intercalate (r.toList.map hex)))
  | ["amarshal", a] => withView a fun _ pj v => (st, resStr (View.arrMarshal pj v) hex)
  | ["ainterface", a] => withView a fun _ pj v => (st, resStr (View.arrInterface pj v.iter [] (fuelOf pj)) ivalStr)
  | ["setint", it, v] => withIter it fun pn pj i =>
    match v.toInt? with
    | none => (st, "bad-op")
    | some z => match i.setInt pj z with
      | .ok (pj', i') => ({ st with pjs := st.pjs.insert pn pj', iters := st.iters.insert it (pn, i') }, "ok")
      | r => (st, resStr r (fun _ => ""))
  | ["setuint", it, v] => withIter it fun pn pj i =>
    match v.toNat? with
    | none => (st, "bad-op")
    | some n => match i.setUInt pj (UInt64.ofNat n) with
      | .ok (pj', i') => ({ st with pjs := st.pjs.insert pn pj', iters := st.iters.insert it (pn, i') }, "ok")
      | r => (st, resStr r (fun _ => ""))
  | ["setfloat", it, v] => withIter it fun pn pj i =>
    match unhex v with
    | some b =>
      if b.size != 8 then (st, "bad-op") else
      let bits := b.foldl (fun acc x => acc * 256 + x.toUInt64) 0
      match i.setFloat pj bits with
      | .ok (pj', i') => ({ st with pjs := st.pjs.insert pn pj', iters := st.iters.insert it (pn, i') }, "ok")
      | r => (st, resStr r (fun _ => ""))
    | none => (st, "bad-op")
  | ["setstr", it, v] => withIter it fun pn pj i =>
    match unhex v with
    | none => (st, "bad-op")
    | some b => match i.setStringBytes pj b with
      | .ok (pj', i') => ({ st with pjs := st.pjs.insert pn pj', iters := st.iters.insert it (pn, i') }, "ok")
      | r => (st, resStr r (fun _ => ""))
  | ["setbool", it, v] => withIter it fun pn pj i =>
    match i.setBool pj (v == "1") with
    | .ok (pj', i') => ({ st with pjs := st.pjs.insert pn pj', iters := st.iters.insert it (pn, i') }, "ok")
    | r => (st, resStr r (fun _ => ""))
  | ["setnull", it] => withIter it fun pn pj i =>
    match i.setNull pj with
    | .ok (pj', i') => ({ st with pjs := st.pjs.insert pn pj', iters := st.iters.insert it (pn, i') }, "ok")
    | r => (st, resStr r (fun _ => ""))
  | ["clone", dst, src] =>
    match st.pjs[src]? with
    | none => (st, "bad-ref")
    | some pj => ({ st with pjs := st.pjs.insert dst pj }, "ok")
  | ["clone", dst, src, _] =>     -- the destination object offered to Clone does not matter
    match st.pjs[src]? with
    | none => (st, "bad-ref")
    | some pj => ({ st with pjs := st.pjs.insert dst pj }, "ok")
  | ["scribble", pn] =>
    match st.pjs[pn]? with
    | none => (st, "bad-ref")
    | some pj => ({ st with pjs := st.pjs.insert pn { pj with msg := pj.msg.map (fun _ => 0xff) } }, "ok")
  | ["reset"] => ({}, "ok")
  | ["mode", _] => (st, "ok")   -- harness-side execution mode (destination reuse); the model has no destinations
  | ["chunks", fin, lens, h] =>
    match unhex h with
    | some b =>
      let ls := (lens.splitOn ",").filterMap String.toNat?
      let data := b.toList
      let (reads, _) := ls.foldl (fun (acc : List (List UInt8) × List UInt8) n => (acc.1 ++ [acc.2.take n], acc.2.drop n)) ([], data)
      let (cs, f) := Stream.run (reads.filter (· ≠ [])) (if fin == "eof" then .eof else .fail)
      (st, s!"chunks {if f == .eof then "eof" else "fail"} {if cs.isEmpty then "-" else ",".intercalate (cs.map (fun c => toString c.length))}")
    | none => (st, "bad-op")
  | ["sched", slots, trace] =>
    match slots.toNat? with
    | some sl =>
      (st, match Pipeline.replayAR sl trace.toList with
        | .ok (k, n) => s!"accepted acquired={k} released={n}"
        | .error k => s!"rejected@{k}")
    | none => (st, "bad-op")
  | ["block", fam, h, po, pq, er, pp] =>
    match unhex h, po.toNat?, pq.toNat?, er.toNat?, pp.toNat? with
    | some b, some po, some pq, some er, some pp =>
      let (stv, c) := blockStep (fam == "512") false b
        { prevOdd := BitVec.ofNat 64 po, prevInQuote := BitVec.ofNat 64 pq, errMask := BitVec.ofNat 64 er, prevPseudo := BitVec.ofNat 64 pp }
      (st, s!"{stv.toNat} {c.prevOdd.toNat} {c.prevInQuote.toNat} {c.errMask.toNat} {c.prevPseudo.toNat}")
    | _, _, _, _, _ => (st, "bad-op")
  | ["kernels", fam, h, po, pq] =>
    match unhex h, po.toNat?, pq.toNat? with
    | some b, some po, some pq =>
      let k := kernels (fam == "512") b (BitVec.ofNat 64 po) (BitVec.ofNat 64 pq) 0
      (st, s!"{k.oddEnds.toNat} {k.prevOdd.toNat} {k.quoteMask.toNat} {k.quoteBits.toNat} {k.errMask.toNat} {k.prevInQuote.toNat} {k.whitespace.toNat} {k.structurals.toNat}")
    | _, _, _ => (st, "bad-op")
  | ["blockscan", fam, nd, h] =>
    match unhex h with
    | some b =>
      let msg := trimSpace b
      let (idx, c) := blocksScan (fam == "512") (nd == "1") msg
      let (s1, idx1) := s1Scan (nd == "1") msg
      (st, s!"{idx == idx1} {c.errMask != 0} {c.prevInQuote != 0} {s1.err} {s1.inQuote} {idx.size}")
    | none => (st, "bad-op")
  | ["wf", pn] =>
    match st.pjs[pn]? with
    | none => (st, "bad-ref")
    | some pj => (st, match decodeTapeD pj with | some d => "wf " ++ ovalStr (.arr d) | none => "malformed")
  | ["nopsexact", pn] =>
    match st.pjs[pn]? with
    | none => (st, "bad-ref")
    | some pj => (st, match nopsExact pj with | none => "exact" | some j => s!"inexact {j}")
  | ["serde", dst, src] =>
    match st.pjs[src]? with
    | none => (st, "bad-ref")
    | some pj =>
      let r : Res PJ := do
        let sec ← serialize pj (fun b => (fnvBytes b).toNat)
        deserializeSections sec (Array.replicate sec.tapeSize 0)
      match r with
      | .ok pj' => ({ st with pjs := st.pjs.insert dst pj' }, s!"ok {pj'.tape.size}")
      | r => (st, resStr r (fun _ => ""))
  | ["deser", dst, ts, strs, msg, tags, vals] =>
    match ts.toNat?, unhex strs, unhex msg, unhex tags, unhex vals with
    | some n, some s, some m, some t, some v =>
      match deserializeSections { tapeSize := n, strings := s, msg := m, tags := t, values := v } (Array.replicate n 0) with
      | .ok pj' => ({ st with pjs := st.pjs.insert dst pj' }, s!"ok {pj'.tape.size} {hex64 (fnvWords pj'.tape)}")
      | r => (st, resStr r (fun _ => ""))
    | _, _, _, _, _ => (st, "bad-op")
  | ["reencode", blob] =>
    -- an uncompressed serialized object must be exactly what the encoder model writes for its own sections
    match unhex blob with
    | none => (st, "bad-op")
    | some b =>
      match sectionsOfRaw b with
      | none => (st, "not-raw")
      | some sec => (st, if sec.strings.size == 0 ∧ encodeSections blkRaw sec == b then "same" else "differs")
  | ["deserraw", dst, blob] =>
    match unhex blob with
    | none => (st, "bad-op")
    | some b =>
      match deserialize (fun _ _ _ => none) b #[] with
      | .ok pj' => ({ st with pjs := st.pjs.insert dst pj' }, s!"ok {pj'.tape.size} {hex64 (fnvWords pj'.tape)}")
      | r => (st, resStr r (fun _ => ""))
  | ["owalk", pn] =>
    match st.pjs[pn]? with
    | none => (st, "bad-ref")
    | some pj => (st, resStr (owalk pj) (fun l => ovalStr (.arr l)))
  | ["spec", nd, h] =>
    match unhex h with
    | none => (st, "bad-op")
    | some b => (st, match specVerdict (nd == "1") b with
        | .accept v => "accept " ++ specOrdStr v
        | .reject => "reject"
        | .outside => "outside")
  | ["speciface", nd, h] =>
    match unhex h with
    | none => (st, "bad-op")
    | some b => (st, match specVerdict (nd == "1") b with
        | .accept v => "accept " ++ specIfaceStr v
        | .reject => "reject"
        | .outside => "outside")
  | ["appendfloat", h] =>
    match unhex h with
    | some b =>
      if b.size != 8 then (st, "bad-op") else
      let bits := b.foldl (fun acc x => acc * 256 + x.toUInt64) 0
      (st, match FloatFmt.appendFloat bits with | some o => hex o | none => "err")
    | none => (st, "bad-op")
  | ["parsenumber", h] =>
    match unhex h with
    | some b => (st, match parseNumber b 0 with | some (t, v) => s!"{hex64 t} {hex64 v}" | none => "fail")
    | none => (st, "bad-op")
  | ["escape", h] =>
    match unhex h with
    | some b => (st, hex (escapeBytes #[] b))
    | none => (st, "bad-op")
  | ["stage1", nd, h] =>
    match unhex h with
    | some b =>
      let msg := trimSpace b
      (st, match stage1 (nd == "1") msg with
        | some idx => "ok " ++ ";".intercalate ((rounds msg idx).toList.map (fun r => ",".intercalate (r.toList.map toString)))
        | none => "fail")
    | none => (st, "bad-op")
  | _ => (st, "bad-op")

partial def loop (h : IO.FS.Stream) (out : IO.FS.Stream) (st : Store) : IO Unit := do
  let line ← h.getLine
  if line.isEmpty then return ()
  let (st', o) := step st line
  out.putStrLn o
  out.flush
  loop h out st'

end Driver

def main : IO Unit := do
  Driver.loop (← IO.getStdin) (← IO.getStdout) {}
