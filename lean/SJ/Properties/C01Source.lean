import SJ.Properties.C01
import SJ.Proofs.SourceLevelD
set_option linter.unusedVariables false
/-
C01 — source level. The theorems of Properties/C01.lean composed with the source ties of DESIGN §6.3: each statement
below is about the MEANING OF THE REGENERATED GO SOURCE (`GoSem.runFun goFuns <tree> fuel ⟨store, tape⟩`), with no
function of the hand model in its conclusion. Proofs: SJ/Proofs/SourceLevelA.lean, SourceLevelB.lean.
-/
namespace SJ.Properties.C01

open SJ.Generated SJ.GoSem SJ.GoIter SJ.Layout SJ.SourceLevelD SJ.Tables SJ.TokenSim SJ.NumberProofs SJ.GoNumber in
/-- **`isValidTrueAtom`, source level.**  Running the regenerated `isValidTrueAtom(buf)` (`parse_json_amd64.go`: the
    little-endian 32-bit load compared with `0x65757274`, the length guard, the look-up of the fifth byte in
    `isValidFollow…`) on ANY buffer returns a boolean, and `true` exactly when the buffer starts with the four bytes `true`
    followed by one of the ten bytes that may end a value — the six structural characters `, : [ ] { }` and the four JSON
    white-space characters (`followSet`; in particular not NUL, not a letter, and not the end of the buffer: on fewer than
    five bytes the function returns `false`).  Every fuel, every tape; the tape is untouched.  The tie has no hypothesis. -/
theorem C01_source_trueAtom_iff (b : Bytes) (fuel : Nat) (tape : Array UInt64) :
    ∃ r s, runFun goFuns goisValidTrueAtom fuel ⟨[("buf", .bytes b)], tape⟩ = .ret s [.bool r] ∧ s.tape = tape ∧
      (r = true ↔ ∃ c rest, b.toList = 116 :: 114 :: 117 :: 101 :: c :: rest ∧ followSet c = true) :=
  SJ.SourceLevelD.C01_source_trueAtom_iff b fuel tape

open SJ.Generated SJ.GoSem SJ.GoIter SJ.Layout SJ.SourceLevelD SJ.Tables SJ.TokenSim SJ.NumberProofs SJ.GoNumber in
/-- **`isValidNullAtom`, source level**: `true` exactly when the buffer starts with `null` followed by one of the ten
    follow bytes (as `C01_source_trueAtom_iff`). -/
theorem C01_source_nullAtom_iff (b : Bytes) (fuel : Nat) (tape : Array UInt64) :
    ∃ r s, runFun goFuns goisValidNullAtom fuel ⟨[("buf", .bytes b)], tape⟩ = .ret s [.bool r] ∧ s.tape = tape ∧
      (r = true ↔ ∃ c rest, b.toList = 110 :: 117 :: 108 :: 108 :: c :: rest ∧ followSet c = true) :=
  SJ.SourceLevelD.C01_source_nullAtom_iff b fuel tape

open SJ.Generated SJ.GoSem SJ.GoIter SJ.Layout SJ.SourceLevelD SJ.Tables SJ.TokenSim SJ.NumberProofs SJ.GoNumber in
/-- **`isValidFalseAtom`, source level**: `true` exactly when the buffer starts with the five bytes `false` followed by one
    of the ten follow bytes — on both paths of the Go function (the masked 64-bit load when at least eight bytes are left,
    the byte-wise comparison `bytes.Equal(buf[:5], "false")` on six or seven; `false` on fewer than six). -/
theorem C01_source_falseAtom_iff (b : Bytes) (fuel : Nat) (tape : Array UInt64) :
    ∃ r s, runFun goFuns goisValidFalseAtom fuel ⟨[("buf", .bytes b)], tape⟩ = .ret s [.bool r] ∧ s.tape = tape ∧
      (r = true ↔ ∃ c rest, b.toList = 102 :: 97 :: 108 :: 115 :: 101 :: c :: rest ∧ followSet c = true) :=
  SJ.SourceLevelD.C01_source_falseAtom_iff b fuel tape

open SJ.Generated SJ.GoSem SJ.GoIter SJ.Layout SJ.SourceLevelD SJ.Tables SJ.TokenSim SJ.NumberProofs SJ.GoNumber in
/-- **`parseNumber` accepts exactly the RFC 8259 numbers, source level** (`C01_number_iff` on the source).  For every buffer
    whose first byte is `-` or a digit (the only ones the stage-2 dispatcher hands over), running the regenerated
    `parseNumber(buf)` (`parse_number_amd64.go`) returns two words, and
    * it returns a NON-ZERO tag `id` with value word `val` exactly when the RFC number grammar reads a literal `l` off the
      front of the buffer (`Spec.numberLit`), what follows is the end of the buffer or an end-of-value byte (`Stop`), the
      literal has a finite value `n` (`Spec.numValue`: int64, else uint64, else the correctly rounded float64) and
      `(id, val)` is the encoding of `n`;
    * it returns tag 0 (which the caller turns into a parse error) exactly when there is no such literal — no literal at
      all, a literal followed by a byte that cannot end a value, or a literal that rounds to ±Inf.
    Every fuel, every tape; the tape is untouched.  The tie has no hypothesis; `NumStart` is the property's. -/
theorem C01_source_number_iff (b : Bytes) (hstart : NumStart b.toList) (fuel : Nat) (tape : Array UInt64) :
    (∃ s id val, runFun goFuns goparseNumber fuel ⟨[("buf", .bytes b)], tape⟩ = .ret s [.u64 id, .u64 val] ∧
      s.tape = tape) ∧
    (∀ id val, id ≠ 0 →
      ((∃ s, runFun goFuns goparseNumber fuel ⟨[("buf", .bytes b)], tape⟩ = .ret s [.u64 id, .u64 val]) ↔
        ∃ l r n, Spec.numberLit b.toList = some (l, r) ∧ Stop r ∧ Spec.numValue l = some n ∧ encode n = (id, val))) ∧
    ((∃ s, runFun goFuns goparseNumber fuel ⟨[("buf", .bytes b)], tape⟩ = .ret s [.u64 0, .u64 0]) ↔
      ¬ ∃ l r n, Spec.numberLit b.toList = some (l, r) ∧ Stop r ∧ Spec.numValue l = some n) :=
  SJ.SourceLevelD.C01_source_number_iff b hstart fuel tape

end SJ.Properties.C01
