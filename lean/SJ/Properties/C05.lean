import SJ.Generated.Consts
import SJ.Proofs.ParseWF
import SJ.Proofs.Pipeline
import SJ.Proofs.WalkSafe
import SJ.Proofs.Rebuild
/-
C05 — No input can crash, hang or produce an untraversable result.
-/
namespace SJ.Properties.C05
open SJ.Generated

/-- an upper bound on the number of index buffers stage 1 sends for `len` input bytes: a buffer is closed only
    after at least `closeAt/64` blocks (each block yields at most 64 indexes) -/
def maxSends (len : Nat) : Nat := (len + 63) / 64 / (cindexSizeWithSafetyBuffer / 64) + 1

/-- Inputs up to the sync threshold are parsed on one goroutine: stage 1 runs to completion before stage 2
    starts, so every buffer and the terminator must fit the channel. They do. -/
theorem C05_sync_capacity (len : Nat) (h : len ≤ csyncThreshold) : maxSends len + 1 ≤ cchanCap := by
  simp only [maxSends, csyncThreshold, cindexSizeWithSafetyBuffer, cchanCap] at *
  omega

/-- The bound breaks between a 16 KiB and a 32 KiB threshold (why the constant matters). -/
theorem C05_sync_capacity_tight : maxSends (32 * 1024) + 1 > cchanCap := by decide

/-- In the concurrent path no reachable state of the hand-off protocol has a buffer overwritten under the
    consumer (shared with C07). -/
theorem C05_ring_safe (evs : List SJ.Pipeline.Ev) (s : SJ.Pipeline.St)
    (hr : SJ.Pipeline.run SJ.Pipeline.repoCfg {} evs = some s) : SJ.Pipeline.Safe SJ.Pipeline.repoCfg s :=
  SJ.Pipeline.safe_of_inv (SJ.Pipeline.inv_run _ (by decide) evs {} s (SJ.Pipeline.inv_init _) hr)

open SJ SJ.WalkSafe

/-- **Every traversal terminates without panic on ANY tape** (no well-formedness assumed): the basic walkers … -/
theorem C05_advance (pj : PJ) (i : Iter) (hv : Iter.Valid pj i) : OkOrErr (Iter.advance pj i) := by
  obtain ⟨i', ty, h, _⟩ := advance_safe pj i hv; exact Or.inl ⟨_, h⟩
theorem C05_advanceInto (pj : PJ) (i : Iter) (hv : Iter.Valid pj i) : OkOrErr (Iter.advanceInto pj i) := by
  obtain ⟨i', ty, h, _⟩ := advanceInto_safe pj i hv; exact Or.inl ⟨_, h⟩
theorem C05_advanceIter (pj : PJ) (i d : Iter) (hv : Iter.Valid pj i) : OkOrErr (Iter.advanceIter pj i d) :=
  (advanceIter_safe pj i d hv).1
/-- … marshalling, `Interface`, `Object.Parse`/`Map`, and the whole ordered read-back. `OkOrErr` excludes both
    `.panic` and `.diverge` (fuel exhausted = the Go loop would still be running). -/
theorem C05_marshal (pj : PJ) (i : Iter) (dst : Bytes) (hv : Iter.Valid pj i) : OkOrErr (Iter.marshalBuf pj i dst) :=
  marshalBuf_safe pj i dst hv
theorem C05_interface (pj : PJ) (i : Iter) (hv : Iter.Valid pj i) : OkOrErr (Iter.interface pj i (fuelOf pj)) :=
  interface_safe pj i hv
theorem C05_object_parse (pj : PJ) (o : View) (hl : o.lim ≤ pj.tape.size) : OkOrErr (View.parse pj o #[] (fuelOf pj)) :=
  parse_safe pj o hl
theorem C05_owalk (pj : PJ) : OkOrErr (owalk pj) := owalk_safe pj
/-- a fresh iterator is valid -/
theorem C05_iter_valid (pj : PJ) : Iter.Valid pj (Iter.ofPJ pj) := ofPJ_valid pj
/-- room for one more block and the tail block in every index buffer -/
theorem C05_buffer_bound : cindexSizeWithSafetyBuffer + 64 + 64 ≤ cindexSize := by decide


open SJ.ParseDefs in
/-- On every result `Parse`/`ParseND` returns, the complete ordered traversal (ForEach over roots, arrays by
    Advance, objects by NextElementBytes, typed accessors at the leaves) terminates without panic and without
    error. (For arbitrary tapes — e.g. after Deserialize of corrupt bytes — `WalkSafe` gives no-panic/termination.) -/
theorem C05_parse_then_walk (cfg : Cfg) (nd : Bool) (input : Bytes) (pj : PJ) (hsz : SizeOK (trimSpace input))
    (h : parseAny cfg nd input = .ok pj) : ∃ ds, owalk pj = .ok ds := by
  obtain ⟨_, _, _, _, _, _, ⟨ds, hd, _⟩, _⟩ := SJ.ParseWF.parse_wf cfg nd input pj hsz h
  exact ⟨ds, hd⟩


open SJ.ParseDefs in
/-- `Parse` / `ParseND` of the model return a result or an error for every input: the two outcomes "panic" and
    "does not terminate", which the model can express, do not occur. -/
theorem C05_parse_total (cfg : Cfg) (nd : Bool) (input : Bytes) : (parseAny cfg nd input).safe = true := by
  rw [parseAny_eq]
  cases parseMsg cfg nd (trimSpace input) <;> rfl

end SJ.Properties.C05
