import SJ.Generated.Consts
import SJ.Proofs.Pipeline
/-
C05 — No input can crash, hang or produce an untraversable result.
-/
namespace SJ.Properties.C05
open SJ.Generated

/-- an upper bound on the number of index buffers stage 1 sends for `len` input bytes: a buffer is closed only
    after at least `closeAt/64` blocks (each block yields at most 64 indexes) -/
def maxSends (len : Nat) : Nat := (len + 63) / 64 / (cindexSizeWithSafetyBuffer / 64) + 1

/-- Inputs up to the sync threshold are parsed on one goroutine: stage 1 runs to completion before stage 2
    starts, so every buffer and the terminator must fit the channel. They do. -/
theorem C05_sync_capacity (len : Nat) (h : len ≤ csyncThreshold) : maxSends len + 1 ≤ cchanCap := by
  simp only [maxSends, csyncThreshold, cindexSizeWithSafetyBuffer, cchanCap] at *
  omega

/-- The bound breaks between a 16 KiB and a 32 KiB threshold (why the constant matters). -/
theorem C05_sync_capacity_tight : maxSends (32 * 1024) + 1 > cchanCap := by decide

/-- In the concurrent path no reachable state of the hand-off protocol has a buffer overwritten under the
    consumer (shared with C07). -/
theorem C05_ring_safe (evs : List SJ.Pipeline.Ev) (s : SJ.Pipeline.St)
    (hr : SJ.Pipeline.run SJ.Pipeline.repoCfg {} evs = some s) : SJ.Pipeline.Safe SJ.Pipeline.repoCfg s :=
  SJ.Pipeline.safe_of_inv (SJ.Pipeline.inv_run _ (by decide) evs {} s (SJ.Pipeline.inv_init _) hr)

end SJ.Properties.C05
