import SJ.Generated.Consts
/-
C16 — Copied strings decouple results from the input buffer; Clone is independent.
-/
namespace SJ.Properties.C16
open SJ.Generated

/-- A string payload refers to the string buffer iff bit 55 is set; offsets use the low 55 bits. -/
theorem C16_string_flag : cSTRINGBUFBIT = 2^55 ∧ cSTRINGBUFMASK = cSTRINGBUFBIT - 1 := by decide

end SJ.Properties.C16
