import SJ.Generated.Consts
import SJ.Proofs.CopyIndep
/-
C16 — Copied strings decouple results from the input buffer; Clone is independent.
-/
namespace SJ.Properties.C16
open SJ.Generated

/-- A string payload refers to the string buffer iff bit 55 is set; offsets use the low 55 bits. -/
theorem C16_string_flag : cSTRINGBUFBIT = 2^55 ∧ cSTRINGBUFMASK = cSTRINGBUFBIT - 1 := by decide

open SJ SJ.Layout SJ.WalkLayout SJ.CopyIndep in
/-- **Overwriting the input changes nothing observable (copied strings).** If every string value and key of the
    document on the tape refers to the string buffer — what `parseString` writes for every string when
    `copyStrings` is set (`needCopy := cfg.copyStrings || …`, SJ/Model/Stage2.lean) — then the complete read-back
    through the iterator API is the same for *every* later content of `Message`. -/
theorem C16_input_overwrite (pj : PJ) (vs : List LVal) (h : OkRoots pj vs 0) (ht : ∀ v ∈ vs, Tight v)
    (hc : ∀ v ∈ vs, Copied pj v) (m : Bytes) : owalk (withMsg pj m) = owalk pj :=
  owalk_msg_indep pj vs h ht hc m

open SJ SJ.CopyIndep in
/-- a string reference with the buffer flag never looks at `Message` -/
theorem C16_string_ref (pj : PJ) (m : Bytes) (o l : UInt64) (h : (o &&& wSTRINGBUFBIT == 0) = false) :
    stringByteAt (withMsg pj m) o l = stringByteAt pj o l := stringByteAt_withMsg pj m o l h

end SJ.Properties.C16
