import SJ.Generated.Consts
import SJ.Proofs.ParseWF
import SJ.Proofs.CopyIndep
/-
C16 — Copied strings decouple results from the input buffer; Clone is independent.
-/
namespace SJ.Properties.C16
open SJ.Generated

/-- A string payload refers to the string buffer iff bit 55 is set; offsets use the low 55 bits. -/
theorem C16_string_flag : cSTRINGBUFBIT = 2^55 ∧ cSTRINGBUFMASK = cSTRINGBUFBIT - 1 := by decide

open SJ SJ.Layout SJ.WalkLayout SJ.CopyIndep in
/-- **Overwriting the input changes nothing observable (copied strings).** If every string value and key of the
    document on the tape refers to the string buffer — what `parseString` writes for every string when
    `copyStrings` is set (`needCopy := cfg.copyStrings || …`, SJ/Model/Stage2.lean) — then the complete read-back
    through the iterator API is the same for *every* later content of `Message`. -/
theorem C16_input_overwrite (pj : PJ) (vs : List LVal) (h : OkRoots pj vs 0) (ht : ∀ v ∈ vs, Tight v)
    (hc : ∀ v ∈ vs, Copied pj v) (m : Bytes) : owalk (withMsg pj m) = owalk pj :=
  owalk_msg_indep pj vs h ht hc m

open SJ SJ.CopyIndep in
/-- a string reference with the buffer flag never looks at `Message` -/
theorem C16_string_ref (pj : PJ) (m : Bytes) (o l : UInt64) (h : (o &&& wSTRINGBUFBIT == 0) = false) :
    stringByteAt (withMsg pj m) o l = stringByteAt pj o l := stringByteAt_withMsg pj m o l h


open SJ SJ.ParseDefs in
/-- **With string copying, once `Parse`/`ParseND` has returned, the input buffer is irrelevant**: for every input the
    parser accepts and every later content of `Message` (overwritten, reused, freed) the complete ordered read-back
    through the iterator API is unchanged. (Closes the residue "stage 2 sets the buffer flag on every string in
    copy mode": `Stage2WF.stage2_wf` proves `Copied` for the ghost document.) -/
theorem C16_parse_copy_indep (nd : Bool) (input : Bytes) (pj : PJ) (hsz : SizeOK (trimSpace input))
    (h : parseAny { copyStrings := true } nd input = .ok pj) (scribble : Bytes) :
    owalk (CopyIndep.withMsg pj scribble) = owalk pj := SJ.ParseWF.parse_copy_indep nd input pj hsz h scribble

open SJ SJ.ParseDefs SJ.Layout in
/-- in copy mode every string value and key of a parse result refers to the string buffer -/
theorem C16_parse_copied (nd : Bool) (input : Bytes) (pj : PJ) (hsz : SizeOK (trimSpace input))
    (h : parseAny { copyStrings := true } nd input = .ok pj) :
    ∃ lvs : List LVal, WalkLayout.OkRoots pj lvs 0 ∧ ∀ v ∈ lvs, CopyIndep.Copied pj v := by
  obtain ⟨lvs, h1, _, h3, _⟩ := SJ.ParseWF.parse_wf _ nd input pj hsz h
  exact ⟨lvs, h1, h3 rfl⟩

end SJ.Properties.C16
