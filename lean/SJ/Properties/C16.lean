import SJ.Generated.Consts
import SJ.Proofs.ParseWF
import SJ.Proofs.CopyIndep
import SJ.Proofs.CloneOwn
/-
C16 — Copied strings decouple results from the input buffer; Clone is independent.
-/
namespace SJ.Properties.C16
open SJ.Generated

/-- A string payload refers to the string buffer iff bit 55 is set; offsets use the low 55 bits. -/
theorem C16_string_flag : cSTRINGBUFBIT = 2^55 ∧ cSTRINGBUFMASK = cSTRINGBUFBIT - 1 := by decide

open SJ SJ.Layout SJ.WalkLayout SJ.CopyIndep in
/-- **Overwriting the input changes nothing observable (copied strings).** If every string value and key of the
    document on the tape refers to the string buffer — what `parseString` writes for every string when
    `copyStrings` is set (`needCopy := cfg.copyStrings || …`, SJ/Model/Stage2.lean) — then the complete read-back
    through the iterator API is the same for *every* later content of `Message`. -/
theorem C16_input_overwrite (pj : PJ) (vs : List LVal) (h : OkRoots pj vs 0) (ht : ∀ v ∈ vs, Tight v)
    (hc : ∀ v ∈ vs, Copied pj v) (m : Bytes) : owalk (withMsg pj m) = owalk pj :=
  owalk_msg_indep pj vs h ht hc m

open SJ SJ.CopyIndep in
/-- a string reference with the buffer flag never looks at `Message` -/
theorem C16_string_ref (pj : PJ) (m : Bytes) (o l : UInt64) (h : (o &&& wSTRINGBUFBIT == 0) = false) :
    stringByteAt (withMsg pj m) o l = stringByteAt pj o l := stringByteAt_withMsg pj m o l h


open SJ SJ.ParseDefs in
/-- **With string copying, once `Parse`/`ParseND` has returned, the input buffer is irrelevant**: for every input the
    parser accepts and every later content of `Message` (overwritten, reused, freed) the complete ordered read-back
    through the iterator API is unchanged. (Closes the residue "stage 2 sets the buffer flag on every string in
    copy mode": `Stage2WF.stage2_wf` proves `Copied` for the ghost document.) -/
theorem C16_parse_copy_indep (nd : Bool) (input : Bytes) (pj : PJ) (hsz : SizeOK (trimSpace input))
    (h : parseAny { copyStrings := true } nd input = .ok pj) (scribble : Bytes) :
    owalk (CopyIndep.withMsg pj scribble) = owalk pj := SJ.ParseWF.parse_copy_indep nd input pj hsz h scribble

open SJ SJ.ParseDefs SJ.Layout in
/-- in copy mode every string value and key of a parse result refers to the string buffer -/
theorem C16_parse_copied (nd : Bool) (input : Bytes) (pj : PJ) (hsz : SizeOK (trimSpace input))
    (h : parseAny { copyStrings := true } nd input = .ok pj) :
    ∃ lvs : List LVal, WalkLayout.OkRoots pj lvs 0 ∧ ∀ v ∈ lvs, CopyIndep.Copied pj v := by
  obtain ⟨lvs, h1, _, h3, _⟩ := SJ.ParseWF.parse_wf _ nd input pj hsz h
  exact ⟨lvs, h1, h3 rfl⟩

open SJ.Own SJ.CloneOwn SJ.Generated in
/-- **Clone returns a handle that owns its buffers.** For every heap, every receiver with valid slices (`SrcOK`) and
    every destination — nil, or any handle whose buffers are not the receiver's (`DstOK`: whatever their capacities,
    with or without a `TStrings`) — the regenerated body of `Clone` runs to completion and establishes `Cloned`: the
    returned handle shows the receiver's `Message`, `Tape` and `Strings.B`; its three backing arrays and its `TStrings`
    cell are none of the receiver's; the receiver's headers, cell and arrays are untouched. -/
theorem C16_clone_owns_its_buffers (s : SJ.Own.St) (c : Nat) (hs : SrcOK s c) (hd : ∀ d0, s.dst = some d0 → DstOK s c d0) :
    ∃ s1 d c', execL s cloneProg = some s1 ∧ Cloned s s1 c d c' :=
  SJ.CloneOwn.clone_run s c hs hd

open SJ.Own SJ.CloneOwn SJ.Generated in
/-- **The original is immune to whatever happens to the clone.** Any later heap that differs from the heap Clone left
    only OUTSIDE the original's three backing arrays and its `TStrings` cell — writes through the clone's slices anywhere
    within their capacity, appends, re-allocations, a new header in the clone's cell — shows the original exactly what
    it showed before Clone. -/
theorem C16_clone_original_immune (s s1 : SJ.Own.St) (c : Nat) (d : SJ.Own.Hdl) (c' : Nat) (hc : Cloned s s1 c d c') (h' : SJ.Own.Heap)
    (ha : ∀ a ∈ srcArrs s c, h'.arrs a = s1.h.arrs a) (hcell : h'.cells c = s1.h.cells c) :
    view h' s1.pj.msg = view s.h s.pj.msg ∧ view h' s1.pj.tape = view s.h s.pj.tape ∧
      view h' (h'.cells c) = view s.h (s.h.cells c) :=
  SJ.CloneOwn.original_immune s s1 c d c' hc h' ha hcell

open SJ.Own SJ.CloneOwn SJ.Generated in
/-- **The clone is immune to whatever happens to the original** (edits, a parse that recycles it, `Reset`): any later
    heap that agrees with the heap Clone left on the clone's three backing arrays and its cell shows the clone the
    original's contents at the time of the call. -/
theorem C16_clone_immune (s s1 : SJ.Own.St) (c : Nat) (d : SJ.Own.Hdl) (c' : Nat) (hc : Cloned s s1 c d c') (h' : SJ.Own.Heap)
    (hm : h'.arrs d.msg.arr = s1.h.arrs d.msg.arr) (ht : h'.arrs d.tape.arr = s1.h.arrs d.tape.arr)
    (hcell : h'.cells c' = s1.h.cells c') (hb : h'.arrs (s1.h.cells c').arr = s1.h.arrs (s1.h.cells c').arr) :
    view h' d.msg = view s.h s.pj.msg ∧ view h' d.tape = view s.h s.pj.tape ∧
      view h' (h'.cells c') = view s.h (s.h.cells c) :=
  SJ.CloneOwn.clone_immune s s1 c d c' hc h' hm ht hcell hb

open SJ.Own SJ.CloneOwn SJ.Generated in
/-- it runs, the clone shows the same strings — and its cell points into the receiver's array (2) -/
theorem C16_clone_sharing_expressible :
    (execL exSt sharedProg).map (fun s1 => ((s1.dst.bind (·.strs)).map fun c' => ((s1.h.cells c').arr, view s1.h (s1.h.cells c')))) =
      some (some (2, [5, 6])) :=
  SJ.CloneOwn.shared_runs_and_aliases 

end SJ.Properties.C16
