import SJ.Proofs.Facts
import SJ.Model.Tape
/-
C19 — Deserialize never panics on corrupt or truncated bytes.
-/
namespace SJ.Properties.C19
open SJ SJ.Generated

/-- Two-entry tags are guarded before the reconstruction switch touches the tape. -/
theorem C19_two_entry_guard : caseOfSw swDeserialize 0 0 = [cTagString, cTagFloat, cTagInteger, cTagUint, ctagFloatWithFlag] := by decide

theorem C19_deserialize_cases : swDeserialize.length = 2 ∧ (swDeserialize.getD 1 []).length = 9 := by
  rw [Facts.deserialize_cases]; decide

end SJ.Properties.C19
