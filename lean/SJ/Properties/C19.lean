import SJ.Proofs.Facts
import SJ.Model.Tape
import SJ.Proofs.Rebuild
import SJ.Proofs.WalkSafe
import SJ.Proofs.GoRebuild
import SJ.Proofs.GoFraming
/-
C19 — Deserialize never panics on corrupt or truncated bytes.
-/
namespace SJ.Properties.C19
open SJ SJ.Generated

/-- Two-entry tags are guarded before the reconstruction switch touches the tape. -/
theorem C19_two_entry_guard : caseOfSw swDeserialize 0 0 = [cTagString, cTagFloat, cTagInteger, cTagUint, ctagFloatWithFlag] := by decide

theorem C19_deserialize_cases : swDeserialize.length = 2 ∧ (swDeserialize.getD 1 []).length = 9 := by
  rw [Facts.deserialize_cases]; decide

open SJ.Rebuild

/-- **Deserialize never panics**: for every codec behaviour, every byte string and every previous content of the
    destination, the result is a value or an error — never an out-of-range access, never a non-terminating loop. -/
theorem C19_deserialize_no_panic (codec : Codec) (src : Bytes) (prior : Array UInt64) :
    deserialize codec src prior ≠ .panic ∧ deserialize codec src prior ≠ .diverge := deserialize_no_panic codec src prior
/-- The reconstruction loop alone, for arbitrary tag and value streams. -/
theorem C19_rebuild_no_panic (init : Array UInt64) (tags values : Bytes) :
    rebuild init tags values ≠ .panic ∧ rebuild init tags values ≠ .diverge ∧
    ∀ tp, rebuild init tags values = .ok tp → tp.size = init.size := rebuild_no_panic init tags values
/-- Every branch of the reconstruction that writes two entries is covered by the guard in front of the switch
    (a statement about the case lists extracted from the source). -/
theorem C19_guard_covers (t : UInt8)
    (h : inCase (caseOfSw swDeserialize 1 1) t = true ∨ inCase (caseOfSw swDeserialize 1 2) t = true ∨
         inCase (caseOfSw swDeserialize 1 3) t = true) : inCase (caseOfSw swDeserialize 0 0) t = true := two_entry_guard_covers t h
/-- **On whatever tape comes back**, traversal and marshalling terminate without panic. -/
theorem C19_result_walkable (pj : PJ) :
    SJ.WalkSafe.OkOrErr (owalk pj) ∧ SJ.WalkSafe.OkOrErr (Iter.interface pj (Iter.ofPJ pj) (fuelOf pj)) ∧
    SJ.WalkSafe.OkOrErr (Iter.marshalBuf pj (Iter.ofPJ pj) #[]) :=
  ⟨SJ.WalkSafe.owalk_safe pj, SJ.WalkSafe.interface_safe pj _ (SJ.WalkSafe.ofPJ_valid pj),
   SJ.WalkSafe.marshalBuf_safe pj _ _ (SJ.WalkSafe.ofPJ_valid pj)⟩

open SJ.GoSem SJ.GoRebuild in
/-- **The reconstruction loop of the model is the meaning of its Go source.** `Generated.goDeserialize_rebuild` is the
    syntax tree the translator prints from `Serializer.Deserialize` (from `var off int` to the end of the function) on every
    run. For every destination tape, every tag and value stream and enough fuel, interpreting it yields exactly
    `rebuild init tags values`: the same tape and `return dst, nil`, or an error exactly when the model errs; it never
    panics where the model does not (and the model never panics: `C19_rebuild_no_panic`), is never stuck, never out of fuel.
    So "Deserialize does not index outside its buffers" is a statement about this source, and any change to the loop
    breaks this theorem. -/
theorem C19_rebuild_follows_source (init : Array UInt64) (tags values : Bytes) (hsz : init.size < 2^56) (fuel : Nat)
    (hf : init.size + 8 ≤ fuel) :
    SimReb (runFun goFuns goDeserialize_rebuild fuel (rebStore init tags values)) (rebuild init tags values) :=
  rebuild_source_tie init tags values hsz fuel hf

open SJ SJ.GoSem SJ.Generated SJ.GoFraming in
/-- **C19 at the source: no input makes the header parsing panic**, except by declaring a size of 2^63 or more
    (`make` of a declared size: `HdrRes.tooBig`). -/
theorem C19_header_no_panic_follows_source (f : FS) (prior : Array UInt64) (fuel : Nat)
    (hsz : f.src.size < 2^63) (hprior : prior.size < 2^63)
    (hSc : f.sB.size < 2^63) (hMc : f.mB.size < 2^63) (hT : f.tB.size < 2^63) (hV : f.vB.size < 2^63) :
    runFun goFuns goDeserialize_header (fuel + 1) ⟨f.env, prior⟩ = .panic ↔ headerP f.src = .tooBig :=
  SJ.GoFraming.go_framing_no_panic f prior fuel hsz hprior hSc hMc hT hV

end SJ.Properties.C19
