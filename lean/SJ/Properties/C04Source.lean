import SJ.Properties.C04
import SJ.Proofs.SourceLevelC
set_option linter.unusedVariables false
/-
C04 — source level. The theorems of Properties/C04.lean composed with the source ties of DESIGN §6.3: each statement
below is about the MEANING OF THE REGENERATED GO SOURCE (`GoSem.runFun goFuns <tree> fuel ⟨store, tape⟩`), with no
function of the hand model in its conclusion. Proofs: SJ/Proofs/SourceLevelA.lean, SourceLevelB.lean.
-/
namespace SJ.Properties.C04

open SJ.Generated SJ.GoSem SJ.GoIter SJ.GoSet SJ.Layout SJ.SourceLevelC SJ.Tables SJ.Escape SJ.ParseDefs SJ.StrLex SJ.GoStage2 in
/-- **Strings are decoded exactly, source level.**  `buf` is the message, `idx` the index of an opening quotation mark
    (the function does not look at `buf[idx]` itself), `s` the text after it.  If the RFC 8259 string production reads `s` as
    the bytes `dec` — every two-character escape and every `\uXXXX` replaced, a surrogate pair by one 4-byte code point, all
    other bytes unchanged — leaving `rest`, then the closing quotation mark is at `s[d]` (`closeQ`), `rest` is what follows
    it, and running the regenerated `parseString` (`stage2_build_tape_amd64.go`; the two assembly kernels by their contract =
    the scalar decoder, see `C04_window_exact`) with any `maxStringSize` beyond the closing quote returns `true`, having
    appended exactly two words to the tape and — when it copies — exactly `dec` to the string buffer:
    * `copyStrings`, or the string contains an escape (`d ≠ dec.length`): the words are `'"' | STRINGBUFBIT + len(Strings.B)`
      and `len(dec)`, and the string buffer is the old one followed by exactly `dec`;
    * otherwise: the words are `'"' | idx+1` and `d` — the string is left in place in `Message`, where `Message[idx+1 : idx+1+d]`
      IS `dec` (no escape) — and the string buffer is unchanged.
    The view length `pj.lim` in the store follows the tape; `Message` is unchanged.
    Remaining premises, all of the tie: `idx ≤ len(buf)` (is implied here: `s` is not empty), `idx < 2^63` (a Go `int`;
    beyond it `pj.Message[idx:]` panics), fuel ≥ 1.  `d < maxStringSize` is the property's premise: the kernel gives up
    at `maxStringSize` (the distance to the next structural index). -/
theorem C04_source_parseString_exact (m : M) (cfg : Cfg) (buf : Bytes) (idx max : UInt64) (cap : Int) (fuel sfuel : Nat)
    (s dec rest : List UInt8) (hs : buf.toList.drop (idx.toNat + 1) = s) (h63 : idx.toNat < 2^63)
    (h : Spec.stringBody sfuel s [] false = .acc dec rest) :
    ∃ d, closeQ s = some d ∧ rest = s.drop (d + 1) ∧ (∀ j, j < d → ¬ (s.getD j 0 < 0x20)) ∧
      (d < max.toNat →
        ∃ e' tape' strs', runFun goFuns goparseString (fuel + 1) ⟨psEnv m buf idx max cfg.copyStrings cap, m.tape⟩ =
            .ret ⟨e', tape'⟩ [.bool true] ∧
          e'.get "Strings.B" = some (.bytes strs') ∧ e'.get "pj.lim" = some (.int tape'.size) ∧
          e'.get "Message" = some (.bytes buf) ∧
          (if cfg.copyStrings = true ∨ d ≠ dec.length then
            tape' = (m.tape.push (mkWord tagString (wSTRINGBUFBIT + UInt64.ofNat m.strings.size))).push
              (UInt64.ofNat dec.length) ∧ strs' = m.strings ++ dec.toArray
          else
            tape' = (m.tape.push (mkWord tagString (UInt64.ofNat (idx.toNat + 1)))).push (UInt64.ofNat d) ∧
              strs' = m.strings)) :=
  SJ.SourceLevelC.C04_source_parseString_exact m cfg buf idx max cap fuel sfuel s dec rest hs h63 h

open SJ.Generated SJ.GoSem SJ.GoIter SJ.GoSet SJ.Layout SJ.SourceLevelC SJ.Tables SJ.Escape SJ.ParseDefs SJ.StrLex SJ.GoStage2 in
/-- **… and what the production rejects is not decoded, source level.**  If the RFC string production rejects the text `s`
    after the opening quotation mark at `idx` (bad or truncated escape, raw control character, no closing quote), then
    * a raw control character precedes the closing quotation mark (stage 1 flags it; `parseString` does not look), or
    * running the regenerated `parseString` returns `false`, for every `maxStringSize`, every capacity, either setting of
      `copyStrings`, and has changed nothing: same tape, same string buffer, same `Message`.
    The case "no closing quotation mark at all", which `C04_decode_rejects` leaves open (stage 1 never pairs such a quote), is
    closed here: the decoder fails then too (`decodeString_noClose`), so `parseString` returns `false`.
    Remaining premises: the tie's `idx ≤ len(buf)` and `idx < 2^63`; `s.length < sfuel` is the property's (the
    specification is total by fuel). -/
theorem C04_source_parseString_rejects (m : M) (cfg : Cfg) (buf : Bytes) (idx : UInt64) (fuel sfuel : Nat)
    (s : List UInt8) (hs : buf.toList.drop (idx.toNat + 1) = s) (hidx : idx.toNat ≤ buf.size) (h63 : idx.toNat < 2^63)
    (hsf : s.length < sfuel) (h : Spec.stringBody sfuel s [] false = .rej) :
    (∃ d, closeQ s = some d ∧ ∃ j, j < d ∧ s.getD j 0 < 0x20) ∨
    ∀ (max : UInt64) (cap : Int),
      ∃ e', runFun goFuns goparseString (fuel + 1) ⟨psEnv m buf idx max cfg.copyStrings cap, m.tape⟩ =
          .ret ⟨e', m.tape⟩ [.bool false] ∧
        e'.get "Strings.B" = some (.bytes m.strings) ∧ e'.get "pj.lim" = some (.int m.tape.size) ∧
        e'.get "Message" = some (.bytes buf) :=
  SJ.SourceLevelC.C04_source_parseString_rejects m cfg buf idx fuel sfuel s hs hidx h63 hsf h

end SJ.Properties.C04
