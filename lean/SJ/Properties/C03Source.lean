import SJ.Properties.C03
import SJ.Proofs.SourceLevelA
set_option linter.unusedVariables false
/-
C03 — source level. The theorems of Properties/C03.lean composed with the source ties of DESIGN §6.3: each statement
below is about the MEANING OF THE REGENERATED GO SOURCE (`GoSem.runFun goFuns <tree> fuel ⟨store, tape⟩`), with no
function of the hand model in its conclusion. Proofs: SJ/Proofs/SourceLevelA.lean, SourceLevelB.lean.
-/
namespace SJ.Properties.C03

open SJ.Tables SJ.Generated SJ.GoSem SJ.NumberProofs SJ.GoNumber in
/-- **C03 at source level.** Run `parseNumber` of `parse_number_amd64.go` (as printed from /repo) on a buffer that starts
    with a literal `s` of the RFC 8259 number grammar (`Spec.numberLit s = some (l, [])`) followed by an end-of-value byte
    `t`: it returns exactly the tag word and the value word the specification `Spec.numValue l` prescribes (`encode`:
    int64 / uint64 / correctly rounded float64, overflowed-integer flag), with a non-zero tag; and tag 0 exactly in the
    one case the specification has no value (the literal rounds to ±Inf).  For every fuel and tape; the tape is
    untouched.  No hypothesis of the tie had to be kept (it has none). -/
theorem C03_source_agrees_with_spec (s rest : List UInt8) (l : Spec.NumLit) (t : UInt8)
    (hs : Spec.numberLit s = some (l, [])) (ht : numRune t = 8) (fuel : Nat) (tape : Array UInt64) :
    (∀ n, Spec.numValue l = some n →
      (encode n).1 ≠ 0 ∧
      ∃ st, runFun goFuns goparseNumber fuel ⟨[("buf", .bytes (s ++ t :: rest).toArray)], tape⟩ =
        .ret st [.u64 (encode n).1, .u64 (encode n).2] ∧ st.tape = tape) ∧
    (Spec.numValue l = none →
      ∃ st, runFun goFuns goparseNumber fuel ⟨[("buf", .bytes (s ++ t :: rest).toArray)], tape⟩ =
        .ret st [.u64 0, .u64 0] ∧ st.tape = tape) :=
  SJ.SourceLevelA.C03_source_agrees_with_spec s rest l t hs ht fuel tape

open SJ.Tables SJ.Generated SJ.GoSem SJ.NumberProofs SJ.GoNumber in
/-- **Rejection at source level.** On a buffer that starts with `-` or a digit (what the stage-2 dispatcher guarantees)
    but whose prefix `s` before the end-of-value byte `t` is not a literal of the RFC grammar — no literal at all, or a
    literal followed by a byte that cannot end a value — the Go `parseNumber` returns tag 0 (which the caller turns into a
    parse error). -/
theorem C03_source_rejects (s rest : List UInt8) (t : UInt8) (hstart : NumStart s) (ht : numRune t = 8)
    (h : Spec.numberLit s = none ∨ ∃ l c r, Spec.numberLit s = some (l, c :: r) ∧ numRune c ≠ 8)
    (fuel : Nat) (tape : Array UInt64) :
    ∃ st, runFun goFuns goparseNumber fuel ⟨[("buf", .bytes (s ++ t :: rest).toArray)], tape⟩ =
      .ret st [.u64 0, .u64 0] ∧ st.tape = tape :=
  SJ.SourceLevelA.C03_source_rejects s rest t hstart ht h fuel tape

open SJ.Tables SJ.Generated SJ.GoSem SJ.NumberProofs SJ.GoNumber in
/-- **Integer literals at source level**: optional minus, digits without superfluous leading zero, any number of them,
    then an end-of-value byte.  The Go `parseNumber` returns (TagInteger, two's complement) if the value fits int64, else
    (TagUint, value) if it is non-negative and fits uint64, else (TagFloat | overflowed-integer flag, the correctly
    rounded float64), and tag 0 if that rounding is infinite. -/
theorem C03_source_integer_literal (neg : Bool) (digits rest : List UInt8) (t : UInt8)
    (hne : digits ≠ []) (hdig : ∀ d ∈ digits, isDigit d = true)
    (hlz : digits = [48] ∨ digits.head? ≠ some 48) (ht : numRune t = 8) (fuel : Nat) (tape : Array UInt64) :
    ∃ st, runFun goFuns goparseNumber fuel
        ⟨[("buf", .bytes (((if neg then [45] else []) ++ digits) ++ t :: rest).toArray)], tape⟩ =
      .ret st
        (let z : Int := if neg then -(digitsVal digits : Int) else digitsVal digits
         if -(2^63:Int) ≤ z ∧ z < 2^63 then [.u64 (mkWord tagInteger 0), .u64 (ofInt64 z)]
         else if 0 ≤ z ∧ z < 2^64 then [.u64 (mkWord tagUint 0), .u64 (UInt64.ofNat z.toNat)]
         else match F64.roundDecimal neg (digitsVal digits) 0 with
           | some b => [.u64 (mkWord tagFloat 0 ||| wFloatOverflowedInteger), .u64 b]
           | none => [.u64 0, .u64 0]) ∧ st.tape = tape :=
  SJ.SourceLevelA.C03_source_integer_literal neg digits rest t hne hdig hlz ht fuel tape

end SJ.Properties.C03
