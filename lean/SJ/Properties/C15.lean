import SJ.Proofs.Facts
/-
C15 — Reusing a ParsedJson or Serializer never leaks earlier state.
-/
namespace SJ.Properties.C15
open SJ SJ.Generated

/-- Every piece of per-call parser state that survives in a reused object is reset on entry. -/
theorem C15_parse_resets :
    ["internalParsedJson.initialize:pj.Tape", "internalParsedJson.initialize:pj.Strings.B",
     "internalParsedJson.initialize:pj.containingScopeOffset", "internalParsedJson.initialize:pj.indexesChan",
     "internalParsedJson.parseMessage:pj.Message", "internalParsedJson.parseMessage:pj.ndjson",
     "internalParsedJson.parseMessage:pj.buffersOffset", "newInternalParsedJson:pj.copyStrings"].all
      (fun a => parseAssignments.contains a) = true := Facts.parse_resets

/-- The complete list of assignments the entry points make to the per-call object. -/
theorem C15_parse_assignments : parseAssignments.length = 15 ∧ parseAssignments.head? = some "internalParsedJson.initialize:pj.Tape" := by
  rw [Facts.parse_assignments]; decide

end SJ.Properties.C15
