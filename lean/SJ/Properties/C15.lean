import SJ.Proofs.Facts
import SJ.Proofs.SerReuse
import SJ.Proofs.SerdeRT
import SJ.Proofs.Reuse
/-
C15 — Reusing a ParsedJson or Serializer never leaks earlier state.
-/
namespace SJ.Properties.C15
open SJ SJ.Generated SJ.Reuse

/-- Every piece of per-call parser state that survives in a reused object is reset on entry. -/
theorem C15_parse_resets :
    ["internalParsedJson.initialize:pj.Tape", "internalParsedJson.initialize:pj.Strings.B",
     "internalParsedJson.initialize:pj.containingScopeOffset", "internalParsedJson.initialize:pj.indexesChan",
     "internalParsedJson.parseMessage:pj.Message", "internalParsedJson.parseMessage:pj.ndjson",
     "internalParsedJson.parseMessage:pj.buffersOffset", "newInternalParsedJson:pj.copyStrings"].all
      (fun a => parseAssignments.contains a) = true := Facts.parse_resets

/-- The complete list of assignments the entry points make to the per-call object. -/
theorem C15_parse_assignments : parseAssignments.length = 15 ∧ parseAssignments.head? = some "internalParsedJson.initialize:pj.Tape" := by
  rw [Facts.parse_assignments]; decide

/-- **History independence of the state the two stages start from.** `enter c msg nd copy` is the per-call object as
    `newInternalParsedJson` + `parseMessage` + `initialize` leave it, computed from what earlier calls left behind (`c`:
    any tape, string buffer, scope stack, index buffer cursor, slot counter, flags) by resetting exactly the fields the
    *source* assigns on entry (`Generated.parseAssignments`). For any two histories the entry states coincide (up to the
    channel contents, shown empty below, and the write-only `isvalid`). -/
theorem C15_entry_state_history_independent (c c' : Reuse.Carry) (msg : Bytes) (nd copy : Bool) :
    { enter c msg nd copy with queue := [], isvalid := false } = { enter c' msg nd copy with queue := [], isvalid := false } :=
  enter_indep c c' msg nd copy

/-- … and stage 2 starts from the same machine state as on a fresh object, whatever the history: `unifiedMachine`
    appends to `Tape`, `Strings.B`, `containingScopeOffset` as it finds them, and it finds them empty. -/
theorem C15_machine_start (c : Reuse.Carry) (msg : Bytes) (nd copy : Bool) : initFrom (enter c msg nd copy) = M.init :=
  initFrom_enter c msg nd copy

theorem C15_entry_fields (c : Reuse.Carry) (msg : Bytes) (nd copy : Bool) :
    (enter c msg nd copy).message = trimSpace msg ∧ (enter c msg nd copy).nd = nd ∧ (enter c msg nd copy).copyStrings = copy ∧
    (enter c msg nd copy).ixIndex = 0 ∧ (enter c msg nd copy).ixLength = 0 ∧ (enter c msg nd copy).bufOffset = 2^64 - 1 :=
  enter_fields c msg nd copy

/-- **Every field of the per-call object is accounted for**: reset on entry, or `isvalid` (never read anywhere:
    `C15_isvalid_write_only`), `indexChans` (the channel object is kept, but it is empty whenever `parseMessage` returns:
    `C15_sync_channel_empty`, `C15_async_channel_empty`), `buffers` (a ring slot is filled before it is handed over and not
    refilled while it can still be read: C07), `ParsedJson` (embedded; `Message`, `Tape`, `Strings` reset, `internal`
    cleared). A field added without a reset — or a new reader of `isvalid` — breaks one of these theorems. -/
theorem C15_fields_covered :
    fieldsinternalParsedJson.all (fun f =>
      (["containingScopeOffset", "indexesChan", "buffersOffset", "ndjson", "copyStrings"].contains f && assignedAny f) ||
      ["isvalid", "indexChans", "buffers", "ParsedJson"].contains f) = true ∧
    fieldsParsedJson.all (fun f => assignedAny f || assignedAny ("ParsedJson." ++ f)) = true := fields_covered

theorem C15_isvalid_write_only : parserFieldsUsed.contains "isvalid" = false := isvalid_write_only

/-- **The channel is empty on every return path of the synchronous branch** (inputs up to 8 KiB: at most
    `n + 1 ≤ cap` items are ever queued, C05): after a stage-1 failure, after success, and after a stage-2 failure at
    any point of its consumption. -/
theorem C15_sync_channel_empty (n : Nat) (stage1ok stage2ok : Bool) (taken : Nat) (ht : taken ≤ n + 1) :
    syncLeftover n stage1ok stage2ok taken = [] := sync_leaves_empty n stage1ok stage2ok taken ht

/-- **… and on the concurrent branch**, for every schedule, once the terminator has been received (stage 2 consumes up
    to the terminator also when it failed). -/
theorem C15_async_channel_empty (c : Pipeline.Cfg) (hc : c.cap + 2 ≤ c.slots) (evs : List Pipeline.Ev) (s : Pipeline.St)
    (hr : Pipeline.run c {} evs = some s) (ht : s.termRecv = true) : Pipeline.queued s = 0 :=
  async_leaves_empty c hc evs s hr ht

/-- The text of the three entry points, statement by statement, is the one the models above were read from
    (regenerated on every run; any edit of these functions has to be re-examined against `enter`, `drainRange`,
    `drainSelect`, `syncLeftover`). -/
theorem C15_entry_sources :
    srcInitialize.length = 9 ∧ srcParseMessage.length = 9 ∧ srcNewInternal.length = 7 ∧
    srcInitialize.getLast? = some "pj.indexesChan = indexChan{}" ∧
    srcNewInternal.getD 4 "" = "pj.copyStrings = true" := by
  rw [source_initialize, source_parseMessage, source_newInternal]; decide

/-- a dirty object: tape, strings, open scopes, half-read index buffer, flags of an ND no-copy call -/
def dirty : Reuse.Carry :=
  { tape := #[1, 2, 3]
    strings := #[65]
    scope := [5, 9]
    ixIndex := 3
    ixLength := 7
    bufOffset := 12
    nd := true
    copyStrings := false
    isvalid := true }

/-- non-vacuity -/
example : (enter dirty #[91, 93] false true).tape = #[] ∧ (enter dirty #[91, 93] false true).scope = [] ∧
    (enter dirty #[91, 93] false true).copyStrings = true := by
  obtain ⟨h1, _, _, _, h5, _, _, _, h9⟩ := SJ.Reuse.assigned_all
  simp [enter, h1, h5, h9]

open SJ.SerReuse in
/-- **A reused Serializer starts every `Serialize` from the same state.** The entry code of `Serialize` (regenerated:
    the statements in front of the tape loop and, per field, whether it is zeroed, emptied, overwritten, re-sliced or
    only handed to `encBlock`) zeroes the de-duplication table, empties the string buffer, the compressed-message
    buffer and the value buffer and restarts the tag offset: whatever two histories left behind, the tape loop starts
    from the same state — the state the model's `serialize` starts from, so `C11_roundtrip` and the other theorems about
    `serialize` speak about reused Serializers. The compression mode survives on purpose (it is configuration). -/
theorem C15_serializer_entry_history_independent (c c' : SerReuse.Carry) :
    loopStart (SerReuse.enter c) = loopStart (SerReuse.enter c') ∧ loopStart (SerReuse.enter c) = ({} : SerState) ∧
    (SerReuse.enter c).sMsg = #[] ∧ (SerReuse.enter c).mode = c.mode :=
  ⟨loopStart_indep c c', loopStart_fresh c, (SerReuse.enter_fields c).1, (SerReuse.enter_fields c).2⟩

/-- every field of `Serializer` is treated by the entry code or is `maxBlockSize` (read by `Deserialize` only); a field
    added without a reset breaks this theorem -/
theorem C15_serializer_fields_covered :
    fieldsSerializer.all (fun f => (serializerEntryResets.map (·.1)).contains f || f == "maxBlockSize") = true :=
  SerReuse.fields_covered

/-- the entry code, pinned -/
theorem C15_serializer_entry_source : serializerEntry.length = 19 ∧
    serializerEntry.getD 1 "" = "for i := range s.stringsTable[:] { s.stringsTable[i] = 0 }" ∧
    serializerEntry.getD 2 "" = "if len(s.stringBuf) > 0 { s.stringBuf = s.stringBuf[:0] }" ∧
    serializerEntry.getD 13 "" = "s.valuesBuf = s.valuesBuf[:0]" := by
  rw [SerReuse.entry_source]; decide

open SJ.Layout in
/-- **A reused destination of `Deserialize` cannot influence the result**: for every tape denoting `d` and ANY two
    previous contents of the destination tape, both reconstructions succeed and both denote `d`. -/
theorem C15_deserialize_destination_independent (pj : PJ) (d : List JVal) (hash : Bytes → Nat) (hwf : WF pj d)
    (hsz : pj.tape.size < 2^56) (hb : pj.tape.size * max pj.msg.size pj.strings.size < 2^55) :
    ∃ sec, serialize pj hash = .ok sec ∧ ∀ init init' : Array UInt64, init.size = sec.tapeSize → init'.size = sec.tapeSize →
      ∃ p p', deserializeSections sec init = .ok p ∧ deserializeSections sec init' = .ok p' ∧ WF p d ∧ WF p' d := by
  obtain ⟨sec, hs, _, h⟩ := SerdeRT.roundtrip_of_bound pj d hash hwf hsz hb
  refine ⟨sec, hs, fun init init' hi hi' => ?_⟩
  obtain ⟨p, hp, hw, _⟩ := h init hi
  obtain ⟨p', hp', hw', _⟩ := h init' hi'
  exact ⟨p, p', hp, hp', hw, hw'⟩

end SJ.Properties.C15
