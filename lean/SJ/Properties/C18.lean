import SJ.Model.FloatFmt
/-
C18 — Floats are printed shortest-round-trip in ECMAScript format.
-/
namespace SJ.Properties.C18
open SJ SJ.FloatFmt SJ.Generated

/-- The format switches are the ES6 ones. -/
theorem C18_thresholds : cfloatFmtLo = "1e-6" ∧ cfloatFmtHi = "1e21" := by decide

/-- …and as float64 constants they are these bit patterns (1e-6 and 1e21 correctly rounded). -/
theorem C18_threshold_bits :
    F64.roundDecimal false 1 (-6) = some 0x3eb0c6f7a0b5ed8d ∧ F64.roundDecimal false 1 21 = some 0x444b1ae4d6e2ef50 := by
  decide +kernel

end SJ.Properties.C18
