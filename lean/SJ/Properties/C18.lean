import SJ.Model.FloatFmt
import SJ.Proofs.F64Round
import SJ.Proofs.FloatFmt
import SJ.Proofs.GoFloatFmt
/-
C18 — Floats are printed shortest-round-trip in ECMAScript format.
-/
namespace SJ.Properties.C18
open SJ SJ.FloatFmt SJ.Generated

/-- The format switches are the ES6 ones. -/
theorem C18_thresholds : cfloatFmtLo = "1e-6" ∧ cfloatFmtHi = "1e21" := by decide

/-- …and as float64 constants they are these bit patterns (1e-6 and 1e21 correctly rounded). -/
theorem C18_threshold_bits :
    F64.roundDecimal false 1 (-6) = some 0x3eb0c6f7a0b5ed8d ∧ F64.roundDecimal false 1 21 = some 0x444b1ae4d6e2ef50 := by
  decide +kernel

open SJ.FloatFmtProofs SJ.Spec

/-- **Plain-decimal form**: for every digit string (first digit non-zero) and decimal point, the text is a number
    literal of the RFC grammar denoting exactly ± digits · 10^(dp − nd). -/
theorem C18_fmtF_value (neg : Bool) (s : Shortest) (wf : WF s) :
    ∃ l, Spec.numberLit (fmtF neg s).toList = some (l, []) ∧ (litValue l).1 = neg ∧
      SameDecimal (litValue l).2.1 (litValue l).2.2 (natOfDigits s.digits) (s.dp - s.digits.length) := fmtF_value neg s wf
/-- **Exponent form** (after the `e-0N` clean-up): same, for every exponent a float64 can have. -/
theorem C18_fmtE_value (neg : Bool) (s : Shortest) (wf : WF s) (hexp : (s.dp - 1).natAbs < 10 ^ 7) :
    ∃ l, Spec.numberLit (cleanExp (fmtE neg s)).toList = some (l, []) ∧ (litValue l).1 = neg ∧
      SameDecimal (litValue l).2.1 (litValue l).2.2 (natOfDigits s.digits) (s.dp - s.digits.length) := fmtE_value neg s wf hexp
/-- The bit-pattern comparison with the two thresholds is the exact comparison of the values. -/
theorem C18_threshold_exact (abs : UInt64) (ha : abs.toNat < 2^63) (hfa : F64.isFinite abs = true) :
    (decide (abs ≥ loBits) && decide (abs < hiBits)) = true ↔
      posLe (F64.decode loBits) (F64.decode abs) ∧ posLt (F64.decode abs) (F64.decode hiBits) := threshold_exact abs ha hfa
/-- ECMAScript shape of the exponent form in the range where `appendFloat` uses it: one digit, optional
    fraction without trailing zero, `e`, sign, exponent without zero padding. -/
theorem C18_fmtE_shape (neg : Bool) (s : Shortest) (wf : WF s) (hlast : s.digits.getLast? ≠ some 0)
    (hrange : s.dp ≤ 0 ∨ 11 ≤ s.dp) :
    ∃ d fp es ex,
      (cleanExp (fmtE neg s)).toList = signL neg ++ d :: ((if fp = [] then [] else 46 :: fp) ++ 101 :: es :: ex) ∧
      isDigit d = true ∧ d ≠ 48 ∧ (∀ c ∈ fp, isDigit c = true) ∧ fp.getLast? ≠ some 48 ∧
      (fp = [] ↔ s.digits.length = 1) ∧ (es = 43 ∨ es = 45) ∧ (es = 45 ↔ s.dp - 1 < 0) ∧
      ex ≠ [] ∧ (∀ c ∈ ex, isDigit c = true) ∧ ex.head? ≠ some 48 ∧ digitsVal ex = (s.dp - 1).natAbs :=
  fmtE_shape neg s wf hlast hrange


open SJ.F64Round SJ.F64 in
/-- **Round trip, every finite bit pattern.** What `appendFloat` prints is an RFC number literal whose exact decimal
    value, correctly rounded, is the very same float — ±0, subnormals, powers of two and ten, the largest finite
    value included. (`shortest`, the executable contract of `ryuFtoaShortest`, always finds a digit string within 17
    digits; the text denotes exactly those digits; any decimal inside the rounding interval rounds to the float.) -/
theorem C18_roundtrip (bits : UInt64) (hfin : F64.isFinite bits = true) :
    ∃ txt l, appendFloat bits = some txt ∧ Spec.numberLit txt.toList = some (l, []) ∧
      F64.roundDecimal (litValue l).1 (litValue l).2.1 (litValue l).2.2 = some bits :=
  appendFloat_roundtrip bits hfin

open SJ.F64Round SJ.F64 in
/-- the digit search succeeds for every finite non-zero value and its result reads back to the value -/
theorem C18_shortest_roundtrip (abs : UInt64) (hfin : F64.isFinite abs = true) (hlt : abs.toNat < 2 ^ 63) (h0 : abs ≠ 0) :
    WF (shortest abs) ∧
    F64.roundDecimal false (natOfDigits (shortest abs).digits) ((shortest abs).dp - (shortest abs).digits.length) = some abs :=
  shortest_roundtrip abs hfin hlt h0

open SJ.F64Round SJ.F64 in
/-- any decimal `d·10^k` inside the rounding interval of a float (end points included iff the mantissa is even) is
    rounded to that float: what makes a *shorter* digit string acceptable -/
theorem C18_inside_rounds (ex fr d : Nat) (k : Int) (hex : ex < 2047) (hfr : fr < 2 ^ 52) (hm : mantOf ex fr ≠ 0)
    (h : insideB (mantOf ex fr) (expOf ex) (lcOf ex fr) d k = true) :
    F64.roundDecimal false d k = some (bitsOf ex fr) := roundDecimal_of_inside ex fr d k hex hfr hm h

open SJ.GoSem SJ.Generated SJ.GoFloatFmt in
/-- **Source tie** (DESIGN §6.3). `appendFloat`, `appendFloatF`, `fmtF`, `min`, `max` (the float formatting glue of
    `parsed_json.go` / the vendored `%f` formatter) are printed from /repo as syntax trees on every run. Their meaning
    under `GoSem.exec` — the Inf/NaN test, `math.Abs`, the two float comparisons with 1e-6 and 1e21 and the test for zero,
    the mantissa/exponent extraction with its denormal case, Ryu and `strconv.AppendFloat(…,'e',-1,64)` by contract
    (shortest digits), the digit loops of `%f`, the in-place clean-up of `e-0X` — is `FloatFmt.appendFloat`, the function
    `C18_roundtrip`, `C18_shortest_roundtrip`, `C18_fmtF_value` and `C18_fmtE_value` are about: for every destination buffer and every bit
    pattern the Go code appends exactly the model's text and returns nil, or returns the nil slice and an error exactly
    for Inf/NaN. `fuelOK` only bounds the loop budget of the interpreter (at most the number of digits written). -/
theorem C18_format_follows_source (dst : Bytes) (bits : UInt64) (fuel : Nat) (tape : Array UInt64)
    (hf : fuelOK fuel bits) :
    (∀ b, FloatFmt.appendFloat bits = some b →
       ∃ s, runFun goFuns goappendFloat fuel ⟨[("dst", .bytes dst), ("f", .u64 bits)], tape⟩ =
         .ret s [.bytes (dst ++ b), .bool false] ∧ s.tape = tape) ∧
    (FloatFmt.appendFloat bits = none →
       ∃ s, runFun goFuns goappendFloat fuel ⟨[("dst", .bytes dst), ("f", .u64 bits)], tape⟩ =
         .ret s [.bytes #[], .bool true] ∧ s.tape = tape) :=
  go_floatfmt_source_tie dst bits fuel tape hf

end SJ.Properties.C18
