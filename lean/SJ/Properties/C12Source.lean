import SJ.Properties.C12
import SJ.Proofs.SourceLevelA
import SJ.Proofs.SourceLevelD
import SJ.Proofs.SourceLevelE
import SJ.Proofs.SourceLevelF
import SJ.Proofs.SourceLevelH
import SJ.Proofs.SourceLevelI
set_option linter.unusedVariables false
/-
C12 — source level. The theorems of Properties/C12.lean composed with the source ties of DESIGN §6.3: each statement
below is about the MEANING OF THE REGENERATED GO SOURCE (`GoSem.runFun goFuns <tree> fuel ⟨store, tape⟩`), with no
function of the hand model in its conclusion. Proofs: SJ/Proofs/SourceLevelA.lean, SourceLevelB.lean.
-/
namespace SJ.Properties.C12

open SJ.Tables SJ.Generated SJ.GoSem SJ.Numeric SJ.GoIter SJ.GoNum in
/-- **`Iter.Int()` at source level.** With the receiver standing on a number entry (float, int or uint; value word `b`
    on the tape, denoting the rational `x` — `stored`), running `Iter.Int` of `parsed_json.go` (as printed from /repo)
    returns `x` truncated toward zero and nil exactly when `−2^63 ≤ x < 2^63`, and `0` with a non-nil error otherwise —
    never a wrapped or sign-flipped number.  Receiver and tape are untouched.  The tie has no hypothesis; every fuel. -/
theorem C12_source_int_exact {pj : PJ} {i : Iter} {x : Rat} (hoff : i.off < i.lim) (hlim : i.lim ≤ pj.tape.size)
    (hs : stored i.t (pj.tape[i.off]'(Nat.lt_of_lt_of_le hoff hlim)) = some x) (fuel : Nat) :
    ∃ s, runFun goFuns goIter_Int fuel { env := envOf "i" i, tape := pj.tape } =
        .ret s (if -(2 : Rat) ^ 63 ≤ x ∧ x < (2 : Rat) ^ 63 then [.int (truncQ x), .bool false]
                else [.int 0, .bool true]) ∧
      s.tape = pj.tape ∧ iterAt s.env "i" = some i :=
  SJ.SourceLevelA.C12_source_int_exact hoff hlim hs fuel

open SJ.Tables SJ.Generated SJ.GoSem SJ.Numeric SJ.GoIter SJ.GoNum in
/-- **`Iter.Uint()` at source level**: `x` truncated toward zero (a number below `2^64`, returned as that very `uint64`)
    and nil exactly when `0 ≤ x < 2^64`, `0` and a non-nil error otherwise. -/
theorem C12_source_uint_exact {pj : PJ} {i : Iter} {x : Rat} (hoff : i.off < i.lim) (hlim : i.lim ≤ pj.tape.size)
    (hs : stored i.t (pj.tape[i.off]'(Nat.lt_of_lt_of_le hoff hlim)) = some x) (fuel : Nat) :
    (∃ s, runFun goFuns goIter_Uint fuel { env := envOf "i" i, tape := pj.tape } =
        .ret s (if 0 ≤ x ∧ x < (2 : Rat) ^ 64 then [.u64 (UInt64.ofNat (truncQ x).toNat), .bool false]
                else [.u64 0, .bool true]) ∧
      s.tape = pj.tape ∧ iterAt s.env "i" = some i) ∧
    (0 ≤ x ∧ x < (2 : Rat) ^ 64 → (UInt64.ofNat (truncQ x).toNat).toNat = (truncQ x).toNat) :=
  SJ.SourceLevelA.C12_source_uint_exact hoff hlim hs fuel

open SJ.Tables SJ.Generated SJ.GoSem SJ.Numeric SJ.GoIter SJ.GoNum in
/-- **`Iter.Float()` at source level**: always succeeds on a number entry, returning (the bits of) the float64 nearest
    to `x`, ties to even. -/
theorem C12_source_float_exact {pj : PJ} {i : Iter} {x : Rat} (hoff : i.off < i.lim) (hlim : i.lim ≤ pj.tape.size)
    (hs : stored i.t (pj.tape[i.off]'(Nat.lt_of_lt_of_le hoff hlim)) = some x) (fuel : Nat) :
    ∃ f s, runFun goFuns goIter_Float fuel { env := envOf "i" i, tape := pj.tape } = .ret s [.u64 f, .bool false] ∧
      s.tape = pj.tape ∧ iterAt s.env "i" = some i ∧ IsNearestEven f x :=
  SJ.SourceLevelA.C12_source_float_exact hoff hlim hs fuel

open SJ.Tables SJ.Generated SJ.GoSem SJ.Layout SJ.WalkLayout SJ.Lookup SJ.GoIter SJ.GoObject SJ.GoFind SJ.SourceLevelA in
/-- **`Object.FindKey` at source level.** On a tape that holds the located object `.obj p e ms` (gaps anywhere), running
    `Object.FindKey(key, dst)` of `parsed_object.go` (as printed from /repo) on the object's view (`off = p+1`, `lim = e`,
    what `Iter.Object` returns), with a nil or a caller-supplied `dst` holding anything:
    * if some member has the key: returns non-nil, and `dst` describes the FIRST such member in tape order — `dst.Name`
      = the key, `dst.Type` = the type of its value `v`, `dst.Iter` = the cursor restricted to the words of `v` and
      standing on it (`OnNode pj v`);
    * if no member has the key: returns nil.
    The tape is untouched.  Tie hypotheses discharged: `v.lim ≤ len(tape)` (the closing brace of an `Ok` object is a word
    of the tape), the model fuel, the auxiliary iterator of the bundle, and the exception of `FKPost` ("`dst.Iter` left
    alone at the end of the view": the cursor on an `Ok` value is never the zero iterator).  Kept: `BufOK pj` (buffer
    lengths are Go `int`s; `Ok` does not bound the buffers' total size), `key.size < 2^63` (of the property: the code
    compares `int(length)`), and the interpreter's loop budget. -/
theorem C12_source_findKey (pj : PJ) (p e : Nat) (ms : LMems) (key : Bytes) (hkey : key.size < 2 ^ 63)
    (hok : Ok pj (.obj p e ms)) (hb : BufOK pj) (nil : Bool) (d0 : Iter) (extra : Env) (fuel : Nat)
    (hf : 2 * e + 11 ≤ fuel) :
    match firstWithKey key ms with
    | some (_, v) =>
      ∃ e', runFun goFuns goObject_FindKey fuel ⟨fkStore pj { lim := e, off := p + 1 } key nil d0 extra, pj.tape⟩ =
          .ret ⟨e', pj.tape⟩ [.bool true] ∧
        e'.get "dst.Type" = some (.u8 (tagToTypeSpec (tagOfL v))) ∧ e'.get "dst.Name" = some (.bytes key) ∧
        iterAt e' "dst.Iter" = some (elemIter pj v) ∧ Ok pj v ∧ OnNode pj v (elemIter pj v)
    | none =>
      ∃ e', runFun goFuns goObject_FindKey fuel ⟨fkStore pj { lim := e, off := p + 1 } key nil d0 extra, pj.tape⟩ =
          .ret ⟨e', pj.tape⟩ [.bool false] :=
  SJ.SourceLevelA.C12_source_findKey pj p e ms key hkey hok hb nil d0 extra fuel hf

open SJ.Tables SJ.Generated SJ.GoSem SJ.Layout SJ.WalkLayout SJ.Lookup SJ.GoIter SJ.GoObject SJ.GoFind SJ.SourceLevelA in
/-- **`Object.FindPath` at source level.** On a tape that holds the located object `.obj p e ms`, running
    `Object.FindPath(dst, key, rest...)` of `parsed_object.go` (as printed from /repo) on the object's view:
    * if taking the FIRST member with each key of the path in turn reaches a value `v` (`pathSpec … = .ok v`): returns
      `(dst, nil)` with `dst` non-nil, `dst.Name` = the last key of the path, `dst.Type` = the type of `v`, `dst.Iter` =
      the cursor restricted to `v` and standing on it;
    * if some key is absent, or the path continues through a value that is not an object (`pathSpec … = .error _`):
      returns a non-nil error (and a non-nil `dst` when the caller supplied one);
    * nothing else happens: no panic, no divergence (for `pathSpec` this is by definition; for the Go code it is part
      of the statement).
    The tape is untouched.  Discharged and kept hypotheses: as for `C12_source_findKey`.  Not stated (the tie `FPPost`
    does not distinguish error values): WHICH error is returned — `ErrPathNotFound` vs. the `fmt.Errorf` — although
    `pathSpec` names it. -/
theorem C12_source_findPath (pj : PJ) (p e : Nat) (ms : LMems) (key : Bytes) (rest : List Bytes)
    (hkeys : ∀ k ∈ key :: rest, k.size < 2 ^ 63) (hok : Ok pj (.obj p e ms)) (hb : BufOK pj) (nil : Bool) (d0 : Iter)
    (extra : Env) (fuel : Nat) (hf : 2 * e + 11 ≤ fuel) :
    match pathSpec key rest ms with
    | .ok v =>
      ∃ e', runFun goFuns goObject_FindPath fuel
            ⟨fpStore pj { lim := e, off := p + 1 } (key :: rest) nil d0 extra, pj.tape⟩ =
          .ret ⟨e', pj.tape⟩ [.bool true, .bool false] ∧
        e'.get "dst.Type" = some (.u8 (tagToTypeSpec (tagOfL v))) ∧
        e'.get "dst.Name" = some (.bytes (rest.getLastD key)) ∧
        iterAt e' "dst.Iter" = some (elemIter pj v) ∧ Ok pj v ∧ OnNode pj v (elemIter pj v)
    | .error _ =>
      ∃ e' b, runFun goFuns goObject_FindPath fuel
            ⟨fpStore pj { lim := e, off := p + 1 } (key :: rest) nil d0 extra, pj.tape⟩ =
          .ret ⟨e', pj.tape⟩ [.bool b, .bool true] ∧ (nil = false → b = true)
    | .panic => False
    | .diverge => False :=
  SJ.SourceLevelA.C12_source_findPath pj p e ms key rest hkeys hok hb nil d0 extra fuel hf

open SJ.Tables SJ.Generated SJ.GoSem SJ.Numeric SJ.GoIter SJ.GoNum SJ.GoArrNum SJ.SourceLevelA in
/-- **Bulk accessors = plain traversal, at source level.** On a tape that holds the two-word number entries `ws` from the
    start of the array's view, followed by the closing bracket (`NumsAt`), running `Array.AsFloat` / `AsInteger` /
    `AsUint64` of `parsed_array.go` on the view returns what the client loop `srcTraverse` — `Iter.Advance` then
    `Iter.Float` / `Int` / `Uint` of `parsed_json.go`, once per entry, each RUN AS SOURCE — collects: the same numbers in
    the same order and nil, or nil and an error when (and only when) the loop stops on an accessor error; neither side
    panics or does anything else.  Numbers are compared as raw 64-bit words (float bits; for `AsInteger` the two's
    complement of the `int64` that `Int()` returned, read back as `int64`; the `uint64`), exactly as in
    `C12_bulk_eq_traversal`.  The tape is untouched.
    Hypotheses: those of the property (`fuel` is the bulk accessor's loop budget, more than the number of entries); from
    the tie of `Iter.Advance` (C02) `a.lim ≤ len(tape)` is kept — `NumsAt` with `a.off + 2·n < a.lim` bounds the view
    from below only — and `F`, the interpreter's budget for one `Advance`.  The ties of the accessors and of the bulk
    accessors have no hypothesis. -/
theorem C12_source_bulk (pj : PJ) (kind : View.NumKind) (ws : List (UInt64 × UInt64)) (a : View) (fuel F : Nat)
    (hn : NumsAt pj a.off ws) (hl : a.off + 2 * ws.length < a.lim) (hf : ws.length < fuel)
    (hlim : a.lim ≤ pj.tape.size) (hF : a.lim + 8 ≤ F) :
    match srcTraverse kind pj.tape F ws.length a.iter #[] with
    | .vals out =>
      ∃ s, runFun goFuns (bulkOf kind) fuel ⟨[("a.off", .int a.off), ("a.lim", .int a.lim)], pj.tape⟩ =
        .ret s [sliceOf kind out, .bool false] ∧ s.tape = pj.tape
    | .err =>
      ∃ s, runFun goFuns (bulkOf kind) fuel ⟨[("a.off", .int a.off), ("a.lim", .int a.lim)], pj.tape⟩ =
        .ret s [nilOf kind, .bool true] ∧ s.tape = pj.tape
    | .panic => False
    | .other => False :=
  SJ.SourceLevelA.C12_source_bulk pj kind ws a fuel F hn hl hf hlim hF

open SJ.Generated SJ.GoSem SJ.GoIter SJ.Layout SJ.SourceLevelD SJ.Tables SJ.WalkLayout SJ.Lookup SJ.GoObject SJ.GoFind SJ.GoFindElem in
/-- **`Iter.FindElement` on an iterator standing on an object, source level** (`C12_findPath` through the public entry
    point).  On a tape that holds the located object `.obj p e ms` (gaps anywhere), with the receiver standing on it
    (`OnNode`: what `ForEach`, `Root`, `Advance`/`AdvanceInto` or a previous `FindElement` hand out), running
    `i.FindElement(dst, key, rest...)` of `parsed_json.go` (as printed from /repo) — which copies the receiver, builds the
    object's view with `Iter.Object` and hands it to `Object.FindPath` with the caller's `dst` and its nil flag:
    * if taking the FIRST member with each key of the path in turn reaches a value `v` (`pathSpec … = .ok v`): returns
      `(dst, nil)` with `dst` non-nil, `dst.Name` = the last key of the path, `dst.Type` = the type of `v`, `dst.Iter` = the
      cursor restricted to the words of `v` and standing on it;
    * if some key is absent, or the path continues through a value that is not an object (`pathSpec … = .error _`):
      returns a non-nil error (and a non-nil `dst` when the caller supplied one);
    * nothing else happens: no panic, no divergence, never stuck.
    The tape and the receiver `i` are untouched.
    Discharged: the model fuel, `i.off < 2^63` (from `off ≤ lim`), the exception of `FEPost` ("`dst.Iter` left alone at the
    end of the view": the cursor on an `Ok` value is never the zero iterator).  Kept: `BufOK pj` (buffer lengths are Go
    `int`s), `i.lim ≤ len(tape)` (`OnNode` bounds the view from below only), `i.lim < 2^63` (a Go `int`; the model's field
    is a `Nat`), `key.size < 2^63` for every key (of the property), the interpreter's budget `4·lim + 17`.  Not stated (the
    tie does not distinguish error values): WHICH error is returned, although `pathSpec` names it. -/
theorem C12_source_findElement_on (pj : PJ) (p e : Nat) (ms : LMems) (i : Iter) (key : Bytes) (rest : List Bytes)
    (hkeys : ∀ k ∈ key :: rest, k.size < 2 ^ 63) (hok : Ok pj (.obj p e ms)) (hon : OnNode pj (.obj p e ms) i)
    (hb : BufOK pj) (hl : i.lim ≤ pj.tape.size) (hlim : i.lim < 2^63) (nil : Bool) (nm tv : Val) (d0 : Iter) (extra : Env)
    (fuel : Nat) (hf : 4 * i.lim + 17 ≤ fuel) :
    match pathSpec key rest ms with
    | .ok v =>
      ∃ e', runFun goFuns goIter_FindElement fuel ⟨feStore pj i (key :: rest) nil nm tv d0 extra, pj.tape⟩ =
          .ret ⟨e', pj.tape⟩ [.bool true, .bool false] ∧
        e'.get "dst.Type" = some (.u8 (tagToTypeSpec (tagOfL v))) ∧
        e'.get "dst.Name" = some (.bytes (rest.getLastD key)) ∧
        iterAt e' "dst.Iter" = some (elemIter pj v) ∧ iterAt e' "i" = some i ∧ Ok pj v ∧ OnNode pj v (elemIter pj v)
    | .error _ =>
      ∃ e' b, runFun goFuns goIter_FindElement fuel ⟨feStore pj i (key :: rest) nil nm tv d0 extra, pj.tape⟩ =
          .ret ⟨e', pj.tape⟩ [.bool b, .bool true] ∧ (nil = false → b = true) ∧ iterAt e' "i" = some i
    | .panic => False
    | .diverge => False :=
  SJ.SourceLevelD.C12_source_findElement_on pj p e ms i key rest hkeys hok hon hb hl hlim nil nm tv d0 extra fuel hf

open SJ.Generated SJ.GoSem SJ.GoIter SJ.Layout SJ.SourceLevelD SJ.Tables SJ.WalkLayout SJ.Lookup SJ.GoObject SJ.GoFind SJ.GoFindElem in
/-- **`Iter.FindElement` from the document's iterator, source level.**  On a tape denoting a document whose (first) root
    value is the object `.obj p e ms` (`OkRoots`: root entries, gaps anywhere), running `i.FindElement(dst, key, rest...)`
    of `parsed_json.go` (as printed from /repo) from the iterator `ParsedJson.Iter()` builds (`Iter.ofPJ`: view = the whole
    tape, offset 0, nothing read yet) — the loop of `FindElement` steps over the end-of-view state with `AdvanceInto`, into
    the root entry with `Root` on its own copy, builds the object's view and calls `Object.FindPath` — returns the element
    at that path (type, name = the last key, an iterator restricted to the value and standing on it) and `nil` when
    `pathSpec` finds it, and a non-nil error when it does not; no panic, no divergence; tape and receiver untouched.
    Discharged: everything about the receiver (`lim = len(tape)`, `off = 0`), the model fuel.  Kept: `BufOK pj`,
    `len(tape) < 2^63` (a Go `int`), `key.size < 2^63` for every key, the interpreter's budget `4·len(tape) + 17`. -/
theorem C12_source_findElement (pj : PJ) (p e : Nat) (ms : LMems) (vs : List LVal) (key : Bytes) (rest : List Bytes)
    (hkeys : ∀ k ∈ key :: rest, k.size < 2 ^ 63) (hroots : OkRoots pj (.obj p e ms :: vs) 0) (hb : BufOK pj)
    (hsz : pj.tape.size < 2^63) (nil : Bool) (nm tv : Val) (d0 : Iter) (extra : Env) (fuel : Nat)
    (hf : 4 * pj.tape.size + 17 ≤ fuel) :
    match pathSpec key rest ms with
    | .ok v =>
      ∃ e', runFun goFuns goIter_FindElement fuel
            ⟨feStore pj (Iter.ofPJ pj) (key :: rest) nil nm tv d0 extra, pj.tape⟩ =
          .ret ⟨e', pj.tape⟩ [.bool true, .bool false] ∧
        e'.get "dst.Type" = some (.u8 (tagToTypeSpec (tagOfL v))) ∧
        e'.get "dst.Name" = some (.bytes (rest.getLastD key)) ∧
        iterAt e' "dst.Iter" = some (elemIter pj v) ∧ iterAt e' "i" = some (Iter.ofPJ pj) ∧ Ok pj v ∧
        OnNode pj v (elemIter pj v)
    | .error _ =>
      ∃ e' b, runFun goFuns goIter_FindElement fuel
            ⟨feStore pj (Iter.ofPJ pj) (key :: rest) nil nm tv d0 extra, pj.tape⟩ =
          .ret ⟨e', pj.tape⟩ [.bool b, .bool true] ∧ (nil = false → b = true) ∧ iterAt e' "i" = some (Iter.ofPJ pj)
    | .panic => False
    | .diverge => False :=
  SJ.SourceLevelD.C12_source_findElement pj p e ms vs key rest hkeys hroots hb hsz nil nm tv d0 extra fuel hf

open SJ.Generated SJ.GoSem SJ.GoIter SJ.Layout SJ.SourceLevelD SJ.Tables SJ.WalkLayout SJ.Lookup SJ.GoObject SJ.GoArrStr in
/-- **`Array.AsString`, source level.**  There is no property theorem about `AsString` in `Properties/C12`; the statement
    is made against the document directly (`asString_elems` above is the model-level half, proved here).  On a tape that
    holds the located array `.arr p e es` (gaps anywhere), running `Array.AsString()` of `parsed_array.go` (as printed from
    /repo: the loop `AdvanceIter` / `switch t` / `elem.String()` / `append`) on the array's view (`off = p+1`, `lim = e`,
    what `Iter.Array` returns):
    * if every element is a string (`strsOf es = some ss`, i.e. the array DENOTES the array of strings `ss`:
      `strsOf_erase`): returns exactly those strings, in order, and `nil` — each string
      being the bytes the tape denotes for it (from `Message` or the string buffer, as `Ok` reads them); the tape is untouched;
    * if some element is not a string (`strsOf es = none`): returns `nil` and a non-nil error;
    * nothing else: no panic, no divergence, never stuck.
    Tie used: `GoArrStr.asString_sim`, the theorem behind the first half of `C12_string_accessors_follow_source` (the bundle
    asks for the larger loop budget of `AsStringCvt`, a function of the tape's float words; `AsString` alone needs
    `fuelOf + lim + 13`).  Discharged: `v.lim ≤ len(tape)` (the closing bracket of an `Ok` array is a word of the tape), the
    model fuel.  Kept: `BufOK pj` (Go `int` buffer lengths) and the interpreter's budget. -/
theorem C12_source_asString (pj : PJ) (p e : Nat) (es : LVals) (hok : Ok pj (.arr p e es)) (hb : BufOK pj) (extra : Env)
    (F : Nat) (hF : 3 * pj.tape.size + 29 ≤ F) :
    match strsOf es with
    | some ss =>
      ∃ st, runFun goFuns goArray_AsString F ⟨arrStore pj { lim := e, off := p + 1 } extra, pj.tape⟩ =
          .ret st [.keys (ss.map List.toArray), .bool false] ∧ st.tape = pj.tape
    | none =>
      ∃ st, runFun goFuns goArray_AsString F ⟨arrStore pj { lim := e, off := p + 1 } extra, pj.tape⟩ =
          .ret st [.keys [], .bool true] :=
  SJ.SourceLevelD.C12_source_asString pj p e es hok hb extra F hF

open SJ.Generated SJ.GoSem SJ.GoIter SJ.GoObject SJ.Layout SJ.GoWrappers SJ.GoElems SJ.SourceLevelE SJ.Tables SJ.WalkLayout SJ.Lookup in
/-- **`Object.Parse` at source level** (`C12_parse` ∘ `GoElems.parse_tie` + `index_lookup`).  On a tape that holds the located
    object `.obj p e ms` (gaps of NOP entries before, between and after members; each member's value directly after its key,
    `TightTop`, the hypothesis of `C12_parse`), running `o.Parse(dst)` of `parsed_object.go` (as printed from /repo) on the
    object's view (`off = p+1`, `lim = e`, what `Iter.Object` returns) from ANY store `e0` that binds the receiver, the hidden
    flag `dst == nil` (either value: a nil or a recycled destination) and the two shared buffers — the five destination
    variables may hold anything, or be unbound:
    * returns `(dst, nil)` with `dst` non-nil; the tape is untouched; the flag is cleared (a fresh `Elements` was allocated
      when `dst` was nil);
    * `dst.Elements` holds exactly one element per member, in tape order, duplicates included (`membersOf ms`): its `Name` is
      the key's bytes, its `Type` the type of the value's tag, its `Iter` the cursor restricted to the words of the value and
      standing on it (`elemIter`; flattened to five integers `iterInts`) — nothing of a recycled destination survives;
    * `dst.Index` is a map in which a key is present iff some member has it, and then maps to the position of the LAST
      member with that key (`assocGet` is Go's `idx, ok := Index[key]` on the insertion-ordered association `.mapSet` builds);
    * the receiver stands on the closing brace afterwards (`off = e - 1`);
    * every recorded cursor stands on an `Ok` node of the document (`OnNode`), so the accessors' source-level theorems apply.
    Discharged: `v.lim ≤ len(tape)` (the closing brace of an `Ok` object is a word of the tape), the model fuel, the tie's
    representation functions (`encElems`/`indexOf` are written out).  Kept: `TightTop ms` (of the property: `NextElementBytes`
    does not skip NOPs between a key and its value, `Lookup.gap_key_value_discrepancy`), `BufOK pj` (buffer lengths are Go
    `int`s), the interpreter's loop budget `e - p + 4`. -/
theorem C12_source_parse (pj : PJ) (p e : Nat) (ms : LMems) (hok : Ok pj (.obj p e ms)) (ht : TightTop ms) (hb : BufOK pj)
    (b : Bool) (e0 : Env) (hv : viewAt e0 "o" = some { lim := e, off := p + 1 })
    (hN : e0.get "dst==nil" = some (.bool b)) (hS : e0.get "Strings.B" = some (.bytes pj.strings))
    (hM : e0.get "Message" = some (.bytes pj.msg)) (F : Nat) (hF : e - p + 4 ≤ F) :
    ∃ s, runFun goFuns goObject_Parse F ⟨e0, pj.tape⟩ = .ret s [.bool true, .bool false] ∧ s.tape = pj.tape ∧
      s.env.get "dst==nil" = some (.bool false) ∧
      viewAt s.env "o" = some { lim := e, off := e - 1 } ∧
      s.env.get "dst.Elements.Name" = some (.keys ((membersOf ms).map (·.1))) ∧
      s.env.get "dst.Elements.Type" =
        some (.bytes ((membersOf ms).map fun kv => tagToTypeSpec (tagOfL kv.2)).toArray) ∧
      s.env.get "dst.Elements.Iter" = some (.ints ((membersOf ms).flatMap fun kv => iterInts (elemIter pj kv.2))) ∧
      (∃ ik iv, s.env.get "dst.Index.k" = some (.keys ik) ∧ s.env.get "dst.Index.v" = some (.ints iv) ∧
        ∀ k : Bytes,
          (assocGet (ik, iv) k = none ↔ ∀ kv ∈ membersOf ms, kv.1 ≠ k) ∧
          (∀ x, assocGet (ik, iv) k = some x → ∃ q : Nat, x = (q : Int)) ∧
          ∀ q : Nat, assocGet (ik, iv) k = some (q : Int) ↔
            ∃ h : q < (membersOf ms).length, ((membersOf ms)[q]).1 = k ∧
              ∀ r (hr : r < (membersOf ms).length), q < r → ((membersOf ms)[r]).1 ≠ k) ∧
      ∀ kv ∈ membersOf ms, Ok pj kv.2 ∧ OnNode pj kv.2 (elemIter pj kv.2) :=
  SJ.SourceLevelE.C12_source_parse pj p e ms hok ht hb b e0 hv hN hS hM F hF

open SJ.Generated SJ.GoSem SJ.GoIter SJ.GoObject SJ.Layout SJ.GoWrappers SJ.GoElems SJ.SourceLevelE SJ.Tables SJ.WalkLayout SJ.Lookup in
/-- the same, said with the tie's representation: the five destination variables are `encElems`/`indexOf` of the members'
    elements (`GoElems.DstIs`) — the form `C10_source_elements_marshal` consumes -/
theorem C12_source_parse_dstIs (pj : PJ) (p e : Nat) (ms : LMems) (hok : Ok pj (.obj p e ms)) (ht : TightTop ms)
    (hb : BufOK pj) (b : Bool) (e0 : Env) (hv : viewAt e0 "o" = some { lim := e, off := p + 1 })
    (hN : e0.get "dst==nil" = some (.bool b)) (hS : e0.get "Strings.B" = some (.bytes pj.strings))
    (hM : e0.get "Message" = some (.bytes pj.msg)) (F : Nat) (hF : e - p + 4 ≤ F) :
    ∃ s, runFun goFuns goObject_Parse F ⟨e0, pj.tape⟩ = .ret s [.bool true, .bool false] ∧ s.tape = pj.tape ∧
      DstIs s.env (memElems pj ms) :=
  SJ.SourceLevelE.C12_source_parse_dstIs pj p e ms hok ht hb b e0 hv hN hS hM F hF

open SJ.Generated SJ.GoSem SJ.GoIter SJ.GoObject SJ.Layout SJ.GoWrappers SJ.GoElems SJ.SourceLevelE SJ.Tables SJ.WalkLayout SJ.Lookup SJ.GoApi in
/-- **One step of `Object.NextElement`, source level** (`GoApi.nextElement_sim`, the theorem behind the `NextElement` line of
    `C12_api_follows_source` / the `NextElementBytes` line of `C12_object_walk_follows_source`, ∘ the member step of
    `C12_parse`'s proof).  The tape holds, between `lo` and `hi`, the located members `(k, v) :: ms` of an object
    (`OkMems`: NOP gaps before and between members) with `v` directly after its key (`v.pos = pk + 2`), and the receiver is
    the view `{off = lo, lim}` with `hi < lim ≤ len(tape)` (the object's view, or what an earlier step left).  Running
    `o.NextElement(dst)` of `parsed_object.go` (as printed from /repo) from ANY store binding the receiver, a complete `*dst`
    (holding anything) and the two buffers returns the member's key bytes as `name`, the `Type` of the value's tag, and `nil`;
    afterwards `*dst` is the cursor restricted to the words of `v` and standing on it (`elemIter`, `OnNode`), the receiver
    stands right after `v` (`off = v.fin`) — so that the remaining members `ms` are again in front of it (`OkMems pj ms v.fin
    hi`: the theorem applies again) — and tape and buffers are untouched.
    Discharged: the model fuel.  Kept: `lim ≤ len(tape)` (a view of the tape), `BufOK pj` (Go `int` buffer lengths), the
    key-value tightness of THIS member (of the property: `NextElementBytes` does not skip NOPs between key and value), the
    interpreter's budget `lim - lo + 2`. -/
theorem C12_source_nextElement (pj : PJ) (lim lo hi pk : Nat) (k : List UInt8) (v : LVal) (ms : LMems)
    (hms : OkMems pj (.cons pk k v ms) lo hi) (hp : v.pos = pk + 2) (hlt : hi < lim) (hl : lim ≤ pj.tape.size)
    (hb : BufOK pj) (d0 : Iter) (e0 : Env) (hv : viewAt e0 "o" = some { lim := lim, off := lo })
    (hd : iterAt e0 "dst" = some d0) (hS : e0.get "Strings.B" = some (.bytes pj.strings))
    (hM : e0.get "Message" = some (.bytes pj.msg)) (F : Nat) (hF : lim - lo + 2 ≤ F) :
    ∃ s, runFun goFuns goObject_NextElement F ⟨e0, pj.tape⟩ =
        .ret s [.bytes k.toArray, .u8 (tagToTypeSpec (tagOfL v)), .bool false] ∧
      s.tape = pj.tape ∧ viewAt s.env "o" = some { lim := lim, off := v.fin } ∧
      iterAt s.env "dst" = some (elemIter pj v) ∧
      s.env.get "Strings.B" = some (.bytes pj.strings) ∧ s.env.get "Message" = some (.bytes pj.msg) ∧
      Ok pj v ∧ OnNode pj v (elemIter pj v) ∧ OkMems pj ms v.fin hi :=
  SJ.SourceLevelE.C12_source_nextElement pj lim lo hi pk k v ms hms hp hlt hl hb d0 e0 hv hd hS hM F hF

open SJ.Generated SJ.GoSem SJ.GoIter SJ.GoObject SJ.Layout SJ.GoWrappers SJ.GoElems SJ.SourceLevelE SJ.Tables SJ.WalkLayout SJ.Lookup SJ.GoApi in
/-- **… and the last step**: with only a NOP gap between the receiver and the closing brace at `hi`, `o.NextElement(dst)`
    returns the empty name, `TypeNone` and `nil`; `*dst` is left alone, the receiver stands on the brace (every further call
    answers the same), tape and buffers are untouched. -/
theorem C12_source_nextElement_end (pj : PJ) (lim lo hi : Nat) (hms : OkMems pj .nil lo hi) (hlt : hi < lim)
    (hend : ∃ c, word pj hi = some c ∧ tagOf c = tagObjectEnd) (hl : lim ≤ pj.tape.size) (hb : BufOK pj) (d0 : Iter)
    (e0 : Env) (hv : viewAt e0 "o" = some { lim := lim, off := lo }) (hd : iterAt e0 "dst" = some d0)
    (hS : e0.get "Strings.B" = some (.bytes pj.strings)) (hM : e0.get "Message" = some (.bytes pj.msg))
    (F : Nat) (hF : lim - lo + 2 ≤ F) :
    ∃ s, runFun goFuns goObject_NextElement F ⟨e0, pj.tape⟩ = .ret s [.bytes #[], .u8 typeNone, .bool false] ∧
      s.tape = pj.tape ∧ viewAt s.env "o" = some { lim := lim, off := hi } ∧ iterAt s.env "dst" = some d0 ∧
      s.env.get "Strings.B" = some (.bytes pj.strings) ∧ s.env.get "Message" = some (.bytes pj.msg) :=
  SJ.SourceLevelE.C12_source_nextElement_end pj lim lo hi hms hlt hend hl hb d0 e0 hv hd hS hM F hF

open SJ.Generated SJ.GoSem SJ.GoIter SJ.GoObject SJ.Layout SJ.GoWrappers SJ.GoElems SJ.SourceLevelE SJ.Tables SJ.WalkLayout SJ.Lookup SJ.GoApi in
/-- **Walking an object with `NextElement` lists every member, source level** (the plain traversal `Parse` is built on).  On
    a tape that holds the located object `.obj p e ms` (`TightTop`), calling the regenerated `o.NextElement(dst)` again and
    again on the object's view — each call on the store the previous one left, from ANY store binding the receiver, a
    complete `*dst` and the buffers — until it reports `TypeNone` (`srcElements`, with any bound `n` above the number of
    members) yields exactly one `(name, type, *dst)` per member, in tape order, duplicates included: the key's bytes, the type
    of the value's tag, and the cursor restricted to the value and standing on it; no call returns an error or panics.
    Hypotheses kept: as `C12_source_parse` (`TightTop`, `BufOK`), budget `e - p + 1` per call. -/
theorem C12_source_nextElement_walk (pj : PJ) (p e : Nat) (ms : LMems) (hok : Ok pj (.obj p e ms)) (ht : TightTop ms)
    (hb : BufOK pj) (d0 : Iter) (e0 : Env) (hv : viewAt e0 "o" = some { lim := e, off := p + 1 })
    (hd : iterAt e0 "dst" = some d0) (hS : e0.get "Strings.B" = some (.bytes pj.strings))
    (hM : e0.get "Message" = some (.bytes pj.msg)) (F : Nat) (hF : e - p + 1 ≤ F) (n : Nat) (hn : memCount ms < n) :
    srcElements F pj.tape n e0 =
      some ((membersOf ms).map fun kv => (kv.1, tagToTypeSpec (tagOfL kv.2), some (elemIter pj kv.2))) :=
  SJ.SourceLevelE.C12_source_nextElement_walk pj p e ms hok ht hb d0 e0 hv hd hS hM F hF n hn

open SJ.Generated SJ.GoSem SJ.GoIter SJ.GoSet SJ.Layout SJ.SourceLevelF SJ.Tables SJ.WalkLayout SJ.Lookup SJ.DeleteDoc SJ.GoObject SJ.GoDelete in
/-- **`Object.ForEach(fn, onlyKeys)`, source level** (`C12_forEach` ∘ the `Object.ForEach` tie `GoDelete.objForEach_sim`, the
    third clause of `C14_delete_code_follows_source`).  On a tape that holds the located object `.obj p e ms` (NOP gaps
    anywhere), with no filter or with pairwise distinct member keys: running `Object.ForEach` of `parsed_object.go` (as printed
    from /repo) on the object's view (`off = p+1`, `lim = e`, what `Iter.Object` returns) with the key set `ks` returns `nil`,
    leaves the tape alone, and the log of what the callback was handed is exactly, in tape order, one entry
    `(len(name), iterator)` per member whose key is in `ks` — every member when `ks` is empty — with the member's own key
    bytes as `name` and the iterator standing on the member's own value (`skipIter pj e v`: one past the value's first word,
    that word's tag and payload, the object's view, next `Advance` at the value's end; `OnNode`).  Nothing else is logged.
    Discharged: the tie's view premise (`e ≤ len(tape)`: the closing brace is a word of the tape), the model fuel
    (`fuelOf pj` is above `e - p`), the empty log and the parameter in the store.  Remaining: `BufOK pj` (both string buffers
    shorter than 2^63 bytes, Go `int`: the keys are compared through `stringByteAt`; `Ok` does not bound the buffers), the
    property's own premise `h` (for duplicate keys under a filter `ForEach` stops early: `Lookup.forEach_dup_discrepancy`),
    the interpreter's loop budget `2·e + 7`. -/
theorem C12_source_forEach (pj : PJ) (p e : Nat) (ms : LMems) (ks : List Bytes) (hok : Ok pj (.obj p e ms))
    (h : ks = [] ∨ (memKeys ms).Nodup) (hb : BufOK pj) (fuel : Nat) (hf : 2 * e + 7 ≤ fuel) :
    ∃ s, runFun goFuns goObject_ForEach fuel
        ⟨objStore pj { lim := e, off := p + 1 } ks [("fn.log", .ints [])], pj.tape⟩ = .ret s [.bool false] ∧
      s.tape = pj.tape ∧
      GoDelete.logOf s.env = encNIs ((membersWithKeys ks ms).map (cbOf pj e)).toArray ∧
      ∀ kv ∈ membersWithKeys ks ms, Ok pj kv.2 ∧ OnNode pj kv.2 (skipIter pj e kv.2) ∧
        (skipIter pj e kv.2).t = tagOfL kv.2 :=
  SJ.SourceLevelF.C12_source_forEach pj p e ms ks hok h hb fuel hf

open SJ.Generated SJ.GoSem SJ.GoIter SJ.GoSet SJ.Layout SJ.SourceLevelF SJ.Tables SJ.WalkLayout SJ.Lookup SJ.DeleteDoc SJ.GoObject SJ.GoDelete in
/-- **`Array.ForEach(fn)`, source level** (the `Array.ForEach` tie `GoDelete.arrForEach_sim`, second clause of
    `C14_delete_code_follows_source`, ∘ the element walk of the model, `arrForEach_arr` above — the read-only half of the
    walk behind `C14_array_delete`; there was no property theorem for `View.arrForEach`).  On a tape that holds the located
    array `.arr p e es` (NOP gaps anywhere): running `Array.ForEach` of `parsed_array.go` (as printed from /repo) on the
    array's view returns, leaves the tape alone, and the log shows that the callback was made exactly once per element, in
    order, each time with an iterator standing on that element (`Stands`: one past the element's first word, holding that
    word's tag and payload, the array's view, next `Advance` at the element's end).
    Discharged: the view premise (`e ≤ len(tape)`), the model fuel, the empty log.  `BufOK` is not needed (no string is
    read).  Remaining: the interpreter's loop budget `2·e + 6`. -/
theorem C12_source_arrForEach (pj : PJ) (p e : Nat) (es : LVals) (hok : Ok pj (.arr p e es)) (fuel : Nat)
    (hf : 2 * e + 6 ≤ fuel) :
    ∃ s its, runFun goFuns goArray_ForEach fuel
        ⟨arrStore pj { lim := e, off := p + 1 } [("fn.log", .ints [])], pj.tape⟩ = .ret s [] ∧
      s.tape = pj.tape ∧ GoDelete.logOf s.env = GoDelete.encIters its ∧ its.size = lenVs es ∧
      Stands pj e es its.toList :=
  SJ.SourceLevelF.C12_source_arrForEach pj p e es hok fuel hf

open SJ.Generated SJ.GoSem SJ.GoIter SJ.GoSet SJ.Layout SJ.SourceLevelF SJ.Tables SJ.WalkLayout SJ.Lookup SJ.DeleteDoc SJ.GoObject SJ.GoDelete in
/-- **`Array.FirstType()`, source level** (the `Array.FirstType` tie `GoDelete.arrFirstType_sim`, first clause of
    `C14_delete_code_follows_source`, ∘ `firstType_arr` above; there was no property theorem for `View.firstType`).  On a tape
    that holds the located array `.arr p e es` (NOP gaps anywhere, also before the first element): running `Array.FirstType`
    of `parsed_array.go` (as printed from /repo) on the array's view returns the `Type` of the first element's tag
    (`tagToTypeSpec`, the table `C12_tag_types` identifies with `TagToType`), and `TypeNone` for the empty array; the tape is
    untouched.
    Discharged: the view premise (`e ≤ len(tape)`).  No `BufOK`.  Remaining: the interpreter's loop budget `e + 2` (one
    unit per NOP word stepped over). -/
theorem C12_source_firstType (pj : PJ) (p e : Nat) (es : LVals) (hok : Ok pj (.arr p e es)) (fuel : Nat)
    (hf : e + 2 ≤ fuel) :
    ∃ s, runFun goFuns goArray_FirstType fuel ⟨arrStore pj { lim := e, off := p + 1 } [], pj.tape⟩ =
        .ret s [.u8 (match es with | .nil => typeNone | .cons v _ => tagToTypeSpec (tagOfL v))] ∧
      s.tape = pj.tape :=
  SJ.SourceLevelF.C12_source_firstType pj p e es hok fuel hf

open SJ SJ.Generated SJ.GoSem SJ.GoIter SJ.GoObject SJ.Layout SJ.WalkSafe SJ.WalkLayout SJ.Lookup SJ.GoInterface in
/-- **`Object.Map(nil)` of /repo on an object of a document** (`SourceLevelG.source_map_of_document` without the
    executable premise `hdef`): on a tape denoting the object `ms` (`Ok`, tight), running the regenerated `Object.Map` with
    a nil destination returns the map with every member inserted in order (the last duplicate wins, values as
    `Interface()` returns them) and leaves the tape unchanged. -/
theorem C12_source_map (pj : PJ) (hb : BufOK pj) (hsz : pj.tape.size < 2^63) (p e : Nat) (ms : LMems)
    (hok : Ok pj (.obj p e ms)) (ht : TightMs ms)
    (F : Nat) (hF : goFuel pj (fuelOf pj) ≤ F) :
    ∃ s, runFun goFuns goObject_Map F
        ⟨[("o.off", .int ((p + 1 : Nat) : Int)), ("o.lim", .int (e : Int)), ("dst", .iface (.obj [])), ("dst==nil", .bool true)] ++
          bufEnv pj, pj.tape⟩ =
      .ret s [.iface (.obj ((toIMems ms).foldl (fun m kv => mapInsert m kv.1 kv.2) [])), .bool false] ∧
      s.tape = pj.tape :=
  SJ.SourceLevelH.source_map_of_document_full pj hb hsz p e ms hok ht F hF

open SJ SJ.Generated SJ.GoSem SJ.GoIter SJ.GoObject SJ.Layout SJ.WalkSafe SJ.WalkLayout SJ.Lookup SJ.GoInterface in
/-- **`Interface()` of /repo on a node of a document.** On a tape denoting the value `v` (`Ok`, tight) with the iterator
    standing on it, running the regenerated `Iter.Interface` returns `toIVal v` — objects as maps with the last
    duplicate winning, arrays in order, numbers by their tag — with a nil error, the tape unchanged and the iterator
    where it was. No function of the hand model in the conclusion. -/
theorem C12_source_interface (pj : PJ) (hb : BufOK pj) (hsz : pj.tape.size < 2^63) (v : LVal) (i : Iter)
    (hok : Ok pj v) (ht : Tight v) (hon : OnNode pj v i) (hl : i.lim ≤ pj.tape.size)
    (F : Nat) (hF : goFuel pj (fuelOf pj) ≤ F) :
    ∃ s, runFun goFuns goIter_Interface F ⟨envOf "i" i ++ bufEnv pj, pj.tape⟩ =
      .ret s [.iface (toIVal v), .bool false] ∧ s.tape = pj.tape ∧ iterAt s.env "i" = some i :=
  SJ.SourceLevelH.source_interface_of_node pj hb hsz v i hok ht hon hl F hF

open SJ SJ.Generated SJ.GoSem SJ.GoIter SJ.GoObject SJ.Layout SJ.WalkLayout SJ.ParseDefs SJ.MarshalExact SJ.GoMarshal SJ.SourceLevelI SJ.TrimEdge SJ.GoPJForEach SJ.Lookup in
/-- **Parse, then `Interface()`, source level (E2).**  ASSUMED: the trimmed input is shorter than 2^50 bytes (`SizeOK`) and
    the parser model (`Parse` or `ParseND`, either string mode) returns the tape `pj`.  CONCLUDED: the tape holds located,
    tight root values `lvs` (erased: the document the reference decoder reads off the tape), and for every root value
    `lv ∈ lvs`, every iterator `it` standing on it with its view inside the tape (`RootIter pj lv it`: what
    `ParsedJson.ForEach` hands out, see `parse_then_forEach_source`) and every interpreter fuel `F ≥ 21·n + 72` (`n` = length
    of the trimmed input), running the regenerated `Iter.Interface` returns `toIVal lv` — objects as maps with the last
    duplicate winning, arrays in order, numbers by their tag — and a nil error, leaves the tape unchanged and the iterator
    where it was.
    Discharged from the parser facts (`parse_side_conditions`): `BufOK pj`, `pj.tape.size < 2^63`, and the tie's fuel
    `goFuel pj (fuelOf pj) = 7·len(tape) + 58 ≤ 21·n + 72`.  Nothing about the tape remains as a hypothesis. -/
theorem C12_source_parse_then_interface (cfg : Cfg) (nd : Bool) (input : Bytes) (pj : PJ) (hsz : SizeOK (trimSpace input))
    (h : parseAny cfg nd input = .ok pj) :
    ∃ lvs : List LVal, OkRoots pj lvs 0 ∧ (∀ v ∈ lvs, Tight v) ∧
      decodeTapeD pj = some ((lvs.map erase).map DecodeSound.toOVal) ∧
      ∀ lv ∈ lvs, ∀ it : Iter, RootIter pj lv it → ∀ F : Nat, 21 * (trimSpace input).size + 72 ≤ F →
        ∃ s, runFun goFuns goIter_Interface F ⟨envOf "i" it ++ bufEnv pj, pj.tape⟩ =
          .ret s [.iface (toIVal lv), .bool false] ∧ s.tape = pj.tape ∧ iterAt s.env "i" = some it :=
  SJ.SourceLevelI.parse_then_interface_source cfg nd input pj hsz h

end SJ.Properties.C12
