import SJ.Proofs.Facts
/-
C20 — Independent objects can be used from concurrent goroutines.
-/
namespace SJ.Properties.C20
open SJ SJ.Generated

/-- All package-level state: read-only tables, sync.Pool, sync.Once and one shared zstd decoder. -/
theorem C20_globals :
    (packageVars.filter (fun p => p.2 == "sync.Pool")).map (·.1) = ["s2FastWriters", "s2Readers", "s2Writers", "zEncFast"] ∧
    (packageVars.filter (fun p => p.2 == "sync.Once")).map (·.1) = ["initSerializerOnce"] ∧ packageVars.length = 16 :=
  ⟨Facts.package_vars.2.1, Facts.package_vars.2.2, by rw [show packageVars.length = (packageVars.map (·.1)).length by simp, Facts.package_vars.1]; decide⟩
/-- Goroutines are started only by the stream functions, the serializer's codecs and the large-input parse. -/
theorem C20_go_sites :
    goStatements.eraseDups = ["ParseNDStream", "Serializer.Serialize", "Serializer.decBlock",
      "internalParsedJson.parseMessage", "serializeNDStream"] := Facts.go_sites
/-- Pool Get/Put sites. -/
theorem C20_pool_sites : poolSites.length = 11 := by rw [Facts.pool_sites]; decide
/-- Every assignment of the parse entry points targets the per-call object. -/
theorem C20_parser_state : parseAssignments.length = 15 := by rw [Facts.parse_assignments]; decide

end SJ.Properties.C20
