import SJ.Proofs.Facts
import SJ.Proofs.Shared
import SJ.Generated.GoPools
import SJ.Generated.GoJoins
/-
C20 — Independent objects can be used from concurrent goroutines.
-/
namespace SJ.Properties.C20
open SJ SJ.Generated

/-- All package-level state: read-only tables, sync.Pool, sync.Once and one shared zstd decoder. -/
theorem C20_globals :
    (packageVars.filter (fun p => p.2 == "sync.Pool")).map (·.1) = ["s2FastWriters", "s2Readers", "s2Writers", "zEncFast"] ∧
    (packageVars.filter (fun p => p.2 == "sync.Once")).map (·.1) = ["initSerializerOnce"] ∧ packageVars.length = 16 :=
  ⟨Facts.package_vars.2.1, Facts.package_vars.2.2, by rw [show packageVars.length = (packageVars.map (·.1)).length by simp, Facts.package_vars.1]; decide⟩
/-- Goroutines are started only by the stream functions, the serializer's codecs and the large-input parse. -/
theorem C20_go_sites :
    goStatements.eraseDups = ["ParseNDStream", "Serializer.Serialize", "Serializer.decBlock",
      "internalParsedJson.parseMessage", "serializeNDStream"] := Facts.go_sites
/-- Pool Get/Put sites. -/
theorem C20_pool_sites : poolSites.length = 11 := by rw [Facts.pool_sites]; decide
/-- Every assignment of the parse entry points targets the per-call object. -/
theorem C20_parser_state : parseAssignments.length = 15 := by rw [Facts.parse_assignments]; decide

open SJ.Shared

/-- **Every pool site of the source obeys the discipline** (regenerated: per `<pool>.Get()` site, what is done to the
    object in source order along the branch of the Get): the first thing done to a pooled object is `Reset` (or, for
    byte buffers, a re-slice to nothing, or the group re-slice / filling `Read` / re-slice to the count read), nothing
    touches it after `Put`, and no site takes a second object into the same variable while one is held. -/
theorem C20_pool_discipline : poolDiscipline.all (fun s => disciplinedCalls s.2) = true := by decide

/-- The six sites, by pool: nothing else in the package takes an object from a pool … -/
theorem C20_pool_sites_named : poolDiscipline.map (·.1) =
    ["ParseNDStream:tmpPool", "Serializer.decBlock:s2Readers", "encBlock:s2FastWriters", "encBlock:s2Writers",
     "encBlock:zEncFast", "serializeNDStream:dstPool"] := by decide

/-- … and the only `Put` of something that was not taken from the pool in the same function is the chunk buffer of a
    recycled stream result (`tmpPool.Put(v.Message)`: the caller promises not to touch what it sends on `reuse`). -/
theorem C20_foreign_puts : poolForeignPuts = ["ParseNDStream:tmpPool.Put(v.Message)"] := by decide

/-- A site accepted by the check is a disciplined program of the model. -/
theorem C20_site_is_disciplined {L A I O : Type} (a : L → A) (i : L → I) (ab : L → O → L) (cs : List String)
    (h : disciplinedCalls cs = true) : disciplined (callsToProgram a i ab cs) = true :=
  disciplinedCalls_sound a i ab cs h

/-- **Non-interference, every schedule.** N goroutines (`P g` is the program of goroutine `g`: operations on its own
    state, `Get`/`Reset`/use/`Put` on shared pools, calls of shared stateless functions such as `zDec.DecodeAll`), any
    initial pool content in arbitrary states, any schedule — including which pooled object a `Get` returns. If the
    programs obey the discipline above and `Reset` makes an object's state independent of its past, then after ANY
    schedule prefix every goroutine's state and outputs are exactly those of running the consumed prefix of its
    program alone on empty pools. -/
theorem C20_noninterference {S A I O L : Type} (sc : Scratch S A I O) (hc : ResetContract sc) (objs : List (Nat × S)) (l0 : Nat → L)
    (P : Nat → Program L A I O) (hd : ∀ g, disciplined (P g) = true) (sched : Sched) (g : Nat) :
    result (run sc (init sc objs l0 P) sched) g = runSolo sc (l0 g) ((P g).take (turns g sched)) ∧
    ((run sc (init sc objs l0 P) sched).gs g).prog = (P g).drop (turns g sched) :=
  noninterference sc hc objs l0 P hd sched g

/-- Every goroutine can always step (no operation blocks), and once every goroutine has had its turns the results
    are the solo results. -/
theorem C20_complete {S A I O L : Type} (sc : Scratch S A I O) (hc : ResetContract sc) (objs : List (Nat × S)) (l0 : Nat → L)
    (P : Nat → Program L A I O) (hd : ∀ g, disciplined (P g) = true) (sched : Sched)
    (hfair : ∀ g, (P g).length ≤ turns g sched) (g : Nat) :
    ((run sc (init sc objs l0 P) sched).gs g).prog = [] ∧
    result (run sc (init sc objs l0 P) sched) g = runSolo sc (l0 g) (P g) :=
  complete sc hc objs l0 P hd sched hfair g

/-- **Exclusive ownership**: in every reachable state a pooled object is held by at most one goroutine through one
    variable, is never at once held and in a pool, and never twice in the pools. -/
theorem C20_pool_exclusive {S A I O L : Type} (sc : Scratch S A I O) (hc : ResetContract sc) (objs : List (Nat × S)) (l0 : Nat → L)
    (P : Nat → Program L A I O) (hd : ∀ g, disciplined (P g) = true) (sched : Sched) :
    let s := run sc (init sc objs l0 P) sched
    let done := fun g => (P g).take (turns g sched)
    (∀ g v g' v' r, Holds s (done g) g v r → Holds s (done g') g' v' r → g = g' ∧ v = v') ∧
    (∀ g v r k, Holds s (done g) g v r → r ∉ s.pools k) ∧
    (∀ k, (s.pools k).Nodup) ∧
    (∀ k k' r, r ∈ s.pools k → r ∈ s.pools k' → k = k') :=
  let h := pool_exclusive sc hc objs l0 P hd sched
  ⟨h.1, h.2.1, h.2.2.1, h.2.2.2.1⟩

open SJ.Joins SJ.Generated in
/-- the regenerated event list of `Serializer.Deserialize` passes the join check, and every path through `decBlock`
    returns no error once it has started a goroutine (kernel evaluation of the two executable checks) -/
theorem C20_joins_checked : joinsOK deserializeJoinEvents = true ∧ decBlockPaths.all pathOK = true := by decide

open SJ.Joins SJ.Generated in
/-- **Deserialize joins its goroutines before every return.** At every return statement of the regenerated event list,
    every WaitGroup handed to a `decBlock` call in front of it (which may have started a decompressor writing the
    destination) and not explicitly waited for since has its `defer X.Wait()` registered earlier — so when Deserialize
    is back in its caller, with a result or with an error, none of its goroutines is still running. (A `decBlock` call
    whose own error return comes right after it counts from after that return: `C20_decBlock_error_starts_nothing`.) -/
theorem C20_deserialize_joins_before_return (pre rest : List Ev) (h : deserializeJoinEvents = pre ++ .ret :: rest)
    (w : String) (hu : Unjoined pre w) : Deferred pre w :=
  joinsOK_sound deserializeJoinEvents C20_joins_checked.1 pre rest h w hu

open SJ.Joins SJ.Generated in
/-- on every path through the regenerated `decBlock`, a `go` statement is never followed by an error return: an error
    from `decBlock` means that this call started nothing -/
theorem C20_decBlock_error_starts_nothing (p : List DEv) (hp : p ∈ decBlockPaths) (a b : List DEv) (hs : p = a ++ .go :: b) :
    DEv.retErr ∉ b :=
  pathOK_sound p (List.all_eq_true.mp C20_joins_checked.2 p hp) a b hs

open SJ.Joins in
/-- the check is not vacuous: the order of the unrepaired tree (the join registered after the message block) fails it,
    and so does a Deserialize without deferred joins -/
theorem C20_joins_rejects :
    joinsOK [.start "sWG", .ret, .ret, .start "sWG", .deferWait "sWG", .ret] = false ∧
    joinsOK [.start "sWG", .start "wg", .wait "wg", .ret, .wait "sWG", .ret] = false := by decide

end SJ.Properties.C20
