import SJ.Properties.C14
import SJ.Proofs.SourceLevelB
import SJ.Proofs.SourceLevelC
import SJ.Proofs.SourceLevelD
import SJ.Proofs.SourceLevelF
set_option linter.unusedVariables false
/-
C14 — source level. The theorems of Properties/C14.lean composed with the source ties of DESIGN §6.3: each statement
below is about the MEANING OF THE REGENERATED GO SOURCE (`GoSem.runFun goFuns <tree> fuel ⟨store, tape⟩`), with no
function of the hand model in its conclusion. Proofs: SJ/Proofs/SourceLevelA.lean, SourceLevelB.lean.
-/
namespace SJ.Properties.C14

open SJ.Generated SJ.GoSem SJ.GoIter SJ.GoSet SJ.Layout in
/-- **`SetNull` on a container, source level** (the writer of gaps): the object or array node `[q, e)` becomes `null`
    followed by a gap ending exactly at `e`; nothing else changes.  Discharged from the property's hypotheses: `cur < 2^63`
    (`cur = e ≤ lim ≤ len(tape) < 2^56`).  Fuel: one unit per word of the container, plus two. -/
theorem C14_source_setNull_container (pj : PJ) (v : LVal) (hok : Ok pj v) (q e : Nat) (hnode : HasNode q e v) (hqe : q + 2 ≤ e)
    (hsmall : pj.tape.size < 2^56) (i : Iter) (hoff : i.off = q + 1) (hcur : i.cur.toNat = e)
    (hview : i.cur.toNat ≤ i.lim) (hl : i.lim ≤ pj.tape.size)
    (ht0 : inCase (caseOf swSetNull 0) i.t = false) (ht1 : inCase (caseOf swSetNull 1) i.t = false)
    (ht : inCase (caseOf swSetNull 2) i.t = true) (fuel : Nat) (hf : e - q + 1 ≤ fuel) :
    ∃ s, runFun goFuns goIter_SetNull fuel
        { env := envOf "i" i ++ [("Strings.B", .bytes pj.strings)], tape := pj.tape } = .ret s [.bool false] ∧
      Ok { tape := s.tape, strings := pj.strings, msg := pj.msg } (substV q (.null q) v) ∧
      s.env.get "Strings.B" = some (.bytes pj.strings) ∧ s.tape.size = pj.tape.size ∧ ∃ i', iterAt s.env "i" = some i' :=
  SJ.SourceLevelB.C14_source_setNull_container pj v hok q e hnode hqe hsmall i hoff hcur hview hl ht0 ht1 ht fuel hf

open SJ.Generated SJ.GoSem SJ.GoIter SJ.GoSet SJ.Layout SJ.GoDelete SJ.GoObject SJ.DeleteDoc SJ.WalkLayout SJ.SourceLevelB in
/-- **`Array.DeleteElems`, source level.**  `doc` is a located document held by the tape, `[p, e)` one of its array nodes,
    `q k` the answer the callback will give to its `k`-th call (`N` answers queued, at least one per word of the array's
    interior, as the tie asks).  Running the regenerated `goArray_DeleteElems` on the array's view returns; the log shows that the
    callback was made once per element, in order, each time with an iterator standing on that element (`Stands`); exactly
    `lenVs es` answers were consumed; and the tape left holds `doc` with exactly that array replaced by the elements for which
    deletion was not requested, at their old positions — tape length unchanged (strings and message are not written by this
    function: they are not outputs of the run).
    Discharged from the property's hypotheses: the view lies inside the tape (`e ≤ len(tape)` because the end tag of the array is a
    word of the tape), the model fuel.  `BufOK` is not needed for arrays.  Remaining: interpreter fuel `2·e + 7`. -/
theorem C14_source_array_delete (pj : PJ) (doc : LVal) (hdoc : Ok pj doc) (p e : Nat) (es : LVals) (q : Nat → Bool)
    (hnode : HasNode p e doc) (hok : Ok pj (.arr p e es)) (hsmall : pj.tape.size < 2^56)
    (N : Nat) (hN : e - (p + 1) ≤ N) (fuel : Nat) (hf : 2 * e + 7 ≤ fuel) :
    ∃ s its, runFun goFuns goArray_DeleteElems fuel
        ⟨arrStore pj { lim := e, off := p + 1 } [("fn.results", .bools (answers N q)), ("fn.log", .ints [])], pj.tape⟩ =
          .ret s [] ∧
      Ok { tape := s.tape, strings := pj.strings, msg := pj.msg } (substV p (.arr p e (filterVs q 0 es)) doc) ∧
      s.tape.size = pj.tape.size ∧
      logOf s.env = encIters its ∧ its.size = lenVs es ∧ Stands pj e es its.toList ∧
      s.env.get "fn.results" = some (.bools ((answers N q).drop (lenVs es))) :=
  SJ.SourceLevelB.C14_source_array_delete pj doc hdoc p e es q hnode hok hsmall N hN fuel hf

open SJ.Generated SJ.GoSem SJ.GoIter SJ.GoSet SJ.Layout SJ.GoDelete SJ.GoObject SJ.DeleteDoc SJ.WalkLayout SJ.SourceLevelB in
/-- **`Object.DeleteElems(fn, onlyKeys)`, source level**, callback answers `q` (the `k`-th call answers `q k`).  On a tape
    holding the located document `doc` with the object node `[p, e)`: running the regenerated `goObject_DeleteElems` on the
    object's view returns `nil`; the log shows one callback per member whose key passes the filter `ks` (all members if `ks` is
    empty), in order, each with the key's length and an iterator standing on the member's value (`StandsM`); exactly that many
    answers were consumed; the tape left holds `doc` with the object replaced by the survivors (`filterMs`: the `n`-th visited
    member is dropped iff `q n`; unvisited members stay); tape length unchanged.
    Discharged: the view lies inside the tape, model fuel.  Remaining: `BufOK pj` — the two string buffers are shorter than 2^63
    bytes (Go `int`; the keys are compared through `stringByteAt`, which the model does over `Nat`): a located document does not
    bound the length of its buffers; interpreter fuel `2·e + 7`; `N ≥ e - (p+1)` queued answers. -/
theorem C14_source_object_delete (pj : PJ) (doc : LVal) (hdoc : Ok pj doc) (p e : Nat) (ms : LMems) (q : Nat → Bool)
    (ks : List Bytes) (hnode : HasNode p e doc) (hok : Ok pj (.obj p e ms)) (hsmall : pj.tape.size < 2^56)
    (hb : BufOK pj) (N : Nat) (hN : e - (p + 1) ≤ N) (fuel : Nat) (hf : 2 * e + 7 ≤ fuel) :
    ∃ s cbs, runFun goFuns goObject_DeleteElems fuel
        ⟨objStore pj { lim := e, off := p + 1 } ks
          [("fn==nil", .bool false), ("fn.results", .bools (answers N q)), ("fn.log", .ints [])], pj.tape⟩ =
          .ret s [.bool false] ∧
      Ok { tape := s.tape, strings := pj.strings, msg := pj.msg }
        (substV p (.obj p e (filterMs (fun k _ => q k) ks 0 ms)) doc) ∧
      s.tape.size = pj.tape.size ∧
      logOf s.env = encNIs cbs ∧ cbs.size = (visitedMs ks 0 ms).length ∧ StandsM pj e (visitedMs ks 0 ms) cbs.toList ∧
      s.env.get "fn.results" = some (.bools ((answers N q).drop (visitedMs ks 0 ms).length)) :=
  SJ.SourceLevelB.C14_source_object_delete pj doc hdoc p e ms q ks hnode hok hsmall hb N hN fuel hf

open SJ.Generated SJ.GoSem SJ.GoIter SJ.GoSet SJ.Layout SJ.GoDelete SJ.GoObject SJ.DeleteDoc SJ.WalkLayout SJ.SourceLevelB in
/-- **`Object.DeleteElems`, source level, for a callback that looks at the key** — the full generality of `C14_object_delete`:
    `pred n key` is what the callback answers when called the `n`-th time, with `key`.  The callback of the interpreter answers
    from a queue; the queue that `pred` produces on this object is `cbAnswers pred ks ms`, and with it the run deletes exactly
    the members `filterMs pred` deletes. -/
theorem C14_source_object_delete_pred (pj : PJ) (doc : LVal) (hdoc : Ok pj doc) (p e : Nat) (ms : LMems)
    (pred : Nat → Bytes → Bool) (ks : List Bytes) (hnode : HasNode p e doc) (hok : Ok pj (.obj p e ms))
    (hsmall : pj.tape.size < 2^56) (hb : BufOK pj) (N : Nat) (hN : e - (p + 1) ≤ N) (fuel : Nat) (hf : 2 * e + 7 ≤ fuel) :
    ∃ s cbs, runFun goFuns goObject_DeleteElems fuel
        ⟨objStore pj { lim := e, off := p + 1 } ks
          [("fn==nil", .bool false), ("fn.results", .bools (answers N (cbAnswers pred ks ms))), ("fn.log", .ints [])],
          pj.tape⟩ = .ret s [.bool false] ∧
      Ok { tape := s.tape, strings := pj.strings, msg := pj.msg } (substV p (.obj p e (filterMs pred ks 0 ms)) doc) ∧
      s.tape.size = pj.tape.size ∧
      logOf s.env = encNIs cbs ∧ cbs.size = (visitedMs ks 0 ms).length ∧ StandsM pj e (visitedMs ks 0 ms) cbs.toList ∧
      s.env.get "fn.results" =
        some (.bools ((answers N (cbAnswers pred ks ms)).drop (visitedMs ks 0 ms).length)) :=
  SJ.SourceLevelB.C14_source_object_delete_pred pj doc hdoc p e ms pred ks hnode hok hsmall hb N hN fuel hf

open SJ.Generated SJ.GoSem SJ.GoIter SJ.GoSet SJ.Layout SJ.GoDelete SJ.GoObject SJ.DeleteDoc SJ.WalkLayout SJ.SourceLevelB in
/-- **`Object.DeleteElems(nil, onlyKeys)`, source level**: "all elements in onlyKeys will be deleted; if both are nil all
    elements are deleted" — the run returns `nil`, makes no callback (the log stays empty), and leaves a tape on which the
    object is exactly `nilFnResult ks ms`, the document is `doc` with that object in place, and every word outside the object's
    interior is what it was (`AgreeOut`).  `BufOK` as in `C14_source_object_delete`. -/
theorem C14_source_object_delete_nil_fn (pj : PJ) (doc : LVal) (hdoc : Ok pj doc) (p e : Nat) (ms : LMems)
    (ks : List Bytes) (hnode : HasNode p e doc) (hok : Ok pj (.obj p e ms)) (hsmall : pj.tape.size < 2^56)
    (hb : BufOK pj) (fuel : Nat) (hf : 2 * e + 7 ≤ fuel) :
    ∃ s, runFun goFuns goObject_DeleteElems fuel
        ⟨objStore pj { lim := e, off := p + 1 } ks [("fn==nil", .bool true)], pj.tape⟩ = .ret s [.bool false] ∧
      Ok { tape := s.tape, strings := pj.strings, msg := pj.msg } (.obj p e (nilFnResult ks ms)) ∧
      Ok { tape := s.tape, strings := pj.strings, msg := pj.msg } (substV p (.obj p e (nilFnResult ks ms)) doc) ∧
      AgreeOut pj { tape := s.tape, strings := pj.strings, msg := pj.msg } (p + 1) (e - 1) ∧
      s.tape.size = pj.tape.size ∧ logOf s.env = [] :=
  SJ.SourceLevelB.C14_source_object_delete_nil_fn pj doc hdoc p e ms ks hnode hok hsmall hb fuel hf

open SJ.Generated SJ.GoSem SJ.GoIter SJ.GoSet SJ.Layout SJ.SourceLevelB in
/-- **No reader misreads a gap, source level.**  `[a, b)` is a gap of the tape (NOP words whose skips stay inside) ending inside
    the view of `i`, and `i` is about to read at `a` (`off + addNext = a`).  Then running the regenerated `Advance`,
    `AdvanceInto`, `AdvanceIter`, `PeekNextTag` from `i` gives the caller exactly what running them from the same iterator
    placed at the END of the gap gives (`j`: the same fields, `off` moved by `b - a`, and the payload register `cur` holding the
    skip count `c` of the last NOP word of the gap — Go's loops overwrite `i.cur` on every iteration; `c = i.cur` for the empty
    gap): the same returned values, the same tape, the same receiver (and destination) afterwards; a panic iff a panic.
    Discharged: nothing is asked beyond the tie's own premises (`hl`: the view is a prefix of the tape; fuel `lim + 8`). -/
theorem C14_source_gap_skipped (pj : PJ) (i dst : Iter) {a b : Nat} (g : Gap pj a b) (hb : b ≤ i.lim)
    (hl : i.lim ≤ pj.tape.size) (ha : (i.off : Int) + i.addNext = a) (fuel : Nat) (hf : fuelFor i ≤ fuel) :
    ∃ c, (a = b → c = i.cur) ∧
      SameOut ["i"] (runFun goFuns goIter_Advance fuel { env := envOf "i" i, tape := pj.tape })
        (runFun goFuns goIter_Advance fuel
          { env := envOf "i" { i with off := i.off + (b - a), cur := c }, tape := pj.tape }) ∧
      SameOut ["i"] (runFun goFuns goIter_AdvanceInto fuel { env := envOf "i" i, tape := pj.tape })
        (runFun goFuns goIter_AdvanceInto fuel
          { env := envOf "i" { i with off := i.off + (b - a), cur := c }, tape := pj.tape }) ∧
      SameIterOut (runFun goFuns goIter_AdvanceIter fuel
          { env := envOf "i" i ++ envOf "dst" dst ++ [("i!=dst", .bool true)], tape := pj.tape })
        (runFun goFuns goIter_AdvanceIter fuel
          { env := envOf "i" { i with off := i.off + (b - a), cur := c } ++ envOf "dst" dst ++ [("i!=dst", .bool true)],
            tape := pj.tape }) ∧
      SameOut [] (runFun goFuns goIter_PeekNextTag fuel { env := envOf "i" i, tape := pj.tape })
        (runFun goFuns goIter_PeekNextTag fuel
          { env := envOf "i" { i with off := i.off + (b - a), cur := c }, tape := pj.tape }) :=
  SJ.SourceLevelB.C14_source_gap_skipped pj i dst g hb hl ha fuel hf

open SJ.Generated SJ.GoSem SJ.GoIter SJ.GoSet SJ.Layout SJ.SourceLevelC SJ.EditHistory SJ.WalkLayout SJ.DeleteDoc SJ.GoDelete SJ.GoObject SJ.GoApi SJ.SourceLevelB in
/-- **Histories of deletions and replacements, source level** (the statement of `C14_history`, for the source-side run).
    `ops` is any finite sequence of `Array.DeleteElems`, `Object.DeleteElems` and `Set*` calls, each valid in the document as
    it is when the call is made (`ValidSeqDA`, validity on the document alone: the addressed node is an array resp. an
    object resp. a value the `Set*` gate admits).  Running the regenerated syntax trees one after the other (`srcDOps`: each
    call positioned on, and run against, the tape and string buffer the previous call returned), every run returns without
    error, and the final tape holds exactly `absDOps v ops` — the original document with the selected members removed and
    the addressed values replaced, in order, survivors at their positions — and is again tight; `Message` and tape length
    unchanged; the string buffer has grown by exactly the `SetString` arguments.
    Route: induction over `ops` from the single-step source-level theorems (`srcStep_valid`, `C14_source_array_delete`,
    `C14_source_object_delete_pred` of SourceLevelB — each the composition of a property theorem with a tie — and the ties
    of `Iter.Array` / `Iter.Object`), i.e. the induction of `C14_history` redone on the source side; `C14_history` itself is
    not used, because the source-side run of `Object.DeleteElems` with a key-dependent callback is tied to the model's run
    with the callback `fun k _ => cbAnswers … k`, which gives the same DOCUMENT (`filterMs_congr`) but is not known to give
    the same tape word for word.
    Discharged: the views (`Iter.Array`/`Iter.Object` return the node's view, inside the tape), the answer counts, `BufOK`
    along the history (`SetString` keeps the buffer below 2^55).  Remaining: `BufOK pj` at the start (Go `int` lengths;
    needed by `Object.DeleteElems`, which compares keys through `stringByteAt`), `len(tape) < 2^56` (the tie of
    `Iter.Array`/`Iter.Object` needs `len < 2^63`; the deletions themselves need `< 2^56` and `ValidSeqDA` says so only when
    there is one), interpreter fuel `2·len(tape) + 7`. -/
theorem C14_source_history : ∀ (ops : List DOp) (pj : PJ) (v : LVal), Ok pj v → Tight v →
    ValidSeqDA pj.strings.size pj.tape.size v ops → BufOK pj → pj.tape.size < 2^56 →
    ∀ (fuel : Nat), 2 * pj.tape.size + 7 ≤ fuel →
    ∃ pj', srcDOps fuel pj v ops = some pj' ∧ Ok pj' (absDOps v ops) ∧ Tight (absDOps v ops) ∧ pj'.msg = pj.msg ∧
      pj'.tape.size = pj.tape.size ∧ pj'.strings = pj.strings ++ appendedAllD ops :=
  SJ.SourceLevelC.C14_source_history 

open SJ.Generated SJ.GoSem SJ.GoIter SJ.Layout SJ.SourceLevelD SJ.EditHistory SJ.WalkLayout SJ.DeleteDoc SJ.GoObject SJ.GoMarshal SJ.MarshalExact SJ.RenderParse SJ.SourceLevelC in
/-- **After any valid history of deletions and replacements, the source-side reader prints exactly the edited document**
    (the source-level counterpart of `C14_history_readback`, whose reader `owalkValue` is a walker of the model; the
    analogue of `C13_source_history_readback`).  `ops` is any finite sequence of `Array.DeleteElems`, `Object.DeleteElems`
    and `Set*` calls, each valid in the document as it is when the call is made (`ValidSeqDA`).  Running the regenerated
    syntax trees one after the other (`srcDOps`) returns without error at every step; and then running the regenerated
    `Iter.MarshalJSONBuffer(dst)` on the tape and string buffer that run returned, from the iterator standing on the
    document's first word (which has not moved), returns `dst ++ renderJ (erase (absDOps v ops))` — the canonical text of
    the original document with the selected members removed and the addressed values replaced, no survivor skipped, no
    deleted member resurrected, no gap misread — and `nil`; the tape is untouched by the reader.
    Discharged: every premise of the marshal tie (`OnNode`, the view, `cur < 2^63`, `BufOK` of the final buffers) and of the
    deletion ties (see `C14_source_history`).  Remaining: `FloatsOk` of the edited document (a `SetFloat(NaN)` has no JSON
    text: `MarshalJSONBuffer` then returns an error, `C10_source_marshal_error`); `BufOK pj` at the start (Go `int` lengths);
    `len(tape) < 2^56` (see `C14_source_history`); interpreter fuel. -/
theorem C14_source_history_readback (ops : List DOp) (pj : PJ) (v : LVal) (hok : Ok pj v) (ht : Tight v)
    (hv : ValidSeqDA pj.strings.size pj.tape.size v ops) (hfl : FloatsOk (absDOps v ops)) (hb : BufOK pj)
    (hsz : pj.tape.size < 2^56) (fuel : Nat) (hf : 2 * pj.tape.size + 7 ≤ fuel) (dst : Bytes)
    (F : Nat) (hF : 3 * pj.tape.size + 25 ≤ F) :
    ∃ pj', srcDOps fuel pj v ops = some pj' ∧
      ∃ st, runFun goFuns goIter_MarshalJSONBuffer F ⟨initEnv pj' (iterOn pj' v.pos) dst, pj'.tape⟩ =
          .ret st [.bytes (dst ++ renderJ (erase (absDOps v ops))), .bool false] ∧ st.tape = pj'.tape :=
  SJ.SourceLevelD.C14_source_history_readback ops pj v hok ht hv hfl hb hsz fuel hf dst F hF

open SJ.Generated SJ.GoSem SJ.GoIter SJ.GoSet SJ.Layout SJ.SourceLevelF SJ.GoObject SJ.WalkLayout in
/-- **`NextElementBytes` does not misread a gap, source level** (`C14_gap_skipped_neb` ∘ the `NextElementBytes` tie
    `GoObject.nextElementBytes_sim`, the fifth clause of `C12_object_walk_follows_source`).  `[a, b)` is a gap of the tape (NOP
    words whose skip counts stay inside) ending inside the view `lim`.  Running `Object.NextElementBytes` of
    `parsed_object.go` (as printed from /repo, with its recursion over NOP words) on the receiver `{off = a, lim}` gives the
    caller exactly what running it on the receiver placed at the END of the gap, `{off = b, lim}`, gives: both runs return
    (neither panics, diverges or is stuck), with the same name bytes, the same `Type` and the same error; both leave the tape
    alone; and when the error is `nil` they leave the same receiver and the same `*dst` (`SameNE`).  `*dst` may hold anything
    before the call (`d0`).
    Discharged: the model fuels of the two runs (`C14_gap_skipped_neb` spends `k ≤ b − a` units on the gap: the run from `a`
    gets `lim − a + 1`, the run from `b` what is left, which is at least `lim − b + 1`), absence of panic
    (`nextElementBytes_safe`).  Remaining, all of the tie: `BufOK pj` (buffer lengths are Go `int`s — the key is read through
    `stringByteAt`), `lim ≤ len(tape)` (the view is a prefix of the tape), the interpreter's budget `lim − a + 1` (the depth
    of the recursion), the same for both runs. -/
theorem C14_source_gap_skipped_neb (pj : PJ) (hbuf : BufOK pj) (lim : Nat) {a b : Nat} (g : Gap pj a b) (hb : b ≤ lim)
    (hl : lim ≤ pj.tape.size) (d0 : Iter) (fuel : Nat) (hf : lim - a + 1 ≤ fuel) :
    SameNE (runFun goFuns goObject_NextElementBytes fuel ⟨neEnv { lim := lim, off := a } d0 pj, pj.tape⟩)
      (runFun goFuns goObject_NextElementBytes fuel ⟨neEnv { lim := lim, off := b } d0 pj, pj.tape⟩) :=
  SJ.SourceLevelF.C14_source_gap_skipped_neb pj hbuf lim g hb hl d0 fuel hf

open SJ.Generated SJ.GoSem SJ.GoIter SJ.GoSet SJ.Layout SJ.SourceLevelF SJ.GoObject SJ.WalkLayout in
/-- **… and neither does `Object.NextElement`** (the same composition with `GoApi.nextElement_sim`, the `NextElement` clause of
    `C12_api_follows_source`: `NextElement` calls `NextElementBytes` and converts the name).  One more unit of interpreter
    fuel for the call. -/
theorem C14_source_gap_skipped_ne (pj : PJ) (hbuf : BufOK pj) (lim : Nat) {a b : Nat} (g : Gap pj a b) (hb : b ≤ lim)
    (hl : lim ≤ pj.tape.size) (d0 : Iter) (fuel : Nat) (hf : lim - a + 2 ≤ fuel) :
    SameNE (runFun goFuns goObject_NextElement fuel ⟨neEnv { lim := lim, off := a } d0 pj, pj.tape⟩)
      (runFun goFuns goObject_NextElement fuel ⟨neEnv { lim := lim, off := b } d0 pj, pj.tape⟩) :=
  SJ.SourceLevelF.C14_source_gap_skipped_ne pj hbuf lim g hb hl d0 fuel hf

open SJ.Generated SJ.GoSem SJ.GoIter SJ.GoSet SJ.Layout SJ.SourceLevelF SJ.Tables SJ.WalkLayout SJ.Lookup SJ.DeleteDoc SJ.MarshalExact SJ.RenderParse SJ.Numeric SJ.EditHistory SJ.GoObject SJ.GoMarshal SJ.GoArrMarshal SJ.GoDelete SJ.SourceLevelB SJ.SourceLevelE in
/-- **`SetNull` on a container, then read back, source level** (the source-level counterpart of `C14_setNull_then_read`).  On a
    tape holding the located document `v` with the receiver on the object or array node `[q, e)`: running the regenerated
    `goIter_SetNull` returns `nil`, and on the tape it leaves (the node is now `null` followed by a gap of NOP words up to
    `e`), from ANY iterator `j` standing on the document whose view lies inside the tape — e.g. `iterOn` at the document's
    first word — the regenerated `Iter.MarshalJSONBuffer` returns `dst ++` the canonical text of `v` with exactly that
    container replaced by `null`, and `nil`: no member of the nulled container is resurrected, nothing after it is skipped.
    Reader and `Tight` as in `C13_source_setInt_then_read` (`owalkValue` has no tie; the marshaller skips gaps everywhere).
    Route: `C14_setNull_container` ∘ `SetNull` tie (`C14_source_setNull_container`), `C10_marshal_exact` ∘ marshal tie.
    Remaining: `hl`, `FloatsOk v`, `BufOK pj`, `j.lim ≤ len(tape)`, fuel `e − q + 1` for the fill loop and the marshaller's
    budget. -/
theorem C14_source_setNull_then_read (pj : PJ) (v : LVal) (hok : Ok pj v) (q e : Nat) (hnode : HasNode q e v)
    (hqe : q + 2 ≤ e) (hsmall : pj.tape.size < 2^56) (i : Iter) (hoff : i.off = q + 1) (hcur : i.cur.toNat = e)
    (hview : i.cur.toNat ≤ i.lim) (hl : i.lim ≤ pj.tape.size)
    (ht0 : inCase (caseOf swSetNull 0) i.t = false) (ht1 : inCase (caseOf swSetNull 1) i.t = false)
    (ht : inCase (caseOf swSetNull 2) i.t = true) (fuel : Nat) (hf : e - q + 1 ≤ fuel) (hfl : FloatsOk v) (hb : BufOK pj) :
    ∃ s, runFun goFuns goIter_SetNull fuel
        { env := envOf "i" i ++ [("Strings.B", .bytes pj.strings)], tape := pj.tape } = .ret s [.bool false] ∧
      s.env.get "Strings.B" = some (.bytes pj.strings) ∧ s.tape.size = pj.tape.size ∧
      Ok { tape := s.tape, strings := pj.strings, msg := pj.msg } (substV q (.null q) v) ∧
      (∀ (j : Iter) (dst : Bytes) (F : Nat),
        OnNode { tape := s.tape, strings := pj.strings, msg := pj.msg } (substV q (.null q) v) j →
        j.lim ≤ s.tape.size → 2 * s.tape.size + j.lim + 25 ≤ F →
        ∃ st, runFun goFuns goIter_MarshalJSONBuffer F
            ⟨initEnv { tape := s.tape, strings := pj.strings, msg := pj.msg } j dst, s.tape⟩ =
          .ret st [.bytes (dst ++ renderJ (erase (substV q (.null q) v))), .bool false] ∧ st.tape = s.tape) ∧
      OnNode { tape := s.tape, strings := pj.strings, msg := pj.msg } (substV q (.null q) v)
        (iterOn { tape := s.tape, strings := pj.strings, msg := pj.msg } v.pos) :=
  SJ.SourceLevelF.C14_source_setNull_then_read pj v hok q e hnode hqe hsmall i hoff hcur hview hl ht0 ht1 ht fuel hf hfl hb

open SJ.Generated SJ.GoSem SJ.GoIter SJ.GoSet SJ.Layout SJ.SourceLevelF SJ.Tables SJ.WalkLayout SJ.Lookup SJ.DeleteDoc SJ.MarshalExact SJ.RenderParse SJ.Numeric SJ.EditHistory SJ.GoObject SJ.GoMarshal SJ.GoArrMarshal SJ.GoDelete SJ.SourceLevelB SJ.SourceLevelE in
/-- **`Array.DeleteElems`, then read back, source level** (array half of `C14_delete_then_read`).  On a tape holding the located
    array `.arr p e es`, with the callback answers `q` queued: running the regenerated `goArray_DeleteElems` on the array's
    view returns, and on the tape it leaves (`es'` = the elements for which deletion was not requested, `filterVs q 0 es`):
    * the tape holds the array `es'`, at the old positions;
    * **Advance-based walk**: running the regenerated `Array.ForEach` on the same view makes exactly one callback per
      SURVIVOR, in order, each with an iterator standing on it (`Stands` on the new tape) — no deleted element is visited, no
      survivor skipped (`C12_source_arrForEach` on the new tape; `Array.ForEach` is the `Advance` loop, the source-side
      counterpart of the property's `owalkArr`, which has no tie);
    * **text**: given `FloatsOk` and `BufOK`, the regenerated `Array.MarshalJSONBuffer` on that view returns `dst ++` the
      canonical text of the array of survivors, and `nil`.
    `TightVs es` of the property is not needed: both readers skip NOP words everywhere.
    Route: `C14_array_delete` ∘ `DeleteElems` tie (`C14_source_array_delete`, with the array as the whole document), then the
    `ForEach` and `Array.MarshalJSONBuffer` compositions on the resulting tape.
    Remaining: `len(tape) < 2^56` and `N ≥ e − (p+1)` queued answers (of the deletion), the three loop budgets, and for the
    text `FloatsOk`/`BufOK`. -/
theorem C14_source_delete_then_read_arr (pj : PJ) (p e : Nat) (es : LVals) (q : Nat → Bool) (hok : Ok pj (.arr p e es))
    (hsmall : pj.tape.size < 2^56) (N : Nat) (hN : e - (p + 1) ≤ N) (fuel : Nat) (hf : 2 * e + 7 ≤ fuel) :
    ∃ s, runFun goFuns goArray_DeleteElems fuel
        ⟨arrStore pj { lim := e, off := p + 1 } [("fn.results", .bools (answers N q)), ("fn.log", .ints [])], pj.tape⟩ =
          .ret s [] ∧
      s.tape.size = pj.tape.size ∧
      Ok { tape := s.tape, strings := pj.strings, msg := pj.msg } (.arr p e (filterVs q 0 es)) ∧
      (∀ F, 2 * e + 6 ≤ F →
        ∃ s' its, runFun goFuns goArray_ForEach F
            ⟨arrStore { tape := s.tape, strings := pj.strings, msg := pj.msg } { lim := e, off := p + 1 }
              [("fn.log", .ints [])], s.tape⟩ = .ret s' [] ∧
          s'.tape = s.tape ∧ GoDelete.logOf s'.env = GoDelete.encIters its ∧ its.size = lenVs (filterVs q 0 es) ∧
          Stands { tape := s.tape, strings := pj.strings, msg := pj.msg } e (filterVs q 0 es) its.toList) ∧
      (FloatsOk (.arr p e es) → BufOK pj → ∀ (dst : Bytes) (F : Nat), 4 * s.tape.size + e + 42 ≤ F →
        ∃ st, runFun goFuns goArray_MarshalJSONBuffer F
            ⟨arrEnv { tape := s.tape, strings := pj.strings, msg := pj.msg } { lim := e, off := p + 1 } dst, s.tape⟩ =
          .ret st [.bytes (dst ++ renderJ (erase (.arr p e (filterVs q 0 es)))), .bool false] ∧ st.tape = s.tape) :=
  SJ.SourceLevelF.C14_source_delete_then_read_arr pj p e es q hok hsmall N hN fuel hf

open SJ.Generated SJ.GoSem SJ.GoIter SJ.GoSet SJ.Layout SJ.SourceLevelF SJ.Tables SJ.WalkLayout SJ.Lookup SJ.DeleteDoc SJ.MarshalExact SJ.RenderParse SJ.Numeric SJ.EditHistory SJ.GoObject SJ.GoMarshal SJ.GoArrMarshal SJ.GoDelete SJ.SourceLevelB SJ.SourceLevelE in
/-- **`Object.DeleteElems`, then read back, source level** (object half of `C14_delete_then_read`).  On a tape holding the
    located object `.obj p e ms`, for a callback `pred n key` (its answer to the `n`-th call, made with `key`; the interpreter's
    callback answers from the queue `cbAnswers pred ks ms`) and a key filter `ks`: running the regenerated
    `goObject_DeleteElems` on the object's view returns `nil`, and on the tape it leaves (`ms'` = the survivors,
    `filterMs pred ks 0 ms`):
    * the tape holds the object `ms'`, members at their old positions;
    * **NextElementBytes-based walk** (needs `TightMs ms`, as the property does: `NextElementBytes` does not skip NOPs between
      a key and its value): calling the regenerated `Object.NextElement` again and again on the object's view lists exactly
      the survivors — key bytes, type, and a cursor restricted to the value and standing on it — in order
      (`C12_source_nextElement_walk` on the new tape; the property's `owalkObj` is this walk in the hand model);
    * **ForEach**: the regenerated `Object.ForEach` without a filter calls back exactly the survivors, in order, each with
      its own key and an iterator standing on its own value (`C12_source_forEach` on the new tape);
    * **text**: given `FloatsOk`, from any iterator standing on the object whose view lies inside the tape, the regenerated
      `Iter.MarshalJSONBuffer` returns `dst ++` the canonical text of the object of survivors, and `nil`.
    Route: `C14_object_delete` ∘ `DeleteElems` tie (`C14_source_object_delete_pred`, the object as the whole document), then
    the three reader compositions on the resulting tape.
    Remaining: `BufOK pj`, `len(tape) < 2^56`, `N ≥ e − (p+1)` queued answers, the loop budgets. -/
theorem C14_source_delete_then_read_obj (pj : PJ) (p e : Nat) (ms : LMems) (pred : Nat → Bytes → Bool) (ks : List Bytes)
    (hok : Ok pj (.obj p e ms)) (hsmall : pj.tape.size < 2^56) (hb : BufOK pj) (N : Nat) (hN : e - (p + 1) ≤ N)
    (fuel : Nat) (hf : 2 * e + 7 ≤ fuel) :
    ∃ s, runFun goFuns goObject_DeleteElems fuel
        ⟨objStore pj { lim := e, off := p + 1 } ks
          [("fn==nil", .bool false), ("fn.results", .bools (answers N (cbAnswers pred ks ms))), ("fn.log", .ints [])],
          pj.tape⟩ = .ret s [.bool false] ∧
      s.tape.size = pj.tape.size ∧
      Ok { tape := s.tape, strings := pj.strings, msg := pj.msg } (.obj p e (filterMs pred ks 0 ms)) ∧
      (TightMs ms → ∀ (d0 : Iter) (F n : Nat), e - p + 1 ≤ F → memCount (filterMs pred ks 0 ms) < n →
        srcElements F s.tape n
            (neEnv { lim := e, off := p + 1 } d0 { tape := s.tape, strings := pj.strings, msg := pj.msg }) =
          some ((membersOf (filterMs pred ks 0 ms)).map fun kv =>
            (kv.1, tagToTypeSpec (tagOfL kv.2),
              some (elemIter { tape := s.tape, strings := pj.strings, msg := pj.msg } kv.2)))) ∧
      (∀ F, 2 * e + 7 ≤ F →
        ∃ s', runFun goFuns goObject_ForEach F
            ⟨objStore { tape := s.tape, strings := pj.strings, msg := pj.msg } { lim := e, off := p + 1 } []
              [("fn.log", .ints [])], s.tape⟩ = .ret s' [.bool false] ∧
          s'.tape = s.tape ∧
          GoDelete.logOf s'.env = encNIs ((membersWithKeys [] (filterMs pred ks 0 ms)).map
            (cbOf { tape := s.tape, strings := pj.strings, msg := pj.msg } e)).toArray) ∧
      (FloatsOk (.obj p e ms) → ∀ (j : Iter) (dst : Bytes) (F : Nat),
        OnNode { tape := s.tape, strings := pj.strings, msg := pj.msg } (.obj p e (filterMs pred ks 0 ms)) j →
        j.lim ≤ s.tape.size → 2 * s.tape.size + j.lim + 25 ≤ F →
        ∃ st, runFun goFuns goIter_MarshalJSONBuffer F
            ⟨initEnv { tape := s.tape, strings := pj.strings, msg := pj.msg } j dst, s.tape⟩ =
          .ret st [.bytes (dst ++ renderJ (erase (.obj p e (filterMs pred ks 0 ms)))), .bool false] ∧
          st.tape = s.tape) :=
  SJ.SourceLevelF.C14_source_delete_then_read_obj pj p e ms pred ks hok hsmall hb N hN fuel hf

open SJ.Generated SJ.GoSem SJ.GoIter SJ.GoSet SJ.Layout SJ.SourceLevelF SJ.Tables SJ.WalkLayout SJ.Lookup SJ.DeleteDoc SJ.MarshalExact SJ.RenderParse SJ.Numeric SJ.EditHistory SJ.GoObject SJ.GoMarshal SJ.GoArrMarshal SJ.GoDelete SJ.SourceLevelB SJ.SourceLevelE in
/-- **All source-side readers agree after a deletion** (`C14_delete_then_read`, both halves). -/
theorem C14_source_delete_then_read (pj : PJ) (p e : Nat) :
    (∀ (es : LVals) (q : Nat → Bool) (N fuel : Nat), Ok pj (.arr p e es) → pj.tape.size < 2^56 → e - (p + 1) ≤ N →
      2 * e + 7 ≤ fuel →
      ∃ s, runFun goFuns goArray_DeleteElems fuel
          ⟨arrStore pj { lim := e, off := p + 1 } [("fn.results", .bools (answers N q)), ("fn.log", .ints [])],
            pj.tape⟩ = .ret s [] ∧
        Ok { tape := s.tape, strings := pj.strings, msg := pj.msg } (.arr p e (filterVs q 0 es)) ∧
        ∀ F, 2 * e + 6 ≤ F →
          ∃ s' its, runFun goFuns goArray_ForEach F
              ⟨arrStore { tape := s.tape, strings := pj.strings, msg := pj.msg } { lim := e, off := p + 1 }
                [("fn.log", .ints [])], s.tape⟩ = .ret s' [] ∧
            s'.tape = s.tape ∧ GoDelete.logOf s'.env = GoDelete.encIters its ∧ its.size = lenVs (filterVs q 0 es) ∧
            Stands { tape := s.tape, strings := pj.strings, msg := pj.msg } e (filterVs q 0 es) its.toList) ∧
    (∀ (ms : LMems) (pred : Nat → Bytes → Bool) (ks : List Bytes) (N fuel : Nat), Ok pj (.obj p e ms) → TightMs ms →
      pj.tape.size < 2^56 → BufOK pj → e - (p + 1) ≤ N → 2 * e + 7 ≤ fuel →
      ∃ s, runFun goFuns goObject_DeleteElems fuel
          ⟨objStore pj { lim := e, off := p + 1 } ks
            [("fn==nil", .bool false), ("fn.results", .bools (answers N (cbAnswers pred ks ms))), ("fn.log", .ints [])],
            pj.tape⟩ = .ret s [.bool false] ∧
        Ok { tape := s.tape, strings := pj.strings, msg := pj.msg } (.obj p e (filterMs pred ks 0 ms)) ∧
        ∀ (d0 : Iter) (F n : Nat), e - p + 1 ≤ F → memCount (filterMs pred ks 0 ms) < n →
          srcElements F s.tape n
              (neEnv { lim := e, off := p + 1 } d0 { tape := s.tape, strings := pj.strings, msg := pj.msg }) =
            some ((membersOf (filterMs pred ks 0 ms)).map fun kv =>
              (kv.1, tagToTypeSpec (tagOfL kv.2),
                some (elemIter { tape := s.tape, strings := pj.strings, msg := pj.msg } kv.2)))) :=
  SJ.SourceLevelF.C14_source_delete_then_read pj p e

end SJ.Properties.C14
