import SJ.Proofs.Tables
/-
C12 — Lookup, filtered iteration and bulk accessors agree with plain traversal.
-/
namespace SJ.Properties.C12
open SJ SJ.Tables

theorem C12_tag_types (t : UInt8) : tagToType t = tagToTypeSpec t := tagToType_spec t

/-- The constants 2^63 and 2^64 against which float → integer conversions are tested are exactly
    representable; MaxInt64 and MaxUint64 are not and round up to them. -/
theorem C12_boundaries : F64.ofNat (2^63 - 1) = F64.ofNat (2^63) ∧ F64.ofNat (2^64 - 1) = F64.ofNat (2^64) ∧
    F64.trunc? (F64.ofNat (2^63)) = some (2^63) ∧ F64.trunc? (F64.ofNat (2^64)) = some (2^64) := by decide

end SJ.Properties.C12
