import SJ.Proofs.Tables
import SJ.Proofs.Numeric
import SJ.Proofs.Lookup
import SJ.Proofs.GoNum
import SJ.Proofs.GoObject
import SJ.Proofs.GoArrNum
import SJ.Proofs.GoApi
import SJ.Proofs.GoFind
import SJ.Proofs.GoFindElem
import SJ.Proofs.GoArrStr
import SJ.Proofs.GoElems
import SJ.Proofs.GoInterfaceRec
/-
C12 — Lookup, filtered iteration and bulk accessors agree with plain traversal.
-/
namespace SJ.Properties.C12
open SJ SJ.Tables

theorem C12_tag_types (t : UInt8) : tagToType t = tagToTypeSpec t := tagToType_spec t

/-- The constants 2^63 and 2^64 against which float → integer conversions are tested are exactly
    representable; MaxInt64 and MaxUint64 are not and round up to them. -/
theorem C12_boundaries : F64.ofNat (2^63 - 1) = F64.ofNat (2^63) ∧ F64.ofNat (2^64 - 1) = F64.ofNat (2^64) ∧
    F64.trunc? (F64.ofNat (2^63)) = some (2^63) ∧ F64.trunc? (F64.ofNat (2^64)) = some (2^64) := by decide

open SJ.Numeric SJ.Generated in
/-- **Int()**: for every number entry (float, int or uint word `b` on the tape, denoting the rational `x`),
    the result is `x` truncated toward zero exactly when `−2^63 ≤ x < 2^63`, and an error otherwise —
    never a wrapped or sign-flipped number. -/
theorem C12_int_exact {pj : PJ} {i : Iter} {x : Rat} (hoff : i.off < i.lim) (hlim : i.lim ≤ pj.tape.size)
    (hs : stored i.t (pj.tape[i.off]'(Nat.lt_of_lt_of_le hoff hlim)) = some x) :
    i.int pj = if -(2 : Rat) ^ 63 ≤ x ∧ x < (2 : Rat) ^ 63 then .ok (truncQ x) else .error .generic :=
  int_exact' hoff hlim hs

open SJ.Numeric SJ.Generated in
/-- **Uint()**: `x` truncated toward zero exactly when `0 ≤ x < 2^64`, an error otherwise. -/
theorem C12_uint_exact {pj : PJ} {i : Iter} {x : Rat} (hoff : i.off < i.lim) (hlim : i.lim ≤ pj.tape.size)
    (hs : stored i.t (pj.tape[i.off]'(Nat.lt_of_lt_of_le hoff hlim)) = some x) :
    i.uint pj = if 0 ≤ x ∧ x < (2 : Rat) ^ 64 then .ok (truncQ x).toNat else .error .generic :=
  uint_exact' hoff hlim hs

open SJ.Numeric SJ.Generated in
/-- **Float()**: always succeeds on a number entry, with the float64 nearest to `x` (ties to even). -/
theorem C12_float_exact {pj : PJ} {i : Iter} {x : Rat} (hoff : i.off < i.lim) (hlim : i.lim ≤ pj.tape.size)
    (hs : stored i.t (pj.tape[i.off]'(Nat.lt_of_lt_of_le hoff hlim)) = some x) :
    ∃ f, i.float pj = .ok f ∧ IsNearestEven f x :=
  float_exact' hoff hlim hs

open SJ.Numeric in
/-- **Bulk accessors** (`AsFloat`, `AsInteger`, `AsUint64`) return what plain traversal — `Advance` then the
    per-element accessor — returns: the same values in order, or the same error. -/
theorem C12_bulk_eq_traversal (pj : PJ) (kind : View.NumKind) (ws : List (UInt64 × UInt64)) (a : View)
    (acc : Array UInt64) (fuel : Nat)
    (hn : NumsAt pj a.off ws) (hl : a.off + 2 * ws.length < a.lim) (hf : ws.length < fuel) :
    View.asNum pj kind a acc fuel = traverse kind pj a.iter ws acc :=
  asNum_eq_traverse pj kind ws a acc fuel hn hl hf

open SJ.Layout SJ.WalkLayout SJ.Lookup in
/-- **FindKey** returns the first member (in tape order) with the given key — positioned on its value, with its
    type — or nil; gaps anywhere in the object do not matter. (`key.size < 2^63`: the code compares `int(length)`.) -/
theorem C12_findKey (pj : PJ) (p e : Nat) (ms : LMems) (key : Bytes) (hkey : key.size < 2 ^ 63)
    (hok : Ok pj (.obj p e ms)) :
    View.findKey pj key (View.iter { lim := e, off := p + 1 }) (fuelOf pj) =
      .ok ((firstWithKey key ms).map fun r => (tagToType (tagOfL r.2), elemIter pj r.2)) :=
  findKey_spec_fuelOf pj p e ms key hkey hok

open SJ.Layout SJ.WalkLayout SJ.Lookup in
/-- **ForEach with a key filter** (keys unique within the object, or no filter): exactly the members whose key is
    in the filter, in order, each with its own key and a cursor on its own value. -/
theorem C12_forEach (pj : PJ) (p e : Nat) (ms : LMems) (ks : List Bytes) (hok : Ok pj (.obj p e ms))
    (h : ks = [] ∨ (memKeys ms).Nodup) :
    View.forEach pj ks (View.iter { lim := e, off := p + 1 }) 0 #[] (fuelOf pj) =
      .ok ((membersWithKeys ks ms).map (cbOf pj e)).toArray := forEach_exact pj p e ms ks hok h

open SJ.Layout SJ.WalkLayout SJ.Lookup in
/-- **FindPath**: the value reached by taking the first member with each key in turn; `ErrPathNotFound` when a
    key is absent (or the path is empty), the generic error when the path continues through a non-object
    (`pathSpec`, with `pathSpec_none` / `pathSpec_nonobj` naming the error kinds). -/
theorem C12_findPath (pj : PJ) (p e : Nat) (ms : LMems) (key : Bytes) (rest : List Bytes)
    (hkeys : ∀ k ∈ key :: rest, k.size < 2 ^ 63) (hok : Ok pj (.obj p e ms)) :
    View.findPathTop pj { lim := e, off := p + 1 } (key :: rest) = mapRes (elemOf pj) (pathSpec key rest ms) :=
  findPathTop_spec pj p e ms key rest hkeys hok

open SJ.Layout SJ.WalkLayout SJ.Lookup in
/-- **Object.Parse** lists every member in order (duplicates included) … -/
theorem C12_parse (pj : PJ) (p e : Nat) (ms : LMems) (hok : Ok pj (.obj p e ms)) (ht : TightTop ms) :
    View.parse pj { lim := e, off := p + 1 } #[] (fuelOf pj) = .ok ((membersWithKeys [] ms).map (elemRec pj)).toArray :=
  parse_spec_fuelOf pj p e ms hok ht

open SJ.Layout SJ.WalkLayout SJ.Lookup in
/-- … and **Object.Map** is those members inserted in order (the last duplicate wins), values by `Interface()`. -/
theorem C12_map (pj : PJ) (p e : Nat) (ms : LMems) (hok : Ok pj (.obj p e ms)) (ht : TightMs ms) :
    View.objMap pj { lim := e, off := p + 1 } [] (fuelOf pj) = .ok ((toIMems ms).foldl (fun m kv => mapInsert m kv.1 kv.2) []) :=
  objMap_spec_fuelOf pj p e ms hok ht

open SJ.Generated SJ.GoSem SJ.GoIter SJ.GoNum in
/-- **The numeric accessors of the model are the meaning of their Go source.** `Generated.goIter_Float`, `…_FloatFlags`,
    `…_Int`, `…_Uint` are the syntax trees the translator prints from `parsed_json.go` on every run (`switch i.t`, the
    bounds check of the value word, the range tests `v >= math.MaxInt64`, `v < math.MinInt64`, `v >= math.MaxUint64`,
    `v < 0` with the constants converted to float64 as Go does, the conversions). Interpreting them gives exactly
    `Iter.float`, `floatFlags`, `int`, `uint` of the hand model — value and `nil`, or the zero value and an error exactly when
    the model errs; receiver and tape untouched; on a view of the tape neither side panics. `C12_int_exact`,
    `C12_uint_exact`, `C12_float_exact` are therefore statements about this source (amd64 float→integer conversion and
    IEEE comparison as modelled in `Spec.F64` / `Model.Access`). -/
theorem C12_numeric_accessors_follow_source (pj : PJ) (i : Iter) (fuel : Nat) :
    SimR pj.tape i (fun b => [.u64 b]) [.u64 0]
      (runFun goFuns goIter_Float fuel { env := envOf "i" i, tape := pj.tape }) (i.float pj) ∧
    SimR pj.tape i (fun p => [.u64 p.1, .u64 p.2]) [.u64 0, .u64 0]
      (runFun goFuns goIter_FloatFlags fuel { env := envOf "i" i, tape := pj.tape }) (i.floatFlags pj) ∧
    SimR pj.tape i (fun z => [.int z]) [.int 0]
      (runFun goFuns goIter_Int fuel { env := envOf "i" i, tape := pj.tape }) (i.int pj) ∧
    SimR pj.tape i (fun n => [.u64 (UInt64.ofNat n)]) [.u64 0]
      (runFun goFuns goIter_Uint fuel { env := envOf "i" i, tape := pj.tape }) (i.uint pj) ∧
    (∀ n, i.uint pj = .ok n → n < 2^64) ∧
    (i.lim ≤ pj.tape.size →
      i.float pj ≠ .panic ∧ i.floatFlags pj ≠ .panic ∧ i.int pj ≠ .panic ∧ i.uint pj ≠ .panic) :=
  go_num_source_tie pj i fuel

open SJ.Generated SJ.GoSem SJ.GoIter SJ.GoObject in
/-- **`stringByteAt`, `Iter.StringBytes`, `Iter.Bool` and `Object.NextElementBytes` of the model are the meaning of their Go
    source** (regenerated on every run; `NextElementBytes` with its recursion over NOP words, its call of
    `stringByteAt` on the shared buffers, the aliased destination `*dst` whose previous content cannot influence the
    result, `calcNext` twice, the re-slice of the destination). For every document whose buffers have Go-`int` lengths, every
    view inside the tape and enough fuel: same name bytes, same type, same destination iterator, same advanced object;
    error ⇔ error; neither side panics or runs forever. `Object.Map`, `Parse`, `ForEach`-free walks and the ordered walk of
    C02 are built on `nextElementBytes`: their theorems are about this source. -/
theorem C12_object_walk_follows_source (pj : PJ) (hb : BufOK pj) (n : Int) (off len : UInt64) (i d0 : Iter) (v : View)
    (rest : Env) (hi : i.lim ≤ pj.tape.size) (hv : v.lim ≤ pj.tape.size) (fuel : Nat) (hf : v.lim - v.off + 1 ≤ fuel) :
    SimBytes pj (fun e => e.get "pj.lim" = some (.int n))
      (runFun goFuns goParsedJson_stringByteAt fuel
        ⟨[("pj.lim", .int n), ("Strings.B", .bytes pj.strings), ("Message", .bytes pj.msg), ("offset", .u64 off),
          ("length", .u64 len)], pj.tape⟩)
      (stringByteAt pj off len) ∧
    (stringByteAt pj off len).safe = true ∧
    SimBytes pj (fun e => iterAt e "i" = some i)
      (runFun goFuns goIter_StringBytes fuel ⟨envOf "i" i ++ bufEnv pj, pj.tape⟩) (i.stringBytes pj) ∧
    SimBool pj.tape i (runFun goFuns goIter_Bool fuel ⟨envOf "i" i ++ rest, pj.tape⟩) i.bool ∧
    SimNE pj d0 (runFun goFuns goObject_NextElementBytes fuel ⟨neEnv v d0 pj, pj.tape⟩)
      (View.nextElementBytes pj v fuel) ∧
    (View.nextElementBytes pj v fuel).safe = true :=
  go_object_source_tie pj hb n off len i d0 v rest hi hv fuel hf

open SJ.Generated SJ.GoSem SJ.GoArrNum in
/-- **Source tie** (DESIGN §6.3). `Array.AsFloat`, `Array.AsInteger`, `Array.AsUint64` (`parsed_array.go`) are printed
    from /repo as syntax trees on every run. Their meaning under `GoSem.exec` — the loop over the tape words, the tag
    switch, the unguarded read of the tag word and the guarded read of the value word, the float range tests with
    `math.MaxInt64`/`MinInt64`/`MaxUint64` converted as Go converts them, the conversions — is the bulk accessor model
    `View.asNum` that `C12_bulk_eq_traversal` is about: same slice and nil, nil slice and an error, or a panic, for every
    document and every view (also views longer than the array: both sides panic at the same word). Fuel is the loop
    budget, the same on both sides; `(lim − off)/2 + 1` always suffices. Never stuck; tape untouched. -/
theorem C12_bulk_accessors_follow_source (pj : PJ) (v : View) (fuel : Nat) :
    SimA pj (fun ws => .u64s ws.toList) (.u64s []) v fuel
      (runFun goFuns goArray_AsFloat fuel ⟨[("a.off", .int v.off), ("a.lim", .int v.lim)], pj.tape⟩)
      (View.asNum pj .asFloat v #[] fuel) ∧
    SimA pj (fun ws => .ints (ws.toList.map toInt64)) (.ints []) v fuel
      (runFun goFuns goArray_AsInteger fuel ⟨[("a.off", .int v.off), ("a.lim", .int v.lim)], pj.tape⟩)
      (View.asNum pj .asInteger v #[] fuel) ∧
    SimA pj (fun ws => .u64s ws.toList) (.u64s []) v fuel
      (runFun goFuns goArray_AsUint64 fuel ⟨[("a.off", .int v.off), ("a.lim", .int v.lim)], pj.tape⟩)
      (View.asNum pj .asUint64 v #[] fuel) ∧
    ((v.lim - v.off) / 2 + 1 ≤ fuel → ∀ kind, View.asNum pj kind v #[] fuel ≠ .diverge) :=
  go_arrnum_source_tie pj v fuel

open SJ.GoSem SJ.Generated SJ.GoIter SJ.GoObject SJ.GoApi in
/-- **Source tie** (DESIGN §6.3). `Iter.Object`, `Iter.Array`, `Iter.Root`, `Iter.String` (through
    `ParsedJson.stringAt`), `Iter.StringCvt`, `floatToString` and `Object.NextElement` are printed from /repo as syntax
    trees on every run (a nil destination is a flag; allocation zeroes or copies the fields). Their meaning under
    `GoSem.exec` is the model's `Iter.object`, `Iter.array`, `Iter.root`, `stringBytes`, `stringCvt`, `appendFloat`,
    `View.nextElementBytes`: same view / iterator / bytes and nil, or an error; receiver and tape untouched. `lim, off <
    2^63` says that lengths are Go `int`s. `Iter.Root` returns `TagToType[tag]` of the tag `AdvanceInto` returned, in
    the source and in the model alike (no bounds test, unlike `Iter.Type()`: an earlier model differed when the root's
    payload cuts a two-word value in half; `rootWitness_*` in `Proofs/GoApi` replay that tape: both sides agree). -/
theorem C12_api_follows_source (pj : PJ) (hb : BufOK pj) (i d0 : Iter) (dv v : View) (b : Bool) (bits : UInt64)
    (hl : i.lim ≤ pj.tape.size) (hlim : i.lim < 2^63) (hoff : i.off < 2^63) (hv : v.lim ≤ pj.tape.size)
    (fuel : Nat) (hf : apiFuel pj i v bits ≤ fuel) :
    -- Object, Array
    SimView pj.tape (viewStore i dv b) i (runFun goFuns goIter_Object fuel ⟨viewStore i dv b, pj.tape⟩) i.object ∧
    SimView pj.tape (viewStore i dv b) i (runFun goFuns goIter_Array fuel ⟨viewStore i dv b, pj.tape⟩) i.array ∧
    -- Root, the returned `Type` included
    SimRoot pj.tape (rootStore i d0 b) b i (runFun goFuns goIter_Root fuel ⟨rootStore i d0 b, pj.tape⟩) (i.root pj) ∧
    -- String (through stringAt), StringCvt
    SimBytes pj (fun e' => ∀ k, e'.get k = (envOf "i" i ++ bufEnv pj).get k)
      (runFun goFuns goIter_String fuel ⟨envOf "i" i ++ bufEnv pj, pj.tape⟩) (i.stringBytes pj) ∧
    SimCvt pj i (runFun goFuns goIter_StringCvt fuel ⟨envOf "i" i ++ bufEnv pj, pj.tape⟩) (stringCvt pj i) ∧
    -- floatToString
    (∃ s, runFun goFuns gofloatToString fuel ⟨[("f", .u64 bits)], pj.tape⟩ = .ret s (GoApiFloat.ftsVals bits) ∧
      s.tape = pj.tape) ∧
    -- NextElement
    SimNE pj d0 (runFun goFuns goObject_NextElement fuel ⟨neEnv v d0 pj, pj.tape⟩) (View.nextElementBytes pj v fuel) :=
  SJ.GoApi.go_api_source_tie pj hb i d0 dv v b bits hl hlim hoff hv fuel hf

open SJ.GoSem SJ.Generated SJ.GoIter SJ.GoObject SJ.GoDelete SJ.GoPJForEach SJ.GoFind in
/-- **Source tie** (DESIGN §6.3). `Object.FindKey`, `Object.FindPath` and `Iter.AdvanceIter` specialised to
    `tmp.AdvanceIter(&tmp)` (destination IS the receiver) are printed from /repo as syntax trees on every run. Their
    meaning under `GoSem.exec` is the model's `View.findKey` / `View.findPathTop` that `C12_findKey` and `C12_findPath`
    are about: non-nil with the same type, name and iterator exactly when the model finds the member, nil / an error
    exactly when it does not, a panic exactly when the model panics; for a nil or a caller-supplied destination.
    Two places where the model idealises are stated exactly: when the value after the key is only NOPs up to the end of
    the view Go leaves a caller's `dst.Iter` untouched where the model reports the zero iterator (`D0`; such a tape is
    not produced by parsing, editing or deletion), and after `tmp.AdvanceIter(&tmp)` on a word with an unknown tag the
    single object is the restricted view (not observable: the next statement returns the "not an object" error). -/
theorem C12_find_follows_source (pj : PJ) (hb : BufOK pj) (v : View) (hl : v.lim ≤ pj.tape.size) (key : Bytes)
    (path : List Bytes) (nil : Bool) (d0 : Iter) (extra : Env) (i : Iter) (hil : i.lim ≤ pj.tape.size) (fuel mf : Nat)
    (hmf : v.lim - v.off + 1 ≤ mf) (hf : 2 * v.lim + 11 ≤ fuel) (hfi : fuelFor i ≤ fuel) :
    SimSelf pj.tape (runFun goFuns goIter_AdvanceIter_self fuel ⟨envOf "i" i ++ extra, pj.tape⟩) (advanceIterSelf pj i) ∧
    SimSelfModel pj (runFun goFuns goIter_AdvanceIter_self fuel ⟨envOf "i" i ++ extra, pj.tape⟩) (i.advanceIter pj i) ∧
    FKPost pj key (D0 nil d0) (runFun goFuns goObject_FindKey fuel ⟨fkStore pj v key nil d0 extra, pj.tape⟩)
      (View.findKey pj key v.iter mf) ∧
    FPPost pj (pathLast path) nil (D0 nil d0)
      (runFun goFuns goObject_FindPath fuel ⟨fpStore pj v path nil d0 extra, pj.tape⟩) (View.findPathTop pj v path) :=
  SJ.GoFind.go_find_source_tie pj hb v hl key path nil d0 extra i hil fuel mf hmf hf hfi

open SJ.GoSem SJ.Generated SJ.GoIter SJ.GoObject SJ.GoFindElem in
/-- **Source tie** (DESIGN §6.3). `Iter.FindElement` (`parsed_json.go`) and `Iter.Root` specialised to `cp.Root(&cp)`
    (destination IS the receiver) are printed from /repo as syntax trees on every run. `FindElement` works on a copy of
    the receiver, descends through roots (`Root` on itself), steps over the end of a view (`AdvanceInto`) and hands an
    object to `Object.FindPath` together with the caller's destination and its nil flag. Its meaning under `GoSem.exec`
    is the model's `Iter.findElement`: non-nil and nil error with the same type, name and iterator exactly when the
    model finds the path, an error exactly when the model errs, a panic exactly when it panics; never stuck, neither side
    out of fuel; the receiver and the tape are not modified. -/
theorem C12_findElement_follows_source (pj : PJ) (hb : BufOK pj) (i : Iter) (hl : i.lim ≤ pj.tape.size) (hlim : i.lim < 2^63)
    (hoff : i.off < 2^63) (path : List Bytes) (nil : Bool) (nm tv : Val) (d0 : Iter) (extra : Env) (fuel : Nat)
    (hf : 4 * i.lim + 17 ≤ fuel) :
    SimRootSelf pj.tape (envOf "i" i ++ extra) (runFun goFuns goIter_Root_self fuel ⟨envOf "i" i ++ extra, pj.tape⟩)
      (i.root pj) ∧
    FEPost pj (GoFind.pathLast path) nil (GoFind.D0 nil d0) i
      (runFun goFuns goIter_FindElement fuel ⟨feStore pj i path nil nm tv d0 extra, pj.tape⟩)
      (Iter.findElement pj path i (fuelOf pj)) ∧
    (((∃ s, runFun goFuns goIter_FindElement fuel ⟨feStore pj i path nil nm tv d0 extra, pj.tape⟩ =
          .ret s [.bool true, .bool false]) ↔ ∃ ty d, Iter.findElement pj path i (fuelOf pj) = .ok (ty, d)) ∧
     ((∃ s b, runFun goFuns goIter_FindElement fuel ⟨feStore pj i path nil nm tv d0 extra, pj.tape⟩ =
          .ret s [.bool b, .bool true]) ↔ ∃ e, Iter.findElement pj path i (fuelOf pj) = .error e) ∧
     (runFun goFuns goIter_FindElement fuel ⟨feStore pj i path nil nm tv d0 extra, pj.tape⟩ = .panic ↔
        Iter.findElement pj path i (fuelOf pj) = .panic) ∧
     (∀ w, runFun goFuns goIter_FindElement fuel ⟨feStore pj i path nil nm tv d0 extra, pj.tape⟩ ≠ .stuck w) ∧
     runFun goFuns goIter_FindElement fuel ⟨feStore pj i path nil nm tv d0 extra, pj.tape⟩ ≠ .diverge ∧
     Iter.findElement pj path i (fuelOf pj) ≠ .diverge ∧
     (∀ s vs, runFun goFuns goIter_FindElement fuel ⟨feStore pj i path nil nm tv d0 extra, pj.tape⟩ = .ret s vs →
        s.tape = pj.tape ∧ iterAt s.env "i" = some i)) :=
  SJ.GoFindElem.go_findelement_source_tie pj hb i hl hlim hoff path nil nm tv d0 extra fuel hf

open SJ.GoSem SJ.Generated SJ.GoIter SJ.GoObject SJ.GoDelete SJ.GoArrStr in
/-- **Source tie** (DESIGN §6.3). `Array.AsString` and `Array.AsStringCvt` (`parsed_array.go`), printed from /repo on
    every run (`[]string` carried as a list of byte strings), mean under `GoSem.exec` the model's `View.asString` and
    `asStringCvt` (the same loop with `Iter.String` resp. `Iter.StringCvt`): the same strings and nil, or nil and an
    error; neither side panics or diverges on a view of the tape; never stuck. -/
theorem C12_string_accessors_follow_source (pj : PJ) (hb : BufOK pj) (v : View) (hl : v.lim ≤ pj.tape.size) (extra : Env) (F : Nat)
    (hF : fuelOf pj + v.lim + cvtBound pj + 13 ≤ F) :
    StrTie pj (runFun goFuns goArray_AsString F ⟨arrStore pj v extra, pj.tape⟩)
      (View.asString pj v.iter #[] (fuelOf pj)) ∧
    StrTie pj (runFun goFuns goArray_AsStringCvt F ⟨arrStore pj v extra, pj.tape⟩)
      (asStringCvt pj v.iter #[] (fuelOf pj)) :=
  SJ.GoArrStr.go_arrstr_source_tie pj hb v hl extra F hF

open SJ.GoSem SJ.Generated SJ.GoIter SJ.GoObject SJ.GoElems in
/-- **Source tie** (DESIGN §6.3). `Object.Parse` and `Elements.MarshalJSONBuffer` (`parsed_object.go`) are printed from
    /repo as syntax trees on every run (an `Elements` value as parallel lists, its `Index` map as an insertion-ordered
    association with Go's update law; the nil test of the destination pinned by its source text). Their meaning under
    `GoSem.exec` is the model's `View.parse` and `View.elemsMarshal`: `Parse` leaves exactly the model's elements (name,
    type, iterator each) and an index in which every name maps to its LAST position (`index_lookup`: what
    `Elements.Lookup` returns) — whatever the destination held before (nothing of it survives), for a nil or a recycled
    destination; the marshaller returns `dst ++ text` exactly when the model returns `text`, an error exactly when it
    errs, and leaves the receiver (passed by value) untouched. `cur < 2^63` as for `Iter.MarshalJSONBuffer` (every
    iterator `Parse` stores has a 56-bit `cur`: `parse_facts`). -/
theorem C12_elements_follow_source (pj : PJ) (hb : BufOK pj) (v : View) (hl : v.lim ≤ pj.tape.size) (mf F : Nat)
    (hm : v.lim - v.off + 2 ≤ mf) (hF : v.lim - v.off + 5 ≤ F) :
    -- (1)
    (∀ (es : Array View.Elem) (k : Bytes),
      (assocGet (indexOf es) k = none ↔ ∀ x ∈ es, x.name ≠ k) ∧
      (∀ x, assocGet (indexOf es) k = some x → ∃ p : Nat, x = (p : Int)) ∧
      ∀ p : Nat, assocGet (indexOf es) k = some (p : Int) ↔
        ∃ h : p < es.size, es[p].name = k ∧ ∀ q (hq : q < es.size), p < q → es[q].name ≠ k) ∧
    -- (2)
    (∀ (b : Bool) (old : List Bytes × Bytes × List Int × List Bytes × List Int),
      (∀ es, View.parse pj v #[] mf = .ok es ↔
        ∃ s, runFun goFuns goObject_Parse F ⟨parseEnv pj v b old, pj.tape⟩ = .ret s [.bool true, .bool false] ∧
          s.tape = pj.tape ∧ viewAt s.env "o" = some (parseEnd pj v mf) ∧
          s.env.get "dst==nil" = some (.bool false) ∧ DstIs s.env es) ∧
      ((∃ er, View.parse pj v #[] mf = .error er) ↔
        ∃ s, runFun goFuns goObject_Parse F ⟨parseEnv pj v b old, pj.tape⟩ = .ret s [.bool true, .bool true] ∧
          s.tape = pj.tape) ∧
      View.parse pj v #[] mf ≠ .panic ∧ View.parse pj v #[] mf ≠ .diverge ∧
      runFun goFuns goObject_Parse F ⟨parseEnv pj v b old, pj.tape⟩ ≠ .panic ∧
      runFun goFuns goObject_Parse F ⟨parseEnv pj v b old, pj.tape⟩ ≠ .diverge ∧
      (∀ w, runFun goFuns goObject_Parse F ⟨parseEnv pj v b old, pj.tape⟩ ≠ .stuck w)) ∧
    -- (3)
    (∀ es, View.parse pj v #[] mf = .ok es →
      ∀ x ∈ es, x.iter.lim ≤ pj.tape.size ∧ 0 ≤ x.iter.addNext ∧ x.iter.cur.toNat < 2^56) ∧
    -- (4)
    (∀ (es : Array View.Elem), (∀ x ∈ es, x.iter.lim ≤ pj.tape.size ∧ x.iter.cur.toNat < 2^63) →
      View.elemsMarshal pj es ≠ .diverge →
      ∀ (idx : List Bytes × List Int) (dst : Bytes) (G : Nat), elemsFuel pj es ≤ G →
      (∀ out, View.elemsMarshal pj es = .ok out ↔
        ∃ s, runFun goFuns goElements_MarshalJSONBuffer G ⟨elemsEnv pj es idx dst, pj.tape⟩ =
            .ret s [.bytes (dst ++ out), .bool false] ∧ s.tape = pj.tape ∧
          ∀ key ∈ eVars, s.env.get key = (elemsEnv pj es idx dst).get key) ∧
      ((∃ er, View.elemsMarshal pj es = .error er) ↔
        ∃ s, runFun goFuns goElements_MarshalJSONBuffer G ⟨elemsEnv pj es idx dst, pj.tape⟩ =
            .ret s [.bytes #[], .bool true] ∧ ∀ key ∈ eVars, s.env.get key = (elemsEnv pj es idx dst).get key) ∧
      (View.elemsMarshal pj es = .panic ↔
        runFun goFuns goElements_MarshalJSONBuffer G ⟨elemsEnv pj es idx dst, pj.tape⟩ = .panic) ∧
      runFun goFuns goElements_MarshalJSONBuffer G ⟨elemsEnv pj es idx dst, pj.tape⟩ ≠ .diverge ∧
      (∀ w, runFun goFuns goElements_MarshalJSONBuffer G ⟨elemsEnv pj es idx dst, pj.tape⟩ ≠ .stuck w)) ∧
    -- (5)
    (∀ (es : Array View.Elem), (∀ x ∈ es, x.iter.lim ≤ pj.tape.size ∧ 0 ≤ x.iter.addNext) →
      View.elemsMarshal pj es ≠ .panic ∧ View.elemsMarshal pj es ≠ .diverge) :=
  SJ.GoElems.go_elems_source_tie pj hb v hl mf F hm hF

open SJ SJ.GoSem SJ.Generated SJ.GoIter SJ.GoObject SJ.GoMarshal SJ.GoInterface in
/-- **`Iter.Interface`, `Array.Interface`, `Object.Map` of /repo are the fragment `interfaceV` / `arrV` / `mapV` of the hand
    model**: for every tape (`BufOK`, fewer than 2^63 words), every iterator / view inside the tape, every model fuel
    `mf` and interpreter fuel `F ≥ 3·mf + len(tape) + 10`, running the regenerated tree gives what the fragment
    computes — `.ok v` ⇔ `(v, nil)`; `.error` ⇔ `(_, non-nil error)`; `.panic` ⇔ panic — with tape and buffers unchanged
    and the receiver of `Interface` / `Array.Interface` as before.  Where the fragment answers `.diverge` (its own fuel
    is used up, a Root or None branch of `Interface` is reached, an offset is no Go `int`) nothing is claimed. -/
theorem C12_interface_follows_source (pj : PJ) (hb : BufOK pj) (hsz : pj.tape.size < 2^63) (mf F : Nat)
    (hF : goFuel pj mf ≤ F) :
    (∀ (i : Iter), i.lim ≤ pj.tape.size →
      SimV pj i (runFun goFuns goIter_Interface F ⟨envOf "i" i ++ bufEnv pj, pj.tape⟩) (interfaceV pj i mf)) ∧
    (∀ (a : View), a.lim ≤ pj.tape.size →
      SimA pj a (runFun goFuns goArray_Interface F ⟨[("a.off", .int a.off), ("a.lim", .int a.lim)] ++ bufEnv pj, pj.tape⟩)
        (arrV pj a.iter [] mf)) ∧
    (∀ (o : View) (acc : List (Bytes × IVal)) (b : Bool), o.lim ≤ pj.tape.size → (b = true → acc = []) →
      SimM pj (runFun goFuns goObject_Map F
        ⟨[("o.off", .int o.off), ("o.lim", .int o.lim), ("dst", .iface (.obj acc)), ("dst==nil", .bool b)] ++ bufEnv pj,
          pj.tape⟩) (mapV pj o acc mf)) :=
  SJ.GoInterface.go_interface_source_tie pj hb hsz mf F hF

open SJ SJ.GoSem SJ.Generated SJ.GoIter SJ.GoObject SJ.GoMarshal SJ.GoInterface in
/-- … and against the hand model itself: whenever the fragment is definite, the hand model `Iter.interface` has the same
    answer (`fragment_agrees`), and so has the source. -/
theorem C12_interface_follows_model (pj : PJ) (hb : BufOK pj) (hsz : pj.tape.size < 2^63) (i : Iter)
    (hl : i.lim ≤ pj.tape.size) (mf F : Nat) (hF : goFuel pj mf ≤ F) (v : IVal) (h : interfaceV pj i mf = .ok v) :
    Iter.interface pj i mf = .ok v ∧
    ∃ s, runFun goFuns goIter_Interface F ⟨envOf "i" i ++ bufEnv pj, pj.tape⟩ = .ret s [.iface v, .bool false] ∧
      s.tape = pj.tape ∧ iterAt s.env "i" = some i :=
  SJ.GoInterface.go_interface_follows_model pj hb hsz i hl mf F hF v h

end SJ.Properties.C12
