import SJ.Properties.C13
import SJ.Proofs.SourceLevelB
import SJ.Proofs.SourceLevelC
import SJ.Proofs.SourceLevelF
set_option linter.unusedVariables false
/-
C13 — source level. The theorems of Properties/C13.lean composed with the source ties of DESIGN §6.3: each statement
below is about the MEANING OF THE REGENERATED GO SOURCE (`GoSem.runFun goFuns <tree> fuel ⟨store, tape⟩`), with no
function of the hand model in its conclusion. Proofs: SJ/Proofs/SourceLevelA.lean, SourceLevelB.lean.
-/
namespace SJ.Properties.C13

open SJ.Generated SJ.GoSem SJ.GoIter SJ.GoSet SJ.Layout in
/-- **`SetInt`, source level.** On a tape holding the located document `v`, with the receiver on the two-word scalar node at
    `q` whose tag passes the gate: running the regenerated syntax tree `goIter_SetInt` (any fuel) returns `nil`, and the tape it
    leaves holds `v` with exactly that node replaced by the integer — everything else is the same tree; string buffer and tape
    length unchanged; the receiver is still a complete iterator.  `hl` is the one hypothesis of the tie that does not follow
    from the property's: the view is a prefix of the tape (in Go a slice cannot be longer than its array; in the store the
    view length is a separate variable). -/
theorem C13_source_setInt (pj : PJ) (v : LVal) (hok : Ok pj v) (q : Nat) (hnode : HasNode q (q + 2) v) (i : Iter)
    (hoff : i.off = q + 1) (hview : i.off < i.lim) (hl : i.lim ≤ pj.tape.size)
    (ht : inCase (caseOf swSetInt 0) i.t = true) (z : Int) (fuel : Nat) :
    ∃ s, runFun goFuns goIter_SetInt fuel
        { env := envOf "i" i ++ [("Strings.B", .bytes pj.strings), ("v", .int z)], tape := pj.tape } = .ret s [.bool false] ∧
      Ok { tape := s.tape, strings := pj.strings, msg := pj.msg } (substV q (.int (ofInt64 z) q) v) ∧
      s.env.get "Strings.B" = some (.bytes pj.strings) ∧ s.tape.size = pj.tape.size ∧ ∃ i', iterAt s.env "i" = some i' :=
  SJ.SourceLevelB.C13_source_setInt pj v hok q hnode i hoff hview hl ht z fuel

open SJ.Generated SJ.GoSem SJ.GoIter SJ.GoSet SJ.Layout in
/-- **`SetUInt`, source level** (as `C13_source_setInt`). -/
theorem C13_source_setUInt (pj : PJ) (v : LVal) (hok : Ok pj v) (q : Nat) (hnode : HasNode q (q + 2) v) (i : Iter)
    (hoff : i.off = q + 1) (hview : i.off < i.lim) (hl : i.lim ≤ pj.tape.size)
    (ht : inCase (caseOf swSetUInt 0) i.t = true) (z : UInt64) (fuel : Nat) :
    ∃ s, runFun goFuns goIter_SetUInt fuel
        { env := envOf "i" i ++ [("Strings.B", .bytes pj.strings), ("v", .u64 z)], tape := pj.tape } = .ret s [.bool false] ∧
      Ok { tape := s.tape, strings := pj.strings, msg := pj.msg } (substV q (.uint z q) v) ∧
      s.env.get "Strings.B" = some (.bytes pj.strings) ∧ s.tape.size = pj.tape.size ∧ ∃ i', iterAt s.env "i" = some i' :=
  SJ.SourceLevelB.C13_source_setUInt pj v hok q hnode i hoff hview hl ht z fuel

open SJ.Generated SJ.GoSem SJ.GoIter SJ.GoSet SJ.Layout in
/-- **`SetFloat`, source level**; `bits = math.Float64bits(v)` of the argument (the float flag of the new node is 0). -/
theorem C13_source_setFloat (pj : PJ) (v : LVal) (hok : Ok pj v) (q : Nat) (hnode : HasNode q (q + 2) v) (i : Iter)
    (hoff : i.off = q + 1) (hview : i.off < i.lim) (hl : i.lim ≤ pj.tape.size)
    (ht : inCase (caseOf swSetFloat 0) i.t = true) (bits : UInt64) (fuel : Nat) :
    ∃ s, runFun goFuns goIter_SetFloat fuel
        { env := envOf "i" i ++ [("Strings.B", .bytes pj.strings), ("v", .u64 bits)], tape := pj.tape } = .ret s [.bool false] ∧
      Ok { tape := s.tape, strings := pj.strings, msg := pj.msg } (substV q (.float bits 0 q) v) ∧
      s.env.get "Strings.B" = some (.bytes pj.strings) ∧ s.tape.size = pj.tape.size ∧ ∃ i', iterAt s.env "i" = some i' :=
  SJ.SourceLevelB.C13_source_setFloat pj v hok q hnode i hoff hview hl ht bits fuel

open SJ.Generated SJ.GoSem SJ.GoIter SJ.GoSet SJ.Layout in
/-- **`SetBool`, source level**: the node is one word (`true`/`false`/`null`), so the view only has to reach it (`off ≤ lim`). -/
theorem C13_source_setBool (pj : PJ) (v : LVal) (hok : Ok pj v) (q : Nat) (hnode : HasNode q (q + 1) v) (i : Iter)
    (hoff : i.off = q + 1) (hview : i.off ≤ i.lim) (hl : i.lim ≤ pj.tape.size)
    (ht : inCase (caseOf swSetBool 0) i.t = true) (b : Bool) (fuel : Nat) :
    ∃ s, runFun goFuns goIter_SetBool fuel
        { env := envOf "i" i ++ [("Strings.B", .bytes pj.strings), ("v", .bool b)], tape := pj.tape } = .ret s [.bool false] ∧
      Ok { tape := s.tape, strings := pj.strings, msg := pj.msg } (substV q (.bool b q) v) ∧
      s.env.get "Strings.B" = some (.bytes pj.strings) ∧ s.tape.size = pj.tape.size ∧ ∃ i', iterAt s.env "i" = some i' :=
  SJ.SourceLevelB.C13_source_setBool pj v hok q hnode i hoff hview hl ht b fuel

open SJ.Generated SJ.GoSem SJ.GoIter SJ.GoSet SJ.Layout in
/-- **`SetNull` on a two-word scalar, source level.**  The tie's premise `cur < 2^63` is asked for container tags only and is
    vacuous here (the tag is in the scalar clause).  The fuel premise is the tie's uniform bound for `SetNull` (its container
    clause loops up to `i.cur`); the scalar clause does not loop, but the tie is stated once for all clauses. -/
theorem C13_source_setNull_scalar (pj : PJ) (v : LVal) (hok : Ok pj v) (q : Nat) (hnode : HasNode q (q + 2) v) (i : Iter)
    (hoff : i.off = q + 1) (hview : i.off < i.lim) (hl : i.lim ≤ pj.tape.size)
    (ht0 : inCase (caseOf swSetNull 0) i.t = false) (ht : inCase (caseOf swSetNull 1) i.t = true)
    (fuel : Nat) (hf : i.cur.toNat - i.off + 2 ≤ fuel) :
    ∃ s, runFun goFuns goIter_SetNull fuel
        { env := envOf "i" i ++ [("Strings.B", .bytes pj.strings)], tape := pj.tape } = .ret s [.bool false] ∧
      Ok { tape := s.tape, strings := pj.strings, msg := pj.msg } (substV q (.null q) v) ∧
      s.env.get "Strings.B" = some (.bytes pj.strings) ∧ s.tape.size = pj.tape.size ∧ ∃ i', iterAt s.env "i" = some i' :=
  SJ.SourceLevelB.C13_source_setNull_scalar pj v hok q hnode i hoff hview hl ht0 ht fuel hf

open SJ.Generated SJ.GoSem SJ.GoIter SJ.GoSet SJ.Layout in
/-- **`SetString` / `SetStringBytes`, source level**: the string buffer the run leaves is the old one with exactly the new
    bytes appended, and with it the tape holds `v` with exactly the node at `q` replaced by that string. -/
theorem C13_source_setString (pj : PJ) (v : LVal) (hok : Ok pj v) (q : Nat) (hnode : HasNode q (q + 2) v) (i : Iter)
    (hoff : i.off = q + 1) (hview : i.off < i.lim) (hl : i.lim ≤ pj.tape.size)
    (ht : inCase (caseOf swSetStringBytes 0) i.t = true) (sv : Bytes) (hsmall : pj.strings.size + sv.size < 2^55) (fuel : Nat) :
    ∃ s, runFun goFuns goIter_SetStringBytes fuel
        { env := envOf "i" i ++ [("Strings.B", .bytes pj.strings), ("v", .bytes sv)], tape := pj.tape } = .ret s [.bool false] ∧
      Ok { tape := s.tape, strings := pj.strings ++ sv, msg := pj.msg } (substV q (.str sv.toList q) v) ∧
      s.env.get "Strings.B" = some (.bytes (pj.strings ++ sv)) ∧ s.tape.size = pj.tape.size ∧
      ∃ i', iterAt s.env "i" = some i' :=
  SJ.SourceLevelB.C13_source_setString pj v hok q hnode i hoff hview hl ht sv hsmall fuel

open SJ.Generated SJ.GoSem SJ.GoIter SJ.GoSet SJ.Layout in
/-- **A disallowed `SetInt`, source level**: on a tag the gate refuses, the run returns a non-nil error and tape, string
    buffer and receiver are exactly what they were. -/
theorem C13_source_gate_int (pj : PJ) (i : Iter) (hl : i.lim ≤ pj.tape.size) (z : Int)
    (ht : inCase (caseOf swSetInt 0) i.t = false) (fuel : Nat) :
    ∃ s, runFun goFuns goIter_SetInt fuel
        { env := envOf "i" i ++ [("Strings.B", .bytes pj.strings), ("v", .int z)], tape := pj.tape } = .ret s [.bool true] ∧
      s.tape = pj.tape ∧ s.env.get "Strings.B" = some (.bytes pj.strings) ∧ iterAt s.env "i" = some i :=
  SJ.SourceLevelB.C13_source_gate_int pj i hl z ht fuel

open SJ.Generated SJ.GoSem SJ.GoIter SJ.GoSet SJ.Layout in
/-- Source-level corollary. -/
theorem C13_source_gate_bool (pj : PJ) (i : Iter) (hl : i.lim ≤ pj.tape.size) (b : Bool)
    (ht : inCase (caseOf swSetBool 0) i.t = false) (fuel : Nat) :
    ∃ s, runFun goFuns goIter_SetBool fuel
        { env := envOf "i" i ++ [("Strings.B", .bytes pj.strings), ("v", .bool b)], tape := pj.tape } = .ret s [.bool true] ∧
      s.tape = pj.tape ∧ s.env.get "Strings.B" = some (.bytes pj.strings) ∧ iterAt s.env "i" = some i :=
  SJ.SourceLevelB.C13_source_gate_bool pj i hl b ht fuel

open SJ.Generated SJ.GoSem SJ.GoIter SJ.GoSet SJ.Layout in
/-- Source-level corollary. -/
theorem C13_source_gate_string (pj : PJ) (i : Iter) (hl : i.lim ≤ pj.tape.size) (sv : Bytes)
    (ht : inCase (caseOf swSetStringBytes 0) i.t = false) (fuel : Nat) :
    ∃ s, runFun goFuns goIter_SetStringBytes fuel
        { env := envOf "i" i ++ [("Strings.B", .bytes pj.strings), ("v", .bytes sv)], tape := pj.tape } = .ret s [.bool true] ∧
      s.tape = pj.tape ∧ s.env.get "Strings.B" = some (.bytes pj.strings) ∧ iterAt s.env "i" = some i :=
  SJ.SourceLevelB.C13_source_gate_string pj i hl sv ht fuel

open SJ.Generated SJ.GoSem SJ.GoIter SJ.GoSet SJ.Layout in
/-- `SetNull` on a tag in none of its three clauses (end tags, NOP, unknown).  `cur < 2^63` is vacuous (not a container
    tag); the fuel premise is the tie's uniform bound. -/
theorem C13_source_gate_null (pj : PJ) (i : Iter) (hl : i.lim ≤ pj.tape.size)
    (h0 : inCase (caseOf swSetNull 0) i.t = false) (h1 : inCase (caseOf swSetNull 1) i.t = false)
    (h2 : inCase (caseOf swSetNull 2) i.t = false) (fuel : Nat) (hf : i.cur.toNat - i.off + 2 ≤ fuel) :
    ∃ s, runFun goFuns goIter_SetNull fuel
        { env := envOf "i" i ++ [("Strings.B", .bytes pj.strings)], tape := pj.tape } = .ret s [.bool true] ∧
      s.tape = pj.tape ∧ s.env.get "Strings.B" = some (.bytes pj.strings) ∧ iterAt s.env "i" = some i :=
  SJ.SourceLevelB.C13_source_gate_null pj i hl h0 h1 h2 fuel hf

open SJ.Generated SJ.GoSem SJ.GoIter SJ.GoSet SJ.Layout SJ.SourceLevelC SJ.EditHistory SJ.WalkLayout in
/-- **Any sequence of replacements, source level** (`C13_history` on the source).  `ops` is any list of `SetInt / SetUInt /
    SetFloat / SetBool / SetNull / SetString` calls, each addressed to a tape position and valid in the document as it is
    when the call is made (`ValidSeq`).  Running the regenerated syntax trees one after the other — each on the iterator
    standing on the addressed word of the tape the previous run returned, with the string buffer the previous run returned —
    every run returns `nil`, and the final tape holds the original document with exactly those replacements applied in order
    (`absOps`: a fold of node substitutions), still tight; same `Message`, same tape length, string buffer extended by
    exactly the bytes of the `SetString` calls.
    Discharged from the ties: the view premise (`iterOn`'s view is the whole tape), `cur < 2^63` for `SetNull` on a
    container (a 56-bit payload), and the fuel of `SetNull` (on a container `cur` is the end of the node, inside the tape; on
    other tags the function does not loop — `setNull_sim_noloop`).  Remaining: the interpreter fuel `len(tape) + 2`.
    `ValidSeq` speaks of the model's `applyOp` in its recursion ("valid in the tape the previous call produced"); the
    version with validity on the document alone is `C13_source_history_abs`. -/
theorem C13_source_history (ops : List EOp) (pj : PJ) (v : LVal) (hok : Ok pj v) (ht : Tight v) (hv : ValidSeq pj v ops)
    (fuel : Nat) (hf : pj.tape.size + 2 ≤ fuel) :
    ∃ pj', srcOps fuel pj ops = some pj' ∧ Ok pj' (absOps v ops) ∧ Tight (absOps v ops) ∧ pj'.msg = pj.msg ∧
      pj'.tape.size = pj.tape.size ∧ pj'.strings = pj.strings ++ appendedAll ops :=
  SJ.SourceLevelC.C13_source_history ops pj v hok ht hv fuel hf

open SJ.Generated SJ.GoSem SJ.GoIter SJ.GoSet SJ.Layout SJ.SourceLevelC SJ.EditHistory SJ.WalkLayout in
/-- **… with validity stated on the document alone** (`ValidSeqA`: the addressed node exists in the document reached so far
    and has a constructor the function's gate admits; `SetString` keeps the string buffer below 2^55 bytes; `SetNull` on a
    container needs a tape shorter than 2^56 words).  No function of the hand model occurs in this statement, premises
    included, except the positioning `iterOn` inside `srcOps`. -/
theorem C13_source_history_abs (ops : List EOp) (pj : PJ) (v : LVal) (hok : Ok pj v) (ht : Tight v)
    (hv : ValidSeqA pj.strings.size pj.tape.size v ops) (fuel : Nat) (hf : pj.tape.size + 2 ≤ fuel) :
    ∃ pj', srcOps fuel pj ops = some pj' ∧ Ok pj' (absOps v ops) ∧ Tight (absOps v ops) ∧ pj'.msg = pj.msg ∧
      pj'.tape.size = pj.tape.size ∧ pj'.strings = pj.strings ++ appendedAll ops :=
  SJ.SourceLevelC.C13_source_history_abs ops pj v hok ht hv fuel hf

open SJ.Generated SJ.GoSem SJ.GoIter SJ.GoSet SJ.Layout SJ.SourceLevelC SJ.EditHistory SJ.WalkLayout in
/-- **A disallowed call, run on the source, returns an error and changes nothing** — on ANY tape (no document needed): if
    the gate of the function refuses the tag of the addressed word, the run returns a non-nil error and the tape, the string
    buffer and the receiver are exactly what they were.  Fuel: one unit (`SetNull` on a refused tag does not loop). -/
theorem C13_source_refused (pj : PJ) (op : EOp) (hg : gateOf op (tagAt pj op.pos) = false) (fuel : Nat) (hf : 1 ≤ fuel) :
    ∃ s, srcRun fuel pj op = .ret s [.bool true] ∧ s.tape = pj.tape ∧
      s.env.get "Strings.B" = some (.bytes pj.strings) ∧ iterAt s.env "i" = some (iterOn pj op.pos) :=
  SJ.SourceLevelC.C13_source_refused pj op hg fuel hf

open SJ.Generated SJ.GoSem SJ.GoIter SJ.GoSet SJ.Layout SJ.SourceLevelC SJ.EditHistory SJ.WalkLayout in
/-- **… at any point of a source-side history** (`C13_history_refused` on the source): after the source-side run of a valid
    history, a call whose gate refuses the tag it finds returns a non-nil error, and the tape and string buffer reached so
    far are untouched — they still hold the document reached so far. -/
theorem C13_source_history_refused (ops : List EOp) (pj : PJ) (v : LVal) (hok : Ok pj v) (ht : Tight v)
    (hv : ValidSeq pj v ops) (fuel : Nat) (hf : pj.tape.size + 2 ≤ fuel) (op : EOp)
    (hg : ∀ pjm, srcOps fuel pj ops = some pjm → gateOf op (tagAt pjm op.pos) = false) :
    ∃ pjm, srcOps fuel pj ops = some pjm ∧ Ok pjm (absOps v ops) ∧ Tight (absOps v ops) ∧
      (∃ s, srcRun fuel pjm op = .ret s [.bool true] ∧ s.tape = pjm.tape ∧
        s.env.get "Strings.B" = some (.bytes pjm.strings)) ∧
      srcOps fuel pj (ops ++ [op]) = none :=
  SJ.SourceLevelC.C13_source_history_refused ops pj v hok ht hv fuel hf op hg

open SJ.Generated SJ.GoSem SJ.GoIter SJ.GoSet SJ.Layout SJ.SourceLevelC SJ.EditHistory SJ.WalkLayout SJ.MarshalExact SJ.GoObject SJ.GoMarshal SJ.RenderParse in
/-- **… and the source-side reader then prints exactly the edited document** (the source-level counterpart of
    `C13_history_readback`, whose reader `owalkValue` is a walker of the model): after the source-side run of any valid
    history, running the regenerated `Iter.MarshalJSONBuffer` on the tape and string buffer that run returned, from the
    iterator standing on the document's first word (which has not moved), returns `dst ++` the canonical text
    `renderJ (erase (absOps v ops))` of the edited document, and `nil`.
    Remaining: `FloatsOk` of the edited document (a `SetFloat(NaN)` has no JSON text: `MarshalJSONBuffer` then returns an
    error, `C10_source_marshal_error`); `msg.size < 2^63` and the final string-buffer length `< 2^63` (`BufOK`, Go `int`s);
    interpreter fuel. -/
theorem C13_source_history_readback (ops : List EOp) (pj : PJ) (v : LVal) (hok : Ok pj v) (ht : Tight v)
    (hv : ValidSeq pj v ops) (hfl : FloatsOk (absOps v ops)) (hmsg : pj.msg.size < 2^63)
    (hstr : pj.strings.size + (appendedAll ops).size < 2^63) (fuel : Nat) (hf : pj.tape.size + 2 ≤ fuel) (dst : Bytes)
    (F : Nat) (hF : 3 * pj.tape.size + 25 ≤ F) :
    ∃ pj', srcOps fuel pj ops = some pj' ∧
      ∃ st, runFun goFuns goIter_MarshalJSONBuffer F ⟨initEnv pj' (iterOn pj' v.pos) dst, pj'.tape⟩ =
          .ret st [.bytes (dst ++ renderJ (erase (absOps v ops))), .bool false] ∧ st.tape = pj'.tape :=
  SJ.SourceLevelC.C13_source_history_readback ops pj v hok ht hv hfl hmsg hstr fuel hf dst F hF

open SJ.Generated SJ.GoSem SJ.GoIter SJ.GoSet SJ.Layout SJ.SourceLevelF SJ.Tables SJ.WalkLayout SJ.Lookup SJ.DeleteDoc SJ.MarshalExact SJ.RenderParse SJ.Numeric SJ.EditHistory SJ.GoObject SJ.GoMarshal SJ.GoArrMarshal SJ.GoDelete SJ.SourceLevelB SJ.SourceLevelE in
/-- **`SetInt`, then read back, source level** (the source-level counterpart of `C13_setInt_then_read`).  On a tape holding the
    located document `v` (gaps anywhere) with the receiver on the two-word scalar node at `q` whose tag passes the gate:
    running the regenerated `goIter_SetInt` with the argument `z` returns `nil`, and on the tape it leaves — read with the
    unchanged string buffer and message —
    * the receiver is where it was, now with tag `'l'` and `cur = uint64(z)`;
    * **typed read-back**: running the regenerated `Iter.Int` on the receiver the run left returns `int64(uint64(z))` — `z`
      itself when `−2^63 ≤ z < 2^63` (a Go `int64` always is) — and `nil`; receiver and tape untouched (`Iter.Int` via its tie
      `GoNum`, `C12_source_int_exact`);
    * **whole-document read-back**: from ANY iterator `j` standing on the document (`OnNode`) whose view lies inside the
      tape, the regenerated `Iter.MarshalJSONBuffer` returns `dst ++` the canonical text of `v` with exactly the node at `q`
      replaced by the integer, and `nil`; the iterator standing on the document's first word with the whole tape as its
      view (`iterOn`) is such an iterator.
    The property's reader `owalkValue` is a walker of the hand model without a source tie; as in
    `C13_source_history_readback` the reader here is `Iter.MarshalJSONBuffer` (tie `GoMarshal`).  It skips NOP words
    everywhere, so `Tight v` — which the property needs because `owalkValue` walks objects with `NextElementBytes` — is not
    needed.  Route: `C13_setInt` ∘ `SetInt` tie (`C13_source_setInt`), then `C12_int_exact` ∘ `Int` tie and
    `C10_marshal_exact` ∘ `MarshalJSONBuffer` tie on the resulting tape.
    Discharged: for `Iter.Int`, everything (the receiver keeps its view; the value word is the one just written); for the
    marshaller, `cur < 2^63`, `0 ≤ addNext`, non-divergence, `FloatsOk` of the edited document (from `FloatsOk v`).
    Remaining: `hl` (the editing view is a prefix of the tape), `FloatsOk v` (a NaN/Inf float elsewhere in the document has
    no JSON text), `BufOK pj` (buffer lengths are Go `int`s), `j.lim ≤ len(tape)`, the marshaller's loop budget. -/
theorem C13_source_setInt_then_read (pj : PJ) (v : LVal) (hok : Ok pj v) (q : Nat) (hnode : HasNode q (q + 2) v) (i : Iter)
    (hoff : i.off = q + 1) (hview : i.off < i.lim) (hl : i.lim ≤ pj.tape.size)
    (ht : inCase (caseOf swSetInt 0) i.t = true) (z : Int) (fuel : Nat) (hfl : FloatsOk v) (hb : BufOK pj) :
    ∃ s, runFun goFuns goIter_SetInt fuel
        { env := envOf "i" i ++ [("Strings.B", .bytes pj.strings), ("v", .int z)], tape := pj.tape } = .ret s [.bool false] ∧
      s.env.get "Strings.B" = some (.bytes pj.strings) ∧ s.tape.size = pj.tape.size ∧
      iterAt s.env "i" = some { i with t := tagInteger, cur := ofInt64 z } ∧
      Ok { tape := s.tape, strings := pj.strings, msg := pj.msg } (substV q (.int (ofInt64 z) q) v) ∧
      (∀ F, ∃ s', runFun goFuns goIter_Int F
            { env := envOf "i" { i with t := tagInteger, cur := ofInt64 z }, tape := s.tape } =
          .ret s' [.int (toInt64 (ofInt64 z)), .bool false] ∧ s'.tape = s.tape ∧
          iterAt s'.env "i" = some { i with t := tagInteger, cur := ofInt64 z }) ∧
      (-(2 ^ 63 : Int) ≤ z → z < 2 ^ 63 → toInt64 (ofInt64 z) = z) ∧
      (∀ (j : Iter) (dst : Bytes) (F : Nat),
        OnNode { tape := s.tape, strings := pj.strings, msg := pj.msg } (substV q (.int (ofInt64 z) q) v) j →
        j.lim ≤ s.tape.size → 2 * s.tape.size + j.lim + 25 ≤ F →
        ∃ st, runFun goFuns goIter_MarshalJSONBuffer F
            ⟨initEnv { tape := s.tape, strings := pj.strings, msg := pj.msg } j dst, s.tape⟩ =
          .ret st [.bytes (dst ++ renderJ (erase (substV q (.int (ofInt64 z) q) v))), .bool false] ∧
          st.tape = s.tape) ∧
      OnNode { tape := s.tape, strings := pj.strings, msg := pj.msg } (substV q (.int (ofInt64 z) q) v)
        (iterOn { tape := s.tape, strings := pj.strings, msg := pj.msg } v.pos) :=
  SJ.SourceLevelF.C13_source_setInt_then_read pj v hok q hnode i hoff hview hl ht z fuel hfl hb

end SJ.Properties.C13
