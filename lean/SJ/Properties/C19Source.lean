import SJ.Properties.C19
import SJ.Proofs.SourceLevelC
set_option linter.unusedVariables false
/-
C19 — source level. The theorems of Properties/C19.lean composed with the source ties of DESIGN §6.3: each statement
below is about the MEANING OF THE REGENERATED GO SOURCE (`GoSem.runFun goFuns <tree> fuel ⟨store, tape⟩`), with no
function of the hand model in its conclusion. Proofs: SJ/Proofs/SourceLevelA.lean, SourceLevelB.lean.
-/
namespace SJ.Properties.C19

open SJ.Generated SJ.GoSem SJ.GoIter SJ.GoSet SJ.Layout SJ.SourceLevelC SJ.Rebuild SJ.GoRebuild SJ.GoObject SJ.GoMarshal in
/-- **`Deserialize` never panics on corrupt bytes, source level.**  For EVERY tag stream, EVERY value stream and EVERY prior
    destination tape, running the regenerated reconstruction block of `Serializer.Deserialize` (`goDeserialize_rebuild`: from
    `var off int` to the end of the function) returns: either `dst, nil` — and then the tape it leaves has exactly the length
    of the prior destination tape (the block never grows or shrinks `dst.Tape`) — or a non-nil error.  In particular the run
    does not panic (no index outside `dst.Tape`, `s.tagsBuf`, `values`), is not stuck (the tree is inside the translated
    subset and well typed on this store), and does not diverge (the fuel suffices).
    Discharged: nothing of the tie is left but its own two premises — `init.size < 2^56` (Go compares tape offsets in
    `uint64`; a tape offset has 56 bits anyway) and fuel `len(dst.Tape) + 8` (the longest inner loop writes at most
    `len(dst.Tape)` skips). -/
theorem C19_source_rebuild_no_panic (init : Array UInt64) (tags values : Bytes) (hsz : init.size < 2^56) (fuel : Nat)
    (hf : init.size + 8 ≤ fuel) :
    (∃ s, runFun goFuns goDeserialize_rebuild fuel (rebStore init tags values) = .ret s [.bool true, .bool false] ∧
        s.tape.size = init.size) ∨
    (∃ s p, runFun goFuns goDeserialize_rebuild fuel (rebStore init tags values) = .ret s [.bool p, .bool true]) :=
  SJ.SourceLevelC.C19_source_rebuild_no_panic init tags values hsz fuel hf

open SJ.Generated SJ.GoSem SJ.GoIter SJ.GoSet SJ.Layout SJ.SourceLevelC SJ.Rebuild SJ.GoRebuild SJ.GoObject SJ.GoMarshal in
/-- … spelled out: the run is none of a panic, a divergence, a stuck state, or a fall off the end of the block. -/
theorem C19_source_rebuild_returns (init : Array UInt64) (tags values : Bytes) (hsz : init.size < 2^56) (fuel : Nat)
    (hf : init.size + 8 ≤ fuel) :
    runFun goFuns goDeserialize_rebuild fuel (rebStore init tags values) ≠ .panic ∧
    runFun goFuns goDeserialize_rebuild fuel (rebStore init tags values) ≠ .diverge ∧
    (∀ why, runFun goFuns goDeserialize_rebuild fuel (rebStore init tags values) ≠ .stuck why) ∧
    ∃ s vs, runFun goFuns goDeserialize_rebuild fuel (rebStore init tags values) = .ret s vs :=
  SJ.SourceLevelC.C19_source_rebuild_returns init tags values hsz fuel hf

open SJ.Generated SJ.GoSem SJ.GoIter SJ.GoSet SJ.Layout SJ.SourceLevelC SJ.Rebuild SJ.GoRebuild SJ.GoObject SJ.GoMarshal in
/-- **What a returned result guarantees, source level** (`C19_result_walkable` on the tape the source returned).  Whatever
    the two streams were: if the reconstruction block returns `dst, nil`, then on the tape it leaves — read, as `Deserialize`
    sets them, with an empty string buffer and ANY `Message` shorter than 2^63 bytes — running the regenerated
    `Iter.MarshalJSONBuffer` from the iterator `ParsedJson.Iter()` builds (view = the whole tape, offset 0) returns bytes and
    `nil`, or a non-nil error; it does not panic, and leaves the tape alone.  (The tape may denote no document at all: the
    statement is about memory safety and termination of the reader, not about what it prints.)
    Discharged: the marshal tie's view premise (`lim = len(tape)`), `cur < 2^63` (`cur = 0`), `0 ≤ addNext`, non-divergence
    of the model (`WalkSafe.marshalBuf_safe`, the lemma behind `C19_result_walkable`'s marshal clause, here for every `dst`
    and not only `nil`), and the length of the returned tape.  Remaining: `msg.size < 2^63` (`BufOK`: a Go slice length is an `int`; the tape does not bound the message) and the
    interpreter's loop budget `3·len(tape) + 25`.  Not composed: the `owalk` / `Iter.Interface` clauses of
    `C19_result_walkable` — there is no source tie for `Iter.Interface` (it is not among the translated functions). -/
theorem C19_source_result_marshal (init : Array UInt64) (tags values : Bytes) (hsz : init.size < 2^56) (fuel : Nat)
    (hf : init.size + 8 ≤ fuel) (s : GoSem.St)
    (hrun : runFun goFuns goDeserialize_rebuild fuel (rebStore init tags values) = .ret s [.bool true, .bool false])
    (msg dst : Bytes) (hmsg : msg.size < 2^63) (F : Nat) (hF : 3 * init.size + 25 ≤ F) :
    (∃ st out, runFun goFuns goIter_MarshalJSONBuffer F
          ⟨initEnv { tape := s.tape, strings := #[], msg := msg }
            { lim := s.tape.size, off := 0, addNext := 0, cur := 0, t := tagEnd } dst, s.tape⟩ =
        .ret st [.bytes out, .bool false] ∧ st.tape = s.tape) ∨
    (∃ st v, runFun goFuns goIter_MarshalJSONBuffer F
          ⟨initEnv { tape := s.tape, strings := #[], msg := msg }
            { lim := s.tape.size, off := 0, addNext := 0, cur := 0, t := tagEnd } dst, s.tape⟩ =
        .ret st [v, .bool true]) :=
  SJ.SourceLevelC.C19_source_result_marshal init tags values hsz fuel hf s hrun msg dst hmsg F hF

end SJ.Properties.C19
