import SJ.Proofs.Tables
import SJ.Proofs.F64Round
import SJ.Proofs.Number
import SJ.Proofs.GoNumber
/-
C03 — Numbers get the documented type and the exact value.
-/
namespace SJ.Properties.C03
open SJ SJ.Tables SJ.Generated

theorem C03_number_runes (b : UInt8) : numRune b = numRuneSpec b := numRune_spec b

/-- The integer short-cut is taken for literals of at most 20 characters; longer integer literals cannot fit
    int64 or uint64 unless they have leading zeros, which are rejected: 10^19 has 20 digits and exceeds 2^63,
    10^20 has 21 digits and exceeds 2^64. -/
theorem C03_maxIntLen : cmaxIntLen = 20 ∧ 10^19 > 2^63 - 1 ∧ 10^20 > 2^64 - 1 ∧ 10^19 < 2^64 := by decide

/-- The overflowed-integer flag is bit 0 of the float tag's payload. -/
theorem C03_flag : cFloatOverflowedInteger = 1 ∧ wFloatOverflowedInteger = 1 := by decide

open SJ.NumberProofs

/-- An integer literal (optional minus, digits without superfluous leading zero) followed by an end-of-value
    byte: int64 if it fits, else uint64 if non-negative and it fits, else the correctly rounded float64 with the
    overflowed-integer flag (or rejection if that is infinite). Any number of digits. -/
theorem C03_integer_literal (neg : Bool) (digits rest : List UInt8) (t : UInt8)
    (hne : digits ≠ []) (hdig : ∀ d ∈ digits, isDigit d = true)
    (hlz : digits = [48] ∨ digits.head? ≠ some 48) (ht : numRune t = 8) :
    parseNumber (((if neg then [45] else []) ++ digits) ++ t :: rest).toArray 0 =
      (let z : Int := if neg then -(digitsVal digits : Int) else digitsVal digits
       if -(2^63:Int) ≤ z ∧ z < 2^63 then some (mkWord tagInteger 0, ofInt64 z)
       else if 0 ≤ z ∧ z < 2^64 then some (mkWord tagUint 0, UInt64.ofNat z.toNat)
       else (F64.roundDecimal neg (digitsVal digits) 0).map
              (fun b => (mkWord tagFloat 0 ||| wFloatOverflowedInteger, b))) :=
  integer_literal neg digits rest t hne hdig hlz ht

/-- Every literal of the RFC grammar followed by an end-of-value byte gets the tag, flag and value that the
    specification `Spec.numValue` assigns (float literals: correctly rounded, flag clear). -/
theorem C03_agrees_with_spec (s rest : List UInt8) (l : Spec.NumLit) (t : UInt8)
    (hs : Spec.numberLit s = some (l, [])) (ht : numRune t = 8) :
    parseNumber (s ++ t :: rest).toArray 0 = (Spec.numValue l).map encode :=
  agrees_with_spec s rest l t hs ht

/-- What is not a literal of the grammar is rejected. -/
theorem C03_rejects (s rest : List UInt8) (t : UInt8) (hstart : NumStart s) (ht : numRune t = 8)
    (h : Spec.numberLit s = none ∨ ∃ l c r, Spec.numberLit s = some (l, c :: r) ∧ numRune c ≠ 8) :
    parseNumber (s ++ t :: rest).toArray 0 = none :=
  rejects_with_spec_eov s rest t hstart ht h

/-- non-vacuity: the three integer branches and a float are all taken -/
example : parseNumber "9223372036854775807,".toUTF8.data 0 = some (mkWord tagInteger 0, 0x7fffffffffffffff) ∧
    parseNumber "9223372036854775808,".toUTF8.data 0 = some (mkWord tagUint 0, 0x8000000000000000) := by decide +kernel


open SJ.F64Round SJ.F64 SJ.Numeric in
/-- **"Correctly rounded" means what it says.** `F64.roundDecimal` — the function `Spec.numValue` uses to say which
    float64 a literal with fraction/exponent (or an over-long integer) must be exposed as — returns the binary64
    nearest to the exact value `± m · 10^e` among all finite binary64 values, and in a tie the one with even mantissa.
    (Stated over `Rat`; `none` = the value rounds to infinity.) -/
theorem C03_roundDecimal_is_nearest_even (neg : Bool) (m : Nat) (e : Int) (b : UInt64)
    (h : F64.roundDecimal neg m e = some b) : IsNearestEven b (decValue neg m e) := roundDecimal_nearest neg m e b h

open SJ.F64Round SJ.F64 in
/-- exactly representable values are fixed points of the rounding -/
theorem C03_round_exact (b : UInt64) (m : Nat) (e : Int) (h : F64.decode b = .fin false m e) (hm : m ≠ 0) :
    F64.roundPos m e false = some b := roundPos_decode b m e h hm

open SJ.GoSem SJ.GoNumber in
/-- **Source tie** (DESIGN §6.3). `parseNumber` of `parse_number_amd64.go`, printed from /repo on every run, means
    under `GoSem.exec` exactly the `parseNumber` of the hand model that `C03_integer_literal`, `C03_agrees_with_spec`
    and `C03_rejects` are about — same tag, same value word, tag 0 exactly when the model rejects; for every buffer,
    start position and fuel. -/
theorem C03_parseNumber_follows_source (buf : Bytes) (start : Nat) (fuel : Nat) (tape : Array UInt64) :
    (∃ s, runFun goFuns goparseNumber fuel ⟨[("buf", .bytes (buf.extract start buf.size))], tape⟩ =
        .ret s (enc (parseNumber buf start)) ∧ s.tape = tape) ∧
    (∀ id val, parseNumber buf start = some (id, val) ↔
      id ≠ 0 ∧ ∃ s, runFun goFuns goparseNumber fuel ⟨[("buf", .bytes (buf.extract start buf.size))], tape⟩ =
        .ret s [.u64 id, .u64 val]) ∧
    (parseNumber buf start = none ↔
      ∃ s, runFun goFuns goparseNumber fuel ⟨[("buf", .bytes (buf.extract start buf.size))], tape⟩ =
        .ret s [.u64 0, .u64 0]) :=
  ⟨parseNumber_sim buf start fuel tape, parseNumber_some_iff buf start fuel tape, parseNumber_none_iff buf start fuel tape⟩

end SJ.Properties.C03
