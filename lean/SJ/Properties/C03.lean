import SJ.Proofs.Tables
/-
C03 — Numbers get the documented type and the exact value.
-/
namespace SJ.Properties.C03
open SJ SJ.Tables SJ.Generated

theorem C03_number_runes (b : UInt8) : numRune b = numRuneSpec b := numRune_spec b

/-- The integer short-cut is taken for literals of at most 20 characters; longer integer literals cannot fit
    int64 or uint64 unless they have leading zeros, which are rejected: 10^19 has 20 digits and exceeds 2^63,
    10^20 has 21 digits and exceeds 2^64. -/
theorem C03_maxIntLen : cmaxIntLen = 20 ∧ 10^19 > 2^63 - 1 ∧ 10^20 > 2^64 - 1 ∧ 10^19 < 2^64 := by decide

/-- The overflowed-integer flag is bit 0 of the float tag's payload. -/
theorem C03_flag : cFloatOverflowedInteger = 1 ∧ wFloatOverflowedInteger = 1 := by decide

end SJ.Properties.C03
