import SJ.Properties.C17
import SJ.Proofs.SourceLevelB
import SJ.Proofs.SourceLevelI
set_option linter.unusedVariables false
/-
C17 — source level. The theorems of Properties/C17.lean composed with the source ties of DESIGN §6.3: each statement
below is about the MEANING OF THE REGENERATED GO SOURCE (`GoSem.runFun goFuns <tree> fuel ⟨store, tape⟩`), with no
function of the hand model in its conclusion. Proofs: SJ/Proofs/SourceLevelA.lean, SourceLevelB.lean.
-/
namespace SJ.Properties.C17

open SJ.Generated SJ.GoSem SJ.GoIter SJ.GoSet SJ.Layout SJ.GoSerialize SJ.GoObject SJ.GoRebuild in
/-- **Serialize → Deserialize round trip, source level**, at the level where the two translated blocks meet: the tag stream
    and the value stream.  For every tape that denotes a document `d` (C17's format, gaps included), within the format's size
    limits, every hash function (`runtime.memhash` answers), every `s.tagsBuf` of `tagBufSize` bytes and any `s.valuesBuf`:
    running the regenerated tape loop of `Serialize` (`goSerialize_loop`) falls off its end with the tape untouched, having
    handed byte streams `tags`, `values` and the deduplicated string buffer `msg` to the three block writers; and running the
    regenerated reconstruction loop of `Deserialize` (`goDeserialize_rebuild`) on exactly those two streams, over ANY prior
    destination tape of the declared size, returns `dst, nil` with a tape that — read with `msg` as its `Message` and no string
    buffer, as `Deserialize` sets them — denotes the same `d`, has the same length, and in which every NOP skip count is
    exactly the distance to the end of its run (`C17_deser_nops_exact`).
    Route: loop = `serLoop` (tie), `C11_roundtrip` / `C17_deser_nops_exact` on the model, `rebuild` = source (tie).
    Discharged: the rebuild tie's `init.size < 2^56` (from `init.size = len(tape) < 2^56`).  Remaining, each a premise of the
    serialize tie that the round-trip premises do not imply: `BufOK pj` (buffers shorter than 2^63; implied by `hb` when the
    tape is not empty, `bufOK_of_bound`, but `WF` allows the empty tape) and `NoMaxLenString pj` (no string of length
    ≡ 2^32 − 1 mod 2^32: there Go's `indexString` panics and the model does not — a recorded difference).  Both follow from
    `StrShort pj` (buffers shorter than 4 GiB − 1).  Fuel: `len(tape) + 2` and `len(tape) + 8`. -/
theorem C17_source_roundtrip (pj : PJ) (d : List JVal) (hash : Bytes → Nat) (hwf : WF pj d) (hsz : pj.tape.size < 2^56)
    (hb : pj.tape.size * max pj.msg.size pj.strings.size < 2^55) (hbuf : BufOK pj) (hnm : NoMaxLenString pj)
    (tb vb : Bytes) (htb : tb.size = 65536) (F : Nat) (hF : pj.tape.size + 2 ≤ F) :
    ∃ s tags values msg, runFun goFuns goSerialize_loop F (loopStore pj hash tb vb) = .ret s [] ∧ s.tape = pj.tape ∧
      s.env.get "tagWr.out" = some (.bytes tags) ∧ s.env.get "valWr.out" = some (.bytes values) ∧
      s.env.get "s.stringWr.out" = some (.bytes msg) ∧
      ∀ (init : Array UInt64), init.size = pj.tape.size → ∀ (fuel : Nat), init.size + 8 ≤ fuel →
        ∃ s', runFun goFuns goDeserialize_rebuild fuel (rebStore init tags values) = .ret s' [.bool true, .bool false] ∧
          WF { tape := s'.tape, strings := #[], msg := msg } d ∧ s'.tape.size = pj.tape.size ∧
          nopsExact { tape := s'.tape, strings := #[], msg := msg } = none :=
  SJ.SourceLevelB.C17_source_roundtrip pj d hash hwf hsz hb hbuf hnm tb vb htb F hF

open SJ SJ.Generated SJ.GoSem SJ.GoIter SJ.GoObject SJ.Layout SJ.WalkLayout SJ.ParseDefs SJ.MarshalExact SJ.GoMarshal SJ.SourceLevelI SJ.TrimEdge SJ.GoPJForEach SJ.GoSerialize SJ.GoRebuild in
/-- **Parse, then Serialize → Deserialize, source level (E3).**  ASSUMED: the trimmed input is shorter than 2^26 bytes (64 MiB:
    the bound under which the serialized format's 55-bit string offsets cannot overflow for ANY tape of that input,
    `len(tape)·len(buffers) < 2^55`) and the parser model returns the tape `pj`.  CONCLUDED: `pj` denotes a document `d`
    (`WF pj d`), and for every hash function, every `s.tagsBuf` of 65536 bytes, any `s.valuesBuf` and fuel `F ≥ 3·n + 4`:
    running the regenerated tape loop of `Serialize` falls off its end with the tape untouched, having handed `tags`,
    `values`, `msg` to the block writers; and running the regenerated reconstruction loop of `Deserialize` on those streams
    over ANY prior destination of the declared size (fuel `≥ len + 8`) returns `dst, nil` with a tape that — read with `msg`
    as its `Message` — denotes the same `d`, has the same length and exact NOP skips.
    Discharged from the parser facts: all five tape premises of `C17_source_roundtrip` (`WF`, `len(tape) < 2^56`, the 2^55
    product bound, `BufOK`, `NoMaxLenString` — the last two through `StrShort`: both buffers are at most `n < 2^26` bytes
    long) and the serializer's fuel. -/
theorem C17_source_parse_roundtrip (cfg : Cfg) (nd : Bool) (input : Bytes) (pj : PJ)
    (hsz : (trimSpace input).size < 2^26) (h : parseAny cfg nd input = .ok pj) (hash : Bytes → Nat)
    (tb vb : Bytes) (htb : tb.size = 65536) (F : Nat) (hF : 3 * (trimSpace input).size + 4 ≤ F) :
    ∃ d, WF pj d ∧
    ∃ s tags values msg, runFun goFuns goSerialize_loop F (loopStore pj hash tb vb) = .ret s [] ∧ s.tape = pj.tape ∧
      s.env.get "tagWr.out" = some (.bytes tags) ∧ s.env.get "valWr.out" = some (.bytes values) ∧
      s.env.get "s.stringWr.out" = some (.bytes msg) ∧
      ∀ (init : Array UInt64), init.size = pj.tape.size → ∀ (fuel : Nat), init.size + 8 ≤ fuel →
        ∃ s', runFun goFuns goDeserialize_rebuild fuel (rebStore init tags values) = .ret s' [.bool true, .bool false] ∧
          WF { tape := s'.tape, strings := #[], msg := msg } d ∧ s'.tape.size = pj.tape.size ∧
          nopsExact { tape := s'.tape, strings := #[], msg := msg } = none :=
  SJ.SourceLevelI.parse_then_serialize_roundtrip_source cfg nd input pj hsz h hash tb vb htb F hF

end SJ.Properties.C17
