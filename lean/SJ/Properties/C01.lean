import SJ.Proofs.Tables
import SJ.Proofs.ParseIff
import SJ.Proofs.SpecTrim
import SJ.Proofs.TrimEdgeAscii
import SJ.Proofs.Number
import SJ.Proofs.BlockScan
import SJ.Generated.Consts
import SJ.Proofs.Stage2Table
import SJ.Proofs.GoNumber
import SJ.Proofs.GoStage2
/-
C01 — Parse accepts exactly the JSON grammar (object or array at the root).
Theorems about the validators' tables; the statement about the whole parser is in progress (see DESIGN.md §7).
-/
namespace SJ.Properties.C01
open SJ SJ.Tables

/-- After `true`, `false`, `null` only the six structural characters and the four JSON white-space characters
    are accepted — in particular not NUL. -/
theorem C01_follow_set (b : UInt8) : isFollow b = followSet b := follow_spec b

theorem C01_nul_is_no_follow : isFollow 0 = false := by decide +kernel

/-- The number scanner's character classes are those of the RFC number grammar. -/
theorem C01_number_runes (b : UInt8) : numRune b = numRuneSpec b := numRune_spec b

/-- Hex digits of a `\\u` escape: `0-9A-Fa-f`, everything else is −1 (rejected by the range test). -/
theorem C01_hex_digits (b : UInt8) : digitToVal b = hexValSpec b := digitToVal_spec b

/-- The two-character escapes are exactly the eight of RFC 8259 §7. -/
theorem C01_escapes (b : UInt8) : escapeMap b = escapeSpec b := escapeMap_spec b

/-- Stage 1 classifies exactly `{ } [ ] : ,` as structural, the four JSON white-space bytes as white space,
    and bytes below 0x20 as control characters. -/
theorem C01_classes (b : UInt8) :
    isStructByte b = (b == 44 || b == 58 || b == 91 || b == 93 || b == 123 || b == 125) ∧
    isWsByte b = (b == 32 || b == 9 || b == 10 || b == 13) ∧ isCtrlByte b = (b < 0x20) :=
  ⟨classify_struct b, classify_ws b, classify_ctrl b⟩

/-- `jsonMarkup` (decides which trailing index of a buffer is carried over) is the structural class. -/
theorem C01_markup (b : UInt8) : isMarkup b = (b == 123 || b == 125 || b == 91 || b == 93 || b == 44 || b == 58) := markup_spec b

open SJ.NumberProofs in
/-- **Numbers (all of them).** For every buffer whose first byte is `-` or a digit (the only ones stage 2 hands
    over), `parseNumber` accepts exactly the RFC 8259 number literals that are followed by an end-of-value byte
    and whose value is finite, and returns the value C03 states; everything else is rejected. -/
theorem C01_number_iff (buf : Bytes) (start : Nat) (hstart : NumStart (buf.toList.drop start)) :
    parseNumber buf start =
      match Spec.numberLit (buf.toList.drop start) with
      | some (l, r) => if Stop r then (Spec.numValue l).map encode else none
      | none => none := parseNumber_spec buf start hstart

/-- Superfluous leading zeros are rejected with or without a minus sign, on the integer and on the float path,
    whatever follows. -/
theorem C01_leading_zero (neg : Bool) (d : UInt8) (more : List UInt8) (hd : isDigit d = true) :
    parseNumber ((if neg then [45] else []) ++ 48 :: d :: more).toArray 0 = none :=
  SJ.NumberProofs.leading_zero_rejected neg d more hd

/-- **Stage 1, every message, both kernel families.** The block loop over the 64-byte block function assembled
    from the regenerated assembly fragments (tail padded with spaces) yields the same verdict and the same
    structural indices as the per-byte scanner. -/
theorem C01_stage1_blocks (avx512 nd : Bool) (msg : Bytes) : stage1 nd msg = SJ.Block.stage1Blocks avx512 nd msg :=
  SJ.Block.stage1_eq_blocks avx512 nd msg

/-- Room for one more block and the tail block in every index buffer (otherwise the assembly's unchecked
    stores leave the slot). -/
theorem C01_buffer_bound : Generated.cindexSizeWithSafetyBuffer + 64 + 64 ≤ Generated.cindexSize := by decide


open SJ.Stage2Table SJ.Generated in
/-- **Stage 2's control skeleton is the source's.** The table `stage2Sites` is regenerated on every run by executing
    the body of `unifiedMachine` (labels, gotos, `switch buf[idx]`, byte comparisons, the blank-line loop) for every
    `updateChar` call site and every byte value; the hand-written step function of the model is *equal* to the
    interpretation of that table with the model's helpers — which bytes are accepted in which state, which validator
    or tape write they trigger, and which state follows. A dropped check, an extra accepted byte or a wrong `goto`
    changes the table and breaks this theorem. -/
theorem C01_stage2_follows_source (m : M) (cfg : Cfg) (buf : Bytes) (idx peek : Nat) :
    ∃ p, Plan.import (lookup stage2Sites (siteOf m.st) (buf.getD idx 0)) = some p ∧
      m.step cfg buf idx peek = runPlan cfg buf idx peek p m := step_follows_source m cfg buf idx peek

open SJ.Stage2Table SJ.Generated in
/-- every state has its call site, the table has exactly those eleven sites -/
theorem C01_stage2_sites : stage2Sites.length = 11 ∧ stage2SiteLines.length = 11 ∧ stOfSite 11 = none ∧
    ∀ s, stOfSite (siteOf s) = some s := ⟨sites_count.1, sites_count.2.1, sites_count.2.2, stOfSite_siteOf⟩

open SJ.Stage2Table SJ.Generated in
/-- the return-state dispatch of `scopeEnd`, the START prologue and the `succeed:` block are the expected ones -/
theorem C01_stage2_blocks :
    (stage2Prologue = [Act.push .start, Act.write 114].map Act.name) ∧
    stage2ScopeEnd = ["pop", "write@:buf[idx]", "annotate:loc", "dispatch"] ∧
    stage2ReopenRoot = ["pop", "annotate:loc+addOneForRoot", "write@:r", "push:retAddressStartConst", "write:r"] ∧
    stage2Succeed = ["pop", "requireEmpty", "annotate:loc+addOneForRoot", "write@:r", "isvalid", "return:true"] :=
  ⟨prologue.1, block_shapes.1, block_shapes.2.1, block_shapes.2.2⟩

open SJ.Stage2Table in
/-- a failing table entry fails the step; a successful step lands in the state the table names (for `scopeEnd`,
    the state decoded from the popped return code through the regenerated dispatch) -/
theorem C01_stage2_step_plan (m : M) (cfg : Cfg) (buf : Bytes) (idx peek : Nat) :
    (planOf m.st (buf.getD idx 0) = none → m.step cfg buf idx peek = none) ∧
    (∀ m', m.step cfg buf idx peek = some m' →
      ∃ acts succ, planOf m.st (buf.getD idx 0) = some (acts, succ) ∧
        match succ with
        | .to s => m'.st = s
        | .ret => acts = [.scopeEnd] ∧ ∃ offset rest, m.stack = offset :: rest ∧ m'.stack = rest ∧
            some m'.st = retState (offset &&& UInt64.ofNat Generated.stage2RetMask).toNat) :=
  step_plan m cfg buf idx peek


open SJ.TrimEdge in
/-- **The edge of the claim.** `bytes.TrimSpace` removes exactly the JSON white space whenever the first and the last
    byte that remain after removing JSON white space are ASCII other than VT/FF — in particular for every text that
    trims to `{…}` or `[…]`, whatever it contains. Only inputs with non-JSON (Unicode, VT, FF) white space at the very
    edges are outside. -/
theorem C01_edge (input : Bytes) (h : PlainTrimEnds input) : EdgeOK input := edgeOK_of_trimEnds input h


open SJ.TrimEdge SJ.ParseDefs in
/-- **Parse accepts exactly the JSON grammar.** For every input whose edges carry only JSON white space (`EdgeOK`,
    see `C01_edge`) and which is shorter than 2^50 bytes, and whose text the specification does not declare outside
    the claim (ill-formed surrogate escapes, non-UTF-8 bytes inside strings): the model of `Parse` — `bytes.TrimSpace`,
    the stage-1 scanner, the index buffers with their strip rule and peek values, the stage-2 machine with
    `parseNumber`, the atom validators and the string decoder — returns a result **iff** the text, ignoring leading and
    trailing white space, is a JSON text per RFC 8259 whose top-level value is an object or array and whose number
    literals are finite as float64 (`Spec.containerText`). -/
theorem C01_parse_iff (cfg : Cfg) (input : Bytes) (he : EdgeOK input) (hsz : SizeOK (trimSpace input))
    (hin : Spec.containerText (jsonTrim input).toList ≠ .outside) :
    (∃ pj, parse cfg input = .ok pj) ↔ ∃ v, Spec.containerText (jsonTrim input).toList = .accept v :=
  SJ.ParseIff.parse_iff cfg input he hsz hin

open SJ.TrimEdge SJ.ParseDefs in
/-- every other input returns an error and no result -/
theorem C01_parse_rejects (cfg : Cfg) (input : Bytes) (he : EdgeOK input) (hsz : SizeOK (trimSpace input))
    (h : Spec.containerText (jsonTrim input).toList = .reject) : parse cfg input = .error .generic :=
  SJ.ParseIff.parse_rejects cfg input he hsz h


open SJ.TrimEdge in
/-- the specification itself ignores JSON white space at both ends as far as acceptance (and the accepted value) goes -/
theorem C01_spec_ignores_edge_ws (l : List UInt8) (v : Spec.JVal) :
    Spec.containerText (jsonTrimL l) = .accept v ↔ Spec.containerText l = .accept v :=
  SJ.SpecTrim.containerText_trim_accept l v

open SJ.GoSem SJ.Generated SJ.GoNumber in
/-- **Source tie** (DESIGN §6.3). `isValidTrueAtom`, `isValidFalseAtom`, `isValidNullAtom` and `parseNumber`
    (`parse_json_amd64.go`, `parse_number_amd64.go`) are printed from /repo as syntax trees on every run; their meaning
    under `GoSem.exec` — the little-endian word comparison with its mask, the length guards, the look-up of the follow
    byte, the digit loops, `strconv.ParseFloat`/`ParseInt`/`ParseUint` by contract — is, for every buffer, every start
    position and every amount of fuel, exactly the `isValidTrueAtom`/… /`parseNumber` of the hand model used by
    `C01_parse_iff`: the Go code returns tag 0 exactly when the model rejects the literal, and the same tag and value
    word otherwise. The tape is not touched and the trees are never stuck and never out of fuel. -/
theorem C01_atoms_and_numbers_follow_source (buf : Bytes) (start : Nat) (fuel : Nat) (tape : Array UInt64) :
    (∃ s, runFun goFuns goisValidTrueAtom fuel ⟨[("buf", .bytes (buf.extract start buf.size))], tape⟩ =
        .ret s [.bool (isValidTrueAtom buf start)] ∧ s.tape = tape) ∧
    (∃ s, runFun goFuns goisValidFalseAtom fuel ⟨[("buf", .bytes (buf.extract start buf.size))], tape⟩ =
        .ret s [.bool (isValidFalseAtom buf start)] ∧ s.tape = tape) ∧
    (∃ s, runFun goFuns goisValidNullAtom fuel ⟨[("buf", .bytes (buf.extract start buf.size))], tape⟩ =
        .ret s [.bool (isValidNullAtom buf start)] ∧ s.tape = tape) ∧
    (∃ s, runFun goFuns goparseNumber fuel ⟨[("buf", .bytes (buf.extract start buf.size))], tape⟩ =
        .ret s (enc (parseNumber buf start)) ∧ s.tape = tape) ∧
    (∀ id val, parseNumber buf start = some (id, val) ↔
      id ≠ 0 ∧ ∃ s, runFun goFuns goparseNumber fuel ⟨[("buf", .bytes (buf.extract start buf.size))], tape⟩ =
        .ret s [.u64 id, .u64 val]) ∧
    (parseNumber buf start = none ↔
      ∃ s, runFun goFuns goparseNumber fuel ⟨[("buf", .bytes (buf.extract start buf.size))], tape⟩ =
        .ret s [.u64 0, .u64 0]) :=
  go_number_source_tie buf start fuel tape

open SJ.GoSem SJ.Generated SJ.GoRebuild SJ.GoStage2 in
/-- **Source tie** (DESIGN §6.3). The stage-2 actions — `get_current_loc`, `write_tape`, `writeTapeTagVal`,
    `writeTapeTagValFlags`, `write_tape_s64`, `write_tape_double`, `annotate_previousloc` (`parsed_json.go`), the Go glue
    of `parseString` (padding of the end of the input, the two assembly kernels by contract = the scalar decoder, the
    re-allocation of the string buffer, the tape words written) and `addNumber` (`stage2_build_tape_amd64.go`) — are
    printed from /repo as syntax trees on every run. Their meaning under `GoSem.exec` is what the hand model's machine
    `M` does at the corresponding step (`M.writeTape`, `M.annotate`, `M.parseString`, `parseNumber` + two pushes): the
    same words appended to the tape, the same bytes appended to the string buffer, `false` exactly when the model
    rejects, a panic exactly when the model's `annotate` is out of range. For every machine state, buffer and fuel;
    `parseString` for `idx ≤ len(msg)` (beyond it Go panics on `pj.Message[idx:]`, shown by example in `Proofs/GoStage2`). -/
theorem C01_stage2_actions_follow_source (m : M) (cfg : Cfg) (buf : Bytes) (fuel : Nat) :
    -- get_current_loc
    (runFun goFuns goParsedJson_get_current_loc fuel ⟨stEnv m buf, m.tape⟩ = .ret ⟨stEnv m buf, m.tape⟩ [.u64 m.loc]) ∧
    -- write_tape; `val | uint64(c)<<56` is `mkWord c val` for every `val`
    (∀ (val : UInt64) (c : UInt8), val ||| (c.toUInt64 <<< 56) = mkWord c val) ∧
    (∀ (val : UInt64) (c : UInt8),
      runFun goFuns goParsedJson_write_tape fuel ⟨stEnv m buf ++ [("val", .u64 val), ("c", .u8 c)], m.tape⟩ =
        .ret ⟨stEnv (m.writeTape val c) buf ++ [("val", .u64 val), ("c", .u8 c)], (m.writeTape val c).tape⟩ []) ∧
    -- writeTapeTagVal
    (∀ (tag : UInt8) (val : UInt64),
      runFun goFuns goParsedJson_writeTapeTagVal fuel ⟨stEnv m buf ++ [("tag", .u8 tag), ("val", .u64 val)], m.tape⟩ =
        .ret ⟨stEnv { m with tape := (m.tape.push (mkWord tag 0)).push val } buf ++ [("tag", .u8 tag), ("val", .u64 val)],
          (m.tape.push (mkWord tag 0)).push val⟩ []) ∧
    -- writeTapeTagValFlags
    (∀ (id val : UInt64),
      runFun goFuns goParsedJson_writeTapeTagValFlags fuel ⟨stEnv m buf ++ [("id", .u64 id), ("val", .u64 val)], m.tape⟩ =
        .ret ⟨stEnv { m with tape := (m.tape.push id).push val } buf ++ [("id", .u64 id), ("val", .u64 val)],
          (m.tape.push id).push val⟩ []) ∧
    -- write_tape_s64
    (∀ (val : Int),
      runFun goFuns goParsedJson_write_tape_s64 (fuel + 1) ⟨stEnv m buf ++ [("val", .int val)], m.tape⟩ =
        .ret ⟨stEnv { m with tape := (m.tape.push (mkWord tagInteger 0)).push (ofInt64 val) } buf ++ [("val", .int val)],
          (m.tape.push (mkWord tagInteger 0)).push (ofInt64 val)⟩ []) ∧
    -- write_tape_double
    (∀ (d : UInt64),
      runFun goFuns goParsedJson_write_tape_double (fuel + 1) ⟨stEnv m buf ++ [("d", .u64 d)], m.tape⟩ =
        .ret ⟨stEnv { m with tape := (m.tape.push (mkWord tagFloat 0)).push d } buf ++ [("d", .u64 d)],
          (m.tape.push (mkWord tagFloat 0)).push d⟩ []) ∧
    -- annotate_previousloc
    (∀ (at_ val : UInt64),
      match m.annotate at_ val with
      | some m' => runFun goFuns goParsedJson_annotate_previousloc fuel
          ⟨stEnv m buf ++ [("saved_loc", .u64 at_), ("val", .u64 val)], m.tape⟩ =
            .ret ⟨stEnv m' buf ++ [("saved_loc", .u64 at_), ("val", .u64 val)], m'.tape⟩ []
      | none => runFun goFuns goParsedJson_annotate_previousloc fuel
          ⟨stEnv m buf ++ [("saved_loc", .u64 at_), ("val", .u64 val)], m.tape⟩ = .panic) ∧
    -- parseString
    (∀ (idx max : UInt64) (cap : Int), idx.toNat ≤ buf.size → idx.toNat < 2^63 →
      match m.parseString cfg buf idx.toNat max.toNat with
      | some m' => ∃ e', runFun goFuns goparseString (fuel + 1) ⟨psEnv m buf idx max cfg.copyStrings cap, m.tape⟩ =
          .ret ⟨e', m'.tape⟩ [.bool true] ∧ PSPost e' m' buf
      | none => ∃ e', runFun goFuns goparseString (fuel + 1) ⟨psEnv m buf idx max cfg.copyStrings cap, m.tape⟩ =
          .ret ⟨e', m.tape⟩ [.bool false] ∧ PSPost e' m buf) ∧
    -- addNumber
    (∀ (idx : Nat),
      match parseNumber buf idx with
      | some (tg, v) => ∃ e', runFun goFuns goaddNumber (fuel + 1)
          ⟨stEnv m buf ++ [("buf", .bytes (buf.extract idx buf.size))], m.tape⟩ =
            .ret ⟨e', (m.tape.push tg).push v⟩ [.bool true] ∧ PSPost e' { m with tape := (m.tape.push tg).push v } buf
      | none => ∃ e', runFun goFuns goaddNumber (fuel + 1)
          ⟨stEnv m buf ++ [("buf", .bytes (buf.extract idx buf.size))], m.tape⟩ = .ret ⟨e', m.tape⟩ [.bool false] ∧
            PSPost e' m buf) :=
  SJ.GoStage2.go_stage2_actions_source_tie m cfg buf fuel

end SJ.Properties.C01
