import SJ.Proofs.Kernels
import SJ.Proofs.Tables
import SJ.Proofs.Block
import SJ.Proofs.BlockScan
/-
C06 — AVX2 and AVX-512 kernels are observationally identical.
-/
namespace SJ.Properties.C06
open SJ SJ.Generated SJ.Kernels

/-- `__finalize_structurals_avx512` and `__finalize_structurals` (translated instruction by instruction from
    the working tree) are the same function. -/
theorem C06_finalize_same (s w qm qb p : BitVec 64) : finalizeAvx512 s w qm qb p = finalizeAvx2 s w qm qb p :=
  finalize_same s w qm qb p

/-- …and they implement simdjson's specification of `finalize_structurals`. -/
theorem C06_finalize_spec (s w qm qb p : BitVec 64) : finalizeAvx2 s w qm qb p = finalizeSpec s w qm qb p :=
  finalize_spec s w qm qb p

/-- Both families expand the one macro `FIND_ODD_BACKSLASH_SEQUENCES`. -/
theorem C06_oddbs_same : oddBackslashUsers = ["__find_odd_backslash_sequences", "__find_odd_backslash_sequences_avx512"] := by
  decide

/-- The macro computes the run-parity recurrence for every 64-bit mask and carry. -/
theorem C06_oddbs_spec (bs : BitVec 64) (p : Bool) :
    oddBackslash bs (if p then 1#64 else 0#64) = ((oddRef bs p).1, if (oddRef bs p).2 then 1#64 else 0#64) :=
  oddBackslash_spec bs p

/-- The scalar tail of `find_quote_mask_and_bits`: K-register form = GPR form, for every carry-less multiplier. -/
theorem C06_quote_tail_same (f : BitVec 64 → BitVec 64) (q c o pq e : BitVec 64) :
    quoteTailAvx512 f q c o pq e = quoteTailAvx2 f q c o pq e :=
  quoteTail_same f q c o pq e

/-- Hence the whole block function of the model is family independent (given the lane contracts). -/
theorem C06_block_same (nd : Bool) (blk : Bytes) (c : Carry) : blockStep true nd blk c = blockStep false nd blk c := by
  unfold blockStep kernels
  simp only [quoteTail_same, finalize_same, Bool.false_eq_true, if_false, if_true]

/-- Both kernel files read the same DATA: tail mask, padding, broadcast constants. -/
theorem C06_tables_shared : aMaskTable = aMaskTable512 ∧ aNewlineByte = aNewlineByte512 ∧ aBackslashByte512 = aOddBackslash.getD 0 0 :=
  ⟨Tables.asm_tables_shared.1, Tables.asm_tables_shared.2.1, Tables.asm_tables_shared.2.2.1⟩

/-- The nibble-table classification used by both families is exactly "structural" / "white space". -/
theorem C06_classify_spec (b : UInt8) :
    isStructByte b = (b == 44 || b == 58 || b == 91 || b == 93 || b == 123 || b == 125) ∧
    isWsByte b = (b == 32 || b == 9 || b == 10 || b == 13) ∧ isCtrlByte b = (b < 0x20) ∧
    isQuoteByte b = (b == 34) ∧ isBackslashByte b = (b == 92) ∧ isNewlineByte b = (b == 10) :=
  ⟨Tables.classify_struct b, Tables.classify_ws b, Tables.classify_ctrl b, Tables.classify_quote b,
   Tables.classify_backslash b, Tables.classify_newline b⟩


open SJ.Block in
/-- **Block model.** For every 64-byte block (short blocks padded with spaces), every carry and both families:
    the block function assembled from the translated assembly fragments produces the structural mask of the
    per-byte scanner, and the carries correspond. -/
theorem C06_block_model (avx512 nd : Bool) (blk : Bytes) (c : Carry) (s : S1State) (h : CarryRel c s) :
    (blockStep avx512 nd blk c).1 = (scanBlock nd blk s).1 ∧ CarryRel (blockStep avx512 nd blk c).2 (scanBlock nd blk s).2 := by
  cases avx512
  · exact block_eq_bytes nd blk c s h
  · exact block_eq_bytes_avx512 nd blk c s h

open SJ.Block in
/-- **Message model.** Iterating the block function over a whole message gives the indices, the error flag and the
    in-quote flag of the scalar scanner — for either family, so both families agree on every input. -/
theorem C06_message_model (a nd : Bool) (msg : Bytes) :
    (blocksScan a nd msg).1 = (s1Scan nd msg).2 ∧
    (s1Scan nd msg).1.err = decide ((blocksScan a nd msg).2.errMask ≠ 0#64) ∧
    (blocksScan a nd msg).2.prevInQuote = encAll (s1Scan nd msg).1.inQuote := blocksScan_eq_s1Scan a nd msg

/-- The shift-and-xor ladder standing for `VPCLMULQDQ` by all-ones is the prefix-xor: bit i = x₀ ⊕ … ⊕ xᵢ. -/
theorem C06_prefix_xor (x : BitVec 64) (i : Nat) (hi : i < 64) : (prefixXor x).getLsbD i = SJ.Block.win x 64 i :=
  SJ.Block.getLsbD_prefixXor x i hi

end SJ.Properties.C06
