import SJ.Proofs.Tables
import SJ.Proofs.StrLex
import SJ.Proofs.Escape
import SJ.Proofs.StringWin
/-
C04 — String escapes decode exactly, independent of length and alignment.
-/
namespace SJ.Properties.C04
open SJ SJ.Tables

/-- `digittoval` and `escape_map` (DATA of parse_string_amd64.s, regenerated) are the RFC's tables. -/
theorem C04_tables (b : UInt8) : digitToVal b = hexValSpec b ∧ escapeMap b = escapeSpec b :=
  ⟨digitToVal_spec b, escapeMap_spec b⟩

/-- The quote and backslash broadcast constants of the string kernel. -/
theorem C04_constants : ∀ i : Fin 32, Generated.aParseString.getD i.val 0 = 92 ∧ Generated.aParseString.getD (32 + i.val) 0 = 34 :=
  asm_tables_shared.2.2.2.2.2.2

open SJ.Escape

/-- The assembly's UTF-8 encoder agrees with Lean's own `String` encoder on every Unicode scalar value. -/
theorem C04_utf8 (cp : UInt32) (h1 : cp.toNat < 0x110000) (h2 : ¬(0xD800 ≤ cp.toNat ∧ cp.toNat < 0xE000)) :
    encodeUTF8 cp = some (Spec.utf8 cp.toNat) := encodeUTF8_spec cp h1 h2

/-- The wrapped 32-bit arithmetic of the assembly combines every well-formed surrogate pair into its code point. -/
theorem C04_surrogates (hi lo : UInt32) (h1 : 0xD800 ≤ hi.toNat) (h2 : hi.toNat < 0xDC00) (h3 : 0xDC00 ≤ lo.toNat)
    (h4 : lo.toNat < 0xE000) :
    ((((hi <<< 10) + 0xFCA00000) ||| (lo + 0xFFFF2400)) + 0x10000).toNat
      = 0x10000 + (hi.toNat - 0xD800) * 1024 + (lo.toNat - 0xDC00) := surrogate_combine hi lo h1 h2 h3 h4

/-- Four hex digits give their 16-bit value; one bad digit pushes the value above 0xFFFF (and is rejected);
    the model's `hex4` agrees with the specification's. -/
theorem C04_hex4 (a b c d : UInt8) (r : List UInt8) :
    Spec.hex4 (a :: b :: c :: d :: r) =
      if (hex4 #[a,b,c,d] 0).toNat ≤ 0xFFFF then some ((hex4 #[a,b,c,d] 0).toNat, r) else none := hex4_agrees_spec a b c d r
theorem C04_hex4_invalid (a b c d : UInt8)
    (h : Tables.hexValSpec a = 0xFFFFFFFF ∨ Tables.hexValSpec b = 0xFFFFFFFF ∨ Tables.hexValSpec c = 0xFFFFFFFF ∨ Tables.hexValSpec d = 0xFFFFFFFF) :
    0xFFFF < (hex4 #[a,b,c,d] 0).toNat := hex4_invalid a b c d h

/-- The compare immediates of the two hand-assembled string passes, decoded from their instruction bytes:
    `u` (117), minimum distance to the closing quote for `\\uXXXX` (6) and for a surrogate pair (12), window
    threshold 21, high-surrogate range 0xD800 (after masking with −1024), backslash (92), pair validity 0xFFFF,
    and the UTF-8 length classes — validate pass `≥128`, `≥2048`, `≥65536`, `>1114111`; copy pass `>127`, `>2047`,
    `>65535`, `>1114111`. The model's `encodeUTF8` uses exactly these classes. -/
theorem C04_kernel_immediates :
    Generated.aParseStringCmpValidate = [117, 6, 0, 21, 6, 55296, 128, 12, 92, 117, 65535, 128, 2048, 65536, 1114111] ∧
    Generated.aParseStringCmpCopy = [65535, 1114111, 117, 6, 21, 6, 55296, 12, 92, 117, 65535, 127, 2047] := by decide


open SJ.ParseDefs in
/-- **The decoder against the RFC string production, whole strings.** If the specification reads a string body as the
    bytes `dec` (every two-character escape and every `\\uXXXX` replaced — a surrogate pair by one 4-byte code point —
    all other bytes unchanged), then the decoder model, started anywhere in any buffer whose content from there on is that
    text, returns exactly `dec` and stops on the closing quote, whatever the string's length and position (`lim` is the
    distance to the next structural index; any value beyond the closing quote will do). -/
theorem C04_decode_exact (fuel : Nat) (s dec rest : List UInt8) (h : Spec.stringBody fuel s [] false = .acc dec rest) :
    ∃ d, closeQ s = some d ∧ rest = s.drop (d + 1) ∧ (∀ j, j < d → ¬ (s.getD j 0 < 0x20)) ∧
      ∀ (a : Bytes) (start lim : Nat), a.toList.drop start = s → d < lim →
        decodeString a start lim = some (dec.toArray, start + d) := strFacts.acc fuel s dec rest h

open SJ.ParseDefs in
/-- … and a body the specification rejects (bad or truncated escape, raw control character, no closing quote) is never
    decoded: there is no closing quote, or a control character precedes it (stage 1 flags it), or the decoder fails. -/
theorem C04_decode_rejects (fuel : Nat) (s : List UInt8) (hf : s.length < fuel) (h : Spec.stringBody fuel s [] false = .rej) :
    closeQ s = none ∨ ∃ d, closeQ s = some d ∧
      ((∃ j, j < d ∧ s.getD j 0 < 0x20) ∨
       ∀ (a : Bytes) (start lim : Nat), a.toList.drop start = s → decodeString a start lim = none) :=
  strFacts.rej fuel s hf h

open SJ.ParseDefs SJ.StringWin in
/-- **Independent of 32-byte windows.** `validateWin` / `copyWin` (`Model/StringWin`) model the two assembly routines
    `_parse_string_validate_only` and `_parse_string` with their windowing: 32-byte loads at the current position, the
    masks of quotes and backslashes, the `(bs-1)&q` / `(q-1)&bs` tests, the second load at offset−20 for a `\\u` escape at
    window offsets ≥ 21, the 6/12 distance tests, the limit tested once per window. If the specification reads the body
    as `dec`, then for every buffer, every start position — every alignment of the string and of each escape relative
    to the windows — and every limit beyond the closing quote, the validate pass returns exactly (source length, decoded
    length) and the copy pass stores exactly `dec`. -/
theorem C04_window_exact (fuel : Nat) (s dec rest : List UInt8) (h : Spec.stringBody fuel s [] false = .acc dec rest) :
    ∃ d, closeQ s = some d ∧ rest = s.drop (d + 1) ∧ (∀ j, j < d → ¬ (s.getD j 0 < 0x20)) ∧
      ∀ (a : Bytes) (start lim : Nat), a.toList.drop start = s → d < lim →
        validateWin a start lim = some (d, dec.length) ∧ copyWin a start = some dec.toArray :=
  win_decode_exact fuel s dec rest h

open SJ.ParseDefs SJ.StringWin in
/-- … and a body the specification rejects is rejected by both windowed routines wherever it lies. -/
theorem C04_window_rejects (fuel : Nat) (s : List UInt8) (hf : s.length < fuel) (h : Spec.stringBody fuel s [] false = .rej) :
    closeQ s = none ∨ ∃ d, closeQ s = some d ∧
      ((∃ j, j < d ∧ s.getD j 0 < 0x20) ∨
       ∀ (a : Bytes) (start lim : Nat), a.toList.drop start = s → validateWin a start lim = none ∧ copyWin a start = none) :=
  win_decode_rejects fuel s hf h

open SJ.StringWin in
/-- The windowed routines against the scalar decoder on ARBITRARY buffers (no grammar involved): scalar success ⇒ same
    result from both passes; validate success ⇒ scalar success with a limit at most 31 bytes larger (the limit is tested
    once per window — the only thing the scalar model does not capture, and the bound 31 is sharp); copy success ⇒
    scalar success under any limit beyond the closing quote. -/
theorem C04_window_vs_scalar (a : Bytes) (start lim : Nat) :
    (∀ out q, decodeString a start lim = some (out, q) →
      validateWin a start lim = some (q - start, out.size) ∧ copyWin a start = some out) ∧
    (∀ n m, validateWin a start lim = some (n, m) →
      ∃ out, decodeString a start (lim + 31) = some (out, start + n) ∧ out.size = m) ∧
    (∀ out, copyWin a start = some out →
      ∃ q, start ≤ q ∧ q < a.size ∧ ∀ lim', q - start < lim' → decodeString a start lim' = some (out, q)) :=
  ⟨fun out q h => ⟨validateWin_of_scalar a start lim out q h, copyWin_of_scalar a start lim out q h⟩,
   fun n m h => by obtain ⟨out, h1, h2, _⟩ := scalar_of_validateWin_tight a start lim n m h; exact ⟨out, h1, h2⟩,
   fun out h => scalar_of_copyWin a start out h⟩

end SJ.Properties.C04
