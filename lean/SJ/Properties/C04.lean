import SJ.Proofs.Tables
/-
C04 — String escapes decode exactly, independent of length and alignment.
-/
namespace SJ.Properties.C04
open SJ SJ.Tables

/-- `digittoval` and `escape_map` (DATA of parse_string_amd64.s, regenerated) are the RFC's tables. -/
theorem C04_tables (b : UInt8) : digitToVal b = hexValSpec b ∧ escapeMap b = escapeSpec b :=
  ⟨digitToVal_spec b, escapeMap_spec b⟩

/-- The quote and backslash broadcast constants of the string kernel. -/
theorem C04_constants : ∀ i : Fin 32, Generated.aParseString.getD i.val 0 = 92 ∧ Generated.aParseString.getD (32 + i.val) 0 = 34 :=
  asm_tables_shared.2.2.2.2.2.2

end SJ.Properties.C04
