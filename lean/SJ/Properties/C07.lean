import SJ.Proofs.Pipeline
import SJ.Proofs.PipelineLive
import SJ.Proofs.PipelineOutcome
import SJ.Generated.Consts
import SJ.Generated.GoFacts
/-
C07 — The concurrent two-stage pipeline is schedule-independent.
Property theorems only; helper lemmas live in SJ/Proofs/Pipeline.lean.
-/
namespace SJ.Properties.C07
open SJ.Pipeline SJ.Generated

/-- For every schedule (every list of atomic steps that is a run of the hand-off protocol), with
    `cap + 2 ≤ slots`, every index buffer the consumer may still read — the one it holds and every one sent
    but not yet given up — still carries exactly what the producer stored in it. -/
theorem C07_no_overwrite (c : Pipeline.Cfg) (hc : c.cap + 2 ≤ c.slots) (evs : List Ev) (s : Pipeline.St)
    (hr : run c {} evs = some s) : Safe c s :=
  safe_of_inv (inv_run c hc evs {} s (inv_init c) hr)

/-- The consumer's receive sequence is the producer's send sequence: the k-th receive finds the k-th buffer
    (nothing lost, repeated or stale), for every schedule. -/
theorem C07_refines_fifo (c : Pipeline.Cfg) (hc : c.cap + 2 ≤ c.slots) (evs : List Ev) (s : Pipeline.St)
    (hr : run c {} evs = some s) : ∀ p ∈ s.seen, p.2 = some p.1 ∧ p.1 < s.recvd :=
  (inv_run c hc evs {} s (inv_init c) hr).seen

/-- The channel never holds more buffers than its capacity and the producer is at most one buffer ahead. -/
theorem C07_bounded (c : Pipeline.Cfg) (hc : c.cap + 2 ≤ c.slots) (evs : List Ev) (s : Pipeline.St)
    (hr : run c {} evs = some s) : s.sent - s.recvd ≤ c.cap ∧ s.acquired ≤ s.sent + 1 :=
  let h := inv_run c hc evs {} s (inv_init c) hr
  ⟨h.queue, h.acq_hi⟩

/-- **Schedule independence.** Two complete executions (terminator received) in which stage 1 sent the same
    number of buffers — the input alone determines that — hand stage 2 exactly the same sequence of buffers with
    the same contents, whatever the two interleavings were; stage 2 is a deterministic function of that sequence. -/
theorem C07_schedule_independent (c : Pipeline.Cfg) (hc : c.cap + 2 ≤ c.slots) (evs₁ evs₂ : List Ev) (s₁ s₂ : Pipeline.St)
    (h₁ : run c {} evs₁ = some s₁) (h₂ : run c {} evs₂ = some s₂)
    (t₁ : s₁.termRecv = true) (t₂ : s₂.termRecv = true) (hn : s₁.sent = s₂.sent) : s₁.seen = s₂.seen :=
  schedule_independent c hc evs₁ evs₂ s₁ s₂ h₁ h₂ t₁ t₂ hn

/-- The receive history is exactly buffers 0 … recvd−1 in order, each with its own contents. -/
theorem C07_seen_exact (c : Pipeline.Cfg) (hc : c.cap + 2 ≤ c.slots) (evs : List Ev) (s : Pipeline.St) (hr : run c {} evs = some s) :
    s.seen = ((List.range s.recvd).map fun k => (k, some k)).reverse := seen_exact c hc evs s hr

/-- **Outcome = the sequential composition, for every schedule.** Interpreting the stamp of a slot as the buffer
    stage 1 stored there (`bufs[k]` = the k-th round of `rounds msg idx`), a complete run in which stage 1 sent all
    of `bufs` lets stage 2 read exactly `bufs`, in order; its outcome — `goto fail`, or tape and string buffer —
    is therefore `stage2 cfg buf bufs`, the value the sequential model computes, whatever the interleaving. -/
theorem C07_outcome_sequential (c : Pipeline.Cfg) (hc : c.cap + 2 ≤ c.slots) (evs : List Ev) (s : Pipeline.St) (hr : run c {} evs = some s)
    (ht : s.termRecv = true) (bufs : Array (Array Nat)) (hn : s.sent = bufs.size) (cfg : SJ.Cfg) (buf : SJ.Bytes) :
    consumed bufs s = bufs.toList ∧ SJ.stage2 cfg buf (consumed bufs s).toArray = SJ.stage2 cfg buf bufs :=
  outcome_sequential c hc evs s hr ht bufs hn cfg buf

/-- When stage 2 gives up early it has looked at a prefix of the buffers, the same prefix under every schedule
    that delivers as many buffers. -/
theorem C07_consumed_prefix (c : Pipeline.Cfg) (hc : c.cap + 2 ≤ c.slots) (evs : List Ev) (s : Pipeline.St) (hr : run c {} evs = some s)
    (bufs : Array (Array Nat)) (hn : s.sent ≤ bufs.size) : consumed bufs s = bufs.toList.take s.recvd :=
  consumed_prefix c hc evs s hr bufs hn

/-- **No deadlock**: in every reachable state before the terminator is received some step is enabled — the
    producer can always hand over or terminate (also after a stage-1 error, abandoning the buffer it was filling),
    a consumer that failed and only drains can always go on draining. -/
theorem C07_no_deadlock (c : Pipeline.Cfg) (hc : c.cap + 2 ≤ c.slots) (hcap : 1 ≤ c.cap) (evs : List Ev) (s : Pipeline.St)
    (hr : run c {} evs = some s) (ht : s.termRecv = false) : ∃ e, (step c s e).isSome = true :=
  progress c hcap s (inv_run c hc evs {} s (inv_init c) hr) ht

/-- **Termination**: a run in which stage 1 fills at most `n` buffers has at most `4n + 3` steps. -/
theorem C07_terminates (c : Pipeline.Cfg) (hc : c.cap + 2 ≤ c.slots) (evs : List Ev) (s : Pipeline.St) (hr : run c {} evs = some s)
    (n : Nat) (hn : s.acquired ≤ n) : evs.length ≤ 4 * n + 3 := bounded_length c hc evs s hr n hn

/-- The constants of the repository (regenerated on every run) satisfy the premise. -/
theorem C07_repo_constants : repoCfg.cap + 2 ≤ repoCfg.slots := by decide

/-- A buffer is closed once it holds `indexSizeWithSafetyBuffer` entries; one more block adds at most 64 and
    the tail block another 64, so the assembly's unchecked stores stay inside the slot. -/
theorem C07_buffer_bound : cindexSizeWithSafetyBuffer + 64 + 64 ≤ cindexSize := by decide

/-- The transition system lets the producer write only into the slot it acquired. In the source (regenerated):
    the ring `buffers` is mentioned exactly once, at the acquire (`&pj.buffers[offset%indexSlots]`, after the one
    increment of `buffersOffset`), so every store of stage 1 goes through that pointer; the channel is touched by
    the two sends of stage 1, the receive of `updateChar`, and set-up and draining in `parseMessage`. -/
theorem C07_ring_sites :
    ringRefs = ["internalParsedJson.findStructuralIndices:buffersOffset", "internalParsedJson.findStructuralIndices:buffers",
      "internalParsedJson.findStructuralIndices:indexChans", "internalParsedJson.findStructuralIndices:indexChans",
      "internalParsedJson.parseMessage:indexChans", "internalParsedJson.parseMessage:indexChans",
      "internalParsedJson.parseMessage:buffersOffset", "internalParsedJson.parseMessage:indexChans",
      "internalParsedJson.parseMessage:indexChans", "internalParsedJson.parseMessage:indexChans",
      "updateChar:indexChans", "updateCharDebug:indexChans"] := by decide

/-- The premise is tight: with one slot fewer in reserve there is a schedule that overwrites the buffer the
    consumer is reading. -/
theorem C07_tight : ∃ evs s, run { slots := 16, cap := 15 } {} evs = some s ∧ ¬ Safe { slots := 16, cap := 15 } s := by
  let evs : List Ev := (List.replicate 15 [Ev.acquire, Ev.send]).flatten ++ [.release, .recv, .acquire, .send, .acquire]
  refine ⟨evs, (run { slots := 16, cap := 15 } {} evs).get (by decide), by simp, ?_⟩
  intro h
  have := h 0 (by decide) (by decide)
  revert this
  decide

/-- non-vacuity: a stage-1 error after the second buffer was acquired (buffer abandoned, terminator sent) -/
example : ∃ s, run repoCfg {} [.acquire, .send, .acquire, .term, .release, .recv, .release, .recvTerm] = some s ∧ s.termRecv = true ∧ s.recvd = 1 := by
  refine ⟨_, rfl, ?_, ?_⟩ <;> decide

/-- non-vacuity: a non-trivial run of the real configuration exists (3 buffers through the ring) -/
example : ∃ s, run repoCfg {} [.acquire, .send, .release, .recv, .acquire, .send, .acquire, .send, .release, .recv, .term, .release, .recv,
    .release, .recvTerm] = some s ∧ s.recvd = 3 ∧ s.termRecv = true := by
  refine ⟨_, rfl, ?_, ?_⟩ <;> decide

end SJ.Properties.C07
