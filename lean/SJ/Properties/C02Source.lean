import SJ.Properties.C02
import SJ.Proofs.SourceLevelB
import SJ.Proofs.SourceLevelI
set_option linter.unusedVariables false
/-
C02 — source level. The theorems of Properties/C02.lean composed with the source ties of DESIGN §6.3: each statement
below is about the MEANING OF THE REGENERATED GO SOURCE (`GoSem.runFun goFuns <tree> fuel ⟨store, tape⟩`), with no
function of the hand model in its conclusion. Proofs: SJ/Proofs/SourceLevelA.lean, SourceLevelB.lean.
-/
namespace SJ.Properties.C02

open SJ.Generated SJ.GoSem SJ.GoIter SJ.GoSet SJ.Layout SJ.GoPJForEach SJ.ParseDefs SJ.TrimEdge in
/-- **`ParsedJson.ForEach`, source level.**  If the tape holds the located root values `vs` (gaps allowed), then running the
    regenerated `goParsedJson_ForEach` with a callback that always answers `nil` (`N ≥ len(tape)` answers queued) returns `nil`,
    leaves the tape alone, and the log of what the callback was handed is the encoding of exactly one iterator per root value,
    in order, each standing on its value (`RootIter`: the value is located there, the iterator is on its first word with the
    word's tag and payload, its view contains the value and lies inside the tape); exactly `vs.length` answers were consumed.
    Nothing is asked beyond the tie's premises (answers and fuel `2·len(tape) + 11`). -/
theorem C02_source_forEach (pj : PJ) (vs : List LVal) (h : WalkLayout.OkRoots pj vs 0) (N F : Nat)
    (hN : pj.tape.size ≤ N) (hF : 2 * pj.tape.size + 11 ≤ F) :
    ∃ s its, runFun goFuns goParsedJson_ForEach F ⟨feStore pj (List.replicate N false), pj.tape⟩ = .ret s [.bool false] ∧
      s.tape = pj.tape ∧ GoPJForEach.logOf s.env = GoPJForEach.encIters its ∧
      WalkLayout.Forall2 (WalkLayout.RootIter pj) vs its ∧
      s.env.get "fn.results" = some (.bools (List.replicate (N - vs.length) false)) :=
  SJ.SourceLevelB.C02_source_forEach pj vs h N F hN hF

open SJ.Generated SJ.GoSem SJ.GoIter SJ.GoSet SJ.Layout SJ.GoPJForEach SJ.ParseDefs SJ.TrimEdge in
/-- **`ForEach` on the tape `Parse` / `ParseND` returned, source level.**  For every accepted input (shorter than 2^50 bytes):
    the tape holds a located, tight document `lvs` — the one the reference decoder reads off the tape — and running the
    regenerated `ForEach` on that tape hands the callback exactly one iterator per root value of `lvs`, in order, each standing
    on its value. -/
theorem C02_source_forEach_parse (cfg : Cfg) (nd : Bool) (input : Bytes) (pj : PJ) (hsz : SizeOK (trimSpace input))
    (h : parseAny cfg nd input = .ok pj) (N F : Nat) (hN : pj.tape.size ≤ N) (hF : 2 * pj.tape.size + 11 ≤ F) :
    ∃ lvs : List LVal, WalkLayout.OkRoots pj lvs 0 ∧ (∀ v ∈ lvs, WalkLayout.Tight v) ∧
      decodeTapeD pj = some ((lvs.map erase).map DecodeSound.toOVal) ∧
      ∃ s its, runFun goFuns goParsedJson_ForEach F ⟨feStore pj (List.replicate N false), pj.tape⟩ = .ret s [.bool false] ∧
        s.tape = pj.tape ∧ GoPJForEach.logOf s.env = GoPJForEach.encIters its ∧
        WalkLayout.Forall2 (WalkLayout.RootIter pj) lvs its ∧
        s.env.get "fn.results" = some (.bools (List.replicate (N - lvs.length) false)) :=
  SJ.SourceLevelB.C02_source_forEach_parse cfg nd input pj hsz h N F hN hF

open SJ.Generated SJ.GoSem SJ.GoIter SJ.GoSet SJ.Layout SJ.GoPJForEach SJ.ParseDefs SJ.TrimEdge in
/-- **Accepted text → what `ForEach` hands out, source level.**  If the specification accepts the text as the document `v`,
    `Parse` succeeds and running the regenerated `ForEach` on its tape makes exactly one callback, with an iterator standing on
    a located value `lv` whose content is exactly `ofSpec v`.  (Through `ParseIff.parse_accepts`, the theorem behind
    `C02_parse_value`, which also names the located value.) -/
theorem C02_source_forEach_value (cfg : Cfg) (input : Bytes) (he : EdgeOK input) (hsz : SizeOK (trimSpace input))
    (v : Spec.JVal) (h : Spec.containerText (jsonTrim input).toList = .accept v) :
    ∃ pj lv, parse cfg input = .ok pj ∧ erase lv = ofSpec v ∧ WF pj [ofSpec v] ∧
      ∀ (N F : Nat), pj.tape.size ≤ N → 2 * pj.tape.size + 11 ≤ F →
        ∃ s it, runFun goFuns goParsedJson_ForEach F ⟨feStore pj (List.replicate N false), pj.tape⟩ = .ret s [.bool false] ∧
          s.tape = pj.tape ∧ GoPJForEach.logOf s.env = GoPJForEach.encIter it ∧ WalkLayout.RootIter pj lv it ∧
          s.env.get "fn.results" = some (.bools (List.replicate (N - 1) false)) :=
  SJ.SourceLevelB.C02_source_forEach_value cfg input he hsz v h

open SJ.Generated SJ.GoSem SJ.GoIter SJ.GoSet SJ.Layout SJ.GoPJForEach SJ.ParseDefs SJ.TrimEdge in
/-- **Arrays element by element, source level.**  `i` is about to read at `lo` (`off + addNext = lo`), the located elements
    `v :: vs` lie in `[lo, hi)` (gaps allowed before, between and after them) inside the view.  Running the regenerated
    `goIter_Advance` returns the type of `v` and leaves the tape alone and the receiver standing on `v` — same view, on `v`'s first
    word with its tag and payload, positioned (`off + addNext = v.fin`) for the rest `vs`.
    Remaining from the tie: `hl` (the view is a prefix of the tape) and fuel `lim + 8`. -/
theorem C02_source_advance_elem (pj : PJ) (i : Iter) (v : LVal) (vs : LVals) (lo hi : Nat)
    (h : OkElems pj (.cons v vs) lo hi) (hhi : hi ≤ i.lim) (ha : 0 ≤ i.addNext) (hlo : (i.off : Int) + i.addNext = lo)
    (hl : i.lim ≤ pj.tape.size) (fuel : Nat) (hf : fuelFor i ≤ fuel) :
    ∃ s i', runFun goFuns goIter_Advance fuel { env := envOf "i" i, tape := pj.tape } =
        .ret s [.u8 (tagToType (WalkLayout.tagOfL v))] ∧ s.tape = pj.tape ∧ iterAt s.env "i" = some i' ∧
      i'.lim = i.lim ∧ i'.off = v.pos + 1 ∧
      (∃ w, word pj v.pos = some w ∧ i'.t = tagOf w ∧ i'.cur = payloadOf w ∧ tagOf w = WalkLayout.tagOfL v) ∧
      0 ≤ i'.addNext ∧ (i'.off : Int) + i'.addNext = v.fin ∧ OkElems pj vs v.fin hi :=
  SJ.SourceLevelB.C02_source_advance_elem pj i v vs lo hi h hhi ha hlo hl fuel hf

open SJ SJ.Generated SJ.GoSem SJ.GoIter SJ.GoObject SJ.Layout SJ.WalkLayout SJ.ParseDefs SJ.MarshalExact SJ.GoMarshal SJ.SourceLevelI SJ.TrimEdge SJ.GoPJForEach in
/-- **Accepted text → `Parse` → `ForEach` → `MarshalJSONBuffer` / `Interface()`, source level.**  ASSUMED, about the INPUT
    only: its trimmed length `n` is below 2^50 (`SizeOK`), Go's `bytes.TrimSpace` and the JSON white-space trim agree on it
    (`EdgeOK`: true whenever the first and last remaining bytes are plain ASCII, as for every container text), and the RFC
    8259 grammar accepts the trimmed text as the document `v` (`Spec.containerText`).  Plus: a callback answering `nil`
    `N ≥ 3·n + 2` times and interpreter fuel `F ≥ 21·n + 72`.
    CONCLUDED: the parser model returns a tape `pj` denoting exactly `ofSpec v`; running the regenerated `ParsedJson.ForEach`
    on it returns `nil` and hands the callback exactly one iterator `it`; running the regenerated
    `Iter.MarshalJSONBuffer(dst)` from `it` returns, for every `dst`, `dst ++ renderJ (ofSpec v)` — the canonical text of
    the value the grammar assigned to the input — and running the regenerated `Iter.Interface` from `it` returns
    `ivalOfJ (ofSpec v)` — that value as Go `interface{}` data, maps with the last duplicate winning; both with a nil
    error and the tape untouched.  No hypothesis about the tape, the buffers or the iterator remains. -/
theorem C02_source_accepted_then_read (cfg : Cfg) (input : Bytes) (he : EdgeOK input) (hsz : SizeOK (trimSpace input))
    (v : Spec.JVal) (h : Spec.containerText (jsonTrim input).toList = .accept v) :
    ∃ pj, parse cfg input = .ok pj ∧ WF pj [ofSpec v] ∧
      ∀ (N F : Nat), 3 * (trimSpace input).size + 2 ≤ N → 21 * (trimSpace input).size + 72 ≤ F →
        ∃ s it, runFun goFuns goParsedJson_ForEach F ⟨feStore pj (List.replicate N false), pj.tape⟩ = .ret s [.bool false] ∧
          s.tape = pj.tape ∧ logOf s.env = encIter it ∧
          (∀ dst : Bytes, ∃ st, runFun goFuns goIter_MarshalJSONBuffer F ⟨initEnv pj it dst, pj.tape⟩ =
            .ret st [.bytes (dst ++ renderJ (ofSpec v)), .bool false] ∧ st.tape = pj.tape) ∧
          ∃ s', runFun goFuns goIter_Interface F ⟨envOf "i" it ++ bufEnv pj, pj.tape⟩ =
            .ret s' [.iface (ivalOfJ (ofSpec v)), .bool false] ∧ s'.tape = pj.tape ∧ iterAt s'.env "i" = some it :=
  SJ.SourceLevelI.accepted_then_read_source cfg input he hsz v h

open SJ SJ.Generated SJ.GoSem SJ.GoIter SJ.GoObject SJ.Layout SJ.WalkLayout SJ.ParseDefs SJ.MarshalExact SJ.GoMarshal SJ.SourceLevelI SJ.TrimEdge SJ.GoPJForEach in
/-- **The same for newline-delimited input** (`ParseND`): if the per-line grammar `Spec.ndText` accepts the trimmed text as
    the documents `vs` (one per non-blank line), `ParseND` returns a tape denoting `vs.map ofSpec`, the regenerated `ForEach`
    hands out exactly one iterator per document, in order, and from the iterator of the document `v` the regenerated
    `Iter.MarshalJSONBuffer(dst)` returns `dst ++ renderJ (ofSpec v)` and the regenerated `Iter.Interface` returns
    `ivalOfJ (ofSpec v)`.  Hypotheses about the input, the answers queue and fuel only, as above. -/
theorem C02_source_acceptedND_then_read (cfg : Cfg) (input : Bytes) (he : EdgeOK input) (hsz : SizeOK (trimSpace input))
    (vs : List Spec.JVal) (h : Spec.ndText (jsonTrim input).toList = .accept (.arr vs)) :
    ∃ pj, parseND cfg input = .ok pj ∧ WF pj (vs.map ofSpec) ∧
      ∀ (N F : Nat), 3 * (trimSpace input).size + 2 ≤ N → 21 * (trimSpace input).size + 72 ≤ F →
        ∃ s its, runFun goFuns goParsedJson_ForEach F ⟨feStore pj (List.replicate N false), pj.tape⟩ = .ret s [.bool false] ∧
          s.tape = pj.tape ∧ logOf s.env = encIters its ∧
          Forall2 (fun v it =>
            (∀ dst : Bytes, ∃ st, runFun goFuns goIter_MarshalJSONBuffer F ⟨initEnv pj it dst, pj.tape⟩ =
              .ret st [.bytes (dst ++ renderJ (ofSpec v)), .bool false] ∧ st.tape = pj.tape) ∧
            ∃ s', runFun goFuns goIter_Interface F ⟨envOf "i" it ++ bufEnv pj, pj.tape⟩ =
              .ret s' [.iface (ivalOfJ (ofSpec v)), .bool false] ∧ s'.tape = pj.tape ∧ iterAt s'.env "i" = some it)
            vs its :=
  SJ.SourceLevelI.acceptedND_then_read_source cfg input he hsz vs h

open SJ SJ.Generated SJ.GoSem SJ.GoIter SJ.GoObject SJ.Layout SJ.WalkLayout SJ.ParseDefs SJ.MarshalExact SJ.GoMarshal SJ.SourceLevelI SJ.TrimEdge SJ.GoPJForEach SJ.Lookup in
/-- **Parse, `ForEach`, then `MarshalJSONBuffer` and `Interface()` on every root, source level.**  ASSUMED: only `SizeOK` and
    that the parser model returns `pj`; a callback answering `nil` at least `3·n + 2` times (`N`), interpreter fuel
    `F ≥ 21·n + 72`.  CONCLUDED: the tape holds root values `lvs` (erased: the document the tape denotes, `WF`, = what the
    reference decoder reads); running the
    regenerated `ParsedJson.ForEach` returns `nil`, leaves the tape alone and hands the callback exactly one iterator per
    root value, in order (`logOf … = encIters its`, `Forall2`); and from each of these iterators (a) the regenerated
    `Iter.MarshalJSONBuffer(dst)` returns `dst ++ renderJ (erase lv)` for every `dst`, (b) the regenerated `Iter.Interface`
    returns `toIVal lv`, both with a nil error and the tape untouched.  Every side condition of the three ties (`BufOK`,
    `len(tape) < 2^63`, views inside the tape, `OnNode`, 56-bit payloads, finite floats, the answers queue and the fuels in
    terms of `len(tape)`) is discharged from the parser facts. -/
theorem C02_source_parse_then_forEach (cfg : Cfg) (nd : Bool) (input : Bytes) (pj : PJ) (hsz : SizeOK (trimSpace input))
    (h : parseAny cfg nd input = .ok pj) (N F : Nat) (hN : 3 * (trimSpace input).size + 2 ≤ N)
    (hF : 21 * (trimSpace input).size + 72 ≤ F) :
    ∃ lvs : List LVal, OkRoots pj lvs 0 ∧ (∀ v ∈ lvs, Tight v) ∧ WF pj (lvs.map erase) ∧
      decodeTapeD pj = some ((lvs.map erase).map DecodeSound.toOVal) ∧
      ∃ s its, runFun goFuns goParsedJson_ForEach F ⟨feStore pj (List.replicate N false), pj.tape⟩ = .ret s [.bool false] ∧
        s.tape = pj.tape ∧ logOf s.env = encIters its ∧
        Forall2 (fun lv it => RootIter pj lv it ∧
          (∀ dst : Bytes, ∃ st, runFun goFuns goIter_MarshalJSONBuffer F ⟨initEnv pj it dst, pj.tape⟩ =
            .ret st [.bytes (dst ++ renderJ (erase lv)), .bool false] ∧ st.tape = pj.tape) ∧
          ∃ s', runFun goFuns goIter_Interface F ⟨envOf "i" it ++ bufEnv pj, pj.tape⟩ =
            .ret s' [.iface (toIVal lv), .bool false] ∧ s'.tape = pj.tape ∧ iterAt s'.env "i" = some it) lvs its :=
  SJ.SourceLevelI.parse_then_forEach_source cfg nd input pj hsz h N F hN hF

end SJ.Properties.C02
