import SJ.Proofs.Tables
/-
C10 — MarshalJSON emits valid JSON denoting the same document.
-/
namespace SJ.Properties.C10
open SJ SJ.Tables

/-- Exactly the control characters, the quotation mark and the backslash are escaped. -/
theorem C10_should_escape (b : UInt8) : shouldEscape b = (b < 0x20 || b == 34 || b == 92) := shouldEscape_spec b

/-- `valToHex` yields lower-case hex digits. -/
theorem C10_hex (n : Fin 16) : valToHex (UInt8.ofNat n.val) = (if n.val < 10 then UInt8.ofNat (48 + n.val) else UInt8.ofNat (87 + n.val)) :=
  valToHex_spec n

/-- What `escapeBytes` emits for one byte never contains a raw control character, quote or lone backslash:
    it is either the byte itself (when it needs no escape) or a backslash sequence of printable ASCII. -/
theorem C10_escape_byte_safe : ∀ b : UInt8, (escapeByte b = [b] ∧ shouldEscape b = false) ∨
    (shouldEscape b = true ∧ (escapeByte b).head? = some 92 ∧ (escapeByte b).all (fun c => 0x20 ≤ c ∧ c < 0x7f) = true) :=
  forall_u8 (by decide +kernel)

end SJ.Properties.C10
