import SJ.Proofs.Tables
import SJ.Proofs.F64Round
import SJ.Proofs.RenderParse
import SJ.Proofs.Escape
import SJ.Proofs.WalkSafe
import SJ.Proofs.MarshalExact
import SJ.Proofs.GoEscape
import SJ.Proofs.GoMarshal
import SJ.Proofs.GoArrMarshal
import SJ.Proofs.GoWrappers
/-
C10 — MarshalJSON emits valid JSON denoting the same document.
-/
namespace SJ.Properties.C10
open SJ SJ.Tables

/-- Exactly the control characters, the quotation mark and the backslash are escaped. -/
theorem C10_should_escape (b : UInt8) : shouldEscape b = (b < 0x20 || b == 34 || b == 92) := shouldEscape_spec b

/-- `valToHex` yields lower-case hex digits. -/
theorem C10_hex (n : Fin 16) : valToHex (UInt8.ofNat n.val) = (if n.val < 10 then UInt8.ofNat (48 + n.val) else UInt8.ofNat (87 + n.val)) :=
  valToHex_spec n

/-- What `escapeBytes` emits for one byte never contains a raw control character, quote or lone backslash:
    it is either the byte itself (when it needs no escape) or a backslash sequence of printable ASCII. -/
theorem C10_escape_byte_safe : ∀ b : UInt8, (escapeByte b = [b] ∧ shouldEscape b = false) ∨
    (shouldEscape b = true ∧ (escapeByte b).head? = some 92 ∧ (escapeByte b).all (fun c => 0x20 ≤ c ∧ c < 0x7f) = true) :=
  forall_u8 (by decide +kernel)

open SJ.Escape

/-- **Escaping round-trips**: for every byte string, an RFC unescape of what `escapeBytes` emits gives the
    original back. -/
theorem C10_escape_roundtrip (s : List UInt8) : unescape ((s.map escapeByte).flatten) = some s := escape_roundtrip s
theorem C10_escapeBytes (dst src : Bytes) :
    (escapeBytes dst src).toList = dst.toList ++ (src.toList.map escapeByte).flatten := escapeBytes_eq dst src
/-- No raw control character and no unescaped quote is ever emitted. -/
theorem C10_no_specials (b : UInt8) :
    (∀ c ∈ escapeByte b, 0x20 ≤ c) ∧ (34 ∈ escapeByte b → escapeByte b = [92, 34]) := escape_no_specials b
/-- **Against the RFC specification**: a marshalled string (quote, escaped body, quote) is read by `Spec.value` as
    exactly the source bytes, for every well-formed UTF-8 string; for other byte strings the verdict is `outside`,
    never `reject`. -/
theorem C10_string_valid (sb : Bytes) (hs : WFUtf8 sb.toList) (fuel : Nat) (rest : List UInt8) :
    Spec.value (fuel + 1) ((Iter.quoted #[] sb).toList ++ rest) = .acc (.str sb.toList) rest := value_quoted sb hs fuel rest
theorem C10_string_not_utf8 (s : List UInt8) (hs : ¬ WFUtf8 s) (fuel : Nat) (hf : s.length + 1 ≤ fuel) (rest : List UInt8) :
    Spec.stringBody fuel ((s.map escapeByte).flatten ++ 34 :: rest) [] false = .out := stringBody_escape_not_utf8 s hs fuel hf rest
/-- Marshalling never panics and always terminates, on any tape. -/
theorem C10_marshal_total (pj : PJ) (i : Iter) (dst : Bytes) (hv : SJ.WalkSafe.Iter.Valid pj i) :
    SJ.WalkSafe.OkOrErr (Iter.marshalBuf pj i dst) := SJ.WalkSafe.marshalBuf_safe pj i dst hv

open SJ.Layout SJ.WalkLayout SJ.MarshalExact in
/-- **MarshalJSON writes exactly the canonical text of the document.** For every tape and located value `v` on it
    (gaps anywhere), an iterator standing on `v` marshals to `render v`: `null`/`true`/`false`, integers in
    decimal, floats by `appendFloat` (C18), strings quoted and escaped (C10_escape_*), arrays and objects with
    `,` and `:` separators, members in tape order; the text depends on the abstract document only
    (`render v = renderJ (erase v)`), never on NOP entries. -/
theorem C10_marshal_exact (pj : PJ) (v : LVal) (i : Iter) (dst : Bytes) (hok : Ok pj v) (hf : FloatsOk v)
    (hon : OnNode pj v i) :
    ValAt pj (erase v) v.pos v.fin ∧ Iter.marshalBuf pj i dst = .ok (dst ++ renderJ (erase v)) :=
  marshalBuf_doc pj v i dst hok hf hon

open SJ.Layout SJ.WalkLayout SJ.MarshalExact in
/-- … and returns an error (never malformed text) exactly when the value contains a float that has no JSON text
    (NaN, ±Inf — which no parse produces). -/
theorem C10_marshal_error (pj : PJ) (v : LVal) (i : Iter) (dst : Bytes) (hok : Ok pj v) (hf : ¬ FloatsOk v)
    (hon : OnNode pj v i) : Iter.marshalBuf pj i dst = .error .generic := marshalBuf_node_error pj v i dst hok hf hon

open SJ.Layout SJ.WalkLayout SJ.MarshalExact in
/-- The root iterator (`pj.Iter().MarshalJSON()`) writes the root values, newline-separated. -/
theorem C10_marshal_roots (pj : PJ) (v : LVal) (vs : List LVal) (dst : Bytes) (h : OkRoots pj (v :: vs) 0)
    (hfs : ∀ x ∈ v :: vs, FloatsOk x) :
    Iter.marshalBuf pj (Iter.ofPJ pj) dst = .ok (dst ++ renderRoots (v :: vs)) := marshalBuf_ofPJ pj v vs dst h hfs

open SJ.Layout SJ.WalkLayout SJ.MarshalExact in
/-- `Array.MarshalJSON` and `Object.Parse` + `Elements.MarshalJSON` write the same text as the iterator. -/
theorem C10_array_elements_agree (pj : PJ) (p e : Nat) :
    (∀ es : LVals, Ok pj (.arr p e es) → FloatsOk (.arr p e es) →
      View.arrMarshal pj { lim := e, off := p + 1 } = .ok (render (.arr p e es))) ∧
    (∀ ms : LMems, Ok pj (.obj p e ms) → TightMs1 ms → FloatsOk (.obj p e ms) →
      ∃ es, View.parse pj { lim := e, off := p + 1 } #[] (fuelOf pj) = .ok es ∧
        View.elemsMarshal pj es = .ok (render (.obj p e ms))) :=
  ⟨fun es a b => arrMarshal_arr pj p e es a b, fun ms a b c => elemsMarshal_obj pj p e ms a b c⟩


open SJ.RenderParse SJ.Layout SJ.MarshalExact in
/-- the float round trip that `RenderParse` assumes is the theorem of C18 -/
theorem C10_floatRT : FloatRT := fun bits hfin => SJ.F64Round.appendFloat_roundtrip bits hfin

open SJ.RenderParse SJ.Layout SJ.MarshalExact SJ.ParseDefs in
/-- **The canonical text is valid JSON denoting the same document, and a fixed point.** For every abstract document
    `v` whose root is an object or array, with well-formed UTF-8 strings and finite floats (`Clean`): the RFC grammar
    accepts `renderJ v` as a document `v'` with the same nesting, member order, keys and strings byte for byte, and
    numerically equal numbers (`SameDoc`: an integer-valued float may come back as an integer, a uint below 2^63 as an
    int); and unless `v` contains the float −0.0, rendering `v'` again gives the same bytes. -/
theorem C10_render_roundtrip (v : JVal) (hc : Clean v) (hroot : IsRoot v) :
    ∃ v', Spec.containerText (renderJ v).toList = .accept v' ∧ SameDoc v v' ∧
      (NoNegZero v → renderJ (ofSpec v') = renderJ v) := render_roundtrip C10_floatRT v hc hroot

open SJ.RenderParse SJ.Layout SJ.MarshalExact SJ.WalkLayout in
/-- **… for what `MarshalJSON` actually returns** (composition with `C10_marshal_exact`): the bytes the model's
    `Iter.marshalBuf` writes for a located container on any tape (gaps anywhere) are accepted by the grammar as the
    same document. -/
theorem C10_marshal_reads_back (pj : PJ) (v : LVal) (i : Iter) (hok : Ok pj v) (hf : FloatsOk v) (hon : OnNode pj v i)
    (hc : Clean (erase v)) (hroot : IsRoot (erase v)) :
    ∃ txt v', Iter.marshalBuf pj i #[] = .ok txt ∧ Spec.containerText txt.toList = .accept v' ∧ SameDoc (erase v) v' :=
  marshal_reads_back C10_floatRT pj v i hok hf hon hc hroot

open SJ.RenderParse SJ.Layout SJ.ParseDefs in
/-- **Several roots (ND)**: the newline-joined canonical texts are read back by the per-line grammar as the same
    documents in order, and re-rendering is a fixed point (no −0.0). -/
theorem C10_roots_roundtrip (vs : List JVal) (hne : vs ≠ []) (h : ∀ v ∈ vs, Clean v ∧ IsRoot v) :
    (∃ l, Spec.ndText (renderJRoots vs).toList = .accept (.arr l) ∧ RootsRel NumSame vs l) ∧
    ((∀ v ∈ vs, NoNegZero v) →
      ∃ l, Spec.ndText (renderJRoots vs).toList = .accept (.arr l) ∧ renderJRoots (l.map ofSpec) = renderJRoots vs) :=
  ⟨roots_read_back C10_floatRT vs hne h, fun hz => roots_fixed_point C10_floatRT vs hne h hz⟩

open SJ.RenderParse SJ.Layout SJ.ParseDefs SJ.MarshalExact in
/-- the documented exception (known finding D8), unconditionally: `[-0.0]` prints as `[-0]`, which is the integer 0
    and prints as `[0]` -/
theorem C10_negzero_not_fixed :
    (renderJ (.arr (.cons (.float negZero 0) .nil))).toList = [91, 45, 48, 93] ∧
    Spec.containerText [91, 45, 48, 93] = .accept (.arr [.num (.int 0)]) ∧
    (renderJ (ofSpec (.arr [.num (.int 0)]))).toList = [91, 48, 93] := negZero_not_fixed

open SJ.GoSem SJ.Generated SJ.GoEscape in
/-- **Source tie** (DESIGN §6.3). `escapeBytes` (`parsed_json.go`) is printed from /repo as a syntax tree on every run.
    Its meaning under `GoSem.exec` — the scan for the first byte that needs escaping, the bulk copy of the clean
    prefix, the per-byte switch with the two-character escapes, `\u00XX` for the other control characters — is the
    `escapeBytes` of the hand model (which `C10_escapeBytes` characterises byte by byte and `C10_escape_roundtrip`
    proves to be inverted by an RFC unescape), for every destination, every source and every fuel; it never panics. -/
theorem C10_escapeBytes_follows_source (dst src : Bytes) (fuel : Nat) (tape : Array UInt64) :
    ∃ s, runFun goFuns goescapeBytes fuel ⟨[("dst", .bytes dst), ("src", .bytes src)], tape⟩ =
          .ret s [.bytes (escapeBytes dst src)] ∧ s.tape = tape :=
  escapeBytes_sim dst src fuel tape

open SJ.GoSem SJ.Generated SJ.GoIter SJ.GoObject SJ.GoMarshal in
/-- **Source tie** (DESIGN §6.3). `Iter.MarshalJSONBuffer` (`parsed_json.go`, 170 lines: the write loop, the stack of
    open containers, the key prefix, the tag switch with its nested root switch and labelled breaks, the separators after
    each value, the closing of what is still open) is printed from /repo as a syntax tree on every run. Its meaning under
    `GoSem.exec` is the model's `Iter.marshalBuf` that `C10_marshal_exact` is about: from a valid cursor (`0 ≤ addNext`,
    view inside the tape, string buffers consistent) the Go code returns `out, nil` exactly when the model returns `out`,
    a non-nil error exactly when the model errs, and does not panic; the tape is untouched. `cur < 2^63` excludes
    hand-made iterators only (every cursor the library builds has a 56-bit `cur`; beyond 2^63 Go's `int(i.cur)` is
    negative and the model, which compares the natural number, differs — shown by example in `Proofs/GoMarshal`). -/
theorem C10_marshal_follows_source (pj : PJ) (hb : BufOK pj) (i : Iter) (hl : i.lim ≤ pj.tape.size)
    (ha : 0 ≤ i.addNext) (hcur : i.cur.toNat < 2^63) (dst : Bytes) (F : Nat) (hF : fuelOf pj + i.lim + 9 ≤ F) :
    (∀ out, i.marshalBuf pj dst = .ok out ↔
      ∃ st, runFun goFuns goIter_MarshalJSONBuffer F ⟨initEnv pj i dst, pj.tape⟩ = .ret st [.bytes out, .bool false] ∧
        st.tape = pj.tape) ∧
    ((∃ er, i.marshalBuf pj dst = .error er) ↔
      ∃ st v, runFun goFuns goIter_MarshalJSONBuffer F ⟨initEnv pj i dst, pj.tape⟩ = .ret st [v, .bool true]) ∧
    runFun goFuns goIter_MarshalJSONBuffer F ⟨initEnv pj i dst, pj.tape⟩ ≠ .panic :=
  go_marshal_source_tie_valid pj hb i hl ha hcur dst F hF

open SJ.GoSem SJ.Generated SJ.GoIter SJ.GoObject SJ.GoArrMarshal in
/-- **Source tie** (DESIGN §6.3). `Array.MarshalJSONBuffer` (`parsed_array.go`), printed from /repo on every run, means
    under `GoSem.exec` the model's `View.arrMarshal` (the `amarshal` of the correspondence and of `C10_marshal_exact` for
    arrays): the Go code returns `dst ++ out, nil` exactly when the model returns `out`, an error exactly when the model
    errs; neither side panics or diverges on a view of the tape; never stuck. No hypothesis on `cur`: every element
    `AdvanceIter` hands to `Iter.MarshalJSONBuffer` has a 56-bit `cur`. -/
theorem C10_array_marshal_follows_source (pj : PJ) (hb : BufOK pj) (v : View) (hl : v.lim ≤ pj.tape.size) (dst : Bytes) (F : Nat)
    (hF : 2 * fuelOf pj + v.lim + 10 ≤ F) :
    (∀ out, View.arrMarshal pj v = .ok out ↔
      ∃ st, runFun goFuns goArray_MarshalJSONBuffer F ⟨arrEnv pj v dst, pj.tape⟩ =
          .ret st [.bytes (dst ++ out), .bool false] ∧ st.tape = pj.tape) ∧
    ((∃ er, View.arrMarshal pj v = .error er) ↔
      ∃ st x, runFun goFuns goArray_MarshalJSONBuffer F ⟨arrEnv pj v dst, pj.tape⟩ = .ret st [x, .bool true]) ∧
    (View.arrMarshal pj v = .panic ↔
      runFun goFuns goArray_MarshalJSONBuffer F ⟨arrEnv pj v dst, pj.tape⟩ = .panic) ∧
    View.arrMarshal pj v ≠ .panic ∧ View.arrMarshal pj v ≠ .diverge ∧
    runFun goFuns goArray_MarshalJSONBuffer F ⟨arrEnv pj v dst, pj.tape⟩ ≠ .panic ∧
    runFun goFuns goArray_MarshalJSONBuffer F ⟨arrEnv pj v dst, pj.tape⟩ ≠ .diverge ∧
    (∀ w, runFun goFuns goArray_MarshalJSONBuffer F ⟨arrEnv pj v dst, pj.tape⟩ ≠ .stuck w) :=
  go_arrmarshal_source_tie pj hb v hl dst F hF

open SJ.GoSem SJ.Generated SJ.GoIter SJ.GoObject SJ.GoSet SJ.GoMarshal SJ.GoArrMarshal SJ.GoWrappers in
/-- **Source tie** (DESIGN §6.3). The thin wrappers `Iter.SetString`, `Iter.MarshalJSON`, `Array.MarshalJSON`,
    `Type.String`, `Tag.String` and `FloatFlags.Contains` are printed from /repo as syntax trees on every run. One generic
    theorem (`wrapper_run`: a body that is the single statement `return recv.f(args)` means the callee, plus the copy-back
    of the receiver) carries the callee's tie over: `SetString` is `SetStringBytes`, `MarshalJSON` is
    `MarshalJSONBuffer(nil)` (= the model's `marshalBuf pj #[]` / `arrMarshal`), `Type.String` returns the ten names and
    "(invalid)", `Tag.String` the one-byte string, `Contains` the mask test — for every input; one more unit of fuel than
    the callee (each wrapper diverges at fuel 0). -/
theorem C10_wrappers_follow_source (pj : PJ) :
    (∀ (i : Iter) (sv : Bytes) (fuel : Nat), i.lim ≤ pj.tape.size →
      SimSet pj i (runFun goFuns goIter_SetString (fuel + 1)
          { env := envOf "i" i ++ [("Strings.B", .bytes pj.strings), ("v", .bytes sv)], tape := pj.tape })
        (i.setStringBytes pj sv)) ∧
    (BufOK pj → ∀ (i : Iter) (F : Nat), i.lim ≤ pj.tape.size → 0 ≤ i.addNext → i.cur.toNat < 2^63 →
      fuelOf pj + i.lim + 10 ≤ F →
      (∀ out, i.marshalBuf pj #[] = .ok out ↔
        ∃ st, runFun goFuns goIter_MarshalJSON F ⟨envOf "i" i ++ bufEnv pj, pj.tape⟩ = .ret st [.bytes out, .bool false] ∧
          st.tape = pj.tape) ∧
      ((∃ er, i.marshalBuf pj #[] = .error er) ↔
        ∃ st v, runFun goFuns goIter_MarshalJSON F ⟨envOf "i" i ++ bufEnv pj, pj.tape⟩ = .ret st [v, .bool true]) ∧
      i.marshalBuf pj #[] ≠ .panic ∧ i.marshalBuf pj #[] ≠ .diverge ∧
      runFun goFuns goIter_MarshalJSON F ⟨envOf "i" i ++ bufEnv pj, pj.tape⟩ ≠ .panic ∧
      runFun goFuns goIter_MarshalJSON F ⟨envOf "i" i ++ bufEnv pj, pj.tape⟩ ≠ .diverge ∧
      (∀ w, runFun goFuns goIter_MarshalJSON F ⟨envOf "i" i ++ bufEnv pj, pj.tape⟩ ≠ .stuck w)) ∧
    (BufOK pj → ∀ (v : View) (F : Nat), v.lim ≤ pj.tape.size → 2 * fuelOf pj + v.lim + 11 ≤ F →
      (∀ out, View.arrMarshal pj v = .ok out ↔
        ∃ st, runFun goFuns goArray_MarshalJSON F ⟨arrEnv0 pj v, pj.tape⟩ = .ret st [.bytes out, .bool false] ∧
          st.tape = pj.tape) ∧
      ((∃ er, View.arrMarshal pj v = .error er) ↔
        ∃ st x, runFun goFuns goArray_MarshalJSON F ⟨arrEnv0 pj v, pj.tape⟩ = .ret st [x, .bool true]) ∧
      (View.arrMarshal pj v = .panic ↔ runFun goFuns goArray_MarshalJSON F ⟨arrEnv0 pj v, pj.tape⟩ = .panic) ∧
      View.arrMarshal pj v ≠ .panic ∧ View.arrMarshal pj v ≠ .diverge ∧
      runFun goFuns goArray_MarshalJSON F ⟨arrEnv0 pj v, pj.tape⟩ ≠ .panic ∧
      runFun goFuns goArray_MarshalJSON F ⟨arrEnv0 pj v, pj.tape⟩ ≠ .diverge ∧
      (∀ w, runFun goFuns goArray_MarshalJSON F ⟨arrEnv0 pj v, pj.tape⟩ ≠ .stuck w)) ∧
    (∀ (t : UInt8) (fuel : Nat) (tape : Array UInt64),
      runFun goFuns goType_String fuel ⟨[("t", .u8 t)], tape⟩ = .ret ⟨[("t", .u8 t)], tape⟩ [.bytes (typeName t)]) ∧
    (∀ (t : UInt8) (fuel : Nat) (tape : Array UInt64),
      runFun goFuns goTag_String fuel ⟨[("t", .u8 t)], tape⟩ = .ret ⟨[("t", .u8 t)], tape⟩ [.bytes #[t]]) ∧
    (∀ (f flag : UInt64) (fuel : Nat) (tape : Array UInt64),
      runFun goFuns goFloatFlags_Contains fuel ⟨[("f", .u64 f), ("flag", .u64 flag)], tape⟩ =
        .ret ⟨[("f", .u64 f), ("flag", .u64 flag)], tape⟩ [.bool ((f &&& flag) == flag)]) :=
  SJ.GoWrappers.go_wrappers_source_tie pj

end SJ.Properties.C10
