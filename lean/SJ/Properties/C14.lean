import SJ.Proofs.Facts
import SJ.Proofs.Edit
import SJ.Proofs.WalkSafe
import SJ.Proofs.Bridge
import SJ.Proofs.DeleteDoc
import SJ.Proofs.EditHistoryDelete
import SJ.Proofs.GoIter
import SJ.Proofs.GoSet
import SJ.Proofs.GoDelete
/-
C14 — Deletion removes exactly the selected members and all APIs agree after it.
-/
namespace SJ.Properties.C14
open SJ SJ.Generated

/-- `calcNext`: which tags own a second tape word and which carry an end offset. -/
theorem C14_calc_next :
    swCalcNext = [[[cTagInteger, cTagUint, cTagFloat, cTagString], [cTagRoot, cTagObjectStart, cTagArrayStart]]] :=
  Facts.calc_next_cases

open SJ.Layout

/-- **SetNull on a container**: the object or array node `[q, e)` becomes `null` followed by a gap ending exactly
    at `e` (every skip count lands inside the gap or on the next live entry); nothing else changes.
    `hview`: the container lies inside the iterator's view (Go checks every `i.tape.Tape[j] = …` of the fill against
    the view length `lim` and panics at the first `j ≥ lim`; every view the API makes ends at an element boundary). -/
theorem C14_setNull_container (pj : PJ) (v : LVal) (hok : Ok pj v) (q e : Nat) (hnode : HasNode q e v) (hqe : q + 2 ≤ e)
    (hsmall : pj.tape.size < 2^56) (i : Iter) (hoff : i.off = q + 1) (hcur : i.cur.toNat = e)
    (hview : i.cur.toNat ≤ i.lim) (ht0 : inCase (caseOf swSetNull 0) i.t = false) (ht1 : inCase (caseOf swSetNull 1) i.t = false)
    (ht : inCase (caseOf swSetNull 2) i.t = true) :
    ∃ pj' i', i.setNull pj = .ok (pj', i') ∧ Ok pj' (substV q (.null q) v) ∧
      pj'.strings = pj.strings ∧ pj'.msg = pj.msg ∧ pj'.tape.size = pj.tape.size :=
  setNull_container_doc pj v hok q e hnode hqe hsmall i hoff hcur hview ht0 ht1 ht

/-- The NOP fill used by every deletion writes `Nop | (hi − k)` at each `k ∈ [lo, hi)` and nothing else …
    (`SetNull` and both `DeleteElems` write through the iterator's view, `Iter.nopFillV lim`: that is this fill
    whenever the range ends inside the view, `C14_nopFill_view`, and a panic otherwise, as in Go.) -/
theorem C14_nopFill (n : Nat) (tape : Array UInt64) (lo hi : Nat) (hn : hi - lo = n) (hsz : hi ≤ tape.size) :
    ∃ tp, Iter.nopFill tape lo hi = .ok tp ∧ tp.size = tape.size ∧
      (∀ k, lo ≤ k → k < hi → tp[k]? = some (mkWord tagNop (UInt64.ofNat (hi - k)))) ∧
      (∀ k, (k < lo ∨ hi ≤ k) → tp[k]? = tape[k]?) := nopFill_spec n tape lo hi hn hsz
/-- The view-checked fill of the model's `SetNull`/`DeleteElems` is `nopFill` on every range inside the view. -/
theorem C14_nopFill_view (lim n : Nat) (tape : Array UInt64) (lo hi : Nat) (hn : hi - lo = n) (hv : hi ≤ lim) :
    Iter.nopFillV lim tape lo hi = Iter.nopFill tape lo hi := SJ.Layout.nopFillV_eq_nopFill lim n tape lo hi hn hv
/-- … which makes `[lo, hi)` a gap in the sense of Layout. -/
theorem C14_fill_is_gap {pj' : PJ} {lo hi : Nat} (hh : hi < 2^56)
    (h : ∀ k, lo ≤ k → k < hi → word pj' k = some (mkWord tagNop (UInt64.ofNat (hi - k)))) (hle : lo ≤ hi) : Gap pj' lo hi :=
  gap_of_fill hh h hle
/-- Walkers skip gaps: the object walker makes strict progress and never panics on any tape. -/
theorem C14_next_element_total (pj : PJ) (o : View) (hl : o.lim ≤ pj.tape.size) :
    SJ.WalkSafe.OkOrErr (View.parse pj o #[] (fuelOf pj)) := SJ.WalkSafe.parse_safe pj o hl

/-- **No reader misreads a gap**: `Advance`, `AdvanceInto`, `AdvanceIter`, `PeekNextTag` started anywhere in a
    gap behave exactly as if started at its end — with the payload register `cur` holding the skip count `c` of the
    last NOP word stepped on (Go's loops overwrite `i.cur` on every iteration; `c` is the old payload if the gap is
    empty). The register is overwritten by the next word read, so it shows only when the gap ends at the end of
    the view (`C14_gap_skipped_inside`). -/
theorem C14_gap_skipped (pj : PJ) (i : Iter) {a b : Nat} (g : Gap pj a b) (hb : b ≤ i.lim) :
    ∃ c, (a = b → c = i.cur) ∧
    Iter.advanceLoop pj i a = Iter.advanceLoop pj { i with cur := c } b ∧
    Iter.advanceIntoLoop pj i a = Iter.advanceIntoLoop pj { i with cur := c } b ∧
    Iter.advanceIterLoop pj i a = Iter.advanceIterLoop pj { i with cur := c } b ∧
    Iter.peekLoop pj i.lim a = Iter.peekLoop pj i.lim b := by
  obtain ⟨c, h0, h1, h2, h3⟩ := WalkLayout.loops_gap pj i g hb
  exact ⟨c, h0, h1, h2, h3, WalkLayout.peekLoop_gap pj i.lim g hb⟩

/-- A gap that ends inside the view: all four readers behave exactly as if started at its end (same result, same
    iterator). -/
theorem C14_gap_skipped_inside (pj : PJ) (i : Iter) {a b : Nat} (g : Gap pj a b) (hb : b < i.lim) :
    Iter.advanceLoop pj i a = Iter.advanceLoop pj i b ∧ Iter.advanceIntoLoop pj i a = Iter.advanceIntoLoop pj i b ∧
    Iter.advanceIterLoop pj i a = Iter.advanceIterLoop pj i b ∧ Iter.peekLoop pj i.lim a = Iter.peekLoop pj i.lim b :=
  ⟨WalkLayout.advanceLoop_gap pj i g hb, WalkLayout.advanceIntoLoop_gap pj i g hb,
   WalkLayout.advanceIterLoop_gap pj i g hb, WalkLayout.peekLoop_gap pj i.lim g (Nat.le_of_lt hb)⟩

/-- A gap that ends at the end of the view: the three advancing readers park the cursor there (`false` = no live
    word), `t = TagEnd`, `addNext = 0`, and `cur` is the last skip count. -/
theorem C14_gap_skipped_to_end (pj : PJ) (i : Iter) {a : Nat} (g : Gap pj a i.lim) :
    ∃ c, (a = i.lim → c = i.cur) ∧
    Iter.advanceLoop pj i a = .ok ({ i with off := i.lim, addNext := 0, cur := c, t := tagEnd }, false) ∧
    Iter.advanceIntoLoop pj i a = .ok ({ i with off := i.lim, addNext := 0, cur := c, t := tagEnd }, false) ∧
    Iter.advanceIterLoop pj i a = .ok ({ i with off := i.lim, addNext := 0, cur := c, t := tagEnd }, false) := by
  obtain ⟨c, h0, h1, h2, h3⟩ := WalkLayout.loops_gap pj i g (Nat.le_refl _)
  refine ⟨c, h0, ?_, ?_, ?_⟩
  · rw [h1, Iter.advanceLoop]; simp
  · rw [h2, Iter.advanceIntoLoop]; simp
  · rw [h3, Iter.advanceIterLoop]; simp

/-- … and so does `NextElementBytes` (it spends at most one unit of its budget per NOP entry). -/
theorem C14_gap_skipped_neb (pj : PJ) (lim : Nat) {a b : Nat} (g : Gap pj a b) (hb : b ≤ lim) :
    ∃ k, k ≤ b - a ∧ ∀ fuel, View.nextElementBytes pj { lim := lim, off := a } (fuel + k) =
      View.nextElementBytes pj { lim := lim, off := b } fuel := WalkLayout.nextElementBytes_gap pj lim g hb

/-- **After SetNull on a container, every reader agrees on the remaining document.** Take a located, tight
    document `v`, null the container node `[q, e)`; then any iterator standing on the document in the new tape
    reads back, through `Advance`/`AdvanceInto`/`NextElementBytes` and the accessors, exactly `v` with that node
    replaced by `null` — no survivor skipped, nothing resurrected. -/
theorem C14_setNull_then_read (pj : PJ) (v : LVal) (hok : Ok pj v) (htight : WalkLayout.Tight v) (q e : Nat)
    (hnode : HasNode q e v) (hqe : q + 2 ≤ e)
    (hsmall : pj.tape.size < 2^56) (i : Iter) (hoff : i.off = q + 1) (hcur : i.cur.toNat = e)
    (hview : i.cur.toNat ≤ i.lim) (ht0 : inCase (caseOf swSetNull 0) i.t = false) (ht1 : inCase (caseOf swSetNull 1) i.t = false)
    (ht : inCase (caseOf swSetNull 2) i.t = true) :
    ∃ pj' i', i.setNull pj = .ok (pj', i') ∧
      ∀ (j : Iter) (fuel : Nat), WalkLayout.OnNode pj' (substV q (.null q) v) j → 2 * (j.lim - j.off) + 2 < fuel →
        owalkValue pj' j fuel = .ok (WalkLayout.toOVal (substV q (.null q) v)) := by
  obtain ⟨pj', i', h1, h2, _⟩ := setNull_container_doc pj v hok q e hnode hqe hsmall i hoff hcur hview ht0 ht1 ht
  refine ⟨pj', i', h1, fun j fuel hon hf => ?_⟩
  exact WalkLayout.owalkValue_node pj' _ j fuel h2 (WalkLayout.subst_tight q (.null q) rfl (by simp [WalkLayout.Tight]) v htight) hon hf

/-- Why "tight" is stated: `NextElementBytes` (and `Parse`/`Map` built on it) reads the value at key+2 without
    skipping NOPs, while `ForEach` skips them; on a tape with a NOP between a key and its value — which no parse,
    edit or deletion produces — the two disagree. -/
theorem C14_key_value_gap_misread :
    Ok WalkLayout.cexPJ WalkLayout.cexDoc ∧ WalkLayout.toOMems (.cons 1 [97] (.int 5 4) .nil) = [(#[97], .int 5)] ∧
    owalkObj WalkLayout.cexPJ { lim := 7, off := 1 } [] (fuelOf WalkLayout.cexPJ) = .ok [] ∧
    (match View.forEach WalkLayout.cexPJ [] (View.iter { lim := 7, off := 1 }) 0 #[] (fuelOf WalkLayout.cexPJ) with
      | .ok cbs => cbs.size == 1 | _ => false) = true := WalkLayout.neb_gap_counterexample

open SJ.DeleteDoc SJ.WalkLayout in
/-- **Array.DeleteElems, whole document.** For a located document `doc` with the array node `[p, e)`, any
    predicate: every element is visited exactly once, in order (`its`, each cursor standing on its element), and
    the new tape holds `doc` with that array replaced by the elements for which deletion was *not* requested,
    at their old positions; strings, message and tape size untouched. -/
theorem C14_array_delete (pj : PJ) (doc : LVal) (hdoc : Ok pj doc) (p e : Nat) (es : LVals) (pred : Nat → Bool)
    (cur : UInt64) (t : UInt8) (fuel : Nat) (hnode : HasNode p e doc)
    (hok : Ok pj (.arr p e es)) (hsmall : pj.tape.size < 2^56) (hf : lenVs es < fuel) :
    ∃ pj' its, View.arrDeleteElems pj pred { lim := e, off := p + 1, addNext := 0, cur := cur, t := t } 0 #[] fuel = .ok (pj', its) ∧
      Ok pj' (substV p (.arr p e (filterVs pred 0 es)) doc) ∧
      pj'.strings = pj.strings ∧ pj'.msg = pj.msg ∧ pj'.tape.size = pj.tape.size ∧
      its.size = lenVs es ∧ Stands pj e es its.toList :=
  arrDeleteElems_doc pj doc hdoc p e es pred cur t fuel hnode hok hsmall hf

open SJ.DeleteDoc SJ.WalkLayout in
/-- **Object.DeleteElems, whole document**, with or without key filter: the members whose key passes the filter
    are visited once each, in order; the n-th visited one is removed (key and value) iff `pred n key`; the tape
    then holds `doc` with the object replaced by the survivors. Duplicate keys are all visited. -/
theorem C14_object_delete (pj : PJ) (doc : LVal) (hdoc : Ok pj doc) (p e : Nat) (ms : LMems) (pred : Nat → Bytes → Bool)
    (onlyKeys : List Bytes) (cur : UInt64) (t : UInt8) (fuel : Nat) (hnode : HasNode p e doc)
    (hok : Ok pj (.obj p e ms)) (hsmall : pj.tape.size < 2^56) (hf : lenMs ms < fuel) :
    ∃ pj' cbs, View.deleteElems pj pred onlyKeys { lim := e, off := p + 1, addNext := 0, cur := cur, t := t } 0 #[] fuel = .ok (pj', cbs) ∧
      Ok pj' (substV p (.obj p e (filterMs pred onlyKeys 0 ms)) doc) ∧
      pj'.strings = pj.strings ∧ pj'.msg = pj.msg ∧ pj'.tape.size = pj.tape.size ∧
      cbs.size = (visitedMs onlyKeys 0 ms).length ∧ StandsM pj e (visitedMs onlyKeys 0 ms) cbs.toList :=
  deleteElems_doc pj doc hdoc p e ms pred onlyKeys cur t fuel hnode hok hsmall hf

open SJ.DeleteDoc SJ.WalkLayout in
/-- `fn == nil`: "all elements in onlyKeys will be deleted; if both are nil all elements are deleted" — exactly. -/
theorem C14_object_delete_nil_fn (pj : PJ) (doc : LVal) (hdoc : Ok pj doc) (p e : Nat) (ms : LMems)
    (onlyKeys : List Bytes) (cur : UInt64) (t : UInt8) (fuel : Nat) (hnode : HasNode p e doc)
    (hok : Ok pj (.obj p e ms)) (hsmall : pj.tape.size < 2^56) (hf : lenMs ms < fuel) :
    ∃ pj' cbs, View.deleteElems pj (fun _ _ => true) onlyKeys { lim := e, off := p + 1, addNext := 0, cur := cur, t := t } 0 #[] fuel = .ok (pj', cbs) ∧
      Ok pj' (.obj p e (nilFnResult onlyKeys ms)) ∧
      Ok pj' (substV p (.obj p e (nilFnResult onlyKeys ms)) doc) ∧
      AgreeOut pj pj' (p + 1) (e - 1) ∧
      pj'.strings = pj.strings ∧ pj'.msg = pj.msg ∧ pj'.tape.size = pj.tape.size ∧
      cbs.size = (visitedMs onlyKeys 0 ms).length ∧ StandsM pj e (visitedMs onlyKeys 0 ms) cbs.toList :=
  deleteElems_nilfn_doc pj doc hdoc p e ms onlyKeys cur t fuel hnode hok hsmall hf

open SJ.DeleteDoc SJ.WalkLayout in
/-- **All readers agree after a deletion**: reading the array (Advance-based walk) resp. the object
    (NextElementBytes-based walk) back from the new tape gives exactly the survivors. -/
theorem C14_delete_then_read (pj : PJ) (p e : Nat) :
    (∀ (es : LVals) (pred : Nat → Bool) (cur : UInt64) (t : UInt8) (fuel : Nat),
      Ok pj (.arr p e es) → TightVs es → pj.tape.size < 2^56 → lenVs es < fuel →
      ∃ pj' its, View.arrDeleteElems pj pred { lim := e, off := p + 1, addNext := 0, cur := cur, t := t } 0 #[] fuel = .ok (pj', its) ∧
        owalkArr pj' { lim := e, off := p + 1, addNext := 0, cur := cur, t := t } [] (fuelOf pj') = .ok (toOVals (filterVs pred 0 es))) ∧
    (∀ (ms : LMems) (pred : Nat → Bytes → Bool) (onlyKeys : List Bytes) (cur : UInt64) (t : UInt8) (fuel : Nat),
      Ok pj (.obj p e ms) → TightMs ms → pj.tape.size < 2^56 → lenMs ms < fuel →
      ∃ pj' cbs, View.deleteElems pj pred onlyKeys { lim := e, off := p + 1, addNext := 0, cur := cur, t := t } 0 #[] fuel = .ok (pj', cbs) ∧
        owalkObj pj' { lim := e, off := p + 1 } [] (fuelOf pj') = .ok (toOMems (filterMs pred onlyKeys 0 ms))) :=
  ⟨fun es pred cur t fuel a b c d => arrDeleteElems_readback pj p e es pred cur t fuel a b c d,
   fun ms pred ks cur t fuel a b c d => deleteElems_readback pj p e ms pred ks cur t fuel a b c d⟩

open SJ.EditHistory SJ.WalkLayout in
/-- **Histories of deletions and replacements.** `DOp` is one call of `Array.DeleteElems` (`deleteArr q pred`: `pred k`
    answers the k-th callback), `Object.DeleteElems` (`deleteObj q pred onlyKeys`; `fn == nil` is `fun _ _ => true`) or
    one of the `Set*` calls of C13, each made on the iterator standing on tape position `q`. For every located, tight
    document and EVERY finite sequence of such calls, each valid in the document as it is when the call is made (the
    addressed node is an array resp. object resp. a value the `Set*` gate admits): all calls succeed, and the tape then
    holds exactly `absDOps v ops` — the original document with the selected members removed and the addressed values
    replaced, in order, survivors at their positions — and is again tight; message and tape size unchanged; the string
    buffer has grown by exactly the `SetString` arguments. -/
theorem C14_history (ops : List DOp) (pj : PJ) (v : LVal) (hok : Ok pj v) (ht : Tight v)
    (hv : ValidSeqDA pj.strings.size pj.tape.size v ops) :
    ∃ pj', applyDOps pj ops = .ok pj' ∧ Ok pj' (absDOps v ops) ∧ Tight (absDOps v ops) ∧ pj'.msg = pj.msg ∧
      pj'.tape.size = pj.tape.size ∧ pj'.strings = pj.strings ++ appendedAllD ops :=
  history_delete_abs ops pj v hok ht hv

open SJ.EditHistory SJ.WalkLayout in
/-- **… and every reader agrees on the remaining document after any such history**: an iterator standing anywhere on
    the document in the final tape (`OnNode`), walking with `Advance`/`AdvanceInto`/`NextElementBytes` and the typed
    accessors, reads back exactly `absDOps v ops` — no survivor skipped, no deleted member resurrected, no gap misread. -/
theorem C14_history_readback (ops : List DOp) (pj : PJ) (v : LVal) (hok : Ok pj v) (ht : Tight v)
    (hv : ValidSeqDA pj.strings.size pj.tape.size v ops) :
    ∃ pj', applyDOps pj ops = .ok pj' ∧
      (∀ (j : Iter) (fuel : Nat), OnNode pj' (absDOps v ops) j → 2 * (j.lim - j.off) + 2 < fuel →
        owalkValue pj' j fuel = .ok (toOVal (absDOps v ops))) ∧
      owalkValue pj' (iterOn pj' v.pos) (fuelOf pj') = .ok (toOVal (absDOps v ops)) := by
  have hv' := validSeqD_of_abs ops pj v hok hv
  obtain ⟨pj', h1, h2⟩ := history_delete_readback ops pj v hok ht hv'
  obtain ⟨pj'', g1, g2⟩ := history_delete_readback_iterOn ops pj v hok ht hv'
  rw [h1] at g1; cases g1
  exact ⟨pj', h1, h2, g2⟩

open SJ.EditHistory in
/-- A deletion the API refuses (the iterator is not on an array resp. object) returns an error and leaves the tape alone. -/
theorem C14_delete_refused (pj : PJ) (q : Nat) :
    (∀ pred, tagAt pj q ≠ tagArrayStart → applyDOp pj (.deleteArr q pred) = .error .generic) ∧
    (∀ pred ks, tagAt pj q ≠ tagObjectStart → applyDOp pj (.deleteObj q pred ks) = .error .generic) :=
  ⟨fun pred h => applyDOp_deleteArr_refused pj q pred h, fun pred ks h => applyDOp_deleteObj_refused pj q pred ks h⟩

/-- The premises of `C14_history` are satisfiable: `[1,"a",{"k":true}]`, delete the middle element, `SetInt` on a
    survivor, delete member `k` → `[9,{}]`, read back from the edited tape. -/
example : SJ.EditHistory.ValidSeqDA SJ.EditHistory.exPJ.strings.size SJ.EditHistory.exPJ.tape.size SJ.EditHistory.exDoc SJ.EditHistory.exDOps :=
  SJ.EditHistory.exValidDA

open SJ.GoSem SJ.GoIter SJ.GoSet in
/-- **The readers that skip gaps, and the writer that makes them, are the meaning of their Go source**: `Advance`,
    `AdvanceInto`, `AdvanceIter`, `PeekNextTag` (whose NOP-skipping loops `C14_gap_skipped` is about) and `SetNull` (whose
    container case writes the gap) — see `C02_cursor_follows_source` and `C13_set_follows_source` for the statements in full. -/
theorem C14_gap_code_follows_source (pj : PJ) (i dst : Iter) (hl : i.lim ≤ pj.tape.size) (fuel : Nat) (hf : fuelFor i ≤ fuel) :
    SimV pj.tape i (runFun goFuns goIter_PeekNextTag fuel { env := envOf "i" i, tape := pj.tape }) (i.peekNextTag pj) ∧
    SimT pj.tape (runFun goFuns goIter_Advance fuel { env := envOf "i" i, tape := pj.tape }) (i.advance pj) ∧
    SimT pj.tape (runFun goFuns goIter_AdvanceInto fuel { env := envOf "i" i, tape := pj.tape }) (i.advanceInto pj) ∧
    SimIter pj.tape (runFun goFuns goIter_AdvanceIter fuel
      { env := envOf "i" i ++ envOf "dst" dst ++ [("i!=dst", .bool true)], tape := pj.tape }) (i.advanceIter pj dst) ∧
    ((i.t = tagObjectStart ∨ i.t = tagArrayStart ∨ i.t = tagRoot → i.cur.toNat < 2^63) →
      i.cur.toNat - i.off + 2 ≤ fuel → SimSet pj i (runFun goFuns goIter_SetNull fuel
        { env := envOf "i" i ++ [("Strings.B", .bytes pj.strings)], tape := pj.tape })
      (i.setNull pj)) := by
  obtain ⟨h1, _, h3, h4, h5⟩ := go_iter_source_tie pj i dst hl fuel hf
  exact ⟨h1, h3, h4, h5, (go_set_source_tie pj i hl fuel).2.2.2.2.2⟩

open SJ.GoSem SJ.Generated SJ.GoIter SJ.GoObject SJ.GoDelete in
/-- **Source tie** (DESIGN §6.3). `Array.FirstType`, `Array.ForEach`, `Array.DeleteElems`, `Object.ForEach` and
    `Object.DeleteElems` (`parsed_array.go`, `parsed_object.go`) are printed from /repo as syntax trees on every run; the
    callback is a parameter (answers given in advance, arguments logged). Their meaning under `GoSem.exec` is the model's
    `View.firstType`, `arrForEach`, `forEach`, `arrDeleteElems`, `deleteElems` — the functions `C14_history`,
    `C14_gap_skipped` and `C12_forEach` are about: same callbacks in the same order with the same iterators, the same
    words overwritten with the same NOP distances, the same result, a panic exactly when the model panics; never stuck,
    never out of fuel (`2·lim+7`). No premise on the tape or the view beyond `v.lim ≤ pj.tape.size`: the Go code writes
    the NOPs through the iterator's view and panics at its end when a deleted element ends beyond it, and so does the
    model (`Iter.nopFillV`; until its repair it checked the array only and wrote on — the run that told them apart is
    kept in `Proofs/GoDelete` as an `example` on which both now panic). -/
theorem C14_delete_code_follows_source (pj : PJ) (hb : BufOK pj) (v : View) (hl : v.lim ≤ pj.tape.size) (ks : List Bytes)
    (q : Nat → Bool) (N : Nat) (hN : v.lim - v.off ≤ N) (fuel mf : Nat) (hmf : v.lim - v.off + 1 ≤ mf)
    (hf : 2 * v.lim + 7 ≤ fuel) :
    SimType pj (runFun goFuns goArray_FirstType fuel ⟨arrStore pj v [], pj.tape⟩) (View.firstType pj v) ∧
    SimFE pj (runFun goFuns goArray_ForEach fuel ⟨arrStore pj v [("fn.log", .ints [])], pj.tape⟩)
      (View.arrForEach pj v.iter #[] mf) ∧
    SimOFE pj (runFun goFuns goObject_ForEach fuel ⟨objStore pj v ks [("fn.log", .ints [])], pj.tape⟩)
      (View.forEach pj ks v.iter 0 #[] mf) ∧
    SimDel N q (runFun goFuns goArray_DeleteElems fuel
        ⟨arrStore pj v [("fn.results", .bools (answers N q)), ("fn.log", .ints [])], pj.tape⟩)
      (View.arrDeleteElems pj q v.iter 0 #[] mf) ∧
    SimODel true 0 q [] (runFun goFuns goObject_DeleteElems fuel
        ⟨objStore pj v ks [("fn==nil", .bool true)], pj.tape⟩)
      (View.deleteElems pj (fun _ _ => true) ks v.iter 0 #[] mf) ∧
    SimODel false N q [] (runFun goFuns goObject_DeleteElems fuel
        ⟨objStore pj v ks [("fn==nil", .bool false), ("fn.results", .bools (answers N q)), ("fn.log", .ints [])],
          pj.tape⟩)
      (View.deleteElems pj (fun k _ => q k) ks v.iter 0 #[] mf) :=
  go_delete_source_tie pj hb v hl ks q N hN fuel mf hmf hf

end SJ.Properties.C14
