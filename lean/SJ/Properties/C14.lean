import SJ.Proofs.Facts
/-
C14 — Deletion removes exactly the selected members and all APIs agree after it.
-/
namespace SJ.Properties.C14
open SJ SJ.Generated

/-- `calcNext`: which tags own a second tape word and which carry an end offset. -/
theorem C14_calc_next :
    swCalcNext = [[[cTagInteger, cTagUint, cTagFloat, cTagString], [cTagRoot, cTagObjectStart, cTagArrayStart]]] :=
  Facts.calc_next_cases

end SJ.Properties.C14
