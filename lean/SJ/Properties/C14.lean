import SJ.Proofs.Facts
import SJ.Proofs.Edit
import SJ.Proofs.WalkSafe
/-
C14 — Deletion removes exactly the selected members and all APIs agree after it.
-/
namespace SJ.Properties.C14
open SJ SJ.Generated

/-- `calcNext`: which tags own a second tape word and which carry an end offset. -/
theorem C14_calc_next :
    swCalcNext = [[[cTagInteger, cTagUint, cTagFloat, cTagString], [cTagRoot, cTagObjectStart, cTagArrayStart]]] :=
  Facts.calc_next_cases

open SJ.Layout

/-- **SetNull on a container**: the object or array node `[q, e)` becomes `null` followed by a gap ending exactly
    at `e` (every skip count lands inside the gap or on the next live entry); nothing else changes. -/
theorem C14_setNull_container (pj : PJ) (v : LVal) (hok : Ok pj v) (q e : Nat) (hnode : HasNode q e v) (hqe : q + 2 ≤ e)
    (hsmall : pj.tape.size < 2^56) (i : Iter) (hoff : i.off = q + 1) (hcur : i.cur.toNat = e)
    (ht0 : inCase (caseOf swSetNull 0) i.t = false) (ht1 : inCase (caseOf swSetNull 1) i.t = false)
    (ht : inCase (caseOf swSetNull 2) i.t = true) :
    ∃ pj' i', i.setNull pj = .ok (pj', i') ∧ Ok pj' (substV q (.null q) v) ∧
      pj'.strings = pj.strings ∧ pj'.msg = pj.msg ∧ pj'.tape.size = pj.tape.size :=
  setNull_container_doc pj v hok q e hnode hqe hsmall i hoff hcur ht0 ht1 ht

/-- The NOP fill used by every deletion writes `Nop | (hi − k)` at each `k ∈ [lo, hi)` and nothing else … -/
theorem C14_nopFill (n : Nat) (tape : Array UInt64) (lo hi : Nat) (hn : hi - lo = n) (hsz : hi ≤ tape.size) :
    ∃ tp, Iter.nopFill tape lo hi = .ok tp ∧ tp.size = tape.size ∧
      (∀ k, lo ≤ k → k < hi → tp[k]? = some (mkWord tagNop (UInt64.ofNat (hi - k)))) ∧
      (∀ k, (k < lo ∨ hi ≤ k) → tp[k]? = tape[k]?) := nopFill_spec n tape lo hi hn hsz
/-- … which makes `[lo, hi)` a gap in the sense of Layout. -/
theorem C14_fill_is_gap {pj' : PJ} {lo hi : Nat} (hh : hi < 2^56)
    (h : ∀ k, lo ≤ k → k < hi → word pj' k = some (mkWord tagNop (UInt64.ofNat (hi - k)))) (hle : lo ≤ hi) : Gap pj' lo hi :=
  gap_of_fill hh h hle
/-- Walkers skip gaps: the object walker makes strict progress and never panics on any tape. -/
theorem C14_next_element_total (pj : PJ) (o : View) (hl : o.lim ≤ pj.tape.size) :
    SJ.WalkSafe.OkOrErr (View.parse pj o #[] (fuelOf pj)) := SJ.WalkSafe.parse_safe pj o hl

end SJ.Properties.C14
