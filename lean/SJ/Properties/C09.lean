import SJ.Generated.Consts
/-
C09 — ParseNDStream delivers the same documents however the reader fragments.
-/
namespace SJ.Properties.C09
open SJ.Generated

/-- the chunk buffer is `tmpSize` = 10 MiB and the pooled slices leave 1 KiB of head room -/
theorem C09_tmp_size : ctmpSize = 10 * 1024 * 1024 := by decide

end SJ.Properties.C09
