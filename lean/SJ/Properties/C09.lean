import SJ.Generated.Consts
import SJ.Proofs.StreamDocs
import SJ.Proofs.Stream
import SJ.Proofs.StreamQueue
/-
C09 — ParseNDStream delivers the same documents however the reader fragments.
-/
namespace SJ.Properties.C09
open SJ.Generated

/-- the chunk buffer is `tmpSize` = 10 MiB and the pooled slices leave 1 KiB of head room -/
theorem C09_tmp_size : ctmpSize = 10 * 1024 * 1024 := by decide

open SJ.Stream in
/-- **The chunker, for every fragmentation.** `reads` are the successive non-empty results of the underlying
    `Read`, `fin` how the reader ends. The chunks handed to the parsers, concatenated, are a prefix of the stream —
    the whole stream when the loop ends with EOF, which it does only if the reader did; every chunk but the last
    ends in a line feed (so no document is cut); the loop reports failure only if the reader failed. -/
theorem C09_chunks (reads : List (List UInt8)) (fin : Fin) :
    (∃ tail, (run reads fin).1.flatten ++ tail = reads.flatten) ∧
    ((run reads fin).2 = .eof → fin = .eof ∧ (run reads fin).1.flatten = reads.flatten) ∧
    (∀ c ∈ (run reads fin).1.dropLast, c.getLast? = some 10) ∧
    ((run reads fin).2 = .fail → fin = .fail) := run_spec reads fin

open SJ.Stream in
/-- `ReadBytes('\n')` by contract: returned bytes plus what is left are what was there; a found delimiter ends the
    line; otherwise the reader is exhausted. -/
theorem C09_read_line (fin : Fin) (fuel : Nat) (r : Rd) (h : r.pending.length < fuel) :
    (readLine fin fuel r).1 ++ (readLine fin fuel r).2.1.rest = r.rest ∧
    (readLine fin fuel r).2.1.pending.length ≤ r.pending.length ∧
    ((readLine fin fuel r).2.2 = none → (readLine fin fuel r).1.getLast? = some 10) ∧
    ((readLine fin fuel r).2.2 ≠ none → (readLine fin fuel r).2.2 = some fin ∧ (readLine fin fuel r).2.1.rest = []) :=
  readLine_spec fin fuel r h

open SJ.Stream in
/-- non-vacuity: a stream cut in the middle of a line and in the middle of a document -/
example : run [[123, 125, 10, 91], [49, 93], [10, 10, 123], [125]] .eof = ([[123, 125, 10, 91, 49, 93, 10], [10, 123, 125]], .eof) := by decide

open SJ.StreamQueue in
/-- **Order of delivery, for every completion order.** The reader puts one result channel per chunk on the queue
    in chunk order; parsers complete in any order; the forwarder waits on the oldest channel. Under every
    interleaving what has been delivered is exactly chunks `0 … n−1` in order. -/
theorem C09_delivery_order (evs : List Ev) (s : St) (hr : run {} evs = some s) :
    s.delivered = List.range s.delivered.length ∧ s.delivered.length ≤ s.spawned := delivered_in_order evs s hr


open SJ.StreamDocs in
/-- **The documents of the stream are the documents of the chunks, in order — for every fragmentation.** When the read
    loop ends with EOF, the non-blank lines of the whole stream are the non-blank lines of the chunks concatenated (no
    line is cut, duplicated or lost at a chunk boundary), and so are their verdicts under the RFC grammar. -/
theorem C09_stream_lines (reads : List (List UInt8)) (fin : SJ.Stream.Fin) (heof : (SJ.Stream.run reads fin).2 = .eof) :
    lines reads.flatten = ((SJ.Stream.run reads fin).1.map lines).flatten ∧
    lineVerdicts reads.flatten = ((SJ.Stream.run reads fin).1.map lineVerdicts).flatten := stream_lines reads fin heof

open SJ.StreamDocs in
/-- Hence: if every chunk is either blank (contributes nothing — D7) or accepted by the per-line grammar with documents
    `vss[i]`, the stream as a whole is the NDJSON text with documents `vss.flatten`; one rejected chunk rejects the
    stream. -/
theorem C09_stream_documents (reads : List (List UInt8)) (fin : SJ.Stream.Fin) (heof : (SJ.Stream.run reads fin).2 = .eof)
    (vss : List (List Spec.JVal)) (hlen : (SJ.Stream.run reads fin).1.length = vss.length)
    (hdoc : ∀ i (hi : i < (SJ.Stream.run reads fin).1.length),
      (lines (SJ.Stream.run reads fin).1[i] = [] ∧ vss[i] = []) ∨ Spec.ndText (SJ.Stream.run reads fin).1[i] = .accept (.arr vss[i]))
    (hne : ∃ c ∈ (SJ.Stream.run reads fin).1, lines c ≠ []) :
    Spec.ndText reads.flatten = .accept (.arr vss.flatten) := stream_documents reads fin heof vss hlen hdoc hne

open SJ.StreamDocs in
/-- when the reader fails, the lines delivered so far are a prefix of the stream's lines -/
theorem C09_stream_prefix (reads : List (List UInt8)) (fin : SJ.Stream.Fin)
    (hall : ∀ c ∈ (SJ.Stream.run reads fin).1, c.getLast? = some 10) :
    ∃ tail, lines reads.flatten = ((SJ.Stream.run reads fin).1.map lines).flatten ++ lines tail :=
  stream_lines_prefix reads fin hall

end SJ.Properties.C09
