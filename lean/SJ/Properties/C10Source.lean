import SJ.Properties.C10
import SJ.Proofs.SourceLevelA
import SJ.Proofs.SourceLevelD
import SJ.Proofs.SourceLevelE
import SJ.Proofs.SourceLevelI
set_option linter.unusedVariables false
/-
C10 — source level. The theorems of Properties/C10.lean composed with the source ties of DESIGN §6.3: each statement
below is about the MEANING OF THE REGENERATED GO SOURCE (`GoSem.runFun goFuns <tree> fuel ⟨store, tape⟩`), with no
function of the hand model in its conclusion. Proofs: SJ/Proofs/SourceLevelA.lean, SourceLevelB.lean.
-/
namespace SJ.Properties.C10

open SJ.Tables SJ.Generated SJ.GoSem SJ.Escape SJ.Layout SJ.WalkLayout SJ.MarshalExact SJ.RenderParse SJ.ParseDefs SJ.GoIter SJ.GoObject SJ.GoMarshal SJ.GoArrMarshal SJ.GoEscape in
/-- **Escaping at source level.** Run `escapeBytes(dst, src)` of `parsed_json.go` (as printed from /repo) on any
    destination and any source bytes: it returns `dst ++ esc` where an RFC 8259 unescape of `esc` gives exactly the source
    bytes back, and `esc` contains no raw control character.  Every fuel, every tape; the tape is untouched.  The tie has
    no hypothesis. -/
theorem C10_source_escape_roundtrip (dst src : Bytes) (fuel : Nat) (tape : Array UInt64) :
    ∃ esc st, runFun goFuns goescapeBytes fuel ⟨[("dst", .bytes dst), ("src", .bytes src)], tape⟩ =
        .ret st [.bytes (dst ++ esc)] ∧ st.tape = tape ∧
      unescape esc.toList = some src.toList ∧ ∀ c ∈ esc.toList, 0x20 ≤ c :=
  SJ.SourceLevelA.C10_source_escape_roundtrip dst src fuel tape

open SJ.Tables SJ.Generated SJ.GoSem SJ.Escape SJ.Layout SJ.WalkLayout SJ.MarshalExact SJ.RenderParse SJ.ParseDefs SJ.GoIter SJ.GoObject SJ.GoMarshal SJ.GoArrMarshal SJ.GoEscape in
/-- **MarshalJSON at source level.** On a tape that holds the located document `v` (`Ok pj v`, gaps of NOP entries
    anywhere) whose floats are all finite (`FloatsOk v`), with the receiver standing on `v` (`OnNode pj v i`), running
    `Iter.MarshalJSONBuffer(dst)` of `parsed_json.go` (as printed from /repo) returns `dst ++ renderJ (erase v)` — the
    canonical text of the abstract document, which depends on the document only — and a nil error; the tape is
    untouched.

    Tie hypotheses discharged: `i.cur < 2^63` (the cursor of `OnNode` holds a 56-bit payload) and `0 ≤ i.addNext`
    (only needed to exclude divergence of the model, which `C10_marshal_exact` excludes by computing the result).
    Kept: `BufOK pj` (the two shared buffers have Go-`int` lengths — true of every Go slice, but `Ok` speaks about the
    bytes the strings of `v` read, not about the buffers' total size) and `i.lim ≤ len(tape)` (`OnNode` bounds the view
    from below only, `v.fin ≤ i.lim`; every iterator the library builds has its view inside the tape).  `F` is the
    interpreter's loop budget. -/
theorem C10_source_marshal_exact (pj : PJ) (v : LVal) (i : Iter) (dst : Bytes) (hok : Ok pj v) (hf : FloatsOk v)
    (hon : OnNode pj v i) (hb : BufOK pj) (hl : i.lim ≤ pj.tape.size) (F : Nat)
    (hF : 2 * pj.tape.size + i.lim + 25 ≤ F) :
    ValAt pj (erase v) v.pos v.fin ∧
    ∃ st, runFun goFuns goIter_MarshalJSONBuffer F ⟨initEnv pj i dst, pj.tape⟩ =
        .ret st [.bytes (dst ++ renderJ (erase v)), .bool false] ∧ st.tape = pj.tape :=
  SJ.SourceLevelA.C10_source_marshal_exact pj v i dst hok hf hon hb hl F hF

open SJ.Tables SJ.Generated SJ.GoSem SJ.Escape SJ.Layout SJ.WalkLayout SJ.MarshalExact SJ.RenderParse SJ.ParseDefs SJ.GoIter SJ.GoObject SJ.GoMarshal SJ.GoArrMarshal SJ.GoEscape in
/-- … and when `v` contains a float without JSON text (NaN, ±Inf — which no parse produces) the Go
    `Iter.MarshalJSONBuffer` returns a non-nil error, never malformed text.  Same two hypotheses kept, for the same
    reasons. -/
theorem C10_source_marshal_error (pj : PJ) (v : LVal) (i : Iter) (dst : Bytes) (hok : Ok pj v) (hf : ¬ FloatsOk v)
    (hon : OnNode pj v i) (hb : BufOK pj) (hl : i.lim ≤ pj.tape.size) (F : Nat)
    (hF : 2 * pj.tape.size + i.lim + 25 ≤ F) :
    ∃ st x, runFun goFuns goIter_MarshalJSONBuffer F ⟨initEnv pj i dst, pj.tape⟩ = .ret st [x, .bool true] :=
  SJ.SourceLevelA.C10_source_marshal_error pj v i dst hok hf hon hb hl F hF

open SJ.Tables SJ.Generated SJ.GoSem SJ.Escape SJ.Layout SJ.WalkLayout SJ.MarshalExact SJ.RenderParse SJ.ParseDefs SJ.GoIter SJ.GoObject SJ.GoMarshal SJ.GoArrMarshal SJ.GoEscape in
/-- **What the Go `MarshalJSONBuffer` returns is valid JSON denoting the same document.** For a located container with
    well-formed UTF-8 strings and finite floats (`Clean`), the bytes `Iter.MarshalJSONBuffer(nil)` returns are accepted by
    the RFC grammar (`Spec.containerText`) as a document `v'` with the same nesting, member order, keys and strings, and
    numerically equal numbers (`SameDoc`). -/
theorem C10_source_marshal_reads_back (pj : PJ) (v : LVal) (i : Iter) (hok : Ok pj v) (hf : FloatsOk v)
    (hon : OnNode pj v i) (hc : Clean (erase v)) (hroot : IsRoot (erase v)) (hb : BufOK pj) (hl : i.lim ≤ pj.tape.size)
    (F : Nat) (hF : 2 * pj.tape.size + i.lim + 25 ≤ F) :
    ∃ txt v' st, runFun goFuns goIter_MarshalJSONBuffer F ⟨initEnv pj i #[], pj.tape⟩ =
        .ret st [.bytes txt, .bool false] ∧ st.tape = pj.tape ∧
      Spec.containerText txt.toList = .accept v' ∧ SameDoc (erase v) v' :=
  SJ.SourceLevelA.C10_source_marshal_reads_back pj v i hok hf hon hc hroot hb hl F hF

open SJ.Tables SJ.Generated SJ.GoSem SJ.Escape SJ.Layout SJ.WalkLayout SJ.MarshalExact SJ.RenderParse SJ.ParseDefs SJ.GoIter SJ.GoObject SJ.GoMarshal SJ.GoArrMarshal SJ.GoEscape in
/-- **`Array.MarshalJSONBuffer` at source level**: on a tape holding the located array `.arr p e es` with finite floats,
    the Go method run on the array's view (`off = p+1`, `lim = e`, what `Iter.Array` returns) returns `dst ++` the
    canonical text of the array and nil.  The tie's `v.lim ≤ len(tape)` is discharged (the closing bracket of an `Ok` array
    is a word of the tape); `BufOK` is kept as above. -/
theorem C10_source_array_marshal_exact (pj : PJ) (p e : Nat) (es : LVals) (dst : Bytes) (hok : Ok pj (.arr p e es))
    (hf : FloatsOk (.arr p e es)) (hb : BufOK pj) (F : Nat) (hF : 4 * pj.tape.size + e + 42 ≤ F) :
    ∃ st, runFun goFuns goArray_MarshalJSONBuffer F ⟨arrEnv pj { lim := e, off := p + 1 } dst, pj.tape⟩ =
        .ret st [.bytes (dst ++ renderJ (erase (.arr p e es))), .bool false] ∧ st.tape = pj.tape :=
  SJ.SourceLevelA.C10_source_array_marshal_exact pj p e es dst hok hf hb F hF

open SJ.Generated SJ.GoSem SJ.GoIter SJ.Layout SJ.SourceLevelD SJ.WalkLayout SJ.MarshalExact SJ.RenderParse SJ.GoObject SJ.GoMarshal SJ.ParseDefs in
/-- **The root iterator prints all roots, source level** (`C10_marshal_roots` on the source).  If the tape holds the located
    root values `v :: vs` (root entries one after the other, gaps allowed anywhere) and all their floats are finite, then
    running the regenerated `Iter.MarshalJSONBuffer(dst)` from the iterator `ParsedJson.Iter()` builds (`Iter.ofPJ`: view =
    the whole tape, offset 0) returns `dst ++` the canonical texts of the root values, in order, separated by newlines
    (`renderJRoots`: a function of the abstract documents only), and `nil`; the tape is untouched.
    Discharged: the view premise (`lim = len(tape)`), `cur < 2^63` (`cur = 0`), non-divergence of the model (the property
    computes the result).  Remaining: `BufOK pj` (Go `int` buffer lengths; `OkRoots` does not bound the buffers' total size)
    and the interpreter's loop budget. -/
theorem C10_source_roots_marshal_all (pj : PJ) (v : LVal) (vs : List LVal) (dst : Bytes) (h : OkRoots pj (v :: vs) 0)
    (hfs : ∀ x ∈ v :: vs, FloatsOk x) (hb : BufOK pj) (F : Nat) (hF : 3 * pj.tape.size + 25 ≤ F) :
    ∃ st, runFun goFuns goIter_MarshalJSONBuffer F ⟨initEnv pj (Iter.ofPJ pj) dst, pj.tape⟩ =
        .ret st [.bytes (dst ++ renderJRoots ((v :: vs).map erase)), .bool false] ∧ st.tape = pj.tape :=
  SJ.SourceLevelD.C10_source_roots_marshal_all pj v vs dst h hfs hb F hF

open SJ.Generated SJ.GoSem SJ.GoIter SJ.Layout SJ.SourceLevelD SJ.WalkLayout SJ.MarshalExact SJ.RenderParse SJ.GoObject SJ.GoMarshal SJ.ParseDefs in
/-- **`ForEach` hands out the roots and each prints its own document, source level** (`C02_source_forEach` ∘
    `C10_source_marshal_exact`).  If the tape holds the located root values `vs` with finite floats, then running the
    regenerated `ParsedJson.ForEach` (callback always answering `nil`) returns `nil`, leaves the tape alone, and the log of
    what the callback was handed is the encoding of exactly one iterator per root value, in order (`Forall2`); each such
    iterator stands on its value (`RootIter`), and running the regenerated `Iter.MarshalJSONBuffer(dst)` from it returns, for
    every `dst`, `dst ++ renderJ (erase v)` — the canonical text of that root value — and `nil`.
    Discharged: for every handed-out iterator the marshal tie's `OnNode`, view-inside-the-tape (`RootIter` says so) and
    `cur < 2^63`.  Remaining: `BufOK pj`, the answers queue (`N ≥ len(tape)`) and fuel `3·len(tape) + 25`. -/
theorem C10_source_roots_marshal (pj : PJ) (vs : List LVal) (h : OkRoots pj vs 0) (hfs : ∀ x ∈ vs, FloatsOk x)
    (hb : BufOK pj) (N F : Nat) (hN : pj.tape.size ≤ N) (hF : 3 * pj.tape.size + 25 ≤ F) :
    ∃ s its, runFun goFuns goParsedJson_ForEach F ⟨GoPJForEach.feStore pj (List.replicate N false), pj.tape⟩ =
        .ret s [.bool false] ∧
      s.tape = pj.tape ∧ GoPJForEach.logOf s.env = GoPJForEach.encIters its ∧
      Forall2 (fun v it => RootIter pj v it ∧
        ∀ dst : Bytes, ∃ st, runFun goFuns goIter_MarshalJSONBuffer F ⟨initEnv pj it dst, pj.tape⟩ =
          .ret st [.bytes (dst ++ renderJ (erase v)), .bool false] ∧ st.tape = pj.tape) vs its :=
  SJ.SourceLevelD.C10_source_roots_marshal pj vs h hfs hb N F hN hF

open SJ.Generated SJ.GoSem SJ.GoIter SJ.Layout SJ.SourceLevelD SJ.WalkLayout SJ.MarshalExact SJ.RenderParse SJ.GoObject SJ.GoMarshal SJ.ParseDefs in
/-- **… and the text the root iterator returns is ND-JSON for the same documents** (`C10_roots_roundtrip` on what the source
    returns).  If moreover every root value is a container with well-formed UTF-8 strings and finite floats (`Clean`,
    `IsRoot`), the bytes `pj.Iter().MarshalJSONBuffer(nil)` returns are accepted by the per-line grammar `Spec.ndText` as the
    same documents in order (`RootsRel NumSame`: same nesting, member order, keys, strings, numerically equal numbers); and
    when no document contains `-0.0` re-rendering what the grammar read is a fixed point. -/
theorem C10_source_roots_read_back (pj : PJ) (v : LVal) (vs : List LVal) (h : OkRoots pj (v :: vs) 0)
    (hfs : ∀ x ∈ v :: vs, FloatsOk x) (hc : ∀ x ∈ (v :: vs).map erase, Clean x ∧ IsRoot x) (hb : BufOK pj) (F : Nat)
    (hF : 3 * pj.tape.size + 25 ≤ F) :
    ∃ txt st, runFun goFuns goIter_MarshalJSONBuffer F ⟨initEnv pj (Iter.ofPJ pj) #[], pj.tape⟩ =
        .ret st [.bytes txt, .bool false] ∧ st.tape = pj.tape ∧
      (∃ l, Spec.ndText txt.toList = .accept (.arr l) ∧ RootsRel NumSame ((v :: vs).map erase) l) ∧
      ((∀ x ∈ (v :: vs).map erase, NoNegZero x) →
        ∃ l, Spec.ndText txt.toList = .accept (.arr l) ∧ renderJRoots (l.map ofSpec) = txt) :=
  SJ.SourceLevelD.C10_source_roots_read_back pj v vs h hfs hc hb F hF

open SJ.Generated SJ.GoSem SJ.GoIter SJ.GoObject SJ.Layout SJ.GoWrappers SJ.GoElems SJ.SourceLevelE SJ.Tables SJ.WalkLayout SJ.Lookup in
/-- **`Elements.MarshalJSON()` is `View.elemsMarshal`** (the hand model IS the nil-destination version): all of
    `GoElems.elems_tie` at `dst = nil`, on the store without `dst` (`elemsEnv0`: the receiver's three lists = `encElems es`,
    ANY index, the two buffers), with one more unit of fuel for the call.  For elements whose iterators are views of the
    tape with `cur < 2^63`, wherever the model's inner fuel (`fuelOf pj`, in `Iter.marshalBuf`) suffices:
    model `.ok out` ⇔ the wrapper returns `(out, nil)`, tape unchanged; model `.error _` ⇔ `(nil, err)`;
    model `.panic` ⇔ panic; the interpreter is neither out of fuel nor stuck; in every returning case the caller's five
    receiver variables read as before (by-value receiver, through `callFun`'s copy-back).
    Hypotheses: those of `elems_tie` (`BufOK`: Go `int` buffer lengths; `lim ≤ len(tape)`: views of the tape;
    `cur < 2^63`: the inherited difference of `Iter.MarshalJSONBuffer`, hand-made values only; `≠ .diverge`: the model's own
    fuel) — nothing is added but the unit of fuel. -/
theorem C10_source_elementsMarshalJSON_wrapper (pj : PJ) (hb : BufOK pj) (es : Array View.Elem)
    (hes : ∀ x ∈ es, x.iter.lim ≤ pj.tape.size ∧ x.iter.cur.toNat < 2^63) (idx : List Bytes × List Int)
    (F : Nat) (hF : elemsFuel pj es + 1 ≤ F) (hnd : View.elemsMarshal pj es ≠ .diverge) :
    (∀ out, View.elemsMarshal pj es = .ok out ↔
      ∃ s, runFun goFuns goElements_MarshalJSON F ⟨elemsEnv0 pj es idx, pj.tape⟩ = .ret s [.bytes out, .bool false] ∧
        s.tape = pj.tape ∧ ∀ key ∈ eVars, s.env.get key = (elemsEnv0 pj es idx).get key) ∧
    ((∃ er, View.elemsMarshal pj es = .error er) ↔
      ∃ s, runFun goFuns goElements_MarshalJSON F ⟨elemsEnv0 pj es idx, pj.tape⟩ = .ret s [.bytes #[], .bool true] ∧
        ∀ key ∈ eVars, s.env.get key = (elemsEnv0 pj es idx).get key) ∧
    (View.elemsMarshal pj es = .panic ↔
      runFun goFuns goElements_MarshalJSON F ⟨elemsEnv0 pj es idx, pj.tape⟩ = .panic) ∧
    runFun goFuns goElements_MarshalJSON F ⟨elemsEnv0 pj es idx, pj.tape⟩ ≠ .diverge ∧
    (∀ w, runFun goFuns goElements_MarshalJSON F ⟨elemsEnv0 pj es idx, pj.tape⟩ ≠ .stuck w) :=
  SJ.SourceLevelE.elementsMarshalJSON_sim pj hb es hes idx F hF hnd

open SJ.Generated SJ.GoSem SJ.GoIter SJ.GoObject SJ.Layout SJ.GoWrappers SJ.GoElems SJ.SourceLevelE SJ.Tables SJ.WalkLayout SJ.Lookup SJ.MarshalExact in
/-- **`Object.Parse` then `Elements.MarshalJSONBuffer`, source level** (`C12_source_parse` ∘ `C10_array_elements_agree` ∘
    `GoElems.elems_tie`).  On a tape that holds the located object `.obj p e ms` with finite floats (gaps anywhere except
    between a key and its value: `TightTop`), running `o.Parse(dst)` of `parsed_object.go` on the object's view from any store
    binding the receiver, the flag `dst == nil` and the buffers returns `(dst, nil)`, tape untouched; and then running
    `Elements.MarshalJSONBuffer(buf)` on ANY store `e1` whose receiver lists `e.Elements.{Name,Type,Iter}` read what `Parse`
    left in `dst.Elements.{Name,Type,Iter}` (the value `*dst` passed as the by-value receiver; `e.Index` may hold anything:
    never read), with `buf` and the two buffers, returns `buf ++ renderJ (erase (.obj p e ms))` — `buf` followed by the
    canonical text of the object, which depends on the abstract document only: all members in tape order, duplicates included,
    NOP gaps invisible — and `nil`; the tape is untouched.
    Discharged: all hypotheses of the marshal tie about the elements (`lim ≤ len(tape)`, `cur < 2^63`: `Parse` stores views of
    the tape and 56-bit payloads), non-divergence of the model (the property computes the result), `v.lim ≤ len(tape)`, the
    model fuel.  Kept: `TightTop ms`, `FloatsOk` (a NaN/±Inf float has no JSON text: the marshal then returns an error),
    `BufOK pj` (Go `int` buffer lengths), the interpreter's budgets `e - p + 4` and `4·len(tape) + 30`. -/
theorem C10_source_elements_marshal (pj : PJ) (p e : Nat) (ms : LMems) (hok : Ok pj (.obj p e ms)) (ht : TightTop ms)
    (hf : FloatsOk (.obj p e ms)) (hb : BufOK pj) (b : Bool) (e0 : Env)
    (hv : viewAt e0 "o" = some { lim := e, off := p + 1 }) (hN : e0.get "dst==nil" = some (.bool b))
    (hS : e0.get "Strings.B" = some (.bytes pj.strings)) (hM : e0.get "Message" = some (.bytes pj.msg))
    (F : Nat) (hF : e - p + 4 ≤ F) :
    ∃ s, runFun goFuns goObject_Parse F ⟨e0, pj.tape⟩ = .ret s [.bool true, .bool false] ∧ s.tape = pj.tape ∧
      ∀ (e1 : Env) (buf : Bytes) (G : Nat),
        e1.get "e.Elements.Name" = s.env.get "dst.Elements.Name" →
        e1.get "e.Elements.Type" = s.env.get "dst.Elements.Type" →
        e1.get "e.Elements.Iter" = s.env.get "dst.Elements.Iter" →
        e1.get "dst" = some (.bytes buf) → e1.get "Strings.B" = some (.bytes pj.strings) →
        e1.get "Message" = some (.bytes pj.msg) → 4 * pj.tape.size + 30 ≤ G →
        ∃ st, runFun goFuns goElements_MarshalJSONBuffer G ⟨e1, pj.tape⟩ =
            .ret st [.bytes (buf ++ renderJ (erase (.obj p e ms))), .bool false] ∧ st.tape = pj.tape :=
  SJ.SourceLevelE.C10_source_elements_marshal pj p e ms hok ht hf hb b e0 hv hN hS hM F hF

open SJ.Generated SJ.GoSem SJ.GoIter SJ.GoObject SJ.Layout SJ.GoWrappers SJ.GoElems SJ.SourceLevelE SJ.Tables SJ.WalkLayout SJ.Lookup SJ.MarshalExact in
/-- **… and `Elements.MarshalJSON()` on the parsed elements returns the canonical text of the object, source level**
    (`elementsMarshalJSON_sim` ∘ the same property).  The store is the conventional one of the wrapper (`elemsEnv0`): the
    receiver's three lists hold the members' elements — `encElems (memElems pj ms)`, written out by `encElems_members`, exactly
    what `C12_source_parse` says `Parse` leaves — ANY index, and the two buffers.  One more unit of fuel for the call. -/
theorem C10_source_elements_marshalJSON (pj : PJ) (p e : Nat) (ms : LMems) (hok : Ok pj (.obj p e ms)) (ht : TightTop ms)
    (hf : FloatsOk (.obj p e ms)) (hb : BufOK pj) (idx : List Bytes × List Int) (G : Nat)
    (hG : 4 * pj.tape.size + 31 ≤ G) :
    ∃ st, runFun goFuns goElements_MarshalJSON G ⟨elemsEnv0 pj (memElems pj ms) idx, pj.tape⟩ =
        .ret st [.bytes (renderJ (erase (.obj p e ms))), .bool false] ∧ st.tape = pj.tape :=
  SJ.SourceLevelE.C10_source_elements_marshalJSON pj p e ms hok ht hf hb idx G hG

open SJ SJ.Generated SJ.GoSem SJ.GoIter SJ.GoObject SJ.Layout SJ.WalkLayout SJ.ParseDefs SJ.MarshalExact SJ.GoMarshal SJ.SourceLevelI SJ.TrimEdge SJ.GoPJForEach in
/-- **Parse, then `MarshalJSONBuffer`, source level (E1).**  ASSUMED: the trimmed input is shorter than 2^50 bytes (`SizeOK`)
    and the parser model (`Parse` or `ParseND`, either string mode) returns the tape `pj`.  CONCLUDED: the tape holds located,
    tight root values `lvs` (erased: the document the reference decoder reads off the tape), and for every root value
    `lv ∈ lvs`, every iterator `it` standing on it with its view inside the tape (`RootIter pj lv it`), every destination
    `dst` and every interpreter fuel `F ≥ 9·n + 31` (`n` = length of the trimmed input), running the regenerated
    `Iter.MarshalJSONBuffer(dst)` returns `dst ++ renderJ (erase lv)` — the canonical text of that root value, a function
    of the abstract document only — and a nil error; the tape is untouched.
    Discharged from the parser facts: `BufOK pj` (`parse_side_conditions`), `FloatsOk lv` (`parse_doc`: the parser writes
    finite floats only), the tie's fuel `2·len(tape) + lim + 25 ≤ 9·n + 31`.  Nothing about the tape remains as a
    hypothesis. -/
theorem C10_source_parse_then_marshal (cfg : Cfg) (nd : Bool) (input : Bytes) (pj : PJ) (hsz : SizeOK (trimSpace input))
    (h : parseAny cfg nd input = .ok pj) :
    ∃ lvs : List LVal, OkRoots pj lvs 0 ∧ (∀ v ∈ lvs, Tight v) ∧
      decodeTapeD pj = some ((lvs.map erase).map DecodeSound.toOVal) ∧
      ∀ lv ∈ lvs, ∀ it : Iter, RootIter pj lv it → ∀ (dst : Bytes) (F : Nat), 9 * (trimSpace input).size + 31 ≤ F →
        ∃ st, runFun goFuns goIter_MarshalJSONBuffer F ⟨initEnv pj it dst, pj.tape⟩ =
          .ret st [.bytes (dst ++ renderJ (erase lv)), .bool false] ∧ st.tape = pj.tape :=
  SJ.SourceLevelI.parse_then_marshal_source cfg nd input pj hsz h

end SJ.Properties.C10
