import SJ.Proofs.Facts
import SJ.Proofs.Edit
/-
C13 — In-place replacement changes exactly the addressed value.
-/
namespace SJ.Properties.C13
open SJ SJ.Generated

/-- The type gates of the Set* functions (extracted from the source's `switch i.t` statements, which the model
    reads directly) are exactly what their documentation promises. -/
theorem C13_number_gates :
    [swSetFloat, swSetInt, swSetUInt, swSetStringBytes].all
      (fun sw => match sw with | [[l]] => Facts.sameMembers l Facts.scalarNumStr | _ => false) = true := Facts.set_number_gates
theorem C13_bool_gate : swSetBool = [[[cTagBoolTrue, cTagBoolFalse, cTagNull]]] := Facts.set_bool_gate
/-- SetNull accepts bool/null, string and numbers, objects and arrays — and, beyond its documentation, root
    entries (known finding D10: kept because upstream's test TestIter_SetNull_ObjArr/3 expects it). End tags and
    everything else are refused. -/
theorem C13_null_gates_partial :
    swSetNull = [[[cTagBoolTrue, cTagBoolFalse, cTagNull], [cTagString, cTagFloat, cTagInteger, cTagUint],
                  [cTagObjectStart, cTagArrayStart, cTagRoot], [256]]] := Facts.set_null_gates

open SJ.Layout

/-- **Replacement changes exactly the addressed value.** For every located document `v` held by the tape (any
    depth, any gaps from earlier edits), every two-word scalar node at `q`, every iterator positioned on it whose
    tag passes the gate: the call succeeds, and the new tape holds `v` with exactly that node replaced — siblings,
    keys, order and nesting untouched (they are the same tree). -/
theorem C13_setInt (pj : PJ) (v : LVal) (hok : Ok pj v) (q : Nat) (hnode : HasNode q (q + 2) v) (i : Iter)
    (hoff : i.off = q + 1) (ht : inCase (caseOf swSetInt 0) i.t = true) (z : Int) :
    ∃ pj' i', i.setInt pj z = .ok (pj', i') ∧ Ok pj' (substV q (.int (ofInt64 z) q) v) ∧
      pj'.strings = pj.strings ∧ pj'.msg = pj.msg ∧ pj'.tape.size = pj.tape.size := setInt_doc pj v hok q hnode i hoff ht z
theorem C13_setUInt (pj : PJ) (v : LVal) (hok : Ok pj v) (q : Nat) (hnode : HasNode q (q + 2) v) (i : Iter)
    (hoff : i.off = q + 1) (ht : inCase (caseOf swSetUInt 0) i.t = true) (z : UInt64) :
    ∃ pj' i', i.setUInt pj z = .ok (pj', i') ∧ Ok pj' (substV q (.uint z q) v) ∧
      pj'.strings = pj.strings ∧ pj'.msg = pj.msg ∧ pj'.tape.size = pj.tape.size := setUInt_doc pj v hok q hnode i hoff ht z
theorem C13_setFloat (pj : PJ) (v : LVal) (hok : Ok pj v) (q : Nat) (hnode : HasNode q (q + 2) v) (i : Iter)
    (hoff : i.off = q + 1) (ht : inCase (caseOf swSetFloat 0) i.t = true) (bits : UInt64) :
    ∃ pj' i', i.setFloat pj bits = .ok (pj', i') ∧ Ok pj' (substV q (.float bits 0 q) v) ∧
      pj'.strings = pj.strings ∧ pj'.msg = pj.msg ∧ pj'.tape.size = pj.tape.size := setFloat_doc pj v hok q hnode i hoff ht bits
theorem C13_setBool (pj : PJ) (v : LVal) (hok : Ok pj v) (q : Nat) (hnode : HasNode q (q + 1) v) (i : Iter)
    (hoff : i.off = q + 1) (ht : inCase (caseOf swSetBool 0) i.t = true) (b : Bool) :
    ∃ pj' i', i.setBool pj b = .ok (pj', i') ∧ Ok pj' (substV q (.bool b q) v) ∧
      pj'.strings = pj.strings ∧ pj'.msg = pj.msg ∧ pj'.tape.size = pj.tape.size := setBool_doc pj v hok q hnode i hoff ht b
theorem C13_setNull_scalar (pj : PJ) (v : LVal) (hok : Ok pj v) (q : Nat) (hnode : HasNode q (q + 2) v) (i : Iter)
    (hoff : i.off = q + 1) (ht0 : inCase (caseOf swSetNull 0) i.t = false) (ht : inCase (caseOf swSetNull 1) i.t = true) :
    ∃ pj' i', i.setNull pj = .ok (pj', i') ∧ Ok pj' (substV q (.null q) v) ∧
      pj'.strings = pj.strings ∧ pj'.msg = pj.msg ∧ pj'.tape.size = pj.tape.size := setNull_scalar_doc pj v hok q hnode i hoff ht0 ht
/-- A disallowed call returns an error; the model being functional, there is no new tape. -/
theorem C13_gate_int (pj : PJ) (i : Iter) (z : Int) (ht : inCase (caseOf swSetInt 0) i.t = false) :
    i.setInt pj z = .error .generic := setInt_gate pj i z ht
theorem C13_gate_bool (pj : PJ) (i : Iter) (b : Bool) (ht : inCase (caseOf swSetBool 0) i.t = false) :
    i.setBool pj b = .error .generic := setBool_gate pj i b ht
theorem C13_gate_null (pj : PJ) (i : Iter) (h0 : inCase (caseOf swSetNull 0) i.t = false)
    (h1 : inCase (caseOf swSetNull 1) i.t = false) (h2 : inCase (caseOf swSetNull 2) i.t = false) :
    i.setNull pj = .error .generic := setNull_gate pj i h0 h1 h2
/-- the located relation means what Layout says: the tape region is exactly the encoding of the erased document -/
theorem C13_located_sound (pj : PJ) (v : LVal) (h : Ok pj v) : ValAt pj (erase v) v.pos v.fin := ok_valAt pj v h

end SJ.Properties.C13
