import SJ.Proofs.Facts
import SJ.Proofs.EditHistory
import SJ.Proofs.Edit
import SJ.Proofs.EditString
import SJ.Proofs.Bridge
import SJ.Proofs.GoSet
/-
C13 — In-place replacement changes exactly the addressed value.
-/
namespace SJ.Properties.C13
open SJ SJ.Generated

/-- The type gates of the Set* functions (extracted from the source's `switch i.t` statements, which the model
    reads directly) are exactly what their documentation promises. -/
theorem C13_number_gates :
    [swSetFloat, swSetInt, swSetUInt, swSetStringBytes].all
      (fun sw => match sw with | [[l]] => Facts.sameMembers l Facts.scalarNumStr | _ => false) = true := Facts.set_number_gates
theorem C13_bool_gate : swSetBool = [[[cTagBoolTrue, cTagBoolFalse, cTagNull]]] := Facts.set_bool_gate
/-- SetNull accepts bool/null, string and numbers, objects and arrays — and, beyond its documentation, root
    entries (known finding D10: kept because upstream's test TestIter_SetNull_ObjArr/3 expects it). End tags and
    everything else are refused. -/
theorem C13_null_gates_partial :
    swSetNull = [[[cTagBoolTrue, cTagBoolFalse, cTagNull], [cTagString, cTagFloat, cTagInteger, cTagUint],
                  [cTagObjectStart, cTagArrayStart, cTagRoot], [256]]] := Facts.set_null_gates

open SJ.Layout

/-- **Replacement changes exactly the addressed value.** For every located document `v` held by the tape (any
    depth, any gaps from earlier edits), every two-word scalar node at `q`, every iterator positioned on it whose
    tag passes the gate and whose view contains the value (`hview`: Go checks `i.tape.Tape[k]` against the length
    `lim` of the iterator's view; `off < lim` for a two-word value, `off ≤ lim` for a one-word value — every view the
    API makes ends at an element boundary, so an iterator standing on a value has it): the call succeeds, and the new
    tape holds `v` with exactly that node replaced — siblings, keys, order and nesting untouched (they are the same
    tree). -/
theorem C13_setInt (pj : PJ) (v : LVal) (hok : Ok pj v) (q : Nat) (hnode : HasNode q (q + 2) v) (i : Iter)
    (hoff : i.off = q + 1) (hview : i.off < i.lim) (ht : inCase (caseOf swSetInt 0) i.t = true) (z : Int) :
    ∃ pj' i', i.setInt pj z = .ok (pj', i') ∧ Ok pj' (substV q (.int (ofInt64 z) q) v) ∧
      pj'.strings = pj.strings ∧ pj'.msg = pj.msg ∧ pj'.tape.size = pj.tape.size := setInt_doc pj v hok q hnode i hoff hview ht z
theorem C13_setUInt (pj : PJ) (v : LVal) (hok : Ok pj v) (q : Nat) (hnode : HasNode q (q + 2) v) (i : Iter)
    (hoff : i.off = q + 1) (hview : i.off < i.lim) (ht : inCase (caseOf swSetUInt 0) i.t = true) (z : UInt64) :
    ∃ pj' i', i.setUInt pj z = .ok (pj', i') ∧ Ok pj' (substV q (.uint z q) v) ∧
      pj'.strings = pj.strings ∧ pj'.msg = pj.msg ∧ pj'.tape.size = pj.tape.size := setUInt_doc pj v hok q hnode i hoff hview ht z
theorem C13_setFloat (pj : PJ) (v : LVal) (hok : Ok pj v) (q : Nat) (hnode : HasNode q (q + 2) v) (i : Iter)
    (hoff : i.off = q + 1) (hview : i.off < i.lim) (ht : inCase (caseOf swSetFloat 0) i.t = true) (bits : UInt64) :
    ∃ pj' i', i.setFloat pj bits = .ok (pj', i') ∧ Ok pj' (substV q (.float bits 0 q) v) ∧
      pj'.strings = pj.strings ∧ pj'.msg = pj.msg ∧ pj'.tape.size = pj.tape.size := setFloat_doc pj v hok q hnode i hoff hview ht bits
theorem C13_setBool (pj : PJ) (v : LVal) (hok : Ok pj v) (q : Nat) (hnode : HasNode q (q + 1) v) (i : Iter)
    (hoff : i.off = q + 1) (hview : i.off ≤ i.lim) (ht : inCase (caseOf swSetBool 0) i.t = true) (b : Bool) :
    ∃ pj' i', i.setBool pj b = .ok (pj', i') ∧ Ok pj' (substV q (.bool b q) v) ∧
      pj'.strings = pj.strings ∧ pj'.msg = pj.msg ∧ pj'.tape.size = pj.tape.size := setBool_doc pj v hok q hnode i hoff hview ht b
theorem C13_setNull_scalar (pj : PJ) (v : LVal) (hok : Ok pj v) (q : Nat) (hnode : HasNode q (q + 2) v) (i : Iter)
    (hoff : i.off = q + 1) (hview : i.off < i.lim) (ht0 : inCase (caseOf swSetNull 0) i.t = false) (ht : inCase (caseOf swSetNull 1) i.t = true) :
    ∃ pj' i', i.setNull pj = .ok (pj', i') ∧ Ok pj' (substV q (.null q) v) ∧
      pj'.strings = pj.strings ∧ pj'.msg = pj.msg ∧ pj'.tape.size = pj.tape.size := setNull_scalar_doc pj v hok q hnode i hoff hview ht0 ht
/-- A disallowed call returns an error; the model being functional, there is no new tape. -/
theorem C13_gate_int (pj : PJ) (i : Iter) (z : Int) (ht : inCase (caseOf swSetInt 0) i.t = false) :
    i.setInt pj z = .error .generic := setInt_gate pj i z ht
theorem C13_gate_bool (pj : PJ) (i : Iter) (b : Bool) (ht : inCase (caseOf swSetBool 0) i.t = false) :
    i.setBool pj b = .error .generic := setBool_gate pj i b ht
theorem C13_gate_null (pj : PJ) (i : Iter) (h0 : inCase (caseOf swSetNull 0) i.t = false)
    (h1 : inCase (caseOf swSetNull 1) i.t = false) (h2 : inCase (caseOf swSetNull 2) i.t = false) :
    i.setNull pj = .error .generic := setNull_gate pj i h0 h1 h2
/-- **SetString / SetStringBytes**: the two words of the addressed scalar are rewritten, the bytes appended to the
    string buffer; the tape then holds the document with exactly that value replaced — every other string,
    wherever stored and however shared (after a Deserialize equal strings share one stretch of `Message`),
    reads as before. -/
theorem C13_setString (pj : PJ) (v : LVal) (hok : Ok pj v) (q : Nat) (hnode : HasNode q (q + 2) v) (i : Iter)
    (hoff : i.off = q + 1) (hview : i.off < i.lim) (ht : inCase (caseOf swSetStringBytes 0) i.t = true) (sv : Bytes)
    (hsmall : pj.strings.size + sv.size < 2^55) :
    ∃ pj' i', i.setStringBytes pj sv = .ok (pj', i') ∧ Ok pj' (substV q (.str sv.toList q) v) ∧
      pj'.strings = pj.strings ++ sv ∧ pj'.msg = pj.msg ∧ pj'.tape.size = pj.tape.size :=
  setString_doc pj v hok q hnode i hoff hview ht sv hsmall
theorem C13_gate_string (pj : PJ) (i : Iter) (s : Bytes) (ht : inCase (caseOf swSetStringBytes 0) i.t = false) :
    i.setStringBytes pj s = .error .generic := setString_gate pj i s ht

/-- **… and every reader then sees exactly that.** After `SetInt` (the same composition holds for each `Set*`
    above), any iterator standing on the document in the new tape reads back the document with that one value
    replaced. -/
theorem C13_setInt_then_read (pj : PJ) (v : LVal) (hok : Ok pj v) (htight : WalkLayout.Tight v) (q : Nat)
    (hnode : HasNode q (q + 2) v) (i : Iter) (hoff : i.off = q + 1) (hview : i.off < i.lim)
    (ht : inCase (caseOf swSetInt 0) i.t = true) (z : Int) :
    ∃ pj' i', i.setInt pj z = .ok (pj', i') ∧
      ∀ (j : Iter) (fuel : Nat), WalkLayout.OnNode pj' (substV q (.int (ofInt64 z) q) v) j → 2 * (j.lim - j.off) + 2 < fuel →
        owalkValue pj' j fuel = .ok (WalkLayout.toOVal (substV q (.int (ofInt64 z) q) v)) := by
  obtain ⟨pj', i', h1, h2, _⟩ := setInt_doc pj v hok q hnode i hoff hview ht z
  exact ⟨pj', i', h1, fun j fuel hon hf =>
    WalkLayout.owalkValue_node pj' _ j fuel h2 (WalkLayout.subst_tight q _ rfl (by simp [WalkLayout.Tight]) v htight) hon hf⟩

/-- the located relation means what Layout says: the tape region is exactly the encoding of the erased document -/
theorem C13_located_sound (pj : PJ) (v : LVal) (h : Ok pj v) : ValAt pj (erase v) v.pos v.fin := ok_valAt pj v h


open SJ.EditHistory SJ.WalkLayout in
/-- **Any sequence of replacements.** `ops` is any list of `SetInt / SetUInt / SetFloat / SetBool / SetNull / SetString`
    calls, each addressed to a value position and valid *in the document as it is when the call is made* (`ValidSeq`: the
    node exists, the gate admits its tag; a container nulled earlier takes its inner positions with it). Then every
    call succeeds and the final tape holds the original document with exactly those replacements applied in order
    (`absOps`: a fold of node substitutions) — still tight, same `Message`, same tape length, string buffer extended by
    exactly the bytes of the `SetString` calls. -/
theorem C13_history (ops : List EOp) (pj : PJ) (v : LVal) (hok : Ok pj v) (ht : Tight v) (hv : ValidSeq pj v ops) :
    ∃ pj', applyOps pj ops = .ok pj' ∧ Ok pj' (absOps v ops) ∧ Tight (absOps v ops) ∧ pj'.msg = pj.msg ∧
      pj'.tape.size = pj.tape.size ∧ pj'.strings = pj.strings ++ appendedAll ops := history ops pj v hok ht hv

open SJ.EditHistory SJ.WalkLayout in
/-- … and the traversal API then reads back exactly that document. -/
theorem C13_history_readback (ops : List EOp) (pj : PJ) (v : LVal) (hok : Ok pj v) (ht : Tight v) (hv : ValidSeq pj v ops) :
    ∃ pj', applyOps pj ops = .ok pj' ∧
      owalkValue pj' (iterOn pj' v.pos) (fuelOf pj') = .ok (toOVal (absOps v ops)) :=
  history_readback_iterOn ops pj v hok ht hv

open SJ.EditHistory SJ.WalkLayout in
/-- **A disallowed call, at any point of a history, returns an error and changes nothing**: the tape reached so far
    still holds the document reached so far. A call is refused exactly when its gate refuses the tag. -/
theorem C13_history_refused (ops : List EOp) (pj : PJ) (v : LVal) (hok : Ok pj v) (ht : Tight v)
    (hv : ValidSeq pj v ops) (op : EOp) (r : List EOp)
    (hg : ∀ pjm, applyOps pj ops = .ok pjm → gateOf op (tagAt pjm op.pos) = false) :
    ∃ pjm, applyOps pj ops = .ok pjm ∧ applyOp pjm op = .error .generic ∧ (∀ pj', applyOp pjm op ≠ .ok pj') ∧
      Ok pjm (absOps v ops) ∧ Tight (absOps v ops) ∧ pjm.msg = pj.msg ∧ pjm.tape.size = pj.tape.size ∧
      applyOps pj (ops ++ op :: r) = .error .generic := history_error_changes_nothing ops pj v hok ht hv op r hg

open SJ.EditHistory in
theorem C13_refused_iff_gate (pj : PJ) (op : EOp) (e : Err) :
    applyOp pj op = .error e ↔ gateOf op (tagAt pj op.pos) = false ∧ e = .generic := applyOp_error_iff pj op e

open SJ.GoSem SJ.GoIter SJ.GoSet in
/-- **The six `Set*` functions of the model are the meaning of their Go source.** `Generated.goIter_SetFloat` … `goIter_SetNull`,
    `goIter_SetStringBytes` are the syntax trees the translator prints from `parsed_json.go` on every run (the type gate
    `switch i.t`, the two tape writes through the iterator's *view* — an index beyond `len(i.tape.Tape)` panics —, the
    NOP-fill loop of `SetNull` on a container, the append to the shared string buffer, the updates of `i.t`/`i.cur`).
    For every document, every iterator whose view lies inside the tape and enough fuel for the fill loop, interpreting
    them gives exactly `Iter.setFloat` … of the hand model: `nil` with the same tape, string buffer and receiver; or a
    non-nil error with NOTHING changed, exactly when the model refuses; or a panic exactly when the model panics. So
    `C13_history` and the single-step theorems are about this source. (`SetNull` on a container compares `int(i.cur)`: the
    premise `cur < 2^63` holds for every 56-bit payload.) -/
theorem C13_set_follows_source (pj : PJ) (i : Iter) (hl : i.lim ≤ pj.tape.size) (fuel : Nat) :
    (∀ bits, SimSet pj i (runFun goFuns goIter_SetFloat fuel
        { env := envOf "i" i ++ [("Strings.B", .bytes pj.strings), ("v", .u64 bits)], tape := pj.tape })
      (i.setFloat pj bits)) ∧
    (∀ v, SimSet pj i (runFun goFuns goIter_SetInt fuel
        { env := envOf "i" i ++ [("Strings.B", .bytes pj.strings), ("v", .int v)], tape := pj.tape })
      (i.setInt pj v)) ∧
    (∀ v, SimSet pj i (runFun goFuns goIter_SetUInt fuel
        { env := envOf "i" i ++ [("Strings.B", .bytes pj.strings), ("v", .u64 v)], tape := pj.tape })
      (i.setUInt pj v)) ∧
    (∀ v, SimSet pj i (runFun goFuns goIter_SetStringBytes fuel
        { env := envOf "i" i ++ [("Strings.B", .bytes pj.strings), ("v", .bytes v)], tape := pj.tape })
      (i.setStringBytes pj v)) ∧
    (∀ v, SimSet pj i (runFun goFuns goIter_SetBool fuel
        { env := envOf "i" i ++ [("Strings.B", .bytes pj.strings), ("v", .bool v)], tape := pj.tape })
      (i.setBool pj v)) ∧
    ((i.t = tagObjectStart ∨ i.t = tagArrayStart ∨ i.t = tagRoot → i.cur.toNat < 2^63) →
      i.cur.toNat - i.off + 2 ≤ fuel → SimSet pj i (runFun goFuns goIter_SetNull fuel
        { env := envOf "i" i ++ [("Strings.B", .bytes pj.strings)], tape := pj.tape })
      (i.setNull pj)) :=
  go_set_source_tie pj i hl fuel

end SJ.Properties.C13
