import SJ.Proofs.Facts
/-
C13 — In-place replacement changes exactly the addressed value.
-/
namespace SJ.Properties.C13
open SJ SJ.Generated

/-- The type gates of the Set* functions (extracted from the source's `switch i.t` statements, which the model
    reads directly) are exactly what their documentation promises. -/
theorem C13_number_gates :
    [swSetFloat, swSetInt, swSetUInt, swSetStringBytes].all
      (fun sw => match sw with | [[l]] => Facts.sameMembers l Facts.scalarNumStr | _ => false) = true := Facts.set_number_gates
theorem C13_bool_gate : swSetBool = [[[cTagBoolTrue, cTagBoolFalse, cTagNull]]] := Facts.set_bool_gate
/-- SetNull accepts bool/null, string and numbers, objects and arrays — and, beyond its documentation, root
    entries (known finding D10: kept because upstream's test TestIter_SetNull_ObjArr/3 expects it). End tags and
    everything else are refused. -/
theorem C13_null_gates_partial :
    swSetNull = [[[cTagBoolTrue, cTagBoolFalse, cTagNull], [cTagString, cTagFloat, cTagInteger, cTagUint],
                  [cTagObjectStart, cTagArrayStart, cTagRoot], [256]]] := Facts.set_null_gates

end SJ.Properties.C13
