import SJ.Proofs.Tables
/-
C02 — Accepted documents are exposed with exact structure, order and values.
-/
namespace SJ.Properties.C02
open SJ SJ.Tables SJ.Generated

/-- `TagToType` maps every value tag to its type and everything else (end tags, NOP, unknown) to TypeNone. -/
theorem C02_tag_types (t : UInt8) : tagToType t = tagToTypeSpec t := tagToType_spec t

/-- The tags are pairwise distinct. -/
theorem C02_tags_distinct :
    [tagString, tagInteger, tagUint, tagFloat, tagNull, tagBoolTrue, tagBoolFalse, tagObjectStart, tagObjectEnd,
     tagArrayStart, tagArrayEnd, tagRoot, tagNop, tagEnd, tagFloatWithFlag].Nodup := tags_distinct

/-- Layout of a tape word: 8 tag bits above 56 payload bits; the string-buffer flag is payload bit 55. -/
theorem C02_word_layout :
    cJSONTAGOFFSET = 56 ∧ cJSONVALUEMASK = 2^56 - 1 ∧ cJSONTAGMASK = 255 * 2^56 ∧ cSTRINGBUFBIT = 2^55 ∧ cSTRINGBUFMASK = 2^55 - 1 :=
  word_layout

/-- the string kernels' UTF-8 length classes (shared obligation with C04: a decoded string is exposed wrongly if
    these move) -/
theorem C02_kernel_immediates :
    Generated.aParseStringCmpCopy = [65535, 1114111, 117, 6, 21, 6, 55296, 12, 92, 117, 65535, 127, 2047] := by decide

end SJ.Properties.C02
