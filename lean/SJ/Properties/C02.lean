import SJ.Proofs.Tables
import SJ.Proofs.ParseIff
import SJ.Proofs.ParseWF
import SJ.Proofs.Bridge
import SJ.Proofs.GoIter
import SJ.Proofs.GoPJForEach
/-
C02 — Accepted documents are exposed with exact structure, order and values.
-/
namespace SJ.Properties.C02
open SJ SJ.Tables SJ.Generated

/-- `TagToType` maps every value tag to its type and everything else (end tags, NOP, unknown) to TypeNone. -/
theorem C02_tag_types (t : UInt8) : tagToType t = tagToTypeSpec t := tagToType_spec t

/-- The tags are pairwise distinct. -/
theorem C02_tags_distinct :
    [tagString, tagInteger, tagUint, tagFloat, tagNull, tagBoolTrue, tagBoolFalse, tagObjectStart, tagObjectEnd,
     tagArrayStart, tagArrayEnd, tagRoot, tagNop, tagEnd, tagFloatWithFlag].Nodup := tags_distinct

/-- Layout of a tape word: 8 tag bits above 56 payload bits; the string-buffer flag is payload bit 55. -/
theorem C02_word_layout :
    cJSONTAGOFFSET = 56 ∧ cJSONVALUEMASK = 2^56 - 1 ∧ cJSONTAGMASK = 255 * 2^56 ∧ cSTRINGBUFBIT = 2^55 ∧ cSTRINGBUFMASK = 2^55 - 1 :=
  word_layout

/-- the string kernels' UTF-8 length classes (shared obligation with C04: a decoded string is exposed wrongly if
    these move) -/
theorem C02_kernel_immediates :
    Generated.aParseStringCmpCopy = [65535, 1114111, 117, 6, 21, 6, 55296, 12, 92, 117, 65535, 127, 2047] := by decide

open SJ.Layout in
/-- **Read-back is exact.** If the tape holds the located root values `vs` (the format of C17; `Tight`: no gap
    between a key and its value, which no parse or edit produces), then walking it through the public iterator
    API — `ForEach` over the roots, `Advance`/`AdvanceInto` into arrays, `NextElementBytes` through objects, the
    typed accessors at the leaves — yields exactly those values: same nesting, elements and members in tape order,
    duplicate keys kept, nothing dropped or re-parented; and that is the unique document the tape denotes. -/
theorem C02_readback (pj : PJ) (vs : List LVal) (h : WalkLayout.OkRoots pj vs 0) (ht : ∀ v ∈ vs, WalkLayout.Tight v) :
    ∃ ds, owalk pj = .ok ds ∧ decodeTapeD pj = some ds ∧ WF pj (vs.map erase) ∧ ds = (vs.map erase).map DecodeSound.toOVal :=
  Bridge.owalk_eq_decode pj vs h ht

open SJ.Layout in
/-- a tape denotes at most one document -/
theorem C02_unique (pj : PJ) (d d' : List JVal) (h : WF pj d) (h' : WF pj d') : d = d' := DecodeSound.wf_unique pj d d' h h'

open SJ.Layout in
/-- Arrays element by element: `Advance` from anywhere before an element (gaps included) lands on that element
    with its tag, and leaves the iterator positioned for the rest. -/
theorem C02_advance_elem (pj : PJ) (i : Iter) (v : LVal) (vs : LVals) (lo hi : Nat)
    (h : OkElems pj (.cons v vs) lo hi) (hhi : hi ≤ i.lim) (ha : 0 ≤ i.addNext) (hlo : (i.off : Int) + i.addNext = lo) :
    ∃ i', Iter.advance pj i = .ok (i', tagToType (WalkLayout.tagOfL v)) ∧ i'.lim = i.lim ∧ i'.off = v.pos + 1 ∧
      (∃ w, word pj v.pos = some w ∧ i'.t = tagOf w ∧ i'.cur = payloadOf w ∧ tagOf w = WalkLayout.tagOfL v) ∧
      0 ≤ i'.addNext ∧ (i'.off : Int) + i'.addNext = v.fin ∧ OkElems pj vs v.fin hi :=
  WalkLayout.advance_elem pj i v vs lo hi h hhi ha hlo


open SJ.Layout SJ.ParseDefs in
/-- **Read-back of a parse result is exactly the document stage 2 built.** For every accepted input the tape holds a
    located, tight document `lvs` (the ghost recorded while the machine ran: values in the order their tokens were
    consumed, members with their keys, each attached to the container open at that moment), and the walk through the
    public iterator API returns precisely `lvs` erased — nothing dropped, duplicated, reordered or re-parented — which
    is also what the reference decoder reads off the tape. That `lvs` is the value the RFC grammar assigns to the text
    is `ParseSpec` (C01/C02, in progress). -/
theorem C02_parse_readback (cfg : Cfg) (nd : Bool) (input : Bytes) (pj : PJ) (hsz : SizeOK (trimSpace input))
    (h : parseAny cfg nd input = .ok pj) :
    ∃ lvs : List LVal, WalkLayout.OkRoots pj lvs 0 ∧ (∀ v ∈ lvs, WalkLayout.Tight v) ∧
      ∃ ds, owalk pj = .ok ds ∧ decodeTapeD pj = some ds ∧ ds = (lvs.map erase).map DecodeSound.toOVal := by
  obtain ⟨lvs, h1, h2, _, _, _, hd, _⟩ := SJ.ParseWF.parse_wf cfg nd input pj hsz h
  exact ⟨lvs, h1, h2, hd⟩


open SJ.Layout SJ.ParseDefs SJ.TrimEdge in
/-- **Accepted documents are exposed with exactly the value the grammar assigns.** If the specification accepts the text
    as the document `v` (nesting, array elements in order, object members in source order with duplicate keys, strings
    and keys after unescaping, numbers typed as C03 states, booleans, nulls), then `Parse` succeeds, the tape denotes
    exactly `ofSpec v` (`WF`), and the ordered walk through the public iterator API returns exactly `ofSpec v` — nothing
    dropped, duplicated, reordered or re-parented, for every size, depth and white-space layout. -/
theorem C02_parse_value (cfg : Cfg) (input : Bytes) (he : EdgeOK input) (hsz : SizeOK (trimSpace input)) (v : Spec.JVal)
    (h : Spec.containerText (jsonTrim input).toList = .accept v) :
    ∃ pj, parse cfg input = .ok pj ∧ WF pj [ofSpec v] ∧ owalk pj = .ok [DecodeSound.toOVal (ofSpec v)] := by
  obtain ⟨pj, _, hp, _, _, _, _, hwf, hw, _⟩ := SJ.ParseIff.parse_accepts cfg input he hsz v h
  exact ⟨pj, hp, hwf, hw⟩

open SJ.Layout SJ.ParseDefs SJ.TrimEdge in
/-- the same for newline-delimited input: one root per non-blank line, in order -/
theorem C02_parseND_value (cfg : Cfg) (input : Bytes) (he : EdgeOK input) (hsz : SizeOK (trimSpace input)) (vs : List Spec.JVal)
    (h : Spec.ndText (jsonTrim input).toList = .accept (.arr vs)) :
    ∃ pj, parseND cfg input = .ok pj ∧ WF pj (vs.map ofSpec) ∧ owalk pj = .ok ((vs.map ofSpec).map DecodeSound.toOVal) := by
  obtain ⟨pj, _, hp, _, _, _, _, hwf, hw⟩ := SJ.ParseIff.parseND_accepts cfg input he hsz vs h
  exact ⟨pj, hp, hwf, hw⟩

open SJ.GoSem SJ.GoIter in
/-- **The cursor functions of the model are the meaning of their Go source.** `Generated.goIter_*` are the syntax trees
    the translator prints from `parsed_json.go` on every run; `GoSem.runFun` interprets them (`GoSem/Lang.lean`). For
    every tape, every iterator whose view lies inside the tape and enough fuel for the NOP-skipping loop, running
    `PeekNextTag`, `PeekNext`, `Advance`, `AdvanceInto`, `AdvanceIter` returns exactly what `Iter.peekNextTag` … `Iter.advanceIter`
    of the hand model return — same value, same receiver (and destination) fields, tape untouched; error ⇔ error, panic ⇔
    panic, never stuck, never out of fuel. Every theorem about the traversal API (`C02_readback`, `C02_parse_value`, C12, C14)
    is therefore about this source; any change to these functions changes the trees and breaks this theorem. -/
theorem C02_cursor_follows_source (pj : PJ) (i dst : Iter) (hl : i.lim ≤ pj.tape.size) (fuel : Nat) (hf : fuelFor i ≤ fuel) :
    SimV pj.tape i (runFun goFuns goIter_PeekNextTag fuel { env := envOf "i" i, tape := pj.tape }) (i.peekNextTag pj) ∧
    SimV pj.tape i (runFun goFuns goIter_PeekNext fuel { env := envOf "i" i, tape := pj.tape }) (i.peekNext pj) ∧
    SimT pj.tape (runFun goFuns goIter_Advance fuel { env := envOf "i" i, tape := pj.tape }) (i.advance pj) ∧
    SimT pj.tape (runFun goFuns goIter_AdvanceInto fuel { env := envOf "i" i, tape := pj.tape }) (i.advanceInto pj) ∧
    SimIter pj.tape (runFun goFuns goIter_AdvanceIter fuel
      { env := envOf "i" i ++ envOf "dst" dst ++ [("i!=dst", .bool true)], tape := pj.tape }) (i.advanceIter pj dst) :=
  go_iter_source_tie pj i dst hl fuel hf

open SJ.GoSem SJ.GoIter in
/-- … and the loop-free helpers: `calcNext`, `moveToEnd`, `Type`. -/
theorem C02_cursor_helpers_follow_source (i : Iter) (into : Bool) (tape : Array UInt64) (fuel : Nat) (hcur : i.cur.toNat < 2^63) :
    exec goFuns fuel goIter_calcNext.body { env := envOf "i" i ++ [("into", .bool into)], tape := tape } =
      .normal { env := envOf "i" (i.calcNext into) ++ [("into", .bool into)], tape := tape } ∧
    exec goFuns fuel goIter_moveToEnd.body { env := envOf "i" i, tape := tape } = .normal { env := envOf "i" i.moveToEnd, tape := tape } ∧
    SimV tape i (runFun goFuns goIter_Type fuel { env := envOf "i" i, tape := tape }) (.ok i.type) :=
  ⟨calcNext_exec i into tape fuel hcur, moveToEnd_exec i tape fuel, type_exec i tape fuel⟩

open SJ.GoSem SJ.GoIter SJ.GoPJForEach in
/-- **Source tie** (DESIGN §6.3). `ParsedJson.ForEach` (`parsed_json.go`), printed from /repo on every run, means under
    `GoSem.exec` the model's `pjForEach` — the walk over the top-level entries that `C02_parse_value` reads documents
    back with. The callback is a parameter: its answers are a list given in advance (`fn.results`), what it was handed
    is logged (`fn.log`, the five fields of each iterator). With a callback that never fails the log is exactly the
    model's sequence of root iterators and the result is nil; the model's error is the Go error; the model's panic is a
    Go panic; with enough fuel (`2·len(tape)+11`) nothing diverges. -/
theorem C02_forEach_follows_source (pj : PJ) (N F : Nat) (hN : pj.tape.size ≤ N) (hF : 2 * pj.tape.size + 11 ≤ F) :
    match pjForEach pj (Iter.ofPJ pj) #[] (fuelOf pj) with
    | .ok its => ∃ s, runFun goFuns goParsedJson_ForEach F ⟨feStore pj (List.replicate N false), pj.tape⟩ =
          .ret s [.bool false] ∧ s.tape = pj.tape ∧ logOf s.env = encIters its.toList ∧
        s.env.get "fn.results" = some (.bools (List.replicate (N - its.size) false))
    | .error _ => ∃ s, runFun goFuns goParsedJson_ForEach F ⟨feStore pj (List.replicate N false), pj.tape⟩ =
          .ret s [.bool true]
    | .panic => runFun goFuns goParsedJson_ForEach F ⟨feStore pj (List.replicate N false), pj.tape⟩ = .panic
    | .diverge => False :=
  pjForEach_sim pj N F hN hF

open SJ.GoSem SJ.GoIter SJ.GoPJForEach in
/-- … and when the callback's answer number `k` is an error, `ForEach` stops there and returns it, having handed out
    exactly the first `k+1` iterators of the model's sequence. -/
theorem C02_forEach_callback_error (pj : PJ) (k F : Nat) (tl : List Bool) (its : Array Iter)
    (hF : 2 * pj.tape.size + 11 ≤ F) (hm : pjForEach pj (Iter.ofPJ pj) #[] (fuelOf pj) = .ok its) (hk : k < its.size) :
    ∃ s, runFun goFuns goParsedJson_ForEach F ⟨feStore pj (List.replicate k false ++ true :: tl), pj.tape⟩ =
        .ret s [.bool true] ∧ s.tape = pj.tape ∧ logOf s.env = encIters (its.toList.take (k + 1)) ∧
      s.env.get "fn.results" = some (.bools tl) :=
  pjForEach_sim_cbErr pj k F tl its hF hm hk

end SJ.Properties.C02
