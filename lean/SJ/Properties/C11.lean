import SJ.Proofs.Tables
import SJ.Proofs.Facts
/-
C11 — Serialize/Deserialize round-trips every tape in every mode.
-/
namespace SJ.Properties.C11
open SJ SJ.Tables SJ.Generated

/-- The end tag written for a container start on reconstruction. -/
theorem C11_open_to_close (t : UInt8) : openToClose t =
    (if t == tagObjectStart then tagObjectEnd else if t == tagArrayStart then tagArrayEnd else if t == tagRoot then tagRoot else 0) :=
  openToClose_spec t

/-- Serialize and Deserialize partition the tags into the same groups. -/
theorem C11_tag_groups : swSerialize.length = 1 ∧ swDeserialize.length = 2 := by decide
theorem C11_same_groups :
    (swSerialize.getD 0 []).getD 6 [] = [cTagObjectStart, cTagArrayStart, cTagRoot] ∧
    (swDeserialize.getD 1 []).getD 5 [] = [cTagObjectStart, cTagArrayStart] ∧ (swDeserialize.getD 1 []).getD 6 [] = [cTagRoot] := by
  rw [Facts.serialize_cases, Facts.deserialize_cases]; decide

/-- format constants -/
theorem C11_format : cserializedVersion = 3 ∧ cblockTypeUncompressed = 0 ∧ cblockTypeS2 = 1 ∧ cblockTypeZstd = 2 ∧
    ctagFloatWithFlag = 101 ∧ cstringSize = 2 ^ cstringBits := by decide

end SJ.Properties.C11
