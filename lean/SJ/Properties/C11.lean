import SJ.Proofs.Tables
import SJ.Proofs.Facts
import SJ.Proofs.SerdeRT
import SJ.Proofs.Framing
import SJ.Proofs.GoFraming
import SJ.Proofs.GoFramingModel
/-
C11 — Serialize/Deserialize round-trips every tape in every mode.
-/
namespace SJ.Properties.C11
open SJ SJ.Tables SJ.Generated

/-- The end tag written for a container start on reconstruction. -/
theorem C11_open_to_close (t : UInt8) : openToClose t =
    (if t == tagObjectStart then tagObjectEnd else if t == tagArrayStart then tagArrayEnd else if t == tagRoot then tagRoot else 0) :=
  openToClose_spec t

/-- Serialize and Deserialize partition the tags into the same groups. -/
theorem C11_tag_groups : swSerialize.length = 1 ∧ swDeserialize.length = 2 := by decide
theorem C11_same_groups :
    (swSerialize.getD 0 []).getD 6 [] = [cTagObjectStart, cTagArrayStart, cTagRoot] ∧
    (swDeserialize.getD 1 []).getD 5 [] = [cTagObjectStart, cTagArrayStart] ∧ (swDeserialize.getD 1 []).getD 6 [] = [cTagRoot] := by
  rw [Facts.serialize_cases, Facts.deserialize_cases]; decide

/-- format constants -/
theorem C11_format : cserializedVersion = 3 ∧ cblockTypeUncompressed = 0 ∧ cblockTypeS2 = 1 ∧ cblockTypeZstd = 2 ∧
    ctagFloatWithFlag = 101 ∧ cstringSize = 2 ^ cstringBits := by decide

open SJ.Layout in
/-- **Round trip, every tape.** For every tape that denotes a document `d` (C17's format, gaps left by edits and
    deletions included), every hash function (so: whatever the string-dedup table does) and every prior content of
    the destination tape, `Serialize` succeeds and rebuilding from its sections yields a tape that denotes the same
    `d` — same nesting, same number kinds and bits (float flags included), byte-equal strings — of the same size.
    The size premises are the format's own limits (56-bit payloads, the 2^55 string-buffer flag). -/
theorem C11_roundtrip (pj : PJ) (d : List JVal) (hash : Bytes → Nat) (hwf : WF pj d) (hsz : pj.tape.size < 2^56)
    (hb : pj.tape.size * max pj.msg.size pj.strings.size < 2^55) :
    ∃ sec, serialize pj hash = .ok sec ∧ sec.tapeSize = pj.tape.size ∧
      ∀ init : Array UInt64, init.size = sec.tapeSize →
        ∃ pj', deserializeSections sec init = .ok pj' ∧ WF pj' d ∧ pj'.tape.size = pj.tape.size ∧
          pj'.strings = #[] ∧ pj'.msg = sec.msg :=
  SerdeRT.roundtrip_of_bound pj d hash hwf hsz hb

/-- **String de-duplication is sound for any table.** Whatever the hash table holds (stale entries of an earlier
    `Serialize`, collisions, wrapped offsets), the offset returned for a string points at exactly that string in
    the (append-only) string buffer. -/
theorem C11_dedup_sound (hash : Bytes → Nat) (s : SerState) (sb : Bytes) :
    let r := indexString hash s sb
    SerdeRT.Ext s.stringBuf r.1.stringBuf ∧
    ∃ o : Nat, r.2 = UInt64.ofNat o ∧ o + sb.size ≤ r.1.stringBuf.size ∧ r.1.stringBuf.extract o (o + sb.size) = sb :=
  SerdeRT.C11_dedup_sound hash s sb

/-- The serialized string buffer never exceeds (entries × largest source buffer): the premise above is about the input only. -/
theorem C11_msg_bound (pj : PJ) (hash : Bytes → Nat) (M : Nat) (h1 : pj.msg.size ≤ M) (h2 : pj.strings.size ≤ M)
    (sec : Sections) (h : serialize pj hash = .ok sec) : sec.msg.size ≤ pj.tape.size * M :=
  SerdeRT.serialize_msg_bound pj hash M h1 h2 sec h

open SJ.Layout in
/-- **Round trip through the bytes.** For every tape denoting `d`, every hash function, every codec and every prior
    destination tape: `Serialize`'s output in the uncompressed mode (`encodeSections blkRaw`: version byte, total
    size, tape size, empty strings section, then message / tags / values each as size + block) is read back by
    `Deserialize` to a tape that denotes the same `d`. -/
theorem C11_roundtrip_bytes (codec : Codec) (pj : PJ) (d : List JVal) (hash : Bytes → Nat) (hwf : WF pj d)
    (hsz : pj.tape.size < 2^56) (hb : pj.tape.size * max pj.msg.size pj.strings.size < 2^55) (prior : Array UInt64) :
    ∃ sec pj', serialize pj hash = .ok sec ∧ deserialize codec (encodeSections blkRaw sec) prior = .ok pj' ∧ WF pj' d :=
  Framing.serialize_deserialize codec pj d hash hwf hsz hb prior

/-- The same for compressed blocks, for any block writer/codec pair meeting the contract
    "what the codec is handed back decodes to what the writer was given" (S2, zstd: by contract). -/
theorem C11_framing_any_codec {blk : Bytes → Bytes} {codec : Codec} (hb : Framing.BlkOK blk codec) (sec : Sections)
    (hf : Framing.FrameOK blk sec) (prior : Array UInt64) :
    deserialize codec (encodeSections blk sec) prior =
      deserializeSections { sec with strings := #[] } (prior.extract 0 sec.tapeSize ++ Array.replicate (sec.tapeSize - prior.size) 0) :=
  Framing.deserialize_encode_blk hb sec hf prior

/-- `binary.PutUvarint` / `binary.ReadUvarint` are inverse on every 64-bit value, at any position. -/
theorem C11_uvarint (x : Nat) (hx : x < 2^64) (pre post : Bytes) :
    readUvarint (pre ++ (putUvarint x).toArray ++ post) pre.size = some (UInt64.ofNat x, pre.size + (putUvarint x).length) :=
  Framing.readUvarint_putUvarint x hx pre post

/-- the differential check that re-encodes the implementation's bytes is justified: encode then split is the identity -/
theorem C11_sections_of_encode (sec : Sections) (hs : sec.strings = #[]) (hf : Framing.FrameOK blkRaw sec) :
    sectionsOfRaw (encodeSections blkRaw sec) = some sec := Framing.sectionsOfRaw_encode sec hs hf

open SJ SJ.GoSem SJ.Generated SJ.GoFraming in
/-- **the framing part of `Deserialize` is the meaning of its source.**  For every input `src`, every destination
    (nil or not, buffers of any capacities below 2^63) and any initial values of the locals, running the regenerated
    block `goDeserialize_header` — from `br := bytes.NewBuffer(src)` to the last `decBlock` — ends as `headerP src` says
    (`HdrPost`): never `stuck`, never out of fuel with one unit. -/
theorem C11_framing_follows_source (f : FS) (prior : Array UInt64) (fuel : Nat)
    (hsz : f.src.size < 2^63) (hprior : prior.size < 2^63)
    (hSc : f.sB.size < 2^63) (hMc : f.mB.size < 2^63) (hT : f.tB.size < 2^63) (hV : f.vB.size < 2^63) :
    HdrPost f prior (runFun goFuns goDeserialize_header (fuel + 1) ⟨f.env, prior⟩) :=
  SJ.GoFraming.go_framing_source_tie f prior fuel hsz hprior hSc hMc hT hV

open SJ SJ.GoSem SJ.Generated SJ.GoFraming in
/-- **`decBlock` is the meaning of its source** (the statement of `call_decBlock` with the hand model's `SJ.decBlock`):
    from any caller's store, `s.decBlock(br, buf, &wg, &X)` returns an error exactly when `SJ.decBlock codec` fails
    (for every codec: failing does not depend on it); otherwise the buffer position is the model's, and applying the
    codec's contract to what the call left (`d'` if no goroutine was started, else the recorded request) gives the
    model's block. -/
theorem C11_decBlock_follows_source (codec : Codec) (e : Env) (tp : Array UInt64) (X buf : String) (b : Bytes) (pos : Nat) (d : Bytes)
    (ty cp wt sb m : Val) (fuel : Nat)
    (hb : e.get "br.buf" = some (.bytes b)) (ho : e.get "br.off" = some (.int pos))
    (h1 : e.get (X ++ "." ++ "started") = some (.bool false)) (h2 : e.get (X ++ "." ++ "typ") = some ty)
    (h3 : e.get (X ++ "." ++ "compressed") = some cp) (h4 : e.get (X ++ "." ++ "want") = some wt)
    (hS : e.get "Strings.B" = some sb) (hM : e.get "Message" = some m) (hd : e.get buf = some (.bytes d))
    (hpos : pos ≤ b.size) (hsz : b.size < 2^63) :
    ∃ (err : Bool) (d' : Bytes) (off : Int) (st' ty' cp' wt' : Val),
      callFun goFuns fuel "s" "Serializer.decBlock" ["br", X] [.v buf] ⟨e, tp⟩ =
        .ret ⟨backEnv e X b off st' ty' cp' wt' sb m, tp⟩ [.bool err, .bytes d'] ∧
      (err = true ↔ (decBlock codec b pos d.size).1 = .fail) ∧
      (err = false → off = (decBlock codec b pos d.size).2 ∧
        ((st' = .bool false ∧ (decBlock codec b pos d.size).1 = .data d') ∨
         (∃ t c, st' = .bool true ∧ ty' = .u8 t ∧ cp' = .bytes c ∧ wt' = .int d.size ∧ d' = d ∧
            (decBlock codec b pos d.size).1 = (Pending.req t c d.size).resolve codec))) :=
  SJ.GoFraming.decBlock_source_tie codec e tp X buf b pos d ty cp wt sb m fuel hb ho h1 h2 h3 h4 hS hM hd hpos hsz

open SJ SJ.GoSem SJ.Generated SJ.GoFraming in
/-- **the header model and the hand model agree** whenever no declared size reaches 2^63: `deserialize codec src prior`
    fails when the header fails, and otherwise is the joins and the reconstruction (`finish`) on what the header left. -/
theorem C11_deserialize_is_header_then_finish (codec : Codec) (src : Bytes) (prior : Array UInt64) :
    LinkPost codec prior (headerP src) (deserialize codec src prior) :=
  SJ.GoFraming.deserialize_eq_header codec src prior

end SJ.Properties.C11
