import SJ.Properties.C18
import SJ.Proofs.SourceLevelA
set_option linter.unusedVariables false
/-
C18 — source level. The theorems of Properties/C18.lean composed with the source ties of DESIGN §6.3: each statement
below is about the MEANING OF THE REGENERATED GO SOURCE (`GoSem.runFun goFuns <tree> fuel ⟨store, tape⟩`), with no
function of the hand model in its conclusion. Proofs: SJ/Proofs/SourceLevelA.lean, SourceLevelB.lean.
-/
namespace SJ.Properties.C18

open SJ.Tables SJ.Generated SJ.GoSem SJ.FloatFmt SJ.FloatFmtProofs SJ.Spec SJ.GoFloatFmt in
/-- **C18 at source level: round trip, every finite bit pattern.** Run `appendFloat(dst, f)` of `parsed_json.go` (with
    its helpers `appendFloatF`, `fmtF`, as printed from /repo) on any destination and any FINITE float64 bit pattern: it
    returns `dst ++ txt` and a nil error, where `txt` is a number literal of the RFC grammar (`Spec.numberLit`, nothing
    left over) whose exact decimal value, correctly rounded (`F64.roundDecimal`), is the very same bit pattern.
    The only hypothesis kept from the tie is `fuelOK`, the loop budget of the interpreter (an explicit function of the
    bits: at most the number of digits written) — it says nothing about the Go code. -/
theorem C18_source_roundtrip (dst : Bytes) (bits : UInt64) (fuel : Nat) (tape : Array UInt64)
    (hf : fuelOK fuel bits) (hfin : F64.isFinite bits = true) :
    ∃ txt l st, runFun goFuns goappendFloat fuel ⟨[("dst", .bytes dst), ("f", .u64 bits)], tape⟩ =
        .ret st [.bytes (dst ++ txt), .bool false] ∧ st.tape = tape ∧
      Spec.numberLit txt.toList = some (l, []) ∧
      F64.roundDecimal (litValue l).1 (litValue l).2.1 (litValue l).2.2 = some bits :=
  SJ.SourceLevelA.C18_source_roundtrip dst bits fuel tape hf hfin

open SJ.Tables SJ.Generated SJ.GoSem SJ.FloatFmt SJ.FloatFmtProofs SJ.Spec SJ.GoFloatFmt in
/-- … and for Inf / NaN the Go `appendFloat` returns the nil slice and a non-nil error (never text). -/
theorem C18_source_nonfinite (dst : Bytes) (bits : UInt64) (fuel : Nat) (tape : Array UInt64)
    (hf : fuelOK fuel bits) (hfin : F64.isFinite bits = false) :
    ∃ st, runFun goFuns goappendFloat fuel ⟨[("dst", .bytes dst), ("f", .u64 bits)], tape⟩ =
        .ret st [.bytes #[], .bool true] ∧ st.tape = tape :=
  SJ.SourceLevelA.C18_source_nonfinite dst bits fuel tape hf hfin

end SJ.Properties.C18
