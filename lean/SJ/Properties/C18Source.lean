import SJ.Properties.C18
import SJ.Proofs.SourceLevelA
import SJ.Proofs.SourceLevelF
set_option linter.unusedVariables false
/-
C18 — source level. The theorems of Properties/C18.lean composed with the source ties of DESIGN §6.3: each statement
below is about the MEANING OF THE REGENERATED GO SOURCE (`GoSem.runFun goFuns <tree> fuel ⟨store, tape⟩`), with no
function of the hand model in its conclusion. Proofs: SJ/Proofs/SourceLevelA.lean, SourceLevelB.lean.
-/
namespace SJ.Properties.C18

open SJ.Tables SJ.Generated SJ.GoSem SJ.FloatFmt SJ.FloatFmtProofs SJ.Spec SJ.GoFloatFmt in
/-- **C18 at source level: round trip, every finite bit pattern.** Run `appendFloat(dst, f)` of `parsed_json.go` (with
    its helpers `appendFloatF`, `fmtF`, as printed from /repo) on any destination and any FINITE float64 bit pattern: it
    returns `dst ++ txt` and a nil error, where `txt` is a number literal of the RFC grammar (`Spec.numberLit`, nothing
    left over) whose exact decimal value, correctly rounded (`F64.roundDecimal`), is the very same bit pattern.
    The only hypothesis kept from the tie is `fuelOK`, the loop budget of the interpreter (an explicit function of the
    bits: at most the number of digits written) — it says nothing about the Go code. -/
theorem C18_source_roundtrip (dst : Bytes) (bits : UInt64) (fuel : Nat) (tape : Array UInt64)
    (hf : fuelOK fuel bits) (hfin : F64.isFinite bits = true) :
    ∃ txt l st, runFun goFuns goappendFloat fuel ⟨[("dst", .bytes dst), ("f", .u64 bits)], tape⟩ =
        .ret st [.bytes (dst ++ txt), .bool false] ∧ st.tape = tape ∧
      Spec.numberLit txt.toList = some (l, []) ∧
      F64.roundDecimal (litValue l).1 (litValue l).2.1 (litValue l).2.2 = some bits :=
  SJ.SourceLevelA.C18_source_roundtrip dst bits fuel tape hf hfin

open SJ.Tables SJ.Generated SJ.GoSem SJ.FloatFmt SJ.FloatFmtProofs SJ.Spec SJ.GoFloatFmt in
/-- … and for Inf / NaN the Go `appendFloat` returns the nil slice and a non-nil error (never text). -/
theorem C18_source_nonfinite (dst : Bytes) (bits : UInt64) (fuel : Nat) (tape : Array UInt64)
    (hf : fuelOK fuel bits) (hfin : F64.isFinite bits = false) :
    ∃ st, runFun goFuns goappendFloat fuel ⟨[("dst", .bytes dst), ("f", .u64 bits)], tape⟩ =
        .ret st [.bytes #[], .bool true] ∧ st.tape = tape :=
  SJ.SourceLevelA.C18_source_nonfinite dst bits fuel tape hf hfin

open SJ.Generated SJ.GoSem SJ.GoIter SJ.GoSet SJ.Layout SJ.SourceLevelF SJ.FloatFmt SJ.FloatFmtProofs SJ.Spec SJ.F64 SJ.F64Round SJ.GoFloatFmt in
/-- **What `appendFloat` prints, digit for digit, source level** (`C18_shortest_roundtrip`, `C18_fmtF_value`, `C18_fmtE_value` ∘
    the `appendFloat` tie `C18_format_follows_source`).  For every finite, non-zero float64 bit pattern, with `abs` the
    pattern without its sign bit: running `appendFloat(dst, f)` of `parsed_json.go` (with `appendFloatF`, `fmtF`, as printed
    from /repo) returns `dst ++ txt` and `nil`, where
    * `txt` is a number literal of the RFC 8259 grammar, nothing left over;
    * its sign is the float's sign bit;
    * its decimal value is EXACTLY `0.d₁d₂…dₙ × 10^dp` (`SameDecimal`: equal as rationals, not merely after rounding) for the
      digit string `d₁…dₙ`, `dp` that the shortest-digits contract of `ryuFtoaShortest` / `strconv.AppendFloat(…,'e',-1,64)`
      yields for `abs` (`FloatFmt.shortest`: the routines the Go code calls from the standard library, specified, not
      translated — the tie takes them by this contract too): neither the plain form (`fmtF`, with its zero padding) nor the
      exponent form (`fmtE` and the `e-0N` clean-up) adds, drops or alters a significant digit;
    * that digit string is well formed — not empty, decimal digits, first digit non-zero — and, correctly rounded, reads
      back to exactly `abs`.
    This is what the three property theorems give beyond `C18_source_roundtrip` (which only says that the text rounds back
    to the float): the identification of the printed decimal with the contract's digits, and the sign.  NOT given by any
    property theorem, hence not stated: that the digit string has at most 17 digits, and that no shorter digit string
    rounds to the float (`shortest` searches lengths 1, 2, … and takes the first hit, but no theorem of `Properties/C18`
    states minimality).
    Discharged: the exponent bound `|dp − 1| < 10^7` of `C18_fmtE_value` (from the magnitude guards of `roundDecimal`,
    `roundDecimal_some`), finiteness and the 63-bit bound of `abs`.  Remaining: `fuelOK`, the interpreter's loop budget. -/
theorem C18_source_shortest (dst : Bytes) (bits : UInt64) (fuel : Nat) (tape : Array UInt64)
    (hf : fuelOK fuel bits) (hfin : F64.isFinite bits = true) (h0 : bits &&& 0x7fffffffffffffff ≠ 0) :
    ∃ txt l st ds dp, runFun goFuns goappendFloat fuel ⟨[("dst", .bytes dst), ("f", .u64 bits)], tape⟩ =
        .ret st [.bytes (dst ++ txt), .bool false] ∧ st.tape = tape ∧
      Spec.numberLit txt.toList = some (l, []) ∧
      (litValue l).1 = ((bits >>> 63) != 0) ∧
      shortest (bits &&& 0x7fffffffffffffff) = { digits := ds, dp := dp } ∧
      ds ≠ [] ∧ (∀ d ∈ ds, d < 10) ∧ ds.head? ≠ some 0 ∧
      SameDecimal (litValue l).2.1 (litValue l).2.2 (natOfDigits ds) (dp - ds.length) ∧
      F64.roundDecimal false (natOfDigits ds) (dp - ds.length) = some (bits &&& 0x7fffffffffffffff) :=
  SJ.SourceLevelF.C18_source_shortest dst bits fuel tape hf hfin h0

end SJ.Properties.C18
