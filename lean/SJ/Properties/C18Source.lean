import SJ.Properties.C18
import SJ.Proofs.SourceLevelA
import SJ.Proofs.SourceLevelF
import SJ.Proofs.ShortestMinimal
set_option linter.unusedVariables false
/-
C18 — source level. The theorems of Properties/C18.lean composed with the source ties of DESIGN §6.3: each statement
below is about the MEANING OF THE REGENERATED GO SOURCE (`GoSem.runFun goFuns <tree> fuel ⟨store, tape⟩`), with no
function of the hand model in its conclusion. Proofs: SJ/Proofs/SourceLevelA.lean, SourceLevelB.lean.
-/
namespace SJ.Properties.C18

open SJ.Tables SJ.Generated SJ.GoSem SJ.FloatFmt SJ.FloatFmtProofs SJ.Spec SJ.GoFloatFmt in
/-- **C18 at source level: round trip, every finite bit pattern.** Run `appendFloat(dst, f)` of `parsed_json.go` (with
    its helpers `appendFloatF`, `fmtF`, as printed from /repo) on any destination and any FINITE float64 bit pattern: it
    returns `dst ++ txt` and a nil error, where `txt` is a number literal of the RFC grammar (`Spec.numberLit`, nothing
    left over) whose exact decimal value, correctly rounded (`F64.roundDecimal`), is the very same bit pattern.
    The only hypothesis kept from the tie is `fuelOK`, the loop budget of the interpreter (an explicit function of the
    bits: at most the number of digits written) — it says nothing about the Go code. -/
theorem C18_source_roundtrip (dst : Bytes) (bits : UInt64) (fuel : Nat) (tape : Array UInt64)
    (hf : fuelOK fuel bits) (hfin : F64.isFinite bits = true) :
    ∃ txt l st, runFun goFuns goappendFloat fuel ⟨[("dst", .bytes dst), ("f", .u64 bits)], tape⟩ =
        .ret st [.bytes (dst ++ txt), .bool false] ∧ st.tape = tape ∧
      Spec.numberLit txt.toList = some (l, []) ∧
      F64.roundDecimal (litValue l).1 (litValue l).2.1 (litValue l).2.2 = some bits :=
  SJ.SourceLevelA.C18_source_roundtrip dst bits fuel tape hf hfin

open SJ.Tables SJ.Generated SJ.GoSem SJ.FloatFmt SJ.FloatFmtProofs SJ.Spec SJ.GoFloatFmt in
/-- … and for Inf / NaN the Go `appendFloat` returns the nil slice and a non-nil error (never text). -/
theorem C18_source_nonfinite (dst : Bytes) (bits : UInt64) (fuel : Nat) (tape : Array UInt64)
    (hf : fuelOK fuel bits) (hfin : F64.isFinite bits = false) :
    ∃ st, runFun goFuns goappendFloat fuel ⟨[("dst", .bytes dst), ("f", .u64 bits)], tape⟩ =
        .ret st [.bytes #[], .bool true] ∧ st.tape = tape :=
  SJ.SourceLevelA.C18_source_nonfinite dst bits fuel tape hf hfin

open SJ.Generated SJ.GoSem SJ.GoIter SJ.GoSet SJ.Layout SJ.SourceLevelF SJ.FloatFmt SJ.FloatFmtProofs SJ.Spec SJ.F64 SJ.F64Round SJ.GoFloatFmt in
/-- **What `appendFloat` prints, digit for digit, source level** (`C18_shortest_roundtrip`, `C18_fmtF_value`, `C18_fmtE_value` ∘
    the `appendFloat` tie `C18_format_follows_source`).  For every finite, non-zero float64 bit pattern, with `abs` the
    pattern without its sign bit: running `appendFloat(dst, f)` of `parsed_json.go` (with `appendFloatF`, `fmtF`, as printed
    from /repo) returns `dst ++ txt` and `nil`, where
    * `txt` is a number literal of the RFC 8259 grammar, nothing left over;
    * its sign is the float's sign bit;
    * its decimal value is EXACTLY `0.d₁d₂…dₙ × 10^dp` (`SameDecimal`: equal as rationals, not merely after rounding) for the
      digit string `d₁…dₙ`, `dp` that the shortest-digits contract of `ryuFtoaShortest` / `strconv.AppendFloat(…,'e',-1,64)`
      yields for `abs` (`FloatFmt.shortest`: the routines the Go code calls from the standard library, specified, not
      translated — the tie takes them by this contract too): neither the plain form (`fmtF`, with its zero padding) nor the
      exponent form (`fmtE` and the `e-0N` clean-up) adds, drops or alters a significant digit;
    * that digit string is well formed — not empty, decimal digits, first digit non-zero — and, correctly rounded, reads
      back to exactly `abs`.
    This is what the three property theorems give beyond `C18_source_roundtrip` (which only says that the text rounds back
    to the float): the identification of the printed decimal with the contract's digits, and the sign.  NOT given by any
    property theorem, hence not stated: that the digit string has at most 17 digits, and that no shorter digit string
    rounds to the float (`shortest` searches lengths 1, 2, … and takes the first hit, but no theorem of `Properties/C18`
    states minimality).
    Discharged: the exponent bound `|dp − 1| < 10^7` of `C18_fmtE_value` (from the magnitude guards of `roundDecimal`,
    `roundDecimal_some`), finiteness and the 63-bit bound of `abs`.  Remaining: `fuelOK`, the interpreter's loop budget. -/
theorem C18_source_shortest (dst : Bytes) (bits : UInt64) (fuel : Nat) (tape : Array UInt64)
    (hf : fuelOK fuel bits) (hfin : F64.isFinite bits = true) (h0 : bits &&& 0x7fffffffffffffff ≠ 0) :
    ∃ txt l st ds dp, runFun goFuns goappendFloat fuel ⟨[("dst", .bytes dst), ("f", .u64 bits)], tape⟩ =
        .ret st [.bytes (dst ++ txt), .bool false] ∧ st.tape = tape ∧
      Spec.numberLit txt.toList = some (l, []) ∧
      (litValue l).1 = ((bits >>> 63) != 0) ∧
      shortest (bits &&& 0x7fffffffffffffff) = { digits := ds, dp := dp } ∧
      ds ≠ [] ∧ (∀ d ∈ ds, d < 10) ∧ ds.head? ≠ some 0 ∧
      SameDecimal (litValue l).2.1 (litValue l).2.2 (natOfDigits ds) (dp - ds.length) ∧
      F64.roundDecimal false (natOfDigits ds) (dp - ds.length) = some (bits &&& 0x7fffffffffffffff) :=
  SJ.SourceLevelF.C18_source_shortest dst bits fuel tape hf hfin h0

open SJ.F64 SJ.Numeric SJ.FloatFmt SJ.FloatFmtProofs SJ.F64Round SJ.ShortestMinimal in
/-- **At most 17 significant digits** (and at least one) for every finite non-zero float64. -/
theorem C18_shortest_le_17 (abs : UInt64) (hfin : isFinite abs = true) (hlt : abs.toNat < 2 ^ 63) (h0 : abs ≠ 0) :
    1 ≤ (shortest abs).digits.length ∧ (shortest abs).digits.length ≤ 17 :=
  SJ.ShortestMinimal.shortest_le_17 abs hfin hlt h0

open SJ.F64 SJ.Numeric SJ.FloatFmt SJ.FloatFmtProofs SJ.F64Round SJ.ShortestMinimal in
/-- **"Shortest".** No decimal with fewer significant digits than `shortest abs` has is correctly rounded to `abs`:
    whatever the mantissa `d < 10^m` (`m` less than the number of digits printed) and whatever the exponent `k`,
    `d · 10^k` rounds to a different float64 (or to zero, or to infinity). -/
theorem C18_shortest_minimal (abs : UInt64) (hfin : isFinite abs = true) (hlt : abs.toNat < 2 ^ 63) (h0 : abs ≠ 0)
    (m d : Nat) (k : Int) (hm : m < (shortest abs).digits.length) (hd : d < 10 ^ m) (hd0 : d ≠ 0) :
    roundDecimal false d k ≠ some abs :=
  SJ.ShortestMinimal.shortest_minimal abs hfin hlt h0 m d k hm hd hd0

open SJ.F64 SJ.Numeric SJ.FloatFmt SJ.FloatFmtProofs SJ.F64Round SJ.ShortestMinimal in
/-- the same, read the other way: a decimal that rounds to `abs` has at least as many significant digits -/
theorem C18_shortest_le_of_rounds (abs : UInt64) (hfin : isFinite abs = true) (hlt : abs.toNat < 2 ^ 63) (h0 : abs ≠ 0)
    (m d : Nat) (k : Int) (hd : d < 10 ^ m) (h : roundDecimal false d k = some abs) :
    (shortest abs).digits.length ≤ m :=
  SJ.ShortestMinimal.shortest_le_of_rounds abs hfin hlt h0 m d k hd h

open SJ.F64 SJ.Numeric SJ.FloatFmt SJ.FloatFmtProofs SJ.F64Round SJ.ShortestMinimal in
/-- **Closest among the shortest, ties to even.** Let `D·10^K` be the decimal `shortest abs` denotes (`D` its digit
    string read as a number, `L` digits) and `m·2^e` the exact value of `abs`. Every decimal `X·10^k` with at most `L`
    significant digits that is correctly rounded to `abs` is at least as far from the exact value as `D·10^K`; and if a
    different one is exactly as far, `D` is even — or `D = 1`, the carry case where the two candidates are `9` and `10`
    (`10` being the even one at the scale of the search). -/
theorem C18_closest_among_shortest (abs : UInt64) (hfin : isFinite abs = true) (hlt : abs.toNat < 2 ^ 63) (h0 : abs ≠ 0)
    (m : Nat) (e : Int) (hdec : decode abs = .fin false m e) (X : Nat) (k : Int)
    (hXL : X < 10 ^ (shortest abs).digits.length) (hr : roundDecimal false X k = some abs) :
    (F64Round.decValue false (natOfDigits (shortest abs).digits) ((shortest abs).dp - (shortest abs).digits.length) -
        value false m e).abs ≤ (F64Round.decValue false X k - value false m e).abs ∧
    ((F64Round.decValue false X k - value false m e).abs =
        (F64Round.decValue false (natOfDigits (shortest abs).digits) ((shortest abs).dp - (shortest abs).digits.length) -
          value false m e).abs →
      F64Round.decValue false X k ≠
        F64Round.decValue false (natOfDigits (shortest abs).digits) ((shortest abs).dp - (shortest abs).digits.length) →
      natOfDigits (shortest abs).digits % 2 = 0 ∨ natOfDigits (shortest abs).digits = 1) :=
  SJ.ShortestMinimal.closest_among_shortest abs hfin hlt h0 m e hdec X k hXL hr

open SJ.F64 SJ.Numeric SJ.FloatFmt SJ.FloatFmtProofs SJ.F64Round SJ.ShortestMinimal in
/-- the digit string ends in a non-zero digit (the hypothesis `hlast` of `C18_fmtE_shape`) -/
theorem C18_shortest_no_trailing_zero (abs : UInt64) (hfin : isFinite abs = true) (hlt : abs.toNat < 2 ^ 63)
    (h0 : abs ≠ 0) : (shortest abs).digits.getLast? ≠ some 0 :=
  SJ.ShortestMinimal.shortest_no_trailing_zero abs hfin hlt h0

open SJ.F64 SJ.Numeric SJ.FloatFmt SJ.FloatFmtProofs SJ.F64Round SJ.Generated SJ.GoSem SJ.GoFloatFmt SJ.Spec SJ.ShortestMinimal in
/-- **C18 at source level: shortest, at most 17 digits, closest.** Run `appendFloat(dst, f)` of `parsed_json.go` (with
    `appendFloatF`, `fmtF`, as printed from /repo; Ryu / `strconv.AppendFloat(…,'e',-1,64)` by the shortest-digits contract)
    on a finite non-zero float64 bit pattern; `abs` is the pattern without its sign bit. It returns `dst ++ txt` and `nil`
    where `txt` is a number literal of the RFC grammar with the sign of the float whose decimal value is EXACTLY
    `0.d₁…dₙ × 10^dp` (`SameDecimal`) for a digit string `ds = d₁…dₙ` such that
    * `ds` is a string of decimal digits with neither a leading nor a trailing zero: `n` is the number of SIGNIFICANT digits of
      the text, and `1 ≤ n ≤ 17`;
    * correctly rounded, the decimal reads back to `abs`;
    * **no decimal with fewer significant digits does**: for every `m < n`, mantissa `0 < d < 10^m` and exponent `k`,
      `F64.roundDecimal false d k ≠ some abs`;
    * **among the decimals with at most `n` significant digits that do, it is the closest to the exact value** `mₐ·2^eₐ` of
      `abs`; in a tie, its digits read as a number are even (or `1`: the candidate `10` of the carry `9 → 10`).
    The conclusion mentions no function of the hand model. Hypothesis kept from the tie: `fuelOK`, the interpreter's loop
    budget. -/
theorem C18_source_minimal (dst : Bytes) (bits : UInt64) (fuel : Nat) (tape : Array UInt64)
    (hf : fuelOK fuel bits) (hfin : F64.isFinite bits = true) (h0 : bits &&& 0x7fffffffffffffff ≠ 0) :
    ∃ txt l st ds dp, runFun goFuns goappendFloat fuel ⟨[("dst", .bytes dst), ("f", .u64 bits)], tape⟩ =
        .ret st [.bytes (dst ++ txt), .bool false] ∧ st.tape = tape ∧
      Spec.numberLit txt.toList = some (l, []) ∧
      (litValue l).1 = ((bits >>> 63) != 0) ∧
      SameDecimal (litValue l).2.1 (litValue l).2.2 (natOfDigits ds) (dp - ds.length) ∧
      (∀ d ∈ ds, d < 10) ∧ ds.head? ≠ some 0 ∧ ds.getLast? ≠ some 0 ∧
      1 ≤ ds.length ∧ ds.length ≤ 17 ∧
      F64.roundDecimal false (natOfDigits ds) (dp - ds.length) = some (bits &&& 0x7fffffffffffffff) ∧
      (∀ (m d : Nat) (k : Int), m < ds.length → d < 10 ^ m → d ≠ 0 →
        F64.roundDecimal false d k ≠ some (bits &&& 0x7fffffffffffffff)) ∧
      (∀ (ma : Nat) (ea : Int) (X : Nat) (k : Int),
        F64.decode (bits &&& 0x7fffffffffffffff) = .fin false ma ea → X < 10 ^ ds.length →
        F64.roundDecimal false X k = some (bits &&& 0x7fffffffffffffff) →
        (F64Round.decValue false (natOfDigits ds) (dp - ds.length) - value false ma ea).abs ≤
          (F64Round.decValue false X k - value false ma ea).abs ∧
        ((F64Round.decValue false X k - value false ma ea).abs =
            (F64Round.decValue false (natOfDigits ds) (dp - ds.length) - value false ma ea).abs →
          F64Round.decValue false X k ≠ F64Round.decValue false (natOfDigits ds) (dp - ds.length) →
          natOfDigits ds % 2 = 0 ∨ natOfDigits ds = 1)) :=
  SJ.ShortestMinimal.C18_source_minimal dst bits fuel tape hf hfin h0

end SJ.Properties.C18
