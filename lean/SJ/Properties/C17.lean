import SJ.Proofs.Tables
/-
C17 — Every produced tape obeys the documented tape format.
-/
namespace SJ.Properties.C17
open SJ SJ.Tables SJ.Generated

theorem C17_word_layout :
    cJSONTAGOFFSET = 56 ∧ cJSONVALUEMASK = 2^56 - 1 ∧ cJSONTAGMASK = 255 * 2^56 ∧ cSTRINGBUFBIT = 2^55 ∧ cSTRINGBUFMASK = 2^55 - 1 :=
  word_layout
/-- the return-state codes packed into the scope stack fit the two low bits and are distinct -/
theorem C17_ret_addresses :
    cretAddressShift = 2 ∧ cretAddressStartConst < 4 ∧ cretAddressObjectConst < 4 ∧ cretAddressArrayConst < 4 ∧
    [cretAddressStartConst, cretAddressObjectConst, cretAddressArrayConst].Nodup := ret_addresses
theorem C17_root_plus_one : caddOneForRoot = 1 := by decide

end SJ.Properties.C17
