import SJ.Proofs.Tables
import SJ.Proofs.ParseWF
import SJ.Proofs.NopExact
import SJ.Proofs.Located
import SJ.Proofs.Rebuild
import SJ.Proofs.DecodeSound
import SJ.Proofs.GoSerialize
/-
C17 — Every produced tape obeys the documented tape format.
-/
namespace SJ.Properties.C17
open SJ SJ.Tables SJ.Generated

theorem C17_word_layout :
    cJSONTAGOFFSET = 56 ∧ cJSONVALUEMASK = 2^56 - 1 ∧ cJSONTAGMASK = 255 * 2^56 ∧ cSTRINGBUFBIT = 2^55 ∧ cSTRINGBUFMASK = 2^55 - 1 :=
  word_layout
/-- the return-state codes packed into the scope stack fit the two low bits and are distinct -/
theorem C17_ret_addresses :
    cretAddressShift = 2 ∧ cretAddressStartConst < 4 ∧ cretAddressObjectConst < 4 ∧ cretAddressArrayConst < 4 ∧
    [cretAddressStartConst, cretAddressObjectConst, cretAddressArrayConst].Nodup := ret_addresses
theorem C17_root_plus_one : caddOneForRoot = 1 := by decide

open SJ.Layout in
/-- A located document that the tape holds witnesses the documented format for the document it erases to:
    containers point one past their end tag and the end tag back, numbers own the next word, strings resolve,
    gaps consist of NOP entries whose skips stay inside. -/
theorem C17_located_format (pj : PJ) (v : LVal) (h : Ok pj v) : ValAt pj (erase v) v.pos v.fin := ok_valAt pj v h
/-- Deserialize rebuilds a tape of exactly the declared size (or fails). -/
theorem C17_rebuild_size (init : Array UInt64) (tags values : Bytes) :
    ∀ tp, rebuild init tags values = .ok tp → tp.size = init.size := (SJ.Rebuild.rebuild_no_panic init tags values).2.2

open SJ.Layout in
/-- **The executable format checker decides the documented format.** `wfCheckD` (run on every tape the harness
    obtains from Parse, ParseND, edits and Deserialize, and mirrored in Go) accepts a tape iff the tape denotes a
    document in the sense of the relational format `WF`: root pairs pointing at each other, containers properly
    nested with matching start/end pointers, strings in range, numbers with their payload word, no other tags,
    and NOP runs whose every skip count stays inside the run. -/
theorem C17_checker_exact (pj : PJ) : wfCheckD pj = true ↔ ∃ d, WF pj d := DecodeSound.wfCheckD_iff pj

open SJ.Layout in
/-- The decoder returns the denoted document, and only on well-formed tapes. -/
theorem C17_decoder_exact (pj : PJ) (ds : List OVal) :
    decodeTapeD pj = some ds ↔ ∃ d, WF pj d ∧ ds = d.map DecodeSound.toOVal := DecodeSound.decodeTapeD_iff pj ds

open SJ.Layout in
/-- NOP runs: the gap scanner accepts exactly the runs in which every word is a NOP with `1 ≤ skip` landing inside
    the run or exactly on the next live entry. -/
theorem C17_gap_exact (pj : PJ) (i e q : Nat) :
    skipNopsD pj.tape i e = some q ↔ (Gap pj i q ∧ q ≤ e ∧ (q = e ∨ tagOf (pj.tape.getD q 0) ≠ tagNop)) :=
  DecodeSound.skipNopsD_iff pj i e q

/-- A checker that only follows the chain of skip counts would accept tapes that denote nothing (a skip that
    jumps over a live word); this is why the dense scanner is the one used. -/
theorem C17_chain_checker_unsound : wfCheck DecodeSound.cexPJ = true ∧ ¬ ∃ d, SJ.Layout.WF DecodeSound.cexPJ d :=
  DecodeSound.chain_checker_unsound


open SJ.Layout SJ.ParseDefs in
/-- **Every tape returned by `Parse` / `ParseND` obeys the documented format** — for every input the parser accepts
    (also those outside C01's claim), both string modes: the tape denotes a document (`WF`: root pairs pointing at
    each other, containers nested with matching start/end pointers, strings with in-range references, numbers with
    their value word, no other tags), the executable checker accepts it, and `Message` is the trimmed input.
    `SizeOK`: the input is shorter than 2^50 bytes. Proved through the ghost document built alongside stage 2
    (`Stage2WF.stage2_wf`), the scanner facts and the index-buffer partition. -/
theorem C17_parse_wf (cfg : Cfg) (nd : Bool) (input : Bytes) (pj : PJ) (hsz : SizeOK (trimSpace input))
    (h : parseAny cfg nd input = .ok pj) : (∃ d, WF pj d) ∧ wfCheckD pj = true ∧ pj.msg = trimSpace input := by
  obtain ⟨lvs, _, _, _, hwf, hc, _, hm, _⟩ := SJ.ParseWF.parse_wf cfg nd input pj hsz h
  exact ⟨⟨_, hwf⟩, hc, hm⟩

open SJ.Layout in
/-- **Deserialized NOP runs land exactly on the next live entry.** For every tape that denotes a document (C17's
    format, gaps of any legal shape left by edits and deletions, e.g. skips 2,1,3,2,1 after two adjacent deletions),
    every hash function and every prior content of the destination tape: in the tape rebuilt by `Deserialize` from
    `Serialize`'s sections every NOP word's skip count is exactly the distance to the end of its run of NOP words
    (`nopsExact`: a linear scan that steps over the data word of two-word values finds no exception). This is
    strictly stronger than the format itself, which parse results and edited tapes obey (`NopExact.gapPJ`). -/
theorem C17_deser_nops_exact (pj : PJ) (d : List JVal) (hash : Bytes → Nat) (hwf : WF pj d) (hsz : pj.tape.size < 2^56)
    (hb : pj.tape.size * max pj.msg.size pj.strings.size < 2^55) (sec : Sections) (hs : serialize pj hash = .ok sec)
    (init : Array UInt64) (hi : init.size = sec.tapeSize) (pj' : PJ) (hd : deserializeSections sec init = .ok pj') :
    nopsExact pj' = none :=
  NopExact.deser_nops_exact pj d hash hwf hsz hb sec hs init hi pj' hd

open SJ.GoSem SJ.Generated SJ.GoIter SJ.GoObject SJ.GoSerialize in
/-- **Source tie** (DESIGN §6.3). The tape loop of `Serializer.Serialize`, `Serializer.indexString` and the assembly of
    the container (`parsed_serialize.go`) are printed from /repo as syntax trees on every run (`runtime.memhash`, seeded
    per process, is an oracle whose answers are given in advance; the block writers are the byte streams they receive;
    `PutUint64`/`PutUvarint` by contract). Their meaning under `GoSem.exec` is the model's `serLoop`/`indexString` and
    `encodeSections`, the encoder of `C17_roundtrip`: the same tag stream, value stream and deduplicated string buffer
    for every hash function (chunked flushing included), a panic exactly when the model panics; the container bytes
    exactly `encodeSections` when every length fits 8 varint bytes (`AsmFits`, < 2^56) and a panic otherwise.
    `NoMaxLenString` excludes strings of 4 GiB − 1 bytes, where Go's `indexString` panics and the model does not
    (proved as `long_string_model_ok` / `long_string_source_panics` in `Proofs/GoSerialize`). -/
theorem C17_serialize_follows_source :
    -- the tape loop
    (∀ (pj : PJ) (hash : Bytes → Nat) (tb vb : Bytes) (F : Nat), BufOK pj → NoMaxLenString pj → tb.size = 65536 →
      pj.tape.size + 2 ≤ F →
      SerSim pj (runFun goFuns goSerialize_loop F (loopStore pj hash tb vb)) (serLoop pj hash {} 0 (pj.tape.size + 1))) ∧
    -- the assembly
    (∀ (n : Nat) (m t v sb d0 tmp : Bytes) (rt rv : Nat) (tape : Array UInt64) (fuel : Nat), tmp.size = 8 →
      AsmInts n m.size t.size v.size sb.size rt rv →
      (AsmFits n m.size t.size v.size sb.size rt rv →
        ∃ s', runFun goFuns goSerialize_assemble fuel (asmStore n m t v sb d0 tmp rt rv tape) =
          .ret s' [.bytes (d0 ++ asmOut n m t v sb.size rt rv)] ∧ s'.tape = tape) ∧
      (¬ AsmFits n m.size t.size v.size sb.size rt rv →
        runFun goFuns goSerialize_assemble fuel (asmStore n m t v sb d0 tmp rt rv tape) = .panic)) ∧
    -- what the assembly returns is the model's container
    (∀ (blk : Bytes → Bytes) (sec : Sections),
      asmOut sec.tapeSize (blk sec.msg) (blk sec.tags) (blk sec.values) sec.msg.size sec.tags.size sec.values.size =
        encodeSections blk sec) ∧
    -- `binary.PutUvarint` of the interpreter is the model's
    (∀ x, uvarintBytes x = putUvarint x) :=
  SJ.GoSerialize.go_serialize_source_tie 

end SJ.Properties.C17
