import SJ.Proofs.Tables
import SJ.Proofs.Located
import SJ.Proofs.Rebuild
/-
C17 — Every produced tape obeys the documented tape format.
-/
namespace SJ.Properties.C17
open SJ SJ.Tables SJ.Generated

theorem C17_word_layout :
    cJSONTAGOFFSET = 56 ∧ cJSONVALUEMASK = 2^56 - 1 ∧ cJSONTAGMASK = 255 * 2^56 ∧ cSTRINGBUFBIT = 2^55 ∧ cSTRINGBUFMASK = 2^55 - 1 :=
  word_layout
/-- the return-state codes packed into the scope stack fit the two low bits and are distinct -/
theorem C17_ret_addresses :
    cretAddressShift = 2 ∧ cretAddressStartConst < 4 ∧ cretAddressObjectConst < 4 ∧ cretAddressArrayConst < 4 ∧
    [cretAddressStartConst, cretAddressObjectConst, cretAddressArrayConst].Nodup := ret_addresses
theorem C17_root_plus_one : caddOneForRoot = 1 := by decide

open SJ.Layout in
/-- A located document that the tape holds witnesses the documented format for the document it erases to:
    containers point one past their end tag and the end tag back, numbers own the next word, strings resolve,
    gaps consist of NOP entries whose skips stay inside. -/
theorem C17_located_format (pj : PJ) (v : LVal) (h : Ok pj v) : ValAt pj (erase v) v.pos v.fin := ok_valAt pj v h
/-- Deserialize rebuilds a tape of exactly the declared size (or fails). -/
theorem C17_rebuild_size (init : Array UInt64) (tags values : Bytes) :
    ∀ tp, rebuild init tags values = .ok tp → tp.size = init.size := (SJ.Rebuild.rebuild_no_panic init tags values).2.2

end SJ.Properties.C17
