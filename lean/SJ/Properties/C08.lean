import SJ.Proofs.Tables
import SJ.Proofs.BlockScan
import SJ.Generated.Consts
import SJ.Generated.Stage2Table
/-
C08 — ParseND equals parsing each non-blank line.
-/
namespace SJ.Properties.C08
open SJ SJ.Tables

/-- The line delimiter the kernels look for is LF, in both families. -/
theorem C08_newline (b : UInt8) : isNewlineByte b = (b == 10) := classify_newline b
theorem C08_newline_shared : Generated.aNewlineByte = Generated.aNewlineByte512 := asm_tables_shared.2.1

/-- CR is white space (so CRLF endings are invisible), LF is white space (so it is never a pseudo-structural) -/
theorem C08_crlf : isWsByte 13 = true ∧ isWsByte 10 = true := by decide +kernel

/-- ND mode differs from plain mode only by LF outside strings being emitted; both families agree with the
    scalar scanner on every message in either mode. -/
theorem C08_stage1_nd (avx512 : Bool) (msg : Bytes) : stage1 true msg = SJ.Block.stage1Blocks avx512 true msg :=
  SJ.Block.stage1_eq_blocks avx512 true msg
/-- index buffers made of newline entries need the same head room -/
theorem C08_buffer_bound : Generated.cindexSizeWithSafetyBuffer + 64 + 64 ≤ Generated.cindexSize := by decide


/-- The two ND-specific states of stage 2, as regenerated from `unifiedMachine`: after a root value only LF is
    accepted (`startContinue`); then further LFs are skipped and the next `{` / `[` closes the current root, opens a
    new one and dispatches — nothing else is accepted between documents. -/
theorem C08_nd_states :
    Generated.stage2Sites.getD 1 [] = [([10], [], some 2)] ∧
    Generated.stage2Sites.getD 2 [] =
      [([10], [], some 2),
       ([91], ["reopenRoot", "push:retAddressStartConst", "write:["], some 8),
       ([123], ["reopenRoot", "push:retAddressStartConst", "write:{"], some 3)] := by decide

end SJ.Properties.C08
