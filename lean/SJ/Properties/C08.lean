import SJ.Proofs.Tables
import SJ.Proofs.StreamDocs
import SJ.Proofs.NDLines
import SJ.Proofs.ParseIff
import SJ.Proofs.BlockScan
import SJ.Generated.Consts
import SJ.Generated.Stage2Table
/-
C08 — ParseND equals parsing each non-blank line.
-/
namespace SJ.Properties.C08
open SJ SJ.Tables

/-- The line delimiter the kernels look for is LF, in both families. -/
theorem C08_newline (b : UInt8) : isNewlineByte b = (b == 10) := classify_newline b
theorem C08_newline_shared : Generated.aNewlineByte = Generated.aNewlineByte512 := asm_tables_shared.2.1

/-- CR is white space (so CRLF endings are invisible), LF is white space (so it is never a pseudo-structural) -/
theorem C08_crlf : isWsByte 13 = true ∧ isWsByte 10 = true := by decide +kernel

/-- ND mode differs from plain mode only by LF outside strings being emitted; both families agree with the
    scalar scanner on every message in either mode. -/
theorem C08_stage1_nd (avx512 : Bool) (msg : Bytes) : stage1 true msg = SJ.Block.stage1Blocks avx512 true msg :=
  SJ.Block.stage1_eq_blocks avx512 true msg
/-- index buffers made of newline entries need the same head room -/
theorem C08_buffer_bound : Generated.cindexSizeWithSafetyBuffer + 64 + 64 ≤ Generated.cindexSize := by decide


/-- The two ND-specific states of stage 2, as regenerated from `unifiedMachine`: after a root value only LF is
    accepted (`startContinue`); then further LFs are skipped and the next `{` / `[` closes the current root, opens a
    new one and dispatches — nothing else is accepted between documents. -/
theorem C08_nd_states :
    Generated.stage2Sites.getD 1 [] = [([10], [], some 2)] ∧
    Generated.stage2Sites.getD 2 [] =
      [([10], [], some 2),
       ([91], ["reopenRoot", "push:retAddressStartConst", "write:["], some 8),
       ([123], ["reopenRoot", "push:retAddressStartConst", "write:{"], some 3)] := by decide


open SJ.Layout SJ.ParseDefs SJ.TrimEdge in
/-- **ParseND equals parsing each non-blank line** (specification side: `Spec.ndText` — split at LF, drop blank lines,
    every remaining line must be a container text): accepted ⇒ `ParseND` succeeds and exposes exactly those documents,
    in order, one per root; rejected (one bad line, two documents on a line, a document spanning lines, only blank
    lines) ⇒ error. Blank lines, CRLF endings and a missing final newline are covered by `ndText` itself. -/
theorem C08_parseND_accepts (cfg : Cfg) (input : Bytes) (he : EdgeOK input) (hsz : SizeOK (trimSpace input)) (vs : List Spec.JVal)
    (h : Spec.ndText (jsonTrim input).toList = .accept (.arr vs)) :
    ∃ pj, parseND cfg input = .ok pj ∧ WF pj (vs.map ofSpec) ∧ owalk pj = .ok ((vs.map ofSpec).map DecodeSound.toOVal) := by
  obtain ⟨pj, _, hp, _, _, _, _, hwf, hw⟩ := SJ.ParseIff.parseND_accepts cfg input he hsz vs h
  exact ⟨pj, hp, hwf, hw⟩

open SJ.ParseDefs SJ.TrimEdge in
theorem C08_parseND_rejects (cfg : Cfg) (input : Bytes) (he : EdgeOK input) (hsz : SizeOK (trimSpace input))
    (h : Spec.ndText (jsonTrim input).toList = .reject) : parseND cfg input = .error .generic :=
  SJ.ParseIff.parseND_rejects cfg input he hsz h

open SJ.StreamDocs in
/-- what `ndText` says, line by line: accepted with documents `vs` iff there is a non-blank line and the non-blank
    lines, in order, are container texts with exactly those values; rejected iff there is no non-blank line or some
    non-blank line is rejected -/
theorem C08_ndText_lines (s : List UInt8) (vs : List Spec.JVal) :
    (Spec.ndText s = .accept (.arr vs) ↔ lines s ≠ [] ∧ (lines s).map Spec.containerText = vs.map Spec.Verdict.accept) ∧
    (Spec.ndText s = .reject ↔ lines s = [] ∨ ∃ l ∈ lines s, Spec.containerText l = .reject) :=
  ⟨ndText_accept_iff s vs, ndText_reject_iff s⟩


open SJ.ParseDefs SJ.TrimEdge SJ.StreamDocs SJ.NDLines in
/-- **ParseND succeeds exactly when every non-blank line would be accepted by Parse** (and there is one). `lines` are
    the non-blank lines of the trimmed input, split at LF; `LineOK` asks of each line what `C01_parse_iff` asks of an
    input: JSON-only white space at its edges (a trailing CR is JSON white space), below 2^50 bytes, not `outside`. -/
theorem C08_parseND_iff_lines (cfg : Cfg) (input : Bytes) (he : EdgeOK input) (hsz : SizeOK (trimSpace input))
    (hin : Spec.ndText (jsonTrim input).toList ≠ .outside)
    (hl : ∀ l ∈ lines (jsonTrim input).toList, LineOK l) :
    (∃ pj, parseND cfg input = .ok pj) ↔
      (lines (jsonTrim input).toList ≠ [] ∧ ∀ l ∈ lines (jsonTrim input).toList, ∃ pj, parse cfg l.toArray = .ok pj) :=
  parseND_iff_lines cfg input he hsz hin hl

end SJ.Properties.C08
