import SJ.Proofs.Tables
/-
C08 — ParseND equals parsing each non-blank line.
-/
namespace SJ.Properties.C08
open SJ SJ.Tables

/-- The line delimiter the kernels look for is LF, in both families. -/
theorem C08_newline (b : UInt8) : isNewlineByte b = (b == 10) := classify_newline b
theorem C08_newline_shared : Generated.aNewlineByte = Generated.aNewlineByte512 := asm_tables_shared.2.1

/-- CR is white space (so CRLF endings are invisible), LF is white space (so it is never a pseudo-structural) -/
theorem C08_crlf : isWsByte 13 = true ∧ isWsByte 10 = true := by decide +kernel

end SJ.Properties.C08
