import SJ.Model.StreamQueue
/-
Results are delivered in chunk order whatever order the chunk parsers finish in.
-/
namespace SJ.StreamQueue

structure Inv (s : St) : Prop where
  deliv : s.delivered = List.range s.delivered.length
  bound : s.delivered.length ≤ s.spawned
  compl : ∀ k ∈ s.completed, k < s.spawned

theorem inv_step (s s' : St) (e : Ev) (h : Inv s) (hs : step s e = some s') : Inv s' := by
  cases e with
  | spawn =>
    simp only [step, Option.some.injEq] at hs; subst hs
    exact ⟨h.deliv, by have := h.bound; simp; omega, fun k hk => by have := h.compl k hk; simp; omega⟩
  | complete k =>
    simp only [step] at hs
    split at hs
    · rename_i hg
      cases hs
      refine ⟨h.deliv, h.bound, fun j hj => ?_⟩
      simp only [List.mem_cons] at hj
      rcases hj with hj | hj
      · subst hj; exact hg.1
      · exact h.compl j hj
    · cases hs
  | forward =>
    simp only [step] at hs
    split at hs
    · rename_i hg
      cases hs
      refine ⟨?_, by simp; omega, h.compl⟩
      simp only [List.length_append, List.length_singleton, List.range_succ]
      rw [← h.deliv]
    · cases hs

theorem inv_run : ∀ (evs : List Ev) (s s' : St), Inv s → run s evs = some s' → Inv s'
  | [], s, s', h, hr => by simp [run] at hr; subst hr; exact h
  | e :: es, s, s', h, hr => by
    simp only [run] at hr
    split at hr
    · rename_i s1 hs1
      exact inv_run es s1 s' (inv_step s s1 e h hs1) hr
    · cases hr

/-- **Order of delivery.** For every interleaving of the reader, the chunk parsers (finishing in any order) and the
    forwarder, what has been delivered is exactly chunks `0, 1, …, n−1` in that order — none skipped, repeated or
    overtaken. -/
theorem delivered_in_order (evs : List Ev) (s : St) (hr : run {} evs = some s) :
    s.delivered = List.range s.delivered.length ∧ s.delivered.length ≤ s.spawned :=
  let h := inv_run evs {} s ⟨rfl, Nat.le_refl _, fun _ hk => by cases hk⟩ hr
  ⟨h.deliv, h.bound⟩

/-- The forwarder is never stuck for good: once the oldest outstanding parser has completed, `forward` is enabled. -/
theorem forward_enabled (s : St) (h1 : s.delivered.length < s.spawned) (h2 : s.delivered.length ∈ s.completed) :
    (step s .forward).isSome = true := by
  simp [step, h1, h2]

/-- non-vacuity: three chunks finishing in the order 2, 0, 1 -/
example : (run {} [.spawn, .spawn, .spawn, .complete 2, .complete 0, .forward, .complete 1, .forward, .forward]).map (·.delivered) = some [0, 1, 2] := by
  decide

end SJ.StreamQueue
