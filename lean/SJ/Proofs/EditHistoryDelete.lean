import SJ.Proofs.EditHistory
import SJ.Proofs.DeleteDoc
set_option linter.unusedVariables false
/-
EditHistoryDelete — histories that mix the in-place replacements of `EditHistory` (`Set*`) with DELETIONS
(`Array.DeleteElems`, `Object.DeleteElems`, C14).

The single-step deletion theorems (`DeleteDoc.arrDeleteElems_arr_fuelOf`, `deleteElems_obj_fuelOf`) start from the
view `i.Array()` / `i.Object()` of an iterator standing on the container (`array_view`, `object_view`); with
`iterOn` that is a uniform positioning, so ONE operation type covers everything:

* `DOp`          an `EOp`, or `deleteArr q pred`, or `deleteObj q pred onlyKeys` — the selection exactly as the model
                 takes it: `pred k` answers the `k`-th callback of `Array.DeleteElems`, `pred k key` the `k`-th callback
                 of `Object.DeleteElems` (`fn == nil` is `fun _ _ => true`), `onlyKeys` the key filter
* `applyDOp(s)`  `iterOn pj q` → `.array`/`.object` → `.Iter()` → the model's `DeleteElems` with the driver's fuel
* `absDOp(s)`    `substV q (container with filterVs / filterMs applied)`; the deleted members' words become gaps
* `history_delete`, `history_delete_readback`: `Ok`, `Tight`, message, tape size, string buffer, and every reader
                 sees `absDOps v ops`, across any sequence of deletions and replacements
-/
namespace SJ.EditHistory
open SJ SJ.Generated SJ.Layout SJ.WalkLayout SJ.DeleteDoc

/-! ## 1. Operations -/

inductive DOp where
  | edit (op : EOp)
  | deleteArr (q : Nat) (pred : Nat → Bool)
  | deleteObj (q : Nat) (pred : Nat → Bytes → Bool) (onlyKeys : List Bytes)

def DOp.pos : DOp → Nat
  | .edit op => op.pos
  | .deleteArr q _ => q
  | .deleteObj q _ _ => q

def DOp.appended : DOp → Bytes
  | .edit op => op.appended
  | _ => #[]

/-- `Array.DeleteElems` / `Object.DeleteElems` called as the API does: `i.Array()` resp. `i.Object()` on the iterator
    standing on the container, `Iter()` of that view, the loop with the driver's fuel; callbacks dropped -/
def applyDOp (pj : PJ) : DOp → Res PJ
  | .edit op => applyOp pj op
  | .deleteArr q pred => do
    let a ← (iterOn pj q).array
    fstR (View.arrDeleteElems pj pred a.iter 0 #[] (fuelOf pj))
  | .deleteObj q pred onlyKeys => do
    let o ← (iterOn pj q).object
    fstR (View.deleteElems pj pred onlyKeys o.iter 0 #[] (fuelOf pj))

def applyDOps (pj : PJ) : List DOp → Res PJ
  | [] => .ok pj
  | op :: r => applyDOp pj op >>= fun pj' => applyDOps pj' r

/-- the effect on the located document: the container found at `q` keeps its extent and loses the selected
    members (their words are a gap, which a located document does not record); survivors keep their positions -/
def absDOp (v : LVal) : DOp → LVal
  | .edit op => absOp v op
  | .deleteArr q pred =>
    match findV q v with
    | some (.arr p e es) => substV q (.arr p e (filterVs pred 0 es)) v
    | _ => v
  | .deleteObj q pred onlyKeys =>
    match findV q v with
    | some (.obj p e ms) => substV q (.obj p e (filterMs pred onlyKeys 0 ms)) v
    | _ => v

def absDOps (v : LVal) : List DOp → LVal
  | [] => v
  | op :: r => absDOps (absDOp v op) r

def appendedAllD : List DOp → Bytes
  | [] => #[]
  | op :: r => op.appended ++ appendedAllD r

/-- an `EOp` history is a `DOp` history -/
theorem applyDOps_edit (pj : PJ) (ops : List EOp) : applyDOps pj (ops.map .edit) = applyOps pj ops := by
  induction ops generalizing pj with
  | nil => rfl
  | cons op r ih =>
    simp only [List.map_cons, applyDOps, applyOps, applyDOp]
    cases applyOp pj op with
    | ok pj1 => exact ih pj1
    | error e => rfl
    | panic => rfl
    | diverge => rfl
theorem absDOps_edit (v : LVal) (ops : List EOp) : absDOps v (ops.map .edit) = absOps v ops := by
  induction ops generalizing v with
  | nil => rfl
  | cons op r ih => simp only [List.map_cons, absDOps, absOps, absDOp]; exact ih _

/-! ## 2. `findV`: position and tightness of the node found -/

mutual
theorem find_pos (q : Nat) (n : LVal) : ∀ v : LVal, findV q v = some n → n.pos = q
  | .null p, h => by simp only [findV] at h; split at h <;> cases h; assumption
  | .bool b p, h => by simp only [findV] at h; split at h <;> cases h; assumption
  | .int w p, h => by simp only [findV] at h; split at h <;> cases h; assumption
  | .uint w p, h => by simp only [findV] at h; split at h <;> cases h; assumption
  | .float b g p, h => by simp only [findV] at h; split at h <;> cases h; assumption
  | .str s p, h => by simp only [findV] at h; split at h <;> cases h; assumption
  | .arr p e es, h => by
    simp only [findV] at h; split at h
    · cases h; assumption
    · exact finds_pos q n es h
  | .obj p e ms, h => by
    simp only [findV] at h; split at h
    · cases h; assumption
    · exact findsM_pos q n ms h
theorem finds_pos (q : Nat) (n : LVal) : ∀ vs : LVals, findVs q vs = some n → n.pos = q
  | .nil, h => by simp [findVs] at h
  | .cons v vs, h => by
    simp only [findVs] at h
    split at h
    · rename_i m hm; cases h; exact find_pos q n v hm
    · exact finds_pos q n vs h
theorem findsM_pos (q : Nat) (n : LVal) : ∀ ms : LMems, findMs q ms = some n → n.pos = q
  | .nil, h => by simp [findMs] at h
  | .cons pk k v ms, h => by
    simp only [findMs] at h
    split at h
    · rename_i m hm; cases h; exact find_pos q n v hm
    · exact findsM_pos q n ms h
end

mutual
theorem find_tight (q : Nat) (n : LVal) : ∀ v : LVal, Tight v → findV q v = some n → Tight n
  | .null p, ht, h => by simp only [findV] at h; split at h <;> cases h; exact ht
  | .bool b p, ht, h => by simp only [findV] at h; split at h <;> cases h; exact ht
  | .int w p, ht, h => by simp only [findV] at h; split at h <;> cases h; exact ht
  | .uint w p, ht, h => by simp only [findV] at h; split at h <;> cases h; exact ht
  | .float b g p, ht, h => by simp only [findV] at h; split at h <;> cases h; exact ht
  | .str s p, ht, h => by simp only [findV] at h; split at h <;> cases h; exact ht
  | .arr p e es, ht, h => by
    simp only [findV] at h; split at h
    · cases h; exact ht
    · simp only [Tight] at ht; exact finds_tight q n es ht h
  | .obj p e ms, ht, h => by
    simp only [findV] at h; split at h
    · cases h; exact ht
    · simp only [Tight] at ht; exact findsM_tight q n ms ht h
theorem finds_tight (q : Nat) (n : LVal) : ∀ vs : LVals, TightVs vs → findVs q vs = some n → Tight n
  | .nil, _, h => by simp [findVs] at h
  | .cons v vs, ht, h => by
    simp only [TightVs] at ht
    simp only [findVs] at h
    split at h
    · rename_i m hm; cases h; exact find_tight q n v ht.1 hm
    · exact finds_tight q n vs ht.2 h
theorem findsM_tight (q : Nat) (n : LVal) : ∀ ms : LMems, TightMs ms → findMs q ms = some n → Tight n
  | .nil, _, h => by simp [findMs] at h
  | .cons pk k v ms, ht, h => by
    simp only [TightMs] at ht
    simp only [findMs] at h
    split at h
    · rename_i m hm; cases h; exact find_tight q n v ht.2.1 hm
    · exact findsM_tight q n ms ht.2.2 h
end

mutual
/-- if some node starts at `q`, `findV` finds one -/
theorem find_complete (q f : Nat) : ∀ v : LVal, HasNode q f v → ∃ n, findV q v = some n
  | .null p, h => by simp only [HasNode] at h; exact ⟨_, by simp only [findV]; rw [if_pos (show p = q from h.1)]⟩
  | .bool b p, h => by simp only [HasNode] at h; exact ⟨_, by simp only [findV]; rw [if_pos (show p = q from h.1)]⟩
  | .int w p, h => by simp only [HasNode] at h; exact ⟨_, by simp only [findV]; rw [if_pos (show p = q from h.1)]⟩
  | .uint w p, h => by simp only [HasNode] at h; exact ⟨_, by simp only [findV]; rw [if_pos (show p = q from h.1)]⟩
  | .float b g p, h => by simp only [HasNode] at h; exact ⟨_, by simp only [findV]; rw [if_pos (show p = q from h.1)]⟩
  | .str s p, h => by simp only [HasNode] at h; exact ⟨_, by simp only [findV]; rw [if_pos (show p = q from h.1)]⟩
  | .arr p e es, h => by
    simp only [HasNode] at h
    simp only [findV]
    by_cases hp : p = q
    · exact ⟨_, by rw [if_pos hp]⟩
    · rw [if_neg hp]
      rcases h with h | h
      · exact absurd h.1 hp
      · exact finds_complete q f es h
  | .obj p e ms, h => by
    simp only [HasNode] at h
    simp only [findV]
    by_cases hp : p = q
    · exact ⟨_, by rw [if_pos hp]⟩
    · rw [if_neg hp]
      rcases h with h | h
      · exact absurd h.1 hp
      · exact findsM_complete q f ms h
theorem finds_complete (q f : Nat) : ∀ vs : LVals, HasNodeVs q f vs → ∃ n, findVs q vs = some n
  | .nil, h => by simp [HasNodeVs] at h
  | .cons v vs, h => by
    simp only [HasNodeVs] at h
    simp only [findVs]
    cases hv : findV q v with
    | some m => exact ⟨m, rfl⟩
    | none =>
      rcases h with h | h
      · obtain ⟨n, hn⟩ := find_complete q f v h; rw [hv] at hn; cases hn
      · exact finds_complete q f vs h
theorem findsM_complete (q f : Nat) : ∀ ms : LMems, HasNodeMs q f ms → ∃ n, findMs q ms = some n
  | .nil, h => by simp [HasNodeMs] at h
  | .cons pk k v ms, h => by
    simp only [HasNodeMs] at h
    simp only [findMs]
    cases hv : findV q v with
    | some m => exact ⟨m, rfl⟩
    | none =>
      rcases h with h | h
      · obtain ⟨n, hn⟩ := find_complete q f v h; rw [hv] at hn; cases hn
      · exact findsM_complete q f ms h
end

/-! ## 3. The abstract effect keeps position and tightness -/

theorem absDOp_pos (v : LVal) (op : DOp) : (absDOp v op).pos = v.pos := by
  cases op with
  | edit op => exact absOp_pos v op
  | deleteArr q pred =>
    simp only [absDOp]
    split
    · rename_i p e es h
      exact substV_pos q (.arr p e (filterVs pred 0 es)) (show p = q from find_pos q _ v h) v
    · rfl
  | deleteObj q pred ks =>
    simp only [absDOp]
    split
    · rename_i p e ms h
      exact substV_pos q (.obj p e (filterMs pred ks 0 ms)) (show p = q from find_pos q _ v h) v
    · rfl

/-- **Deletion keeps documents tight**: key and value go together, survivors do not move. -/
theorem absDOp_tight (v : LVal) (op : DOp) (ht : Tight v) : Tight (absDOp v op) := by
  cases op with
  | edit op => exact absOp_tight v op ht
  | deleteArr q pred =>
    simp only [absDOp]
    split
    · rename_i p e es h
      have hn := find_tight q _ v ht h
      simp only [Tight] at hn
      exact subst_tight q (.arr p e (filterVs pred 0 es)) (show p = q from find_pos q _ v h)
        (by simp only [Tight]; exact tight_filterVs pred es 0 hn) v ht
    · exact ht
  | deleteObj q pred ks =>
    simp only [absDOp]
    split
    · rename_i p e ms h
      have hn := find_tight q _ v ht h
      simp only [Tight] at hn
      exact subst_tight q (.obj p e (filterMs pred ks 0 ms)) (show p = q from find_pos q _ v h)
        (by simp only [Tight]; exact tight_filterMs pred ks ms 0 hn) v ht
    · exact ht

theorem absDOps_pos (v : LVal) (ops : List DOp) : (absDOps v ops).pos = v.pos := by
  induction ops generalizing v with
  | nil => rfl
  | cons op r ih => simp only [absDOps]; rw [ih, absDOp_pos]
theorem absDOps_tight (v : LVal) (ops : List DOp) (h : Tight v) : Tight (absDOps v ops) := by
  induction ops generalizing v with
  | nil => exact h
  | cons op r ih => exact ih _ (absDOp_tight v op h)

/-- `fn == nil`: the documented contract of `Object.DeleteElems(nil, onlyKeys)`, on documents -/
theorem absDOp_nilfn (v : LVal) (q : Nat) (ks : List Bytes) (p e : Nat) (ms : LMems)
    (h : findV q v = some (.obj p e ms)) :
    absDOp v (.deleteObj q (fun _ _ => true) ks) = substV q (.obj p e (nilFnResult ks ms)) v := by
  simp only [absDOp, h, filterMs_true]

/-! ## 4. Validity -/

/-- a replacement is valid as in `EditHistory`; a deletion is valid when the node at `q` is an array resp. an
    object (and the skip counts fit the payload: tape shorter than 2^56 words) -/
def ValidD (pj : PJ) (v : LVal) : DOp → Prop
  | .edit op => Valid pj v op
  | .deleteArr q _ => (∃ p e es, findV q v = some (.arr p e es)) ∧ pj.tape.size < 2^56
  | .deleteObj q _ _ => (∃ p e ms, findV q v = some (.obj p e ms)) ∧ pj.tape.size < 2^56

def ValidSeqD (pj : PJ) (v : LVal) : List DOp → Prop
  | [] => True
  | op :: r => ValidD pj v op ∧ ∀ pj', applyDOp pj op = .ok pj' → ValidSeqD pj' (absDOp v op) r

/-- the same, read on the tape: a node starts at `q` and the word there carries the tag `Array()` checks -/
theorem validD_arr_of_tag (pj : PJ) (v : LVal) (hok : Ok pj v) (q e : Nat) (pred : Nat → Bool)
    (hnode : HasNode q e v) (htag : tagAt pj q = tagArrayStart) (hsmall : pj.tape.size < 2^56) :
    ValidD pj v (.deleteArr q pred) := by
  obtain ⟨n, hfind⟩ := find_complete q e v hnode
  obtain ⟨hn, hp, _⟩ := find_sound pj q n v hok hfind
  obtain ⟨w, hw, ht⟩ := ok_head pj n hn
  rw [hp] at hw
  rw [tagAt_of hw, ht] at htag
  refine ⟨?_, hsmall⟩
  cases n with
  | arr p e es => exact ⟨p, e, es, hfind⟩
  | bool b p => cases b <;> simp only [tagOfL, if_true, Bool.false_eq_true, if_false] at htag <;> exact absurd htag (by decide)
  | _ => simp only [tagOfL] at htag; exact absurd htag (by decide)

theorem validD_obj_of_tag (pj : PJ) (v : LVal) (hok : Ok pj v) (q e : Nat) (pred : Nat → Bytes → Bool) (ks : List Bytes)
    (hnode : HasNode q e v) (htag : tagAt pj q = tagObjectStart) (hsmall : pj.tape.size < 2^56) :
    ValidD pj v (.deleteObj q pred ks) := by
  obtain ⟨n, hfind⟩ := find_complete q e v hnode
  obtain ⟨hn, hp, _⟩ := find_sound pj q n v hok hfind
  obtain ⟨w, hw, ht⟩ := ok_head pj n hn
  rw [hp] at hw
  rw [tagAt_of hw, ht] at htag
  refine ⟨?_, hsmall⟩
  cases n with
  | obj p e ms => exact ⟨p, e, ms, hfind⟩
  | bool b p => cases b <;> simp only [tagOfL, if_true, Bool.false_eq_true, if_false] at htag <;> exact absurd htag (by decide)
  | _ => simp only [tagOfL] at htag; exact absurd htag (by decide)

/-- `Array()` / `Object()` refuse any other tag: no tape is produced -/
theorem applyDOp_deleteArr_refused (pj : PJ) (q : Nat) (pred : Nat → Bool) (h : tagAt pj q ≠ tagArrayStart) :
    applyDOp pj (.deleteArr q pred) = .error .generic := by
  have : ((iterOn pj q).t != tagArrayStart) = true := by rw [iterOn_t]; simpa using h
  simp only [applyDOp, Iter.array, this, if_true]
  rfl
theorem applyDOp_deleteObj_refused (pj : PJ) (q : Nat) (pred : Nat → Bytes → Bool) (ks : List Bytes)
    (h : tagAt pj q ≠ tagObjectStart) : applyDOp pj (.deleteObj q pred ks) = .error .generic := by
  have : ((iterOn pj q).t != tagObjectStart) = true := by rw [iterOn_t]; simpa using h
  simp only [applyDOp, Iter.object, this, if_true]
  rfl

/-! ## 5. One step -/

theorem stepD (pj : PJ) (v : LVal) (op : DOp) (hok : Ok pj v) (hv : ValidD pj v op) :
    ∃ pj', applyDOp pj op = .ok pj' ∧ Ok pj' (absDOp v op) ∧ pj'.strings = pj.strings ++ op.appended ∧
      pj'.msg = pj.msg ∧ pj'.tape.size = pj.tape.size := by
  cases op with
  | edit op => exact step pj v op hok hv
  | deleteArr q pred =>
    obtain ⟨⟨p, e, es, hfind⟩, hsmall⟩ := hv
    obtain ⟨hn, hp, hnode⟩ := find_sound pj q _ v hok hfind
    have hp' : p = q := hp
    subst hp'
    have hon : OnNode pj (.arr p e es) (iterOn pj p) := iterOn_onNode pj _ hn
    have hview : (iterOn pj p).array = .ok { lim := e, off := p + 1 } := (array_view pj p e es _ hn hon).1
    obtain ⟨pj', its, hr, _, hn', hA, hs, hm, hz, _⟩ := arrDeleteElems_arr_fuelOf pj p e es pred hn hsmall
    have hpe : p + 2 ≤ e := by simp only [Ok] at hn; exact hn.1
    refine ⟨pj', ?_, ?_, by simp [DOp.appended, hs], hm, hz⟩
    · simp only [applyDOp, hview, Res.bind_ok, hr, fstR]
    · simp only [absDOp, hfind]
      exact (subst_ok (q := p) (f := e) (hA.widen (by omega) (by omega)) hn' rfl (Nat.le_refl _) (gap_refl _ _) v hok hnode).1
  | deleteObj q pred ks =>
    obtain ⟨⟨p, e, ms, hfind⟩, hsmall⟩ := hv
    obtain ⟨hn, hp, hnode⟩ := find_sound pj q _ v hok hfind
    have hp' : p = q := hp
    subst hp'
    have hon : OnNode pj (.obj p e ms) (iterOn pj p) := iterOn_onNode pj _ hn
    have hview : (iterOn pj p).object = .ok { lim := e, off := p + 1 } := (object_view pj p e ms _ hn hon).1
    obtain ⟨pj', cbs, hr, _, hn', hA, hs, hm, hz, _⟩ := deleteElems_obj_fuelOf pj p e ms pred ks hn hsmall
    have hpe : p + 2 ≤ e := by simp only [Ok] at hn; exact hn.1
    refine ⟨pj', ?_, ?_, by simp [DOp.appended, hs], hm, hz⟩
    · simp only [applyDOp, hview, Res.bind_ok, hr, fstR]
    · simp only [absDOp, hfind]
      exact (subst_ok (q := p) (f := e) (hA.widen (by omega) (by omega)) hn' rfl (Nat.le_refl _) (gap_refl _ _) v hok hnode).1

/-! ## 6. Histories with deletions -/

/-- **Main theorem.** Every valid sequence of replacements and deletions succeeds; the tape then holds the document
    with all of them made, in order; it stays tight; message and tape size are those of the start; the string
    buffer has grown by exactly the `SetString` arguments. -/
theorem history_delete : ∀ (ops : List DOp) (pj : PJ) (v : LVal), Ok pj v → Tight v → ValidSeqD pj v ops →
    ∃ pj', applyDOps pj ops = .ok pj' ∧ Ok pj' (absDOps v ops) ∧ Tight (absDOps v ops) ∧ pj'.msg = pj.msg ∧
      pj'.tape.size = pj.tape.size ∧ pj'.strings = pj.strings ++ appendedAllD ops := by
  intro ops
  induction ops with
  | nil =>
    intro pj v hok ht _
    exact ⟨pj, rfl, hok, ht, rfl, rfl, by simp [appendedAllD]⟩
  | cons op r ih =>
    intro pj v hok ht hv
    obtain ⟨hv1, hv2⟩ := hv
    obtain ⟨pj1, h1, h2, h3, h4, h5⟩ := stepD pj v op hok hv1
    obtain ⟨pj', g1, g2, g3, g4, g5, g6⟩ := ih pj1 (absDOp v op) h2 (absDOp_tight v op ht) (hv2 pj1 h1)
    refine ⟨pj', ?_, g2, g3, g4.trans h4, g5.trans h5, ?_⟩
    · simp only [applyDOps, h1, Res.bind_ok]; exact g1
    · rw [g6, h3, appendedAllD, Array.append_assoc]

/-- **Every traversal agrees on the remaining document**, across any sequence of deletions and replacements: any
    iterator standing on the document in the final tape reads back exactly `absDOps v ops`. -/
theorem history_delete_readback (ops : List DOp) (pj : PJ) (v : LVal) (hok : Ok pj v) (ht : Tight v)
    (hv : ValidSeqD pj v ops) :
    ∃ pj', applyDOps pj ops = .ok pj' ∧
      ∀ (j : Iter) (fuel : Nat), OnNode pj' (absDOps v ops) j → 2 * (j.lim - j.off) + 2 < fuel →
        owalkValue pj' j fuel = .ok (toOVal (absDOps v ops)) := by
  obtain ⟨pj', h1, h2, h3, _⟩ := history_delete ops pj v hok ht hv
  exact ⟨pj', h1, fun j fuel hon hf => owalkValue_node pj' _ j fuel h2 h3 hon hf⟩

theorem history_delete_readback_iterOn (ops : List DOp) (pj : PJ) (v : LVal) (hok : Ok pj v) (ht : Tight v)
    (hv : ValidSeqD pj v ops) :
    ∃ pj', applyDOps pj ops = .ok pj' ∧
      owalkValue pj' (iterOn pj' v.pos) (fuelOf pj') = .ok (toOVal (absDOps v ops)) := by
  obtain ⟨pj', h1, h2, h3, _⟩ := history_delete ops pj v hok ht hv
  refine ⟨pj', h1, ?_⟩
  have hon := iterOn_onNode pj' _ h2
  rw [absDOps_pos] at hon
  exact owalkValue_node_fuelOf pj' _ _ h2 h3 hon (by rw [iterOn_lim]; exact Nat.le_refl _)

/-! ## 7. Validity on documents -/

def ValidDA (ssz tsz : Nat) (v : LVal) : DOp → Prop
  | .edit op => ValidA ssz tsz v op
  | .deleteArr q _ => (∃ p e es, findV q v = some (.arr p e es)) ∧ tsz < 2^56
  | .deleteObj q _ _ => (∃ p e ms, findV q v = some (.obj p e ms)) ∧ tsz < 2^56

def ValidSeqDA (ssz tsz : Nat) (v : LVal) : List DOp → Prop
  | [] => True
  | op :: r => ValidDA ssz tsz v op ∧ ValidSeqDA (ssz + op.appended.size) tsz (absDOp v op) r

theorem validDA_validD (pj : PJ) (v : LVal) (hok : Ok pj v) (op : DOp)
    (h : ValidDA pj.strings.size pj.tape.size v op) : ValidD pj v op := by
  cases op with
  | edit op => exact validA_valid pj v hok op h
  | deleteArr q pred => exact h
  | deleteObj q pred ks => exact h

theorem validSeqD_of_abs : ∀ (ops : List DOp) (pj : PJ) (v : LVal), Ok pj v →
    ValidSeqDA pj.strings.size pj.tape.size v ops → ValidSeqD pj v ops := by
  intro ops
  induction ops with
  | nil => intro pj v _ _; trivial
  | cons op r ih =>
    intro pj v hok hv
    obtain ⟨hv1, hv2⟩ := hv
    have hvalid := validDA_validD pj v hok op hv1
    refine ⟨hvalid, fun pj' hp => ?_⟩
    obtain ⟨pj1, h1, h2, h3, h4, h5⟩ := stepD pj v op hok hvalid
    have hdet : pj1 = pj' := by rw [h1] at hp; cases hp; rfl
    subst hdet
    apply ih pj1 _ h2
    rw [h3, h5, Array.size_append]
    exact hv2

theorem history_delete_abs (ops : List DOp) (pj : PJ) (v : LVal) (hok : Ok pj v) (ht : Tight v)
    (hv : ValidSeqDA pj.strings.size pj.tape.size v ops) :
    ∃ pj', applyDOps pj ops = .ok pj' ∧ Ok pj' (absDOps v ops) ∧ Tight (absDOps v ops) ∧ pj'.msg = pj.msg ∧
      pj'.tape.size = pj.tape.size ∧ pj'.strings = pj.strings ++ appendedAllD ops :=
  history_delete ops pj v hok ht (validSeqD_of_abs ops pj v hok hv)

/-! ## 8. Non-vacuity: `[1,"a",{"k":true}]` — delete the middle element, `SetInt` on a survivor, delete `k` -/

def exDOps : List DOp :=
  [.deleteArr 1 (fun k => k == 1), .edit (.setInt 2 9), .deleteObj 6 (fun _ _ => true) [#[107]]]

/-- `[9,{}]`, the survivors at their old positions -/
def exDocD' : LVal := .arr 1 12 (.cons (.int (ofInt64 9) 2) (.cons (.obj 6 11 .nil) .nil))

def exPJD' : PJ :=
  { tape := #[mkWord tagRoot 13, mkWord tagArrayStart 12, mkWord tagInteger 0, ofInt64 9, mkWord tagNop 2, mkWord tagNop 1,
              mkWord tagObjectStart 11, mkWord tagNop 3, mkWord tagNop 2, mkWord tagNop 1, mkWord tagObjectEnd 6,
              mkWord tagArrayEnd 1, mkWord tagRoot 0],
    strings := #[], msg := #[97, 107] }

theorem exAbsD : absDOps exDoc exDOps = exDocD' := by rfl

theorem exValidDA : ValidSeqDA exPJ.strings.size exPJ.tape.size exDoc exDOps :=
  And.intro ⟨⟨_, _, _, rfl⟩, by decide⟩ <| And.intro ⟨_, rfl, rfl, trivial⟩ <|
  And.intro ⟨⟨_, _, _, rfl⟩, by decide⟩ trivial

theorem exValidD : ValidSeqD exPJ exDoc exDOps := validSeqD_of_abs exDOps exPJ exDoc exOk exValidDA

/-- the model, run on the concrete tape -/
theorem exRunD : applyDOps exPJ exDOps = .ok exPJD' := resIs_eq (by decide +kernel)

/-- the hypotheses of `history_delete` are satisfiable, and its conclusion is what the run shows -/
example : Ok exPJD' exDocD' ∧ Tight exDocD' ∧
    owalkValue exPJD' (iterOn exPJD' 1) (fuelOf exPJD') = .ok (.arr [.int 9, .obj []]) := by
  obtain ⟨pj', h1, h2, h3, _⟩ := history_delete exDOps exPJ exDoc exOk exTight exValidD
  obtain ⟨pj'', g1, g2⟩ := history_delete_readback_iterOn exDOps exPJ exDoc exOk exTight exValidD
  rw [exRunD] at h1 g1
  cases h1; cases g1
  rw [exAbsD] at h2 h3 g2
  exact ⟨h2, h3, g2⟩

/-- a refused deletion: `Array.DeleteElems` on the object at 6 -/
example : applyDOp exPJ (.deleteArr 6 (fun _ => true)) = .error .generic :=
  applyDOp_deleteArr_refused _ _ _ (by decide)

end SJ.EditHistory
